package main

import (
	"fmt"
	"go/token"
	"strings"

	"golang.org/x/tools/go/ssa"
)

func init() {
	register(&propDef{
		id: "C34", run: runC34, minOblig: 10,
		explanation: "Decides the client-auth discipline: (sign only accepted keys) in publicKeyCallback.auth every path of a loop iteration to SignWithAlgorithm crosses validateKey(pub, algo, …) == true for the public key of the same signer and the same algorithm value, the signer asked is the one pickSignatureAlgorithm returned, the algorithm requested is underlyingAlgo(algo), and the key bytes sent are pub.Marshal(); confirmKeyAck returns true only behind the algorithm-membership test on the PK_OK message and bytes.Equal of its key with ours; (follow the server's list) in clientAuthenticate the next method is taken from config.Auth only behind 'not in tried' and equality with an element of the server's method list; that list is replaced by the previous one only on the 'methods == nil' edge of the auth result (an empty non-nil list means no method can continue); authSuccess returns nil at once; (bounded) every cycle of the method loop crosses the maxAuthClientTried test; (algorithm choice) pickSignatureAlgorithm returns findCommon(signer-ordered key algorithms, server algorithms) with the client flag, or the documented fallback. NOT decided: behaviour against every server script.",
		assumptions: []string{"AuthMethod implementations supplied by users are out of scope"},
	})
	tech("C34", "iteration-local must-cross CFG rules, argument provenance, nil-vs-empty edge classification, cycle-must-cross")
}

func runC34(c *Ctx) {
	// ---- (a) publicKeyCallback.auth
	if f := c.fn("ssh", "(publicKeyCallback).auth"); f != nil {
		sw := calls(f, nameIs("invoke:(ssh.AlgorithmSigner).SignWithAlgorithm", "invoke:(ssh.MultiAlgorithmSigner).SignWithAlgorithm"))
		vk := callsNamed(f, "ssh.validateKey")
		pk := callsNamed(f, "ssh.pickSignatureAlgorithm")
		if len(sw) != 1 || len(vk) != 1 || len(pk) != 1 {
			c.fail("C34.sign-accepted", "(publicKeyCallback).auth", f, fmt.Sprintf("anchors: %d SignWithAlgorithm, %d validateKey, %d pickSignatureAlgorithm", len(sw), len(vk), len(pk)))
		} else {
			h := innermostLoopHeader(sw[0].Block())
			pass := callSuccess(vk, 0, isTrue)
			okCross := h != nil && len(pass) > 0
			if okCross {
				cut := edgeSet{}
				cut.addAll(pass)
				for k := range backEdges(f) {
					cut[k] = true
				}
				okCross = !reach([]*ssa.BasicBlock{h}, cut)[sw[0].Block()]
			}
			c.check(okCross, "C34.sign-accepted", "(publicKeyCallback).auth", sw[0], "a signature is produced only after the server acknowledged this key in the same iteration", "SignWithAlgorithm is reachable without validateKey(...) == true in the same iteration")
			// provenance
			pkc := pk[0].(*ssa.Call)
			as, algo := resultN(pkc, 0), resultN(pkc, 1)
			signer := pkc.Call.Args[0]
			okArgs := len(as) == 1 && len(algo) == 1
			detail := ""
			if okArgs {
				// validateKey(pub, algo,…): pub = signer.PublicKey()
				pub, _ := vk[0].Common().Args[0].(*ssa.Call)
				if pub == nil || !pub.Call.IsInvoke() || pub.Call.Method.Name() != "PublicKey" || pub.Call.Value != signer {
					okArgs, detail = false, "validateKey is not asked about the public key of the signer being tried"
				}
				if vk[0].Common().Args[1] != algo[0] {
					okArgs, detail = false, "validateKey and the signature use different algorithms"
				}
				if sw[0].Common().Value != as[0] {
					okArgs, detail = false, "the signature is not produced by the signer returned by pickSignatureAlgorithm"
				}
				a := sw[0].Common().Args
				if ua, isC := a[len(a)-1].(*ssa.Call); !isC || short(calleeName(&ua.Call)) != "ssh.underlyingAlgo" || ua.Call.Args[0] != algo[0] {
					okArgs, detail = false, "the signer is not asked for underlyingAlgo(algo)"
				}
				// signed data: buildDataSignedForAuth(session, …, algo, pub.Marshal())
				if bd, isC := a[1].(*ssa.Call); !isC || short(calleeName(&bd.Call)) != "ssh.buildDataSignedForAuth" || bd.Call.Args[0] != ssa.Value(f.Params[1]) || bd.Call.Args[2] != algo[0] {
					okArgs, detail = false, "the signed data is not buildDataSignedForAuth(session, request, algo, key)"
				} else if mk, isC := bd.Call.Args[3].(*ssa.Call); !isC || mk.Call.Value != ssa.Value(pub) || mk.Call.Method.Name() != "Marshal" {
					okArgs, detail = false, "the signed data does not contain the offered key's bytes"
				}
			}
			c.check(okArgs, "C34.sign-accepted", "(publicKeyCallback).auth arguments", sw[0], "same signer, key, and algorithm throughout query, signature and request", detail)
		}
	}
	if f := c.fn("ssh", "confirmKeyAck"); f != nil {
		acc := retTargets(f, func(r *ssa.Return) bool {
			b, ok := constBool(retVal(r, 0))
			return !ok || b
		})
		var algoPass, keyPass []edge
		for _, ci := range calls(f, nameIs("slices.Contains")) {
			if _, fld, _, ok := fieldOf(ci.Common().Args[1]); ok && fld == "Algo" {
				y, _ := successEdges(ci.(*ssa.Call), 0, isTrue)
				algoPass = append(algoPass, y...)
			}
		}
		for _, ci := range callsNamed(f, "bytes.Equal") {
			a := ci.Common().Args
			_, f0, _, ok0 := fieldOf(a[0])
			_, f1, _, ok1 := fieldOf(a[1])
			if (ok0 && f0 == "PubKey") || (ok1 && f1 == "PubKey") {
				y, _ := successEdges(ci.(*ssa.Call), 0, isTrue)
				keyPass = append(keyPass, y...)
			}
		}
		c.mustCross("C34.key-ack", "confirmKeyAck algorithm", f, instrsOf(acc), algoPass, "PK_OK algorithm is one valid for the key's format")
		c.mustCross("C34.key-ack", "confirmKeyAck key bytes", f, instrsOf(acc), keyPass, "PK_OK key bytes equal ours")
	}
	// ---- (b),(c) clientAuthenticate
	if f := c.fn("ssh", "(*connection).clientAuthenticate"); f != nil {
		var authCall *ssa.Call
		for _, ci := range calls(f, nameIs("invoke:(ssh.AuthMethod).auth")) {
			authCall = ci.(*ssa.Call)
		}
		if authCall == nil {
			c.fail("C34.method-list", "clientAuthenticate", f, "auth.auth call not found")
			return
		}
		h := innermostLoopHeader(authCall.Block())
		back := backEdges(f)
		methods := resultN(authCall, 1)
		// nil-vs-empty
		okNil := false
		detail := "no phi merging the server's list with the previous list"
		if len(methods) == 1 && h != nil {
			yes, no := edgesWhere(methods[0], isNil)
			for _, r := range *methods[0].Referrers() {
				ph, ok := r.(*ssa.Phi)
				if !ok {
					continue
				}
				okNil = len(yes) > 0
				detail = "the previous method list is reused on an edge other than 'methods == nil' (an empty list from the server must end the attempt, not revive stale methods)"
				for i, ev := range ph.Edges {
					pred := ph.Block().Preds[i]
					cutY := edgeSet{}
					cutY.addAll(yes)
					cutN := edgeSet{}
					cutN.addAll(no)
					for k := range back {
						cutY[k] = true
						cutN[k] = true
					}
					into := func(cut edgeSet) bool { // can the phi be entered from pred without crossing cut?
						if !reachAfter(authCall, cut)[pred] && authCall.Block() != pred {
							return false
						}
						for si, sb := range pred.Succs {
							if sb == ph.Block() && !cut[edge{pred, si}] {
								return true
							}
						}
						return false
					}
					if ev == methods[0] {
						if into(cutN) { // fresh list must arrive over a "!= nil" edge
							okNil = false
						}
					} else {
						if into(cutY) { // previous list only over "== nil"
							okNil = false
						}
					}
				}
			}
		}
		c.check(okNil, "C34.method-list", "clientAuthenticate nil-vs-empty method list", authCall, "the previous list is reused exactly when the method returned a nil list", detail)
		// next method selection
		var sel []ssa.Instruction // blocks where auth phi receives an element of config.Auth
		var notTried, inList []edge
		allInstrs(f, func(in ssa.Instruction) {
			if call, ok := in.(*ssa.Call); ok && short(calleeName(&call.Call)) == "slices.Contains" && h != nil && h.Dominates(call.Block()) {
				if _, isPhi := call.Call.Args[0].(*ssa.Phi); isPhi {
					_, no := successEdges(call, 0, isTrue)
					notTried = append(notTried, no...)
				}
			}
			if bo, ok := in.(*ssa.BinOp); ok && bo.Op == token.EQL && h != nil && h.Dominates(bo.Block()) {
				// meth == candidateMethod: one side a load of an element, other a call to .method()
				isMeth := func(v ssa.Value) bool {
					call, ok := v.(*ssa.Call)
					return ok && call.Call.IsInvoke() && call.Call.Method.Name() == "method"
				}
				isElem := func(v ssa.Value) bool {
					u, ok := v.(*ssa.UnOp)
					if !ok {
						return false
					}
					_, ok = u.X.(*ssa.IndexAddr)
					return ok
				}
				if (isMeth(bo.X) && isElem(bo.Y)) || (isMeth(bo.Y) && isElem(bo.X)) {
					y, _ := boolEdges(bo, true)
					inList = append(inList, y...)
				}
			}
		})
		// the loop-carried auth phi: header phi of interface type AuthMethod
		var authPhi *ssa.Phi
		if h != nil {
			for _, in := range h.Instrs {
				if p, ok := in.(*ssa.Phi); ok && strings.HasSuffix(p.Type().String(), "AuthMethod") {
					authPhi = p
				}
			}
		}
		okSel := authPhi != nil && len(notTried) > 0 && len(inList) > 0
		nSel := 0
		if okSel {
			for _, l := range phiLeaves(authPhi) {
				u, isLoad := l.val.(*ssa.UnOp)
				if !isLoad {
					continue
				}
				ia, isIA := u.X.(*ssa.IndexAddr)
				if !isIA {
					continue
				}
				if _, fld, _, ok := fieldOf(ia.X); !ok || fld != "Auth" {
					continue
				}
				nSel++
				sel = append(sel, u)
				for _, pass := range [][]edge{notTried, inList} {
					cut := edgeSet{}
					cut.addAll(pass)
					for k := range back {
						cut[k] = true
					}
					r := reachAfter(authCall, cut)
					if r[l.pred] {
						for si, sb := range l.pred.Succs {
							if sb == l.phi.Block() && !cut[edge{l.pred, si}] {
								okSel = false
							}
						}
					}
				}
			}
		}
		c.check(okSel && nSel >= 1, "C34.method-list", "clientAuthenticate next method", f, "a configured method is selected only if untried and named in the server's list", "a method from config.Auth can be selected although it was already tried or is not in the server's list")
		// success returns immediately
		okSucc := false
		succConst, _ := pkgConstInt(c, "ssh", "authSuccess")
		for _, v := range resultN(authCall, 0) {
			// value flows through a phi (ok = authFailure on error)
			var vals []ssa.Value
			vals = append(vals, v)
			for _, r := range *v.Referrers() {
				if ph, ok := r.(*ssa.Phi); ok {
					vals = append(vals, ph)
				}
			}
			for _, vv := range vals {
				es := edgesImplying(vv, []int64{0, 1, 2, 3}, func(d int64) bool { return d == succConst })
				for _, e := range es {
					blk := e.to()
					if r, ok := blk.Instrs[len(blk.Instrs)-1].(*ssa.Return); ok && isNilConst(retVal(r, 0)) {
						okSucc = true
					}
				}
			}
		}
		c.check(okSucc, "C34.success", "clientAuthenticate authSuccess", f, "authSuccess returns nil immediately", "authSuccess does not end authentication immediately")
		// nil-error return only on authSuccess
		var succEdges []edge
		for _, v := range resultN(authCall, 0) {
			vals := []ssa.Value{v}
			for _, r := range *v.Referrers() {
				if ph, ok := r.(*ssa.Phi); ok {
					vals = append(vals, ph)
				}
			}
			for _, vv := range vals {
				succEdges = append(succEdges, edgesImplying(vv, []int64{0, 1, 2, 3}, func(d int64) bool { return d == succConst })...)
			}
		}
		c.mustCross("C34.success", "clientAuthenticate nil return", f, acceptReturns(f, 0), succEdges, "the method reporting authSuccess")
		// bound
		maxT, okm := pkgConstInt(c, "ssh", "maxAuthClientTried")
		var within []edge
		allInstrs(f, func(in ssa.Instruction) {
			if bo, ok := in.(*ssa.BinOp); ok && okm {
				if k, ok := constInt(bo.Y); ok && k == maxT {
					within = append(within, edgesImplying(bo.X, []int64{0, maxT - 1, maxT, maxT + 1}, func(d int64) bool { return d <= maxT })...)
					_ = bo
				}
			}
		})
		// the bounded quantity counts BOTH kinds of attempts (failed and
		// partially successful methods): len(a)+len(b) over two distinct lists
		sumOK := false
		allInstrs(f, func(in ssa.Instruction) {
			if bo, ok := in.(*ssa.BinOp); ok && okm {
				if k, ok := constInt(bo.Y); ok && k == maxT {
					if add, ok := bo.X.(*ssa.BinOp); ok && add.Op == token.ADD {
						l1, ok1 := add.X.(*ssa.Call)
						l2, ok2 := add.Y.(*ssa.Call)
						if ok1 && ok2 && calleeName(&l1.Call) == "builtin:len" && calleeName(&l2.Call) == "builtin:len" && l1.Call.Args[0] != l2.Call.Args[0] {
							sumOK = true
						}
					}
				}
			}
		})
		okB := h != nil && len(within) > 0 && sumOK
		if okB {
			cut := edgeSet{}
			cut.addAll(within)
			r := reach([]*ssa.BasicBlock{h}, cut)
			for e := range back {
				if e.to() == h && r[e.from] && !cut[e] {
					okB = false
				}
			}
		}
		c.check(okB, "C34.bounded", "clientAuthenticate attempt bound", f, fmt.Sprintf("every cycle crosses the <= %d attempts test", maxT), "the method loop can cycle without passing the maxAuthClientTried test")
		// each cycle records the attempt: tried or partialSuccess grows unless success
		_ = sel
	}
	// ---- (d) pickSignatureAlgorithm
	if f := c.fn("ssh", "pickSignatureAlgorithm"); f != nil {
		fc := callsNamed(f, "ssh.findCommon")
		ok := len(fc) == 1
		detail := ""
		if ok {
			a := fc[0].Common().Args
			// client list = keyAlgos built by appending supportedKeyAlgos[idx] while ranging over as.Algorithms()
			if _, isPhi := a[1].(*ssa.Phi); !isPhi {
				ok, detail = false, "the client-side list is not the signer-ordered key algorithm list"
			}
			if b, isC := constBool(a[3]); !isC || !b {
				ok, detail = false, "findCommon is not called with the client flag (client preference order decides)"
			}
			// server list derives from extensions["server-sig-algs"]
			srvOK := false
			var walk func(v ssa.Value, d int) bool
			seen := map[ssa.Value]bool{}
			walk = func(v ssa.Value, d int) bool {
				if d > 12 || seen[v] {
					return false
				}
				seen[v] = true
				if lk, isL := v.(*ssa.Lookup); isL {
					if s, isS := constString(lk.Index); isS && s == "server-sig-algs" {
						return true
					}
				}
				in, isI := v.(ssa.Instruction)
				if !isI {
					return false
				}
				for _, op := range in.Operands(nil) {
					if *op != nil && walk(*op, d+1) {
						return true
					}
				}
				return false
			}
			srvOK = walk(a[2], 0)
			if !srvOK {
				ok, detail = false, "the server-side list does not derive from the server-sig-algs extension"
			}
			// result: returned algo is findCommon's result on its success edge
			res := resultN(fc[0].(*ssa.Call), 0)
			found := false
			for _, r := range returnsOf(f) {
				if len(res) == 1 && retVal(r, 1) == res[0] {
					found = true
				}
			}
			if !found {
				ok, detail = false, "the negotiated algorithm is not returned"
			}
		}
		c.check(ok, "C34.pick-algo", "pickSignatureAlgorithm", f, "first signer-preferred algorithm also offered by the server, else the documented fallback", detail)
	}
}
