package main

import (
	"fmt"
	"go/token"

	"golang.org/x/tools/go/ssa"
)

func init() {
	register(&propDef{
		id: "C34", run: runC34, minOblig: 10,
		explanation: "Decides the client-auth discipline, independently of how the code is split into helpers (values are identified by provenance across call boundaries, checks by role; a helper whose result can only be true/nil/non-nil behind a check establishes that check for its caller): (sign only accepted keys) every SignWithAlgorithm reachable from publicKeyCallback.auth is invoked on the signer returned by a pickSignatureAlgorithm call, and every path from that call to the signature crosses validateKey(key, algo, …) == true for the public key of the same signer and the algorithm returned by the same call; the algorithm requested is underlyingAlgo(algo), and the signed data is buildDataSignedForAuth(session, …, algo, key.Marshal()); every result 'true' of confirmKeyAck implies the membership test of the PK_OK message's algorithm and the equality (bytes.Equal or an equivalent) of its key with key.Marshal(); (follow the server's list) in clientAuthenticate every value that can become the next method is nil, the initial none method, the AuthCallback's choice, or an element of config.Auth that arrives only behind 'its method() is not in the attempt-record list' and 'its method() is in the list derived from the server's answer'; that list is the server's own list except on edges where the server's list is nil, where the previous one is reused (an empty non-nil list means no method can continue); everything reachable after an authSuccess edge returns nil without another attempt, and nil is returned only behind such an edge; (bounded) every cycle of the method loop crosses the test that len(a)+len(b) of two distinct lists is within maxAuthClientTried; (algorithm choice) pickSignatureAlgorithm returns the result of findCommon(list built by appending elements of algorithmsForKeyFormat(…), list derived from the server-sig-algs extension) with the client flag, or the documented fallback. NOT decided: behaviour against every server script; that the key-algorithm list follows the signer's order of preference.",
		assumptions: []string{"AuthMethod implementations supplied by users are out of scope"},
	})
	tech("C34", "value-sensitive interprocedural gate analysis (helper summaries, phi-carried flags), provenance across calls, arrival-of-a-value must-cross, nil-vs-empty edge classification, cycle-must-cross")
}

func runC34(c *Ctx) {
	c34SignAccepted(c)
	c34KeyAck(c)
	c34ClientAuthenticate(c)
	c34PickAlgo(c)
}

// ---- (a) publicKeyCallback.auth: a signature is produced only for an acknowledged key
func c34SignAccepted(c *Ctx) {
	f := c.fn("ssh", "(publicKeyCallback).auth")
	if f == nil {
		return
	}
	const rule = "C34.sign-accepted"
	sw := deepCalls(f, nameIs("invoke:(ssh.AlgorithmSigner).SignWithAlgorithm", "invoke:(ssh.MultiAlgorithmSigner).SignWithAlgorithm"))
	vk := deepCallsNamed(f, "ssh.validateKey")
	if len(sw) == 0 || len(vk) == 0 {
		c.fail(rule, "(publicKeyCallback).auth", f, fmt.Sprintf("anchors: %d SignWithAlgorithm, %d validateKey reachable from (publicKeyCallback).auth", len(sw), len(vk)))
		c.fail(rule, "(publicKeyCallback).auth arguments", f, "anchors lost")
		return
	}
	okCross, okArgs := true, true
	crossAt, argsAt := sw[0], sw[0]
	detail := ""
	bad := func(at ssa.CallInstruction, d string) {
		if okArgs {
			okArgs, detail, argsAt = false, d, at
		}
	}
	for _, s := range sw {
		// the signer: result 0 of a pickSignatureAlgorithm call
		var pkc *ssa.Call
		if ex, ok := c.c34Org(s.Common().Value).(*ssa.Extract); ok && ex.Index == 0 {
			if call, ok := ex.Tuple.(*ssa.Call); ok && short(calleeName(&call.Call)) == "ssh.pickSignatureAlgorithm" {
				pkc = call
			}
		}
		if pkc == nil {
			bad(s, "the signature is not produced by the signer returned by pickSignatureAlgorithm")
			if okCross {
				okCross, crossAt = false, s
			}
			continue
		}
		signer := pkc.Call.Args[0]
		isAlgo := func(v ssa.Value) bool {
			ex, ok := c.c34Org(v).(*ssa.Extract)
			return ok && ex.Index == 1 && ex.Tuple == ssa.Value(pkc)
		}
		isPub := func(v ssa.Value) bool { // signer.PublicKey()
			recv, ok := c.c34Invoke(v, "PublicKey")
			return ok && c.c34Same(recv, signer)
		}
		a := s.Common().Args
		if ua, ok := c.c34StaticCall(a[len(a)-1], "ssh.underlyingAlgo"); !ok || !isAlgo(ua.Call.Args[0]) {
			bad(s, "the signer is not asked for underlyingAlgo(algo)")
		}
		// signed data: buildDataSignedForAuth(session, …, algo, pub.Marshal())
		if bd, ok := c.c34StaticCall(a[1], "ssh.buildDataSignedForAuth"); !ok || len(f.Params) < 2 || c.c34Org(bd.Call.Args[0]) != c.c34Org(f.Params[1]) || !isAlgo(bd.Call.Args[2]) {
			bad(s, "the signed data is not buildDataSignedForAuth(session, request, algo, key)")
		} else if recv, ok := c.c34Invoke(bd.Call.Args[3], "Marshal"); !ok || !isPub(recv) {
			bad(s, "the signed data does not contain the offered key's bytes")
		}
		// the acknowledgements that count: validateKey(signer.PublicKey(), algo, …)
		acks := map[ssa.Value]bool{}
		wrongKey, wrongAlgo := false, false
		for _, v := range vk {
			call, ok := v.(*ssa.Call)
			if !ok {
				continue
			}
			kOK, aOK := isPub(call.Call.Args[0]), isAlgo(call.Call.Args[1])
			if kOK && aOK {
				acks[call] = true
			} else if !kOK {
				wrongKey = true
			} else {
				wrongAlgo = true
			}
		}
		if len(acks) == 0 {
			if wrongAlgo {
				bad(s, "validateKey and the signature use different algorithms")
			} else if wrongKey {
				bad(s, "validateKey is not asked about the public key of the signer being tried")
			} else {
				bad(s, "no validateKey call for this signer")
			}
		}
		g := c.c34NewGate(func(v ssa.Value) (bool, bool) {
			ex, ok := v.(*ssa.Extract)
			return true, ok && ex.Index == 0 && acks[ex.Tuple]
		})
		// every path from the pickSignatureAlgorithm call (the definition of the
		// signer and algorithm in use) to the signature crosses the acknowledgement
		root := pkc.Parent()
		inRoot := false
		for _, h := range deepFuncs(root) {
			if h == s.Parent() {
				inRoot = true
			}
		}
		target := ssa.Instruction(s)
		if !inRoot || deepReachFrom(root, pkc.Block(), g.passDeep(root), func(in ssa.Instruction) bool { return in == target }) != nil {
			if okCross {
				okCross, crossAt = false, s
			}
		}
	}
	c.check(okCross, rule, "(publicKeyCallback).auth", crossAt, "a signature is produced only after the server acknowledged this key and algorithm (every path from pickSignatureAlgorithm to SignWithAlgorithm crosses validateKey == true)", "SignWithAlgorithm is reachable without validateKey(...) == true in the same iteration")
	c.check(okArgs, rule, "(publicKeyCallback).auth arguments", argsAt, "same signer, key, and algorithm throughout query, signature and request", detail)
}

// ---- confirmKeyAck: true only for a PK_OK naming a valid algorithm and our key
func c34KeyAck(c *Ctx) {
	f := c.fn("ssh", "confirmKeyAck")
	if f == nil {
		return
	}
	const rule = "C34.key-ack"
	isMsgField := func(v ssa.Value, field string) bool {
		typ, fld, ok := c.c34FieldOf(v)
		return ok && typ == "userAuthPubKeyOkMsg" && fld == field
	}
	algoGate := c.c34NewGate(func(v ssa.Value) (bool, bool) {
		if _, elem, pol, _, ok := c.c34Member(v); ok && isMsgField(elem, "Algo") {
			return pol, true
		}
		return false, false
	})
	ours := func(v ssa.Value) bool { // key.Marshal()
		_, ok := c.c34Invoke(v, "Marshal")
		return ok
	}
	pair := func(x, y ssa.Value) bool {
		return (isMsgField(x, "PubKey") && ours(y)) || (isMsgField(y, "PubKey") && ours(x))
	}
	keyGate := c.c34NewGate(func(v ssa.Value) (bool, bool) {
		switch x := v.(type) {
		case *ssa.Call:
			switch short(calleeName(&x.Call)) {
			case "bytes.Equal", "slices.Equal":
				if pair(x.Call.Args[0], x.Call.Args[1]) {
					return true, true
				}
			}
		case *ssa.BinOp:
			if x.Op != token.EQL {
				break
			}
			// string(a) == string(b)
			if pair(stripConv(x.X), stripConv(x.Y)) {
				return true, true
			}
			// subtle.ConstantTimeCompare(a, b) == 1
			for _, p := range [][2]ssa.Value{{x.X, x.Y}, {x.Y, x.X}} {
				if call, ok := p[0].(*ssa.Call); ok && calleeName(&call.Call) == "crypto/subtle.ConstantTimeCompare" {
					if k, isK := constInt(p[1]); isK && k == 1 && pair(call.Call.Args[0], call.Call.Args[1]) {
						return true, true
					}
				}
			}
		}
		return false, false
	})
	for _, gc := range []struct {
		g               *c34Gate
		construct, what string
	}{
		{algoGate, "confirmKeyAck algorithm", "PK_OK algorithm is one valid for the key's format"},
		{keyGate, "confirmKeyAck key bytes", "PK_OK key bytes equal ours"},
	} {
		gc.g.passDeep(f)
		if gc.g.nGates == 0 {
			c.fail(rule, gc.construct, f, "gate not found: "+gc.what+" (no test of it exists in confirmKeyAck or its helpers)")
			continue
		}
		var badRet *ssa.Return
		for _, r := range returnsOf(f) {
			if !(gc.g.implies(retVal(r, 0), c34True) || gc.g.blockGated(r.Block())) && badRet == nil {
				badRet = r
			}
		}
		if badRet != nil {
			c.fail(rule, gc.construct, badRet, "can return true without passing "+gc.what)
		} else {
			c.ok(rule, gc.construct, f, "every result 'true' implies "+gc.what)
		}
	}
}

// ---- (b),(c) clientAuthenticate
func c34ClientAuthenticate(c *Ctx) {
	f := c.fn("ssh", "(*connection).clientAuthenticate")
	if f == nil {
		return
	}
	var authCall *ssa.Call
	nAuth := 0
	for _, ci := range calls(f, nameIs("invoke:(ssh.AuthMethod).auth")) {
		if call, ok := ci.(*ssa.Call); ok && innermostLoopHeader(call.Block()) != nil {
			authCall = call
			nAuth++
		}
	}
	if nAuth != 1 {
		c.fail("C34.method-list", "clientAuthenticate", f, fmt.Sprintf("%d calls of AuthMethod.auth inside a loop of clientAuthenticate (want 1)", nAuth))
		return
	}
	h := innermostLoopHeader(authCall.Block())
	back := backEdges(f)
	methods := resultN(authCall, 1)
	if len(methods) != 1 {
		c.fail("C34.method-list", "clientAuthenticate", authCall, "the method list returned by auth is not used")
		return
	}
	server := methods[0]
	isServerList := func(v ssa.Value) bool { return c.c34Family(v)[server] }
	isRecordList := func(v ssa.Value) bool {
		fam := c.c34Family(v)
		return !fam[server] && c34HasAppend(fam)
	}

	// ---- next method selection
	usedLists := map[ssa.Value]bool{} // lists the candidates are looked up in
	okSel, nSel := true, 0
	selDetail := "a method from config.Auth can be selected although it was already tried or is not in the server's list"
	var selAt poser = f
	for _, l := range c.c34Leaves(authCall.Call.Value, nil) {
		v := l.val
		if isNilConst(v) {
			continue
		}
		if mi, ok := v.(*ssa.MakeInterface); ok && c34NamedElem(mi.X.Type()) == "noneAuth" {
			continue // the initial "none" request
		}
		if ex, ok := v.(*ssa.Extract); ok && ex.Index == 0 {
			if call, ok := ex.Tuple.(*ssa.Call); ok && call.Call.StaticCallee() == nil && !call.Call.IsInvoke() {
				if typ, fld, ok := c.c34FieldOf(call.Call.Value); ok && typ == "ClientConfig" && fld == "AuthCallback" {
					continue // documented: the callback's choice takes precedence
				}
			}
		}
		base, isElem := c.c34ElemOf(v)
		typ, fld, isFld := "", "", false
		if isElem {
			typ, fld, isFld = c.c34FieldOf(base)
		}
		if !isElem || !isFld || typ != "ClientConfig" || fld != "Auth" {
			if okSel {
				okSel, selDetail = false, "the next method can come from a source other than config.Auth, the AuthCallback or the initial none method"
				selAt = c34LeafPos(l, f)
			}
			continue
		}
		nSel++
		cand := v
		candName := func(x ssa.Value) bool { // cand.method()
			recv, ok := c.c34Invoke(x, "method")
			return ok && c.c34Same(recv, cand)
		}
		notTried := c.c34NewGate(func(x ssa.Value) (bool, bool) {
			if list, elem, pol, exact, ok := c.c34Member(x); ok && exact && candName(elem) && isRecordList(list) {
				return !pol, true // holds when the method is NOT among the recorded attempts
			}
			return false, false
		})
		inList := c.c34NewGate(func(x ssa.Value) (bool, bool) {
			if list, elem, pol, _, ok := c.c34Member(x); ok && candName(elem) && isServerList(list) {
				usedLists[c.c34Org(list)] = true
				return pol, true
			}
			return false, false
		})
		// the candidate is "element i of config.Auth": it is the same candidate
		// (however often it is loaded) from the definition of the index on
		var start *ssa.BasicBlock
		if u, ok := v.(*ssa.UnOp); ok {
			if ia, ok := u.X.(*ssa.IndexAddr); ok {
				if in, ok := ia.Index.(ssa.Instruction); ok && in.Parent() == l.fn {
					start = in.Block()
				} else if l.fn != nil {
					start = l.fn.Blocks[0]
				}
			}
		}
		for _, g := range []*c34Gate{notTried, inList} {
			g.passDeep(f)
			var cut edgeSet
			if l.fn != nil {
				cut = g.passOf(l.fn)
			}
			if c34Arrives(l, start, cut) && okSel {
				okSel = false
				selAt = c34LeafPos(l, f)
			}
		}
	}
	if nSel == 0 && okSel {
		okSel, selDetail = false, "no selection of the next method from config.Auth found"
	}
	c.check(okSel, "C34.method-list", "clientAuthenticate next method", selAt, "a configured method is selected only if untried and named in the server's list", selDetail)

	// ---- nil-vs-empty: the list used is the server's own, except when that is nil
	var nilYes, nilNo, prevNil edgeSet = edgeSet{}, edgeSet{}, edgeSet{}
	isPrev := func(v ssa.Value) bool { // loop-carried list that holds an earlier answer of the server
		ph, ok := c.c34Org(v).(*ssa.Phi)
		return ok && ph.Block() == h && c.c34Family(ph)[server]
	}
	deepInstrs(f, func(in ssa.Instruction) {
		bo, ok := in.(*ssa.BinOp)
		if !ok || (bo.Op != token.EQL && bo.Op != token.NEQ) {
			return
		}
		for _, p := range [][2]ssa.Value{{bo.X, bo.Y}, {bo.Y, bo.X}} {
			if !isNilConst(p[1]) {
				continue
			}
			y, n := boolEdges(bo, bo.Op == token.EQL)
			if c.c34Org(p[0]) == server {
				nilYes.addAll(y)
				nilNo.addAll(n)
			} else if isPrev(p[0]) {
				prevNil.addAll(y)
			}
		}
	})
	// a non-empty list is not nil either: `len(methods) > 0` edges also license
	// the use of the server's own list (they do NOT license reusing the old one)
	freshOK := edgeSet{}
	for e := range nilNo {
		freshOK[e] = true
	}
	for e := range prevNil {
		freshOK[e] = true
	}
	deepInstrs(f, func(in ssa.Instruction) {
		if call, ok := in.(*ssa.Call); ok && calleeName(&call.Call) == "builtin:len" && c.c34Org(call.Call.Args[0]) == server {
			freshOK.addAll(edgesImplying(call, []int64{0, 1, 2, 9}, func(d int64) bool { return d > 0 }))
		}
	})
	nFresh, nPrev := 0, 0
	badPrev, badOther, badFresh := false, false, false
	for u := range usedLists {
		for _, l := range c.c34Leaves(u, func(v ssa.Value) bool { p, isPhi := v.(*ssa.Phi); return isPhi && p.Block() == h }) {
			start := authCall.Block()
			switch {
			case l.val == server:
				nFresh++
				if c34Arrives(l, start, freshOK) {
					badFresh = true
				}
			case isPrev(l.val):
				nPrev++
				if c34Arrives(l, start, nilYes) {
					badPrev = true
				}
			default:
				badOther = true
			}
		}
	}
	nilDetail := ""
	switch {
	case len(usedLists) == 0:
		nilDetail = "no lookup of a candidate method in the server's list found"
	case badPrev:
		nilDetail = "the previous method list is reused on an edge other than 'methods == nil' (an empty list from the server must end the attempt, not revive stale methods)"
	case badOther:
		nilDetail = "the list candidates are looked up in can be one that is neither the server's answer nor the previous list"
	case badFresh:
		nilDetail = "the server's list is used although it is nil and an earlier list exists"
	case nFresh == 0 || nPrev == 0:
		nilDetail = "no merge of the server's list with the previous list"
	}
	c.check(nilDetail == "", "C34.method-list", "clientAuthenticate nil-vs-empty method list", authCall, "the previous list is reused exactly when the method returned a nil list", nilDetail)

	// ---- success returns immediately; nil is returned only on success
	succConst, _ := pkgConstInt(c, "ssh", "authSuccess")
	var succEdges []edge
	{
		seen := map[ssa.Value]bool{}
		var vals []ssa.Value
		var grow func(v ssa.Value, d int)
		grow = func(v ssa.Value, d int) { // the result and the phis it flows through (ok = authFailure on error)
			if seen[v] || d > 4 {
				return
			}
			seen[v] = true
			vals = append(vals, v)
			if v.Referrers() == nil {
				return
			}
			for _, r := range *v.Referrers() {
				if ph, ok := r.(*ssa.Phi); ok {
					grow(ph, d+1)
				}
			}
		}
		for _, v := range resultN(authCall, 0) {
			grow(v, 0)
		}
		for _, vv := range vals {
			succEdges = append(succEdges, edgesImplying(vv, []int64{0, 1, 2, 3}, func(d int64) bool { return d == succConst })...)
		}
	}
	okSucc := len(succEdges) > 0
	for _, e := range succEdges {
		r := reach([]*ssa.BasicBlock{e.to()}, nil)
		nRet := 0
		for b := range r {
			if b == h || b == authCall.Block() {
				okSucc = false // another attempt after success
			}
			if len(b.Instrs) == 0 {
				continue
			}
			if ret, ok := b.Instrs[len(b.Instrs)-1].(*ssa.Return); ok {
				nRet++
				if !isNilConst(retVal(ret, 0)) {
					okSucc = false
				}
			}
		}
		if nRet == 0 {
			okSucc = false
		}
	}
	c.check(okSucc, "C34.success", "clientAuthenticate authSuccess", f, "authSuccess returns nil immediately", "authSuccess does not end authentication immediately")
	c.mustCross("C34.success", "clientAuthenticate nil return", f, acceptReturns(f, 0), succEdges, "the method reporting authSuccess")

	// ---- bound: every cycle crosses "len(a)+len(b) <= maxAuthClientTried"
	maxT, okm := pkgConstInt(c, "ssh", "maxAuthClientTried")
	isAttemptCount := func(v ssa.Value) bool { // len(a)+len(b) over two distinct lists (failed and partially successful methods)
		add, ok := c.c34Org(v).(*ssa.BinOp)
		if !ok || add.Op != token.ADD {
			return false
		}
		l1, ok1 := c.c34Org(add.X).(*ssa.Call)
		l2, ok2 := c.c34Org(add.Y).(*ssa.Call)
		if !ok1 || !ok2 || calleeName(&l1.Call) != "builtin:len" || calleeName(&l2.Call) != "builtin:len" {
			return false
		}
		return c.c34Org(l1.Call.Args[0]) != c.c34Org(l2.Call.Args[0])
	}
	bound := c.c34NewGate(func(v ssa.Value) (bool, bool) {
		bo, ok := v.(*ssa.BinOp)
		if !ok || !okm {
			return false, false
		}
		var k int64
		var left bool
		if n, isK := constInt(bo.Y); isK && isAttemptCount(bo.X) {
			k, left = n, true
		} else if n, isK := constInt(bo.X); isK && isAttemptCount(bo.Y) {
			k, left = n, false
		} else {
			return false, false
		}
		if k != maxT {
			return false, false
		}
		trueImplies, falseImplies := true, true
		for _, d := range []int64{0, maxT - 1, maxT, maxT + 1, 2 * maxT} {
			var res, valid bool
			if left {
				res, valid = evalCmp(bo.Op, d, k)
			} else {
				res, valid = evalCmp(bo.Op, k, d)
			}
			if !valid {
				return false, false
			}
			if res && d > maxT {
				trueImplies = false
			}
			if !res && d > maxT {
				falseImplies = false
			}
		}
		switch {
		case trueImplies && !falseImplies:
			return true, true
		case falseImplies && !trueImplies:
			return false, true
		}
		return false, false
	})
	within := bound.passOf(f)
	okB := okm && len(within) > 0
	if okB {
		r := reach([]*ssa.BasicBlock{h}, within)
		for e := range back {
			if e.to() == h && r[e.from] && !within[e] {
				okB = false
			}
		}
	}
	c.check(okB, "C34.bounded", "clientAuthenticate attempt bound", f, fmt.Sprintf("every cycle crosses the <= %d attempts test", maxT), "the method loop can cycle without passing the maxAuthClientTried test")
}

// c34LeafPos: a source position for a leaf (its value, else where it arrives).
func c34LeafPos(l c34Leaf, f *ssa.Function) poser {
	if in, ok := l.val.(ssa.Instruction); ok && in.Pos().IsValid() {
		return in
	}
	if l.ret != nil && l.ret.Pos().IsValid() {
		return l.ret
	}
	if l.pred != nil {
		for i := len(l.pred.Instrs) - 1; i >= 0; i-- {
			if l.pred.Instrs[i].Pos().IsValid() {
				return l.pred.Instrs[i]
			}
		}
	}
	if l.fn != nil {
		return l.fn
	}
	return f
}

// ---- (d) pickSignatureAlgorithm
func c34PickAlgo(c *Ctx) {
	f := c.fn("ssh", "pickSignatureAlgorithm")
	if f == nil {
		return
	}
	fc := deepCallsNamed(f, "ssh.findCommon")
	ok := len(fc) >= 1
	detail := ""
	if !ok {
		detail = "no findCommon call reachable from pickSignatureAlgorithm"
	}
	for _, ci := range fc {
		call, isCall := ci.(*ssa.Call)
		if !isCall {
			ok, detail = false, "findCommon is deferred or run in a goroutine"
			continue
		}
		a := call.Call.Args
		// client list: built by appending elements of algorithmsForKeyFormat(…)
		clientOK := false
		for v := range c.c34Family(a[1]) {
			ap, isAp := v.(*ssa.Call)
			if !isAp || calleeName(&ap.Call) != "builtin:append" {
				continue
			}
			for _, el := range c34AppendElems(ap) {
				if list, isE := c.c34ElemOf(el); isE {
					if _, isK := c.c34StaticCall(list, "ssh.algorithmsForKeyFormat"); isK {
						clientOK = true
					}
				}
			}
		}
		if !clientOK {
			ok, detail = false, "the client-side list is not the signer-ordered key algorithm list"
		}
		if b, isC := constBool(c.c34Org(a[3])); !isC || !b {
			ok, detail = false, "findCommon is not called with the client flag (client preference order decides)"
		}
		// server list derives from extensions["server-sig-algs"]
		seen := map[ssa.Value]bool{}
		var walk func(v ssa.Value, d int) bool
		walk = func(v ssa.Value, d int) bool {
			v = c.c34Org(v)
			if d > 14 || v == nil || seen[v] {
				return false
			}
			seen[v] = true
			if lk, isL := v.(*ssa.Lookup); isL {
				if s, isS := constString(lk.Index); isS && s == "server-sig-algs" {
					return true
				}
			}
			var tuple *ssa.Call
			idx := 0
			switch x := v.(type) {
			case *ssa.Call:
				tuple = x
			case *ssa.Extract:
				tuple, _ = x.Tuple.(*ssa.Call)
				idx = x.Index
			}
			if tuple != nil {
				if H := samePkgCallee(tuple.Parent(), &tuple.Call); H != nil {
					for _, r := range returnsOf(H) {
						if idx < len(r.Results) && walk(retVal(r, idx), d+1) {
							return true
						}
					}
				}
			}
			in, isI := v.(ssa.Instruction)
			if !isI {
				return false
			}
			for _, op := range in.Operands(nil) {
				if *op != nil && walk(*op, d+1) {
					return true
				}
			}
			return false
		}
		if !walk(a[2], 0) {
			ok, detail = false, "the server-side list does not derive from the server-sig-algs extension"
		}
		// result: the negotiated algorithm is what pickSignatureAlgorithm returns
		res := resultN(call, 0)
		found := false
		for _, r := range returnsOf(f) {
			for _, l := range c.c34Leaves(retVal(r, 1), func(v ssa.Value) bool { return len(res) == 1 && v == res[0] }) {
				if len(res) == 1 && l.val == res[0] {
					found = true
				}
			}
		}
		if !found {
			ok, detail = false, "the negotiated algorithm is not returned"
		}
	}
	c.check(ok, "C34.pick-algo", "pickSignatureAlgorithm", f, "first signer-preferred algorithm also offered by the server, else the documented fallback", detail)
}
