package main

import (
	"fmt"
	"go/ast"
	"go/constant"
	"strings"

	"golang.org/x/tools/go/ssa"
)

func init() {
	register(&propDef{
		id: "C20", run: runC20, minOblig: 9,
		explanation: "Decides the structure of the OpenPGP string-to-key functions (RFC 4880 section 3.7), not the hash values. (count octet) decodeCount is evaluated for all 256 octets and equals (16 + (c & 15)) << ((c >> 4) + 6); encodeCount, interpreted with decodeCount inlined, returns for boundary counts the smallest octet whose decoded count is not below the request and panics outside 1024..65011712; (hash input) Salted and Iterated are interpreted (slices by length) for output lengths that need one, two and three hash contexts, hash sizes 16 and 20, several passphrase / salt lengths and counts below, equal to and above the combined length: context i is reset, preloaded with exactly i zero octets, then fed salt followed by passphrase (Salted) or the repetition of salt|passphrase cut at exactly max(count, len(salt)+len(passphrase)) octets, every write being a prefix of the combined buffer (Iterated); each context's digest is copied to the output at offset i*hashSize, truncated at the end; Simple is Salted with no salt; (specifier) Parse dispatches type 0 / 1 / 3 to Simple / Salted(8-octet salt) / Iterated(8-octet salt, decodeCount of the ninth octet) over the hash named by the second octet and rejects every other type; Serialize writes type 3, the hash id, the 8 salt octets it then uses and the count octet whose decoded value it then uses — the same layout Parse reads; the hash-id table is RFC 4880 section 9.4. NOT decided: digest values, availability of hashes at run time, encodedCount's clamping of configuration values.",
		assumptions: []string{"hash.Hash contracts"},
	})
	tech("C20", "finite-domain evaluation of the count octet over all 256 values; flow-sensitive interpretation of the hash-input loops against the RFC 4880 transcript; writer/reader layout agreement; table agreement")
}

func runC20(c *Ctx) {
	const pkg = "openpgp/s2k"
	if f := c.fn(pkg, "decodeCount"); f != nil {
		bad := ""
		for v := int64(0); v < 256; v++ {
			e := newEnv()
			e.bind(f.Params[0], v)
			for _, r := range returnsOf(f) {
				got, ok := e.eval(retVal(r, 0))
				want := (16 + (v & 15)) << (uint(v>>4) + 6)
				if !ok || got != want {
					bad = fmt.Sprintf("octet %d decodes to %d, RFC 4880 3.7.1.3 gives %d", v, got, want)
				}
			}
		}
		c.check(bad == "" && len(f.Blocks) == 1, "C20.count", "decodeCount", f, "all 256 octets: (16 + (c & 15)) << ((c >> 4) + 6)", bad)
	}
	if f := c.fn(pkg, "encodeCount"); f != nil {
		dec := func(v int64) int64 { return (16 + (v & 15)) << (uint(v>>4) + 6) }
		bad := ""
		for _, i := range []int64{0, 1023, 1024, 1025, 1088, 1089, 65536, 65537, 1000000, 65011711, 65011712, 65011713} {
			w := &pathWalker{env: newEnv(), maxSteps: 20000}
			w.env.bind(f.Params[0], i)
			w.inline = func(callee *ssa.Function) bool { return callee.Name() == "decodeCount" }
			end := w.walk(f.Blocks[0], nil)
			wantPanic := i < 1024 || i > 65011712
			if end == "undecided" || wantPanic != (end == "panic") {
				bad = fmt.Sprintf("count %d: %s (panic expected: %v) %s", i, end, wantPanic, w.why)
				break
			}
			if wantPanic {
				continue
			}
			got, ok := w.env.eval(retVal(w.last.(*ssa.Return), 0))
			if !ok || dec(got) < i || got > 0 && dec(got-1) >= i {
				bad = fmt.Sprintf("count %d is encoded as octet %d (decodes to %d); the smallest sufficient octet is required", i, got, dec(got))
			}
		}
		c.check(bad == "", "C20.count", "encodeCount", f, "smallest octet whose decoded count >= request; panics outside 1024..65011712", bad)
	}
	c20Loops(c, pkg)
	c20Parse(c, pkg)
	// hash id table
	want := map[int64]string{1: "MD5", 2: "SHA1", 3: "RIPEMD160", 8: "SHA256", 9: "SHA384", 10: "SHA512", 11: "SHA224"}
	got := map[int64]string{}
	okTable := true
	if p := c.pkg(pkg); p != nil {
		for _, file := range p.Syntax {
			ast.Inspect(file, func(n ast.Node) bool {
				vs, ok := n.(*ast.ValueSpec)
				if !ok || len(vs.Names) != 1 || vs.Names[0].Name != "hashToHashIdMapping" || len(vs.Values) != 1 {
					return true
				}
				cl, ok := vs.Values[0].(*ast.CompositeLit)
				if !ok {
					return true
				}
				for _, el := range cl.Elts {
					row, ok := el.(*ast.CompositeLit)
					if !ok || len(row.Elts) != 3 {
						okTable = false
						continue
					}
					idv := p.TypesInfo.Types[row.Elts[0]].Value
					namev := p.TypesInfo.Types[row.Elts[2]].Value
					sel, isSel := row.Elts[1].(*ast.SelectorExpr)
					if idv == nil || namev == nil || !isSel {
						okTable = false
						continue
					}
					id, _ := constant.Int64Val(constant.ToInt(idv))
					got[id] = sel.Sel.Name
					if constant.StringVal(namev) != sel.Sel.Name {
						okTable = false
					}
				}
				return true
			})
		}
	}
	okTable = okTable && len(got) == len(want)
	for id, n := range want {
		if got[id] != n {
			okTable = false
		}
	}
	c.check(okTable, "C20.hash-ids", "hashToHashIdMapping", nil, "RFC 4880 9.4 ids 1,2,3,8,9,10,11 with matching crypto.Hash and name", fmt.Sprintf("the hash-id table differs from RFC 4880 section 9.4: %v", got))
}

func c20Loops(c *Ctx, pkg string) {
	for _, iter := range []bool{false, true} {
		name := "Salted"
		if iter {
			name = "Iterated"
		}
		f := c.fn(pkg, name)
		if f == nil {
			continue
		}
		outP, hP, inP, saltP := f.Params[0], f.Params[1], f.Params[2], f.Params[3]
		counts := []int64{0}
		if iter {
			counts = []int64{0, 5, 11, 12, 13, 24, 25, 100}
		}
		cases, bad := 0, ""
		for _, hs := range []int64{16, 20} {
			for _, outLen := range []int64{0, 1, hs, hs + 1, 2 * hs, 2*hs + 3} {
				for _, lens := range [][2]int64{{4, 8}, {0, 8}, {7, 0}, {0, 0}} {
					for _, count := range counts {
						if bad != "" {
							continue
						}
						pl, sl := lens[0], lens[1]
						if iter && pl+sl == 0 {
							// an S2K specifier always carries an 8-octet salt; with nothing to
							// repeat the loop of Iterated cannot advance (observed, outside the property)
							continue
						}
						w := &pathWalker{env: newEnv(), lengths: true, maxSteps: 40000}
						w.env.bind(outP, outLen)
						w.env.bind(inP, pl)
						w.env.bind(saltP, sl)
						if iter {
							w.env.bind(f.Params[4], count)
						}
						class := map[ssa.Value]string{outP: "out", inP: "in", saltP: "salt"}
						off := map[ssa.Value]int64{outP: 0}
						w.cls, w.off = class, off // follow arguments into inlined helpers
						class[hP] = "hash"
						var combined ssa.Value
						w.onSlice = func(w *pathWalker, s *ssa.Slice) {
							if cl, ok := w.cls[s.X]; ok {
								lo := int64(0)
								if s.Low != nil {
									lo, _ = w.env.eval(s.Low)
								}
								w.cls[s], w.off[s] = cl, w.off[s.X]+lo
							}
							if g, ok := s.X.(*ssa.Global); ok && g.Name() == "zero" {
								w.cls[s] = "zero"
							}
						}
						w.onPhi = func(w *pathWalker, ph *ssa.Phi, in ssa.Value) {
							if cl, ok := w.cls[in]; ok {
								w.cls[ph], w.off[ph] = cl, w.off[in]
							} else {
								delete(w.cls, ph)
							}
						}
						type ctx struct {
							zeros, fed int64
							parts      []string
						}
						var ctxs []ctx
						var cur *ctx
						var copies []string
						combinedOK := map[string]bool{}
						w.onCall = func(w *pathWalker, ci ssa.CallInstruction) string {
							cc := ci.Common()
							if calleeName(cc) == "builtin:copy" {
								d, s := cc.Args[0], cc.Args[1]
								if ms, ok := sliceBase(d).(*ssa.MakeSlice); ok && iter {
									combined = ms
									w.cls[ms] = "combined"
									lo := w.off[d]
									if sl2, isS := d.(*ssa.Slice); isS && sl2.Low != nil {
										lo, _ = w.env.eval(sl2.Low)
									}
									combinedOK[fmt.Sprintf("%s@%d", w.cls[s], lo)] = true
									return ""
								}
								if w.cls[d] == "out" {
									dl, _ := w.env.eval(d)
									sl3, _ := w.env.eval(s)
									copies = append(copies, fmt.Sprintf("out@%d+%d", w.off[d], min(dl, sl3)))
								}
								return ""
							}
							if !cc.IsInvoke() || w.cls[cc.Value] != "hash" {
								return ""
							}
							switch cc.Method.Name() {
							case "Reset":
								ctxs = append(ctxs, ctx{})
								cur = &ctxs[len(ctxs)-1]
							case "Write":
								if cur == nil {
									ctxs = append(ctxs, ctx{})
									cur = &ctxs[len(ctxs)-1]
									cur.parts = append(cur.parts, "write-before-reset")
								}
								a := cc.Args[0]
								l, _ := w.env.eval(a)
								switch w.cls[a] {
								case "zero":
									if cur.fed > 0 {
										cur.parts = append(cur.parts, "zero-after-data")
									}
									cur.zeros += l
								case "salt", "in":
									cur.parts = append(cur.parts, w.cls[a])
									cur.fed += l
								case "combined":
									if w.off[a] != 0 {
										cur.parts = append(cur.parts, "combined-not-prefix")
									}
									cur.fed += l
								default:
									cur.parts = append(cur.parts, "?")
								}
							case "Sum":
								if v, ok := ci.(ssa.Value); ok {
									w.env.bind(v, hs)
								}
							}
							return ""
						}
						end := w.walk(f.Blocks[0], nil)
						cases++
						id := fmt.Sprintf("%s hash=%d out=%d passphrase=%d salt=%d count=%d", name, hs, outLen, pl, sl, count)
						if end != "return" {
							bad = id + ": evaluation ended with " + end + " " + w.why
							continue
						}
						rounds := (outLen + hs - 1) / hs
						if int64(len(ctxs)) != rounds {
							bad = fmt.Sprintf("%s: %d hash contexts used, %d needed", id, len(ctxs), rounds)
							continue
						}
						wantFed := pl + sl
						if iter && count > wantFed {
							wantFed = count
						}
						for i, cx := range ctxs {
							if cx.zeros != int64(i) {
								bad = fmt.Sprintf("%s: context %d is preloaded with %d zero octets", id, i, cx.zeros)
							}
							if cx.fed != wantFed {
								bad = fmt.Sprintf("%s: context %d hashes %d octets, RFC 4880 requires %d", id, i, cx.fed, wantFed)
							}
							if !iter && strings.Join(cx.parts, " ") != "salt in" {
								bad = fmt.Sprintf("%s: context %d is fed [%s], expected salt then passphrase", id, i, strings.Join(cx.parts, " "))
							}
							if iter && len(cx.parts) > 0 {
								bad = fmt.Sprintf("%s: context %d: %s", id, i, strings.Join(cx.parts, " "))
							}
						}
						var wantCopies []string
						for i := int64(0); i < rounds; i++ {
							wantCopies = append(wantCopies, fmt.Sprintf("out@%d+%d", i*hs, min(hs, outLen-i*hs)))
						}
						if strings.Join(copies, " ") != strings.Join(wantCopies, " ") {
							bad = fmt.Sprintf("%s: digests copied to [%s], expected [%s]", id, strings.Join(copies, " "), strings.Join(wantCopies, " "))
						}
						if iter && rounds > 0 && !(combinedOK["salt@0"] && combinedOK[fmt.Sprintf("in@%d", sl)]) {
							bad = id + ": the repeated buffer is not salt followed by passphrase"
						}
						_ = combined
						if w.oob {
							bad = id + ": a slice expression leaves its bounds"
						}
					}
				}
			}
		}
		c.check(bad == "" && cases > 40, "C20.hash-input", pkg+"."+name, f, fmt.Sprintf("%d (hash size, output, passphrase, salt, count) cases agree with RFC 4880 3.7.1", cases), bad)
	}
	if f := c.fn(pkg, "Simple"); f != nil {
		cs := callsNamed(f, pkg+".Salted")
		ok := len(cs) == 1 && cs[0].Common().Args[0] == ssa.Value(f.Params[0]) && cs[0].Common().Args[1] == ssa.Value(f.Params[1]) && cs[0].Common().Args[2] == ssa.Value(f.Params[2]) && isNilConst(cs[0].Common().Args[3])
		c.check(ok, "C20.hash-input", pkg+".Simple", f, "Simple = Salted with no salt", "Simple is not Salted(out, h, in, nil)")
	}
}

func c20Parse(c *Ctx, pkg string) {
	f := c.fn(pkg, "Parse")
	if f == nil {
		return
	}
	// type octet: load of buf[0]
	var typ ssa.Value
	allInstrs(f, func(in ssa.Instruction) {
		if u, ok := in.(*ssa.UnOp); ok {
			if ia, ok := u.X.(*ssa.IndexAddr); ok {
				if k, isK := constInt(ia.Index); isK && k == 0 {
					if accessPath(ia.X) == "buf" {
						typ = u
					}
				}
			}
		}
	})
	if typ == nil {
		c.undecided("C20.specifier", "Parse type octet", f, "buf[0] not found")
		return
	}
	want := map[int64]string{0: "Simple", 1: "Salted", 3: "Iterated"}
	bad := ""
	for v := int64(0); v <= 255; v++ {
		e := newEnv()
		e.bind(typ, v)
		e.bindNilTests(f, func(ssa.Value) bool { return true }, true)
		allInstrs(f, func(in ssa.Instruction) {
			if ex, ok := in.(*ssa.Extract); ok && ex.Index == 1 && isBoolType(ex.Type()) {
				e.bind(ex, 1) // hash id known
			}
			if cl, ok := in.(*ssa.Call); ok && strings.HasSuffix(short(calleeName(&cl.Call)), "crypto.Hash).Available") {
				e.bind(cl, 1)
			}
		})
		e.solve(f)
		kind := ""
		for _, r := range returnsOf(f) {
			if !e.reach[r.Block()] {
				continue
			}
			if mc, ok := retVal(r, 0).(*ssa.MakeClosure); ok {
				inner := mc.Fn.(*ssa.Function)
				for _, n := range []string{"Simple", "Salted", "Iterated"} {
					if len(callsNamed(inner, pkg+"."+n)) == 1 {
						kind += n
					}
				}
			} else if errNilness(retVal(r, 1), r.Block(), 0) == neverNil {
				kind += "error"
			}
		}
		w, known := want[v]
		if !known {
			w = "error"
		}
		if kind != w {
			bad = fmt.Sprintf("S2K type %d leads to %q, expected %q", v, kind, w)
		}
	}
	c.check(bad == "", "C20.specifier", "Parse type dispatch", f, "types 0/1/3 -> Simple/Salted/Iterated, all other types rejected (256 values evaluated)", bad)
	// closure arguments: salt = buf[:8], count = decodeCount(buf[8])
	okArgs := true
	for _, ac := range f.AnonFuncs {
		for _, ci := range callsNamed(ac, pkg+".Salted", pkg+".Iterated") {
			a := ci.Common().Args
			sl, ok := a[3].(*ssa.Slice)
			if !ok {
				okArgs = false
				continue
			}
			hi, _ := constInt(sl.High)
			if sl.Low != nil || sl.High == nil || hi != 8 {
				okArgs = false
			}
		}
	}
	var dc []ssa.CallInstruction = callsNamed(f, pkg+".decodeCount")
	okCount := len(dc) == 1
	if okCount {
		u, ok := dc[0].Common().Args[0].(*ssa.UnOp)
		okCount = ok
		if ok {
			ia, ok2 := u.X.(*ssa.IndexAddr)
			k, _ := constInt(ia.Index)
			okCount = ok2 && k == 8
		}
	}
	c.check(okArgs && okCount, "C20.specifier", "Parse salt and count", f, "salt = octets 0..7 after the header, count = decodeCount(octet 8)", "the salt is not the 8 octets after the header or the count is not decoded from the ninth")
	// Serialize layout
	if g := c.fn(pkg, "Serialize"); g != nil {
		got := map[int64]string{}
		var saltSl *ssa.Slice
		allInstrs(g, func(in ssa.Instruction) {
			switch x := in.(type) {
			case *ssa.Store:
				if ia, ok := x.Addr.(*ssa.IndexAddr); ok && accessPath(ia.X) == "buf" {
					k, _ := constInt(ia.Index)
					if cv, isK := constInt(x.Val); isK {
						got[k] = fmt.Sprint(cv)
					} else if ex, isE := x.Val.(*ssa.Extract); isE {
						if cl, isC := ex.Tuple.(*ssa.Call); isC {
							got[k] = short(calleeName(&cl.Call))
						}
					} else if cl, isC := x.Val.(*ssa.Call); isC {
						got[k] = short(calleeName(&cl.Call))
					}
				}
			case *ssa.Slice:
				if accessPath(x.X) == "buf" && x.Low != nil && x.High != nil {
					lo, _ := constInt(x.Low)
					hi, _ := constInt(x.High)
					if lo == 2 && hi == 10 {
						saltSl = x
					}
				}
			}
		})
		okL := got[0] == "3" && got[1] == pkg+".HashToHashId" && strings.HasSuffix(got[10], "Config).encodedCount") && saltSl != nil
		okUse := false
		for _, ci := range callsNamed(g, pkg+".Iterated") {
			a := ci.Common().Args
			if saltSl != nil && a[3] == ssa.Value(saltSl) {
				if dcc, ok := a[4].(*ssa.Call); ok && short(calleeName(&dcc.Call)) == pkg+".decodeCount" {
					if ec, ok := dcc.Call.Args[0].(*ssa.Call); ok && strings.HasSuffix(short(calleeName(&ec.Call)), "Config).encodedCount") {
						okUse = true
					}
				}
			}
		}
		c.check(okL && okUse, "C20.specifier", "Serialize layout", g, "writes [3, hash id, salt(8), count octet] and derives the key with that salt and decodeCount(count octet)", fmt.Sprintf("Serialize does not write the specifier Parse reads, or derives the key with other parameters than it wrote: %v", got))
	}
}
