package main

import (
	"fmt"
	"go/ast"
	"go/constant"
	"go/types"
	"strings"

	"golang.org/x/tools/go/ssa"
)

func init() {
	register(&propDef{
		id: "C20", run: runC20, minOblig: 9,
		explanation: "Decides the structure of the OpenPGP string-to-key functions (RFC 4880 section 3.7), not the hash values. Everything is decided by interpreting the functions (flow-sensitively, helpers of the package and function literals with their captured variables interpreted in place, byte buffers modelled octet by octet with symbolic salt / passphrase / digest octets), never by the shape or the names of the code. (count octet) decodeCount is interpreted for all 256 octets and equals (16 + (c & 15)) << ((c >> 4) + 6) (a table filled by the package initializer is read through the interpreted initializer); encodeCount (sort.Search modelled as documented) returns for boundary counts the smallest octet whose decoded count is not below the request and panics outside 1024..65011712; (hash input) Simple, Salted and Iterated are interpreted for output lengths that need one, two and three hash contexts, hash sizes 16 and 20, several passphrase / salt lengths and counts below, equal to and above the combined length: the octet sequence fed to context i between its Reset and its Sum is exactly i zero octets followed by salt|passphrase (Simple: passphrase only) or by the repetition of salt|passphrase cut at max(count, len(salt)+len(passphrase)) octets (Iterated), however the writes are chunked, and key octet j is octet j mod hashSize of the digest of context j / hashSize; (specifier) Parse is interpreted on a modelled input stream for all 256 type octets: types 0 / 1 / 3 consume exactly 2 / 10 / 11 octets and return, without error, a function whose interpretation produces the Simple / Salted / Iterated transcript over the hash looked up from the second octet, with the salt being stream octets 2..9 and the count decodeCount of octet 10 (two count octets); every other type returns a nil function and a non-nil error; Serialize is interpreted: it writes exactly [3, id of the configured hash, 8 octets read from rand, the configuration's count octet] and derives the key with the Iterated transcript for that salt and the decoded value of that count octet — the layout Parse reads; the hash-id table is RFC 4880 section 9.4. NOT decided: digest values, availability of hashes at run time, the error paths of Parse / Serialize on short input, encodedCount's clamping of configuration values.",
		assumptions: []string{"hash.Hash contracts"},
	})
	tech("C20", "finite-domain interpretation of the count octet codec over all 256 values; flow-sensitive interpretation of Simple/Salted/Iterated, Parse (plus the function it returns) and Serialize against the octet-level RFC 4880 transcript; table agreement")
}

func c20Dec(v int64) int64 { return (16 + (v & 15)) << (uint(v>>4) + 6) }

func runC20(c *Ctx) {
	const pkg = "openpgp/s2k"
	if f := c.fn(pkg, "decodeCount"); f != nil {
		bad := ""
		for v := int64(0); v < 256 && bad == ""; v++ {
			s := newC20sim(c, pkg, 20)
			w := s.walker(4000)
			w.env.bind(f.Params[0], v)
			end := w.walk(f.Blocks[0], nil)
			if end != "return" {
				bad = fmt.Sprintf("octet %d: evaluation ended with %s %s", v, end, w.why)
				break
			}
			got, ok := w.env.eval(retVal(w.last.(*ssa.Return), 0))
			if !ok || len(s.notes) > 0 {
				bad = fmt.Sprintf("octet %d: the decoded count does not evaluate over the finite domain %s", v, strings.Join(s.notes, "; "))
			} else if got != c20Dec(v) {
				bad = fmt.Sprintf("octet %d decodes to %d, RFC 4880 3.7.1.3 gives %d", v, got, c20Dec(v))
			}
		}
		c.check(bad == "", "C20.count", "decodeCount", f, "all 256 octets: (16 + (c & 15)) << ((c >> 4) + 6)", bad)
	}
	if f := c.fn(pkg, "encodeCount"); f != nil {
		bad := ""
		for _, i := range []int64{0, 1023, 1024, 1025, 1088, 1089, 1984, 1985, 2048, 65536, 65537, 1000000, 65011711, 65011712, 65011713} {
			s := newC20sim(c, pkg, 20)
			w := s.walker(20000)
			w.env.bind(f.Params[0], i)
			end := w.walk(f.Blocks[0], nil)
			wantPanic := i < 1024 || i > 65011712
			if end == "undecided" || wantPanic != (end == "panic") {
				bad = fmt.Sprintf("count %d: %s (panic expected: %v) %s", i, end, wantPanic, w.why)
				break
			}
			if wantPanic {
				continue
			}
			got, ok := w.env.eval(retVal(w.last.(*ssa.Return), 0))
			if !ok || len(s.notes) > 0 {
				bad = fmt.Sprintf("count %d: the encoded octet does not evaluate over the finite domain %s", i, strings.Join(s.notes, "; "))
				break
			}
			if got < 0 || got > 255 || c20Dec(got) < i || got > 0 && c20Dec(got-1) >= i {
				bad = fmt.Sprintf("count %d is encoded as octet %d (decodes to %d); the smallest sufficient octet is required", i, got, c20Dec(got&255))
				break
			}
		}
		c.check(bad == "", "C20.count", "encodeCount", f, "smallest octet whose decoded count >= request; panics outside 1024..65011712", bad)
	}
	c20HashInput(c, pkg)
	c20Parse(c, pkg)
	c20Serialize(c, pkg)
	c20HashIds(c, pkg)
}

// c20HashInput interprets Simple / Salted / Iterated (parameters by position:
// out, hash, passphrase[, salt[, count]]) and compares the octets fed to every
// hash context and the octets of the derived key with RFC 4880 3.7.1.
func c20HashInput(c *Ctx, pkg string) {
	for _, name := range []string{"Simple", "Salted", "Iterated"} {
		f := c.fn(pkg, name)
		if f == nil {
			continue
		}
		iter, salted := name == "Iterated", name != "Simple"
		want := map[string]int{"Simple": 3, "Salted": 4, "Iterated": 5}[name]
		if len(f.Params) != want {
			c.undecided("C20.hash-input", pkg+"."+name, f, "unexpected signature")
			continue
		}
		counts := []int64{0}
		if iter {
			counts = []int64{0, 5, 11, 12, 13, 24, 25, 100}
		}
		lenCases := [][2]int64{{4, 8}, {0, 8}, {7, 0}, {0, 0}}
		if !salted {
			lenCases = [][2]int64{{4, 0}, {7, 0}, {0, 0}, {1, 0}}
		}
		cases, bad := 0, ""
		for _, hs := range []int64{16, 20} {
			for _, outLen := range []int64{0, 1, hs, hs + 1, 2 * hs, 2*hs + 3} {
				for _, lens := range lenCases {
					for _, count := range counts {
						if bad != "" {
							continue
						}
						pl, sl := lens[0], lens[1]
						if iter && pl+sl == 0 {
							// an S2K specifier always carries an 8-octet salt; with nothing to
							// repeat the loop of Iterated cannot advance (observed, outside the property)
							continue
						}
						s := newC20sim(c, pkg, hs)
						w := s.walker(40000)
						s.param(w, f.Params[0], "out", c20Fill(c20OutInit, outLen), false)
						w.cls[f.Params[1]] = "hash"
						s.param(w, f.Params[2], "in", c20Seq(c20PassTok, pl), true)
						if salted {
							s.param(w, f.Params[3], "salt", c20Seq(c20SaltTok, sl), true)
						}
						if iter {
							w.env.bind(f.Params[4], count)
						}
						end := w.walk(f.Blocks[0], nil)
						cases++
						id := fmt.Sprintf("%s hash=%d out=%d passphrase=%d salt=%d count=%d", name, hs, outLen, pl, sl, count)
						if end != "return" {
							bad = id + ": evaluation ended with " + end + " " + w.why
							continue
						}
						if msg := s.compare("out", hs, outLen, c20Seq(c20SaltTok, sl), c20Seq(c20PassTok, pl), iter, count); msg != "" {
							bad = id + ": " + msg
						} else if w.oob {
							bad = id + ": a slice expression leaves its bounds"
						}
					}
				}
			}
		}
		c.check(bad == "" && cases > 40, "C20.hash-input", pkg+"."+name, f, fmt.Sprintf("%d (hash size, output, passphrase, salt, count) cases agree octet for octet with RFC 4880 3.7.1", cases), bad)
	}
}

func c20TypeIs(t types.Type, s string) bool { return t != nil && types.TypeString(t, nil) == s }

func c20IsOctet(t types.Type) bool {
	b, ok := t.Underlying().(*types.Basic)
	return ok && b.Kind() == types.Uint8
}

// c20HashCalls models the calls around crypto.Hash by role: a lookup
// (octet) -> (crypto.Hash, bool) / (crypto.Hash) -> (octet, bool) succeeds,
// Available() holds, New() yields the hash the transcript is recorded on.
// idArg tells whether the octet handed to the lookup is the expected one;
// idOut is the octet a reverse lookup yields.
func c20HashCalls(s *c20sim, idArg func(n int64, ok bool) bool, idOut int64) func(w *pathWalker, ci ssa.CallInstruction) bool {
	return func(w *pathWalker, ci ssa.CallInstruction) bool {
		cc := ci.Common()
		val, _ := ci.(ssa.Value)
		if val == nil || cc.IsInvoke() {
			return false
		}
		name := short(calleeName(cc))
		setTuple := func(a, b optInt) {
			if w.tuple == nil {
				w.tuple = map[ssa.Value][]optInt{}
			}
			w.tuple[val] = []optInt{a, b}
		}
		if tup, ok := val.Type().(*types.Tuple); ok && tup.Len() == 2 && len(cc.Args) == 1 && c20TypeIs(tup.At(1).Type(), "bool") {
			switch {
			case c20TypeIs(tup.At(0).Type(), "crypto.Hash") && c20IsOctet(cc.Args[0].Type()):
				n, nok := w.env.eval(cc.Args[0])
				if !idArg(n, nok) {
					s.note("the hash is looked up from something other than the hash-id octet of the specifier")
					return true
				}
				setTuple(optInt{3, true}, optInt{1, true})
				s.tupCls[val] = []string{"hashid", ""}
				return true
			case c20IsOctet(tup.At(0).Type()) && c20TypeIs(cc.Args[0].Type(), "crypto.Hash"):
				if w.cls[cc.Args[0]] != "hashid" {
					s.note("the hash id written is not that of the configured hash")
					return true
				}
				setTuple(optInt{idOut, true}, optInt{1, true})
				return true
			}
		}
		if strings.HasSuffix(name, "crypto.Hash).Available") {
			w.env.bind(val, 1)
			return true
		}
		if strings.HasSuffix(name, "crypto.Hash).New") && len(cc.Args) == 1 {
			if w.cls[cc.Args[0]] == "hashid" {
				w.cls[val] = "hash"
			} else {
				s.note("a hash is created from something other than the looked-up hash")
			}
			return true
		}
		return false
	}
}

// c20Parse interprets Parse on a modelled input stream [type, hash id,
// salt(8), count octet] for every type octet, then interprets the function it
// returns and compares the hash transcript with RFC 4880 3.7.1.
func c20Parse(c *Ctx, pkg string) {
	f := c.fn(pkg, "Parse")
	if f == nil {
		return
	}
	if len(f.Params) != 1 || f.Signature.Results().Len() != 2 {
		c.undecided("C20.specifier", "Parse", f, "unexpected signature")
		return
	}
	const hs, outLen, pl = 20, 23, 4
	// octet values chosen so that every octet of the stream, mistaken for the count
	// octet, still decodes to a count small enough to interpret (and distinct from
	// the two count octets used)
	salt := []int64{0x05, 0x06, 0x07, 0x08, 0x09, 0x0a, 0x0b, 0x0c}
	badDispatch, badArgs := "", ""
	nAccepted := 0
	for v := int64(0); v <= 255; v++ {
		countOctets := []int64{0x00}
		if v == 3 {
			countOctets = []int64{0x00, 0x13}
		}
		for _, co := range countOctets {
			stream := append(append([]int64{v, 2}, salt...), co)
			s := newC20sim(c, pkg, hs)
			s.input = func(pos int64) int64 {
				if pos < int64(len(stream)) {
					return stream[pos]
				}
				return c20Unknown
			}
			s.extra = c20HashCalls(s, func(n int64, ok bool) bool { return ok && n == stream[1] }, 0)
			w := s.walker(8000)
			w.cls[f.Params[0]] = "reader"
			end := w.walk(f.Blocks[0], nil)
			if end != "return" {
				badDispatch = fmt.Sprintf("S2K type %d: evaluation ended with %s %s", v, end, w.why)
				continue
			}
			ret := w.last.(*ssa.Return)
			fv := s.fnValue(ret.Results[0])
			errSt := s.errState(ret.Results[1], ret.Block())
			valid := v == 0 || v == 1 || v == 3
			if !valid {
				switch {
				case fv != nil || !isNilConst(ret.Results[0]):
					badDispatch = fmt.Sprintf("S2K type %d is accepted (a key-derivation function is returned); every type other than 0, 1 and 3 must be rejected", v)
				case errSt != neverNil:
					badDispatch = fmt.Sprintf("S2K type %d is not rejected with an error", v)
				}
				continue
			}
			if fv == nil || errSt != definitelyNil {
				badDispatch = fmt.Sprintf("S2K type %d is not accepted (no function, or an error, is returned)", v)
				continue
			}
			nAccepted++
			if len(s.notes) > 0 {
				badArgs = fmt.Sprintf("S2K type %d: %s", v, strings.Join(s.notes, "; "))
				continue
			}
			wantRead := map[int64]int64{0: 2, 1: 10, 3: 11}[v]
			if s.rpos != wantRead {
				badArgs = fmt.Sprintf("S2K type %d: %d octets of the specifier are consumed, its layout has %d", v, s.rpos, wantRead)
				continue
			}
			ch, fn, end2 := s.callFn(w, fv, 0, func(ch *pathWalker, fn *ssa.Function) {
				if len(fn.Params) == 2 {
					s.param(ch, fn.Params[0], "out", c20Fill(c20OutInit, outLen), false)
					s.param(ch, fn.Params[1], "in", c20Seq(c20PassTok, pl), true)
				}
			})
			if end2 != "return" || len(fn.Params) != 2 {
				why := ""
				if ch != nil {
					why = ch.why
				}
				badArgs = fmt.Sprintf("S2K type %d: evaluation of the returned function ended with %s %s", v, end2, why)
				continue
			}
			var wantSalt []int64
			if v != 0 {
				wantSalt = salt
			}
			if msg := s.compare("out", hs, outLen, wantSalt, c20Seq(c20PassTok, pl), v == 3, c20Dec(co)); msg != "" {
				kind := map[int64]string{0: "Simple", 1: "Salted with stream octets 2..9 as salt", 3: fmt.Sprintf("Iterated with stream octets 2..9 as salt and count %d (octet %#x)", c20Dec(co), co)}[v]
				badArgs = fmt.Sprintf("S2K type %d: the returned function does not derive the %s key: %s", v, kind, msg)
			} else if w.oob || ch.oob {
				badArgs = fmt.Sprintf("S2K type %d: a slice expression leaves its bounds", v)
			}
		}
	}
	c.check(badDispatch == "", "C20.specifier", "Parse type dispatch", f, "types 0/1/3 accepted, all other types rejected with an error and no function (256 values interpreted)", badDispatch)
	c.check(badArgs == "" && nAccepted == 4, "C20.specifier", "Parse salt and count", f, "type 0/1/3 consume 2/10/11 octets; the returned function produces the Simple / Salted / Iterated transcript with salt = octets 2..9 and count = decodeCount(octet 10) over the hash named by octet 1", badArgs)
}

// c20Serialize interprets Serialize(w, key, rand, passphrase, config).
func c20Serialize(c *Ctx, pkg string) {
	g := c.fn(pkg, "Serialize")
	if g == nil {
		return
	}
	if len(g.Params) != 5 {
		c.undecided("C20.specifier", "Serialize layout", g, "unexpected signature")
		return
	}
	const hs, outLen, pl, hashID = 20, 23, 4, 8
	rnd := []int64{0xb1, 0xb2, 0xb3, 0xb4, 0xb5, 0xb6, 0xb7, 0xb8}
	bad := ""
	for _, co := range []int64{0x00, 0x13} {
		s := newC20sim(c, pkg, hs)
		s.input = func(pos int64) int64 {
			if pos < int64(len(rnd)) {
				return rnd[pos]
			}
			return c20Unknown
		}
		cfg := g.Params[4]
		hashCalls := c20HashCalls(s, func(int64, bool) bool { return false }, hashID)
		s.extra = func(w *pathWalker, ci ssa.CallInstruction) bool {
			cc := ci.Common()
			val, _ := ci.(ssa.Value)
			// methods of the configuration: its hash and its count octet
			if val != nil && !cc.IsInvoke() && len(cc.Args) == 1 && cc.Args[0] == ssa.Value(cfg) {
				switch {
				case c20TypeIs(val.Type(), "crypto.Hash"):
					w.cls[val] = "hashid"
					w.env.bind(val, 3)
					return true
				case c20IsOctet(val.Type()):
					w.env.bind(val, co)
					return true
				}
			}
			return hashCalls(w, ci)
		}
		w := s.walker(40000)
		w.cls[g.Params[0]] = "writer"
		s.param(w, g.Params[1], "out", c20Fill(c20OutInit, outLen), false)
		w.cls[g.Params[2]] = "reader"
		s.param(w, g.Params[3], "in", c20Seq(c20PassTok, pl), true)
		end := w.walk(g.Blocks[0], nil)
		id := fmt.Sprintf("count octet %#x", co)
		if end != "return" {
			bad = id + ": evaluation ended with " + end + " " + w.why
			break
		}
		if s.errState(retVal(w.last.(*ssa.Return), 0), w.last.Block()) != definitelyNil {
			bad = id + ": an error is returned although reading and writing succeed"
			break
		}
		wantWritten := append(append([]int64{3, hashID}, rnd...), co)
		if fmt.Sprint(s.written) != fmt.Sprint(wantWritten) || s.rpos != 8 {
			bad = fmt.Sprintf("%s: Serialize does not write the specifier Parse reads: %d random octets read, written %v, expected [3, hash id, the 8 octets read, count octet] = %v", id, s.rpos, s.written, wantWritten)
			break
		}
		if msg := s.compare("out", hs, outLen, rnd, c20Seq(c20PassTok, pl), true, c20Dec(co)); msg != "" {
			bad = fmt.Sprintf("%s: the key is not derived with Iterated over the written salt and count %d: %s", id, c20Dec(co), msg)
			break
		}
		if w.oob {
			bad = id + ": a slice expression leaves its bounds"
		}
	}
	c.check(bad == "", "C20.specifier", "Serialize layout", g, "writes [3, hash id, salt(8), count octet] and derives the key with that salt and decodeCount(count octet)", bad)
}

// c20HashIds: the package's table relating OpenPGP hash ids to crypto.Hash —
// the composite literal whose element struct has an octet field, a crypto.Hash
// field and a string field (fields identified by type, elements positional or keyed).
func c20HashIds(c *Ctx, pkg string) {
	want := map[int64]string{1: "MD5", 2: "SHA1", 3: "RIPEMD160", 8: "SHA256", 9: "SHA384", 10: "SHA512", 11: "SHA224"}
	got := map[int64]string{}
	okTable, tables := true, 0
	if p := c.pkg(pkg); p != nil {
		for _, file := range p.Syntax {
			ast.Inspect(file, func(n ast.Node) bool {
				cl, ok := n.(*ast.CompositeLit)
				if !ok {
					return true
				}
				tv, ok := p.TypesInfo.Types[cl]
				if !ok {
					return true
				}
				var elem types.Type
				switch t := tv.Type.Underlying().(type) {
				case *types.Slice:
					elem = t.Elem()
				case *types.Array:
					elem = t.Elem()
				default:
					return true
				}
				st, ok := elem.Underlying().(*types.Struct)
				if !ok {
					return true
				}
				idF, hashF, nameF := -1, -1, -1
				for i := 0; i < st.NumFields(); i++ {
					ft := st.Field(i).Type()
					switch {
					case c20TypeIs(ft, "crypto.Hash") && hashF < 0:
						hashF = i
					case c20IsOctet(ft) && idF < 0:
						idF = i
					case c20TypeIs(ft, "string") && nameF < 0:
						nameF = i
					}
				}
				if idF < 0 || hashF < 0 {
					return true
				}
				tables++
				for _, el := range cl.Elts {
					if kv, isKV := el.(*ast.KeyValueExpr); isKV {
						el = kv.Value // array / slice index key
					}
					row, ok := el.(*ast.CompositeLit)
					if !ok {
						okTable = false
						continue
					}
					fields := map[int]ast.Expr{}
					for i, e := range row.Elts {
						if kv, isKV := e.(*ast.KeyValueExpr); isKV {
							if key, isID := kv.Key.(*ast.Ident); isID {
								for k := 0; k < st.NumFields(); k++ {
									if st.Field(k).Name() == key.Name {
										fields[k] = kv.Value
									}
								}
							}
						} else {
							fields[i] = e
						}
					}
					if fields[idF] == nil || fields[hashF] == nil {
						okTable = false
						continue
					}
					idv := p.TypesInfo.Types[fields[idF]].Value
					hashName := ""
					switch h := fields[hashF].(type) {
					case *ast.SelectorExpr:
						hashName = h.Sel.Name
					case *ast.Ident:
						hashName = h.Name
					}
					if obj, isC := p.TypesInfo.Uses[c20Ident(fields[hashF])].(*types.Const); !isC || obj.Pkg() == nil || obj.Pkg().Path() != "crypto" {
						okTable = false
					}
					if idv == nil || hashName == "" {
						okTable = false
						continue
					}
					id, _ := constant.Int64Val(constant.ToInt(idv))
					if _, dup := got[id]; dup {
						okTable = false
					}
					got[id] = hashName
					if nameF >= 0 {
						namev := p.TypesInfo.Types[fields[nameF]].Value
						if fields[nameF] == nil || namev == nil || namev.Kind() != constant.String || constant.StringVal(namev) != hashName {
							okTable = false
						}
					}
				}
				return false
			})
		}
	}
	okTable = okTable && tables == 1 && len(got) == len(want)
	for id, n := range want {
		if got[id] != n {
			okTable = false
		}
	}
	c.check(okTable, "C20.hash-ids", "hash id table", nil, "RFC 4880 9.4 ids 1,2,3,8,9,10,11 with matching crypto.Hash and name", fmt.Sprintf("the hash-id table differs from RFC 4880 section 9.4: %v", got))
}

func c20Ident(e ast.Expr) *ast.Ident {
	switch x := e.(type) {
	case *ast.SelectorExpr:
		return x.Sel
	case *ast.Ident:
		return x
	}
	return nil
}
