package main

import (
	"fmt"
	"go/constant"
	"go/token"
	"go/types"
	"sort"
	"strings"

	"golang.org/x/tools/go/ssa"
)

// Roles of wire-struct fields and interpretation of the parse functions for
// C38 (layout agreement, range guards, trailing bytes, dispatch).
//
// A wire struct is the anonymous (or named) struct handed to ssh.Unmarshal /
// ssh.Marshal. Its field NAMES are local to one function and carry no meaning
// for the encoding; what a field MEANS is decided by data flow: on the parse
// side by the field of the key object its value is stored into (rsa.PublicKey.N,
// dsa.Parameters.P, ...), on the marshal side by the key field its value is
// computed from. The range guards are evaluated by walking the parser (helpers
// of the package are interpreted in place by the pathWalker) with the
// math/big observers (BitLen, Int64, Sign, Cmp, ...) answered according to the
// role of their receiver.

// c38WireField: v is a load of (or a Field of) field #i of a struct of type wire.
func c38WireField(v ssa.Value, wire *types.Struct) (int, bool) {
	switch x := v.(type) {
	case *ssa.UnOp:
		if x.Op != token.MUL {
			return 0, false
		}
		fa, ok := x.X.(*ssa.FieldAddr)
		if !ok {
			return 0, false
		}
		if st := derefStruct(fa.X.Type()); st != nil && types.Identical(st, wire) {
			return fa.Field, true
		}
	case *ssa.Field:
		if st, ok := x.X.Type().Underlying().(*types.Struct); ok && types.Identical(st, wire) {
			return x.Field, true
		}
	}
	return 0, false
}

// c38OtherField: v is a load of a field of a struct other than wire; returns the field name.
func c38OtherField(v ssa.Value, wire *types.Struct) (string, bool) {
	switch x := v.(type) {
	case *ssa.UnOp:
		if x.Op != token.MUL {
			return "", false
		}
		fa, ok := x.X.(*ssa.FieldAddr)
		if !ok {
			return "", false
		}
		if st := derefStruct(fa.X.Type()); st != nil && !types.Identical(st, wire) {
			return st.Field(fa.Field).Name(), true
		}
	case *ssa.Field:
		if st, ok := x.X.Type().Underlying().(*types.Struct); ok && !types.Identical(st, wire) {
			return st.Field(x.Field).Name(), true
		}
	}
	return "", false
}

// c38Sources walks the operands of v breadth first (through helper parameters
// to the arguments of their single call site) and calls visit on each value;
// visit returns true to stop descending below that value.
func (c *Ctx) c38Sources(v ssa.Value, visit func(ssa.Value) bool) {
	seen := map[ssa.Value]bool{}
	work := []ssa.Value{v}
	for n := 0; len(work) > 0 && n < 400; n++ {
		x := work[0]
		work = work[1:]
		if x == nil || seen[x] {
			continue
		}
		seen[x] = true
		if visit(x) {
			continue
		}
		switch y := x.(type) {
		case *ssa.Parameter:
			if o := c.origin(y); o != ssa.Value(y) {
				work = append(work, o)
			}
			continue
		case *ssa.Alloc, *ssa.Const, *ssa.Global, *ssa.Function, *ssa.Builtin:
			continue
		}
		if in, ok := x.(ssa.Instruction); ok {
			for _, op := range in.Operands(nil) {
				if *op != nil {
					work = append(work, *op)
				}
			}
		}
	}
}

type c38Roles map[int]map[string]bool

func (r c38Roles) add(i int, name string) {
	if r[i] == nil {
		r[i] = map[string]bool{}
	}
	r[i][name] = true
}

func (r c38Roles) name(i int) string {
	var ns []string
	for n := range r[i] {
		ns = append(ns, n)
	}
	sort.Strings(ns)
	return strings.Join(ns, "|")
}

func c38Meet(a, b map[string]bool) bool {
	for n := range a {
		if b[n] {
			return true
		}
	}
	return false
}

// c38ParseRoles: wire field #i -> names of the key-object fields its value is stored into.
func (c *Ctx) c38ParseRoles(pf *ssa.Function, wire *types.Struct) c38Roles {
	roles := c38Roles{}
	deepInstrs(pf, func(in ssa.Instruction) {
		st, ok := in.(*ssa.Store)
		if !ok {
			return
		}
		fa, ok := st.Addr.(*ssa.FieldAddr)
		if !ok {
			return
		}
		dst := derefStruct(fa.X.Type())
		if dst == nil || types.Identical(dst, wire) {
			return
		}
		name := dst.Field(fa.Field).Name()
		c.c38Sources(st.Val, func(v ssa.Value) bool {
			if i, ok := c38WireField(v, wire); ok {
				roles.add(i, name)
				return true
			}
			return false
		})
	})
	return roles
}

// c38MarshalRoles: wire field #i -> name of the key-object field its value is computed from.
func (c *Ctx) c38MarshalRoles(mf *ssa.Function, wire *types.Struct) c38Roles {
	roles := c38Roles{}
	deepInstrs(mf, func(in ssa.Instruction) {
		st, ok := in.(*ssa.Store)
		if !ok {
			return
		}
		fa, ok := st.Addr.(*ssa.FieldAddr)
		if !ok {
			return
		}
		if dst := derefStruct(fa.X.Type()); dst == nil || !types.Identical(dst, wire) {
			return
		}
		c.c38Sources(st.Val, func(v ssa.Value) bool {
			if n, ok := c38OtherField(v, wire); ok {
				roles.add(fa.Field, n)
				return true
			}
			return false
		})
	})
	return roles
}

// c38WireStructs: the struct types passed (as pointer) to the named ssh
// function in fn or its helpers.
func c38WireStructs(fn *ssa.Function, callee string) []*types.Struct {
	var out []*types.Struct
	for _, ci := range deepCallsNamed(fn, callee) {
		args := ci.Common().Args
		idx := len(args) - 1 // Unmarshal(data, out) / Marshal(msg)
		if idx < 0 {
			continue
		}
		if mi, ok := args[idx].(*ssa.MakeInterface); ok {
			if st := derefStruct(mi.X.Type()); st != nil {
				dup := false
				for _, o := range out {
					if types.Identical(o, st) {
						dup = true
					}
				}
				if !dup {
					out = append(out, st)
				}
			}
		}
	}
	return out
}

// ---------------------------------------------------------------------------
// nil-ness bookkeeping on the walker (the evaluator has no nil constant)

const (
	c38ClsNil    = "nil"
	c38ClsNonNil = "nonnil"
)

// c38SetNil records that v is nil / non-nil on the current path and folds every
// comparison of v with nil accordingly.
func c38SetNil(w *pathWalker, v ssa.Value, isNil bool) {
	if v == nil {
		return
	}
	if isNil {
		w.cls[v] = c38ClsNil
	} else {
		w.cls[v] = c38ClsNonNil
	}
	refs := v.Referrers()
	if refs == nil {
		return
	}
	for _, r := range *refs {
		switch x := r.(type) {
		case *ssa.BinOp:
			if x.Op != token.EQL && x.Op != token.NEQ {
				continue
			}
			if !(isNilConst(x.X) && x.Y == v) && !(isNilConst(x.Y) && x.X == v) {
				continue
			}
			if (x.Op == token.EQL) == isNil {
				w.env.bind(x, 1)
			} else {
				w.env.bind(x, 0)
			}
		case *ssa.ChangeInterface:
			c38SetNil(w, x, isNil)
		}
	}
}

func c38SetNilResult(w *pathWalker, call *ssa.Call, idx int, isNil bool) {
	for _, v := range resultN(call, idx) {
		c38SetNil(w, v, isNil)
	}
}

func c38NilOf(w *pathWalker, v ssa.Value) (isNil, known bool) {
	for d := 0; d < 8; d++ {
		if isNilConst(v) {
			return true, true
		}
		switch w.cls[v] {
		case c38ClsNil:
			return true, true
		case c38ClsNonNil:
			return false, true
		}
		switch x := v.(type) {
		case *ssa.MakeInterface, *ssa.Alloc, *ssa.MakeSlice, *ssa.MakeMap:
			return false, true
		case *ssa.ChangeInterface:
			v = x.X
			continue
		case *ssa.UnOp:
			if x.Op == token.MUL {
				if _, isG := x.X.(*ssa.Global); isG && c38Nilable(x.Type()) {
					return false, true // sentinel error variable
				}
			}
		case *ssa.Call:
			switch calleeName(&x.Call) {
			case "errors.New", "fmt.Errorf":
				return false, true
			}
		}
		return false, false
	}
	return false, false
}

func c38Nilable(t types.Type) bool {
	switch t.Underlying().(type) {
	case *types.Interface, *types.Pointer, *types.Slice, *types.Map:
		return true
	}
	return false
}

func c38IsError(t types.Type) bool {
	return types.Identical(t, types.Universe.Lookup("error").Type())
}

// c38Walker: a walker on which nil-ness and roles travel in w.cls; model
// answers the calls the rule knows (returning true when it handled the call).
// Calls of same-package helpers are interpreted in place by the walker; a
// helper that cannot be interpreted and returns an error is taken to succeed
// (its own checks are not the subject of the rule that runs the walk).
func c38Walker(opaque map[string]bool, model func(w *pathWalker, call *ssa.Call, name string) bool) *pathWalker {
	op := map[string]bool{"Unmarshal": true, "Marshal": true} // reflective codec: modelled, never interpreted
	for k, v := range opaque {
		op[k] = v
	}
	w := &pathWalker{env: newEnv(), state: map[string]int64{}, cls: map[ssa.Value]string{}, opaque: op, maxSteps: 3000, lengths: true}
	w.onCall = func(w *pathWalker, ci ssa.CallInstruction) string {
		call, ok := ci.(*ssa.Call)
		if !ok {
			return ""
		}
		name := short(calleeName(&call.Call))
		switch name {
		case "errors.New", "fmt.Errorf":
			c38SetNil(w, call, false)
			return ""
		}
		if model != nil && model(w, call, name) {
			return ""
		}
		// an uninterpreted module helper: its error result is nil, a pointer or
		// interface result is present
		if callee := call.Call.StaticCallee(); callee != nil && callee.Pkg != nil && w.rootPkg != nil && callee.Pkg == w.rootPkg {
			res := call.Call.Signature().Results()
			for i := 0; i < res.Len(); i++ {
				if c38IsError(res.At(i).Type()) {
					c38SetNilResult(w, call, i, true)
				} else if c38Nilable(res.At(i).Type()) {
					if _, isSlice := res.At(i).Type().Underlying().(*types.Slice); !isSlice {
						c38SetNilResult(w, call, i, false)
					}
				}
			}
		}
		return ""
	}
	w.onReturn = func(parent, child *pathWalker, call *ssa.Call, results []ssa.Value) {
		for i, rv := range results {
			if !c38Nilable(rv.Type()) {
				continue
			}
			if st, known := c38NilOf(child, rv); known {
				c38SetNilResult(parent, call, i, st)
			}
			// roles travel back with single results through the engine; tuples here
			if cl, ok := child.cls[rv]; ok && strings.HasPrefix(cl, "role:") {
				for _, v := range resultN(call, i) {
					parent.cls[v] = cl
				}
			}
		}
	}
	w.onPhi = func(w *pathWalker, ph *ssa.Phi, incoming ssa.Value) {
		if st, known := c38NilOf(w, incoming); known && c38Nilable(ph.Type()) {
			c38SetNil(w, ph, st)
			return
		}
		if cl, ok := w.cls[incoming]; ok {
			w.cls[ph] = cl
		} else {
			delete(w.cls, ph)
		}
	}
	return w
}

// c38Outcome: after a walk that ended in a Return of the root function: was a
// key delivered (key result present, error result nil)?
func c38Outcome(w *pathWalker, f *ssa.Function, end string) (accepted bool, why string) {
	if end != "return" {
		if end == "panic" {
			return false, "the walk ends in a panic"
		}
		return false, "undecided: " + w.why
	}
	r, ok := w.last.(*ssa.Return)
	if !ok || r.Parent() != f {
		return false, "undecided: walk did not end at a return of " + fnName(f)
	}
	res := f.Signature.Results()
	hasKey, errNil := false, true
	for i := 0; i < res.Len(); i++ {
		rv := retVal(r, i)
		switch {
		case c38IsKeyType(res.At(i).Type()):
			if n, known := c38NilOf(w, rv); known && !n {
				hasKey = true
			} else if !known {
				hasKey = true // an unknown key value counts as a key
			}
		case c38IsError(res.At(i).Type()):
			n, known := c38NilOf(w, rv)
			if !known {
				return false, "undecided: nil-ness of the returned error is not determined"
			}
			errNil = n
		}
	}
	return hasKey && errNil, ""
}

// c38RoleLoads: onLoad hook that labels loads of wire fields with their role
// and, for the []byte payload fields, binds the length chosen by the rule.
func c38RoleLoads(wire *types.Struct, roles c38Roles, bytesLen func(i int) (int64, bool)) func(w *pathWalker, u *ssa.UnOp) (int64, bool) {
	return func(w *pathWalker, u *ssa.UnOp) (int64, bool) {
		i, ok := c38WireField(u, wire)
		if !ok {
			return 0, false
		}
		if n := roles.name(i); n != "" {
			w.cls[u] = "role:" + n
		}
		if bytesLen != nil {
			if _, isSlice := u.Type().Underlying().(*types.Slice); isSlice {
				return bytesLen(i)
			}
		}
		return 0, false
	}
}

func c38RoleOf(w *pathWalker, v ssa.Value) string {
	for d := 0; d < 6; d++ {
		if cl, ok := w.cls[v]; ok && strings.HasPrefix(cl, "role:") {
			return cl[len("role:"):]
		}
		switch x := v.(type) {
		case *ssa.ChangeType:
			v = x.X
		case *ssa.Convert:
			v = x.X
		default:
			return ""
		}
	}
	return ""
}

// c38HasRole: one of the roles of v (a wire field may flow into several key
// fields, e.g. P into Parameters.P and, inside the struct, into Parameters).
func c38HasRole(w *pathWalker, v ssa.Value, role string) bool {
	for _, r := range strings.Split(c38RoleOf(w, v), "|") {
		if r == role {
			return true
		}
	}
	return false
}

func c38Sign(n int64) int64 {
	switch {
	case n < 0:
		return -1
	case n > 0:
		return 1
	}
	return 0
}

// c38ParserSetup: wire struct and roles of a parse function (nil wire: not found).
func (c *Ctx) c38ParserSetup(f *ssa.Function) (*types.Struct, c38Roles) {
	ws := c38WireStructs(f, "ssh.Unmarshal")
	if len(ws) != 1 {
		return nil, nil
	}
	return ws[0], c.c38ParseRoles(f, ws[0])
}

// c38UnmarshalOK: model of ssh.Unmarshal: succeeds.
func c38UnmarshalOK(w *pathWalker, call *ssa.Call, name string) bool {
	if name == "ssh.Unmarshal" {
		c38SetNil(w, call, true)
		return true
	}
	return false
}

// ---------------------------------------------------------------------------
// range guards

func (c *Ctx) c38RangeRSA(f *ssa.Function) {
	wire, roles := c.c38ParserSetup(f)
	bad, cases := "", 0
	var eIdx, nIdx = -1, -1
	if wire != nil {
		for i := 0; i < wire.NumFields(); i++ {
			if roles[i]["E"] && !roles[i]["N"] {
				eIdx = i
			}
			if roles[i]["N"] && !roles[i]["E"] {
				nIdx = i
			}
		}
	}
	if wire == nil || eIdx < 0 || nIdx < 0 || eIdx == nIdx {
		bad = "modulus / exponent not found: no field of the struct passed to Unmarshal flows into rsa.PublicKey.N and another into rsa.PublicKey.E"
	} else {
	loop:
		for _, nb := range []int64{1024, 16384, 16385, 1 << 20} {
			for _, eb := range []int64{2, 17, 24, 25, 64} {
				for _, ev := range []int64{-1, 0, 1, 2, 3, 4, 65537, 65538} {
					w := c38Walker(nil, func(w *pathWalker, call *ssa.Call, name string) bool {
						if c38UnmarshalOK(w, call, name) {
							return true
						}
						if !strings.HasPrefix(name, "(*math/big.Int).") || len(call.Call.Args) == 0 {
							return false
						}
						isE, isN := c38HasRole(w, call.Call.Args[0], "E"), c38HasRole(w, call.Call.Args[0], "N")
						if isE && isN {
							return true // ambiguous: answer nothing
						}
						switch strings.TrimPrefix(name, "(*math/big.Int).") {
						case "BitLen":
							if isN {
								w.env.bind(call, nb)
							} else if isE {
								w.env.bind(call, eb)
							}
						case "Int64", "Uint64":
							if isE {
								w.env.bind(call, ev)
							}
						case "IsInt64", "IsUint64":
							if isE {
								w.env.bind(call, map[bool]int64{true: 1, false: 0}[eb <= 63])
							}
						case "Sign":
							if isE {
								w.env.bind(call, c38Sign(ev))
							} else if isN {
								w.env.bind(call, 1)
							}
						case "Bit":
							if k, ok := w.env.eval(call.Call.Args[1]); ok && k == 0 && isE {
								w.env.bind(call, ev&1)
							}
						}
						return true
					})
					w.onLoad = c38RoleLoads(wire, roles, nil)
					got, why := c38Outcome(w, f, w.walk(f.Blocks[0], nil))
					cases++
					if why != "" {
						bad = fmt.Sprintf("N bits=%d E bits=%d E=%d: %s", nb, eb, ev, why)
						break loop
					}
					want := nb <= 16384 && eb <= 24 && ev >= 3 && ev&1 == 1
					if got != want {
						bad = fmt.Sprintf("N bits=%d E bits=%d E=%d: accepted=%v, specification %v", nb, eb, ev, got, want)
						break loop
					}
				}
			}
		}
	}
	c.check(bad == "", "C38.range", "parseRSA", f, fmt.Sprintf("modulus <= 16384 bits, exponent <= 24 bits, odd and >= 3 (%d cases interpreted, helpers in place)", cases), bad)
}

func (c *Ctx) c38RangeDSA(f *ssa.Function) {
	wire, roles := c.c38ParserSetup(f)
	bad, cases := "", 0
	hasY, hasP := false, false
	for i := range roles {
		hasY = hasY || roles[i]["Y"]
		hasP = hasP || roles[i]["P"]
	}
	if wire == nil || !hasY || !hasP {
		bad = "Y / P not found: no field of the struct passed to Unmarshal flows into the key's Y and another into its parameter P"
	} else {
	loop:
		for _, s := range []int64{-1, 0, 1} {
			for _, k := range []int64{-1, 0, 1} {
				w := c38Walker(nil, func(w *pathWalker, call *ssa.Call, name string) bool {
					if c38UnmarshalOK(w, call, name) {
						return true
					}
					if !strings.HasPrefix(name, "(*math/big.Int).") || len(call.Call.Args) == 0 {
						return false
					}
					role := func(i int, r string) bool {
						other := map[string]string{"Y": "P", "P": "Y"}[r]
						return c38HasRole(w, call.Call.Args[i], r) && !c38HasRole(w, call.Call.Args[i], other)
					}
					switch strings.TrimPrefix(name, "(*math/big.Int).") {
					case "Sign":
						if role(0, "Y") {
							w.env.bind(call, s)
						}
					case "Cmp":
						if role(0, "Y") && role(1, "P") {
							w.env.bind(call, k)
						} else if role(0, "P") && role(1, "Y") {
							w.env.bind(call, -k)
						}
					}
					return true
				})
				w.onLoad = c38RoleLoads(wire, roles, nil)
				got, why := c38Outcome(w, f, w.walk(f.Blocks[0], nil))
				cases++
				if why != "" {
					bad = fmt.Sprintf("sign(Y)=%d cmp(Y,P)=%d: %s", s, k, why)
					break loop
				}
				if got != (s > 0 && k < 0) {
					bad = fmt.Sprintf("sign(Y)=%d cmp(Y,P)=%d: accepted=%v", s, k, got)
					break loop
				}
			}
		}
	}
	c.check(bad == "", "C38.range", "parseDSA", f, fmt.Sprintf("0 < Y < P (%d cases interpreted, helpers in place)", cases), bad)
}

func (c *Ctx) c38RangeEd25519(f *ssa.Function) {
	wire, roles := c.c38ParserSetup(f)
	bad, cases := "", 0
	payload := -1
	if wire != nil {
		for i := 0; i < wire.NumFields(); i++ {
			if s, ok := wire.Field(i).Type().Underlying().(*types.Slice); ok && !strings.Contains(wire.Tag(i), `ssh:"rest"`) {
				if b, isB := s.Elem().Underlying().(*types.Basic); isB && b.Kind() == types.Byte {
					if payload >= 0 {
						payload = -2
					} else {
						payload = i
					}
				}
			}
		}
	}
	if wire == nil || payload < 0 {
		bad = "key bytes not found: the struct passed to Unmarshal has no single []byte payload field"
	} else {
		for _, n := range []int64{0, 31, 32, 33, 64} {
			w := c38Walker(nil, c38UnmarshalOK)
			w.onLoad = c38RoleLoads(wire, roles, func(i int) (int64, bool) {
				if i == payload {
					return n, true
				}
				return 0, false
			})
			got, why := c38Outcome(w, f, w.walk(f.Blocks[0], nil))
			cases++
			if why != "" {
				bad = fmt.Sprintf("key of %d bytes: %s", n, why)
				break
			}
			if got != (n == 32) {
				bad = fmt.Sprintf("key of %d bytes accepted=%v", n, got)
				break
			}
		}
	}
	c.check(bad == "", "C38.range", "parseED25519", f, fmt.Sprintf("exactly 32 key bytes (%d lengths interpreted, helpers in place)", cases), bad)
}

// c38DSAParams: every key-carrying return of parseDSA lies behind a nil result
// of checkDSAParams (value-sensitive, across helpers).
func (c *Ctx) c38DSAParams(f *ssa.Function) {
	const what = "checkDSAParams == nil"
	g := c38NewGate(nil)
	n := 0
	g.valGate = func(v ssa.Value, st c38St) bool {
		call, ok := v.(*ssa.Call)
		return ok && st == c38Nil && short(calleeName(&call.Call)) == "ssh.checkDSAParams"
	}
	for _, ci := range deepCallsNamed(f, "ssh.checkDSAParams") {
		_ = ci
		n++
	}
	keyed := c38KeyedReturns(f)
	switch {
	case n == 0:
		c.fail("C38.range", "parseDSA parameters", f, "gate not found: "+what+" (checkDSAParams is not called by parseDSA or its helpers)")
		return
	case len(keyed) == 0:
		c.fail("C38.range", "parseDSA parameters", f, "no key-carrying return found for "+what+" (rule anchor lost)")
		return
	}
	cut := g.passOf(f)
	r := reach([]*ssa.BasicBlock{f.Blocks[0]}, cut)
	for _, kr := range keyed {
		if r[kr.r.Block()] {
			c.fail("C38.range", "parseDSA parameters", kr.r, "reachable without passing "+what)
			return
		}
	}
	c.ok("C38.range", "parseDSA parameters", keyed[0].r, fmt.Sprintf("every path to the %d key-carrying return(s) passes %s (%d pass edge(s), helper results included)", len(keyed), what, len(cut)))
}

// ---------------------------------------------------------------------------
// trailing bytes

func (c *Ctx) c38Trailing(f *ssa.Function) {
	bad := ""
	if len(deepCallsNamed(f, "ssh.parsePubKey")) == 0 {
		bad = "parsePubKey not called"
	}
	for _, n := range []int64{0, 1, 7} {
		if bad != "" {
			break
		}
		w := c38Walker(map[string]bool{"parsePubKey": true, "parseString": true}, func(w *pathWalker, call *ssa.Call, name string) bool {
			switch name {
			case "ssh.parsePubKey", "ssh.parseString":
			default:
				return false
			}
			res := call.Call.Signature().Results()
			rs := make([]optInt, res.Len())
			for i := 0; i < res.Len(); i++ {
				t := res.At(i).Type()
				switch {
				case c38IsKeyType(t):
					c38SetNilResult(w, call, i, false)
				case c38IsError(t):
					c38SetNilResult(w, call, i, true)
				default:
					if b, ok := t.Underlying().(*types.Basic); ok && b.Kind() == types.Bool {
						rs[i] = optInt{1, true}
					}
					if _, ok := t.Underlying().(*types.Slice); ok && name == "ssh.parsePubKey" {
						rs[i] = optInt{n, true} // the unparsed rest, by length
					}
				}
			}
			if w.tuple == nil {
				w.tuple = map[ssa.Value][]optInt{}
			}
			w.tuple[call] = rs
			return true
		})
		got, why := c38Outcome(w, f, w.walk(f.Blocks[0], nil))
		if why != "" {
			bad = fmt.Sprintf("%d trailing bytes: %s", n, why)
		} else if got != (n == 0) {
			bad = fmt.Sprintf("%d trailing bytes: a key is returned=%v", n, got)
		}
	}
	c.check(bad == "", "C38.trailing", "ParsePublicKey", f, "trailing bytes after the key blob are rejected (interpreted for 0, 1 and 7 bytes left over by parsePubKey)", bad)
}

// ---------------------------------------------------------------------------
// dispatch

// c38Route: the parse* functions of package ssh reached when parsePubKey is
// interpreted with its algorithm-name parameter equal to name.
func (c *Ctx) c38Route(f *ssa.Function, algo *ssa.Parameter, parsers map[string]bool, name string) (got []string, why string) {
	ids := map[string]int64{}
	id := func(s string) int64 {
		if _, ok := ids[s]; !ok {
			ids[s] = int64(1000 + len(ids))
		}
		return ids[s]
	}
	w := c38Walker(parsers, func(w *pathWalker, call *ssa.Call, cn string) bool {
		callee := call.Call.StaticCallee()
		if callee == nil || !parsers[callee.Name()] || callee.Pkg != f.Pkg {
			return false
		}
		got = append(got, cn)
		res := call.Call.Signature().Results()
		for i := 0; i < res.Len(); i++ {
			if c38IsError(res.At(i).Type()) {
				c38SetNilResult(w, call, i, true)
			} else if c38Nilable(res.At(i).Type()) {
				if _, isSlice := res.At(i).Type().Underlying().(*types.Slice); !isSlice {
					c38SetNilResult(w, call, i, false)
				}
			}
		}
		return true
	})
	// string constants are abstract identities: equal text, equal identity
	bindConsts := func(e *penv, g *ssa.Function) {
		allInstrs(g, func(in ssa.Instruction) {
			for _, op := range in.Operands(nil) {
				if cst, ok := (*op).(*ssa.Const); ok && cst.Value != nil && cst.Value.Kind() == constant.String {
					e.bind(cst, id(constant.StringVal(cst.Value)))
				}
			}
		})
	}
	bindConsts(w.env, f)
	w.onInline = func(parent, child *pathWalker, callee *ssa.Function, args []ssa.Value) {
		bindConsts(child.env, callee)
	}
	w.env.bind(algo, id(name))
	end := w.walk(f.Blocks[0], nil)
	if end != "return" && end != "panic" {
		return got, "undecided: " + w.why
	}
	return got, ""
}

func (c *Ctx) c38Dispatch(f *ssa.Function) {
	want := map[string]string{
		"ssh-rsa": "ssh.parseRSA", "ssh-dss": "ssh.parseDSA",
		"ecdsa-sha2-nistp256": "ssh.parseECDSA", "ecdsa-sha2-nistp384": "ssh.parseECDSA", "ecdsa-sha2-nistp521": "ssh.parseECDSA",
		"sk-ecdsa-sha2-nistp256@openssh.com": "ssh.parseSKECDSA", "ssh-ed25519": "ssh.parseED25519", "sk-ssh-ed25519@openssh.com": "ssh.parseSKEd25519",
	}
	certs := []string{"ssh-rsa-cert-v01@openssh.com", "ssh-dss-cert-v01@openssh.com", "ecdsa-sha2-nistp256-cert-v01@openssh.com", "ecdsa-sha2-nistp384-cert-v01@openssh.com", "ecdsa-sha2-nistp521-cert-v01@openssh.com", "sk-ecdsa-sha2-nistp256-cert-v01@openssh.com", "ssh-ed25519-cert-v01@openssh.com", "sk-ssh-ed25519-cert-v01@openssh.com"}
	// the algorithm name is the string parameter
	var algo *ssa.Parameter
	nStr := 0
	for _, p := range f.Params {
		if b, ok := p.Type().Underlying().(*types.Basic); ok && b.Kind() == types.String {
			algo = p
			nStr++
		}
	}
	if nStr != 1 {
		c.fail("C38.dispatch", "parsePubKey", f, "the algorithm-name parameter (the one string parameter) was not found")
		return
	}
	// the format parsers named by the rule are observed, not interpreted; any
	// other helper on the way to them is interpreted in place
	parsers := map[string]bool{"parseCert": true}
	for _, p := range want {
		parsers[strings.TrimPrefix(p, "ssh.")] = true
	}
	bad := ""
	expect := func(name, parser, kind string) {
		if bad != "" {
			return
		}
		got, why := c.c38Route(f, algo, parsers, name)
		var ps []string
		for _, g := range got {
			if g != "ssh.parseString" {
				ps = append(ps, g)
			}
		}
		switch {
		case why != "":
			bad = fmt.Sprintf("%s %q: %s", kind, name, why)
		case parser == "" && len(ps) > 0:
			bad = "an unknown algorithm name reaches a parser: " + strings.Join(ps, ",")
		case parser != "" && (len(ps) != 1 || ps[0] != parser):
			bad = fmt.Sprintf("%s %q is parsed by %q, expected %s", kind, name, strings.Join(ps, ","), parser)
		}
	}
	var names []string
	for n := range want {
		names = append(names, n)
	}
	sort.Strings(names)
	for _, n := range names {
		expect(n, want[n], "algorithm")
	}
	for _, n := range certs {
		expect(n, "ssh.parseCert", "certificate algorithm")
	}
	expect("no-such-algorithm", "", "algorithm")
	c.check(bad == "", "C38.dispatch", "parsePubKey", f, fmt.Sprintf("%d key and %d certificate algorithm names reach their parser; unknown names reach none (parsePubKey interpreted per name, helpers in place)", len(want), len(certs)), bad)
}
