package main

import (
	"fmt"
	"go/token"
	"go/types"
	"math/big"
	"strings"

	"golang.org/x/tools/go/ssa"
)

// mpint rules of C24, decided by interpretation instead of by the shape of
// intLength / marshalInt / parseInt.
//
// The path walker (pathwalk.go) folds the integer part of the three functions;
// this file adds a small heap model on the walker's side tables so that the
// values the code manipulates are followed wherever the code puts them (a
// helper, a switch, a stdlib call instead of a hand-written loop):
//
//	w.cls[v]   identity of the object an SSA value denotes: "I<k>" a *big.Int,
//	           "B<k>" the backing store of a byte slice / byte array;
//	w.off[v]   offset of a slice value's first byte in its backing store;
//	w.env      (lengths mode) the LENGTH of every slice value, all integers.
//
// The math/big and encoding/binary calls are modelled by their documented
// meaning on these objects. A call that touches a tracked object and is not
// modelled is a gap: the case is reported undecided, never passed.

type c24Ref struct {
	id  string
	off int64
	ok  bool
}

type c24Heap struct {
	c       *Ctx
	ints    map[string]*big.Int
	bufs    map[string][]int64 // -1 = unknown byte
	next    int
	gap     string
	tup     map[ssa.Value][]c24Ref
	globals map[*ssa.Global]*big.Int
}

func c24NewHeap(c *Ctx) *c24Heap {
	return &c24Heap{c: c, ints: map[string]*big.Int{}, bufs: map[string][]int64{}, tup: map[ssa.Value][]c24Ref{}}
}

func (h *c24Heap) setGap(s string) {
	if h.gap == "" {
		h.gap = s
	}
}

func (h *c24Heap) newInt(v *big.Int) string {
	h.next++
	id := fmt.Sprintf("I%d", h.next)
	h.ints[id] = v
	return id
}

func (h *c24Heap) newBuf(content []int64) string {
	h.next++
	id := fmt.Sprintf("B%d", h.next)
	h.bufs[id] = content
	return id
}

func c24IsBigInt(t types.Type) bool {
	n, ok := t.(*types.Named)
	return ok && n.Obj().Pkg() != nil && n.Obj().Pkg().Path() == "math/big" && n.Obj().Name() == "Int"
}

func c24IsBigPtr(t types.Type) bool {
	p, ok := t.Underlying().(*types.Pointer)
	return ok && c24IsBigInt(p.Elem())
}

func c24IsByte(t types.Type) bool {
	b, ok := t.Underlying().(*types.Basic)
	return ok && b.Kind() == types.Uint8
}

func c24IsByteSlice(t types.Type) bool {
	s, ok := t.Underlying().(*types.Slice)
	return ok && c24IsByte(s.Elem())
}

// c24ByteArrayPtr: *[N]byte -> N
func c24ByteArrayPtr(t types.Type) (int64, bool) {
	p, ok := t.Underlying().(*types.Pointer)
	if !ok {
		return 0, false
	}
	a, ok := p.Elem().Underlying().(*types.Array)
	if !ok || !c24IsByte(a.Elem()) {
		return 0, false
	}
	return a.Len(), true
}

// globalInt: the value of a package-level *big.Int that is initialised once,
// by big.NewInt(constant) in the package initialiser, and assigned nowhere else.
func (h *c24Heap) globalInt(g *ssa.Global) (*big.Int, bool) {
	if v, ok := h.globals[g]; ok {
		return v, v != nil
	}
	if h.globals == nil {
		h.globals = map[*ssa.Global]*big.Int{}
	}
	h.globals[g] = nil
	if g.Pkg == nil {
		return nil, false
	}
	var val *big.Int
	stores := 0
	seen := map[*ssa.Function]bool{}
	var visit func(f *ssa.Function)
	visit = func(f *ssa.Function) {
		if f == nil || seen[f] {
			return
		}
		seen[f] = true
		allInstrs(f, func(in ssa.Instruction) {
			st, ok := in.(*ssa.Store)
			if !ok || st.Addr != ssa.Value(g) {
				return
			}
			stores++
			if call, ok := st.Val.(*ssa.Call); ok && calleeName(&call.Call) == "math/big.NewInt" && f.Name() == "init" {
				if k, ok := constInt(call.Call.Args[0]); ok {
					val = big.NewInt(k)
				}
			}
		})
		for _, an := range f.AnonFuncs {
			visit(an)
		}
	}
	for _, m := range g.Pkg.Members {
		if f, ok := m.(*ssa.Function); ok {
			visit(f)
		}
	}
	for f := range h.c.ld.allFns {
		if f.Pkg == g.Pkg {
			visit(f)
		}
	}
	if stores != 1 || val == nil {
		return nil, false
	}
	h.globals[g] = val
	return val, true
}

// ref: identity of the object v denotes ("" = none / not tracked). Fresh
// allocations and loads of constant globals get their object on first use.
func (h *c24Heap) ref(w *pathWalker, v ssa.Value) string {
	if v == nil {
		return ""
	}
	if id, ok := w.cls[v]; ok {
		return id
	}
	switch x := v.(type) {
	case *ssa.Alloc:
		el := x.Type().Underlying().(*types.Pointer).Elem()
		if c24IsBigInt(el) {
			id := h.newInt(new(big.Int))
			w.cls[x] = id
			return id
		}
		if n, ok := c24ByteArrayPtr(x.Type()); ok && n <= 1<<16 {
			id := h.newBuf(make([]int64, n))
			w.cls[x], w.off[x] = id, 0
			return id
		}
	case *ssa.MakeSlice:
		if n, ok := w.env.eval(x.Len); ok && n >= 0 && n <= 1<<16 && c24IsByteSlice(x.Type()) {
			id := h.newBuf(make([]int64, n))
			w.cls[x], w.off[x] = id, 0
			return id
		}
	case *ssa.ChangeType:
		if id := h.ref(w, x.X); id != "" {
			w.cls[x] = id
			if o, ok := w.off[x.X]; ok {
				w.off[x] = o
			}
			return id
		}
	case *ssa.UnOp:
		if x.Op == token.MUL && c24IsBigPtr(x.Type()) {
			if g, ok := x.X.(*ssa.Global); ok {
				if val, ok := h.globalInt(g); ok {
					id := h.newInt(new(big.Int).Set(val))
					w.cls[x] = id
					return id
				}
			}
		}
	}
	return ""
}

// slice: backing store, offset and length of a byte slice value (or pointer to
// a byte array).
func (h *c24Heap) slice(w *pathWalker, v ssa.Value) (id string, off, n int64, ok bool) {
	id = h.ref(w, v)
	if id == "" || !strings.HasPrefix(id, "B") {
		return "", 0, 0, false
	}
	off = w.off[v]
	if an, isArr := c24ByteArrayPtr(v.Type()); isArr {
		n = an
	} else if l, known := w.env.eval(v); known {
		n = l
	} else {
		return "", 0, 0, false
	}
	if off < 0 || n < 0 || off+n > int64(len(h.bufs[id])) {
		// a reslice beyond the length: the walker has flagged it; the model has
		// no bytes there
		return "", 0, 0, false
	}
	return id, off, n, true
}

func (h *c24Heap) bytesOf(w *pathWalker, v ssa.Value) ([]byte, bool) {
	id, off, n, ok := h.slice(w, v)
	if !ok {
		return nil, false
	}
	out := make([]byte, n)
	for i := int64(0); i < n; i++ {
		b := h.bufs[id][off+i]
		if b < 0 {
			return nil, false
		}
		out[i] = byte(b)
	}
	return out, true
}

func (h *c24Heap) tracked(w *pathWalker, v ssa.Value) bool {
	if c24IsBigPtr(v.Type()) || c24IsByteSlice(v.Type()) {
		return h.ref(w, v) != ""
	}
	if _, ok := c24ByteArrayPtr(v.Type()); ok {
		return h.ref(w, v) != ""
	}
	return false
}

// c24BindNilSlices: in lengths mode a nil slice constant is a slice of length 0.
func c24BindNilSlices(e *penv, f *ssa.Function) {
	allInstrs(f, func(in ssa.Instruction) {
		for _, op := range in.Operands(nil) {
			if k, ok := (*op).(*ssa.Const); ok && k.IsNil() {
				if _, isSlice := k.Type().Underlying().(*types.Slice); isSlice {
					e.bind(k, 0)
				}
			}
		}
	})
}

// install wires the heap model into a walker that is about to interpret root.
func (h *c24Heap) install(w *pathWalker, root *ssa.Function) {
	pkg := root.Pkg
	c24BindNilSlices(w.env, root)
	w.cls = map[ssa.Value]string{}
	w.off = map[ssa.Value]int64{}
	w.lengths = true
	w.state = map[string]int64{}
	w.inline = func(callee *ssa.Function) bool { return callee.Pkg == pkg }
	w.onPhi = func(w *pathWalker, ph *ssa.Phi, incoming ssa.Value) {
		if id := h.ref(w, incoming); id != "" {
			w.cls[ph] = id
			w.off[ph] = w.off[incoming]
		} else {
			delete(w.cls, ph)
			delete(w.off, ph)
		}
	}
	w.onSlice = func(w *pathWalker, sl *ssa.Slice) {
		id := h.ref(w, sl.X)
		if id == "" {
			delete(w.cls, sl)
			return
		}
		lo := int64(0)
		if sl.Low != nil {
			n, ok := w.env.eval(sl.Low)
			if !ok {
				delete(w.cls, sl)
				return
			}
			lo = n
		}
		w.cls[sl] = id
		w.off[sl] = w.off[sl.X] + lo
	}
	w.onLoad = func(w *pathWalker, u *ssa.UnOp) (int64, bool) {
		switch a := u.X.(type) {
		case *ssa.IndexAddr:
			id, off, n, ok := h.slice(w, a.X)
			if !ok {
				return 0, false
			}
			i, ok := w.env.eval(a.Index)
			if !ok || i < 0 || i >= n {
				return 0, false
			}
			b := h.bufs[id][off+i]
			return b, b >= 0
		case *ssa.Global:
			h.ref(w, u)
		}
		return 0, false
	}
	w.onStore = func(w *pathWalker, st *ssa.Store) string {
		a, ok := st.Addr.(*ssa.IndexAddr)
		if !ok {
			if h.tracked(w, st.Val) {
				h.setGap("a tracked object is stored to memory the model does not follow (" + st.String() + ")")
			}
			return ""
		}
		id, off, n, ok := h.slice(w, a.X)
		if !ok {
			return ""
		}
		i, ok := w.env.eval(a.Index)
		if !ok {
			h.setGap("store at an index that does not evaluate")
			return ""
		}
		if i < 0 || i >= n {
			return "" // out of range: flagged by the walker
		}
		if v, ok := w.env.eval(st.Val); ok {
			h.bufs[id][off+i] = v & 0xff
		} else {
			h.bufs[id][off+i] = -1
		}
		return ""
	}
	w.onInline = func(parent, child *pathWalker, callee *ssa.Function, args []ssa.Value) {
		c24BindNilSlices(child.env, callee)
		// a fresh activation has fresh allocations
		allInstrs(callee, func(in ssa.Instruction) {
			switch x := in.(type) {
			case *ssa.Alloc:
				delete(parent.cls, x)
				delete(parent.off, x)
			case *ssa.MakeSlice:
				delete(parent.cls, x)
				delete(parent.off, x)
			}
		})
		for i, p := range callee.Params {
			if i >= len(args) {
				break
			}
			if id := h.ref(parent, args[i]); id != "" {
				parent.cls[p] = id
				parent.off[p] = parent.off[args[i]]
			}
		}
	}
	w.onReturn = func(parent, child *pathWalker, call *ssa.Call, results []ssa.Value) {
		var rs []c24Ref
		for _, r := range results {
			id := h.ref(child, r)
			rs = append(rs, c24Ref{id, parent.off[r], id != ""})
		}
		if len(rs) == 1 {
			if rs[0].ok {
				parent.cls[call], parent.off[call] = rs[0].id, rs[0].off
			} else {
				delete(parent.cls, call)
			}
			return
		}
		h.tup[call] = rs
	}
	w.onExtract = func(w *pathWalker, ex *ssa.Extract) {
		if rs, ok := h.tup[ex.Tuple]; ok && ex.Index < len(rs) && rs[ex.Index].ok {
			w.cls[ex], w.off[ex] = rs[ex.Index].id, rs[ex.Index].off
		} else {
			delete(w.cls, ex)
		}
	}
	w.onCall = func(w *pathWalker, ci ssa.CallInstruction) string {
		h.call(w, ci)
		return ""
	}
}

func (h *c24Heap) call(w *pathWalker, ci ssa.CallInstruction) {
	cc := ci.Common()
	name := calleeName(cc)
	args := cc.Args
	val, _ := ci.(ssa.Value)
	bind := func(n int64) {
		if val != nil {
			w.env.bind(val, n)
		}
	}
	unbind := func() {
		if val != nil {
			delete(w.env.vals, val)
			delete(w.cls, val)
			delete(w.off, val)
		}
	}
	bigArg := func(i int) *big.Int {
		if i >= len(args) {
			return nil
		}
		id := h.ref(w, args[i])
		if id == "" || h.ints[id] == nil {
			h.setGap(fmt.Sprintf("operand %d of %s is not a tracked big.Int", i, short(name)))
			return nil
		}
		return h.ints[id]
	}
	intArg := func(i int) (int64, bool) {
		if i >= len(args) {
			return 0, false
		}
		n, ok := w.env.eval(args[i])
		if !ok {
			h.setGap(fmt.Sprintf("operand %d of %s does not evaluate", i, short(name)))
		}
		return n, ok
	}
	// set the receiver object to v and make the call's result denote it
	setRecv := func(v *big.Int) {
		id := h.ref(w, args[0])
		if id == "" || v == nil {
			if id == "" {
				h.setGap("receiver of " + short(name) + " is not a tracked big.Int")
			}
			unbind()
			return
		}
		h.ints[id] = v
		if val != nil {
			w.cls[val] = id
		}
	}
	newBytes := func(b []byte) {
		content := make([]int64, len(b))
		for i, x := range b {
			content[i] = int64(x)
		}
		id := h.newBuf(content)
		if val != nil {
			w.cls[val], w.off[val] = id, 0
			w.env.bind(val, int64(len(b)))
		}
	}
	switch {
	case name == "math/big.NewInt":
		if k, ok := intArg(0); ok && val != nil {
			w.cls[val] = h.newInt(big.NewInt(k))
		} else {
			unbind()
		}
		return
	case strings.HasPrefix(name, "(*math/big.Int)."):
		m := name[len("(*math/big.Int)."):]
		switch m {
		case "Sign":
			if x := bigArg(0); x != nil {
				bind(int64(x.Sign()))
				return
			}
		case "BitLen":
			if x := bigArg(0); x != nil {
				bind(int64(x.BitLen()))
				return
			}
		case "TrailingZeroBits":
			if x := bigArg(0); x != nil {
				bind(int64(x.TrailingZeroBits()))
				return
			}
		case "IsInt64", "IsUint64":
			if x := bigArg(0); x != nil {
				r := x.IsInt64()
				if m == "IsUint64" {
					r = x.IsUint64()
				}
				if r {
					bind(1)
				} else {
					bind(0)
				}
				return
			}
		case "Int64":
			if x := bigArg(0); x != nil && x.IsInt64() {
				bind(x.Int64())
				return
			}
		case "Uint64":
			if x := bigArg(0); x != nil && x.IsUint64() {
				bind(int64(x.Uint64()))
				return
			}
		case "Bit":
			if x := bigArg(0); x != nil {
				if k, ok := intArg(1); ok && k >= 0 && k < 1<<20 {
					bind(int64(x.Bit(int(k))))
					return
				}
			}
		case "Cmp", "CmpAbs":
			if x, y := bigArg(0), bigArg(1); x != nil && y != nil {
				if m == "Cmp" {
					bind(int64(x.Cmp(y)))
				} else {
					bind(int64(x.CmpAbs(y)))
				}
				return
			}
		case "Neg", "Abs", "Not", "Set":
			if x := bigArg(1); x != nil {
				z := new(big.Int)
				switch m {
				case "Neg":
					z.Neg(x)
				case "Abs":
					z.Abs(x)
				case "Not":
					z.Not(x)
				default:
					z.Set(x)
				}
				setRecv(z)
				return
			}
		case "Add", "Sub", "Mul", "And", "Or", "Xor", "AndNot":
			if x, y := bigArg(1), bigArg(2); x != nil && y != nil {
				z := new(big.Int)
				switch m {
				case "Add":
					z.Add(x, y)
				case "Sub":
					z.Sub(x, y)
				case "Mul":
					z.Mul(x, y)
				case "And":
					z.And(x, y)
				case "Or":
					z.Or(x, y)
				case "Xor":
					z.Xor(x, y)
				default:
					z.AndNot(x, y)
				}
				setRecv(z)
				return
			}
		case "Lsh", "Rsh":
			if x := bigArg(1); x != nil {
				if k, ok := intArg(2); ok && k >= 0 && k < 1<<16 {
					z := new(big.Int)
					if m == "Lsh" {
						z.Lsh(x, uint(k))
					} else {
						z.Rsh(x, uint(k))
					}
					setRecv(z)
					return
				}
			}
		case "SetInt64":
			if k, ok := intArg(1); ok {
				setRecv(big.NewInt(k))
				return
			}
		case "SetUint64":
			if k, ok := intArg(1); ok {
				setRecv(new(big.Int).SetUint64(uint64(k)))
				return
			}
		case "SetBit":
			if x := bigArg(1); x != nil {
				k, ok1 := intArg(2)
				b, ok2 := intArg(3)
				if ok1 && ok2 && k >= 0 && k < 1<<16 && (b == 0 || b == 1) {
					setRecv(new(big.Int).SetBit(x, int(k), uint(b)))
					return
				}
			}
		case "SetBytes":
			if len(args) > 1 {
				if l, ok := w.env.eval(args[1]); ok && l == 0 {
					setRecv(new(big.Int)) // empty or nil slice
					return
				}
				if b, ok := h.bytesOf(w, args[1]); ok {
					setRecv(new(big.Int).SetBytes(b))
					return
				}
				h.setGap("SetBytes on bytes the model does not know")
			}
		case "Bytes":
			if x := bigArg(0); x != nil {
				newBytes(x.Bytes())
				return
			}
		case "FillBytes":
			if x := bigArg(0); x != nil && len(args) > 1 {
				id, off, n, ok := h.slice(w, args[1])
				if ok {
					if int64(len(x.Bytes())) > n {
						h.setGap("FillBytes into a buffer that is too small (panics)")
					} else {
						b := x.FillBytes(make([]byte, n))
						for i := range b {
							h.bufs[id][off+int64(i)] = int64(b[i])
						}
						if val != nil {
							w.cls[val], w.off[val] = id, off
							w.env.bind(val, n)
						}
						return
					}
				} else {
					h.setGap("FillBytes into a buffer the model does not follow")
				}
			}
		default:
			h.setGap("math/big method " + m + " is not modelled")
		}
		unbind()
		return
	case name == "builtin:copy" && len(args) == 2:
		did, doff, dn, ok1 := h.slice(w, args[0])
		if !ok1 {
			return // destination not tracked: nothing the rule observes
		}
		sid, soff, sn, ok2 := h.slice(w, args[1])
		k := min(dn, sn)
		if !ok2 {
			if l, known := w.env.eval(args[1]); known {
				k = min(dn, l)
				for i := int64(0); i < k; i++ {
					h.bufs[did][doff+i] = -1
				}
			} else {
				h.setGap("copy from a source of unknown length into a tracked buffer")
			}
			return
		}
		tmp := append([]int64(nil), h.bufs[sid][soff:soff+k]...)
		copy(h.bufs[did][doff:doff+k], tmp)
		return
	case name == "builtin:append" && len(args) == 2 && c24IsByteSlice(args[0].Type()):
		// the result is modelled as a fresh slice holding dst ++ src
		var a, b []byte
		oka, okb := true, true
		if l, known := w.env.eval(args[0]); known && l == 0 {
			a = nil
		} else {
			a, oka = h.bytesOf(w, args[0])
		}
		if l, known := w.env.eval(args[1]); known && l == 0 {
			b = nil
		} else {
			b, okb = h.bytesOf(w, args[1])
		}
		if oka && okb {
			newBytes(append(append([]byte(nil), a...), b...))
			return
		}
		if h.tracked(w, args[0]) || h.tracked(w, args[1]) {
			h.setGap("append on bytes the model does not know")
		}
		unbind()
		return
	case name == "builtin:clear" && len(args) == 1:
		if id, off, n, ok := h.slice(w, args[0]); ok {
			for i := int64(0); i < n; i++ {
				h.bufs[id][off+i] = 0
			}
		}
		return
	case strings.HasPrefix(name, "(encoding/binary.") && len(args) >= 2:
		be := strings.HasPrefix(name, "(encoding/binary.bigEndian)")
		m := name[strings.LastIndex(name, ".")+1:]
		var width int64
		switch {
		case strings.HasSuffix(m, "Uint64"):
			width = 8
		case strings.HasSuffix(m, "Uint32"):
			width = 4
		case strings.HasSuffix(m, "Uint16"):
			width = 2
		}
		put := strings.HasPrefix(m, "PutUint")
		get := strings.HasPrefix(m, "Uint")
		if width == 0 || (!put && !get) {
			break
		}
		id, off, n, ok := h.slice(w, args[1])
		if !ok {
			if get {
				unbind()
			}
			return
		}
		if n < width {
			return // panics; the walker has flagged the short buffer
		}
		pos := func(i int64) int64 { // i = 0 is the least significant byte
			if be {
				return off + width - 1 - i
			}
			return off + i
		}
		if put {
			v, known := w.env.eval(args[2])
			for i := int64(0); i < width; i++ {
				if known {
					h.bufs[id][pos(i)] = int64(uint64(v) >> (8 * uint(i)) & 0xff)
				} else {
					h.bufs[id][pos(i)] = -1
				}
			}
			return
		}
		var v uint64
		for i := int64(0); i < width; i++ {
			b := h.bufs[id][pos(i)]
			if b < 0 {
				unbind()
				return
			}
			v |= uint64(b) << (8 * uint(i))
		}
		bind(int64(v))
		return
	}
	// anything else: a gap only if it can see a tracked object
	for _, a := range args {
		if h.tracked(w, a) {
			h.setGap("call of " + short(name) + " on a tracked object is not modelled")
			unbind()
			return
		}
	}
}

// c24MpintSpec: RFC 4251 section 5 — the shortest two's-complement big-endian
// string of n (empty for zero), computed from the value ranges, not by the
// algorithm of the code under check.
func c24MpintSpec(n *big.Int) []byte {
	if n.Sign() == 0 {
		return nil
	}
	for k := 1; ; k++ {
		half := new(big.Int).Lsh(big.NewInt(1), uint(8*k-1)) // 2^(8k-1)
		if n.Sign() > 0 {
			if n.Cmp(half) < 0 {
				return n.FillBytes(make([]byte, k))
			}
		} else if new(big.Int).Neg(n).Cmp(half) <= 0 {
			t := new(big.Int).Lsh(big.NewInt(1), uint(8*k))
			return t.Add(t, n).FillBytes(make([]byte, k))
		}
	}
}

func c24MpintGrid() []*big.Int {
	var mags []*big.Int
	add := func(x *big.Int) { mags = append(mags, x) }
	for _, e := range []uint{0, 1, 7, 8, 9, 15, 16, 17, 31, 32, 63, 64, 255, 256, 2047, 2048} {
		p := new(big.Int).Lsh(big.NewInt(1), e)
		add(new(big.Int).Sub(p, big.NewInt(1)))
		add(p)
		add(new(big.Int).Add(p, big.NewInt(1)))
	}
	for _, s := range []string{"7f", "80ff", "ff00", "0100", "7fffffffffffffffffff", "80000000000000000001", "deadbeefcafe", "00ff00ff00ff00ff01"} {
		x, _ := new(big.Int).SetString(s, 16)
		add(x)
	}
	var out []*big.Int
	seen := map[string]bool{}
	for _, m := range mags {
		for _, sg := range []int{1, -1} {
			x := new(big.Int).Set(m)
			if sg < 0 {
				x.Neg(x)
			}
			if !seen[x.String()] {
				seen[x.String()] = true
				out = append(out, x)
			}
		}
	}
	return out
}

func c24Show(n *big.Int) string {
	s := n.Text(16)
	if len(s) > 24 {
		s = fmt.Sprintf("%s… (%d bits)", s[:12], n.BitLen())
	}
	if strings.HasPrefix(s, "-") {
		return "-0x" + s[1:]
	}
	return "0x" + s
}

func c24ParamOf(f *ssa.Function, pred func(types.Type) bool) *ssa.Parameter {
	var out *ssa.Parameter
	for _, p := range f.Params {
		if pred(p.Type()) {
			if out != nil {
				return nil
			}
			out = p
		}
	}
	return out
}

func c24ResultOf(f *ssa.Function, pred func(types.Type) bool) int {
	idx := -1
	rs := f.Signature.Results()
	for i := 0; i < rs.Len(); i++ {
		if pred(rs.At(i).Type()) {
			if idx >= 0 {
				return -1
			}
			idx = i
		}
	}
	return idx
}

func c24Hex(b []byte) string {
	if len(b) > 12 {
		return fmt.Sprintf("%x… (%d bytes)", b[:12], len(b))
	}
	return fmt.Sprintf("%x", b)
}

func checkC24Mpint(c *Ctx) {
	grid := c24MpintGrid()
	isInt := func(t types.Type) bool {
		b, ok := t.Underlying().(*types.Basic)
		return ok && b.Info()&types.IsInteger != 0
	}
	// ---- intLength(n) == 4 + len(mpint(n))
	if f := c.fn("ssh", "intLength"); f != nil {
		np := c24ParamOf(f, c24IsBigPtr)
		ri := c24ResultOf(f, isInt)
		if np == nil || ri < 0 {
			c.undecided("C24.mpint-length", "intLength", f, "signature is not (… *big.Int …) int: the rule cannot bind its input")
		} else {
			bad, und := "", ""
			nOK := 0
			for _, n := range grid {
				h := c24NewHeap(c)
				w := &pathWalker{env: newEnv(), maxSteps: 20000}
				h.install(w, f)
				w.cls[np] = h.newInt(new(big.Int).Set(n))
				end := w.walk(f.Blocks[0], nil)
				want := int64(4 + len(c24MpintSpec(n)))
				switch {
				case end == "panic":
					bad = fmt.Sprintf("n=%s: intLength panics", c24Show(n))
				case end != "return":
					und = fmt.Sprintf("n=%s: %s", c24Show(n), w.why)
				case h.gap != "":
					und = fmt.Sprintf("n=%s: %s", c24Show(n), h.gap)
				default:
					got, ok := w.env.eval(w.last.(*ssa.Return).Results[ri])
					if !ok {
						und = fmt.Sprintf("n=%s: the returned length does not evaluate", c24Show(n))
					} else if got != want {
						if bad == "" {
							bad = fmt.Sprintf("n=%s: intLength returns %d but the RFC 4251 mpint of n (%s) takes 4+%d = %d bytes, so the length reserved for an mpint and the bytes of its minimal two's-complement encoding disagree", c24Show(n), got, c24Hex(c24MpintSpec(n)), want-4, want)
						}
					} else {
						nOK++
					}
				}
				if und != "" {
					break
				}
			}
			switch {
			case und != "":
				c.undecided("C24.mpint-length", "intLength", f, "interpretation left the modelled domain: "+und)
			default:
				c.check(bad == "" && nOK == len(grid), "C24.mpint-length", "intLength", f, fmt.Sprintf("equals 4 + length of the minimal two's-complement encoding for %d values of both signs around every byte boundary", nOK), bad)
			}
		}
	}
	// ---- marshalInt writes exactly uint32(len) || mpint(n) and returns the rest
	if f := c.fn("ssh", "marshalInt"); f != nil {
		np := c24ParamOf(f, c24IsBigPtr)
		bp := c24ParamOf(f, c24IsByteSlice)
		ri := c24ResultOf(f, c24IsByteSlice)
		if np == nil || bp == nil {
			c.undecided("C24.mpint-encoding", "marshalInt", f, "signature is not ([]byte, *big.Int): the rule cannot bind its input")
		} else {
			bad, und := "", ""
			nOK := 0
			for _, n := range grid {
				spec := c24MpintSpec(n)
				wantBytes := append([]byte{byte(len(spec) >> 24), byte(len(spec) >> 16), byte(len(spec) >> 8), byte(len(spec))}, spec...)
				for _, extra := range []int{0, 3} {
					h := c24NewHeap(c)
					w := &pathWalker{env: newEnv(), maxSteps: 40000}
					h.install(w, f)
					w.cls[np] = h.newInt(new(big.Int).Set(n))
					content := make([]int64, len(wantBytes)+extra)
					for i := range content {
						content[i] = 0xAA
					}
					buf := h.newBuf(content)
					w.cls[bp], w.off[bp] = buf, 0
					w.env.bind(bp, int64(len(content)))
					end := w.walk(f.Blocks[0], nil)
					cs := fmt.Sprintf("n=%s into a buffer of intLength(n)+%d bytes", c24Show(n), extra)
					switch {
					case end == "panic" || w.oob || w.rootW().oob || w.beyondLen:
						if bad == "" {
							bad = cs + ": marshalInt indexes or slices beyond the buffer (panics)"
						}
					case end != "return":
						und = cs + ": " + w.why
					case h.gap != "":
						und = cs + ": " + h.gap
					default:
						got := make([]byte, len(wantBytes))
						known := true
						for i := range got {
							b := h.bufs[buf][i]
							if b < 0 {
								known = false
							}
							got[i] = byte(b)
						}
						tailOK := true
						for i := len(wantBytes); i < len(content); i++ {
							if h.bufs[buf][i] != 0xAA {
								tailOK = false
							}
						}
						retOK := true
						retDetail := ""
						if ri >= 0 {
							r := w.last.(*ssa.Return).Results[ri]
							id, off, l, ok := h.slice(w, r)
							if l0, k := w.env.eval(r); !ok && k && l0 == 0 && extra == 0 {
								// an empty remainder may be any empty slice
							} else if !ok || id != buf || off != int64(len(wantBytes)) || l != int64(extra) {
								retOK = false
								retDetail = fmt.Sprintf("returns the buffer from offset %d (length %d) instead of offset %d", off, l, len(wantBytes))
							}
						}
						switch {
						case !known:
							und = cs + ": a written byte does not evaluate"
						case string(got) != string(wantBytes):
							if bad == "" {
								bad = fmt.Sprintf("%s: marshalInt writes %s, RFC 4251 requires %s (length prefix + minimal two's complement)", cs, c24Hex(got), c24Hex(wantBytes))
							}
						case !tailOK:
							if bad == "" {
								bad = cs + ": marshalInt writes past the encoding"
							}
						case !retOK:
							if bad == "" {
								bad = cs + ": " + retDetail
							}
						default:
							nOK++
						}
					}
					if und != "" {
						break
					}
				}
				if und != "" {
					break
				}
			}
			if und != "" {
				c.undecided("C24.mpint-encoding", "marshalInt", f, "interpretation left the modelled domain: "+und)
			} else {
				c.check(bad == "" && nOK == 2*len(grid), "C24.mpint-encoding", "marshalInt", f, fmt.Sprintf("writes uint32 length + minimal two's-complement bytes and returns the remainder on %d cases", nOK), bad)
			}
		}
	}
	// ---- parseInt(len || mpint(n) || tail) == (n, tail, true)
	if f := c.fn("ssh", "parseInt"); f != nil {
		bp := c24ParamOf(f, c24IsByteSlice)
		ro := c24ResultOf(f, c24IsBigPtr)
		rr := c24ResultOf(f, c24IsByteSlice)
		rk := c24ResultOf(f, func(t types.Type) bool {
			b, ok := t.Underlying().(*types.Basic)
			return ok && b.Kind() == types.Bool
		})
		if bp == nil || ro < 0 || rr < 0 || rk < 0 {
			c.undecided("C24.mpint-decoding", "parseInt", f, "signature is not ([]byte) (*big.Int, []byte, bool): the rule cannot bind its input")
		} else {
			bad, und := "", ""
			nOK := 0
			for _, n := range grid {
				spec := c24MpintSpec(n)
				in := append([]byte{byte(len(spec) >> 24), byte(len(spec) >> 16), byte(len(spec) >> 8), byte(len(spec))}, spec...)
				in = append(in, 0x80, 0x01)
				h := c24NewHeap(c)
				w := &pathWalker{env: newEnv(), maxSteps: 40000}
				h.install(w, f)
				content := make([]int64, len(in))
				for i := range in {
					content[i] = int64(in[i])
				}
				buf := h.newBuf(content)
				w.cls[bp], w.off[bp] = buf, 0
				w.env.bind(bp, int64(len(content)))
				end := w.walk(f.Blocks[0], nil)
				cs := fmt.Sprintf("mpint of n=%s (%s) followed by 2 more bytes", c24Show(n), c24Hex(spec))
				switch {
				case end == "panic" || w.oob || w.rootW().oob || w.beyondLen:
					if bad == "" {
						bad = cs + ": parseInt indexes or slices beyond the input"
					}
				case end != "return":
					und = cs + ": " + w.why
				case h.gap != "":
					und = cs + ": " + h.gap
				default:
					ret := w.last.(*ssa.Return)
					okv, okKnown := w.env.eval(ret.Results[rk])
					oid := h.ref(w, ret.Results[ro])
					_, roff, rl, rok := h.slice(w, ret.Results[rr])
					for i := range in {
						if h.bufs[buf][i] != int64(in[i]) && bad == "" {
							bad = cs + ": parseInt modifies its input"
						}
					}
					switch {
					case !okKnown:
						und = cs + ": the ok result does not evaluate"
					case okv == 0:
						if bad == "" {
							bad = cs + ": parseInt rejects a well-formed mpint"
						}
					case oid == "" || h.ints[oid] == nil:
						und = cs + ": the returned *big.Int is not a tracked object"
					case h.ints[oid].Cmp(n) != 0:
						if bad == "" {
							bad = fmt.Sprintf("%s: parseInt yields %s, so an mpint does not round-trip", cs, c24Show(h.ints[oid]))
						}
					case !rok || roff != int64(len(in)-2) || rl != 2:
						if bad == "" {
							bad = cs + ": the returned rest is not the 2 bytes after the mpint"
						}
					default:
						nOK++
					}
				}
				if und != "" {
					break
				}
			}
			if und != "" {
				c.undecided("C24.mpint-decoding", "parseInt", f, "interpretation left the modelled domain: "+und)
			} else {
				c.check(bad == "" && nOK == len(grid), "C24.mpint-decoding", "parseInt", f, fmt.Sprintf("returns n and the untouched remainder for the minimal encoding of %d values of both signs", nOK), bad)
			}
		}
	}
}
