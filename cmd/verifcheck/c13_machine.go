package main

import (
	"crypto/sha256"
	"fmt"
	"go/token"
	"go/types"
	"strings"

	"golang.org/x/tools/go/ssa"
)

// Byte-level memory model for the C13 rules, layered on pathWalker through its
// hooks. Slices stay represented by their lengths (w.lengths); in addition
// every byte buffer the interpreted code touches is a REGION
//
//	"in", "out", "io", "key"   the caller's buffers (bound by the rule, by parameter index)
//	"P:<fn>.<reg>"              a *[N]byte obtained by a type assertion (sync.Pool buffer: contents unknown)
//	"Z:<fn>.<reg>"              a local array / new / make: zero-initialised
//
// and w.cls / w.off say, for an SSA value that denotes a slice of or a pointer
// into a region, which region and at which byte offset. The bytes themselves
// live in w.off under synthetic keys (c13Cell), so that they are copied with a
// trial inlining, shared with an inlined callee and never depend on the name of
// a local, a parameter or a receiver. A byte that was never set, or was set to a
// value that does not evaluate, is UNKNOWN and poisons everything computed from
// it. The block cipher is an oracle: a call of Encrypt/Decrypt on a
// cipher.Block value — identified by the struct field it was loaded from,
// through helper parameters, phis and bound method values — reads 16 bytes,
// logs (key, direction, input) and writes 16 bytes chosen by the rule.
// Nothing of the module is executed; the walker folds the SSA over these
// concrete bindings.

type c13Machine struct {
	// cipher is the block-cipher oracle (role is "K:<field>" or "B:<key bytes>")
	cipher func(role, method string, in [16]byte) [16]byte
	// blockSize is what BlockSize() of any cipher.Block returns
	blockSize int64
	mem       map[string]*c13Region
	field     map[string]string // struct field -> role of the value last stored in it
	ops       []c13Op           // log of oracle calls
	notes     []string          // things the model could not follow
}

// c13Region holds the bytes of one buffer: -1 is UNKNOWN.
type c13Region struct {
	val []int16
	wr  []bool
}

type c13Op struct {
	role, method string
	in           [16]byte
	known        bool
	hex          string
}

func (m *c13Machine) region(reg string, idx int64) *c13Region {
	if m.mem == nil {
		m.mem = map[string]*c13Region{}
	}
	r := m.mem[reg]
	if r == nil {
		r = &c13Region{}
		m.mem[reg] = r
	}
	for int64(len(r.val)) <= idx {
		r.val = append(r.val, -1)
		r.wr = append(r.wr, false)
	}
	return r
}

func (m *c13Machine) read(reg string, idx int64) (int64, bool) {
	if idx < 0 {
		return 0, false
	}
	r := m.region(reg, idx)
	if v := r.val[idx]; v >= 0 {
		return int64(v), true
	}
	if strings.HasPrefix(reg, "Z:") && !r.wr[idx] {
		return 0, true
	}
	return 0, false
}

func (m *c13Machine) write(reg string, idx int64, v int64, known bool) {
	if idx < 0 {
		return
	}
	r := m.region(reg, idx)
	if known {
		r.val[idx] = int16(v & 0xff)
	} else {
		r.val[idx] = -1
	}
	r.wr[idx] = true
}

func (m *c13Machine) written(reg string, idx int64) bool {
	return idx >= 0 && m.region(reg, idx).wr[idx]
}

func (m *c13Machine) note(format string, a ...any) {
	m.notes = append(m.notes, fmt.Sprintf(format, a...))
}

// hex renders n bytes of a region, "??" for an unknown byte.
func (m *c13Machine) hex(reg string, off, n int64) string {
	const digits = "0123456789abcdef"
	b := make([]byte, 0, 2*n)
	for i := int64(0); i < n; i++ {
		if v, ok := m.read(reg, off+i); ok {
			b = append(b, digits[v>>4&15], digits[v&15])
		} else {
			b = append(b, '?', '?')
		}
	}
	return string(b)
}

func c13Hash(parts ...string) [16]byte {
	h := sha256.Sum256([]byte(strings.Join(parts, "|")))
	var o [16]byte
	copy(o[:], h[:16])
	return o
}

func c13IsMem(cl string) bool {
	return cl == "in" || cl == "out" || cl == "io" || cl == "key" || strings.HasPrefix(cl, "P:") || strings.HasPrefix(cl, "Z:")
}

func c13ByteArray(t types.Type) (int64, bool) {
	a, ok := t.Underlying().(*types.Array)
	if !ok {
		return 0, false
	}
	b, ok := a.Elem().Underlying().(*types.Basic)
	if !ok || b.Kind() != types.Uint8 {
		return 0, false
	}
	return a.Len(), true
}

func c13PtrByteArray(t types.Type) (int64, bool) {
	p, ok := t.Underlying().(*types.Pointer)
	if !ok {
		return 0, false
	}
	return c13ByteArray(p.Elem())
}

func c13ID(v ssa.Value) string {
	if f := v.Parent(); f != nil {
		return f.Name() + "." + v.Name()
	}
	return v.Name()
}

// c13Loc: the region and byte offset an SSA value (slice, pointer to byte
// array) denotes.
func c13Loc(w *pathWalker, v ssa.Value) (string, int64, bool) {
	if cl, ok := w.cls[v]; ok {
		if c13IsMem(cl) {
			return cl, w.off[v], true
		}
		return "", 0, false
	}
	switch x := v.(type) {
	case *ssa.TypeAssert:
		if _, ok := c13PtrByteArray(x.Type()); ok {
			return "P:" + c13ID(x), 0, true
		}
	case *ssa.Alloc:
		if _, ok := c13PtrByteArray(x.Type()); ok {
			return "Z:" + c13ID(x), 0, true
		}
	case *ssa.MakeSlice:
		if s, ok := x.Type().Underlying().(*types.Slice); ok {
			if b, ok := s.Elem().Underlying().(*types.Basic); ok && b.Kind() == types.Uint8 {
				return "Z:" + c13ID(x), 0, true
			}
		}
	case *ssa.Slice:
		if r, o, ok := c13Loc(w, x.X); ok {
			lo := int64(0)
			if x.Low != nil {
				n, okL := w.env.eval(x.Low)
				if !okL {
					return "", 0, false
				}
				lo = n
			}
			return r, o + lo, true
		}
	case *ssa.SliceToArrayPointer:
		return c13Loc(w, x.X)
	case *ssa.ChangeType:
		return c13Loc(w, x.X)
	case *ssa.IndexAddr:
		// &buf[k] as the address of a sub-array is not used; a byte address is
		// resolved by the load/store hooks
	}
	return "", 0, false
}

func c13FieldName(v ssa.Value) (string, bool) {
	switch x := v.(type) {
	case *ssa.FieldAddr:
		if st := derefStruct(x.X.Type()); st != nil {
			return st.Field(x.Field).Name(), true
		}
	case *ssa.Field:
		if st, ok := x.X.Type().Underlying().(*types.Struct); ok {
			return st.Field(x.Field).Name(), true
		}
	}
	return "", false
}

// c13Role: what a non-buffer value is — "K:<field>" a cipher.Block loaded from
// that struct field, "B:<hex>" a block built by the constructor parameter from
// that key material, "F:<method>:<block role>" a bound method value of a block,
// "CF" the constructor parameter, "E:nil"/"E:err" an error value.
func (m *c13Machine) role(w *pathWalker, v ssa.Value) string {
	if cl, ok := w.cls[v]; ok {
		if c13IsMem(cl) {
			return ""
		}
		return cl
	}
	switch x := v.(type) {
	case *ssa.UnOp:
		if x.Op == token.MUL {
			if f, ok := c13FieldName(x.X); ok {
				if r, ok := m.field[f]; ok {
					return r
				}
				if _, isI := x.Type().Underlying().(*types.Interface); isI {
					return "K:" + f
				}
			}
		}
	case *ssa.Field:
		if f, ok := c13FieldName(x); ok {
			if _, isI := x.Type().Underlying().(*types.Interface); isI {
				return "K:" + f
			}
		}
	case *ssa.MakeClosure:
		if fn, ok := x.Fn.(*ssa.Function); ok && strings.HasSuffix(fn.Name(), "$bound") && len(x.Bindings) == 1 {
			if r := m.role(w, x.Bindings[0]); strings.HasPrefix(r, "K:") || strings.HasPrefix(r, "B:") {
				return "F:" + strings.TrimSuffix(fn.Name(), "$bound") + ":" + r
			}
		}
	case *ssa.ChangeType:
		return m.role(w, x.X)
	case *ssa.ChangeInterface:
		return m.role(w, x.X)
	case *ssa.MakeInterface:
		return m.role(w, x.X)
	case *ssa.TypeAssert:
		if _, isI := x.AssertedType.Underlying().(*types.Interface); isI && !x.CommaOk {
			return m.role(w, x.X)
		}
	case *ssa.Const:
		if x.Value == nil && types.Identical(x.Type(), types.Universe.Lookup("error").Type()) {
			return "E:nil"
		}
	}
	return ""
}

// c13Class: buffer location or role of v, whichever applies.
func (m *c13Machine) class(w *pathWalker, v ssa.Value) (string, int64, bool) {
	if r, o, ok := c13Loc(w, v); ok {
		return r, o, true
	}
	if r := m.role(w, v); r != "" {
		return r, 0, true
	}
	return "", 0, false
}

func (m *c13Machine) install(w *pathWalker) {
	if w.cls == nil {
		w.cls = map[ssa.Value]string{}
	}
	if w.off == nil {
		w.off = map[ssa.Value]int64{}
	}
	set := func(w *pathWalker, v ssa.Value, from ssa.Value, src *pathWalker) {
		if cl, o, ok := m.class(src, from); ok {
			w.cls[v], w.off[v] = cl, o
		} else {
			delete(w.cls, v)
			delete(w.off, v)
		}
	}
	w.onSlice = func(w *pathWalker, sl *ssa.Slice) {
		if r, o, ok := c13Loc(w, sl.X); ok {
			lo, okL := int64(0), true
			if sl.Low != nil {
				lo, okL = w.env.eval(sl.Low)
			}
			if okL {
				w.cls[sl], w.off[sl] = r, o+lo
				return
			}
			m.note("slice of %s at an offset that does not evaluate", r)
		}
		delete(w.cls, sl)
		delete(w.off, sl)
	}
	w.onPhi = func(w *pathWalker, ph *ssa.Phi, in ssa.Value) { set(w, ph, in, w) }
	w.onInline = func(parent, child *pathWalker, callee *ssa.Function, args []ssa.Value) {
		for i, p := range callee.Params {
			if i < len(args) {
				set(child, p, args[i], parent)
			}
		}
	}
	w.onReturn = func(parent, child *pathWalker, call *ssa.Call, results []ssa.Value) {
		if len(results) == 1 {
			set(parent, call, results[0], child)
			return
		}
		for _, ref := range *call.Referrers() {
			if ex, ok := ref.(*ssa.Extract); ok && ex.Index < len(results) {
				set(parent, ex, results[ex.Index], child)
			}
		}
	}
	w.onLoad = func(w *pathWalker, u *ssa.UnOp) (int64, bool) {
		ia, ok := u.X.(*ssa.IndexAddr)
		if !ok {
			return 0, false
		}
		r, o, ok := c13Loc(w, ia.X)
		if !ok {
			return 0, false
		}
		k, okK := w.env.eval(ia.Index)
		if !okK {
			delete(w.env.vals, u)
			return 0, false
		}
		v, known := m.read(r, o+k)
		if !known {
			delete(w.env.vals, u)
		}
		return v, known
	}
	w.onStore = func(w *pathWalker, st *ssa.Store) string {
		switch a := st.Addr.(type) {
		case *ssa.IndexAddr:
			r, o, ok := c13Loc(w, a.X)
			if !ok {
				return ""
			}
			k, okK := w.env.eval(a.Index)
			if !okK {
				m.note("store into %s at an index that does not evaluate", r)
				return ""
			}
			v, known := w.env.eval(st.Val)
			m.write(r, o+k, v, known)
		case *ssa.FieldAddr:
			if f, ok := c13FieldName(a); ok {
				if m.field == nil {
					m.field = map[string]string{}
				}
				m.field[f] = m.role(w, st.Val)
			}
		default:
			// whole-array assignment *p = [N]byte{...} / *p = *q
			r, o, ok := c13Loc(w, st.Addr)
			if !ok {
				return ""
			}
			n, isArr := c13ByteArray(st.Val.Type())
			if !isArr {
				return ""
			}
			if cst, isC := st.Val.(*ssa.Const); isC && cst.Value == nil {
				for i := int64(0); i < n; i++ {
					m.write(r, o+i, 0, true)
				}
				return ""
			}
			if u, isU := st.Val.(*ssa.UnOp); isU && u.Op == token.MUL {
				if r2, o2, ok2 := c13Loc(w, u.X); ok2 {
					var tmp [64]int64
					var kn [64]bool
					for i := int64(0); i < n && i < 64; i++ {
						tmp[i], kn[i] = m.read(r2, o2+i)
					}
					for i := int64(0); i < n && i < 64; i++ {
						m.write(r, o+i, tmp[i], kn[i])
					}
					return ""
				}
			}
			for i := int64(0); i < n; i++ {
				m.write(r, o+i, 0, false)
			}
		}
		return ""
	}
	w.onCall = func(w *pathWalker, ci ssa.CallInstruction) string {
		if t := m.onCall(w, ci); t != "" {
			m.notes = append(m.notes, strings.TrimPrefix(t, "!"))
		}
		return ""
	}
	// helpers of the package under interpretation are interpreted in place, so
	// the rules read the same wherever a step is written; a helper that cannot
	// be interpreted leaves the walk undecided with its reason
	w.inline = func(callee *ssa.Function) bool {
		return w.rootPkg != nil && callee.Pkg == w.rootPkg && len(callee.Blocks) > 0
	}
}

func (m *c13Machine) onCall(w *pathWalker, ci ssa.CallInstruction) string {
	cc := ci.Common()
	name := short(calleeName(cc))
	val, _ := ci.(ssa.Value)
	bindRes := func(n int64, ok bool) {
		if val == nil {
			return
		}
		if ok {
			w.env.bind(val, n)
		} else {
			delete(w.env.vals, val)
		}
	}
	length := func(v ssa.Value) (int64, bool) { return w.env.eval(v) }
	// block cipher oracle
	role, method := "", ""
	var args []ssa.Value
	switch {
	case cc.IsInvoke() && (cc.Method.Name() == "Encrypt" || cc.Method.Name() == "Decrypt") && len(cc.Args) == 2:
		role, method, args = m.role(w, cc.Value), cc.Method.Name(), cc.Args
		if role == "" {
			role = "?"
		}
	case !cc.IsInvoke() && len(cc.Args) == 2:
		if r := m.role(w, cc.Value); strings.HasPrefix(r, "F:") {
			rest := r[2:]
			i := strings.Index(rest, ":")
			method, role, args = rest[:i], rest[i+1:], cc.Args
		}
	}
	if method == "Encrypt" || method == "Decrypt" {
		l0, ok0 := length(args[0])
		l1, ok1 := length(args[1])
		if !ok0 || !ok1 || l0 < 16 || l1 < 16 {
			return "!" + method + " of a cipher.Block is called on a buffer shorter than one block"
		}
		rs, os, okS := c13Loc(w, args[1])
		rd, od, okD := c13Loc(w, args[0])
		op := c13Op{role: role, method: method, known: okS, hex: strings.Repeat("??", 16)}
		if okS {
			op.hex = m.hex(rs, os, 16)
			for i := int64(0); i < 16; i++ {
				v, k := m.read(rs, os+i)
				op.in[i] = byte(v)
				op.known = op.known && k
			}
		}
		in, known := op.in, op.known
		m.ops = append(m.ops, op)
		if !okD {
			return "!the output of " + method + " goes to a buffer the rule cannot follow"
		}
		var out [16]byte
		if known {
			out = m.cipher(role, method, in)
		}
		for i := int64(0); i < 16; i++ {
			m.write(rd, od+i, int64(out[i]), known)
		}
		return ""
	}
	switch {
	case cc.IsInvoke() && cc.Method.Name() == "BlockSize":
		bindRes(m.blockSize, true)
		return ""
	case !cc.IsInvoke() && m.role(w, cc.Value) == "CF" && len(cc.Args) == 1:
		hex := ""
		if r, o, ok := c13Loc(w, cc.Args[0]); ok {
			if l, okL := length(cc.Args[0]); okL {
				hex = m.hex(r, o, l)
			}
		}
		if call, ok := ci.(*ssa.Call); ok {
			for _, ref := range *call.Referrers() {
				if ex, ok := ref.(*ssa.Extract); ok {
					switch ex.Index {
					case 0:
						w.cls[ex] = "B:" + hex
					case 1:
						w.cls[ex] = "E:nil"
					}
				}
			}
		}
		return ""
	case strings.HasSuffix(name, "alias.InexactOverlap") || strings.HasSuffix(name, "alias.AnyOverlap"):
		r0, o0, ok0 := c13Loc(w, cc.Args[0])
		r1, o1, ok1 := c13Loc(w, cc.Args[1])
		l0, okA := length(cc.Args[0])
		l1, okB := length(cc.Args[1])
		if !ok0 || !ok1 || !okA || !okB {
			bindRes(0, false)
			return ""
		}
		overlap := r0 == r1 && l0 > 0 && l1 > 0 && o0 < o1+l1 && o1 < o0+l0
		res := overlap
		if strings.HasSuffix(name, "InexactOverlap") {
			res = overlap && o0 != o1
		}
		if res {
			bindRes(1, true)
		} else {
			bindRes(0, true)
		}
		return ""
	case strings.HasPrefix(name, "(encoding/binary."):
		big := strings.HasPrefix(name, "(encoding/binary.bigEndian)")
		mth := name[strings.LastIndex(name, ".")+1:]
		var width int64
		switch {
		case strings.HasSuffix(mth, "64"):
			width = 8
		case strings.HasSuffix(mth, "32"):
			width = 4
		case strings.HasSuffix(mth, "16"):
			width = 2
		}
		put := strings.HasPrefix(mth, "PutUint")
		if width == 0 || (!put && !strings.HasPrefix(mth, "Uint")) || len(cc.Args) < 2 {
			return ""
		}
		r, o, ok := c13Loc(w, cc.Args[1])
		if !ok {
			if !put {
				bindRes(0, false)
			}
			return ""
		}
		pos := func(i int64) int64 {
			if big {
				return o + width - 1 - i
			}
			return o + i
		}
		if put {
			v, known := w.env.eval(cc.Args[2])
			for i := int64(0); i < width; i++ {
				m.write(r, pos(i), int64(uint64(v)>>(8*uint(i))&0xff), known)
			}
			return ""
		}
		var v uint64
		all := true
		for i := int64(0); i < width; i++ {
			b, known := m.read(r, pos(i))
			all = all && known
			v |= uint64(b) << (8 * uint(i))
		}
		bindRes(int64(v), all)
		return ""
	case name == "builtin:clear" && len(cc.Args) == 1:
		if r, o, ok := c13Loc(w, cc.Args[0]); ok {
			l, okL := length(cc.Args[0])
			if !okL {
				return "!clear of " + r + " with a length that does not evaluate"
			}
			for i := int64(0); i < l; i++ {
				m.write(r, o+i, 0, true)
			}
		}
		return ""
	case name == "builtin:copy" && len(cc.Args) == 2:
		rd, od, okD := c13Loc(w, cc.Args[0])
		if !okD {
			return ""
		}
		l0, okA := length(cc.Args[0])
		l1, okB := length(cc.Args[1])
		if !okA || !okB {
			return "!copy into " + rd + " with a length that does not evaluate"
		}
		n := min(l0, l1)
		rs, os, okS := c13Loc(w, cc.Args[1])
		vals, kn := make([]int64, n), make([]bool, n)
		for i := int64(0); i < n && okS; i++ {
			vals[i], kn[i] = m.read(rs, os+i)
		}
		for i := int64(0); i < n; i++ {
			m.write(rd, od+i, vals[i], kn[i])
		}
		return ""
	case name == "crypto/subtle.XORBytes" && len(cc.Args) == 3:
		lx, okX := length(cc.Args[1])
		ly, okY := length(cc.Args[2])
		ld, okL := length(cc.Args[0])
		if !okX || !okY || !okL {
			bindRes(0, false)
			return "!subtle.XORBytes with a length that does not evaluate"
		}
		n := min(lx, ly)
		bindRes(n, true)
		if ld < n {
			w.markOOB(ci)
			return ""
		}
		rd, od, okD := c13Loc(w, cc.Args[0])
		if !okD {
			return ""
		}
		rx, ox, ok1 := c13Loc(w, cc.Args[1])
		ry, oy, ok2 := c13Loc(w, cc.Args[2])
		vals, kn := make([]int64, n), make([]bool, n)
		for i := int64(0); i < n && ok1 && ok2; i++ {
			a, ka := m.read(rx, ox+i)
			b, kb := m.read(ry, oy+i)
			vals[i], kn[i] = a^b, ka && kb
		}
		for i := int64(0); i < n; i++ {
			m.write(rd, od+i, vals[i], kn[i])
		}
		return ""
	case name == "errors.New" || name == "fmt.Errorf":
		if val != nil {
			w.cls[val] = "E:err"
		}
		return ""
	case strings.HasPrefix(name, "(*sync.Pool)."):
		return ""
	}
	// a call the model does not know: it is harmless unless it can reach a
	// tracked buffer or belongs to the package under interpretation
	if callee := cc.StaticCallee(); callee != nil && w.rootPkg != nil && callee.Pkg == w.rootPkg && len(callee.Blocks) > 0 {
		return "!call of " + short(callee.String()) + " could not be interpreted over the modelled inputs"
	}
	for _, a := range cc.Args {
		if r, _, ok := c13Loc(w, a); ok {
			return "!" + name + " receives the buffer " + r + " and is not modelled"
		}
	}
	return ""
}

// c13Double is multiplication by x in GF(2^128) modulo x^128+x^7+x^2+x+1 on the
// little-endian representation of IEEE 1619.
func c13Double(t [16]byte) [16]byte {
	var o [16]byte
	var carry byte
	for i := 0; i < 16; i++ {
		o[i] = t[i]<<1 | carry
		carry = t[i] >> 7
	}
	if carry != 0 {
		o[0] ^= 0x87
	}
	return o
}
