package main

import (
	"fmt"
	"strings"

	"golang.org/x/tools/go/ssa"
)

// c19HashLengths: what bcrypt_pbkdf.Key feeds to SHA-512, independent of how
// the hashing is written (streaming hash.Hash or one-shot Sum512). Key is
// interpreted (slices by length) for password lengths 1 and 72, salt lengths
// 1, 16, 59..66 and 100, rounds 1..3 and key lengths that need one and two
// blocks: the first digest covers exactly len(password) bytes; every block's
// first round hashes exactly len(salt)+4 bytes (salt | 4-byte counter — a
// scratch buffer that is too small shows up as a shorter input); every later
// round hashes exactly the 32 bytes of the previous output; bcryptHash is
// called once per round; no slice expression leaves its bounds.
func c19HashLengths(c *Ctx) {
	const pkg = "ssh/internal/bcrypt_pbkdf"
	f := c.fn(pkg, "Key")
	if f == nil {
		return
	}
	pw, salt, rounds, keyLen := f.Params[0], f.Params[1], f.Params[2], f.Params[3]
	cases, bad := 0, ""
	for _, pl := range []int64{1, 72} {
		for _, sl := range []int64{1, 16, 59, 60, 61, 62, 63, 64, 65, 66, 100} {
			for _, r := range []int64{1, 2, 3} {
				for _, kl := range []int64{32, 33} {
					if bad != "" {
						continue
					}
					w := &pathWalker{env: newEnv(), lengths: true, maxSteps: 60000, assumeErrNil: true, opaque: map[string]bool{"bcryptHash": true}}
					w.env.bind(pw, pl)
					w.env.bind(salt, sl)
					w.env.bind(rounds, r)
					w.env.bind(keyLen, kl)
					var digests []int64 // input length of each SHA-512 computation, in order
					cur := int64(0)
					nb := 0
					w.onCall = func(w *pathWalker, ci ssa.CallInstruction) string {
						cc := ci.Common()
						nm := short(calleeName(cc))
						switch {
						case cc.IsInvoke() && cc.Method.Name() == "Reset":
							cur = 0
						case cc.IsInvoke() && cc.Method.Name() == "Write":
							l, ok := w.env.eval(cc.Args[0])
							if !ok {
								l = -1000000
							}
							cur += l
						case cc.IsInvoke() && cc.Method.Name() == "Sum":
							digests = append(digests, cur)
							if v, ok := ci.(ssa.Value); ok {
								w.env.bind(v, 64)
							}
						case nm == "crypto/sha512.Sum512":
							l, ok := w.env.eval(cc.Args[0])
							if !ok {
								l = -1
							}
							digests = append(digests, l)
						case strings.HasSuffix(nm, "bcrypt_pbkdf.bcryptHash"):
							nb++
						}
						return ""
					}
					end := w.walk(f.Blocks[0], nil)
					cases++
					id := fmt.Sprintf("password %d bytes, salt %d bytes, rounds %d, keyLen %d", pl, sl, r, kl)
					if end != "return" {
						bad = id + ": evaluation ended with " + end + " " + w.why
						continue
					}
					blocks := (kl + 31) / 32
					want := []int64{pl}
					for b := int64(0); b < blocks; b++ {
						want = append(want, sl+4)
						for i := int64(2); i <= r; i++ {
							want = append(want, 32)
						}
					}
					if fmt.Sprint(digests) != fmt.Sprint(want) {
						bad = fmt.Sprintf("%s: SHA-512 input lengths %v, bcrypt_pbkdf requires %v (password; per block salt|counter then the 32-byte previous output per further round)", id, digests, want)
					}
					if int64(nb) != blocks*r {
						bad = fmt.Sprintf("%s: bcryptHash called %d times, expected %d", id, nb, blocks*r)
					}
					if w.oob {
						bad = id + ": a slice expression leaves its bounds"
					}
				}
			}
		}
	}
	c.check(bad == "" && cases == 132, "C19.hash-lengths", "Key SHA-512 inputs", f, fmt.Sprintf("%d (password, salt, rounds, keyLen) cases", cases), bad)
}
