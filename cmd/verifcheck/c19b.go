package main

import "fmt"

// c19HashLengths: what bcrypt_pbkdf.Key feeds to SHA-512 must not depend on
// how long the salt is relative to any internal buffer (a scratch buffer sized
// for "typical" salts that truncates salt|counter, a one-shot Sum512 over a
// stack array, ...). Key is interpreted (c19_sym.go) for password lengths 1 and
// 72, salt lengths 1, 16, 59..66 (around the SHA-512 digest size) and 100,
// rounds 1..3 and key lengths that need one and two blocks; for each case the
// derived key must be the reference term — which fixes every SHA-512 input
// (password; salt | 4-byte counter per block; the previous 32-byte output per
// later round) whether the hashing is streaming (hash.Hash) or one-shot —
// and no index or slice expression may leave its bounds. On a mismatch the
// SHA-512 inputs are compared to name the first wrong one.
func c19HashLengths(x *c19Ctx) {
	T := x.ev.T
	cases, bad, undec := 0, "", false
	for _, pl := range []int{1, 72} {
		for _, sl := range []int{1, 16, 59, 60, 61, 62, 63, 64, 65, 66, 100} {
			for _, r := range []int64{1, 2, 3} {
				for _, kl := range []int64{32, 33} {
					if bad != "" {
						continue
					}
					cases++
					var o c19Outcome
					o, bad, undec = x.against(pl, sl, r, kl)
					if bad != "" && o.kind == "key" {
						_, wantH := x.spec(pl, sl, r, kl)
						if d := T.hashDiff(c19HashNodes(o.trace), wantH); d != "" {
							bad = c19Case(pl, sl, r, kl) + ": " + d + " (bcrypt_pbkdf hashes the password; per block salt | 4-byte counter, then the 32-byte previous output per further round)"
						}
					}
				}
			}
		}
	}
	x.verdict("C19.hash-lengths", "Key SHA-512 inputs", fmt.Sprintf("%d (password, salt, rounds, keyLen) cases", cases), bad, undec)
}
