package main

import (
	"go/ast"
	"go/constant"
	"go/token"
	"strings"

	"golang.org/x/tools/go/ssa"
)

// globalStringList evaluates a package-level []string variable initialised by
// a composite literal of constants (or by another such variable).
func (c *Ctx) globalStringList(pkgPath, name string) ([]string, bool) {
	p := c.pkg(pkgPath)
	if p == nil {
		return nil, false
	}
	for _, f := range p.Syntax {
		for _, d := range f.Decls {
			gd, ok := d.(*ast.GenDecl)
			if !ok || gd.Tok != token.VAR {
				continue
			}
			for _, s := range gd.Specs {
				vs := s.(*ast.ValueSpec)
				for i, n := range vs.Names {
					if n.Name != name || i >= len(vs.Values) {
						continue
					}
					switch v := vs.Values[i].(type) {
					case *ast.CompositeLit:
						var out []string
						for _, e := range v.Elts {
							tv, ok := p.TypesInfo.Types[e]
							if !ok || tv.Value == nil || tv.Value.Kind() != constant.String {
								return nil, false
							}
							out = append(out, constant.StringVal(tv.Value))
						}
						return out, true
					case *ast.Ident:
						return c.globalStringList(pkgPath, v.Name)
					}
					return nil, false
				}
			}
		}
	}
	return nil, false
}

type mapEntry struct {
	key string
	val ssa.Value
	at  *ssa.MapUpdate
}

// mapUpdates returns the constant-keyed updates of a package-level map made in
// the package's init functions.
func (c *Ctx) mapUpdates(pkgPath, global string) []mapEntry {
	var out []mapEntry
	sp := c.ssaPkg(pkgPath)
	if sp == nil {
		return nil
	}
	for _, mem := range sp.Members {
		fn, ok := mem.(*ssa.Function)
		if !ok || !strings.HasPrefix(fn.Name(), "init") {
			continue
		}
		allInstrs(fn, func(in ssa.Instruction) {
			mu, ok := in.(*ssa.MapUpdate)
			if !ok || accessPath(mu.Map) != global {
				return
			}
			if k, ok := constString(mu.Key); ok {
				out = append(out, mapEntry{k, mu.Value, mu})
			}
		})
	}
	return out
}

// litFields returns the values stored into the fields of a composite literal
// allocation (v is the *T produced by &T{...}).
func litFields(v ssa.Value) map[string]ssa.Value {
	out := map[string]ssa.Value{}
	al, ok := v.(*ssa.Alloc)
	if !ok {
		return out
	}
	st := derefStruct(al.Type())
	if st == nil {
		return out
	}
	for _, r := range *al.Referrers() {
		fa, ok := r.(*ssa.FieldAddr)
		if !ok {
			continue
		}
		for _, rr := range *fa.Referrers() {
			if s, ok := rr.(*ssa.Store); ok && s.Addr == ssa.Value(fa) {
				out[st.Field(fa.Field).Name()] = s.Val
			}
		}
	}
	return out
}

// funcValueName returns the resolved name of a function value (function,
// closure, or call producing a closure).
func funcValueName(v ssa.Value) string {
	switch x := v.(type) {
	case *ssa.Function:
		return short(x.String())
	case *ssa.MakeClosure:
		return funcValueName(x.Fn)
	case *ssa.Call:
		return "call:" + short(calleeName(&x.Call))
	case *ssa.ChangeType:
		return funcValueName(x.X)
	}
	return ""
}
