package main

import (
	"fmt"
	"go/constant"
	"go/token"
	"go/types"
	"sort"
	"strings"

	"golang.org/x/tools/go/ssa"
)

// C52 symbolic interpretation. The rules of C52 do not look for statements of
// a particular shape in Marshal / Unmarshal. They run the function — with every
// callee of the bn256 package interpreted in place — over a small symbolic
// machine and then look at what is true AT THE RETURNS:
//
//   - integers are concrete or linear in one symbolic term (len(m), the length
//     of a Bytes() result); every symbolic term carries an interval constraint
//     that the branches taken on the path refine; a branch whose outcome is not
//     decided is explored on both sides;
//   - pointers are (object, interior path) pairs, so that "the same big.Int" is
//     decided by identity, whatever local, parameter, array element or helper
//     argument it travels through;
//   - a math/big.Int object carries a CONTENT TERM: bytes(m,off,len) after
//     SetBytes(m[off:off+len]), const(k), mod(a,b), a copy of the source's term
//     after Set, an opaque fresh term after any other mutator; Cmp / Sign /
//     BitLen / Bits are symbolic integers over content terms (cmp(a,b), sign(a),
//     ...), so that a fact established by a helper, a loop over an array of
//     coordinates, or on a temporary that is copied into the receiver later, is
//     the same fact;
//   - the curve-membership predicate (method IsOnCurve of the point type; it is
//     the anchor mechanism of the property and its arithmetic is not decided
//     here) is a symbolic boolean over the contents of the point it is applied to;
//   - byte buffers made in the function record the big-endian windows written
//     into them (copy of a Bytes() result to buf[K-len(b):], or FillBytes(buf[a:b])).
//
// Nothing of /repo is executed.

// ---------------------------------------------------------------------------
// linear integers

type c52L struct {
	unk  bool
	n    int64
	coef int64
	term string
}

func c52N(n int64) c52L { return c52L{n: n} }

func (a c52L) conc() bool { return !a.unk && a.coef == 0 }

func (a c52L) String() string {
	switch {
	case a.unk:
		return "?"
	case a.coef == 0:
		return fmt.Sprint(a.n)
	case a.n == 0 && a.coef == 1:
		return a.term
	}
	return fmt.Sprintf("%d%+d*%s", a.n, a.coef, a.term)
}

func c52Add(a, b c52L, sign int64) c52L {
	if a.unk || b.unk {
		return c52L{unk: true}
	}
	bc, bn := b.coef*sign, b.n*sign
	switch {
	case a.coef == 0 && bc == 0:
		return c52N(a.n + bn)
	case a.coef == 0:
		return c52L{n: a.n + bn, coef: bc, term: b.term}
	case bc == 0:
		return c52L{n: a.n + bn, coef: a.coef, term: a.term}
	case a.term == b.term:
		if a.coef+bc == 0 {
			return c52N(a.n + bn)
		}
		return c52L{n: a.n + bn, coef: a.coef + bc, term: a.term}
	}
	return c52L{unk: true}
}

func c52Scale(a c52L, k int64) c52L {
	if a.unk {
		return a
	}
	if k == 0 {
		return c52N(0)
	}
	if a.coef == 0 {
		return c52N(a.n * k)
	}
	return c52L{n: a.n * k, coef: a.coef * k, term: a.term}
}

// ---------------------------------------------------------------------------
// interval constraints on symbolic terms

const c52Inf = int64(1) << 40

type c52C struct {
	lo, hi int64
	excl   map[int64]bool
}

func (c c52C) norm() c52C {
	for c.lo <= c.hi && c.excl[c.lo] {
		c.lo++
	}
	for c.lo <= c.hi && c.excl[c.hi] {
		c.hi--
	}
	return c
}

func (c c52C) empty() bool { return c.lo > c.hi }

func (c c52C) point() (int64, bool) { return c.lo, c.lo == c.hi }

// refine: the constraint with "term op k" added.
func (c c52C) refine(op token.Token, k int64) c52C {
	switch op {
	case token.EQL:
		if k < c.lo || k > c.hi || c.excl[k] {
			return c52C{lo: 1, hi: 0}
		}
		return c52C{lo: k, hi: k}
	case token.NEQ:
		ex := map[int64]bool{k: true}
		for e := range c.excl {
			ex[e] = true
		}
		return c52C{lo: c.lo, hi: c.hi, excl: ex}.norm()
	case token.LSS:
		if k-1 < c.hi {
			c.hi = k - 1
		}
	case token.LEQ:
		if k < c.hi {
			c.hi = k
		}
	case token.GTR:
		if k+1 > c.lo {
			c.lo = k + 1
		}
	case token.GEQ:
		if k > c.lo {
			c.lo = k
		}
	}
	return c.norm()
}

func c52Negate(op token.Token) token.Token {
	switch op {
	case token.EQL:
		return token.NEQ
	case token.NEQ:
		return token.EQL
	case token.LSS:
		return token.GEQ
	case token.LEQ:
		return token.GTR
	case token.GTR:
		return token.LEQ
	case token.GEQ:
		return token.LSS
	}
	return op
}

// c52Mirror: a op b  <=>  b mirror(op) a
func c52Mirror(op token.Token) token.Token {
	switch op {
	case token.LSS:
		return token.GTR
	case token.LEQ:
		return token.GEQ
	case token.GTR:
		return token.LSS
	case token.GEQ:
		return token.LEQ
	}
	return op
}

// ---------------------------------------------------------------------------
// values

type c52V struct {
	k byte // 0 unknown, 'n' number, 'r' relation (bool), 'p' pointer, 's' slice, 'a' aggregate
	l c52L // 'n'
	// 'r': term op n
	term string
	op   token.Token
	n    int64
	// 'p': address obj+sub (obj == "" is nil); 's': backing object obj, window [off, off+ln)
	obj, sub string
	off, ln  c52L
	// 'a': explicit elements (".f", "[i]", "#i"), defaults read from address src
	el   map[string]c52V
	src  string
	zero bool
	// 'f': a function value (closure) with the values of its free variables
	fn    *ssa.Function
	binds []c52V
}

func c52Num(n int64) c52V { return c52V{k: 'n', l: c52N(n)} }
func c52Bool(b bool) c52V {
	if b {
		return c52Num(1)
	}
	return c52Num(0)
}

func (v c52V) String() string {
	switch v.k {
	case 'n':
		return v.l.String()
	case 'r':
		return fmt.Sprintf("(%s %s %d)", v.term, v.op, v.n)
	case 'p':
		if v.obj == "" {
			return "nil"
		}
		return "&" + v.obj + v.sub
	case 's':
		return fmt.Sprintf("%s[%s:+%s]", v.obj, v.off, v.ln)
	case 'a':
		return "aggregate"
	}
	return "?"
}

// ---------------------------------------------------------------------------
// state

type c52Write struct {
	at      ssa.Instruction
	off     c52L   // destination offset in the buffer
	ln      c52L   // number of bytes written
	src     string // content term of the big.Int whose big-endian bytes are written ("" = other data)
	aligned bool   // the bytes are right-aligned in [off, off+ln) with leading zeros (FillBytes)
	whole   bool   // the source is a whole Bytes() result
	lenTerm string // the symbolic length of that Bytes() result
}

type c52Buf struct {
	ln     int64
	writes []c52Write
	dirty  string
}

type c52OnCurve struct {
	at    ssa.Instruction
	term  string
	typ   types.Type        // type of the point the predicate was applied to
	byRel map[string]string // big.Int leaves of that point: relative path -> content at the time of the call
}

type c52Decode struct {
	at       ssa.Instruction
	obj      string
	off, ln  int64
	fromM    bool
	possible string // a possible out-of-range read
}

type c52Frame struct {
	fn   *ssa.Function
	env  map[ssa.Value]c52V
	b    *ssa.BasicBlock
	idx  int
	call *ssa.Call
}

type c52St struct {
	stack   []*c52Frame
	mem     map[string]c52V
	cont    map[string]string
	hist    map[string][]string
	cons    map[string]c52C
	bufs    map[string]*c52Buf
	bytesOf map[string]string // byte object of a Bytes() result -> content term
	onc     []c52OnCurve
	decodes []c52Decode
	visits  map[ssa.Instruction]int
	imprec  string
}

func (s *c52St) clone() *c52St {
	n := &c52St{mem: map[string]c52V{}, cont: map[string]string{}, hist: map[string][]string{}, cons: map[string]c52C{},
		bufs: map[string]*c52Buf{}, bytesOf: map[string]string{}, visits: map[ssa.Instruction]int{}, imprec: s.imprec}
	for _, f := range s.stack {
		g := *f
		g.env = make(map[ssa.Value]c52V, len(f.env))
		for k, v := range f.env {
			g.env[k] = v
		}
		n.stack = append(n.stack, &g)
	}
	for k, v := range s.mem {
		n.mem[k] = v
	}
	for k, v := range s.cont {
		n.cont[k] = v
	}
	for k, v := range s.hist {
		n.hist[k] = append([]string(nil), v...)
	}
	for k, v := range s.cons {
		n.cons[k] = v
	}
	for k, v := range s.bufs {
		b := *v
		b.writes = append([]c52Write(nil), v.writes...)
		n.bufs[k] = &b
	}
	for k, v := range s.bytesOf {
		n.bytesOf[k] = v
	}
	for k, v := range s.visits {
		n.visits[k] = v
	}
	n.onc = append([]c52OnCurve(nil), s.onc...)
	n.decodes = append([]c52Decode(nil), s.decodes...)
	return n
}

func (s *c52St) top() *c52Frame { return s.stack[len(s.stack)-1] }

// constraint of a term (default domain by the term's head)
func (s *c52St) con(term string) c52C {
	if c, ok := s.cons[term]; ok {
		return c
	}
	switch {
	case strings.HasPrefix(term, "cmp("), strings.HasPrefix(term, "sign("):
		return c52C{lo: -1, hi: 1}
	case strings.HasPrefix(term, "oncurve("), strings.HasPrefix(term, "isnil("), strings.HasPrefix(term, "bool:"):
		return c52C{lo: 0, hi: 1}
	case strings.HasPrefix(term, "len("), strings.HasPrefix(term, "bitlen("), strings.HasPrefix(term, "wordlen("), strings.HasPrefix(term, "nat:"):
		return c52C{lo: 0, hi: c52Inf}
	}
	return c52C{lo: -c52Inf, hi: c52Inf}
}

// concretize: a linear value whose term is pinned to a single value by the path
func (s *c52St) concretize(a c52L) c52L {
	if a.unk || a.coef == 0 {
		return a
	}
	if v, ok := s.con(a.term).point(); ok {
		return c52N(a.n + a.coef*v)
	}
	return a
}

// bounds of a linear value under the path's constraints
func (s *c52St) bounds(a c52L) (lo, hi int64, ok bool) {
	if a.unk {
		return 0, 0, false
	}
	if a.coef == 0 {
		return a.n, a.n, true
	}
	c := s.con(a.term)
	x, y := a.n+a.coef*c.lo, a.n+a.coef*c.hi
	if c.lo <= -c52Inf || c.hi >= c52Inf {
		// one-sided
		if a.coef > 0 {
			if c.lo <= -c52Inf {
				x = -c52Inf
			}
			if c.hi >= c52Inf {
				y = c52Inf
			}
		} else {
			if c.hi >= c52Inf {
				y = -c52Inf
			}
			if c.lo <= -c52Inf {
				x = c52Inf
			}
		}
	}
	if x > y {
		x, y = y, x
	}
	return x, y, true
}

func c52Key(obj, sub string) string { return obj + "|" + sub }

func c52Fresh(obj string) bool { return strings.HasPrefix(obj, "new#") }

// content of a big.Int object
func (s *c52St) content(obj string) string {
	if c, ok := s.cont[obj]; ok {
		return c
	}
	if c52Fresh(obj) {
		return "const(0)"
	}
	return "init(" + obj + ")"
}

func (s *c52St) setContent(obj, term string) {
	if _, ok := s.hist[obj]; !ok {
		s.hist[obj] = []string{s.content(obj)}
	}
	s.cont[obj] = term
	s.hist[obj] = append(s.hist[obj], term)
}

// ---------------------------------------------------------------------------
// the machine

type c52End struct {
	ret     *ssa.Return
	results []c52V
	st      *c52St
}

type c52X struct {
	root     *ssa.Function
	steps    int
	maxSteps int
	nfresh   int
	ends     []c52End
	cutoffs  int
	aborted  string
	oobAt    ssa.Instruction
	oobWhy   string
	isPred   func(callee *ssa.Function) bool // the opaque curve-membership predicate
	predSeen []*ssa.Function
	watch    map[string]bool // slice objects whose every index / slice expression must be in range
}

func (x *c52X) fresh(prefix string) string {
	x.nfresh++
	return fmt.Sprintf("%s#%d", prefix, x.nfresh)
}

func c52IsBigInt(t types.Type) bool {
	n, ok := t.(*types.Named)
	return ok && n.Obj() != nil && n.Obj().Pkg() != nil && n.Obj().Pkg().Path() == "math/big" && n.Obj().Name() == "Int"
}

func c52IsBigPtr(t types.Type) bool {
	p, ok := t.Underlying().(*types.Pointer)
	return ok && c52IsBigInt(p.Elem())
}

// deflt: the value read from an address nothing was stored to
func (x *c52X) deflt(key string, t types.Type, zero bool) c52V {
	name := strings.Replace(key, "|", "", 1)
	switch u := t.Underlying().(type) {
	case *types.Pointer:
		if zero {
			return c52V{k: 'p'}
		}
		return c52V{k: 'p', obj: name}
	case *types.Basic:
		switch {
		case u.Info()&types.IsBoolean != 0:
			if zero {
				return c52Num(0)
			}
			return c52V{k: 'r', term: "bool:" + name, op: token.NEQ, n: 0}
		case u.Info()&types.IsInteger != 0:
			if zero {
				return c52Num(0)
			}
			if u.Info()&types.IsUnsigned != 0 {
				return c52V{k: 'n', l: c52L{coef: 1, term: "nat:" + name}}
			}
			return c52V{k: 'n', l: c52L{coef: 1, term: "int:" + name}}
		}
	case *types.Slice:
		if zero {
			return c52V{k: 's', off: c52N(0), ln: c52N(0)}
		}
		return c52V{k: 's', obj: name, off: c52N(0), ln: c52L{coef: 1, term: "len(" + name + ")"}}
	case *types.Array, *types.Struct:
		return c52V{k: 'a', src: key, zero: zero}
	}
	return c52V{}
}

func (x *c52X) load(st *c52St, p c52V, t types.Type) c52V {
	if p.k != 'p' || p.obj == "" {
		return c52V{}
	}
	key := c52Key(p.obj, p.sub)
	switch t.Underlying().(type) {
	case *types.Array, *types.Struct:
		a := c52V{k: 'a', el: map[string]c52V{}, src: key, zero: c52Fresh(p.obj)}
		for k, v := range st.mem {
			if strings.HasPrefix(k, key) && len(k) > len(key) && (k[len(key)] == '.' || k[len(key)] == '[') {
				a.el[k[len(key):]] = v
			}
		}
		return a
	}
	if v, ok := st.mem[key]; ok {
		return v
	}
	return x.deflt(key, t, c52Fresh(p.obj))
}

func (x *c52X) store(st *c52St, p, v c52V, t types.Type) {
	if p.k != 'p' || p.obj == "" {
		return
	}
	key := c52Key(p.obj, p.sub)
	if b := st.bufs[p.obj]; b != nil {
		b.dirty = "an element store"
	}
	for k := range st.mem {
		if strings.HasPrefix(k, key) && len(k) > len(key) && (k[len(key)] == '.' || k[len(key)] == '[') {
			delete(st.mem, k)
		}
	}
	switch t.Underlying().(type) {
	case *types.Array, *types.Struct:
		delete(st.mem, key)
		n := 0
		x.materialize(st, key, v, t, &n)
		return
	}
	st.mem[key] = v
}

// materialize writes every scalar element of aggregate value a (of type t) to
// memory below key: the explicit elements, and the defaults of the address the
// value was loaded from.
func (x *c52X) materialize(st *c52St, key string, a c52V, t types.Type, n *int) {
	*n++
	if *n > 512 {
		return
	}
	switch u := t.Underlying().(type) {
	case *types.Struct:
		for i := 0; i < u.NumFields(); i++ {
			f := u.Field(i)
			x.materialize(st, key+"."+f.Name(), x.elem(a, "."+f.Name(), f.Type()), f.Type(), n)
		}
	case *types.Array:
		for i := int64(0); i < u.Len() && i < 256; i++ {
			sfx := fmt.Sprintf("[%d]", i)
			x.materialize(st, key+sfx, x.elem(a, sfx, u.Elem()), u.Elem(), n)
		}
	default:
		st.mem[key] = a
	}
}

// elem: element sfx (".f" / "[i]") of an aggregate value
func (x *c52X) elem(a c52V, sfx string, t types.Type) c52V {
	if a.k != 'a' {
		return c52V{}
	}
	if v, ok := a.el[sfx]; ok {
		return v
	}
	// nested aggregate: collect the deeper elements
	switch t.Underlying().(type) {
	case *types.Array, *types.Struct:
		sub := c52V{k: 'a', el: map[string]c52V{}, zero: a.zero}
		if a.src != "" {
			sub.src = a.src + sfx
		}
		for k, v := range a.el {
			if strings.HasPrefix(k, sfx) && len(k) > len(sfx) {
				sub.el[k[len(sfx):]] = v
			}
		}
		return sub
	}
	if a.src != "" {
		return x.deflt(a.src+sfx, t, a.zero)
	}
	if a.zero {
		return x.deflt("", t, true)
	}
	return c52V{}
}

func (x *c52X) constVal(c *ssa.Const) c52V {
	t := c.Type().Underlying()
	if c.Value == nil {
		switch t.(type) {
		case *types.Pointer:
			return c52V{k: 'p'}
		case *types.Slice:
			return c52V{k: 's', off: c52N(0), ln: c52N(0)}
		case *types.Basic:
			return c52Num(0)
		case *types.Array, *types.Struct:
			return c52V{k: 'a', el: map[string]c52V{}, zero: true}
		}
		return c52V{}
	}
	switch c.Value.Kind() {
	case constant.Bool:
		return c52Bool(constant.BoolVal(c.Value))
	case constant.Int:
		if n, ok := constInt(c); ok {
			return c52Num(n)
		}
	}
	return c52V{}
}

func (x *c52X) val(fr *c52Frame, v ssa.Value) c52V {
	switch y := v.(type) {
	case *ssa.Const:
		return x.constVal(y)
	case *ssa.Global:
		return c52V{k: 'p', obj: "G:" + y.Name()}
	case *ssa.Function:
		return c52V{k: 'f', fn: y}
	case *ssa.Builtin:
		return c52V{}
	}
	return fr.env[v]
}

// truth of a boolean value under the path: 1, 0, or -1 (open)
func (x *c52X) truth(st *c52St, v c52V) int {
	switch v.k {
	case 'n':
		if v.l.conc() {
			if v.l.n != 0 {
				return 1
			}
			return 0
		}
	case 'r':
		c := st.con(v.term)
		if c.refine(v.op, v.n).empty() {
			return 0
		}
		if c.refine(c52Negate(v.op), v.n).empty() {
			return 1
		}
	}
	return -1
}

// assume: the state with boolean v fixed to want (nil when infeasible)
func (x *c52X) assume(st *c52St, v c52V, want bool) bool {
	if v.k != 'r' {
		return true
	}
	op := v.op
	if !want {
		op = c52Negate(op)
	}
	c := st.con(v.term).refine(op, v.n)
	if c.empty() {
		return false
	}
	st.cons[v.term] = c
	return true
}

func (x *c52X) compare(st *c52St, op token.Token, a, b c52V) c52V {
	if a.k == 'n' && b.k == 'n' {
		la, lb := st.concretize(a.l), st.concretize(b.l)
		d := c52Add(la, lb, -1) // a - b op 0
		if d.unk {
			return c52V{}
		}
		if d.coef == 0 {
			r, ok := evalCmp(op, d.n, 0)
			if !ok {
				return c52V{}
			}
			return c52Bool(r)
		}
		// n + coef*T op 0
		if d.coef == 1 {
			return c52V{k: 'r', term: d.term, op: op, n: -d.n}
		}
		if d.coef == -1 {
			return c52V{k: 'r', term: d.term, op: c52Mirror(op), n: d.n}
		}
		return c52V{}
	}
	if a.k == 'p' && b.k == 'p' && (op == token.EQL || op == token.NEQ) {
		if b.obj != "" && a.obj == "" {
			a, b = b, a
		}
		switch {
		case a.obj == "" && b.obj == "":
			return c52Bool(op == token.EQL)
		case b.obj == "":
			// a == nil ?
			if c52Fresh(a.obj) || strings.HasPrefix(a.obj, "G:") || a.sub != "" {
				return c52Bool(op == token.NEQ)
			}
			if op == token.EQL {
				return c52V{k: 'r', term: "isnil(" + a.obj + ")", op: token.EQL, n: 1}
			}
			return c52V{k: 'r', term: "isnil(" + a.obj + ")", op: token.EQL, n: 0}
		default:
			same := a.obj == b.obj && a.sub == b.sub
			if same {
				return c52Bool(op == token.EQL)
			}
			if c52Fresh(a.obj) != c52Fresh(b.obj) || (c52Fresh(a.obj) && a.obj != b.obj) {
				return c52Bool(op == token.NEQ)
			}
		}
		return c52V{}
	}
	if (a.k == 'r' || a.k == 'n') && (b.k == 'r' || b.k == 'n') && (op == token.EQL || op == token.NEQ) {
		// booleans compared with a constant boolean
		if b.k == 'r' {
			a, b = b, a
		}
		if a.k == 'r' && b.k == 'n' && b.l.conc() {
			if (b.l.n != 0) == (op == token.EQL) {
				return a
			}
			a.op = c52Negate(a.op)
			return a
		}
	}
	return c52V{}
}

func (x *c52X) binop(st *c52St, in *ssa.BinOp, a, b c52V) c52V {
	switch in.Op {
	case token.EQL, token.NEQ, token.LSS, token.LEQ, token.GTR, token.GEQ:
		return x.compare(st, in.Op, a, b)
	}
	if a.k != 'n' || b.k != 'n' {
		return c52V{}
	}
	la, lb := st.concretize(a.l), st.concretize(b.l)
	switch in.Op {
	case token.ADD:
		return c52V{k: 'n', l: c52Add(la, lb, 1)}
	case token.SUB:
		return c52V{k: 'n', l: c52Add(la, lb, -1)}
	case token.MUL:
		if la.conc() {
			return c52V{k: 'n', l: c52Scale(lb, la.n)}
		}
		if lb.conc() {
			return c52V{k: 'n', l: c52Scale(la, lb.n)}
		}
		return c52V{}
	}
	if !la.conc() || !lb.conc() {
		return c52V{}
	}
	p, q := la.n, lb.n
	switch in.Op {
	case token.QUO:
		if q != 0 {
			return c52Num(p / q)
		}
	case token.REM:
		if q != 0 {
			return c52Num(p % q)
		}
	case token.SHL:
		if q >= 0 && q < 62 {
			return c52Num(p << uint(q))
		}
	case token.SHR:
		if q >= 0 && q < 64 {
			return c52Num(p >> uint(q))
		}
	case token.AND:
		return c52Num(p & q)
	case token.OR:
		return c52Num(p | q)
	case token.XOR:
		return c52Num(p ^ q)
	case token.AND_NOT:
		return c52Num(p &^ q)
	}
	return c52V{}
}

// goTo: move the top frame along the edge b -> succ (phis assigned in parallel)
func (x *c52X) goTo(fr *c52Frame, succ *ssa.BasicBlock) {
	idx := -1
	for i, p := range succ.Preds {
		if p == fr.b {
			idx = i
		}
	}
	type upd struct {
		ph *ssa.Phi
		v  c52V
	}
	var us []upd
	n := 0
	for _, in := range succ.Instrs {
		ph, ok := in.(*ssa.Phi)
		if !ok {
			break
		}
		n++
		if idx >= 0 {
			us = append(us, upd{ph, x.val(fr, ph.Edges[idx])})
		}
	}
	for _, u := range us {
		fr.env[u.ph] = u.v
	}
	fr.b, fr.idx = succ, n
}

// start runs fn with the given argument values and collects the returns of fn.
func (x *c52X) start(fn *ssa.Function, args []c52V) {
	st := &c52St{mem: map[string]c52V{}, cont: map[string]string{}, hist: map[string][]string{}, cons: map[string]c52C{},
		bufs: map[string]*c52Buf{}, bytesOf: map[string]string{}, visits: map[ssa.Instruction]int{}}
	fr := &c52Frame{fn: fn, env: map[ssa.Value]c52V{}, b: fn.Blocks[0]}
	for i, p := range fn.Params {
		if i < len(args) {
			fr.env[p] = args[i]
		}
	}
	st.stack = []*c52Frame{fr}
	x.root = fn
	if x.maxSteps == 0 {
		x.maxSteps = 400000
	}
	x.run(st)
}

func (x *c52X) run(st *c52St) {
	for {
		if x.aborted != "" {
			return
		}
		x.steps++
		if x.steps > x.maxSteps {
			x.aborted = "step bound exceeded"
			return
		}
		fr := st.top()
		if fr.idx >= len(fr.b.Instrs) {
			x.aborted = "fell off a block in " + fr.fn.Name()
			return
		}
		in := fr.b.Instrs[fr.idx]
		fr.idx++
		switch y := in.(type) {
		case *ssa.Jump:
			x.goTo(fr, fr.b.Succs[0])
		case *ssa.If:
			cv := x.val(fr, y.Cond)
			switch x.truth(st, cv) {
			case 1:
				x.goTo(fr, fr.b.Succs[0])
			case 0:
				x.goTo(fr, fr.b.Succs[1])
			default:
				st.visits[y]++
				if st.visits[y] > 12 {
					x.cutoffs++
					return
				}
				b := fr.b
				for side := 0; side < 2; side++ {
					s2 := st.clone()
					if !x.assume(s2, cv, side == 0) {
						continue
					}
					f2 := s2.top()
					f2.b = b
					x.goTo(f2, b.Succs[side])
					x.run(s2)
				}
				return
			}
		case *ssa.Return:
			var rs []c52V
			for _, r := range y.Results {
				rs = append(rs, x.val(fr, r))
			}
			if len(st.stack) == 1 {
				x.ends = append(x.ends, c52End{ret: y, results: rs, st: st})
				return
			}
			st.stack = st.stack[:len(st.stack)-1]
			caller := st.top()
			switch len(rs) {
			case 0:
			case 1:
				caller.env[fr.call] = rs[0]
			default:
				t := c52V{k: 'a', el: map[string]c52V{}}
				for i, r := range rs {
					t.el[fmt.Sprintf("#%d", i)] = r
				}
				caller.env[fr.call] = t
			}
		case *ssa.Panic:
			return
		case *ssa.Call:
			x.call(st, fr, y)
		case *ssa.Defer, *ssa.Go:
			st.imprec = "a defer/go statement in " + fr.fn.Name()
		case *ssa.RunDefers, *ssa.DebugRef:
		case *ssa.Store:
			x.store(st, x.val(fr, y.Addr), x.val(fr, y.Val), y.Val.Type())
		case *ssa.MapUpdate, *ssa.Send:
		case ssa.Value:
			fr.env[y] = x.eval(st, fr, y)
		}
	}
}

func (x *c52X) eval(st *c52St, fr *c52Frame, v ssa.Value) c52V {
	switch y := v.(type) {
	case *ssa.Alloc:
		obj := x.fresh("new")
		if pt, ok := y.Type().Underlying().(*types.Pointer); ok {
			if arr, ok := pt.Elem().Underlying().(*types.Array); ok {
				if bt, ok := arr.Elem().Underlying().(*types.Basic); ok && bt.Kind() == types.Uint8 {
					st.bufs[obj] = &c52Buf{ln: arr.Len()}
				}
			}
		}
		return c52V{k: 'p', obj: obj}
	case *ssa.MakeSlice:
		obj := x.fresh("new")
		ln := x.val(fr, y.Len)
		if ln.k == 'n' {
			l := st.concretize(ln.l)
			if l.conc() {
				st.bufs[obj] = &c52Buf{ln: l.n}
			}
			return c52V{k: 's', obj: obj, off: c52N(0), ln: l}
		}
		return c52V{k: 's', obj: obj, off: c52N(0), ln: c52L{unk: true}}
	case *ssa.FieldAddr:
		p := x.val(fr, y.X)
		st2 := derefStruct(y.X.Type())
		if p.k != 'p' || p.obj == "" || st2 == nil {
			return c52V{}
		}
		return c52V{k: 'p', obj: p.obj, sub: p.sub + "." + st2.Field(y.Field).Name()}
	case *ssa.Field:
		a := x.val(fr, y.X)
		s, ok := y.X.Type().Underlying().(*types.Struct)
		if !ok {
			return c52V{}
		}
		return x.elem(a, "."+s.Field(y.Field).Name(), y.Type())
	case *ssa.IndexAddr:
		b := x.val(fr, y.X)
		i := x.val(fr, y.Index)
		if i.k != 'n' {
			if b.k == 's' && x.watch[b.obj] {
				x.noteOOB(y, "index is not known to be below the length of the slice on this path")
			}
			return c52V{}
		}
		il := st.concretize(i.l)
		switch b.k {
		case 'p':
			if b.obj == "" || !il.conc() {
				return c52V{}
			}
			return c52V{k: 'p', obj: b.obj, sub: fmt.Sprintf("%s[%d]", b.sub, il.n)}
		case 's':
			o := st.concretize(c52Add(b.off, il, 1))
			x.checkIndex(st, y, b, il)
			if b.obj == "" || !o.conc() {
				return c52V{}
			}
			return c52V{k: 'p', obj: b.obj, sub: fmt.Sprintf("%s[%d]", b.sub, o.n)}
		}
		return c52V{}
	case *ssa.Index:
		a := x.val(fr, y.X)
		i := x.val(fr, y.Index)
		if i.k != 'n' {
			return c52V{}
		}
		il := st.concretize(i.l)
		if !il.conc() {
			return c52V{}
		}
		return x.elem(a, fmt.Sprintf("[%d]", il.n), y.Type())
	case *ssa.UnOp:
		a := x.val(fr, y.X)
		switch y.Op {
		case token.MUL:
			return x.load(st, a, y.Type())
		case token.NOT:
			switch a.k {
			case 'n':
				if a.l.conc() {
					return c52Bool(a.l.n == 0)
				}
			case 'r':
				a.op = c52Negate(a.op)
				return a
			}
		case token.SUB:
			if a.k == 'n' {
				return c52V{k: 'n', l: c52Scale(a.l, -1)}
			}
		}
		return c52V{}
	case *ssa.BinOp:
		return x.binop(st, y, x.val(fr, y.X), x.val(fr, y.Y))
	case *ssa.Phi:
		return fr.env[y]
	case *ssa.ChangeType:
		return x.val(fr, y.X)
	case *ssa.Convert:
		a := x.val(fr, y.X)
		if a.k == 'n' {
			if b, ok := y.Type().Underlying().(*types.Basic); ok && b.Info()&types.IsInteger != 0 {
				return a
			}
			return c52V{}
		}
		return a
	case *ssa.MakeInterface:
		return x.val(fr, y.X)
	case *ssa.MakeClosure:
		f, ok := y.Fn.(*ssa.Function)
		if !ok {
			return c52V{}
		}
		v := c52V{k: 'f', fn: f}
		for _, b := range y.Bindings {
			v.binds = append(v.binds, x.val(fr, b))
		}
		return v
	case *ssa.Extract:
		t := x.val(fr, y.Tuple)
		return x.elem(t, fmt.Sprintf("#%d", y.Index), y.Type())
	case *ssa.Slice:
		return x.slice(st, fr, y)
	}
	return c52V{}
}

func (x *c52X) noteOOB(at ssa.Instruction, why string) {
	if x.oobAt == nil {
		x.oobAt, x.oobWhy = at, why
	}
}

func (x *c52X) checkIndex(st *c52St, at ssa.Instruction, s c52V, i c52L) {
	if !x.watch[s.obj] {
		return
	}
	lo, _, ok := st.bounds(s.ln)
	if !ok || !i.conc() || i.n < 0 || i.n >= lo {
		x.noteOOB(at, fmt.Sprintf("index %s is not known to be below the length %s of the slice on this path", i, s.ln))
	}
}

func (x *c52X) slice(st *c52St, fr *c52Frame, y *ssa.Slice) c52V {
	b := x.val(fr, y.X)
	lo := c52N(0)
	if y.Low != nil {
		v := x.val(fr, y.Low)
		if v.k != 'n' {
			lo = c52L{unk: true}
		} else {
			lo = st.concretize(v.l)
		}
	}
	var base c52V
	switch b.k {
	case 'p':
		// pointer to array
		pt, ok := y.X.Type().Underlying().(*types.Pointer)
		if !ok || b.obj == "" {
			return c52V{}
		}
		arr, ok := pt.Elem().Underlying().(*types.Array)
		if !ok {
			return c52V{}
		}
		base = c52V{k: 's', obj: b.obj, sub: b.sub, off: c52N(0), ln: c52N(arr.Len())}
	case 's':
		base = b
	default:
		return c52V{}
	}
	hi := base.ln
	if y.High != nil {
		v := x.val(fr, y.High)
		if v.k != 'n' {
			hi = c52L{unk: true}
		} else {
			hi = st.concretize(v.l)
		}
	}
	if x.watch[base.obj] {
		// 0 <= lo <= hi <= len on every input that reaches this point (for the
		// parameter slice nothing is known about cap, so len is the bound)
		bad := ""
		if l0, _, ok := st.bounds(lo); !ok || l0 < 0 {
			bad = "low bound may be negative or is unknown"
		}
		if y.High != nil {
			_, h1, ok1 := st.bounds(hi)
			n0, _, ok2 := st.bounds(base.ln)
			if d := c52Add(base.ln, hi, -1); !d.unk && d.coef == 0 {
				if d.n < 0 {
					bad = "high bound exceeds the length"
				}
			} else if !ok1 || !ok2 || h1 > n0 {
				bad = fmt.Sprintf("high bound %s is not known to be within the length %s", hi, base.ln)
			}
		}
		if d := c52Add(hi, lo, -1); d.unk {
			bad = "bounds are not comparable"
		} else if d0, _, ok := st.bounds(d); !ok || d0 < 0 {
			bad = fmt.Sprintf("low bound %s is not known to be at most the high bound %s", lo, hi)
		}
		if bad != "" {
			x.noteOOB(y, bad)
		}
	}
	return c52V{k: 's', obj: base.obj, sub: base.sub, off: st.concretize(c52Add(base.off, lo, 1)), ln: st.concretize(c52Add(hi, lo, -1))}
}

// ---------------------------------------------------------------------------
// calls

var c52BigPure = map[string]bool{"Cmp": true, "CmpAbs": true, "Sign": true, "BitLen": true, "Bits": true, "Bytes": true, "String": true,
	"Text": true, "IsInt64": true, "IsUint64": true, "Int64": true, "Uint64": true, "Bit": true, "ProbablyPrime": true, "FillBytes": true,
	"Append": true, "Format": true, "TrailingZeroBits": true, "Float64": true, "MarshalText": true, "MarshalJSON": true, "GobEncode": true}

func (x *c52X) bigObj(v c52V) string {
	if v.k != 'p' || v.obj == "" {
		return ""
	}
	return v.obj + v.sub
}

func (x *c52X) unknownOf(t types.Type) c52V {
	if t == nil {
		return c52V{}
	}
	if tup, ok := t.(*types.Tuple); ok {
		if tup.Len() == 0 {
			return c52V{}
		}
		a := c52V{k: 'a', el: map[string]c52V{}}
		for i := 0; i < tup.Len(); i++ {
			a.el[fmt.Sprintf("#%d", i)] = x.unknownOf(tup.At(i).Type())
		}
		return a
	}
	return x.deflt(c52Key(x.fresh("ret"), ""), t, false)
}

// havoc: an uninterpreted callee may change every big.Int and buffer it is handed
func (x *c52X) havoc(st *c52St, args []c52V, why string) {
	for _, a := range args {
		switch a.k {
		case 'p':
			if a.obj == "" {
				continue
			}
			name := a.obj + a.sub
			// the object itself and everything stored below it
			st.setContent(name, x.fresh("opaque"))
			for o := range st.cont {
				if strings.HasPrefix(o, name+".") {
					st.setContent(o, x.fresh("opaque"))
				}
			}
			if b := st.bufs[a.obj]; b != nil {
				b.dirty = why
			}
		case 's':
			if b := st.bufs[a.obj]; b != nil {
				b.dirty = why
			}
		}
	}
}

func (x *c52X) call(st *c52St, fr *c52Frame, y *ssa.Call) {
	cc := &y.Call
	var args []c52V
	for _, a := range cc.Args {
		args = append(args, x.val(fr, a))
	}
	name := calleeName(cc)
	set := func(v c52V) { fr.env[y] = v }
	switch name {
	case "builtin:len":
		if len(args) == 1 && args[0].k == 's' {
			set(c52V{k: 'n', l: st.concretize(args[0].ln)})
			return
		}
		if len(args) == 1 && args[0].k == 'a' {
			if arr, ok := cc.Args[0].Type().Underlying().(*types.Array); ok {
				set(c52Num(arr.Len()))
				return
			}
		}
		set(c52V{})
		return
	case "builtin:cap":
		set(c52V{})
		return
	case "builtin:min", "builtin:max":
		all := true
		var r int64
		for i, a := range args {
			if a.k != 'n' || !st.concretize(a.l).conc() {
				all = false
				break
			}
			n := st.concretize(a.l).n
			if i == 0 || (name == "builtin:min" && n < r) || (name == "builtin:max" && n > r) {
				r = n
			}
		}
		if all && len(args) > 0 {
			set(c52Num(r))
		} else {
			set(c52V{})
		}
		return
	case "builtin:copy":
		x.doCopy(st, y, args)
		set(c52V{})
		return
	case "builtin:append":
		if len(args) == 2 && args[0].k == 's' && args[1].k == 's' {
			// both operands of known length: a fresh backing array holding the
			// elements of the first followed by those of the second
			a, b := args[0], args[1]
			al, bl, ao, bo := st.concretize(a.ln), st.concretize(b.ln), st.concretize(a.off), st.concretize(b.off)
			if _, isBytes := cc.Args[0].Type().Underlying().(*types.Slice).Elem().Underlying().(*types.Basic); !isBytes &&
				al.conc() && bl.conc() && ao.conc() && bo.conc() && al.n+bl.n <= 64 {
				obj := x.fresh("new")
				et := cc.Args[0].Type().Underlying().(*types.Slice).Elem()
				for i := int64(0); i < al.n; i++ {
					v := x.load(st, c52V{k: 'p', obj: a.obj, sub: fmt.Sprintf("%s[%d]", a.sub, ao.n+i)}, et)
					x.store(st, c52V{k: 'p', obj: obj, sub: fmt.Sprintf("[%d]", i)}, v, et)
				}
				for i := int64(0); i < bl.n; i++ {
					v := x.load(st, c52V{k: 'p', obj: b.obj, sub: fmt.Sprintf("%s[%d]", b.sub, bo.n+i)}, et)
					x.store(st, c52V{k: 'p', obj: obj, sub: fmt.Sprintf("[%d]", al.n+i)}, v, et)
				}
				set(c52V{k: 's', obj: obj, off: c52N(0), ln: c52N(al.n + bl.n)})
				return
			}
			// byte buffers made in this function, both taken whole: the result is a
			// new buffer holding the windows of the first followed by those of the second
			ba, bb := st.bufs[a.obj], st.bufs[b.obj]
			if ba != nil && (bb != nil || (b.obj == "" && bl.conc() && bl.n == 0)) && al.conc() && bl.conc() && ao.conc() && bo.conc() &&
				ao.n == 0 && bo.n == 0 && a.sub == "" && b.sub == "" && (bb == nil || bl.n == bb.ln) {
				obj := x.fresh("new")
				nb := &c52Buf{ln: al.n + bl.n, dirty: ba.dirty}
				for _, w := range ba.writes {
					if lo, hi, ok := st.bounds(c52Add(w.off, w.ln, 1)); !ok || lo < 0 || hi > al.n {
						nb.dirty = "a window cut by append"
					}
					nb.writes = append(nb.writes, w)
				}
				if bb != nil {
					if bb.dirty != "" {
						nb.dirty = bb.dirty
					}
					for _, w := range bb.writes {
						w.off = c52Add(w.off, c52N(al.n), 1)
						nb.writes = append(nb.writes, w)
					}
				}
				st.bufs[obj] = nb
				set(c52V{k: 's', obj: obj, off: c52N(0), ln: c52N(al.n + bl.n)})
				return
			}
		}
		x.havoc(st, args[:1], "append")
		set(c52V{k: 's', obj: x.fresh("ret"), off: c52N(0), ln: c52L{unk: true}})
		return
	case "builtin:clear":
		x.havoc(st, args, "clear")
		return
	}
	if strings.HasPrefix(name, "builtin:") {
		set(c52V{})
		return
	}
	callee := cc.StaticCallee()
	var binds []c52V
	if fv := x.val(fr, cc.Value); !cc.IsInvoke() && fv.k == 'f' {
		// a function value: a closure made on this path, or one handed in as an argument
		callee, binds = fv.fn, fv.binds
		name = callee.String()
	}
	if callee != nil && strings.HasPrefix(name, "(*math/big.Int).") && len(args) > 0 {
		set(x.bigCall(st, y, callee.Name(), args))
		return
	}
	if name == "math/big.NewInt" && len(args) == 1 {
		obj := x.fresh("new")
		if args[0].k == 'n' && st.concretize(args[0].l).conc() {
			st.cont[obj] = fmt.Sprintf("const(%d)", st.concretize(args[0].l).n)
		} else {
			st.cont[obj] = x.fresh("opaque")
		}
		set(c52V{k: 'p', obj: obj})
		return
	}
	if callee != nil && x.isPred != nil && x.isPred(callee) && len(args) >= 1 {
		set(x.predCall(st, y, callee, args))
		return
	}
	if callee != nil && len(callee.Blocks) > 0 && x.interpretable(callee) && len(st.stack) < 12 {
		active := false
		for _, f := range st.stack {
			if f.fn == callee {
				active = true
			}
		}
		if !active {
			nf := &c52Frame{fn: callee, env: map[ssa.Value]c52V{}, b: callee.Blocks[0], call: y}
			for i, p := range callee.Params {
				if i < len(args) {
					nf.env[p] = args[i]
				}
			}
			for i, fv := range callee.FreeVars {
				if i < len(binds) {
					nf.env[fv] = binds[i]
				}
			}
			st.stack = append(st.stack, nf)
			return
		}
	}
	if callee != nil && len(callee.Blocks) > 0 && x.interpretable(callee) {
		st.imprec = "the call of " + callee.Name() + " in " + fr.fn.Name() + " is too deep or recursive to interpret"
	}
	if callee == nil && !cc.IsInvoke() {
		st.imprec = "a dynamic call in " + fr.fn.Name()
	}
	// uninterpreted
	x.havoc(st, args, "a call of "+short(name))
	set(x.unknownOf(y.Type()))
}

// interpretable: callees whose body is interpreted in place — the functions of
// the root's own package (closures and generic instances included) and the
// generic helpers of package slices.
func (x *c52X) interpretable(f *ssa.Function) bool {
	g := f
	for g.Parent() != nil {
		g = g.Parent()
	}
	if g.Origin() != nil {
		g = g.Origin()
	}
	if g.Pkg == nil {
		return false
	}
	return g.Pkg == x.root.Pkg || g.Pkg.Pkg.Path() == "slices"
}

func (x *c52X) doCopy(st *c52St, at ssa.Instruction, args []c52V) {
	if len(args) != 2 || args[0].k != 's' {
		return
	}
	dst, src := args[0], args[1]
	b := st.bufs[dst.obj]
	if b == nil {
		return
	}
	w := c52Write{at: at, off: dst.off}
	if src.k == 's' {
		if t, ok := st.bytesOf[src.obj]; ok {
			w.src = t
			w.lenTerm = "len(" + src.obj + ")"
			w.whole = src.off.conc() && src.off.n == 0 && !src.ln.unk && src.ln.coef == 1 && src.ln.n == 0 && src.ln.term == w.lenTerm
		}
		// bytes copied: min(len(dst), len(src))
		dl, sl := st.concretize(dst.ln), st.concretize(src.ln)
		d := c52Add(dl, sl, -1)
		if lo, _, ok := st.bounds(d); ok && lo >= 0 {
			w.ln = sl
		} else if _, hi, ok := st.bounds(d); ok && hi <= 0 {
			w.ln = dl
		} else {
			w.ln = c52L{unk: true}
		}
	} else {
		w.ln = c52L{unk: true}
	}
	b.writes = append(b.writes, w)
}

func (x *c52X) bigCall(st *c52St, at *ssa.Call, meth string, args []c52V) c52V {
	z := x.bigObj(args[0])
	cz := ""
	if z != "" {
		cz = st.content(z)
	}
	argContent := func(i int) string {
		if i < len(args) {
			if o := x.bigObj(args[i]); o != "" {
				return st.content(o)
			}
		}
		return x.fresh("opaque")
	}
	sym := func(term string) c52V { return c52V{k: 'n', l: c52L{coef: 1, term: term}} }
	if z == "" {
		return x.unknownOf(at.Type())
	}
	konst := func(term string) (int64, bool) {
		var k int64
		if n, err := fmt.Sscanf(term, "const(%d)", &k); err == nil && n == 1 {
			return k, true
		}
		return 0, false
	}
	switch meth {
	case "Cmp":
		cy := argContent(1)
		if cy == cz {
			return c52Num(0)
		}
		if a, ok := konst(cz); ok {
			if b, ok := konst(cy); ok {
				switch {
				case a < b:
					return c52Num(-1)
				case a > b:
					return c52Num(1)
				}
				return c52Num(0)
			}
		}
		return sym("cmp(" + cz + "," + cy + ")")
	case "Sign":
		if a, ok := konst(cz); ok {
			switch {
			case a < 0:
				return c52Num(-1)
			case a > 0:
				return c52Num(1)
			}
			return c52Num(0)
		}
		return sym("sign(" + cz + ")")
	case "BitLen":
		if a, ok := konst(cz); ok && a == 0 {
			return c52Num(0)
		}
		return sym("bitlen(" + cz + ")")
	case "Bits":
		obj := x.fresh("ret")
		return c52V{k: 's', obj: obj, off: c52N(0), ln: c52L{coef: 1, term: "wordlen(" + cz + ")"}}
	case "Bytes":
		obj := x.fresh("bytes")
		st.bytesOf[obj] = cz
		return c52V{k: 's', obj: obj, off: c52N(0), ln: c52L{coef: 1, term: "len(" + obj + ")"}}
	case "FillBytes":
		if len(args) == 2 && args[1].k == 's' {
			if b := st.bufs[args[1].obj]; b != nil {
				b.writes = append(b.writes, c52Write{at: at, off: args[1].off, ln: st.concretize(args[1].ln), src: cz, aligned: true})
			}
			return args[1]
		}
		return x.unknownOf(at.Type())
	}
	if c52BigPure[meth] {
		return x.unknownOf(at.Type())
	}
	// mutators: the receiver's content changes
	switch meth {
	case "SetBytes":
		d := c52Decode{at: at, obj: z}
		term := x.fresh("opaque")
		if len(args) == 2 && args[1].k == 's' {
			off, ln := st.concretize(args[1].off), st.concretize(args[1].ln)
			if off.conc() && ln.conc() {
				term = fmt.Sprintf("bytes(%s,%d,%d)", args[1].obj+args[1].sub, off.n, ln.n)
				d.off, d.ln = off.n, ln.n
				d.fromM = true
			}
		}
		st.decodes = append(st.decodes, d)
		st.setContent(z, term)
	case "Set":
		st.setContent(z, argContent(1))
	case "SetInt64", "SetUint64":
		if len(args) == 2 && args[1].k == 'n' && st.concretize(args[1].l).conc() {
			st.setContent(z, fmt.Sprintf("const(%d)", st.concretize(args[1].l).n))
		} else {
			st.setContent(z, x.fresh("opaque"))
		}
	case "Mod":
		st.setContent(z, "mod("+argContent(1)+","+argContent(2)+")")
	default:
		st.setContent(z, x.fresh("opaque"))
	}
	if c52IsBigPtr(at.Type()) {
		return args[0]
	}
	return x.unknownOf(at.Type())
}

// bigLeaves: the big.Int objects reachable from pointer p (of static type t)
// through struct fields, with their paths.
type c52Leaf struct {
	path string
	obj  string
}

func (x *c52X) bigLeaves(st *c52St, p c52V, t types.Type, path string, depth int, out *[]c52Leaf) {
	pt, ok := t.Underlying().(*types.Pointer)
	if !ok || depth > 6 || p.k != 'p' || p.obj == "" {
		return
	}
	if c52IsBigInt(pt.Elem()) {
		*out = append(*out, c52Leaf{path: path, obj: p.obj + p.sub})
		return
	}
	s, ok := pt.Elem().Underlying().(*types.Struct)
	if !ok {
		return
	}
	for i := 0; i < s.NumFields(); i++ {
		f := s.Field(i)
		addr := c52V{k: 'p', obj: p.obj, sub: p.sub + "." + f.Name()}
		switch f.Type().Underlying().(type) {
		case *types.Pointer:
			x.bigLeaves(st, x.load(st, addr, f.Type()), f.Type(), path+"."+f.Name(), depth+1, out)
		case *types.Struct:
			x.bigLeaves(st, addr, types.NewPointer(f.Type()), path+"."+f.Name(), depth+1, out)
		}
	}
}

func (x *c52X) predCall(st *c52St, at *ssa.Call, callee *ssa.Function, args []c52V) c52V {
	seen := false
	for _, f := range x.predSeen {
		seen = seen || f == callee
	}
	if !seen {
		x.predSeen = append(x.predSeen, callee)
	}
	var leaves []c52Leaf
	x.bigLeaves(st, args[0], at.Call.Args[0].Type(), "", 0, &leaves)
	ev := c52OnCurve{at: at, typ: at.Call.Args[0].Type(), byRel: map[string]string{}}
	var parts []string
	for _, l := range leaves {
		c := st.content(l.obj)
		ev.byRel[l.path] = c
		parts = append(parts, l.path+"="+c)
	}
	sort.Strings(parts)
	ev.term = "oncurve(" + strings.Join(parts, ";") + ")"
	st.onc = append(st.onc, ev)
	return c52V{k: 'r', term: ev.term, op: token.EQL, n: 1}
}
