package main

import (
	"fmt"
	"go/types"
	"strings"

	"golang.org/x/tools/go/ssa"
)

// The API layer of internal/poly1305 (MAC.Write / Sum / Verify, New, and the
// package-level Sum / Verify / sumGeneric) is decided by INTERPRETATION, not
// by the shape of any one function: the entry point is walked with every
// helper of the package interpreted in place, down to four primitives that
// the rule models on symbolic contents —
//
//	initialize(key, st)      history(st) += "init(<contents of key>)"
//	(*mac|*macGeneric).Write history(recv) += "write(<contents of p>)", returns (len(p), nil)
//	(*mac|*macGeneric).Sum   contents(out) = "tag[" + history(recv) + "]"
//	subtle.ConstantTimeCompare / hmac.Equal
//	                         recorded with the contents of both operands; the
//	                         result is bound to 0 and to 1 in two runs
//
// plus append / copy / whole-array and whole-struct copies. What the entry
// point does is then read off the final memory: which history the tag that
// reaches the output (or the comparison) was computed from, what the result
// depends on, which fields of the MAC were written. How the code is split into
// functions, what locals and receivers are called, whether Verify goes through
// Sum or through MAC.Verify, whether the tag is moved by append or copy makes
// no difference to that reading.

const c04PkgSuffix = "internal/poly1305"

func c04Prim(callee *ssa.Function) string {
	if callee == nil {
		return ""
	}
	if recv := callee.Signature.Recv(); recv != nil {
		t := recv.Type()
		if p, ok := t.(*types.Pointer); ok {
			t = p.Elem()
		}
		n, ok := t.(*types.Named)
		if !ok || n.Obj().Pkg() == nil || !strings.HasSuffix(n.Obj().Pkg().Path(), c04PkgSuffix) {
			return ""
		}
		if tn := n.Obj().Name(); tn == "mac" || tn == "macGeneric" {
			switch callee.Name() {
			case "Write":
				return "write"
			case "Sum":
				return "sum"
			}
		}
		return ""
	}
	if callee.Pkg != nil && strings.HasSuffix(callee.Pkg.Pkg.Path(), c04PkgSuffix) && callee.Name() == "initialize" {
		return "init"
	}
	return ""
}

type c04Compare struct {
	kind string // "" = constant time
	a, b string
}

type c04Run struct {
	mem      *c04Mem
	w        *pathWalker
	end      string
	compares []c04Compare
	sums     int
}

// c04Interp walks f. roles names f's parameters (by index), lens gives the
// lengths of its slice parameters, preset prepares the memory of the receiver,
// cmp is the value every constant-time comparison yields in this run.
func c04Interp(f *ssa.Function, roles []string, lens map[int]int64, preset func(m *c04Mem), cmp int64, opts ...string) *c04Run {
	openInit := false // interpret initialize itself (key split) instead of modelling it
	for _, o := range opts {
		openInit = openInit || o == "openInit"
	}
	prim := func(callee *ssa.Function) string {
		k := c04Prim(callee)
		if k == "init" && openInit {
			return ""
		}
		return k
	}
	m := newC04Mem(f)
	run := &c04Run{mem: m}
	w := &pathWalker{env: newEnv(), lengths: true, maxSteps: 4000, assumeErrNil: true}
	run.w = w
	for i, p := range f.Params {
		if i < len(roles) {
			m.role[p] = roles[i]
		}
		if n, ok := lens[i]; ok {
			w.env.bind(p, n)
			m.full[m.name(p)] = n
		}
	}
	if preset != nil {
		preset(m)
	}
	m.install(w)
	w.inline = func(callee *ssa.Function) bool {
		return prim(callee) == "" && callee.Pkg != nil && callee.Pkg == f.Pkg
	}
	w.onCall = func(w *pathWalker, ci ssa.CallInstruction) string {
		cc := ci.Common()
		switch prim(cc.StaticCallee()) {
		case "init":
			k, isMAC := m.stateKey(w, cc.Args[1])
			if !isMAC {
				m.note("initialize on memory the model cannot name")
				return ""
			}
			m.hist[k] = append(m.histAt(k), "init("+m.desc(w, cc.Args[0])+")")
			return ""
		case "write":
			k, isMAC := m.stateKey(w, cc.Args[0])
			if !isMAC {
				m.note("Write on a MAC state the model cannot name")
				return ""
			}
			m.hist[k] = append(m.histAt(k), "write("+m.desc(w, cc.Args[1])+")")
			if v := callValue(ci); v != nil {
				L, ok := w.env.eval(cc.Args[1])
				if w.tuple == nil {
					w.tuple = map[ssa.Value][]optInt{}
				}
				w.tuple[v] = []optInt{{L, ok}, {0, true}}
			}
			return ""
		case "sum":
			k, isMAC := m.stateKey(w, cc.Args[0])
			o := m.ref(w, cc.Args[1])
			if !isMAC || !o.ok {
				m.note("Sum on memory the model cannot name")
				return ""
			}
			run.sums++
			ok := m.key(o)
			m.clear(ok)
			m.content[ok] = "tag[" + strings.Join(m.histAt(k), " ") + "]"
			return ""
		}
		switch n := calleeName(cc); n {
		case "crypto/subtle.ConstantTimeCompare", "crypto/hmac.Equal":
			run.compares = append(run.compares, c04Compare{"", m.desc(w, cc.Args[0]), m.desc(w, cc.Args[1])})
			if v := callValue(ci); v != nil {
				w.env.bind(v, cmp)
			}
			return ""
		case "bytes.Equal", "bytes.Compare", "slices.Equal", "reflect.DeepEqual":
			run.compares = append(run.compares, c04Compare{short(n), m.desc(w, cc.Args[0]), m.desc(w, cc.Args[1])})
			if v := callValue(ci); v != nil {
				delete(w.env.vals, v)
			}
			return ""
		}
		if m.modelBuiltin(w, ci) || m.modelBinary(w, ci) {
			return ""
		}
		if b, isB := cc.Value.(*ssa.Builtin); isB {
			switch b.Name() {
			case "len", "cap", "min", "max", "print", "println":
				return ""
			}
		}
		m.clobber(w, ci)
		return ""
	}
	run.end = w.walk(f.Blocks[0], nil)
	return run
}

// ret describes result i of the walked function.
func (r *c04Run) retVal(i int) ssa.Value {
	rt, ok := r.w.last.(*ssa.Return)
	if !ok || i >= len(rt.Results) {
		return nil
	}
	return rt.Results[i]
}

func (r *c04Run) problems() string {
	if r.end == "undecided" {
		return "the interpretation stopped: " + r.w.why
	}
	if len(r.mem.notes) > 0 {
		return strings.Join(r.mem.notes, "; ")
	}
	return ""
}

// storesOutside lists the stores into the object named obj other than to the
// field allowed.
func (r *c04Run) storesOutside(obj, allowed string) []string {
	var out []string
	for _, k := range r.mem.stores {
		if c04Under(k, obj) && c04LastField(k[len(obj):]) != allowed {
			out = append(out, k)
		}
	}
	return out
}

func c04SamePair(c c04Compare, x, y string) bool {
	return c.a == x && c.b == y || c.a == y && c.b == x
}

const c04S0 = "S0" // the history of the receiver when the method is entered

func c04Lifecycle(c *Ctx, pkg string) {
	recvPreset := func(f *ssa.Function, fin int64) func(m *c04Mem) {
		return func(m *c04Mem) {
			h := m.name(f.Params[0])
			p, _ := c04StatePath(f.Params[0].Type())
			m.hist[h+p] = []string{c04S0}
			m.scalar[h+".finalized"] = optInt{fin, true}
		}
	}
	// MAC.Write: panics exactly when finalised; otherwise absorbs p, once,
	// into the receiver's own state and returns (len(p), nil)
	if f := c.fn(pkg, "(*MAC).Write"); f != nil {
		bad := ""
		for _, fin := range []int64{0, 1} {
			r := c04Interp(f, []string{"h", "p"}, map[int]int64{1: 7}, recvPreset(f, fin), 0)
			sp, isMAC := c04StatePath(f.Params[0].Type())
			hist := strings.Join(r.mem.histAt("h"+sp), " ")
			switch {
			case !isMAC:
				bad = "the MAC type no longer embeds the poly1305 state"
			case r.problems() != "":
				bad = r.problems()
			case fin == 1 && (r.end != "panic" || hist != c04S0):
				bad = fmt.Sprintf("a finalised MAC: Write ends with %s, state history [%s] (must panic before touching the state)", r.end, hist)
			case fin == 0 && r.end != "return":
				bad = "a MAC that is not finalised: Write ends with " + r.end
			case fin == 0 && hist != c04S0+" write(p)":
				bad = fmt.Sprintf("a MAC that is not finalised: state history [%s], expected [%s write(p)]", hist, c04S0)
			case fin == 0 && len(r.storesOutside("h", "")) > 0:
				bad = "Write stores to " + strings.Join(r.storesOutside("h", ""), ", ")
			case fin == 0:
				n, ok := r.w.env.eval(r.retVal(0))
				e, eok := r.w.env.eval(r.retVal(1))
				if !ok || n != 7 || !(isNilConst(r.retVal(1)) || eok && e == 0) {
					bad = "Write does not return (len(p), nil) of the implementation's Write"
				}
			}
			if bad != "" {
				break
			}
		}
		c.check(bad == "", "C04.lifecycle", "(*MAC).Write", f, "panics exactly after Sum or Verify, otherwise hands p to the implementation once", bad)
	}
	// MAC.Sum: appends the tag of the current state to b, marks the MAC finalised
	if f := c.fn(pkg, "(*MAC).Sum"); f != nil {
		bad := ""
		for _, fin := range []int64{0, 1} {
			r := c04Interp(f, []string{"h", "b"}, map[int]int64{1: 3}, recvPreset(f, fin), 0)
			sp, _ := c04StatePath(f.Params[0].Type())
			hist := strings.Join(r.mem.histAt("h"+sp), " ")
			finAfter, finOK := r.mem.scalarAt("h.finalized")
			switch {
			case r.problems() != "":
				bad = r.problems()
			case r.end != "return":
				bad = "Sum ends with " + r.end
			case !finOK || finAfter != 1:
				bad = "(*MAC).Sum does not finalise the MAC"
			case hist != c04S0:
				bad = fmt.Sprintf("Sum changes the running state: history [%s]", hist)
			case len(r.storesOutside("h", "finalized")) > 0:
				bad = "Sum stores to " + strings.Join(r.storesOutside("h", "finalized"), ", ")
			case r.retVal(0) == nil || r.mem.desc(r.w, r.retVal(0)) != "cat(b,tag["+c04S0+"])":
				got := "nothing"
				if r.retVal(0) != nil {
					got = r.mem.desc(r.w, r.retVal(0))
				}
				bad = fmt.Sprintf("Sum returns %s, expected b followed by the tag of the current state", got)
			}
			if bad != "" {
				break
			}
		}
		c.check(bad == "", "C04.lifecycle", "(*MAC).Sum", f, "appends the tag of the current state to b and marks the MAC finalised", bad)
	}
	// MAC.Verify: the result is the constant-time comparison of expected with
	// the tag of the current state; marks the MAC finalised
	if f := c.fn(pkg, "(*MAC).Verify"); f != nil {
		badFin, badCmp := "", ""
		for _, cmp := range []int64{0, 1} {
			r := c04Interp(f, []string{"h", "expected"}, map[int]int64{1: 16}, recvPreset(f, 0), cmp)
			sp, _ := c04StatePath(f.Params[0].Type())
			hist := strings.Join(r.mem.histAt("h"+sp), " ")
			finAfter, finOK := r.mem.scalarAt("h.finalized")
			switch {
			case r.problems() != "":
				badFin = r.problems()
			case r.end != "return":
				badFin = "Verify ends with " + r.end
			case !finOK || finAfter != 1:
				badFin = "(*MAC).Verify does not finalise the MAC"
			case hist != c04S0:
				badFin = fmt.Sprintf("Verify changes the running state: history [%s]", hist)
			case len(r.storesOutside("h", "finalized")) > 0:
				badFin = "Verify stores to " + strings.Join(r.storesOutside("h", "finalized"), ", ")
			}
			if badFin == "" && badCmp == "" {
				badCmp = c04CompareVerdict(r, cmp, "expected", "tag["+c04S0+"]")
			}
		}
		c.check(badFin == "", "C04.lifecycle", "(*MAC).Verify", f, "computes the tag of the current state and marks the MAC finalised", badFin)
		if badFin == "" {
			c.check(badCmp == "", "C04.lifecycle", "(*MAC).Verify comparison", f, "constant-time comparison of the expected tag with the computed tag decides the result", "Verify does not return the constant-time comparison of the expected and the computed tag: "+badCmp)
		}
	}
	want := "tag[init(key) write(m)]"
	if f := c.fn(pkg, "Verify"); f != nil {
		bad := ""
		for _, cmp := range []int64{0, 1} {
			r := c04Interp(f, []string{"mac", "m", "key"}, map[int]int64{1: 37}, nil, cmp)
			switch {
			case r.problems() != "":
				bad = r.problems()
			case r.end != "return":
				bad = "Verify ends with " + r.end
			default:
				bad = c04CompareVerdict(r, cmp, "mac", want)
			}
			if bad != "" {
				break
			}
		}
		c.check(bad == "", "C04.lifecycle", "poly1305.Verify", f, "tag recomputed over (m, key) and compared in constant time", "the package-level Verify does not recompute the tag over the message and key and compare in constant time: "+bad)
	}
	for _, name := range []string{"Sum", "sumGeneric"} {
		f := c.fnOpt(pkg, name)
		if name == "Sum" {
			f = c.fn(pkg, name)
		}
		if f == nil || len(f.Params) != 3 {
			continue
		}
		r := c04Interp(f, []string{"out", "m", "key"}, map[int]int64{1: 37}, nil, 0)
		bad := ""
		switch {
		case r.problems() != "":
			bad = r.problems()
		case r.end != "return":
			bad = name + " ends with " + r.end
		case r.mem.contentAt("out") != want:
			bad = fmt.Sprintf("out receives %s, expected the tag of a fresh state after init(key) and write(m)", r.mem.contentAt("out"))
		}
		c.check(bad == "", "C04.lifecycle", "poly1305."+name, f, "a new state initialised from key absorbs m, its tag is stored into out", "the one-shot "+name+" is not New(key), Write(m), Sum into out: "+bad)
	}
}

// c04CompareVerdict: in this run every constant-time comparison yielded cmp;
// the function must return exactly that, and must have compared the two given
// contents (in either order) — and nothing else, and not by a comparison whose
// running time depends on the contents.
func c04CompareVerdict(r *c04Run, cmp int64, x, y string) string {
	if len(r.compares) == 0 {
		return "no comparison of the tag is made"
	}
	for _, cp := range r.compares {
		if cp.kind != "" {
			return "the tag is compared with " + cp.kind + ", which is not constant time"
		}
		if !c04SamePair(cp, x, y) {
			return fmt.Sprintf("compares %s with %s, expected %s with %s", cp.a, cp.b, x, y)
		}
	}
	v, ok := r.w.env.eval(r.retVal(0))
	if r.retVal(0) == nil || !ok || v != cmp {
		return "the result is not that of the constant-time comparison"
	}
	return ""
}
