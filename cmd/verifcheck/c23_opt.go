package main

import "fmt"

// Optional variants: an element is read when the input starts with the given
// identifier octet, otherwise the input is left alone and the default is
// returned. Decided like the other readers: the entry point is evaluated on
// concrete inputs and the outcome compared with the specification below.
func c23Optional(c *Ctx) {
	const tag = 0xa3 // [3] constructed, context-specific
	octet := c23tlv(0x04, []byte{0x11, 0x22, 0x33})
	type in struct {
		b    []byte
		what string
	}
	inputs := []in{
		{nil, "empty input"},
		{[]byte{0x30, 0x00}, "another element"},
		{[]byte{0x83, 0x00}, "same tag number, other class/constructed bits"},
		{c23tlv(tag, octet, 0x5a), "the element, wrapping an OCTET STRING"},
		{c23tlv(tag, c23tlv(0x04, nil), 0x5a), "the element, wrapping an empty OCTET STRING"},
		{c23tlv(tag, append(append([]byte(nil), octet...), 0x05, 0x00), 0x5a), "the element, with a second element after the OCTET STRING"},
		{c23tlv(tag, c23tlv(0x01, []byte{0xff}), 0x5a), "the element, wrapping a BOOLEAN true"},
		{c23tlv(tag, c23tlv(0x01, []byte{0x00}), 0x5a), "the element, wrapping a BOOLEAN false"},
		{c23tlv(tag, c23tlv(0x01, []byte{0x01}), 0x5a), "the element, wrapping a BOOLEAN 01"},
		{c23tlv(tag, nil, 0x5a), "the element, empty"},
		{[]byte{tag, 0x05, 0x04, 0x01}, "the element, truncated"},
		{[]byte{tag, 0x81, 0x03, 0x04, 0x01, 0x11}, "the element, long-form length below 128"},
		{[]byte{tag}, "identifier octet only"},
	}
	// specification helpers over the explicit octets
	outer := func(b []byte) (present, ok bool, content []byte, size int) {
		if len(b) == 0 || b[0] != tag {
			return false, true, nil, 0
		}
		good, hdr, L, _ := c23hdrSpec(b, int64(len(b)))
		if !good {
			return true, false, nil, 0
		}
		return true, true, b[hdr : hdr+L], int(hdr + L)
	}
	inner := func(ct []byte, want byte) (ok bool, body []byte, whole bool) {
		if len(ct) == 0 || ct[0] != want {
			return false, nil, false
		}
		good, hdr, L, _ := c23hdrSpec(ct, int64(len(ct)))
		if !good {
			return false, nil, false
		}
		return true, ct[hdr : hdr+L], int(hdr+L) == len(ct)
	}
	for _, name := range []string{"(*String).ReadOptionalASN1", "(*String).SkipOptionalASN1", "(*String).ReadOptionalASN1OctetString", "(*String).ReadOptionalASN1Boolean"} {
		f := c.fn(c23pk, name)
		if f == nil {
			continue
		}
		bad := ""
		n := 0
		for _, x := range inputs {
			for _, def := range []bool{false, true} {
				if def && name != "(*String).ReadOptionalASN1Boolean" {
					continue
				}
				present, okOuter, content, size := outer(x.b)
				want, wantRest := okOuter, len(x.b)-size
				var check func(r *c23call) string
				switch name {
				case "(*String).ReadOptionalASN1":
					check = func(r *c23call) string {
						if p, isB := r.outs[1].v.(bool); !isB || p != present {
							return fmt.Sprintf("presence reported as %v", r.outs[1].v)
						}
						if present {
							if _, ln, ok := r.outSlice(0); !ok || ln != int64(len(content)) {
								return "the output is not the element's content"
							}
						}
						return ""
					}
				case "(*String).SkipOptionalASN1":
					check = func(r *c23call) string { return "" }
				case "(*String).ReadOptionalASN1OctetString":
					var body []byte
					if present && okOuter {
						okIn, b, whole := inner(content, 0x04)
						want, body = okIn && whole, b
					}
					check = func(r *c23call) string {
						if p, isB := r.outs[1].v.(bool); !isB || p != present {
							return fmt.Sprintf("presence reported as %v", r.outs[1].v)
						}
						sl, isS := r.outs[0].v.(c23slice)
						if !isS || sl.len != int64(len(body)) || (!present && sl.m != nil) {
							return "the output is not the OCTET STRING's content (nil when absent)"
						}
						return ""
					}
				case "(*String).ReadOptionalASN1Boolean":
					val := def
					if present && okOuter {
						okIn, b, whole := inner(content, 0x01)
						if !whole && okIn {
							continue // data after the BOOLEAN inside the wrapper: not specified here
						}
						want = okIn && len(b) == 1 && (b[0] == 0x00 || b[0] == 0xff)
						if want {
							val = b[0] == 0xff
						}
					}
					check = func(r *c23call) string {
						if v, isB := r.outs[0].v.(bool); !isB || v != val {
							return fmt.Sprintf("value %v returned, %v expected (default %v)", r.outs[0].v, val, def)
						}
						return ""
					}
				}
				r := c23invoke(f, c23input(x.b, int64(len(x.b)), 0), []c23val{nil, nil}, tag, def)
				if name == "(*String).ReadOptionalASN1Boolean" {
					r = c23invoke(f, c23input(x.b, int64(len(x.b)), 0), []c23val{!def}, tag, def)
				}
				n++
				desc := fmt.Sprintf("input %s (%s), optional tag %#02x", c23hex(x.b), x.what, tag)
				got, dec := r.ok()
				switch {
				case !dec:
					bad = desc + ": " + r.failure()
				case got != want:
					bad = fmt.Sprintf("%s: result %v, expected %v (element present=%v)", desc, got, want, present)
				case got:
					if msg := check(r); msg != "" {
						bad = desc + ": " + msg
					} else if _, rl, ok := r.rest(); !ok || rl != int64(wantRest) {
						bad = fmt.Sprintf("%s: %d octets remain, %d expected (an absent element consumes nothing)", desc, rl, wantRest)
					}
				}
				if bad != "" {
					break
				}
			}
			if bad != "" {
				break
			}
		}
		c.check(bad == "", "C23.optional", name, f, fmt.Sprintf("absent: default and nothing consumed; present: the element must be a DER element with the expected content (%d inputs)", n), bad)
	}
}
