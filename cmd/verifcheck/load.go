package main

import (
	"fmt"
	"go/ast"
	"go/token"
	"go/types"
	"os"
	"path/filepath"
	"sort"
	"strings"

	"golang.org/x/tools/go/callgraph"
	"golang.org/x/tools/go/packages"
	"golang.org/x/tools/go/ssa"
	"golang.org/x/tools/go/ssa/ssautil"
)

const modPath = "golang.org/x/crypto"

type loaded struct {
	root    string
	fset    *token.FileSet
	pkgs    []*packages.Package
	byPath  map[string]*packages.Package
	prog    *ssa.Program
	ssaPkgs map[string]*ssa.Package
	nfuncs  int
	allFns  map[*ssa.Function]bool
	cg      *callgraph.Graph
}

func goEnv(extra []string) []string {
	// go/packages resolves the "go" binary through this process's PATH.
	if !strings.HasPrefix(os.Getenv("PATH"), "/opt/veriftools/go1.26.8/bin:") {
		os.Setenv("PATH", "/opt/veriftools/go1.26.8/bin:"+os.Getenv("PATH"))
	}
	env := []string{}
	for _, e := range os.Environ() {
		if strings.HasPrefix(e, "GOWORK=") || strings.HasPrefix(e, "GOFLAGS=") || strings.HasPrefix(e, "GOTOOLCHAIN=") ||
			strings.HasPrefix(e, "GOPROXY=") || strings.HasPrefix(e, "GOSUMDB=") || strings.HasPrefix(e, "PATH=") ||
			strings.HasPrefix(e, "GOOS=") || strings.HasPrefix(e, "GOARCH=") {
			continue
		}
		env = append(env, e)
	}
	env = append(env,
		"GOWORK=off", "GOFLAGS=-mod=mod", "GOTOOLCHAIN=local", "GOPROXY=off", "GOSUMDB=off",
		"PATH="+os.Getenv("PATH"))
	env = append(env, extra...)
	return env
}

// loadRepo loads every package of the module at root (AST, types, SSA).
func loadRepo(root string, extraEnv []string) (*loaded, error) {
	fset := token.NewFileSet()
	cfg := &packages.Config{
		Mode:  packages.LoadAllSyntax,
		Dir:   root,
		Fset:  fset,
		Env:   goEnv(extraEnv),
		Tests: false,
	}
	pkgs, err := packages.Load(cfg, "./...")
	if err != nil {
		return nil, err
	}
	var own []*packages.Package
	var errs []string
	packages.Visit(pkgs, nil, func(p *packages.Package) {
		if strings.HasPrefix(p.PkgPath, modPath) {
			for _, e := range p.Errors {
				errs = append(errs, e.Error())
			}
		}
	})
	for _, p := range pkgs {
		if strings.HasPrefix(p.PkgPath, modPath) {
			own = append(own, p)
		}
	}
	if len(errs) > 0 {
		return nil, fmt.Errorf("type/load errors: %s", strings.Join(errs, "; "))
	}
	if len(own) < 50 {
		return nil, fmt.Errorf("only %d module packages loaded (expected >= 50)", len(own))
	}
	sort.Slice(own, func(i, j int) bool { return own[i].PkgPath < own[j].PkgPath })
	prog, ssaPkgs := ssautil.AllPackages(pkgs, ssa.InstantiateGenerics)
	prog.Build()
	ld := &loaded{root: root, fset: fset, pkgs: own, byPath: map[string]*packages.Package{}, prog: prog, ssaPkgs: map[string]*ssa.Package{}}
	for i, p := range pkgs {
		if ssaPkgs[i] != nil {
			ld.ssaPkgs[p.PkgPath] = ssaPkgs[i]
		}
	}
	for _, p := range own {
		ld.byPath[p.PkgPath] = p
	}
	ld.allFns = ssautil.AllFunctions(prog)
	ld.nfuncs = len(ld.allFns)
	return ld, nil
}

// ---------------------------------------------------------------------------

type Oblig struct {
	Rule      string `json:"rule"`
	Construct string `json:"construct"`
	Pos       string `json:"pos,omitempty"`
	Verdict   string `json:"verdict"`
	Detail    string `json:"detail,omitempty"`
}

type Ctx struct {
	ld        *loaded
	prop      string
	tier      string
	repo      string
	verif     string
	known     []knownEntry
	obligs    []*Oblig
	funcsSeen map[string]bool
	cfg       string // "" = default build configuration; else the name of the extra configuration (thorough tier)
	callerIdx map[*ssa.Function][]ssa.CallInstruction
}

func (c *Ctx) thorough() bool { return c.tier == "thorough" }

func (c *Ctx) posStr(p token.Pos) string {
	if !p.IsValid() {
		return ""
	}
	ps := c.ld.fset.Position(p)
	rel, err := filepath.Rel(c.ld.root, ps.Filename)
	if err != nil {
		rel = ps.Filename
	}
	return fmt.Sprintf("%s:%d", rel, ps.Line)
}

type poser interface{ Pos() token.Pos }

func (c *Ctx) add(verdict, rule, construct string, at poser, detail string) {
	o := &Oblig{Rule: rule, Construct: construct, Verdict: verdict, Detail: detail}
	if at != nil {
		if p := safePos(at); p.IsValid() {
			o.Pos = c.posStr(p)
		}
	}
	if verdict == "violated" || verdict == "undecided" {
		for _, k := range c.known {
			if k.Property == c.prop && k.Rule == rule && k.Construct == construct {
				o.Verdict = "known-finding"
				o.Detail = k.What + " — " + detail
			}
		}
	}
	c.obligs = append(c.obligs, o)
}

func safePos(at poser) (p token.Pos) {
	defer func() {
		if recover() != nil {
			p = token.NoPos
		}
	}()
	return at.Pos()
}

func (c *Ctx) ok(rule, construct string, at poser, detail string) {
	c.add("discharged", rule, construct, at, detail)
}
func (c *Ctx) fail(rule, construct string, at poser, detail string) {
	c.add("violated", rule, construct, at, detail)
}
func (c *Ctx) undecided(rule, construct string, at poser, detail string) {
	c.add("undecided", rule, construct, at, detail)
}

// check records a discharged or violated obligation.
func (c *Ctx) check(cond bool, rule, construct string, at poser, okDetail, failDetail string) bool {
	if cond {
		c.ok(rule, construct, at, okDetail)
	} else {
		c.fail(rule, construct, at, failDetail)
	}
	return cond
}

// ---------------------------------------------------------------------------
// lookups

func (c *Ctx) pkg(path string) *packages.Package {
	p := c.ld.byPath[modPath+"/"+path]
	if path == "" {
		p = c.ld.byPath[modPath]
	}
	return p
}

func (c *Ctx) ssaPkg(path string) *ssa.Package {
	full := modPath + "/" + path
	return c.ld.ssaPkgs[full]
}

// fn finds a function or method by package-relative path and name. Names:
// "Func", "(*T).Method", "(T).Method". Returns nil and records an
// unresolved-anchor violation if absent.
func (c *Ctx) fn(pkgPath, name string) *ssa.Function {
	f := c.fnOpt(pkgPath, name)
	if f == nil {
		c.fail("anchor", pkgPath+"."+name, nil, "function not found in the current tree; the rule cannot be evaluated")
		return nil
	}
	if c.funcsSeen == nil {
		c.funcsSeen = map[string]bool{}
	}
	c.funcsSeen[pkgPath+"."+name] = true
	return f
}

func (c *Ctx) fnOpt(pkgPath, name string) *ssa.Function {
	sp := c.ssaPkg(pkgPath)
	if sp == nil {
		return nil
	}
	if strings.HasPrefix(name, "(") {
		i := strings.Index(name, ").")
		if i < 0 {
			return nil
		}
		recv := name[1:i]
		meth := name[i+2:]
		ptr := strings.HasPrefix(recv, "*")
		recv = strings.TrimPrefix(recv, "*")
		tn, _ := sp.Pkg.Scope().Lookup(recv).(*types.TypeName)
		if tn == nil {
			return nil
		}
		var T types.Type = tn.Type()
		if ptr {
			T = types.NewPointer(T)
		}
		sel := c.ld.prog.MethodSets.MethodSet(T).Lookup(sp.Pkg, meth)
		if sel == nil {
			return nil
		}
		f := c.ld.prog.MethodValue(sel)
		if f == nil || f.Synthetic != "" && len(f.Blocks) == 0 {
			return f
		}
		return f
	}
	return sp.Func(name)
}

// namedType returns the named type pkg.name.
func (c *Ctx) namedType(pkgPath, name string) *types.Named {
	sp := c.ssaPkg(pkgPath)
	if sp == nil {
		c.fail("anchor", pkgPath+"."+name, nil, "package not found")
		return nil
	}
	tn, _ := sp.Pkg.Scope().Lookup(name).(*types.TypeName)
	if tn == nil {
		c.fail("anchor", pkgPath+"."+name, nil, "type not found")
		return nil
	}
	n, _ := tn.Type().(*types.Named)
	return n
}

// funcsOfPkg returns all source functions (incl. methods and closures) of a package.
func (c *Ctx) funcsOfPkg(pkgPath string) []*ssa.Function {
	sp := c.ssaPkg(pkgPath)
	if sp == nil {
		return nil
	}
	var out []*ssa.Function
	for f := range c.ld.allFns {
		if f.Pkg == sp && f.Synthetic == "" {
			out = append(out, f)
		} else if f.Pkg == sp && f.Parent() != nil {
			out = append(out, f)
		}
	}
	sort.Slice(out, func(i, j int) bool { return out[i].Pos() < out[j].Pos() })
	return out
}

// fnName is a stable printable name.
func fnName(f *ssa.Function) string {
	if f == nil {
		return "<nil>"
	}
	s := f.RelString(f.Pkg.Pkg)
	return s
}

// astFile returns the parsed file with the given module-relative path.
func (c *Ctx) astFile(rel string) *ast.File {
	for _, p := range c.ld.pkgs {
		for i, f := range p.CompiledGoFiles {
			if strings.HasSuffix(f, "/"+rel) && i < len(p.Syntax) {
				return p.Syntax[i]
			}
		}
	}
	return nil
}
