package main

import (
	"fmt"
	"go/token"
	"go/types"
	"sort"
	"strings"

	"golang.org/x/tools/go/ssa"
)

// Factoring-independent machinery for C33.
//
//   c33Walker   iteration-local exploration of serverAuthenticate with the
//               same-package helpers expanded in place (like deepReachFrom), that
//               additionally carries a mode bit ("armed": an event has happened
//               and its obligation is still open) and what is known about the
//               results of helpers that returned while armed, so that the
//               caller's test of a helper's fatal error is folded;
//   c33Resolve  context-sensitive provenance: a helper parameter is the argument
//               of the call the helper was entered from (any number of call
//               sites);
//   c33SAFacts  "checkSourceAddressCriticalOption(RemoteAddr(), P) returned nil"
//               lifted through helpers that return the verdict.

// ---------------------------------------------------------------------------
// frames and knowledge

type c33Frame struct {
	parent *c33Frame
	call   *ssa.Call
	fn     *ssa.Function
	depth  int
	k      string
}

func (f *c33Frame) active(g *ssa.Function) bool {
	for x := f; x != nil; x = x.parent {
		if x.fn == g {
			return true
		}
	}
	return false
}

func (f *c33Frame) root() bool { return f.call == nil }

func c33ParamIdx(p *ssa.Parameter) int {
	if f := p.Parent(); f != nil {
		for i, q := range f.Params {
			if q == p {
				return i
			}
		}
	}
	return -1
}

// c33Resolve follows helper parameters (and identity conversions) to the
// arguments of the calls through which the frames were entered.
func c33Resolve(fr *c33Frame, v ssa.Value) (ssa.Value, *c33Frame) {
	for i := 0; i < 12 && v != nil; i++ {
		switch x := v.(type) {
		case *ssa.ChangeType:
			v = x.X
			continue
		case *ssa.Parameter:
			if fr == nil || fr.call == nil || x.Parent() != fr.fn || fr.call.Call.IsInvoke() {
				return v, fr
			}
			idx := c33ParamIdx(x)
			if idx < 0 || idx >= len(fr.call.Call.Args) {
				return v, fr
			}
			v, fr = fr.call.Call.Args[idx], fr.parent
			continue
		}
		break
	}
	return v, fr
}

// c33Know: persistent list of facts "value v is nil/false (0) or non-nil/true (1)".
type c33Know struct {
	parent *c33Know
	v      ssa.Value
	val    int
	k      string
}

func (k *c33Know) key() string {
	if k == nil {
		return ""
	}
	return k.k
}

func (k *c33Know) get(v ssa.Value) (int, bool) {
	for x := k; x != nil; x = x.parent {
		if x.v == v {
			return x.val, true
		}
	}
	return 0, false
}

func (k *c33Know) with(v ssa.Value, val int) *c33Know {
	if old, ok := k.get(v); ok && old == val {
		return k
	}
	// canonical key: sorted set of facts
	parts := []string{fmt.Sprintf("%p=%d", v, val)}
	for x := k; x != nil; x = x.parent {
		if x.v != v {
			parts = append(parts, fmt.Sprintf("%p=%d", x.v, x.val))
		}
	}
	sort.Strings(parts)
	return &c33Know{parent: k, v: v, val: val, k: strings.Join(parts, ",")}
}

// c33Known: what is known about value v at block 'at' of its function.
func c33Known(v ssa.Value, at *ssa.BasicBlock, know *c33Know) (int, bool) {
	if n, ok := know.get(v); ok {
		return n, true
	}
	if b, ok := constBool(v); ok {
		if b {
			return 1, true
		}
		return 0, true
	}
	if isNilConst(v) {
		return 0, true
	}
	switch v.Type().Underlying().(type) {
	case *types.Interface, *types.Pointer:
		if errNilness(v, at, 0) == neverNil {
			return 1, true
		}
	}
	return 0, false
}

// c33Cond folds a branch condition under the knowledge.
func c33Cond(cond ssa.Value, know *c33Know) (bool, bool) {
	if know == nil {
		return false, false
	}
	switch x := cond.(type) {
	case *ssa.UnOp:
		if x.Op == token.NOT {
			b, ok := c33Cond(x.X, know)
			return !b, ok
		}
	case *ssa.BinOp:
		if x.Op != token.EQL && x.Op != token.NEQ {
			return false, false
		}
		var other ssa.Value
		switch {
		case isNilConst(x.Y):
			other = x.X
		case isNilConst(x.X):
			other = x.Y
		default:
			return false, false
		}
		if n, ok := know.get(other); ok {
			return (n == 0) == (x.Op == token.EQL), true
		}
		return false, false
	}
	if n, ok := know.get(cond); ok {
		return n != 0, true
	}
	return false, false
}

// ---------------------------------------------------------------------------
// the walker

type c33Walker struct {
	s     *saCtx
	start *ssa.BasicBlock
	cut   edgeSet
	// arm: executing this instruction opens the obligation
	arm func(fr *c33Frame, in ssa.Instruction) bool
	// disarm: executing this instruction (a call is NOT expanded) closes it
	disarm func(fr *c33Frame, in ssa.Instruction) bool
	// target: reaching this instruction while the obligation is open is a violation
	target func(fr *c33Frame, in ssa.Instruction) string
	// backIsTarget: taking a back edge of the request loop while armed is a violation
	backIsTarget bool

	found ssa.Instruction
	what  string
	armed int // number of times the arming event was met
}

type c33Pos struct {
	fr    string
	b     *ssa.BasicBlock
	i     int
	armed bool
	know  string
}

func (w *c33Walker) run() {
	seen := map[c33Pos]bool{}
	type cont func(r *ssa.Return, armed bool, know *c33Know)
	var run func(fr *c33Frame, b *ssa.BasicBlock, i int, armed bool, know *c33Know, onReturn cont)
	run = func(fr *c33Frame, b *ssa.BasicBlock, i int, armed bool, know *c33Know, onReturn cont) {
		if w.found != nil {
			return
		}
		p := c33Pos{fr.k, b, i, armed, know.key()}
		if seen[p] {
			return
		}
		seen[p] = true
		for ; i < len(b.Instrs); i++ {
			in := b.Instrs[i]
			if armed {
				if what := w.target(fr, in); what != "" {
					w.found, w.what = in, what
					return
				}
				if w.disarm(fr, in) {
					armed = false
					continue
				}
			} else if w.arm(fr, in) {
				w.armed++
				armed = true
				continue
			}
			if call, ok := in.(*ssa.Call); ok {
				if g := samePkgCallee(w.s.fn, &call.Call); g != nil && fr.depth < deepDepth && !fr.active(g) {
					sub := &c33Frame{parent: fr, call: call, fn: g, depth: fr.depth + 1, k: fr.k + fmt.Sprintf("%p/", call)}
					next := i + 1
					run(sub, g.Blocks[0], 0, armed, know, func(r *ssa.Return, armed2 bool, know2 *c33Know) {
						// the continuation depends only on the frame and on the
						// state at the return, so memoisation stays consistent
						k := know2
						if armed2 {
							// what this return tells the caller about the call's results
							for j := range r.Results {
								if n, ok := c33Known(retVal(r, j), r.Block(), know2); ok {
									for _, rv := range resultN(call, j) {
										k = k.with(rv, n)
									}
								}
							}
						}
						run(fr, b, next, armed2, k, onReturn)
					})
					return
				}
			}
			switch x := in.(type) {
			case *ssa.Return:
				if onReturn != nil {
					onReturn(x, armed, know)
				}
				return
			case *ssa.Panic:
				return
			}
		}
		var folded, foldedOK bool
		if iff, ok := b.Instrs[len(b.Instrs)-1].(*ssa.If); ok && armed {
			folded, foldedOK = c33Cond(iff.Cond, know)
		}
		for k, sb := range b.Succs {
			if foldedOK && (k == 0) != folded {
				continue
			}
			e := edge{b, k}
			if armed && w.backIsTarget && fr.root() && w.s.back[e] {
				w.found, w.what = b.Instrs[len(b.Instrs)-1], "a continue of the loop"
				return
			}
			if w.cut[e] {
				continue
			}
			run(fr, sb, 0, armed, know, onReturn)
		}
	}
	run(&c33Frame{fn: w.s.fn}, w.start, 0, false, nil, nil)
}

// ---------------------------------------------------------------------------
// roles

// c33PKCall: a dynamic call of the PublicKeyCallback of a ServerAuthCallbacks
// set, in fn or a helper (the called value followed to the field it was read from).
func c33PKCall(fr *c33Frame, in ssa.Instruction) bool {
	call, ok := in.(*ssa.Call)
	if !ok || call.Call.IsInvoke() || call.Call.StaticCallee() != nil {
		return false
	}
	v, _ := c33Resolve(fr, call.Call.Value)
	o, f, _, ok := fieldOf(v)
	return ok && o == "ServerAuthCallbacks" && f == "PublicKeyCallback"
}

// c33EntrySliceField: t is a slice of cache entries.
func c33EntrySlice(t types.Type) bool {
	sl, ok := t.Underlying().(*types.Slice)
	if !ok {
		return false
	}
	if _, isPtr := sl.Elem().Underlying().(*types.Pointer); isPtr {
		return false
	}
	_, ok = c32EntryOf(sl.Elem())
	return ok
}

// c33StoresEntries: in is a store into a []entry field of a struct (the cache's backing slice).
func c33StoresEntries(in ssa.Instruction) bool {
	st, ok := in.(*ssa.Store)
	if !ok {
		return false
	}
	fa, ok := st.Addr.(*ssa.FieldAddr)
	if !ok {
		return false
	}
	sd := derefStruct(fa.X.Type())
	return sd != nil && c33EntrySlice(sd.Field(fa.Field).Type())
}

// c33AddFn: h records a cache entry: it has no results, takes an entry by
// value and stores into a []entry field. Returns the index of the entry parameter.
func c33AddFn(h *ssa.Function) (int, bool) {
	if h == nil || len(h.Blocks) == 0 || h.Signature.Results().Len() != 0 {
		return 0, false
	}
	idx := -1
	for i, p := range h.Params {
		if _, isPtr := p.Type().Underlying().(*types.Pointer); isPtr {
			continue
		}
		if _, ok := c32EntryOf(p.Type()); ok {
			idx = i
		}
	}
	if idx < 0 {
		return 0, false
	}
	stores := false
	allInstrs(h, func(in ssa.Instruction) {
		if c33StoresEntries(in) {
			stores = true
		}
	})
	return idx, stores
}

// c33AddEvent: executing in records a decision in the cache: a call of an add
// function, or an append stored directly into the cache's backing slice.
// Returns the entry value recorded (nil if not identifiable).
func c33AddEvent(in ssa.Instruction) (ssa.Value, bool) {
	switch x := in.(type) {
	case *ssa.Call:
		if h := x.Call.StaticCallee(); h != nil {
			if idx, ok := c33AddFn(h); ok && idx < len(x.Call.Args) {
				return x.Call.Args[idx], true
			}
		}
	case *ssa.Store:
		if !c33StoresEntries(x) {
			return nil, false
		}
		if _, ok := c33AddFn(x.Parent()); ok {
			return nil, false // the body of an add function is covered by its call
		}
		if call, ok := x.Val.(*ssa.Call); ok && calleeName(&call.Call) == "builtin:append" {
			return nil, true
		}
	}
	return nil, false
}

// c33PKAllocs: the entry allocs (in fn or a helper) that receive the results
// of the PublicKeyCallback invocations, and those invocations.
func (s *saCtx) c33PKCalls() (callsOut []*ssa.Call, allocs map[*ssa.Alloc]bool) {
	allocs = map[*ssa.Alloc]bool{}
	for _, g := range s.deep {
		allInstrs(g, func(in ssa.Instruction) {
			call, ok := in.(*ssa.Call)
			if !ok || call.Call.IsInvoke() || call.Call.StaticCallee() != nil {
				return
			}
			if !s.c33IsPKValue(call.Call.Value, 0) {
				return
			}
			callsOut = append(callsOut, call)
			for _, r := range *call.Referrers() {
				ex, ok := r.(*ssa.Extract)
				if !ok {
					continue
				}
				for _, rr := range *ex.Referrers() {
					st, ok := rr.(*ssa.Store)
					if !ok || st.Val != ssa.Value(ex) {
						continue
					}
					if fa, ok := st.Addr.(*ssa.FieldAddr); ok {
						if _, isE := c32EntryOf(fa.X.Type()); isE {
							if al, ok := fa.X.(*ssa.Alloc); ok {
								allocs[al] = true
							}
						}
					}
				}
			}
		})
	}
	return
}

// c33IsPKValue: v is the PublicKeyCallback field of a ServerAuthCallbacks set,
// or a helper parameter that is bound to it at every call site of the helper.
func (s *saCtx) c33IsPKValue(v ssa.Value, depth int) bool {
	if o, f, _, ok := fieldOf(v); ok && o == "ServerAuthCallbacks" && f == "PublicKeyCallback" {
		return true
	}
	p, ok := v.(*ssa.Parameter)
	if !ok || p.Parent() == s.fn || depth > deepDepth {
		return false
	}
	k := c33ParamIdx(p)
	sites := s.callSitesOf(p.Parent())
	for _, cs := range sites {
		if k < 0 || k >= len(cs.Call.Args) || !s.c33IsPKValue(cs.Call.Args[k], depth+1) {
			return false
		}
	}
	return len(sites) > 0
}

// c33Sources: the entry allocs whose content a (struct) value can be: through
// loads, whole-value stores, joins, helper parameters and helper results.
func (s *saCtx) c33Sources(v ssa.Value, depth int, out map[*ssa.Alloc]bool, seen map[ssa.Value]bool) {
	if v == nil || depth > 8 || seen[v] {
		return
	}
	seen[v] = true
	v = s.c.origin(v)
	switch x := v.(type) {
	case *ssa.UnOp:
		if x.Op != token.MUL {
			return
		}
		al, ok := s.c.origin(x.X).(*ssa.Alloc)
		if !ok {
			return
		}
		out[al] = true
		for _, r := range *al.Referrers() {
			if st, ok := r.(*ssa.Store); ok && st.Addr == ssa.Value(al) {
				s.c33Sources(st.Val, depth+1, out, seen)
			}
		}
	case *ssa.Phi:
		for _, e := range x.Edges {
			s.c33Sources(e, depth+1, out, seen)
		}
	case *ssa.Extract, *ssa.Call:
		if h, _, idx, ok := s.helperResult(v); ok {
			for _, r := range returnsOf(h) {
				s.c33Sources(retVal(r, idx), depth+1, out, seen)
			}
		}
	}
}

// c33IsSACheck: in is a call of the source-address check; returns its
// (address, permissions) arguments resolved in the frame.
func c33IsSACheck(fr *c33Frame, in ssa.Instruction) (addr, perms ssa.Value, ok bool) {
	call, isC := in.(*ssa.Call)
	if !isC || short(calleeName(&call.Call)) != "ssh.checkSourceAddressCriticalOption" || len(call.Call.Args) != 2 {
		return nil, nil, false
	}
	addr, _ = c33Resolve(fr, call.Call.Args[0])
	perms, _ = c33Resolve(fr, call.Call.Args[1])
	return addr, perms, true
}

func c33IsRemoteAddr(v ssa.Value) bool {
	call, ok := v.(*ssa.Call)
	return ok && strings.HasSuffix(calleeName(&call.Call), ".RemoteAddr")
}

// ---------------------------------------------------------------------------
// source-address verdicts lifted through helpers

type c33SAFact struct {
	call        *ssa.Call // the check, or a call of a helper that returns its verdict
	idx         int       // which result of call carries the verdict
	addr, perms ssa.Value // in terms of call.Parent()'s values
}

func (f c33SAFact) vals() []ssa.Value { return resultN(f.call, f.idx) }

func (f c33SAFact) pass() []edge {
	var out []edge
	for _, v := range f.vals() {
		y, _ := edgesWhere(v, isNil)
		out = append(out, y...)
	}
	return out
}

// c33SAFacts: every call, in fn or its helpers, whose result idx is nil only if
// checkSourceAddressCriticalOption(addr, perms) returned nil.
func (s *saCtx) c33SAFacts() []c33SAFact {
	var all []c33SAFact
	for _, g := range s.deep {
		allInstrs(g, func(in ssa.Instruction) {
			if call, ok := in.(*ssa.Call); ok && short(calleeName(&call.Call)) == "ssh.checkSourceAddressCriticalOption" && len(call.Call.Args) == 2 {
				all = append(all, c33SAFact{call: call, idx: 0, addr: call.Call.Args[0], perms: call.Call.Args[1]})
			}
		})
	}
	frontier := all
	for round := 0; round < deepDepth && len(frontier) > 0; round++ {
		var next []c33SAFact
		for _, f := range frontier {
			h := f.call.Parent()
			if h == s.fn {
				continue
			}
			vals := map[ssa.Value]bool{}
			for _, v := range f.vals() {
				vals[v] = true
			}
			res := h.Signature.Results()
			for idx := 0; idx < res.Len(); idx++ {
				if !c32IsError(res.At(idx).Type()) || !c32SuccessBehind(h, idx, isNil, f.pass(), vals) {
					continue
				}
				subst := func(v ssa.Value, cs *ssa.Call) ssa.Value {
					if p, ok := v.(*ssa.Parameter); ok && p.Parent() == h {
						if k := c33ParamIdx(p); k >= 0 && k < len(cs.Call.Args) {
							return cs.Call.Args[k]
						}
					}
					return v
				}
				for _, cs := range s.callSitesOf(h) {
					next = append(next, c33SAFact{call: cs, idx: idx, addr: subst(f.addr, cs), perms: subst(f.perms, cs)})
				}
			}
		}
		all = append(all, next...)
		frontier = next
	}
	return all
}

// ---------------------------------------------------------------------------
// the request read, wherever it lives

// c33ReadSite: the instruction of fn, inside the loop and dominating the accept
// test, through which the next request is read from the transport: a
// readPacket call or a call of a helper that (transitively) reads a packet.
func (s *saCtx) c33ReadSite() *ssa.Call {
	isRead := func(n string) bool { return strings.HasSuffix(n, ".readPacket") }
	var read *ssa.Call
	allInstrs(s.fn, func(in ssa.Instruction) {
		call, ok := in.(*ssa.Call)
		if !ok || !s.H.Dominates(call.Block()) || !call.Block().Dominates(s.A.Block()) {
			return
		}
		hit := isRead(calleeName(&call.Call))
		if g := samePkgCallee(s.fn, &call.Call); !hit && g != nil {
			for _, h := range deepFuncs(g) {
				if len(calls(h, isRead)) > 0 {
					hit = true
				}
			}
		}
		if hit && (read == nil || call.Block().Dominates(read.Block()) && call.Block() != read.Block()) {
			read = call
		}
	})
	return read
}

// c33HeaderInts: the integer loop-carried values of the request loop.
func (s *saCtx) c33HeaderInts() []*ssa.Phi {
	var out []*ssa.Phi
	for _, in := range s.H.Instrs {
		p, ok := in.(*ssa.Phi)
		if !ok {
			break
		}
		if b, ok := p.Type().Underlying().(*types.Basic); ok && b.Info()&types.IsInteger != 0 {
			out = append(out, p)
		}
	}
	return out
}

// c33IsMaxTries: v reads ServerConfig.MaxAuthTries.
func c33IsMaxTries(v ssa.Value) bool {
	switch v.(type) {
	case *ssa.UnOp, *ssa.Field:
		return isField(v, "ServerConfig", "MaxAuthTries")
	}
	return false
}
