package main

import (
	"fmt"
	"strings"

	"golang.org/x/tools/go/ssa"
)

func init() {
	register(&propDef{
		id: "C15", run: runC15, minOblig: 12,
		explanation: "Decides structural clauses of argon2 (not the block arithmetic). (dispatch) the assembly call sites (blamkaSSE4, mixBlocksSSE2, xorBlocksSSE2) are evaluated under every assignment of the cpu.X86 fields the package reads; a reachable call's instruction-set needs are implied by the assignment. (parameters) deriveKey is interpreted for time in {0,1,3}, threads in {0,1,2,3,4,16,255} and memory 0..70, 100, 1024, 65536: it panics exactly for time < 1 or threads < 1; otherwise H0 is computed from the REQUESTED memory value and the requested threads, and initBlocks / processBlocks / extractKey all receive m' = max(8*threads, 4*threads*floor(memory/(4*threads))) — RFC 9106 section 3.2 with the documented minimum. (H0) initHash absorbs, in this order, LE32(p) LE32(T) LE32(m) LE32(t) LE32(v) LE32(y) at offsets 0,4,..,20 of a 24-byte block, then LE32(len) and the bytes of password, salt, key and associated data, and v = 0x13; Key and IDKey pass mode 1 (Argon2i) and 2 (Argon2id), no secret and no associated data, and their arguments in order. (H') blake2bHash is interpreted for every output length 1..300: the trace of hash computations equals RFC 9106 section 3.3 — for T <= 64 one hash of size T over LE32(T)|input written to the output; otherwise r = ceil(T/32)-2 chained 64-byte hashes whose first 32 bytes are emitted consecutively, followed by a final hash of size T-32r over the last chaining value, written at offset 32r. NOT decided: the compression function G, indexing of reference blocks (indexAlpha/phi), the assembly bodies, and therefore any output value.",
		assumptions: []string{"blake2b (C05)", "mnemonic -> extension table of the E9 engine"},
	})
	tech("C15", "assembly mnemonic scan + exhaustive dispatch evaluation; finite-domain interpretation of the parameter handling and of the variable-length hash H' against the RFC 9106 trace; hash-input sequence extraction for H0")
}

func runC15(c *Ctx) {
	n := c.asmGuardCheck("C15.dispatch", "argon2")
	c.check(n < 0 || n >= 3, "C15.dispatch", "argon2 assembly call sites", nil, fmt.Sprintf("%d guarded call sites", n), "fewer assembly call sites than expected")
	c15Derive(c)
	c15InitHash(c)
	c15HPrime(c)
	for _, k := range []struct {
		fn   string
		mode int64
	}{{"Key", 1}, {"IDKey", 2}} {
		f := c.fn("argon2", k.fn)
		if f == nil {
			continue
		}
		cs := callsNamed(f, "argon2.deriveKey")
		ok := len(cs) == 1
		if ok {
			a := cs[0].Common().Args
			m, isK := constInt(a[0])
			ok = isK && m == k.mode && a[1] == ssa.Value(f.Params[0]) && a[2] == ssa.Value(f.Params[1]) && isNilConst(a[3]) && isNilConst(a[4]) &&
				a[5] == ssa.Value(f.Params[2]) && a[6] == ssa.Value(f.Params[3]) && a[7] == ssa.Value(f.Params[4]) && a[8] == ssa.Value(f.Params[5])
		}
		c.check(ok, "C15.params", "argon2."+k.fn, f, fmt.Sprintf("deriveKey(mode %d, password, salt, nil, nil, time, memory, threads, keyLen)", k.mode), "the exported function does not forward its arguments (or uses the wrong mode)")
	}
	v, _ := c.pkgConst("argon2", "Version")
	c.check(v == 0x13, "C15.params", "argon2.Version", nil, "version 0x13", "the version constant is not 0x13")
}

func c15Derive(c *Ctx) {
	f := c.fn("argon2", "deriveKey")
	if f == nil {
		return
	}
	timeP, memP, thrP := f.Params[5], f.Params[6], f.Params[7]
	mems := []int64{100, 1024, 65536}
	for m := int64(0); m <= 70; m++ {
		mems = append(mems, m)
	}
	cases, bad := 0, ""
	for _, t := range []int64{0, 1, 3} {
		for _, p := range []int64{0, 1, 2, 3, 4, 16, 255} {
			for _, m := range mems {
				w := &pathWalker{env: newEnv(), maxSteps: 2000, opaque: map[string]bool{"initHash": true, "initBlocks": true, "processBlocks": true, "extractKey": true}}
				w.env.bind(timeP, t)
				w.env.bind(memP, m)
				w.env.bind(thrP, p)
				got := map[string][2]int64{}
				w.onCall = func(w *pathWalker, ci ssa.CallInstruction) string {
					cc := ci.Common()
					ev := func(v ssa.Value) int64 {
						n, ok := w.env.eval(v)
						if !ok {
							return -1
						}
						return n
					}
					switch short(calleeName(cc)) {
					case "argon2.initHash":
						got["initHash"] = [2]int64{ev(cc.Args[5]), ev(cc.Args[6])}
					case "argon2.initBlocks":
						got["initBlocks"] = [2]int64{ev(cc.Args[1]), ev(cc.Args[2])}
					case "argon2.processBlocks":
						got["processBlocks"] = [2]int64{ev(cc.Args[2]), ev(cc.Args[3])}
					case "argon2.extractKey":
						got["extractKey"] = [2]int64{ev(cc.Args[1]), ev(cc.Args[2])}
					}
					return ""
				}
				end := w.walk(f.Blocks[0], nil)
				cases++
				id := fmt.Sprintf("time=%d memory=%d threads=%d", t, m, p)
				wantPanic := t < 1 || p < 1
				if end == "undecided" {
					bad = id + ": " + w.why
					break
				}
				if wantPanic != (end == "panic") {
					bad = fmt.Sprintf("%s: panics=%v", id, end == "panic")
					break
				}
				if wantPanic {
					continue
				}
				mp := m / (4 * p) * (4 * p)
				if mp < 8*p {
					mp = 8 * p
				}
				if got["initHash"] != [2]int64{m, p} {
					bad = fmt.Sprintf("%s: H0 absorbs memory=%d threads=%d, must absorb the requested values", id, got["initHash"][0], got["initHash"][1])
				}
				for _, fn := range []string{"initBlocks", "processBlocks", "extractKey"} {
					if got[fn] != [2]int64{mp, p} {
						bad = fmt.Sprintf("%s: %s works on %d blocks / %d lanes, expected m' = %d", id, fn, got[fn][0], got[fn][1], mp)
					}
				}
				if bad != "" {
					break
				}
			}
		}
	}
	c.check(bad == "" && cases > 500, "C15.params", "argon2.deriveKey", f, fmt.Sprintf("%d (time, memory, threads) cases: panics, H0 over the requested memory, m' = max(8p, 4p*floor(m/4p)) everywhere else", cases), bad)
}

func c15InitHash(c *Ctx) {
	f := c.fn("argon2", "initHash")
	if f == nil {
		return
	}
	name := func(v ssa.Value) string {
		v = stripConv(v)
		for i, p := range f.Params {
			if v == ssa.Value(p) {
				return p.Name()
			}
			_ = i
		}
		if cl, ok := v.(*ssa.Call); ok && calleeName(&cl.Call) == "builtin:len" {
			for _, p := range f.Params {
				if cl.Call.Args[0] == ssa.Value(p) {
					return "len(" + p.Name() + ")"
				}
			}
		}
		if k, ok := constInt(v); ok {
			return fmt.Sprintf("%#x", k)
		}
		return "?"
	}
	var seq []string
	pending := map[string]string{} // buffer region -> content description
	for _, b := range f.Blocks {
		for _, in := range b.Instrs {
			cl, ok := in.(*ssa.Call)
			if !ok {
				continue
			}
			n := short(calleeName(&cl.Call))
			switch {
			case strings.HasPrefix(n, "(encoding/binary.littleEndian).PutUint32"):
				if sl, isS := cl.Call.Args[1].(*ssa.Slice); isS {
					lo, hi := int64(0), int64(-1)
					if sl.Low != nil {
						lo, _ = constInt(sl.Low)
					}
					if sl.High != nil {
						hi, _ = constInt(sl.High)
					}
					al, _ := sl.X.(*ssa.Alloc)
					key := "?"
					if al != nil {
						key = al.Comment
					}
					if key == "params" {
						pending[fmt.Sprintf("params@%d", lo)] = name(cl.Call.Args[2])
						_ = hi
					} else {
						pending[key] = name(cl.Call.Args[2])
					}
				}
			case cl.Call.IsInvoke() && cl.Call.Method.Name() == "Write":
				a := cl.Call.Args[0]
				if sl, isS := a.(*ssa.Slice); isS {
					if al, isA := sl.X.(*ssa.Alloc); isA {
						if al.Comment == "params" {
							for off := 0; off < 24; off += 4 {
								seq = append(seq, "LE32("+pending[fmt.Sprintf("params@%d", off)]+")")
							}
						} else {
							seq = append(seq, "LE32("+pending[al.Comment]+")")
						}
						continue
					}
				}
				seq = append(seq, name(a))
			}
		}
	}
	want := "LE32(threads) LE32(keyLen) LE32(memory) LE32(time) LE32(0x13) LE32(mode) LE32(len(password)) password LE32(len(salt)) salt LE32(len(key)) key LE32(len(data)) data"
	got := strings.Join(seq, " ")
	c.check(got == want && len(f.Blocks) == 1, "C15.h0", "argon2.initHash input sequence", f, got, "H0 absorbs ["+got+"], RFC 9106 requires ["+want+"]")
	// 64-byte digest
	ok := len(callsNamed(f, "blake2b.New512")) == 1
	c.check(ok, "C15.h0", "argon2.initHash hash", f, "BLAKE2b-512", "H0 is not computed with BLAKE2b-512")
}

func c15HPrime(c *Ctx) {
	f := c.fn("argon2", "blake2bHash")
	if f == nil {
		return
	}
	outP, inP := f.Params[0], f.Params[1]
	bad := ""
	for T := int64(1); T <= 300 && bad == ""; T++ {
		w := &pathWalker{env: newEnv(), lengths: true, maxSteps: 20000, assumeErrNil: true}
		w.env.bind(outP, T)
		w.env.bind(inP, 72)
		outOff := map[ssa.Value]int64{outP: 0}
		w.onSlice = func(w *pathWalker, sl *ssa.Slice) {
			if base, ok := outOff[sl.X]; ok {
				lo := int64(0)
				if sl.Low != nil {
					lo, _ = w.env.eval(sl.Low)
				}
				outOff[sl] = base + lo
			}
		}
		w.onPhi = func(w *pathWalker, ph *ssa.Phi, in ssa.Value) {
			if off, ok := outOff[in]; ok {
				outOff[ph] = off
			} else {
				delete(outOff, ph)
			}
		}
		size := int64(-1)
		var inputs []string
		bufHolds := "" // what the local buffer holds: "LE32" or "V"
		var trace []string
		var le int64 = -1
		w.onCall = func(w *pathWalker, ci ssa.CallInstruction) string {
			cc := ci.Common()
			n := short(calleeName(cc))
			bufArg := func(v ssa.Value) (int64, bool) {
				sl, ok := v.(*ssa.Slice)
				if !ok {
					return 0, false
				}
				al, ok := sl.X.(*ssa.Alloc)
				if !ok || al.Comment != "buffer" {
					return 0, false
				}
				l, _ := w.env.eval(sl)
				return l, true
			}
			switch {
			case n == "blake2b.New":
				size, _ = w.env.eval(cc.Args[0])
				inputs = nil
			case n == "blake2b.New512":
				size = 64
				inputs = nil
			case strings.HasPrefix(n, "(encoding/binary.littleEndian).PutUint32"):
				if _, ok := bufArg(cc.Args[1]); ok {
					le, _ = w.env.eval(cc.Args[2])
					bufHolds = "LE32"
				}
			case cc.IsInvoke() && cc.Method.Name() == "Write":
				if l, ok := bufArg(cc.Args[0]); ok {
					if bufHolds == "LE32" && l == 4 {
						inputs = append(inputs, fmt.Sprintf("LE32(%d)", le))
					} else if bufHolds == "V" && l == 64 {
						inputs = append(inputs, "V")
					} else {
						inputs = append(inputs, fmt.Sprintf("buffer[%d]?", l))
					}
				} else if cc.Args[0] == ssa.Value(inP) {
					inputs = append(inputs, "A")
				} else {
					inputs = append(inputs, "?")
				}
			case cc.IsInvoke() && cc.Method.Name() == "Reset":
				inputs = nil
			case cc.IsInvoke() && cc.Method.Name() == "Sum":
				dest := "?"
				if _, ok := bufArg(cc.Args[0]); ok {
					dest = "V"
					bufHolds = "V"
				} else if off, ok := outOff[cc.Args[0]]; ok {
					dest = fmt.Sprintf("out@%d", off)
				}
				trace = append(trace, fmt.Sprintf("H%d(%s)->%s", size, strings.Join(inputs, "|"), dest))
			case n == "builtin:copy":
				if off, ok := outOff[cc.Args[0]]; ok {
					if l, isBuf := bufArg(cc.Args[1]); isBuf && bufHolds == "V" {
						d, _ := w.env.eval(cc.Args[0])
						trace = append(trace, fmt.Sprintf("W%d->out@%d", min(l, d), off))
					} else {
						trace = append(trace, "copy?")
					}
				}
			}
			return ""
		}
		end := w.walk(f.Blocks[0], nil)
		if end != "return" {
			bad = fmt.Sprintf("T=%d: evaluation ended with %s %s", T, end, w.why)
			break
		}
		var want []string
		if T <= 64 {
			want = []string{fmt.Sprintf("H%d(LE32(%d)|A)->out@0", T, T)}
		} else {
			r := (T+31)/32 - 2
			want = append(want, fmt.Sprintf("H64(LE32(%d)|A)->V", T), "W32->out@0")
			for i := int64(2); i <= r; i++ {
				want = append(want, "H64(V)->V", fmt.Sprintf("W32->out@%d", 32*(i-1)))
			}
			want = append(want, fmt.Sprintf("H%d(V)->out@%d", T-32*r, 32*r))
		}
		if strings.Join(trace, " ") != strings.Join(want, " ") {
			bad = fmt.Sprintf("T=%d: code computes [%s], RFC 9106 3.3 requires [%s]", T, strings.Join(trace, " "), strings.Join(want, " "))
		}
		if w.oob {
			bad = fmt.Sprintf("T=%d: a slice expression leaves its bounds", T)
		}
	}
	c.check(bad == "", "C15.hprime", "argon2.blake2bHash", f, "output lengths 1..300: hash trace equals RFC 9106 section 3.3", bad)
}
