package main

import (
	"go/token"
	"go/types"
	"sort"
	"strings"

	"golang.org/x/tools/go/ssa"
)

// Object-based memory for the C04 walks.
//
// The path walker names memory by access path ("h.offset"), which is exact
// inside one function but changes when a piece of code moves into a helper
// whose parameter has another name. The C04 rules therefore identify memory by
// OBJECT: a c04Ref is (object, field path, element offset), where the object
// is a parameter of the function under examination or something allocated
// during the walk, and the path is built from struct FIELD names (type
// structure, not local names). Parameters of inlined helpers, call results and
// phis are resolved through tab, which the walker hooks keep up to date, so a
// reference reads the same wherever the expression that forms it is written.
//
// On top of the references c04Mem keeps, per location: scalar values (for
// branch folding), symbolic contents of byte arrays ("key", "tag[...]"), and
// the event history of a MAC state ("init(key) write(m)"). Struct and array
// VALUES (x := *p; *q = x; return x) carry a snapshot.

type c04Ref struct {
	obj  ssa.Value
	path string // ".field[.field]", an embedded field is written ".^name"
	off  int64  // element offset inside the array at path (slices)
	ok   bool
}

type c04Snap struct {
	base    string // "zero" | "unknown..." : what locations without an entry hold
	scalar  map[string]optInt
	content map[string]string
	hist    map[string][]string
	mark    map[string]string
}

type c04Mem struct {
	root    *ssa.Function
	role    map[ssa.Value]string // root parameters by role; other objects are numbered
	tab     map[ssa.Value]c04Ref
	tup     map[ssa.Value][]c04Ref
	full    map[string]int64 // number of elements of the array at a key
	scalar  map[string]optInt
	content map[string]string
	hist    map[string][]string
	mark    map[string]string // prefix -> "zero" | "unknown: why"
	snap    map[ssa.Value]*c04Snap
	stores  []string // keys stored to, in order
	notes   []string // what the model could not follow (each one fails the rule)
	nobj    int
}

func newC04Mem(root *ssa.Function) *c04Mem {
	return &c04Mem{root: root, role: map[ssa.Value]string{}, tab: map[ssa.Value]c04Ref{}, tup: map[ssa.Value][]c04Ref{},
		full: map[string]int64{}, scalar: map[string]optInt{}, content: map[string]string{}, hist: map[string][]string{},
		mark: map[string]string{}, snap: map[ssa.Value]*c04Snap{}}
}

func (m *c04Mem) note(s string) {
	for _, n := range m.notes {
		if n == s {
			return
		}
	}
	m.notes = append(m.notes, s)
}

func (m *c04Mem) name(obj ssa.Value) string {
	if n, ok := m.role[obj]; ok {
		return n
	}
	m.nobj++
	n := "#" + itoa(int64(m.nobj))
	m.role[obj] = n
	return n
}

func (m *c04Mem) key(r c04Ref) string { return m.name(r.obj) + r.path }

// fresh: the object was created (zeroed) during the walk.
func c04Fresh(obj ssa.Value) bool {
	switch obj.(type) {
	case *ssa.Alloc, *ssa.MakeSlice:
		return true
	}
	return false
}

func c04Under(k, prefix string) bool {
	return k == prefix || strings.HasPrefix(k, prefix+".") || strings.HasPrefix(k, prefix+"[")
}

// ref resolves a pointer or slice value to the memory it denotes.
func (m *c04Mem) ref(w *pathWalker, v ssa.Value) c04Ref {
	switch x := v.(type) {
	case *ssa.Alloc:
		return c04Ref{obj: x, ok: true}
	case *ssa.MakeSlice:
		r := c04Ref{obj: x, ok: true}
		if n, ok := w.env.eval(x.Len); ok {
			m.full[m.key(r)] = n
		}
		return r
	case *ssa.Parameter:
		if r, ok := m.tab[x]; ok {
			return r
		}
		if x.Parent() == m.root {
			return c04Ref{obj: x, ok: true}
		}
	case *ssa.FieldAddr:
		b := m.ref(w, x.X)
		st := derefStruct(x.X.Type())
		if !b.ok || st == nil || b.off != 0 {
			return c04Ref{}
		}
		f := st.Field(x.Field)
		n := f.Name()
		if f.Embedded() {
			n = "^" + n
		}
		b.path += "." + n
		return b
	case *ssa.IndexAddr:
		b := m.ref(w, x.X)
		i, ok := w.env.eval(x.Index)
		if !b.ok || !ok {
			return c04Ref{}
		}
		b.path += "[" + itoa(b.off+i) + "]"
		b.off = 0
		return b
	case *ssa.Slice:
		b := m.ref(w, x.X)
		if !b.ok {
			return c04Ref{}
		}
		if pt, isP := x.X.Type().Underlying().(*types.Pointer); isP {
			if a, isA := pt.Elem().Underlying().(*types.Array); isA {
				m.full[m.key(b)] = a.Len()
			}
		}
		if x.Low != nil {
			lo, ok := w.env.eval(x.Low)
			if !ok {
				return c04Ref{}
			}
			b.off += lo
		}
		return b
	case *ssa.Const:
		// a nil slice: an empty array of its own
		if _, isSlice := x.Type().Underlying().(*types.Slice); isSlice && x.Value == nil {
			r := c04Ref{obj: x, ok: true}
			m.full[m.key(r)] = 0
			m.content[m.key(r)] = "nil"
			return r
		}
	case *ssa.ChangeType:
		return m.ref(w, x.X)
	case *ssa.SliceToArrayPointer:
		return m.ref(w, x.X)
	case *ssa.Call, *ssa.Phi, *ssa.Extract:
		if r, ok := m.tab[v]; ok {
			return r
		}
	}
	return c04Ref{}
}

// ---- lookups: an explicit entry, else the innermost covering mark, else the
// zero value for objects created during the walk, else unknown / symbolic.

func (m *c04Mem) cover(k string) (string, bool) {
	best, val := -1, ""
	for p, v := range m.mark {
		if c04Under(k, p) && len(p) > best {
			best, val = len(p), v
		}
	}
	return val, best >= 0
}

func (m *c04Mem) objOf(k string) ssa.Value {
	for o, n := range m.role {
		if c04Under(k, n) {
			return o
		}
	}
	return nil
}

func (m *c04Mem) baseOf(k string) string {
	if mk, ok := m.cover(k); ok {
		return mk
	}
	if o := m.objOf(k); o != nil && c04Fresh(o) {
		return "zero"
	}
	return ""
}

func (m *c04Mem) scalarAt(k string) (int64, bool) {
	if v, ok := m.scalar[k]; ok {
		return v.n, v.ok
	}
	if m.baseOf(k) == "zero" {
		return 0, true
	}
	return 0, false
}

func (m *c04Mem) contentAt(k string) string {
	if v, ok := m.content[k]; ok {
		return v
	}
	switch b := m.baseOf(k); {
	case b == "zero":
		return "zero"
	case b != "":
		return "?(" + b + ")"
	}
	return k // the initial contents of a root parameter's memory, by role
}

func (m *c04Mem) histAt(k string) []string {
	if v, ok := m.hist[k]; ok {
		return v
	}
	switch b := m.baseOf(k); {
	case b == "zero":
		return nil
	case b != "":
		return []string{"?(" + b + ")"}
	}
	return []string{"?(" + k + ")"}
}

// clear forgets everything known about the memory under prefix k.
func (m *c04Mem) clear(k string) {
	for p := range m.scalar {
		if c04Under(p, k) {
			delete(m.scalar, p)
		}
	}
	for p := range m.content {
		if c04Under(p, k) {
			delete(m.content, p)
		}
	}
	for p := range m.hist {
		if c04Under(p, k) {
			delete(m.hist, p)
		}
	}
	for p := range m.mark {
		if c04Under(p, k) {
			delete(m.mark, p)
		}
	}
}

func (m *c04Mem) snapshot(k string) *c04Snap {
	s := &c04Snap{base: m.baseOf(k), scalar: map[string]optInt{}, content: map[string]string{}, hist: map[string][]string{}, mark: map[string]string{}}
	if s.base == "" {
		s.base = "unknown: initial contents of " + k
	}
	for p, v := range m.scalar {
		if c04Under(p, k) {
			s.scalar[p[len(k):]] = v
		}
	}
	for p, v := range m.content {
		if c04Under(p, k) {
			s.content[p[len(k):]] = v
		}
	}
	for p, v := range m.hist {
		if c04Under(p, k) {
			s.hist[p[len(k):]] = append([]string(nil), v...)
		}
	}
	for p, v := range m.mark {
		if c04Under(p, k) && p != k {
			s.mark[p[len(k):]] = v
		}
	}
	return s
}

func (m *c04Mem) restore(k string, s *c04Snap) {
	m.clear(k)
	m.mark[k] = s.base
	for p, v := range s.scalar {
		m.scalar[k+p] = v
	}
	for p, v := range s.content {
		m.content[k+p] = v
	}
	for p, v := range s.hist {
		m.hist[k+p] = append([]string(nil), v...)
	}
	for p, v := range s.mark {
		m.mark[k+p] = v
	}
}

// c04StatePath: where, below a value of (pointer to) struct type t, the MAC
// state lives — the chain of embedded structs down to the innermost one
// (MAC -> mac -> macGeneric -> macState). isMAC tells whether that innermost
// struct is the poly1305 macState.
func c04StatePath(t types.Type) (path string, isMAC bool) {
	if p, ok := t.Underlying().(*types.Pointer); ok {
		t = p.Elem()
	}
	for depth := 0; depth < 8; depth++ {
		st, ok := t.Underlying().(*types.Struct)
		if !ok {
			return path, false
		}
		next := -1
		for i := 0; i < st.NumFields(); i++ {
			if st.Field(i).Embedded() {
				if _, isS := st.Field(i).Type().Underlying().(*types.Struct); isS {
					next = i
					break
				}
			}
		}
		if next < 0 {
			return path, typeName(t) == "macState"
		}
		path += ".^" + st.Field(next).Name()
		t = st.Field(next).Type()
	}
	return path, false
}

// stateKey: the history key of the MAC state a pointer value denotes.
func (m *c04Mem) stateKey(w *pathWalker, v ssa.Value) (string, bool) {
	r := m.ref(w, v)
	if !r.ok || r.off != 0 {
		return "", false
	}
	p, isMAC := c04StatePath(v.Type())
	return m.key(r) + p, isMAC
}

// taint records, on every MAC history of the object, an effect the model does
// not understand.
func (m *c04Mem) taint(obj ssa.Value, ev string) {
	n := m.name(obj)
	hit := false
	for k := range m.hist {
		if c04Under(k, n) {
			m.hist[k] = append(m.hist[k], ev)
			hit = true
		}
	}
	if hit {
		return
	}
	var t types.Type = obj.Type()
	if p, isMAC := c04StatePath(t); isMAC {
		m.hist[n+p] = append(m.histAt(n+p), ev)
	}
}

func c04LastField(path string) string {
	i := strings.LastIndex(path, ".")
	if i < 0 {
		return ""
	}
	f := path[i+1:]
	if j := strings.Index(f, "["); j >= 0 {
		f = f[:j]
	}
	return strings.TrimPrefix(f, "^")
}

func c04AllEmbedded(path string) bool {
	for _, c := range strings.Split(path, ".") {
		if c != "" && !strings.HasPrefix(c, "^") {
			return false
		}
	}
	return true
}

// ---- walker hooks

func (m *c04Mem) install(w *pathWalker) {
	w.onLoad, w.onStore, w.onPhi = m.onLoad, m.onStore, m.onPhi
	w.onInline, w.onReturn, w.onExtract = m.onInline, m.onReturn, m.onExtract
}

func (m *c04Mem) onLoad(w *pathWalker, u *ssa.UnOp) (int64, bool) {
	delete(m.snap, u)
	r := m.ref(w, u.X)
	if !r.ok || r.off != 0 {
		delete(w.env.vals, u)
		return 0, false
	}
	k := m.key(r)
	switch u.Type().Underlying().(type) {
	case *types.Struct, *types.Array:
		m.snap[u] = m.snapshot(k)
		return 0, false
	}
	if n, ok := m.scalarAt(k); ok {
		return n, true
	}
	delete(w.env.vals, u)
	return 0, false
}

func (m *c04Mem) onStore(w *pathWalker, st *ssa.Store) string {
	r := m.ref(w, st.Addr)
	if !r.ok || r.off != 0 {
		m.note("a store through an address the model cannot name (" + st.Addr.String() + ")")
		return ""
	}
	k := m.key(r)
	m.stores = append(m.stores, k)
	structural := false
	switch st.Val.Type().Underlying().(type) {
	case *types.Struct, *types.Array:
		structural = true
	}
	if structural {
		if s := m.snap[st.Val]; s != nil {
			m.restore(k, s)
		} else if c, isC := st.Val.(*ssa.Const); isC && c.Value == nil {
			m.clear(k)
			m.mark[k] = "zero"
		} else {
			m.clear(k)
			m.mark[k] = "unknown: value stored to " + k
			m.taint(r.obj, "store("+r.path+")")
		}
		return ""
	}
	n, ok := w.env.eval(st.Val)
	m.scalar[k] = optInt{n, ok}
	if f := c04LastField(r.path); f != "finalized" {
		if _, isMAC := c04StatePath(r.obj.Type()); isMAC {
			m.taint(r.obj, "store("+r.path+")")
		}
	}
	return ""
}

func (m *c04Mem) onPhi(w *pathWalker, ph *ssa.Phi, in ssa.Value) {
	if r := m.ref(w, in); r.ok {
		m.tab[ph] = r
	} else {
		delete(m.tab, ph)
	}
	if s, ok := m.snap[in]; ok {
		m.snap[ph] = s
	} else {
		delete(m.snap, ph)
	}
}

func (m *c04Mem) onInline(parent, child *pathWalker, callee *ssa.Function, args []ssa.Value) {
	rs := make([]c04Ref, len(args))
	for i := range args {
		rs[i] = m.ref(parent, args[i]) // all arguments first: a callee may be entered from itself
	}
	for i, p := range callee.Params {
		if i >= len(args) {
			break
		}
		if rs[i].ok {
			m.tab[p] = rs[i]
		} else {
			delete(m.tab, p)
		}
		if _, isSlice := p.Type().Underlying().(*types.Slice); isSlice && isNilConst(args[i]) {
			child.env.bind(p, 0) // the length of a nil slice
		}
		if s, ok := m.snap[args[i]]; ok {
			m.snap[p] = s
		} else {
			delete(m.snap, p)
		}
	}
	// every activation gets new (zeroed) locals
	allInstrs(callee, func(in ssa.Instruction) {
		if a, ok := in.(*ssa.Alloc); ok {
			if _, known := m.role[a]; known {
				m.clear(m.name(a))
			}
		}
	})
}

func (m *c04Mem) onReturn(parent, child *pathWalker, call *ssa.Call, results []ssa.Value) {
	delete(m.tab, call)
	delete(m.snap, call)
	delete(m.tup, call)
	if len(results) == 1 {
		if r := m.ref(child, results[0]); r.ok {
			m.tab[call] = r
		}
		if s, ok := m.snap[results[0]]; ok {
			m.snap[call] = s
		}
		return
	}
	var rs []c04Ref
	for _, x := range results {
		rs = append(rs, m.ref(child, x))
	}
	m.tup[call] = rs
}

func (m *c04Mem) onExtract(w *pathWalker, ex *ssa.Extract) {
	delete(m.tab, ex)
	if rs, ok := m.tup[ex.Tuple]; ok && ex.Index < len(rs) && rs[ex.Index].ok {
		m.tab[ex] = rs[ex.Index]
	}
}

// ---- values as they are read

// lenOf: the length of a slice value, or of the array a pointer points to.
func c04LenOf(w *pathWalker, v ssa.Value) (int64, bool) {
	if isNilConst(v) {
		return 0, true
	}
	if p, ok := v.Type().Underlying().(*types.Pointer); ok {
		if a, ok := p.Elem().Underlying().(*types.Array); ok {
			return a.Len(), true
		}
		return 0, false
	}
	return w.env.eval(v)
}

// desc: the symbolic contents of the bytes a slice (or pointer to array)
// value denotes: the token of the whole array when the value covers it,
// otherwise the token with its extent.
func (m *c04Mem) desc(w *pathWalker, v ssa.Value) string {
	if isNilConst(v) {
		return "nil"
	}
	r := m.ref(w, v)
	if !r.ok {
		return "?(" + v.String() + ")"
	}
	k := m.key(r)
	tok := m.contentAt(k)
	if _, isP := v.Type().Underlying().(*types.Pointer); isP {
		return tok
	}
	L, ok := w.env.eval(v)
	full, fok := m.full[k]
	switch {
	case ok && fok && r.off == 0 && L == full:
		return tok
	case ok:
		return tok + "[" + itoa(r.off) + ":" + itoa(r.off+L) + "]"
	}
	return tok + "[" + itoa(r.off) + ":?]"
}

// write puts n elements with symbolic contents tok at offset off of the array at k.
func (m *c04Mem) write(k string, off, n int64, tok string) {
	if n == 0 {
		return
	}
	if full, ok := m.full[k]; ok && off == 0 && n == full {
		m.content[k] = tok
		return
	}
	m.content[k] = "mixed(" + m.contentAt(k) + "; " + tok + " at " + itoa(off) + ")"
}

// modelBuiltin models append and copy on symbolic contents; it reports
// whether the call was one of them.
func (m *c04Mem) modelBuiltin(w *pathWalker, ci ssa.CallInstruction) bool {
	cc := ci.Common()
	switch calleeName(cc) {
	case "builtin:append":
		call, isCall := ci.(*ssa.Call)
		if !isCall || len(cc.Args) != 2 {
			return false
		}
		delete(m.tab, call)
		delete(w.env.vals, call)
		dst, src := cc.Args[0], cc.Args[1]
		Ld, okd := c04LenOf(w, dst)
		Ls, oks := c04LenOf(w, src)
		stok := m.desc(w, src)
		d := m.ref(w, dst)
		if d.ok && okd && oks {
			k := m.key(d)
			if full, ok := m.full[k]; ok && d.off+Ld+Ls <= full && !c04IsRootSlice(m, d) {
				// enough capacity: the elements are written in place
				m.write(k, d.off+Ld, Ls, stok)
				m.tab[call] = d
				w.env.bind(call, Ld+Ls)
				return true
			}
		}
		// a new array (or one whose capacity is not known: same resulting slice)
		r := c04Ref{obj: call, ok: true}
		k := m.name(call)
		m.clear(k)
		switch {
		case okd && Ld == 0:
			m.content[k] = stok
		default:
			m.content[k] = "cat(" + m.desc(w, dst) + "," + stok + ")"
		}
		if okd && oks {
			m.full[k] = Ld + Ls
			w.env.bind(call, Ld+Ls)
		} else {
			delete(m.full, k)
		}
		m.tab[call] = r
		return true
	case "builtin:copy":
		if len(cc.Args) != 2 {
			return false
		}
		dst, src := cc.Args[0], cc.Args[1]
		Ld, okd := c04LenOf(w, dst)
		Ls, oks := c04LenOf(w, src)
		d := m.ref(w, dst)
		if !d.ok || !okd || !oks {
			if d.ok {
				m.clear(m.key(d))
				m.mark[m.key(d)] = "unknown: copy of unknown extent"
				m.taint(d.obj, "copy")
			} else {
				m.note("copy into memory the model cannot name")
			}
			return true
		}
		n := min(Ld, Ls)
		stok := m.desc(w, src)
		if n != Ls {
			stok += "[:" + itoa(n) + "]"
		}
		m.write(m.key(d), d.off, n, stok)
		if _, isMAC := c04StatePath(d.obj.Type()); isMAC && n > 0 {
			m.taint(d.obj, "copy("+d.path+")")
		}
		return true
	}
	return false
}

// modelBinary: encoding/binary's fixed-width loads and stores on bytes held as
// scalars of the model.
func (m *c04Mem) modelBinary(w *pathWalker, ci ssa.CallInstruction) bool {
	cc := ci.Common()
	n := calleeName(cc)
	args := cc.Args
	if strings.HasSuffix(n, "$bound") {
		// le := binary.LittleEndian.Uint64; le(b): the receiver is bound in the closure
		n = strings.TrimSuffix(n, "$bound")
		args = append([]ssa.Value{nil}, args...)
	}
	if !strings.HasPrefix(n, "(encoding/binary.") || len(args) < 2 {
		return false
	}
	big := strings.HasPrefix(n, "(encoding/binary.bigEndian)")
	meth := n[strings.LastIndex(n, ".")+1:]
	put := strings.HasPrefix(meth, "PutUint")
	if !put && !strings.HasPrefix(meth, "Uint") {
		return false
	}
	var width int64
	switch {
	case strings.HasSuffix(meth, "64"):
		width = 8
	case strings.HasSuffix(meth, "32"):
		width = 4
	case strings.HasSuffix(meth, "16"):
		width = 2
	default:
		return false
	}
	r := m.ref(w, args[1])
	if !r.ok {
		return false
	}
	if L, ok := w.env.eval(args[1]); ok && L < width {
		w.markOOB(ci)
	}
	at := func(i int64) string {
		if big {
			i = width - 1 - i
		}
		return m.key(r) + "[" + itoa(r.off+i) + "]"
	}
	if put {
		if len(args) < 3 {
			return false
		}
		v, known := w.env.eval(args[2])
		for i := int64(0); i < width; i++ {
			m.scalar[at(i)] = optInt{int64(uint64(v) >> (8 * uint(i)) & 0xff), known}
		}
		return true
	}
	val, isV := ci.(ssa.Value)
	if !isV {
		return true
	}
	var v uint64
	for i := int64(0); i < width; i++ {
		b, ok := m.scalarAt(at(i))
		if !ok {
			delete(w.env.vals, val)
			return true
		}
		v |= uint64(b&0xff) << (8 * uint(i))
	}
	w.env.bind(val, int64(v))
	return true
}

// a slice parameter of the root function: its capacity is not known
func c04IsRootSlice(m *c04Mem, r c04Ref) bool {
	p, ok := r.obj.(*ssa.Parameter)
	if !ok || r.path != "" {
		return false
	}
	_, isSlice := p.Type().Underlying().(*types.Slice)
	return isSlice
}

// clobber: an unmodelled callee received a reference to tracked memory.
func (m *c04Mem) clobber(w *pathWalker, ci ssa.CallInstruction) {
	cc := ci.Common()
	name := short(calleeName(cc))
	for _, a := range cc.Args {
		switch a.Type().Underlying().(type) {
		case *types.Pointer, *types.Slice:
		default:
			continue
		}
		r := m.ref(w, a)
		if !r.ok {
			continue
		}
		k := m.key(r)
		m.clear(k)
		m.mark[k] = "unknown: passed to " + name
		m.taint(r.obj, "passed-to("+name+")")
	}
	if v := callValue(ci); v != nil {
		delete(m.tab, v)
		delete(m.snap, v)
	}
}

func (m *c04Mem) dump() string {
	var ks []string
	for k, v := range m.hist {
		ks = append(ks, k+": "+strings.Join(v, " "))
	}
	sort.Strings(ks)
	return strings.Join(ks, "; ")
}

var _ = token.MUL
