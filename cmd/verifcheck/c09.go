package main

import (
	"fmt"
	"go/token"
	"strings"

	"golang.org/x/tools/go/ssa"
)

func init() {
	register(&propDef{
		id: "C09", run: runC09, minOblig: 3,
		explanation: "Decides the nonce handling and the block-counter bookkeeping of the Salsa20 packages (not the Salsa20 core arithmetic, and nothing inside the amd64 assembly). All three rules interpret the code (slices by length and offset, small local byte arrays byte by byte, same-package helpers followed, copy / encoding/binary / subtle.XORBytes / min modelled), so they read the same however the code is factored or its locals are named. (nonce dispatch) salsa20.XORKeyStream is interpreted with every nonce byte as a distinct abstract value for nonce lengths 0, 8, 12, 16, 24, 32, input lengths 0, 1, 64 and a shorter / equal / longer output: it panics exactly for an output shorter than the input or a nonce that is neither 8 nor 24 bytes; otherwise salsa.XORKeyStream receives (out, in, block, key) where, byte for byte, the 16-byte block is nonce[0:8] | 8 zero bytes with the caller's key for 8 bytes, and nonce[16:24] | 8 zero bytes for 24 bytes with the key being the 32 bytes that HSalsa20 wrote when it was given nonce[0:16], the caller's key and salsa.Sigma. (64-bit counter carry, portable path) genericXORKeyStream is interpreted with the sixteen bytes of the caller's counter block as tracked state, for starting counters 0, 0xff, 0xffff, 2^32-1, 2^32, 2^40-1, 2^64-2, 2^64-1 and 0..3 full blocks with and without a partial tail: the j-th call of the block function (identified by its signature) is given a 16-byte block whose bytes 0..7 are the caller's nonce bytes and whose bytes 8..15 are the little-endian value counter + j (mod 2^64, every carry chain), a local 64-byte key-stream buffer and the caller's key; output byte p is written exactly once, as in[p] XOR key-stream byte p mod 64, after block p/64 and before block p/64+1 was generated (byte stores or subtle.XORBytes); exactly ceil(n/64) blocks are generated; the caller's counter array holds its original bytes afterwards. What the local counter copy holds after the last block is NOT constrained (it is dead). (wrappers) salsa.XORKeyStream is interpreted for input lengths 0, 1, 64, 65 and a shorter / equal / longer output: the portable build forwards (out, in, counter, key) to genericXORKeyStream; the amd64 build calls the assembly routine exactly once with (&out[0], &in[0], len(in), &counter[0], &key[0]), not at all for an empty input, and never with an output shorter than the input (a bounds check fails first). NOT decided: Salsa20/20, HSalsa20 and Salsa20/8 core values; the counter handling inside salsa20_amd64.s; agreement of assembly and portable paths.",
		assumptions: []string{"salsa.core / salsa.HSalsa20 compute the specified functions", "the assembly routine increments the 64-bit counter like the portable loop (not analysable)"},
	})
	tech("C09", "flow-sensitive finite-domain interpretation of the nonce dispatch (nonce bytes as abstract identities), of the counter block given to every key-stream block generation (counter bytes as tracked state) and of the implementation wrappers, against the specification; values are identified by role (parameter index, type, provenance), not by name")
}

func runC09(c *Ctx) {
	c09Dispatch(c)
	c09Counter(c)
	c09Wrapper(c)
}

// ---------------------------------------------------------------------------
// nonce dispatch

func c09Dispatch(c *Ctx) {
	f := c.fn("salsa20", "XORKeyStream")
	if f == nil {
		return
	}
	if len(f.Params) != 4 {
		c.undecided("C09.nonce", "salsa20.XORKeyStream nonce dispatch", f, "unexpected signature")
		return
	}
	outP, inP, nonceP := f.Params[0], f.Params[1], f.Params[2]
	cases, bad := 0, ""
	for _, nl := range []int64{0, 8, 12, 16, 24, 32} {
		for _, n := range []int64{0, 1, 64} {
			for _, dd := range []int64{-1, 0, 3} {
				if n+dd < 0 || bad != "" {
					continue
				}
				w := c09Walker(f, []string{"out", "in", "nonce", "key"}, 4000, nil)
				w.env.bind(outP, n+dd)
				w.env.bind(inP, n)
				w.env.bind(nonceP, nl)
				w.onLoad = func(w *pathWalker, u *ssa.UnOp) (int64, bool) {
					// a single nonce byte read: nonce[i]
					if ia, ok := u.X.(*ssa.IndexAddr); ok {
						if r, o, isR := c09Role(w, ia.X); isR && r == "nonce" {
							if k, okk := w.env.eval(ia.Index); okk {
								return c09NonceSym + o + k, true
							}
						}
					}
					return 0, false
				}
				w.onCall = func(w *pathWalker, ci ssa.CallInstruction) string {
					cc := ci.Common()
					name := short(calleeName(cc))
					switch {
					case strings.HasSuffix(name, "alias.InexactOverlap") || strings.HasSuffix(name, "alias.AnyOverlap"):
						// the buffers of the modelled call do not overlap
						if v := callValue(ci); v != nil {
							w.env.bind(v, 0)
						}
					case name == "builtin:copy":
						if p := c09Copy(w, cc); p != "" {
							return "!" + p
						}
					case name == "salsa20/salsa.HSalsa20" && len(cc.Args) == 4:
						src, okS := c09Read(w, c09Ptr(w, cc.Args[1]), 0, 16)
						if !okS {
							return "!the 16-byte input of HSalsa20 is not determined by the interpretation"
						}
						want := make([]int64, 16)
						for i := range want {
							want[i] = c09NonceSym + int64(i)
						}
						if d := c09Describe(src); d != c09Describe(want) {
							return "!HSalsa20 is given " + d + ", specification " + c09Describe(want)
						}
						if r, _, isR := c09Role(w, cc.Args[2]); !isR || r != "key" {
							return "!HSalsa20 is not keyed with the caller's key"
						}
						if g, isG := cc.Args[3].(*ssa.Global); !isG || g.Name() != "Sigma" || g.Pkg == nil || !strings.HasSuffix(g.Pkg.Pkg.Path(), "salsa20/salsa") {
							return "!HSalsa20 is not given the constant salsa.Sigma"
						}
						if r, _, isR := c09Role(w, cc.Args[0]); isR {
							return "!HSalsa20 writes its result into the caller's " + r
						}
						dst := c09Ptr(w, cc.Args[0])
						if dst == "" {
							return "!the location HSalsa20 writes the subkey to is not determined by the interpretation"
						}
						for i := int64(0); i < 32; i++ {
							w.state[c09Key(dst, i)] = c09SubKeySym + i
						}
						return "H"
					case name == "salsa20/salsa.XORKeyStream" && len(cc.Args) == 4:
						if r, o, isR := c09Role(w, cc.Args[0]); !isR || r != "out" || o != 0 {
							return "!salsa.XORKeyStream is not given the caller's output buffer from its first byte"
						}
						if l, ok := w.env.eval(cc.Args[0]); !ok || l < n {
							return "!salsa.XORKeyStream is given an output buffer shorter than the input"
						}
						if r, o, isR := c09Role(w, cc.Args[1]); !isR || r != "in" || o != 0 {
							return "!salsa.XORKeyStream is not given the caller's input from its first byte"
						}
						if l, ok := w.env.eval(cc.Args[1]); !ok || l != n {
							return "!salsa.XORKeyStream is not given the whole input"
						}
						blk, okB := c09Read(w, c09Ptr(w, cc.Args[2]), 0, 16)
						if !okB {
							return "!the counter block given to salsa.XORKeyStream is not determined by the interpretation"
						}
						k := ""
						if r, _, isR := c09Role(w, cc.Args[3]); isR {
							k = "the caller's " + r
						} else if kb, okK := c09Read(w, c09Ptr(w, cc.Args[3]), 0, 32); okK {
							k = c09Describe(kb)
						} else {
							return "!the key given to salsa.XORKeyStream is not determined by the interpretation"
						}
						return "S:counter block " + c09Describe(blk) + ", key " + k
					}
					return ""
				}
				end := w.walk(f.Blocks[0], nil)
				cases++
				id := fmt.Sprintf("len(nonce)=%d len(in)=%d len(out)=%d", nl, n, n+dd)
				wantPanic := dd < 0 || (nl != 8 && nl != 24)
				if end == "undecided" {
					bad = id + ": " + w.why
					break
				}
				if wantPanic != (end == "panic") {
					if wantPanic {
						bad = id + ": the call does not panic; specification: it panics (output shorter than the input, or a nonce that is neither 8 nor 24 bytes)"
					} else {
						bad = id + ": the call panics; specification: it is a valid call"
					}
					break
				}
				if wantPanic {
					continue
				}
				want := "S:counter block nonce[0:8] | 8 zero bytes, key the caller's key"
				if nl == 24 {
					want = "S:counter block nonce[16:24] | 8 zero bytes, key HSalsa20 output[0:32]"
				}
				var got []string
				for _, ev := range w.events {
					switch {
					case strings.HasPrefix(ev, "!") && bad == "":
						bad = id + ": " + ev[1:]
					case strings.HasPrefix(ev, "S:"):
						got = append(got, ev)
					}
				}
				if bad != "" {
					break
				}
				if len(got) != 1 {
					bad = fmt.Sprintf("%s: salsa.XORKeyStream is called %d times", id, len(got))
				} else if got[0] != want {
					bad = fmt.Sprintf("%s: code calls salsa.XORKeyStream with %s; specification: %s", id, got[0][2:], want[2:])
				} else if w.oob || w.rootW().oob {
					bad = id + ": a slice or index expression leaves its bounds"
				}
			}
		}
	}
	c.check(bad == "" && cases > 40, "C09.nonce", "salsa20.XORKeyStream nonce dispatch", f, fmt.Sprintf("%d (nonce, input, output length) cases", cases), bad)
}

// ---------------------------------------------------------------------------
// 64-bit block counter of the portable implementation

// c09BlockFns: the Salsa20 block functions of the package by signature
// (*[64]byte, *[16]byte, *[32]byte, *[16]byte) — key-stream block out, counter
// block in, key, constants.
func c09BlockFns(c *Ctx, except *ssa.Function) map[*ssa.Function]bool {
	res := map[*ssa.Function]bool{}
	for _, g := range c.funcsOfPkg("salsa20/salsa") {
		if g == except || len(g.Blocks) == 0 || len(g.Params) != 4 || g.Signature.Results().Len() != 0 || g.Signature.Recv() != nil {
			continue
		}
		ok := true
		for i, want := range []int64{64, 16, 32, 16} {
			if n, isB := c09ByteArrayPtr(g.Params[i].Type()); !isB || n != want {
				ok = false
			}
		}
		if ok {
			res[g] = true
		}
	}
	return res
}

func c09Counter(c *Ctx) {
	f := c.fn("salsa20/salsa", "genericXORKeyStream")
	if f == nil {
		return
	}
	const rule, construct = "C09.counter", "genericXORKeyStream 64-bit counter"
	if len(f.Params) != 4 {
		c.undecided(rule, construct, f, "unexpected signature")
		return
	}
	blockFns := c09BlockFns(c, f)
	if len(blockFns) == 0 {
		c.undecided(rule, construct, f, "the package has no Salsa20 block function (*[64]byte, *[16]byte, *[32]byte, *[16]byte)")
		return
	}
	opaque := map[string]bool{}
	for g := range blockFns {
		opaque[g.Name()] = true
	}
	outP, inP := f.Params[0], f.Params[1]
	cname := f.Params[2].Name()
	inits := []uint64{0, 0xff, 0xffff, 1<<32 - 1, 1 << 32, 1<<40 - 1, 1<<64 - 2, 1<<64 - 1}
	cases, bad := 0, ""
	for _, init := range inits {
		for _, full := range []int64{0, 1, 2, 3} {
			for _, tail := range []int64{0, 17} {
				if bad != "" {
					continue
				}
				n := 64*full + tail
				w := c09Walker(f, []string{"out", "in", "counter", "key"}, 60000, opaque)
				w.env.bind(outP, n)
				w.env.bind(inP, n)
				var orig [16]int64
				for i := 0; i < 8; i++ {
					orig[i] = int64(0xA0 + i) // nonce bytes: must stay
					orig[8+i] = int64(byte(init >> (8 * i)))
				}
				for i, v := range orig {
					w.state[c09Key(cname, int64(i))] = v
				}
				w.onCall = func(w *pathWalker, ci ssa.CallInstruction) string {
					cc := ci.Common()
					if callee := cc.StaticCallee(); callee != nil && blockFns[callee] {
						blk, ok := c09Read(w, c09Ptr(w, cc.Args[1]), 0, 16)
						if !ok {
							return "!the counter block given to " + callee.Name() + " is not determined by the interpretation"
						}
						if r, o, isR := c09Role(w, cc.Args[0]); !isR || r != "ks" || o != 0 {
							return "!" + callee.Name() + " does not write a local 64-byte key-stream buffer"
						}
						if r, _, isR := c09Role(w, cc.Args[2]); !isR || r != "key" {
							return "!" + callee.Name() + " is not given the caller's key"
						}
						var sb strings.Builder
						sb.WriteString("B")
						for _, v := range blk {
							fmt.Fprintf(&sb, ":%d", v)
						}
						return sb.String()
					}
					switch short(calleeName(cc)) {
					case "builtin:copy":
						if p := c09Copy(w, cc); p != "" {
							return "!" + p
						}
					case "crypto/subtle.XORBytes":
						return c09XORBytes(w, ci)
					}
					return ""
				}
				w.onStore = func(w *pathWalker, st *ssa.Store) string {
					c09StoreResult(w, st)
					ia, ok := st.Addr.(*ssa.IndexAddr)
					if !ok {
						return ""
					}
					r, o, isR := c09Role(w, ia.X)
					if !isR || r != "out" {
						return ""
					}
					k, okk := w.env.eval(ia.Index)
					if !okk {
						return "!an output byte is written at a position the interpretation cannot determine"
					}
					pos := o + k
					bo, isX := st.Val.(*ssa.BinOp)
					if !isX || bo.Op != token.XOR {
						return fmt.Sprintf("!output byte %d is not the XOR of an input byte and a key-stream byte", pos)
					}
					ra, pa, oka := c09ByteSrc(w, bo.X)
					rb, pb, okb := c09ByteSrc(w, bo.Y)
					if oka && okb && ra == "ks" && rb == "in" {
						ra, pa, rb, pb = rb, pb, ra, pa
					}
					if !oka || !okb || ra != "in" || rb != "ks" {
						return fmt.Sprintf("!output byte %d is not the XOR of an input byte and a key-stream byte", pos)
					}
					if pa != pos || pb != pos%64 {
						return fmt.Sprintf("!output byte %d is input byte %d XOR key-stream byte %d, specification: input byte %d XOR key-stream byte %d", pos, pa, pb, pos, pos%64)
					}
					return fmt.Sprintf("W:%d", pos)
				}
				end := w.walk(f.Blocks[0], nil)
				cases++
				id := fmt.Sprintf("counter=%#x blocks=%d tail=%d", init, full, tail)
				if end != "return" {
					bad = id + ": evaluation ended with " + end + " " + w.why
					continue
				}
				set := func(s string) {
					if bad == "" {
						bad = id + ": " + s
					}
				}
				wantBlocks := full
				if tail > 0 {
					wantBlocks++
				}
				j := int64(0) // key-stream blocks generated so far
				written := map[int64]bool{}
				for _, ev := range w.events {
					switch {
					case strings.HasPrefix(ev, "!"):
						set(ev[1:])
					case strings.HasPrefix(ev, "B:"):
						var blk [16]int64
						fs := strings.Split(ev[2:], ":")
						for i := range blk {
							fmt.Sscan(fs[i], &blk[i])
						}
						var ctr uint64
						for i := 0; i < 8; i++ {
							if blk[i] != orig[i] {
								set(fmt.Sprintf("block %d is generated with a modified nonce half of the counter block", j))
							}
							ctr |= uint64(byte(blk[8+i])) << (8 * i)
						}
						if ctr != init+uint64(j) {
							set(fmt.Sprintf("block %d is generated with counter %#x, expected %#x (64-bit little-endian carry)", j, ctr, init+uint64(j)))
						}
						j++
					case strings.HasPrefix(ev, "W:"):
						var pos int64
						fmt.Sscan(ev[2:], &pos)
						switch {
						case j == 0:
							set("output bytes are produced before the first key-stream block is generated")
						case pos/64 != j-1:
							set(fmt.Sprintf("output byte %d is produced while key-stream block %d is the current one, expected block %d (each block must be generated before it is used)", pos, j-1, pos/64))
						case written[pos]:
							set(fmt.Sprintf("output byte %d is written twice", pos))
						}
						written[pos] = true
					}
				}
				if j != wantBlocks {
					set(fmt.Sprintf("%d key-stream blocks generated, %d needed", j, wantBlocks))
				}
				if int64(len(written)) != n {
					set(fmt.Sprintf("%d output bytes written, %d expected", len(written), n))
				}
				for i, v := range orig {
					if got, tracked := w.state[c09Key(cname, int64(i))]; !tracked || got != v {
						set("the caller's counter array is written")
					}
				}
				if w.oob || w.rootW().oob {
					set("a slice or index expression leaves its bounds")
				}
			}
		}
	}
	c.check(bad == "" && cases == len(inits)*8, rule, construct, f, fmt.Sprintf("%d (starting counter, full blocks, tail) cases incl. every carry chain boundary", cases), bad)
}

// c09XORBytes models n = subtle.XORBytes(dst, x, y) on the output buffer: one
// "W:" event per byte when dst[i] = in[pos+i] ^ keystream[(pos+i) mod 64].
func c09XORBytes(w *pathWalker, ci ssa.CallInstruction) string {
	cc := ci.Common()
	if len(cc.Args) != 3 {
		return ""
	}
	r, pos, isR := c09Role(w, cc.Args[0])
	if !isR || r != "out" {
		return ""
	}
	dl, ok0 := w.env.eval(cc.Args[0])
	xl, ok1 := w.env.eval(cc.Args[1])
	yl, ok2 := w.env.eval(cc.Args[2])
	if !ok0 || !ok1 || !ok2 {
		return "!subtle.XORBytes on the output with lengths the interpretation cannot determine"
	}
	n := min(xl, yl)
	if v := callValue(ci); v != nil {
		w.env.bind(v, n)
	}
	if dl < n {
		return "!subtle.XORBytes panics: destination shorter than the operands"
	}
	ra, pa, oka := c09Role(w, cc.Args[1])
	rb, pb, okb := c09Role(w, cc.Args[2])
	if oka && okb && ra == "ks" && rb == "in" {
		ra, pa, rb, pb = rb, pb, ra, pa
	}
	if !oka || !okb || ra != "in" || rb != "ks" {
		return fmt.Sprintf("!output bytes from %d on are not the XOR of input bytes and key-stream bytes", pos)
	}
	if pa != pos || pb != pos%64 || pb+n > 64 {
		return fmt.Sprintf("!output bytes from %d on are input bytes from %d on XOR key-stream bytes from %d on, specification: input bytes from %d on XOR key-stream bytes from %d on", pos, pa, pb, pos, pos%64)
	}
	for i := int64(0); i < n; i++ {
		w.events = append(w.events, fmt.Sprintf("W:%d", pos+i))
	}
	return ""
}

// ---------------------------------------------------------------------------
// salsa.XORKeyStream: portable forwarder / amd64 assembly wrapper

func c09Wrapper(c *Ctx) {
	f := c.fnOpt("salsa20/salsa", "XORKeyStream")
	if f == nil || len(f.Blocks) == 0 {
		return
	}
	const rule = "C09.wrapper"
	if len(f.Params) != 4 {
		c.undecided(rule, "salsa.XORKeyStream", f, "unexpected signature")
		return
	}
	gen := c.fnOpt("salsa20/salsa", "genericXORKeyStream")
	opaque := map[string]bool{}
	if gen != nil {
		opaque[gen.Name()] = true
	}
	outP, inP := f.Params[0], f.Params[1]
	bad, cases, nGen, nAsm, sawAsm := "", 0, 0, 0, false
	for _, n := range []int64{0, 1, 64, 65} {
		for _, dd := range []int64{-1, 0, 3} {
			if n+dd < 0 || bad != "" {
				continue
			}
			w := c09Walker(f, []string{"out", "in", "counter", "key"}, 4000, opaque)
			w.env.bind(outP, n+dd)
			w.env.bind(inP, n)
			first := func(w *pathWalker, v ssa.Value, role string) bool {
				ia, ok := stripConv(v).(*ssa.IndexAddr)
				if !ok {
					return false
				}
				r, o, isR := c09Role(w, ia.X)
				k, okk := w.env.eval(ia.Index)
				return isR && okk && r == role && o+k == 0
			}
			whole := func(w *pathWalker, v ssa.Value, role string) bool {
				r, o, isR := c09Role(w, v)
				return isR && r == role && o == 0
			}
			w.onCall = func(w *pathWalker, ci ssa.CallInstruction) string {
				cc := ci.Common()
				callee := cc.StaticCallee()
				switch {
				case callee != nil && callee == gen && len(cc.Args) == 4:
					lo, ok0 := w.env.eval(cc.Args[0])
					li, ok1 := w.env.eval(cc.Args[1])
					if !whole(w, cc.Args[0], "out") || !whole(w, cc.Args[1], "in") || !whole(w, cc.Args[2], "counter") || !whole(w, cc.Args[3], "key") ||
						!ok0 || !ok1 || li != n || lo != n+dd {
						return "!the portable implementation is not given (out, in, counter, key)"
					}
					return "G"
				case callee != nil && callee.Pkg == f.Pkg && len(callee.Blocks) == 0 && len(cc.Args) == 5:
					sawAsm = true
					if n+dd < n && !(w.oob || w.rootW().oob || w.beyondLen || w.rootW().beyondLen) {
						return "!the assembly routine is reached with an output shorter than the input"
					}
					cnt, okc := w.env.eval(cc.Args[2])
					if !first(w, cc.Args[0], "out") || !first(w, cc.Args[1], "in") || !okc || cnt != n || !first(w, cc.Args[3], "counter") || !first(w, cc.Args[4], "key") {
						return "!the assembly routine is not given (&out[0], &in[0], len(in), &counter[0], &key[0])"
					}
					return "A"
				case short(calleeName(cc)) == "builtin:copy":
					if p := c09Copy(w, cc); p != "" {
						return "!" + p
					}
				}
				return ""
			}
			end := w.walk(f.Blocks[0], nil)
			cases++
			id := fmt.Sprintf("len(in)=%d len(out)=%d", n, n+dd)
			set := func(s string) {
				if bad == "" {
					bad = id + ": " + s
				}
			}
			if end == "undecided" {
				set(w.why)
				continue
			}
			g, a := 0, 0
			for _, ev := range w.events {
				switch {
				case strings.HasPrefix(ev, "!"):
					set(ev[1:])
				case ev == "G":
					g++
				case ev == "A":
					a++
				}
			}
			nGen += g
			nAsm += a
			oob := w.oob || w.rootW().oob
			switch {
			case n == 0 && (a != 0 || g > 1 || oob || end != "return"):
				set("an empty input does not return before the implementation indexes it")
			case n > 0 && dd >= 0 && (g+a != 1 || end != "return"):
				set(fmt.Sprintf("neither the portable nor the assembly implementation is called exactly once (%d and %d calls)", g, a))
			case n > 0 && dd >= 0 && oob:
				set("a slice or index expression leaves its bounds")
			}
		}
	}
	construct, okDetail := "salsa.XORKeyStream (portable build)", "forwards (out, in, counter, key)"
	if nAsm > 0 || sawAsm {
		construct, okDetail = "salsa.XORKeyStream (amd64)", "(&out[0], &in[0], len(in), &counter[0], &key[0]); empty input returns first; a short output fails a bounds check first"
	}
	if bad == "" && nGen+nAsm == 0 {
		bad = "neither the portable nor the assembly implementation is called"
	}
	c.check(bad == "" && cases >= 11, rule, construct, f, okDetail, bad)
}

// c09Describe renders tracked bytes as runs: nonce[a:b], HSalsa20 output[a:b],
// n zero bytes, or a literal byte.
func c09Describe(vals []int64) string {
	var parts []string
	for i := 0; i < len(vals); {
		v := vals[i]
		j := i + 1
		switch {
		case v >= c09SubKeySym && v < c09SubKeySym+0x100:
			for j < len(vals) && vals[j] == vals[j-1]+1 && vals[j] < c09SubKeySym+0x100 {
				j++
			}
			parts = append(parts, fmt.Sprintf("HSalsa20 output[%d:%d]", v-c09SubKeySym, v-c09SubKeySym+int64(j-i)))
		case v >= c09NonceSym && v < c09NonceSym+0x100:
			for j < len(vals) && vals[j] == vals[j-1]+1 && vals[j] < c09NonceSym+0x100 {
				j++
			}
			parts = append(parts, fmt.Sprintf("nonce[%d:%d]", v-c09NonceSym, v-c09NonceSym+int64(j-i)))
		case v == 0:
			for j < len(vals) && vals[j] == 0 {
				j++
			}
			parts = append(parts, fmt.Sprintf("%d zero bytes", j-i))
		default:
			parts = append(parts, fmt.Sprintf("%#x", v))
		}
		i = j
	}
	return strings.Join(parts, " | ")
}
