package main

import (
	"fmt"
	"strings"

	"golang.org/x/tools/go/ssa"
)

func init() {
	register(&propDef{
		id: "C09", run: runC09, minOblig: 3,
		explanation: "Decides the nonce handling and the block-counter bookkeeping of the Salsa20 packages (not the Salsa20 core arithmetic, and nothing inside the amd64 assembly). (nonce dispatch) salsa20.XORKeyStream is interpreted (slices by length) for nonce lengths 0, 8, 12, 16, 24, 32, input lengths 0, 1, 64 and a shorter / equal / longer output: it panics exactly for an output shorter than the input or a nonce that is neither 8 nor 24 bytes; with 8 bytes the 16-byte counter block is nonce | 8 zero bytes under the caller's key; with 24 bytes the key is replaced by HSalsa20(key, nonce[0:16], sigma) written into a fresh 32-byte array and the counter block is nonce[16:24] | 8 zero bytes; salsa.XORKeyStream then receives (out, in, that block, that key). (64-bit counter carry, portable path) genericXORKeyStream is interpreted with the eight counter bytes as tracked state, for starting counters 0, 0xff, 0xffff, 2^32-1, 2^32, 2^40-1, 2^64-2, 2^64-1 and 1..3 full blocks with and without a partial tail: block j is produced by core(&block, counter + j), the little-endian counter in bytes 8..15 is incremented by exactly one after every full block including every carry chain (mod 2^64), the nonce bytes 0..7 are not touched, the caller's counter array is not written (value copy), each full block XORs 64 bytes and the tail XORs exactly the remaining bytes. The amd64 wrapper forwards (out, in, len(in), counter, key) in the assembly routine's parameter order and returns early for an empty input. NOT decided: Salsa20/20, HSalsa20 and Salsa20/8 core values; the counter handling inside salsa20_amd64.s; agreement of assembly and portable paths.",
		assumptions: []string{"salsa.core / salsa.HSalsa20 compute the specified functions", "the assembly routine increments the 64-bit counter like the portable loop (not analysable)"},
	})
	tech("C09", "flow-sensitive finite-domain interpretation of the nonce dispatch and of the byte-wise counter increment (counter bytes as tracked state) against the specification")
}

func runC09(c *Ctx) {
	c09Dispatch(c)
	c09Counter(c)
	if f := c.fnOpt("salsa20/salsa", "XORKeyStream"); f != nil && len(f.Blocks) > 0 {
		// either the amd64 wrapper or the noasm forwarder
		gen := callsNamed(f, "salsa20/salsa.genericXORKeyStream")
		asm := callsNamed(f, "salsa20/salsa.salsa2020XORKeyStream")
		switch {
		case len(gen) == 1:
			a := gen[0].Common().Args
			ok := a[0] == ssa.Value(f.Params[0]) && a[1] == ssa.Value(f.Params[1]) && a[2] == ssa.Value(f.Params[2]) && a[3] == ssa.Value(f.Params[3])
			c.check(ok, "C09.wrapper", "salsa.XORKeyStream (portable build)", f, "forwards (out, in, counter, key)", "the portable wrapper does not forward its arguments in order")
		case len(asm) == 1:
			a := asm[0].Common().Args
			first := func(v ssa.Value, p ssa.Value) bool {
				ia, ok := v.(*ssa.IndexAddr)
				if !ok || ia.X != p {
					return false
				}
				k, isK := constInt(ia.Index)
				return isK && k == 0
			}
			okN := false
			if cv, isC := a[2].(*ssa.Convert); isC {
				if cl, isL := cv.X.(*ssa.Call); isL && calleeName(&cl.Call) == "builtin:len" && cl.Call.Args[0] == ssa.Value(f.Params[1]) {
					okN = true
				}
			}
			ok := first(a[0], f.Params[0]) && first(a[1], f.Params[1]) && okN && first(a[3], f.Params[2]) && first(a[4], f.Params[3])
			// empty input returns before &in[0]
			e := newEnv()
			e.bindLen(f, f.Params[1], 0)
			_, _, blocks := e.reachableExits(f, nil)
			ok = ok && !blocks[asm[0].Block()]
			c.check(ok, "C09.wrapper", "salsa.XORKeyStream (amd64)", f, "(&out[0], &in[0], len(in), &counter[0], &key[0]); empty input returns first", "the assembly wrapper passes its arguments in the wrong order or indexes an empty input")
		default:
			c.fail("C09.wrapper", "salsa.XORKeyStream", f, "neither the portable nor the assembly implementation is called")
		}
	}
}

func c09Dispatch(c *Ctx) {
	f := c.fn("salsa20", "XORKeyStream")
	if f == nil {
		return
	}
	outP, inP, nonceP, keyP := f.Params[0], f.Params[1], f.Params[2], f.Params[3]
	var overlap []ssa.Value
	for _, ci := range calls(f, func(n string) bool { return strings.HasSuffix(n, "alias.InexactOverlap") }) {
		overlap = append(overlap, callValue(ci))
	}
	cases, bad := 0, ""
	for _, nl := range []int64{0, 8, 12, 16, 24, 32} {
		for _, n := range []int64{0, 1, 64} {
			for _, dd := range []int64{-1, 0, 3} {
				if n+dd < 0 || bad != "" {
					continue
				}
				w := &pathWalker{env: newEnv(), lengths: true, maxSteps: 4000}
				w.env.bind(outP, n+dd)
				w.env.bind(inP, n)
				w.env.bind(nonceP, nl)
				for _, v := range overlap {
					w.env.bind(v, 0)
				}
				var evs []string
				allocOfSlice := func(v ssa.Value) (string, int64, bool) {
					sl, ok := v.(*ssa.Slice)
					if !ok {
						return "", 0, false
					}
					al, ok := sl.X.(*ssa.Alloc)
					if !ok {
						return "", 0, false
					}
					lo := int64(0)
					if sl.Low != nil {
						lo, _ = w.env.eval(sl.Low)
					}
					return al.Comment, lo, true
				}
				nonceSl := func(v ssa.Value) (int64, int64, bool) {
					sl, ok := v.(*ssa.Slice)
					if !ok || sl.X != ssa.Value(nonceP) {
						return 0, 0, false
					}
					lo := int64(0)
					if sl.Low != nil {
						lo, _ = w.env.eval(sl.Low)
					}
					l, _ := w.env.eval(sl)
					return lo, l, true
				}
				w.onCall = func(w *pathWalker, ci ssa.CallInstruction) string {
					cc := ci.Common()
					switch short(calleeName(cc)) {
					case "builtin:copy":
						dn, doff, ok1 := allocOfSlice(cc.Args[0])
						so, sl, ok2 := nonceSl(cc.Args[1])
						if ok1 && ok2 {
							dl, _ := w.env.eval(cc.Args[0])
							evs = append(evs, fmt.Sprintf("%s[%d:+%d]=nonce[%d:+%d]", dn, doff, min(dl, sl), so, min(dl, sl)))
						} else {
							evs = append(evs, "copy?")
						}
					case "salsa20/salsa.HSalsa20":
						name := func(v ssa.Value) string {
							if al, ok := v.(*ssa.Alloc); ok {
								return al.Comment
							}
							if v == ssa.Value(keyP) {
								return "key"
							}
							if g, ok := v.(*ssa.Global); ok {
								return g.Name()
							}
							return "?"
						}
						evs = append(evs, fmt.Sprintf("HSalsa20(%s,%s,%s,%s)", name(cc.Args[0]), name(cc.Args[1]), name(cc.Args[2]), name(cc.Args[3])))
					case "salsa20/salsa.XORKeyStream":
						k := "?"
						switch x := cc.Args[3].(type) {
						case *ssa.Phi:
							// resolved by the walker: which incoming value
							if n, ok := w.env.eval(x); ok {
								k = fmt.Sprint(n)
							}
							_ = x
							k = "phi"
						default:
							if cc.Args[3] == ssa.Value(keyP) {
								k = "key"
							} else if al, ok := cc.Args[3].(*ssa.Alloc); ok {
								k = al.Comment
							}
						}
						ctr := "?"
						if al, ok := cc.Args[2].(*ssa.Alloc); ok {
							ctr = al.Comment
						}
						okIO := cc.Args[0] == ssa.Value(outP) && cc.Args[1] == ssa.Value(inP)
						evs = append(evs, fmt.Sprintf("salsa.XORKeyStream(io=%v,%s,%s)", okIO, ctr, k))
					}
					return ""
				}
				// which key reaches salsa.XORKeyStream: follow the phi
				keyAt := ""
				w.onPhi = func(w *pathWalker, ph *ssa.Phi, in ssa.Value) {
					if ph.Comment == "key" {
						if in == ssa.Value(keyP) {
							keyAt = "key"
						} else if al, ok := in.(*ssa.Alloc); ok {
							keyAt = al.Comment
						}
					}
				}
				end := w.walk(f.Blocks[0], nil)
				cases++
				id := fmt.Sprintf("len(nonce)=%d len(in)=%d len(out)=%d", nl, n, n+dd)
				wantPanic := dd < 0 || (nl != 8 && nl != 24)
				if end == "undecided" {
					bad = id + ": " + w.why
					break
				}
				if wantPanic != (end == "panic") {
					bad = fmt.Sprintf("%s: panics=%v", id, end == "panic")
					break
				}
				if wantPanic {
					continue
				}
				got := strings.ReplaceAll(strings.Join(evs, " "), ",phi)", ","+keyAt+")")
				want := "subNonce[0:+8]=nonce[0:+8] salsa.XORKeyStream(io=true,subNonce,key)"
				if nl == 24 {
					want = "hNonce[0:+16]=nonce[0:+16] HSalsa20(subKey,hNonce,key,Sigma) subNonce[0:+8]=nonce[16:+8] salsa.XORKeyStream(io=true,subNonce,subKey)"
				}
				if got != want {
					bad = fmt.Sprintf("%s: code performs [%s], specification [%s]", id, got, want)
				}
			}
		}
	}
	c.check(bad == "" && cases > 40, "C09.nonce", "salsa20.XORKeyStream nonce dispatch", f, fmt.Sprintf("%d (nonce, input, output length) cases", cases), bad)
}

func c09Counter(c *Ctx) {
	f := c.fn("salsa20/salsa", "genericXORKeyStream")
	if f == nil {
		return
	}
	outP, inP := f.Params[0], f.Params[1]
	inits := []uint64{0, 0xff, 0xffff, 1<<32 - 1, 1 << 32, 1<<40 - 1, 1<<64 - 2, 1<<64 - 1}
	cases, bad := 0, ""
	for _, init := range inits {
		for _, full := range []int64{0, 1, 2, 3} {
			for _, tail := range []int64{0, 17} {
				if bad != "" {
					continue
				}
				n := 64*full + tail
				w := &pathWalker{env: newEnv(), lengths: true, maxSteps: 60000, opaque: map[string]bool{"core": true}}
				w.env.bind(outP, n)
				w.env.bind(inP, n)
				w.state = map[string]int64{}
				for i := 0; i < 8; i++ {
					w.state[fmt.Sprintf("counterCopy[%d]", i)] = int64(0xA0 + i) // nonce bytes: must stay
					w.state[fmt.Sprintf("counterCopy[%d]", 8+i)] = int64(byte(init >> (8 * i)))
				}
				snapshot := func() uint64 {
					var v uint64
					for i := 0; i < 8; i++ {
						v |= uint64(byte(w.state[fmt.Sprintf("counterCopy[%d]", 8+i)])) << (8 * i)
					}
					return v
				}
				var blocks []uint64
				var runs []int64 // output bytes written after each key-stream block was generated
				xors := int64(0)
				problem := ""
				w.onCall = func(w *pathWalker, ci ssa.CallInstruction) string {
					cc := ci.Common()
					if short(calleeName(cc)) == "salsa20/salsa.core" {
						al, ok := cc.Args[1].(*ssa.Alloc)
						if !ok || al.Comment != "counterCopy" {
							problem = "core is not given the local counter copy"
						}
						blocks = append(blocks, snapshot())
						runs = append(runs, 0)
					}
					return ""
				}
				w.onStore = func(w *pathWalker, st *ssa.Store) string {
					if ia, ok := st.Addr.(*ssa.IndexAddr); ok {
						if w.valueIsParamDerived(ia.X, outP) {
							xors++
							if len(runs) == 0 {
								problem = "output bytes are produced before the first key-stream block is generated"
							} else {
								runs[len(runs)-1]++
							}
						}
						if p := w.path(ia.X); strings.HasPrefix(p, "counter") && !strings.HasPrefix(p, "counterCopy") {
							problem = "the caller's counter array is written"
						}
					}
					return ""
				}
				end := w.walk(f.Blocks[0], nil)
				cases++
				id := fmt.Sprintf("counter=%#x blocks=%d tail=%d", init, full, tail)
				if end != "return" {
					bad = id + ": evaluation ended with " + end + " " + w.why
					continue
				}
				wantBlocks := full
				if tail > 0 {
					wantBlocks++
				}
				if int64(len(blocks)) != wantBlocks {
					bad = fmt.Sprintf("%s: %d key-stream blocks generated, %d needed", id, len(blocks), wantBlocks)
					continue
				}
				for j, b := range blocks {
					if b != init+uint64(j) {
						bad = fmt.Sprintf("%s: block %d is generated with counter %#x, expected %#x (64-bit little-endian carry)", id, j, b, init+uint64(j))
					}
				}
				if got := snapshot(); got != init+uint64(full) {
					bad = fmt.Sprintf("%s: counter after the call %#x, expected %#x", id, got, init+uint64(full))
				}
				for i := 0; i < 8; i++ {
					if w.state[fmt.Sprintf("counterCopy[%d]", i)] != int64(0xA0+i) {
						bad = id + ": the nonce half of the counter block is modified"
					}
				}
				if xors != n {
					bad = fmt.Sprintf("%s: %d output bytes written, %d expected", id, xors, n)
				}
				for j, r := range runs {
					wantRun := int64(64)
					if int64(j) == full {
						wantRun = tail
					}
					if r != wantRun {
						bad = fmt.Sprintf("%s: %d output bytes are produced from key-stream block %d, expected %d (each block must be generated before it is used)", id, r, j, wantRun)
					}
				}
				if problem != "" {
					bad = id + ": " + problem
				}
				if w.oob {
					bad = id + ": a slice expression leaves its bounds"
				}
			}
		}
	}
	c.check(bad == "" && cases == len(inits)*8, "C09.counter", "genericXORKeyStream 64-bit counter", f, fmt.Sprintf("%d (starting counter, full blocks, tail) cases incl. every carry chain boundary", cases), bad)
}

// valueIsParamDerived: v is the parameter p or a reslice / loop-carried phi of it.
func (w *pathWalker) valueIsParamDerived(v ssa.Value, p ssa.Value) bool {
	seen := map[ssa.Value]bool{}
	var rec func(v ssa.Value, d int) bool
	rec = func(v ssa.Value, d int) bool {
		if v == p {
			return true
		}
		if seen[v] || d > 12 {
			return false
		}
		seen[v] = true
		switch x := v.(type) {
		case *ssa.Slice:
			return rec(x.X, d+1)
		case *ssa.Phi:
			for _, e := range x.Edges {
				if rec(e, d+1) {
					return true
				}
			}
		}
		return false
	}
	return rec(v, 0)
}
