package main

import (
	"fmt"
	"strings"

	"golang.org/x/tools/go/ssa"
)

// boundsSweep: length-abstract interpretation of a parsing function for every
// combination of lengths 0..maxLen of the given slice/string parameters, with
// ALL content unknown: every branch that depends on content is explored on
// both edges (loops over unknown-length remainders are cut off after three
// unrollings). Lengths and constant offsets stay exact, so an index or a
// slice bound that can leave its operand — because a length test is missing,
// too weak, or placed after the access — is found on the explored path; an
// access whose bound depends on content the walker cannot relate to a length
// is not judged (reported as "unjudged" in the count, never as a violation).
// Calls are not followed; encoding/binary fixed-width reads/writes are
// modelled by the minimum length they need.
type sweepResult struct {
	cases, cutoffs int
	bad            string
}

func (c *Ctx) boundsSweep(f *ssa.Function, params []int, maxLen int64, extra func(w *pathWalker), minLens ...int64) sweepResult {
	var res sweepResult
	lens := make([]int64, len(params))
	var rec func(i int)
	rec = func(i int) {
		if res.bad != "" {
			return
		}
		if i < len(params) {
			lo := int64(0)
			if i < len(minLens) {
				lo = minLens[i] // caller contract (checked where the table says so)
			}
			for l := lo; l <= maxLen; l++ {
				lens[i] = l
				rec(i + 1)
			}
			return
		}
		w := &pathWalker{env: newEnv(), lengths: true, maxSteps: 8000, fork: true}
		for j, pi := range params {
			w.env.bind(f.Params[pi], lens[j])
		}
		w.onCall = func(w *pathWalker, ci ssa.CallInstruction) string {
			cc := ci.Common()
			n := short(calleeName(cc))
			need := int64(0)
			for _, p := range []struct {
				s string
				n int64
			}{{"Uint16", 2}, {"Uint32", 4}, {"Uint64", 8}} {
				if strings.HasPrefix(n, "(encoding/binary.bigEndian)."+p.s) || strings.HasPrefix(n, "(encoding/binary.littleEndian)."+p.s) ||
					strings.HasPrefix(n, "(encoding/binary.bigEndian).Put"+p.s) || strings.HasPrefix(n, "(encoding/binary.littleEndian).Put"+p.s) {
					need = p.n
				}
			}
			// content predicates that imply a length relation
			switch n {
			case "bytes.HasPrefix", "bytes.HasSuffix", "strings.HasPrefix", "strings.HasSuffix", "bytes.Equal":
				a, ok1 := w.env.eval(cc.Args[0])
				b, ok2 := w.env.eval(cc.Args[1])
				if v, isV := ci.(ssa.Value); isV && ok1 && ok2 && (a < b || n == "bytes.Equal" && a != b) {
					w.env.bind(v, 0)
				}
			}
			if need > 0 && len(cc.Args) >= 2 {
				if l, ok := w.env.eval(cc.Args[1]); ok && l < need {
					w.markOOB(ci)
				}
			}
			return ""
		}
		if extra != nil {
			extra(w)
		}
		end := w.walk(f.Blocks[0], nil)
		res.cases++
		res.cutoffs += w.cutoffs
		ends := append([]string{}, w.forkEnds...)
		if end != "forked" {
			ends = append(ends, end)
		}
		id := fmt.Sprintf("parameter lengths %v", lens)
		for _, e := range ends {
			if e == "undecided" {
				res.bad = id + ": " + w.why
				return
			}
		}
		if w.oob || w.beyondLen {
			at := ""
			if w.oobAt != nil {
				at = " at " + c.posStr(w.oobAt.Pos())
			}
			res.bad = id + ": an index or slice bound can leave its operand" + at
		}
	}
	rec(0)
	return res
}

// sweepFunctions applies boundsSweep to a table of parser functions.
type sweepTarget struct {
	pkg, fn string
	params  []int
	maxLen  int64
	minLen  []int64 // caller contract per parameter (0 when absent)
}

func (c *Ctx) sweepFunctions(rule string, targets []sweepTarget) {
	for _, t := range targets {
		f := c.fn(t.pkg, t.fn)
		if f == nil {
			continue
		}
		okIdx := true
		for _, pi := range t.params {
			if pi >= len(f.Params) {
				okIdx = false
			}
		}
		if !okIdx {
			c.fail(rule, t.pkg+"."+t.fn, f, "the function's parameter list changed: sweep table entry no longer applies (anchor lost)")
			continue
		}
		r := c.boundsSweep(f, t.params, t.maxLen, nil, t.minLen...)
		c.check(r.bad == "" && r.cases > 0, rule, t.pkg+"."+t.fn, f,
			fmt.Sprintf("%d length cases (0..%d), unknown content on both branch edges, %d loop cut-offs: no index or slice bound leaves its operand", r.cases, t.maxLen, r.cutoffs),
			r.bad+" — index/slice out of range panic on crafted input")
	}
}

// sweepSurvey (development aid, SWEEP_SURVEY=1): run the sweep on every
// function of the parser packages that takes byte slices or strings.
func (c *Ctx) sweepSurvey() {
	for _, pkg := range []string{"ssh", "ssh/agent", "ssh/knownhosts", "openpgp/packet", "openpgp/armor", "openpgp/clearsign", "openpgp", "otr", "ocsp", "pkcs12", "bcrypt", "cryptobyte", "acme", "internal/poly1305", "nacl/secretbox", "nacl/box", "nacl/sign", "nacl/auth"} {
		for _, f := range c.funcsOfPkg(pkg) {
			var ps []int
			for i, p := range f.Params {
				t := p.Type().Underlying().String()
				if t == "[]byte" || t == "string" {
					ps = append(ps, i)
				}
			}
			if len(ps) == 0 || len(ps) > 2 || len(f.Blocks) == 0 {
				continue
			}
			r := c.boundsSweep(f, ps, 9, nil)
			if r.bad != "" {
				fmt.Printf("SWEEP %s.%s: %s\n", pkg, fnName(f), r.bad)
			} else {
				fmt.Printf("SWEEPOK %s.%s cases=%d cutoffs=%d\n", pkg, fnName(f), r.cases, r.cutoffs)
			}
		}
	}
}
