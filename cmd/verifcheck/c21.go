package main

import (
	"fmt"
	"go/token"
	"strings"

	"golang.org/x/tools/go/ssa"
)

func init() {
	register(&propDef{
		id: "C21", run: runC21, minOblig: 10,
		explanation: "Decides verify/guard discipline of PKCS#12 decoding: (MAC first) getSafeContents returns bags only behind verifyMac == nil over the authenticated-safe content bytes and the MacData of the same PFX (the documented empty-password retry included), a MAC mismatch is ErrIncorrectPassword, and the safe contents are decoded from the very bytes that were MACed; verifyMac compares with hmac.Equal, bounds the iteration count (evaluated) and derives the key with ID 3; (padding) in pbDecrypt the padding length taken from the last plaintext byte is used as a slice bound only for 1 <= ps <= blockSize and ps <= len (grid evaluation incl. 0, blockSize+1, 255) and empty / non-block-multiple ciphertexts are refused before CryptBlocks; the iteration count of the PBE parameters is bounded; (KDF block filling) fillWithRepeats evaluates to v*ceil(len/v) bytes for every pattern length 1..300 with v = 64 (RFC 7292 appendix B.2 steps 2-3, incl. the exact multiples 64/128/192) and the repeat count covers that length; (BMP strings) decodeBMPString rejects odd lengths before indexing pairs. NOT decided: KDF output values, OpenSSL interoperability, absence of every implicit panic.",
		assumptions: []string{"crypto/hmac.Equal is constant-time equality", "bytes.Repeat(p, n) has length n*len(p)"},
	})
	tech("C21", "must-cross CFG rules, argument provenance, finite-domain evaluation of padding guards and of the KDF block-filling arithmetic")
}

func runC21(c *Ctx) {
	sweepC21(c)
	const pk = "pkcs12"
	if f := c.fn(pk, "getSafeContents"); f != nil {
		acc := acceptReturns(f, 2)
		vm := callsNamed(f, "pkcs12.verifyMac")
		// success = the last verifyMac's nil edge or the first's nil edge: the err tested before continuing is a phi
		var pass []edge
		for _, ci := range vm {
			y, _ := errSuccessEdges(ci.(*ssa.Call))
			pass = append(pass, y...)
			for _, ev := range errResult(ci.(*ssa.Call)) {
				for _, r := range *ev.Referrers() {
					if ph, ok := r.(*ssa.Phi); ok {
						y2, _ := edgesWhere(ph, isNil)
						pass = append(pass, y2...)
					}
				}
			}
		}
		c.mustCross("C21.mac-first", "getSafeContents", f, acc, pass, "verifyMac(...) == nil")
		okArgs := len(vm) >= 1
		var macd ssa.Value
		for _, ci := range vm {
			a := ci.Common().Args
			_, f0, _, ok0 := fieldOf(a[0])
			p1 := accessPath(a[1])
			if !ok0 || f0 != "MacData" || !strings.HasSuffix(p1, "AuthSafe.Content.Bytes") {
				okArgs = false
			}
			macd = a[1]
		}
		// the bags are decoded from the MACed bytes
		decOK := false
		for _, ci := range callsNamed(f, "pkcs12.unmarshal") {
			if strings.HasSuffix(accessPath(ci.Common().Args[0]), "AuthSafe.Content.Bytes") && len(vm) > 0 && precedes(vm[0], ci) {
				decOK = true
			}
		}
		_ = macd
		c.check(okArgs && decOK, "C21.mac-first", "getSafeContents MAC covers what is decoded", f, "the MAC is verified over AuthSafe.Content.Bytes, which is what is decoded afterwards", "the MAC is not verified over the bytes that are subsequently decoded")
	}
	if f := c.fn(pk, "verifyMac"); f != nil {
		acc := acceptReturns(f, 0)
		eq := callsNamed(f, "crypto/hmac.Equal")
		c.mustCross("C21.mac", "verifyMac", f, acc, callSuccess(eq, 0, isTrue), "hmac.Equal(stored digest, computed MAC) == true")
		// mismatch -> ErrIncorrectPassword
		okErr := false
		for _, e := range callFailure(eq, 0, isTrue) {
			blk := e.to()
			if r, ok := blk.Instrs[len(blk.Instrs)-1].(*ssa.Return); ok && accessPath(retVal(r, 0)) == "ErrIncorrectPassword" {
				okErr = true
			}
		}
		c.check(okErr, "C21.mac", "verifyMac mismatch", f, "a wrong MAC yields ErrIncorrectPassword", "a MAC mismatch does not yield ErrIncorrectPassword")
		maxIt, _ := pkgConstInt(c, pk, "maxIterations")
		kdf := callsNamed(f, "pkcs12.pbkdf")
		bad := ""
		if len(kdf) != 1 {
			bad = "pbkdf call not found"
		} else {
			for _, n := range []int64{-1, 0, 1, 2048, maxIt, maxIt + 1, 1 << 40} {
				e := newEnv()
				e.bindField(f, "macData", "Iterations", n)
				allInstrs(f, func(in ssa.Instruction) {
					if call, ok := in.(*ssa.Call); ok && strings.HasSuffix(calleeName(&call.Call), ".Equal") && call != eq[0] {
						e.bind(call, 1) // digest algorithm is SHA-1
					}
				})
				e.solve(f)
				if e.reach[kdf[0].Block()] != (n >= 0 && n <= maxIt) {
					bad = fmt.Sprintf("iterations=%d: key derivation runs=%v (limit %d)", n, e.reach[kdf[0].Block()], maxIt)
				}
			}
			if id, ok := constInt(kdf[0].Common().Args[6]); !ok || id != 3 {
				bad = "the MAC key is not derived with ID 3"
			}
		}
		c.check(bad == "", "C21.mac", "verifyMac iterations/ID", f, "iteration count bounded; MAC key derived with ID 3", bad)
	}
	// ---- pbDecrypt
	if f := c.fn(pk, "pbDecrypt"); f != nil {
		var ps ssa.Value // int(decrypted[len-1])
		allInstrs(f, func(in ssa.Instruction) {
			if cv, ok := in.(*ssa.Convert); ok {
				if u, ok := cv.X.(*ssa.UnOp); ok && u.Op == token.MUL {
					if _, isIA := u.X.(*ssa.IndexAddr); isIA {
						ps = cv
					}
				}
			}
		})
		var bs ssa.Value
		for _, ci := range callsNamed(f, "pkcs12.pbDecrypterFor") {
			for _, v := range resultN(ci.(*ssa.Call), 1) {
				bs = v
			}
		}
		var mk *ssa.MakeSlice
		allInstrs(f, func(in ssa.Instruction) {
			if m, ok := in.(*ssa.MakeSlice); ok {
				mk = m
			}
		})
		var cb ssa.CallInstruction
		for _, ci := range calls(f, nameIs("invoke:(crypto/cipher.BlockMode).CryptBlocks")) {
			cb = ci
		}
		bad := ""
		if ps == nil || bs == nil || mk == nil || cb == nil {
			bad = "anchors not found (padding length, block size, buffer, CryptBlocks)"
		} else {
			// slices bounded by psLen
			var sls []*ssa.Slice
			allInstrs(f, func(in ssa.Instruction) {
				if sl, ok := in.(*ssa.Slice); ok && (dependsOn(sl.Low, ps, 4) || dependsOn(sl.High, ps, 4)) {
					sls = append(sls, sl)
				}
			})
			if len(sls) < 2 {
				bad = "slices bounded by the padding length not found"
			}
			for _, L := range []int64{8, 16, 24} {
				for _, B := range []int64{8} {
					for _, P := range []int64{0, 1, 7, 8, 9, 16, 17, 255} {
						e := newEnv()
						e.bind(ps, P)
						e.bind(bs, B)
						allInstrs(f, func(in ssa.Instruction) {
							if call, ok := in.(*ssa.Call); ok && calleeName(&call.Call) == "builtin:len" {
								e.bind(call, L)
							}
						})
						e.bindNilTests(f, func(v ssa.Value) bool { return strings.HasSuffix(v.Type().String(), "error") }, true)
						e.solve(f)
						want := P >= 1 && P <= B && P <= L
						for _, sl := range sls {
							if e.reach[sl.Block()] != want {
								bad = fmt.Sprintf("len=%d blockSize=%d padding byte=%d: padding slice reached=%v, specification %v", L, B, P, e.reach[sl.Block()], want)
							}
						}
					}
				}
			}
			// empty / non-multiple refused before CryptBlocks
			for _, tc := range []struct {
				l, b int64
				want bool
			}{{0, 8, false}, {7, 8, false}, {8, 8, true}, {12, 8, false}, {16, 8, true}} {
				e := newEnv()
				e.bind(bs, tc.b)
				allInstrs(f, func(in ssa.Instruction) {
					if call, ok := in.(*ssa.Call); ok && calleeName(&call.Call) == "builtin:len" {
						e.bind(call, tc.l)
					}
				})
				e.bindNilTests(f, func(v ssa.Value) bool { return strings.HasSuffix(v.Type().String(), "error") }, true)
				e.solve(f)
				if e.reach[cb.Block()] != tc.want {
					bad = fmt.Sprintf("ciphertext of %d bytes, block size %d: CryptBlocks reached=%v", tc.l, tc.b, e.reach[cb.Block()])
				}
			}
		}
		c.check(bad == "", "C21.padding", "pbDecrypt", f, "the padding byte bounds a slice only for 1 <= ps <= blockSize, ps <= len; malformed lengths refused before decryption", bad)
		// padding content verified
		acc := acceptReturns(f, 1)
		c.mustCross("C21.padding", "pbDecrypt padding bytes", f, acc, callSuccess(callsNamed(f, "bytes.Equal"), 0, isTrue), "bytes.Equal(padding, repeat(ps))")
	}
	if f := c.fn(pk, "pbDecrypterFor"); f != nil {
		maxIt, _ := pkgConstInt(c, pk, "maxIterations")
		var dk ssa.CallInstruction
		for _, ci := range calls(f, func(n string) bool { return strings.HasSuffix(n, ".deriveKey") }) {
			dk = ci
		}
		bad := ""
		if dk == nil {
			bad = "deriveKey call not found"
		} else {
			for _, n := range []int64{-1, 0, 2048, maxIt, maxIt + 1} {
				e := newEnv()
				e.bindPath(f, "params.Iterations", n)
				cut := e.cuts(f)
				// from the unmarshal of the parameters
				got := false
				for _, ci := range callsNamed(f, "pkcs12.unmarshal") {
					yes, _ := errSuccessEdges(ci.(*ssa.Call))
					for _, y := range yes {
						if reach([]*ssa.BasicBlock{y.to()}, cut)[dk.Block()] {
							got = true
						}
					}
				}
				if got != (n >= 0 && n <= maxIt) {
					bad = fmt.Sprintf("PBE iterations=%d: key derivation runs=%v", n, got)
				}
			}
		}
		c.check(bad == "", "C21.iterations", "pbDecrypterFor", f, "PBE iteration count bounded before key derivation", bad)
	}
	// ---- fillWithRepeats arithmetic (by interpretation: independent of how the
	// repetition is written; the shape-based form below is no longer run)
	c21Fill(c, pk)
	if f := c.fnOpt(pk, "fillWithRepeats"); f != nil && false {
		var rep *ssa.Call
		for _, ci := range callsNamed(f, "bytes.Repeat") {
			rep = ci.(*ssa.Call)
		}
		var outSlice *ssa.Slice
		allInstrs(f, func(in ssa.Instruction) {
			if sl, ok := in.(*ssa.Slice); ok && rep != nil && sl.X == ssa.Value(rep) {
				outSlice = sl
			}
		})
		bad := ""
		if rep == nil || outSlice == nil || outSlice.High == nil {
			bad = "bytes.Repeat(pattern, n)[:outputLen] shape not found"
		} else {
			const v = 64
			for n := int64(1); n <= 300; n++ {
				e := newEnv()
				e.bindLen(f, f.Params[0], n)
				e.bind(f.Params[1], v)
				e.solve(f)
				out, ok1 := e.eval(outSlice.High)
				cnt, ok2 := e.eval(rep.Call.Args[1])
				want := v * ((n + v - 1) / v)
				if !ok1 || !ok2 || out != want || cnt*n < out {
					bad = fmt.Sprintf("pattern of %d bytes, v=64: output length %d (ok=%v), repeat count %d (ok=%v); RFC 7292 B.2 requires v*ceil(len/v) = %d", n, out, ok1, cnt, ok2, want)
					break
				}
			}
			// empty pattern -> nil
			e := newEnv()
			e.bindLen(f, f.Params[0], 0)
			e.solve(f)
			if e.reach[rep.Block()] {
				bad = "an empty pattern reaches the repeat (division by zero)"
			}
		}
		c.check(bad == "", "C21.kdf-fill", "fillWithRepeats", f, "v*ceil(len/v) bytes for every pattern length 1..300 (v=64); empty pattern gives nil", bad)
	}
	if f := c.fn(pk, "decodeBMPString"); f != nil {
		bad := ""
		var idx []ssa.Instruction
		allInstrs(f, func(in ssa.Instruction) {
			if ia, ok := in.(*ssa.IndexAddr); ok {
				if k, okk := constInt(ia.Index); okk && k == 1 {
					idx = append(idx, ia)
				}
			}
		})
		if len(idx) == 0 {
			bad = "pair indexing not found"
		}
		for _, n := range []int64{1, 3, 5} {
			e := newEnv()
			e.bindLen(f, f.Params[0], n)
			e.solve(f)
			for _, i := range idx {
				if e.reach[i.Block()] {
					bad = fmt.Sprintf("odd length %d reaches pair indexing", n)
				}
			}
		}
		c.check(bad == "", "C21.bmp", "decodeBMPString", f, "odd-length input is rejected before pairs are indexed", bad)
	}
}
