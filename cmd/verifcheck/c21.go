package main

func init() {
	register(&propDef{
		id: "C21", run: runC21, minOblig: 10,
		explanation: "Decides verify/guard discipline of PKCS#12 decoding, independently of how the code is split into helpers. (MAC first, interprocedural must-cross) every accepting return of getSafeContents lies behind a branch on which a verifyMac verdict (the call's error, a phi of such errors for the documented empty-password retry, or the error of a package helper that hands such a verdict back) is nil; verifyMac is given the MacData and the AuthSafe.Content.Bytes of one and the same PFX object, and those very bytes are decoded only behind the verdict. (verifyMac, interpreted for 15 cases with pbkdf opaque) nil is returned exactly when a constant-time comparison (hmac.Equal / subtle.ConstantTimeCompare) of the stored digest with HMAC(key, message) holds, the key being pbkdf(MacSalt, password, Iterations, ID 3), which runs only for 0 <= Iterations <= maxIterations; a mismatch is ErrIncorrectPassword. (padding, pbDecrypt interpreted on byte contents for block sizes 8/16, lengths 1-3 blocks, padding bytes 0, 1, 2, bs-1, bs, bs+1, 2bs, ..., 255 and every single corrupted padding byte) the plaintext written by CryptBlocks is accepted only for 1 <= ps <= blockSize, ps <= len with the last ps bytes all equal to ps, the result is then the plaintext without them, otherwise an error; empty / non-block-multiple ciphertexts are refused before CryptBlocks; no index or slice leaves its operand. The PBE iteration count is bounded before any key/IV derivation (pbDecrypterFor interpreted for 7 counts x 2 algorithms). (KDF block filling) fillWithRepeats returns v*ceil(len/v) bytes with byte i = pattern[i mod len] for every pattern length 0..300 and v in {64,128} (RFC 7292 appendix B.2 steps 2-3, incl. the exact multiples). (BMP strings) decodeBMPString rejects odd lengths before decoding and consumes even lengths pair by pair within bounds (lengths 0..9, with and without terminator). NOT decided: KDF output values, OpenSSL interoperability, absence of every implicit panic.",
		assumptions: []string{"crypto/hmac.Equal and crypto/subtle.ConstantTimeCompare are constant-time equality", "bytes.Repeat, bytes.Equal, bytes.HasSuffix, copy, append behave as documented (they are modelled on byte contents)", "a function of package pkcs12 returning a cipher.BlockMode (pbDecrypterFor) yields a decrypter with the block size it reports"},
	})
	tech("C21", "interprocedural must-cross (helpers expanded in place) with verdict provenance; abstract interpretation (pathWalker, helpers followed) on byte contents of verifyMac, pbDecrypt, pbDecrypterFor, fillWithRepeats, decodeBMPString")
}

func runC21(c *Ctx) {
	sweepC21(c)
	const pk = "pkcs12"
	// getSafeContents: MAC first, over the bytes that are decoded (interprocedural must-cross)
	c21MacFirst(c, pk)
	// verifyMac, pbDecrypt, pbDecrypterFor, fillWithRepeats, decodeBMPString: by
	// interpretation (pathWalker with helpers of the package followed, byte
	// contents modelled by c21Sim), so the rules do not depend on how the code
	// is factored or which equivalent library call it uses
	c21VerifyMac(c, pk)
	c21Padding(c, pk)
	c21Iterations(c, pk)
	c21Fill(c, pk)
	c21BMP(c, pk)
}
