package main

import (
	"fmt"
	"go/token"
	"go/types"
	"strings"

	"golang.org/x/tools/go/ssa"
)

func init() {
	register(&propDef{
		id: "C41", run: runC41, minOblig: 18,
		explanation: "Decides the OpenSSH certificate-validity skeleton: CertChecker.CheckCert returns nil only behind each gate with a rejecting edge — revocation (evaluated: IsRevoked set and true => reject), every critical option other than source-address must be found in SupportedCriticalOptions, the principal must be found when ValidPrincipals is non-empty (the comparison is with the principal parameter), the validity window, and the CA signature Verify (receiver skKeyWithoutUP(cert.SignatureKey), arguments cert.bytesForSigning() and cert.Signature of the same certificate); the validity window is evaluated with Go's uint64->int64 conversion semantics over a grid of (ValidAfter, ValidBefore, now) including 0, now±1, 2^63-1, 2^63, 2^64-2 and 2^64-1 and must equal 0 <= after <= now < before with before = 2^64-1 meaning forever and values >= 2^63 rejected; Authenticate / CheckHostKey return success only behind the certificate-type test (user / host), the authority callback on cert.SignatureKey and CheckCert, and CheckHostKey passes the host without port; parseCert rejects a certificate-typed signature key before parsing it, leaves no trailing signature bytes, and parseTuples enforces strictly increasing keys. SIGNED-BYTES clause: the CA signature must be verified over the received bytes — on the pinned tree bytesForSigning re-marshals the parsed structure (KNOWN FINDING, see known_findings.json). NOT decided: ssh-keygen byte equality of SignCert output.",
		assumptions: []string{"time.Time.Unix contract", "PublicKey.Verify implementations (C40)"},
	})
	tech("C41", "must-cross CFG rules, finite-domain evaluation of the validity window with fixed-width conversions, provenance rule for the signed bytes")
}

func runC41(c *Ctx) {
	sweepC41(c)
	f := c.fn("ssh", "(*CertChecker).CheckCert")
	if f == nil {
		return
	}
	acc := acceptReturns(f, 0)
	cert := param(f, "cert")
	principal := param(f, "principal")
	if cert == nil || principal == nil {
		cert, principal = f.Params[2], f.Params[1]
	}
	// ---- revocation
	var revCall *ssa.Call
	allInstrs(f, func(in ssa.Instruction) {
		if call, ok := in.(*ssa.Call); ok {
			if _, fld, _, ok := fieldOf(call.Call.Value); ok && fld == "IsRevoked" {
				revCall = call
			}
		}
	})
	if revCall == nil {
		c.fail("C41.revocation", "CheckCert IsRevoked", f, "revocation callback is not consulted")
	} else {
		bad := ""
		for _, tc := range [][2]int64{{1, 1}, {1, 0}, {0, 0}} { // (callback set, result)
			e := newEnv()
			e.bindNilTests(f, func(v ssa.Value) bool { return isField(v, "CertChecker", "IsRevoked") }, tc[0] == 0)
			e.bind(revCall, tc[1])
			e.solve(f)
			got := false
			for _, t := range acc {
				if e.reach[t.Block()] {
					got = true
				}
			}
			want := !(tc[0] == 1 && tc[1] == 1)
			if got != want {
				bad = fmt.Sprintf("IsRevoked set=%d result=%d: acceptance reachable=%v", tc[0], tc[1], got)
			}
		}
		c.check(bad == "" && revCall.Call.Args[0] == ssa.Value(cert), "C41.revocation", "CheckCert IsRevoked", revCall, "a revoked certificate is rejected before anything else is accepted", bad+" (or the callback is not given this certificate)")
	}
	// ---- found-loops: critical options and principals
	c41FoundLoops(c, f, acc, principal)
	// ---- validity window
	c41Window(c, f, acc)
	// ---- CA signature
	var ver *ssa.Call
	for _, ci := range calls(f, nameIs("invoke:(ssh.PublicKey).Verify")) {
		ver = ci.(*ssa.Call)
	}
	if ver == nil {
		c.fail("C41.ca-signature", "CheckCert Verify", f, "no signature verification")
	} else {
		yes, _ := errSuccessEdges(ver)
		c.mustCross("C41.ca-signature", "CheckCert Verify", f, acc, yes, "the CA signature Verify == nil")
		okRecv := false
		if call, ok := ver.Call.Value.(*ssa.Call); ok && short(calleeName(&call.Call)) == "ssh.skKeyWithoutUP" {
			if _, fld, base, ok := fieldOf(call.Call.Args[0]); ok && fld == "SignatureKey" && base == ssa.Value(cert) {
				okRecv = true
			}
		}
		if _, fld, base, ok := fieldOf(ver.Call.Value); ok && fld == "SignatureKey" && base == ssa.Value(cert) {
			okRecv = true
		}
		_, sfld, sbase, sok := fieldOf(ver.Call.Args[1])
		okSig := sok && sfld == "Signature" && sbase == ssa.Value(cert)
		c.check(okRecv && okSig, "C41.ca-signature", "CheckCert Verify key/signature", ver, "verified with cert.SignatureKey over cert.Signature", "the CA verification does not use this certificate's SignatureKey and Signature")
		// signed bytes provenance
		data, _ := ver.Call.Args[0].(*ssa.Call)
		if data == nil || data.Call.StaticCallee() == nil {
			c.fail("C41.signed-bytes", "CheckCert Verify data", ver, "the verified data is not produced by a function of this certificate")
		} else {
			g := data.Call.StaticCallee()
			okSelf := len(data.Call.Args) == 1 && data.Call.Args[0] == ssa.Value(cert)
			c.check(okSelf, "C41.signed-bytes", "CheckCert Verify data receiver", ver, "data computed from this certificate", "the signed bytes are computed from a different certificate value")
			// does g return retained wire bytes, or a re-serialisation?
			remarshal := false
			allInstrs(g, func(in ssa.Instruction) {
				if call, ok := in.(*ssa.Call); ok {
					n := short(calleeName(&call.Call))
					if strings.HasSuffix(n, ".Marshal") || n == "ssh.Marshal" {
						remarshal = true
					}
				}
			})
			if remarshal {
				c.fail("C41.signed-bytes", "(*Certificate).bytesForSigning", g, "the bytes given to the CA signature check are a re-serialisation of the parsed structure, not the received bytes; parsing is not injective (empty option value vs embedded empty string, non-minimal mpints in embedded keys), so a re-encoded certificate verifies under a signature made over different bytes")
			} else {
				c.ok("C41.signed-bytes", "(*Certificate).bytesForSigning", g, "no re-serialisation in the signed-bytes function")
			}
		}
	}
	// ---- Authenticate / CheckHostKey
	for _, spec := range []struct{ fn, typ, auth string }{
		{"(*CertChecker).Authenticate", "UserCert", "IsUserAuthority"},
		{"(*CertChecker).CheckHostKey", "HostCert", "IsHostAuthority"},
	} {
		g := c.fn("ssh", spec.fn)
		if g == nil {
			continue
		}
		// success = returns whose error may be nil and that are not the fallback's own return
		var succ []ssa.Instruction
		var cc []ssa.CallInstruction
		cc = callsNamed(g, "(*ssh.CertChecker).CheckCert")
		for _, t := range acceptReturns(g, g.Signature.Results().Len()-1) {
			r := t.(*ssa.Return)
			ev := r.Results[len(r.Results)-1]
			isFallback := false
			for _, l := range phiLeaves(ev) {
				v := l.val
				if ex, ok := v.(*ssa.Extract); ok {
					v = ex.Tuple
				}
				if call, ok := v.(*ssa.Call); ok {
					if _, fld, _, ok := fieldOf(call.Call.Value); ok && strings.HasSuffix(fld, "Fallback") {
						isFallback = true
					}
				}
			}
			if !isFallback {
				succ = append(succ, t)
			}
		}
		// type gate
		want, okc := pkgConstInt(c, "ssh", spec.typ)
		var typeEq []edge
		allInstrs(g, func(in ssa.Instruction) {
			if bo, ok := in.(*ssa.BinOp); ok && (bo.Op == token.EQL || bo.Op == token.NEQ) {
				if _, fld, _, ok := fieldOf(bo.X); ok && fld == "CertType" {
					if k, ok := constInt(bo.Y); ok && okc && k == want {
						y, _ := boolEdges(bo, bo.Op == token.EQL)
						typeEq = append(typeEq, y...)
					}
				}
			}
		})
		// a return of CheckCert's own result is success only if CheckCert succeeded: treat as target too, gates must precede the call
		targets := append([]ssa.Instruction{}, succ...)
		for _, ci := range cc {
			targets = append(targets, ci)
		}
		c.mustCross("C41.cert-type", spec.fn, g, targets, typeEq, "CertType == "+spec.typ)
		var authPass []edge
		var authCall *ssa.Call
		allInstrs(g, func(in ssa.Instruction) {
			if call, ok := in.(*ssa.Call); ok {
				if _, fld, _, ok := fieldOf(call.Call.Value); ok && fld == spec.auth {
					authCall = call
					y, _ := successEdges(call, 0, isTrue)
					authPass = append(authPass, y...)
				}
			}
		})
		c.mustCross("C41.authority", spec.fn, g, targets, authPass, spec.auth+"(cert.SignatureKey) == true")
		if authCall != nil {
			_, fld, _, ok := fieldOf(authCall.Call.Args[0])
			c.check(ok && fld == "SignatureKey", "C41.authority", spec.fn+" authority argument", authCall, "the authority callback sees the certificate's signature key", "the authority callback is not asked about cert.SignatureKey")
		}
		// CheckCert success gate for the non-delegating returns
		var nonDeleg []ssa.Instruction
		for _, t := range succ {
			r := t.(*ssa.Return)
			deleg := false
			for _, ci := range cc {
				if r.Results[len(r.Results)-1] == callValue(ci) {
					deleg = true
				}
			}
			if !deleg {
				nonDeleg = append(nonDeleg, t)
			}
		}
		if len(nonDeleg) > 0 {
			c.mustCross("C41.checkcert", spec.fn, g, nonDeleg, callSuccess(cc, -1, isNil), "CheckCert == nil")
		} else {
			c.check(len(cc) == 1, "C41.checkcert", spec.fn, g, "returns CheckCert's verdict", "CheckCert is not called")
		}
		if spec.typ == "HostCert" && len(cc) == 1 {
			okHost := false
			if ex, ok := cc[0].Common().Args[1].(*ssa.Extract); ok && ex.Index == 0 {
				if call, ok := ex.Tuple.(*ssa.Call); ok && short(calleeName(&call.Call)) == "net.SplitHostPort" && call.Call.Args[0] == ssa.Value(g.Params[1]) {
					okHost = true
				}
			}
			c.check(okHost, "C41.host-principal", spec.fn, cc[0], "the principal checked is the host part of the dialled address", "CheckHostKey does not pass the host (without port) as the principal")
		}
		if spec.typ == "UserCert" && len(cc) == 1 {
			okUser := false
			if call, ok := cc[0].Common().Args[1].(*ssa.Call); ok && strings.HasSuffix(calleeName(&call.Call), ".User") {
				okUser = true
			}
			c.check(okUser, "C41.host-principal", spec.fn, cc[0], "the principal checked is the connection's user", "Authenticate does not pass conn.User() as the principal")
		}
	}
	c41Parse(c)
}

func c41FoundLoops(c *Ctx, f *ssa.Function, acc []ssa.Instruction, principal *ssa.Parameter) {
	// every `found` phi tested by `if !found` => return error. We locate bool
	// phis whose leaves are the constants false/true and which are branched on.
	n := 0
	allInstrs(f, func(in ssa.Instruction) {
		p, ok := in.(*ssa.Phi)
		if !ok {
			return
		}
		if b, ok := p.Type().Underlying().(*types.Basic); !ok || b.Kind() != types.Bool {
			return
		}
		yes, _ := boolEdges(p, true)
		if len(yes) == 0 {
			return
		}
		n++
		// with found == false the function must not reach acceptance from this test
		e := newEnv()
		e.bind(p, 0)
		cut := e.cuts(f)
		r := reachAfter(p, cut)
		okRej := true
		for _, t := range acc {
			if r[t.Block()] {
				okRej = false
			}
		}
		c.check(okRej, "C41.membership", fmt.Sprintf("CheckCert membership test #%d", n), p, "a value not found in the allowed set rejects the certificate", "the 'not found' outcome of this membership loop does not reject the certificate")
	})
	c.check(n == 2, "C41.membership", "CheckCert membership loops", f, "critical-option and principal membership loops found", fmt.Sprintf("expected 2 membership loops (critical options, principals), found %d", n))
	// the principal loop compares with the principal parameter
	cmp := false
	var saConst string
	allInstrs(f, func(in ssa.Instruction) {
		if bo, ok := in.(*ssa.BinOp); ok && bo.Op == token.EQL {
			if bo.X == ssa.Value(principal) || bo.Y == ssa.Value(principal) {
				cmp = true
			}
			if s, ok := constString(bo.Y); ok {
				saConst = s
			}
		}
	})
	c.check(cmp, "C41.membership", "CheckCert principal comparison", f, "ValidPrincipals entries are compared with the principal argument", "no comparison of a valid principal with the principal argument")
	c.check(saConst == "source-address", "C41.membership", "CheckCert delegated critical option", f, "only source-address is delegated (enforced by serverAuthenticate, C33)", fmt.Sprintf("critical option %q is skipped by CheckCert", saConst))
	// principals are enforced whenever the list is non-empty: with
	// len(ValidPrincipals) in {1,2,5} and nothing found, acceptance is unreachable;
	// with an empty list the loop is skipped.
	bad := ""
	for _, ln := range []int64{0, 1, 2, 5} {
		e := newEnv()
		allInstrs(f, func(in ssa.Instruction) {
			if call, ok := in.(*ssa.Call); ok && calleeName(&call.Call) == "builtin:len" {
				if _, fld, _, ok := fieldOf(call.Call.Args[0]); ok && fld == "ValidPrincipals" {
					e.bind(call, ln)
				}
			}
			if p, ok := in.(*ssa.Phi); ok {
				if b, ok := p.Type().Underlying().(*types.Basic); ok && b.Kind() == types.Bool {
					if y, _ := boolEdges(p, true); len(y) > 0 {
						e.bind(p, 0)
					}
				}
			}
		})
		cut := e.cuts(f)
		r := reach([]*ssa.BasicBlock{f.Blocks[0]}, cut)
		got := false
		for _, t := range acc {
			if r[t.Block()] {
				got = true
			}
		}
		if got != (ln == 0) {
			bad = fmt.Sprintf("len(ValidPrincipals)=%d and no principal matches: acceptance reachable=%v", ln, got)
		}
	}
	c.check(bad == "", "C41.membership", "CheckCert principals enforced when listed", f, "a non-empty principal list always constrains the principal", bad)
}

func c41Window(c *Ctx, f *ssa.Function, acc []ssa.Instruction) {
	var unix *ssa.Call
	for _, ci := range callsNamed(f, "(time.Time).Unix") {
		unix = ci.(*ssa.Call)
	}
	if unix == nil {
		c.fail("C41.window", "CheckCert validity window", f, "current time not read")
		return
	}
	const now = int64(1_700_000_000)
	u := func(x uint64) int64 { return int64(x) }
	As := []int64{0, 50, now - 1, now, now + 1, u(1<<63 - 1), u(1 << 63), u(1<<63 + uint64(now)), u(1<<64 - 2), u(1<<64 - 1)}
	Bs := []int64{0, 50, now - 1, now, now + 1, now + 1000, u(1<<63 - 1), u(1 << 63), u(1<<63 + uint64(now) + 5), u(1<<64 - 2), u(1<<64 - 1)}
	bad := ""
	n := 0
	for _, A := range As {
		for _, B := range Bs {
			e := newEnv()
			e.bind(unix, now)
			e.bindField(f, "Certificate", "ValidAfter", A)
			e.bindField(f, "Certificate", "ValidBefore", B)
			cut := e.cuts(f)
			r := reachAfter(unix, cut)
			got := false
			for _, t := range acc {
				if r[t.Block()] {
					got = true
				}
			}
			ua, ub := uint64(A), uint64(B)
			want := ua < 1<<63 && uint64(now) >= ua && (ub == 1<<64-1 || (ub < 1<<63 && uint64(now) < ub))
			n++
			if got != want && bad == "" {
				bad = fmt.Sprintf("ValidAfter=%d ValidBefore=%d now=%d: acceptance reachable=%v, OpenSSH rule gives %v", ua, ub, now, got, want)
			}
		}
	}
	c.check(bad == "", "C41.window", "CheckCert validity window", unix, fmt.Sprintf("window predicate equals 0 <= after <= now < before (2^64-1 = forever, >= 2^63 rejected) on %d cases", n), bad)
}

func c41Parse(c *Ctx) {
	f := c.fn("ssh", "parseCert")
	if f == nil {
		return
	}
	// nested certificate rejection before ParsePublicKey(g.SignatureKey)
	var ppk *ssa.Call
	for _, ci := range callsNamed(f, "ssh.ParsePublicKey") {
		if _, fld, _, ok := fieldOf(ci.Common().Args[0]); ok && fld == "SignatureKey" {
			ppk = ci.(*ssa.Call)
		}
	}
	var notCert []edge
	allInstrs(f, func(in ssa.Instruction) {
		lk, ok := in.(*ssa.Lookup)
		if !ok || !lk.CommaOk || accessPath(lk.X) != "certKeyAlgoNames" {
			return
		}
		for _, r := range *lk.Referrers() {
			if ex, ok := r.(*ssa.Extract); ok && ex.Index == 1 {
				_, no := boolEdges(ex, true)
				notCert = append(notCert, no...)
			}
		}
	})
	if ppk == nil {
		c.fail("C41.nested-cert", "parseCert", f, "ParsePublicKey(g.SignatureKey) not found")
	} else {
		c.mustCross("C41.nested-cert", "parseCert", f, []ssa.Instruction{ppk}, notCert, "the signature key's algorithm not being a certificate algorithm")
	}
	// trailing bytes after the signature rejected: acceptReturns behind len(rest)==0 on parseSignatureBody's rest
	var psb *ssa.Call
	for _, ci := range callsNamed(f, "ssh.parseSignatureBody") {
		psb = ci.(*ssa.Call)
	}
	if psb != nil {
		var pass []edge
		for _, rv := range resultN(psb, 1) {
			allInstrs(f, func(in ssa.Instruction) {
				if call, ok := in.(*ssa.Call); ok && calleeName(&call.Call) == "builtin:len" && call.Call.Args[0] == rv {
					pass = append(pass, edgesImplying(call, []int64{0, 1, 2}, func(d int64) bool { return d == 0 })...)
				}
			})
		}
		c.mustCross("C41.trailing", "parseCert signature", f, acceptReturns(f, 1), pass, "no bytes left after the signature")
		okEdges := callSuccess([]ssa.CallInstruction{psb}, 2, isTrue)
		c.mustCross("C41.trailing", "parseCert signature ok", f, acceptReturns(f, 1), okEdges, "parseSignatureBody ok == true")
	} else {
		c.fail("C41.trailing", "parseCert signature", f, "parseSignatureBody not called")
	}
	// parseTuples: strictly increasing keys
	if g := c.fn("ssh", "parseTuples"); g != nil {
		var le *ssa.BinOp
		allInstrs(g, func(in ssa.Instruction) {
			if bo, ok := in.(*ssa.BinOp); ok && (bo.Op == token.LEQ || bo.Op == token.GTR || bo.Op == token.LSS || bo.Op == token.GEQ) {
				if b, ok := bo.X.Type().Underlying().(*types.Basic); ok && b.Info()&types.IsString != 0 {
					le = bo
				}
			}
		})
		okOrd := false
		if le != nil {
			// the edge on which the new key is <= the previous key must lead to an error return, under haveLastKey
			var rej []edge
			switch le.Op {
			case token.LEQ:
				rej, _ = boolEdges(le, true)
			case token.GTR:
				rej, _ = boolEdges(le, false)
			}
			okOrd = len(rej) > 0
			for _, e := range rej {
				blk := e.to()
				r, isRet := blk.Instrs[len(blk.Instrs)-1].(*ssa.Return)
				if !isRet || errNilness(r.Results[1], blk, 0) != neverNil {
					okOrd = false
				}
			}
			// operands: new key (string of parsed key) vs phi lastKey
			_, isPhi := le.Y.(*ssa.Phi)
			_, isPhiX := le.X.(*ssa.Phi)
			if !isPhi && !isPhiX {
				okOrd = false
			}
		}
		c.check(okOrd, "C41.tuple-order", "parseTuples", g, "a key that is not strictly greater than the previous key is rejected", "option keys are no longer required to be strictly increasing (duplicate or unordered options accepted)")
	}
}
