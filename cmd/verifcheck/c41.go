package main

import (
	"fmt"
	"go/token"
	"go/types"
	"net"
	"strings"

	"golang.org/x/tools/go/ssa"
)

func init() {
	register(&propDef{
		id: "C41", run: runC41, minOblig: 18,
		explanation: "Decides the OpenSSH certificate-validity rules by EVALUATING the code as written (concrete evaluator over go/ssa, c41_interp.go; independent of how the code is factored into helpers, loops, slices.Contains, switches) on finite families of certificates and checker configurations, and comparing every verdict with the rule computed in Go: CertChecker.CheckCert accepts iff the revocation callback (when set) does not report the certificate revoked (whatever its serial / type), every critical option other than source-address is listed in SupportedCriticalOptions (families of option names, both map orders), the principal argument is one of ValidPrincipals when that list is non-empty (lists of length 0,1,2,5, match at first / last / no position, empty principal), ValidAfter <= now < ValidBefore with Go's uint64->int64 conversion semantics over a grid of (ValidAfter, ValidBefore) including 0, now±1, 2^63-1, 2^63, 2^64-2 and 2^64-1 (before = 2^64-1 meaning forever, values >= 2^63 rejected), and the CA signature Verify returns nil — where Verify must be called on cert.SignatureKey (possibly through skKeyWithoutUP, evaluated) with the bytes produced from this very certificate and with cert.Signature; Authenticate / CheckHostKey accept iff the certificate type is UserCert / HostCert, the authority callback is set and accepts cert.SignatureKey (for hosts: with the dialled address), and CheckCert — as evaluated on the same certificate — accepts the principal conn.User() / the host part of the address without port (IPv6 literal included; an address without port is rejected); the option-list parser of parseCert (found by its type func([]byte) (map[string]string, error)) accepts exactly the option lists with strictly increasing keys (duplicates, the empty key twice, prefix and case order) and returns exactly the encoded key/value map, rejecting a data field that is not one embedded string. Structural (interprocedural must-cross, helpers expanded in place; a helper whose nil-error returns all lie behind the gate, or that hands a comma-ok lookup result to its caller, establishes the gate for the caller): parseCert reaches ParsePublicKey(SignatureKey) only when the key's algorithm name is not a key of the package-level certificate-algorithm table, and returns success only when the parser of the Signature field reports ok and leaves no bytes. SIGNED-BYTES clause: the function that produced the verified bytes (observed in the accepting runs) is evaluated with (*Certificate).Marshal answered by a model encoding and must return the certificate without its signature field (verifying over Marshal() itself, or without clearing the signature, is a violation); the CA signature must be verified over the received bytes — on the pinned tree that function re-marshals the parsed structure (KNOWN FINDING, see known_findings.json). NOT decided: ssh-keygen byte equality of SignCert output; option names and principals outside the evaluated families.",
		assumptions: []string{"time.Time.Unix contract", "net.SplitHostPort (evaluated natively)", "PublicKey.Verify implementations (C40)"},
	})
	tech("C41", "concrete evaluation of CheckCert / Authenticate / CheckHostKey / parseTuples over finite case families compared with the OpenSSH rules, interprocedural must-cross CFG rules for parseCert, provenance rule for the signed bytes")
}

func runC41(c *Ctx) {
	// bounds sweep (engine: sweep.go) of the two input-facing parsers; the
	// option-list parser is located by role, not by name
	targets := []sweepTarget{{pkg: "ssh", fn: "parseCert", params: []int{0}, maxLen: 9}}
	if g := c41tuplesParser(c); g != nil {
		targets = append([]sweepTarget{{pkg: "ssh", fn: g.Name(), params: []int{0}, maxLen: 9}}, targets...)
	}
	c.sweepFunctions("C41.bounds-sweep", targets)
	m := c41newModel(c)
	f := c.fn("ssh", "(*CertChecker).CheckCert")
	if m != nil && f != nil {
		c41Revocation(m, f)
		c41Membership(m, f)
		c41Window(m, f)
		c41Signature(m, f)
		for _, spec := range []struct {
			fn, entry, typ string
		}{
			{"(*CertChecker).Authenticate", "Authenticate", "UserCert"},
			{"(*CertChecker).CheckHostKey", "CheckHostKey", "HostCert"},
		} {
			if g := c.fn("ssh", spec.fn); g != nil {
				c41Entry(m, f, g, spec.entry, spec.typ)
			}
		}
	}
	c41Tuples(c, m)
	c41Parse(c)
}

// ---- revocation: a certificate the callback reports revoked is rejected
// whatever else it says; without callback / with a negative answer the verdict
// is the one of the remaining rules.
func c41Revocation(m *c41model, f *ssa.Function) {
	var cases []c41case
	for _, rev := range []int{0, 1, 2} {
		for _, serial := range []uint64{0, 7, 1<<64 - 1} {
			for _, typ := range []int64{1, 2} {
				for _, expired := range []bool{false, true} {
					k := c41base()
					k.revoked, k.serial, k.certType = rev, serial, typ
					if expired {
						k.before = 50
					}
					cases = append(cases, k)
				}
			}
		}
	}
	n, bad, und := m.table(f, "CheckCert", cases, func(k c41case) bool { return k.wantCheckCert(k.principal) }, func(k c41case, o *c41obs) string {
		if k.revoked != 0 && o.accepted {
			asked := false
			for _, a := range o.revokedArgs {
				if p, ok := a.(*c41val); ok && p == o.cert {
					asked = true
				}
			}
			if !asked {
				return "accepted without asking IsRevoked about this certificate"
			}
		}
		return ""
	})
	m.report("C41.revocation", "CheckCert IsRevoked", f, n, bad, und, "revocation is not decisive", "a certificate reported revoked is rejected whatever its serial, type or validity; the callback is asked about this certificate")
}

// ---- membership: critical options and principals
func c41Membership(m *c41model, f *ssa.Function) {
	names := []string{"force-command", "source-address", "verify-required", "source-addres", "source-address2", "Source-Address", "", "x"}
	var optCases []c41case
	supp := [][]string{nil, {"force-command"}, {"x", "force-command"}, {"verify-required", "x", "", "force-command", "source-addres"}, {"source-address"}}
	var optSets [][]string
	optSets = append(optSets, nil)
	for _, a := range names {
		optSets = append(optSets, []string{a})
		for _, b := range names {
			if a != b {
				optSets = append(optSets, []string{a, b})
			}
		}
	}
	optSets = append(optSets, []string{"force-command", "source-address", "x"}, []string{"x", "source-address", "force-command"}, []string{"source-address", "verify-required", "force-command"})
	for _, os := range optSets {
		for _, s := range supp {
			k := c41base()
			k.options, k.supported = os, s
			optCases = append(optCases, k)
		}
	}
	n, bad, und := m.table(f, "CheckCert", optCases, func(k c41case) bool { return k.wantCheckCert(k.principal) }, nil)
	m.report("C41.membership", "CheckCert critical options", f, n, bad, und, "critical options are not checked against SupportedCriticalOptions as OpenSSH does", "a certificate is accepted iff every critical option other than source-address (delegated to serverAuthenticate, C33) is listed in SupportedCriticalOptions")

	var prCases []c41case
	lists := [][]string{nil, {"alice"}, {"bob"}, {""}, {"bob", "alice"}, {"alice", "bob"}, {"bob", "carol"}, {"bob", "carol", "dave", "erin", "alice"}, {"bob", "carol", "dave", "erin", "frank"}, {"alice2", "alic", "Alice"}}
	for _, l := range lists {
		for _, p := range []string{"alice", "", "mallory"} {
			k := c41base()
			k.principals, k.principal = l, p
			prCases = append(prCases, k)
		}
	}
	n, bad, und = m.table(f, "CheckCert", prCases, func(k c41case) bool { return k.wantCheckCert(k.principal) }, nil)
	m.report("C41.membership", "CheckCert principals", f, n, bad, und, "principals are not enforced when listed", "a non-empty ValidPrincipals list always constrains the principal argument (exact match at any position); an empty list accepts every principal")
}

// ---- validity window
func c41Window(m *c41model, f *ssa.Function) {
	now := uint64(c41Now)
	As := []uint64{0, 50, now - 1, now, now + 1, 1<<63 - 1, 1 << 63, 1<<63 + now, 1<<64 - 2, 1<<64 - 1}
	Bs := []uint64{0, 50, now - 1, now, now + 1, now + 1000, 1<<63 - 1, 1 << 63, 1<<63 + now + 5, 1<<64 - 2, 1<<64 - 1}
	var cases []c41case
	for _, A := range As {
		for _, B := range Bs {
			k := c41base()
			k.after, k.before = A, B
			cases = append(cases, k)
		}
	}
	for _, t := range []int64{0, 49, 50, 51, -1} {
		for _, A := range []uint64{0, 50, 51} {
			for _, B := range []uint64{0, 50, 51, 1<<64 - 1} {
				k := c41base()
				k.now, k.after, k.before = t, A, B
				cases = append(cases, k)
			}
		}
	}
	// a clock before 1970: values >= 2^63 stay rejected (they are not "negative times")
	for _, t := range []int64{-1, -5, -1 << 62} {
		for _, A := range []uint64{0, 1<<64 - 2, 1<<64 - 1, 1 << 63} {
			for _, B := range []uint64{50, 1<<64 - 2, 1 << 63, 1<<64 - 1} {
				k := c41base()
				k.now, k.after, k.before = t, A, B
				cases = append(cases, k)
			}
		}
	}
	n, bad, und := m.table(f, "CheckCert", cases, func(k c41case) bool { return k.wantCheckCert(k.principal) }, nil)
	m.report("C41.window", "CheckCert validity window", f, n, bad, und, "validity window differs from ValidAfter <= now < ValidBefore", "window predicate equals 0 <= ValidAfter <= now < ValidBefore (2^64-1 = forever, values >= 2^63 rejected)")
}

// ---- CA signature: Verify decides, and it is asked with this certificate's
// signature key, bytes and signature. The function that produced the bytes is
// then examined for the SIGNED-BYTES clause.
func c41Signature(m *c41model, f *ssa.Function) {
	c := m.c
	var cases []c41case
	for _, ve := range []bool{false, true} {
		for _, pr := range [][]string{nil, {"alice"}} {
			for _, opt := range [][]string{nil, {"source-address"}} {
				k := c41base()
				k.verifyErr, k.principals, k.options = ve, pr, opt
				cases = append(cases, k)
			}
		}
	}
	var producer *ssa.Function
	n, bad, und := m.table(f, "CheckCert", cases, func(k c41case) bool { return k.wantCheckCert(k.principal) }, func(k c41case, o *c41obs) string {
		if !o.accepted {
			return ""
		}
		if len(o.verifies) == 0 {
			return "accepted without verifying the CA signature with cert.SignatureKey"
		}
		for _, v := range o.verifies {
			if v.recv != o.caKey {
				return "the CA verification does not use this certificate's SignatureKey"
			}
			if p, ok := v.sig.(*c41val); !ok || p != o.sigPtr {
				return "the CA verification does not use this certificate's Signature"
			}
			d, ok := v.data.(*c41obj)
			if !ok || d.kind != "certbytes" {
				return "the verified data is not produced by a function of this certificate"
			}
			cb := d.data.(c41certBytes)
			if p, ok := cb.cert.(*c41val); !ok || p != o.cert {
				return "the signed bytes are computed from a different certificate value"
			}
			producer = cb.fn
		}
		return ""
	})
	m.report("C41.ca-signature", "CheckCert Verify", f, n, bad, und, "the CA signature check is not decisive or not made over this certificate", "accepted iff Verify == nil, verified with cert.SignatureKey over the bytes of this certificate and cert.Signature")
	if producer == nil {
		if bad == "" {
			c.undecided("C41.signed-bytes", "CheckCert Verify data", f, "no accepting run showed which bytes are verified")
		}
		return
	}
	// Which bytes does the producer return? It is evaluated with the exported
	// (*Certificate).Marshal answered by a model encoding: an 8-byte body followed
	// by the signature field (length 0 when Signature is nil). The signed bytes
	// must be the body alone — the certificate without signature field.
	marshal := c.fnOpt("ssh", "(*Certificate).Marshal")
	if producer == marshal {
		c.fail("C41.signed-bytes", "CheckCert Verify data", f, "the CA signature is verified over the whole marshalled certificate, signature field included, not over the signed part")
		return
	}
	body := []byte{1, 2, 3, 4, 5, 6, 7, 8}
	if marshal != nil {
		obs := &c41obs{}
		it, _, _, ok := m.build(c41base(), obs)
		if ok {
			st, _ := m.certNamed.Underlying().(*types.Struct)
			it.hook = func(fn *ssa.Function, args []c41val) (c41val, bool) {
				if fn != marshal || len(args) != 1 {
					return nil, false
				}
				p, isP := args[0].(*c41val)
				if !isP || p == nil {
					return nil, false
				}
				cv, isS := (*p).(c41struct)
				if !isS || st == nil {
					return nil, false
				}
				out := append([]byte{}, body...)
				if sp := c41field(cv, st, "Signature"); sp != nil {
					if q, isQ := (*sp).(*c41val); isQ && q == nil {
						return c41bytes(append(out, 0, 0, 0, 0)), true
					}
				}
				return c41bytes(append(out, 0, 0, 0, 2, 9, 9)), true
			}
			res, end, _ := it.run(producer, []c41val{obs.cert})
			if got, isB := res.([]c41val); end == "return" && isB {
				same := len(got) == len(body)
				for i := 0; same && i < len(body); i++ {
					n, isN := got[i].(int64)
					same = isN && n == int64(body[i])
				}
				if !same {
					c.fail("C41.signed-bytes", "CheckCert Verify data", producer, fmt.Sprintf("the bytes given to the CA signature check are not the marshalled certificate without its signature field (%d bytes of a %d-byte body followed by the signature field)", len(got), len(body)))
					return
				}
			}
		}
	}
	// does the producer return retained wire bytes, or a re-serialisation?
	remarshal := false
	deepInstrs(producer, func(in ssa.Instruction) {
		if call, ok := in.(*ssa.Call); ok {
			n := short(calleeName(&call.Call))
			if strings.HasSuffix(n, ".Marshal") || n == "ssh.Marshal" {
				remarshal = true
			}
		}
	})
	if remarshal {
		c.fail("C41.signed-bytes", "(*Certificate).bytesForSigning", producer, "the bytes given to the CA signature check are a re-serialisation of the parsed structure, not the received bytes; parsing is not injective (empty option value vs embedded empty string, non-minimal mpints in embedded keys), so a re-encoded certificate verifies under a signature made over different bytes")
	} else {
		c.ok("C41.signed-bytes", "(*Certificate).bytesForSigning", producer, "no re-serialisation in the signed-bytes function")
	}
}

// ---- Authenticate / CheckHostKey
func c41Entry(m *c41model, f, g *ssa.Function, entry, typ string) {
	c := m.c
	wantType, okc := pkgConstInt(c, "ssh", typ)
	if !okc {
		c.fail("anchor", "ssh."+typ, nil, "exported constant not found in the current tree; the rule cannot be evaluated")
		return
	}
	host := entry == "CheckHostKey"
	base := func() c41case {
		k := c41base()
		if host {
			k.addr = "host.example:22"
		}
		return k
	}
	principalOf := func(k c41case) (string, bool) {
		if !host {
			return k.principal, true
		}
		h, _, err := net.SplitHostPort(k.addr)
		return h, err == nil
	}
	// The entry points are compared with CheckCert AS EVALUATED on the same
	// certificate and the principal they must pass on (CheckCert itself is
	// compared with the OpenSSH rules by the rules above), so that each rule
	// names its own defect only.
	want := func(k c41case) bool {
		p, ok := principalOf(k)
		if !ok || k.certType != wantType || k.authority != 2 {
			return false
		}
		kk := k
		kk.principal, kk.addr = p, ""
		o := m.run(f, "CheckCert", kk)
		return o.end == "return" && o.accepted
	}
	authSeen := func(k c41case, o *c41obs) string {
		if !o.accepted {
			return ""
		}
		asked := false
		for _, a := range o.authArgs {
			if len(a) > 0 {
				if i, ok := a[0].(c41iface); ok && i.v == c41val(o.caKey) {
					asked = true
					if host && (len(a) < 2 || a[1] != c41val(k.addr)) {
						return "the host authority callback is not given the dialled address"
					}
				}
			}
		}
		if !asked {
			return "accepted without asking the authority callback about cert.SignatureKey"
		}
		return ""
	}
	// type gate
	var cases []c41case
	for _, t := range []int64{0, 1, 2, 3, 1 << 31} {
		k := base()
		k.certType = t
		cases = append(cases, k)
	}
	n, bad, und := m.table(g, entry, cases, want, nil)
	m.report("C41.cert-type", "(*CertChecker)."+entry, g, n, bad, und, "the certificate type gate CertType == "+typ+" is not enforced", "accepted only when CertType == "+typ)
	// authority gate
	cases = nil
	for _, a := range []int{0, 1, 2} {
		for _, serial := range []uint64{0, 7} {
			k := base()
			k.certType, k.authority, k.serial = wantType, a, serial
			cases = append(cases, k)
		}
	}
	n, bad, und = m.table(g, entry, cases, want, authSeen)
	m.report("C41.authority", "(*CertChecker)."+entry, g, n, bad, und, "the authority callback is not decisive", "accepted only when the authority callback accepts cert.SignatureKey")
	// CheckCert's verdict is part of the verdict
	cases = nil
	for i := 0; i < 6; i++ {
		k := base()
		k.certType = wantType
		switch i {
		case 1:
			k.revoked = 2
		case 2:
			k.before = 50
		case 3:
			k.options = []string{"force-command"}
		case 4:
			k.verifyErr = true
		case 5:
			k.after = 1 << 63
		}
		cases = append(cases, k)
	}
	n, bad, und = m.table(g, entry, cases, want, nil)
	m.report("C41.checkcert", "(*CertChecker)."+entry, g, n, bad, und, "CheckCert's verdict is not part of the verdict", "accepted only when CheckCert accepts (revocation, window, options, CA signature)")
	// the principal that is checked
	cases = nil
	if host {
		for _, tc := range []struct {
			addr string
			pr   []string
		}{
			{"host.example:22", []string{"host.example"}},
			{"host.example:22", []string{"host.example:22"}},
			{"host.example:22", []string{"other.example", "host.example"}},
			{"host.example:22", []string{"other.example"}},
			{"host.example:2222", []string{"host.example"}},
			{"[::1]:22", []string{"::1"}},
			{"[::1]:22", []string{"[::1]"}},
			{"[::1]:22", []string{"[::1]:22"}},
			{"10.0.0.1:22", []string{"10.0.0.1"}},
			{"host.example", []string{"host.example"}},
			{"host.example", nil},
			{"host.example:22", nil},
		} {
			k := base()
			k.certType, k.addr, k.principals = wantType, tc.addr, tc.pr
			cases = append(cases, k)
		}
	} else {
		for _, tc := range []struct {
			user string
			pr   []string
		}{{"alice", []string{"alice"}}, {"alice", []string{"bob"}}, {"bob", []string{"alice", "bob"}}, {"", []string{"alice"}}, {"mallory", nil}} {
			k := base()
			k.certType, k.principal, k.principals = wantType, tc.user, tc.pr
			cases = append(cases, k)
		}
	}
	n, bad, und = m.table(g, entry, cases, want, nil)
	if host {
		m.report("C41.host-principal", "(*CertChecker)."+entry, g, n, bad, und, "CheckHostKey does not pass the host (without port) as the principal", "the principal checked is the host part of the dialled address (without port)")
	} else {
		m.report("C41.host-principal", "(*CertChecker)."+entry, g, n, bad, und, "Authenticate does not pass conn.User() as the principal", "the principal checked is the connection's user")
	}
}

// ---- parseTuples: strictly increasing keys, exact key/value map
func c41Tuples(c *Ctx, m *c41model) {
	g := c41tuplesParser(c)
	if g == nil || m == nil {
		return
	}
	c41TuplesOn(c, m, g)
}

// c41tuplesParser: the option-list parser, by role: the helper of parseCert of
// type func([]byte) (map[string]string, error) (by name only as a fallback).
func c41tuplesParser(c *Ctx) *ssa.Function {
	var g *ssa.Function
	if pc := c.fnOpt("ssh", "parseCert"); pc != nil {
		for _, h := range deepFuncs(pc)[1:] {
			sig := h.Signature
			if sig.Recv() != nil || sig.Params().Len() != 1 || sig.Results().Len() != 2 {
				continue
			}
			mt, isMap := sig.Results().At(0).Type().Underlying().(*types.Map)
			if !isMap || !types.Identical(mt.Key(), types.Typ[types.String]) || !types.Identical(mt.Elem(), types.Typ[types.String]) {
				continue
			}
			if !types.Identical(sig.Params().At(0).Type(), types.NewSlice(types.Typ[types.Byte])) ||
				!types.Identical(sig.Results().At(1).Type(), types.Universe.Lookup("error").Type()) {
				continue
			}
			g = h
			break
		}
	}
	if g == nil {
		g = c.fn("ssh", "parseTuples")
	}
	return g
}

func c41TuplesOn(c *Ctx, m *c41model, g *ssa.Function) {
	T := func(kv ...string) []c41tuple2 {
		var out []c41tuple2
		for i := 0; i+1 < len(kv); i += 2 {
			out = append(out, c41tuple2{key: kv[i], val: kv[i+1]})
		}
		return out
	}
	run := func(wire []byte) (res map[string]string, accepted bool, end, why string) {
		it := c41newInterp(c.ld.prog)
		r, end, why := it.run(g, []c41val{c41bytes(wire)})
		if end != "return" {
			return nil, false, end, why
		}
		t, ok := r.(c41tuple)
		if !ok || len(t) != 2 {
			return nil, false, "undecided", "parseTuples does not return (map, error)"
		}
		isNil, known := c41isNilErr(t[1])
		if !known {
			return nil, false, "undecided", "the error result of parseTuples is outside the model"
		}
		if !isNil {
			return nil, false, "return", ""
		}
		mm, ok := t[0].(*c41map)
		if !ok {
			return nil, false, "undecided", "the map result of parseTuples is outside the model"
		}
		res = map[string]string{}
		if mm != nil {
			for k, v := range mm.m {
				ks, ok1 := k.(string)
				vs, ok2 := v.(string)
				if !ok1 || !ok2 {
					return nil, false, "undecided", "the map result of parseTuples is outside the model"
				}
				res[ks] = vs
			}
		}
		return res, true, "return", ""
	}
	// order
	orderCases := [][]c41tuple2{
		nil, T("a", ""), T("a", "1", "b", "2"), T("a", "", "b", "", "c", "v"), T("", "", "a", ""), T("a", "", "ab", ""), T("B", "", "a", ""),
		T("force-command", "ls", "source-address", "10.0.0.0/8"), T("permit-X11-forwarding", "", "permit-pty", ""),
		T("b", "", "a", ""), T("a", "", "a", ""), T("a", "1", "a", "2"), T("", "", "", ""), T("ab", "", "a", ""), T("a", "", "B", ""),
		T("a", "", "b", "", "b", ""), T("a", "", "c", "", "b", ""), T("a", "", "b", "", "a", ""), T("b", "", "c", "", "a", ""),
		T("source-address", "10.0.0.0/8", "force-command", "ls"), T("force-command", "ls", "force-command", "sh"),
	}
	n, bad, und := 0, "", false
	for _, ts := range orderCases {
		want := true
		for i := 1; i < len(ts); i++ {
			if !(ts[i-1].key < ts[i].key) {
				want = false
			}
		}
		res, acc, end, why := run(c41wireTuples(ts))
		n++
		switch {
		case end == "undecided":
			bad, und = fmt.Sprintf("parseTuples could not be evaluated on [%s]: %s", c41tuplesString(ts), why), true
		case end == "panic":
			bad = fmt.Sprintf("parseTuples panics on [%s]: %s", c41tuplesString(ts), why)
		case acc && !want:
			bad = fmt.Sprintf("option keys are no longer required to be strictly increasing (duplicate or unordered options accepted): parseTuples accepts [%s]", c41tuplesString(ts))
		case !acc && want:
			bad = fmt.Sprintf("parseTuples rejects the ordered option list [%s]", c41tuplesString(ts))
		case acc:
			if len(res) != len(ts) {
				bad = fmt.Sprintf("parseTuples returns %d entries for [%s]", len(res), c41tuplesString(ts))
			}
			for _, t := range ts {
				if v, ok := res[t.key]; !ok || v != t.val {
					bad = fmt.Sprintf("parseTuples returns %q for key %q of [%s]", v, t.key, c41tuplesString(ts))
				}
			}
		}
		if bad != "" {
			break
		}
	}
	m.report("C41.tuple-order", "parseTuples", g, n, bad, und, "", "a key that is not strictly greater than the previous key is rejected; ordered lists are accepted and returned exactly")
	// data field encoding: empty, or exactly one embedded string
	n, bad, und = 0, "", false
	for _, tc := range []struct {
		ts   []c41tuple2
		want bool
		tail []byte
	}{
		{[]c41tuple2{{key: "a", val: "\x00\x00\x00\x01v", raw: true}}, true, nil},
		{[]c41tuple2{{key: "a", val: "\x00\x00\x00\x00", raw: true}}, true, nil},
		{[]c41tuple2{{key: "a", val: "v", raw: true}}, false, nil},
		{[]c41tuple2{{key: "a", val: "\x00\x00\x00\x02v", raw: true}}, false, nil},
		{[]c41tuple2{{key: "a", val: "\x00\x00\x00\x01vw", raw: true}}, false, nil},
		{[]c41tuple2{{key: "a", val: "\x00\x00\x00\x01v\x00\x00\x00\x00", raw: true}}, false, nil},
		{T("a", "v"), false, []byte{0}},
		{T("a", "v"), false, []byte{0, 0, 0, 1}},
		{T("a", "v"), false, []byte{0, 0, 0, 1, 'b'}},
	} {
		wire := append(c41wireTuples(tc.ts), tc.tail...)
		_, acc, end, why := run(wire)
		n++
		switch {
		case end == "undecided":
			bad, und = fmt.Sprintf("parseTuples could not be evaluated on % x: %s", wire, why), true
		case end == "panic":
			bad = fmt.Sprintf("parseTuples panics on % x: %s", wire, why)
		case acc != tc.want:
			bad = fmt.Sprintf("parseTuples %s the encoding % x; [PROTOCOL.certkeys] %s it", map[bool]string{true: "accepts", false: "rejects"}[acc], wire, map[bool]string{true: "accepts", false: "rejects"}[tc.want])
		}
		if bad != "" {
			break
		}
	}
	m.report("C41.tuple-order", "parseTuples data field", g, n, bad, und, "option data field encoding", "a data field is empty or exactly one embedded string; truncated input is rejected")
}

// ---- parseCert (structural, interprocedural)
func c41Parse(c *Ctx) {
	f := c.fn("ssh", "parseCert")
	if f == nil {
		return
	}
	isSigKey := func(v ssa.Value) bool {
		_, fld, _, ok := fieldOf(c.origin(v))
		return ok && fld == "SignatureKey"
	}
	// nested certificate rejection before ParsePublicKey(g.SignatureKey)
	var ppk []ssa.Instruction
	for _, ci := range deepCallsNamed(f, "ssh.ParsePublicKey") {
		if len(ci.Common().Args) > 0 && isSigKey(ci.Common().Args[0]) {
			ppk = append(ppk, ci)
		}
	}
	// pass: the algorithm name read from the signature key is NOT a key of a
	// package-level string-keyed table (the certificate algorithm table)
	notCert := c41notFoundEdges(c, f, isSigKey)
	if len(ppk) == 0 {
		c.fail("C41.nested-cert", "parseCert", f, "ParsePublicKey(g.SignatureKey) not found")
	} else {
		c.mustCrossDeep("C41.nested-cert", "parseCert", f, ppk, c41liftPass(f, notCert), "the signature key's algorithm not being a certificate algorithm")
	}
	// trailing bytes after the signature rejected: the function that parses the
	// Signature field returns (…, rest []byte, ok bool); success lies behind
	// len(rest) == 0 and ok == true
	var psb *ssa.Call
	deepInstrs(f, func(in ssa.Instruction) {
		call, ok := in.(*ssa.Call)
		if !ok || samePkgCallee(f, &call.Call) == nil || len(call.Call.Args) == 0 {
			return
		}
		if _, fld, _, ok := fieldOf(c.origin(call.Call.Args[0])); !ok || fld != "Signature" {
			return
		}
		if c41restOkIndex(call) >= 0 {
			psb = call
		}
	})
	if psb != nil {
		ri, oi := c41restOkIndex(psb), -1
		res := psb.Call.Signature().Results()
		for i := 0; i < res.Len(); i++ {
			if b, ok := res.At(i).Type().Underlying().(*types.Basic); ok && b.Kind() == types.Bool {
				oi = i
			}
		}
		var pass []edge
		for _, rv := range resultN(psb, ri) {
			deepInstrs(f, func(in ssa.Instruction) {
				if call, ok := in.(*ssa.Call); ok && calleeName(&call.Call) == "builtin:len" && c.origin(call.Call.Args[0]) == rv {
					pass = append(pass, edgesImplying(call, []int64{0, 1, 2}, func(d int64) bool { return d == 0 })...)
				}
			})
		}
		c.mustCrossDeep("C41.trailing", "parseCert signature", f, acceptReturns(f, 1), c41liftPass(f, pass), "no bytes left after the signature")
		okEdges := callSuccess([]ssa.CallInstruction{psb}, oi, isTrue)
		c.mustCrossDeep("C41.trailing", "parseCert signature ok", f, acceptReturns(f, 1), c41liftPass(f, okEdges), "the signature parser's ok == true")
	} else {
		c.fail("C41.trailing", "parseCert signature", f, "the certificate's Signature field is not parsed by a function returning (signature, rest, ok)")
	}
}

// c41liftPass: the pass edges of a gate may lie in a helper that reports the
// outcome through its error result (`if err := checkFoo(x); err != nil { return }`).
// A helper whose every possibly-nil-error return lies behind the pass edges
// ESTABLISHES the gate for its callers: the success edges (err == nil) of the
// calls to it are then pass edges too. Applied repeatedly for nested helpers.
func c41liftPass(fn *ssa.Function, pass []edge) []edge {
	out := append([]edge{}, pass...)
	have := edgeSet{}
	have.addAll(out)
	helpers := deepFuncs(fn)
	for round := 0; round < deepDepth; round++ {
		grew := false
		for _, h := range helpers[1:] {
			res := h.Signature.Results()
			if res.Len() == 0 || !types.Identical(res.At(res.Len()-1).Type(), types.Universe.Lookup("error").Type()) {
				continue
			}
			inside := false
			for _, g := range deepFuncs(h) {
				for e := range have {
					if e.from.Parent() == g {
						inside = true
					}
				}
			}
			if !inside {
				continue
			}
			acc := map[ssa.Instruction]bool{}
			for _, r := range acceptReturns(h, res.Len()-1) {
				acc[r] = true
			}
			if deepReach(h, have, func(in ssa.Instruction) bool { return acc[in] }) != nil {
				continue
			}
			for _, g := range helpers {
				if g == h {
					continue
				}
				allInstrs(g, func(in ssa.Instruction) {
					call, ok := in.(*ssa.Call)
					if !ok || call.Call.StaticCallee() != h {
						return
					}
					for _, e := range callSuccess([]ssa.CallInstruction{call}, -1, isNil) {
						if !have[e] {
							have[e] = true
							out = append(out, e)
							grew = true
						}
					}
				})
			}
		}
		if !grew {
			break
		}
	}
	return out
}

// c41restOkIndex: index of the []byte "rest" result of a call whose results
// are (*Signature-like, []byte, bool); -1 when the call has another shape.
func c41restOkIndex(call *ssa.Call) int {
	res := call.Call.Signature().Results()
	ri, hasBool := -1, false
	for i := 0; i < res.Len(); i++ {
		switch t := res.At(i).Type().Underlying().(type) {
		case *types.Slice:
			if b, ok := t.Elem().Underlying().(*types.Basic); ok && b.Kind() == types.Uint8 {
				ri = i
			}
		case *types.Basic:
			if t.Kind() == types.Bool {
				hasBool = true
			}
		}
	}
	if !hasBool || res.Len() < 3 {
		return -1
	}
	return ri
}

func c41loadOfGlobal(v ssa.Value) (*ssa.Global, bool) {
	if u, ok := v.(*ssa.UnOp); ok {
		if g, ok := u.X.(*ssa.Global); ok {
			return g, true
		}
	}
	return nil, false
}

// c41derivesFrom: v is computed (conversions, slices, extracted results of
// calls) from a value satisfying is.
func c41derivesFrom(c *Ctx, v ssa.Value, is func(ssa.Value) bool, depth int) bool {
	if v == nil || depth > 8 {
		return false
	}
	v = c.origin(v)
	if is(v) {
		return true
	}
	switch x := v.(type) {
	case *ssa.Convert:
		return c41derivesFrom(c, x.X, is, depth+1)
	case *ssa.ChangeType:
		return c41derivesFrom(c, x.X, is, depth+1)
	case *ssa.Slice:
		return c41derivesFrom(c, x.X, is, depth+1)
	case *ssa.Extract:
		return c41derivesFrom(c, x.Tuple, is, depth+1)
	case *ssa.Phi:
		for _, e := range x.Edges {
			if c41derivesFrom(c, e, is, depth+1) {
				return true
			}
		}
	case *ssa.Call:
		for _, a := range x.Call.Args {
			if c41derivesFrom(c, a, is, depth+1) {
				return true
			}
		}
	}
	return false
}

// c41notFoundEdges: the edges of fn and its helpers on which a value derived
// from a source (is) is known NOT to be a key of a package-level table: the
// `ok == false` edges of a comma-ok map lookup whose key derives from the
// source — where the lookup may sit in a helper (`func isFoo(name) bool`)
// that hands the `ok` to its caller, and the key may be a helper parameter
// whose argument derives from the source at the call site.
func c41notFoundEdges(c *Ctx, fn *ssa.Function, is func(ssa.Value) bool) []edge {
	var out []edge
	fs := deepFuncs(fn)
	inDeep := map[*ssa.Function]bool{}
	for _, g := range fs {
		inDeep[g] = true
	}
	// the edges on which the calls cs of h see ex (a bool computed in h and
	// returned as it is, or negated, by every return of h) == false
	returned := func(h *ssa.Function, ex ssa.Value, cs []ssa.CallInstruction) []edge {
		var es []edge
		rets := returnsOf(h)
		if len(rets) == 0 {
			return nil
		}
		for j := range rets[0].Results {
			same, neg := true, true
			for _, r := range rets {
				if j >= len(r.Results) || r.Results[j] != ex {
					same = false
				}
				if u, ok := r.Results[j].(*ssa.UnOp); !ok || u.Op != token.NOT || u.X != ex {
					neg = false
				}
			}
			if !same && !neg {
				continue
			}
			for _, ci := range cs {
				call, ok := ci.(*ssa.Call)
				if !ok {
					continue
				}
				for _, rv := range resultN(call, j) {
					yes, no := boolEdges(rv, true)
					if same {
						es = append(es, no...)
					} else {
						es = append(es, yes...)
					}
				}
			}
		}
		return es
	}
	for _, h := range fs {
		var sitesIn []ssa.CallInstruction
		for _, cs := range c.callersOf(h) {
			if inDeep[cs.Parent()] {
				sitesIn = append(sitesIn, cs)
			}
		}
		allInstrs(h, func(in ssa.Instruction) {
			lk, ok := in.(*ssa.Lookup)
			if !ok || !lk.CommaOk {
				return
			}
			if _, isGlobal := c41loadOfGlobal(lk.X); !isGlobal {
				return
			}
			var oks []*ssa.Extract
			for _, r := range *lk.Referrers() {
				if ex, ok := r.(*ssa.Extract); ok && ex.Index == 1 {
					oks = append(oks, ex)
				}
			}
			if c41derivesFrom(c, lk.Index, is, 0) {
				for _, ex := range oks {
					_, no := boolEdges(ex, true)
					out = append(out, no...)
					out = append(out, returned(h, ex, sitesIn)...)
				}
				return
			}
			// the key is a parameter of the helper: decide per call site
			pi := -1
			for i, p := range h.Params {
				if stripConv(lk.Index) == ssa.Value(p) {
					pi = i
				}
			}
			if pi < 0 {
				return
			}
			var deriving []ssa.CallInstruction
			for _, cs := range sitesIn {
				if args := cs.Common().Args; !cs.Common().IsInvoke() && pi < len(args) && c41derivesFrom(c, args[pi], is, 0) {
					deriving = append(deriving, cs)
				}
			}
			for _, ex := range oks {
				if len(deriving) > 0 && len(deriving) == len(sitesIn) {
					_, no := boolEdges(ex, true)
					out = append(out, no...)
				}
				out = append(out, returned(h, ex, deriving)...)
			}
		})
	}
	return out
}
