package main

import (
	"fmt"
	"go/token"
	"sort"
	"strings"

	"golang.org/x/tools/go/ssa"
)

func init() {
	register(&propDef{
		id: "C42", run: runC42, minOblig: 13,
		explanation: "Decides the decision skeleton of ssh/knownhosts by interpretation, independent of how the code is split into helpers or how receivers, parameters and locals are named. (wiring) New stores three functions of the host key database into the CertChecker (HostKeyFallback, IsHostAuthority, IsRevoked); those three functions, whatever their names, are the roots of the tables below. (host key callback) The HostKeyFallback function is interpreted on an abstract database — key revoked or not, address given or not, 0-2 lines, per line (patterns match the address, line key equals the presented key, @cert-authority marker), with key marshalling/equality, the line matcher and the revoked-set lookup as oracles, helpers interpreted in place: a revoked key yields a RevokedError whatever the lines say (revocation first); otherwise nil exactly when a matching line lists the presented key, else a KeyError whose Want holds exactly the matching lines in order. (pattern lists) hostPatterns.match interpreted for 0-2 patterns x (negated, host wildcard matches, port equal): a pattern applies only with host match AND equal port; an applying negated pattern rejects the line wherever it stands; otherwise the line matches iff some applying pattern is positive. (wildcards) the wildcard matcher that the pattern matcher consults is interpreted on every concrete pattern over {a,b,?,*} up to length 4 (without \"**\") against every string over {a,b} up to length 3 and must agree with OpenSSH's match_pattern (empty pattern matches only the empty string, a trailing '*' matches the empty string, '?' needs a character). (certificates) the IsHostAuthority function returns true iff ONE line has the @cert-authority marker, a key equal to the signing key and a host match (0-2 lines x 8 assignments); the IsRevoked function returns true iff the certificate or its signing key is in the revoked set. (lines) parseLine rejects a host field that starts with '@' (doubled or unknown marker; the test may be a byte comparison or strings.HasPrefix, in the function or a helper); the database's parseLine records @revoked keys in the revoked set and never as matchable lines, and sets the line's cert flag exactly from 'marker == @cert-authority'. NOT decided: Normalize/bracket/port string handling, which address is matched, hashed-host HMAC values, the key-type/field checks of parseLine (C38), patterns with adjacent asterisks, ssh-keygen agreement.",
		assumptions: []string{"bytes.Equal of marshalled keys is key equality", "all keys may have the same Type()"},
	})
	tech("C42", "finite-domain interpretation (pathWalker) of the wired callback functions on an abstract database with oracle calls; concrete interpretation of the wildcard matcher against a reference matcher; CFG reachability for the line parser's markers")
}

func runC42(c *Ctx) {
	const pk = "ssh/knownhosts"
	// ---- pattern lists and wildcards
	globs := c42PatternTable(c)
	var glob *ssa.Function
	if len(globs) == 1 {
		glob = globs[0]
	} else {
		glob = c.fn(pk, "wildcardMatch")
	}
	if glob != nil {
		c42Wildcard(c, glob)
	}
	// ---- the database functions wired into the CertChecker
	s, why := c42FindSchema(c)
	if s == nil {
		c.fail("anchor", "host key database", nil, "the database record cannot be identified: "+why)
		return
	}
	wired := map[string]*ssa.Function{}
	if f := c.fn(pk, "New"); f != nil {
		wired = c42Wired(c, f)
		var desc []string
		ok := true
		for _, fld := range []string{"HostKeyFallback", "IsHostAuthority", "IsRevoked"} {
			g := wired[fld]
			if g == nil || g.Pkg != f.Pkg || c42Recv(s, g) == "" {
				ok = false
				delete(wired, fld)
			}
			if g != nil {
				desc = append(desc, fld+"="+short(g.String()))
			} else {
				desc = append(desc, fld+"=<not set>")
			}
		}
		sort.Strings(desc)
		c.check(ok, "C42.wiring", "New", f, "CertChecker uses functions of the host key database for HostKeyFallback, IsHostAuthority and IsRevoked ("+strings.Join(desc, ", ")+"); their behaviour is decided by the tables", fmt.Sprintf("CertChecker wiring is %v: not all three callbacks are functions of the host key database", desc))
	}
	root := func(fld, fallback string) *ssa.Function {
		if g := wired[fld]; g != nil {
			c42Seen(c, pk, g)
			return g
		}
		return c.fn(pk, fallback)
	}
	if glob != nil {
		c42Seen(c, pk, glob)
	}
	if f := root("HostKeyFallback", "(*hostKeyDB).check"); f != nil {
		c42CheckTable(c, s, f)
	}
	if f := root("IsHostAuthority", "(*hostKeyDB).IsHostAuthority"); f != nil {
		c42AuthorityTable(c, s, f)
	}
	if f := root("IsRevoked", "(*hostKeyDB).IsRevoked"); f != nil {
		c42RevokedTable(c, s, f)
	}
	// ---- parseLine markers
	if f := c.fn(pk, "parseLine"); f != nil {
		c42UnexpectedMarker(c, f)
	}
	if f := c.fn(pk, "(*hostKeyDB).parseLine"); f != nil {
		c42LineMarkers(c, s, f)
	}
}

// c42Seen records f and the helpers interpreted with it as analysed functions
// (evidence: functions_analysed).
func c42Seen(c *Ctx, pk string, f *ssa.Function) {
	if c.funcsSeen == nil {
		c.funcsSeen = map[string]bool{}
	}
	for _, g := range deepFuncs(f) {
		c.funcsSeen[pk+"."+fnName(g)] = true
	}
}

// c42AtTests: the boolean values in g that mean "the text starts with '@'":
// x[0] == '@' / != '@' and strings/bytes.HasPrefix(x, "@"). For each the edges
// on which the text DOES start with '@'.
func c42AtTests(g *ssa.Function) (vals []ssa.Instruction, yes []edge) {
	allInstrs(g, func(in ssa.Instruction) {
		switch x := in.(type) {
		case *ssa.BinOp:
			if x.Op != token.EQL && x.Op != token.NEQ {
				return
			}
			k, ok := constInt(x.Y)
			if !ok {
				k, ok = constInt(x.X)
			}
			if ok && k == '@' {
				y, _ := boolEdges(x, x.Op == token.EQL)
				vals = append(vals, x)
				yes = append(yes, y...)
			}
		case *ssa.Call:
			n := short(calleeName(&x.Call))
			if (n == "strings.HasPrefix" || n == "bytes.HasPrefix") && len(x.Call.Args) == 2 {
				pre := stripConv(x.Call.Args[1])
				if s, ok := constString(pre); ok && s == "@" {
					y, _ := boolEdges(x, true)
					vals = append(vals, x)
					yes = append(yes, y...)
				}
			}
		}
	})
	return
}

// c42UnexpectedMarker: once the host field is seen to start with '@', no
// accepting return of parseLine is reachable. The test may sit in parseLine or
// in a helper that returns an error.
func c42UnexpectedMarker(c *Ctx, f *ssa.Function) {
	const rule, construct = "C42.markers", "parseLine unexpected marker"
	errIdx := f.Signature.Results().Len() - 1
	acc := acceptReturns(f, errIdx)
	found, okAt := false, true
	for _, g := range deepFuncs(f) {
		_, yes := c42AtTests(g)
		if len(yes) == 0 {
			continue
		}
		found = true
		var starts []*ssa.BasicBlock
		for _, e := range yes {
			starts = append(starts, e.to())
		}
		r := reach(starts, nil)
		if g == f {
			for _, t := range acc {
				if r[t.Block()] {
					okAt = false
				}
			}
			continue
		}
		// helper: behind the '@' edge it reports an error, and parseLine does not
		// accept behind the helper's error edge
		gi := g.Signature.Results().Len() - 1
		if gi < 0 {
			okAt = false
			continue
		}
		for _, ret := range returnsOf(g) {
			if r[ret.Block()] && errNilness(retVal(ret, gi), ret.Block(), 0) != neverNil {
				okAt = false
			}
		}
		cs := calls(f, func(n string) bool { return n == short(g.String()) })
		fails := callFailure(cs, -1, isNil)
		if len(cs) == 0 || len(fails) == 0 {
			okAt = false
			continue
		}
		var fs []*ssa.BasicBlock
		for _, e := range fails {
			fs = append(fs, e.to())
		}
		rf := reach(fs, nil)
		for _, t := range acc {
			if rf[t.Block()] {
				okAt = false
			}
		}
	}
	c.check(found && okAt && len(acc) > 0, rule, construct, f, "a second or unknown @marker in the host position is rejected", "a line whose host field starts with '@' (doubled/unknown marker) is accepted")
}

// c42MarkerTests: comparisons of a string with the constant marker text in g;
// yes = the edges on which they are equal.
func c42MarkerTests(g *ssa.Function, marker string) (yes []edge, eqVals []ssa.Value) {
	allInstrs(g, func(in ssa.Instruction) {
		bo, ok := in.(*ssa.BinOp)
		if !ok || (bo.Op != token.EQL && bo.Op != token.NEQ) {
			return
		}
		sx, okx := constString(bo.X)
		sy, oky := constString(bo.Y)
		if (okx && sx == marker) || (oky && sy == marker) {
			y, _ := boolEdges(bo, bo.Op == token.EQL)
			yes = append(yes, y...)
			if bo.Op == token.EQL {
				eqVals = append(eqVals, bo)
			}
		}
	})
	return
}

func c42LineMarkers(c *Ctx, s *c42Schema, f *ssa.Function) {
	dbName, lineName := s.db.Obj().Name(), s.line.Obj().Name()
	// @revoked lines go to the revoked set and never to lines
	yes, _ := c42MarkerTests(f, "@revoked")
	ok := len(yes) > 0
	if ok {
		isLinesStore := func(in ssa.Instruction) bool {
			st, isS := in.(*ssa.Store)
			if !isS {
				return false
			}
			t, fld, _, okf := fieldOf(st.Addr)
			return okf && t == dbName && fld == s.lines
		}
		isRevokedUpdate := func(in ssa.Instruction) bool {
			mu, isM := in.(*ssa.MapUpdate)
			if !isM {
				return false
			}
			t, fld, _, okf := fieldOf(mu.Map)
			return okf && t == dbName && fld == s.revoked
		}
		for _, e := range yes {
			if deepReachFrom(f, e.to(), nil, isLinesStore) != nil {
				ok = false
			}
			if deepReachFrom(f, e.to(), nil, isRevokedUpdate) == nil {
				ok = false
			}
		}
	}
	c.check(ok, "C42.markers", "(*hostKeyDB).parseLine @revoked", f, "@revoked keys are recorded in the revoked set and never become matchable lines", "@revoked lines are not kept apart from matchable lines")
	// cert flag set from the marker: every store to the line's marker field is
	// the comparison itself, or 'true' behind the comparison's true edge, or false
	okC, good := true, 0
	for _, g := range deepFuncs(f) {
		certYes, eqVals := c42MarkerTests(g, "@cert-authority")
		for _, st := range storesTo(g, lineName, s.cert) {
			isEq := false
			for _, v := range eqVals {
				if st.Val == v {
					isEq = true
				}
			}
			b, isConst := constBool(st.Val)
			switch {
			case isEq:
				good++
			case isConst && !b:
			case isConst && b:
				cut := edgeSet{}
				cut.addAll(certYes)
				if len(certYes) == 0 || pathFromEntry(st, cut) {
					okC = false
				} else {
					good++
				}
			default:
				okC = false
			}
		}
	}
	c.check(okC && good > 0, "C42.markers", "(*hostKeyDB).parseLine @cert-authority", f, "the cert flag is exactly 'marker == @cert-authority'", "the certificate-authority flag is not derived from the @cert-authority marker")
}
