package main

import (
	"fmt"
	"go/token"
	"strings"

	"golang.org/x/tools/go/ssa"
)

func init() {
	register(&propDef{
		id: "C42", run: runC42, minOblig: 13,
		explanation: "Decides the decision skeleton of ssh/knownhosts: (revocation first) hostKeyDB.check consults the revoked set for the presented key before anything else and returns RevokedError for a hit; (acceptance) checkAddr returns nil only behind 'line matches' AND keyEq(line key, presented key), and appends to KeyError.Want exactly the lines that matched (append behind the match edge, before the key comparison); (pattern lists) hostPatterns.match, evaluated per iteration over (pattern matches, negated): a matching negated pattern rejects immediately, a matching positive pattern sets the result and continues scanning (later negations still count), a non-matching pattern changes nothing; hostPattern.match requires the wildcard match of the host AND port equality; (wildcards) wildcardMatch's control skeleton, evaluated over (len(pat), pat[0] in {*,?,other}, len(str), characters equal): empty pattern matches only the empty string, a trailing '*' matches anything including the empty string, '*' with more pattern and no input fails, other characters need input and equality or '?'; (certificates) IsHostAuthority requires the @cert-authority marker, key equality and a host match; IsRevoked looks up the certificate and its signing key; New wires check, IsHostAuthority and IsRevoked into a CertChecker; (lines) parseLine binds the declared key type to the parsed key (C38) and rejects unknown or doubled markers and missing fields; the non-empty pattern precedes pattern[0]. NOT decided: Normalize/bracket/port string handling, hashed-host HMAC values, ssh-keygen agreement.",
		assumptions: []string{"bytes.Equal of marshalled keys is key equality"},
	})
	tech("C42", "must-cross CFG rules, per-iteration finite-domain evaluation of the pattern-list and wildcard state machines")
}

func runC42(c *Ctx) {
	const pk = "ssh/knownhosts"
	c42PatternTable(c)
	// ---- check: revocation first
	if f := c.fn(pk, "(*hostKeyDB).check"); f != nil {
		var lk *ssa.Lookup
		allInstrs(f, func(in ssa.Instruction) {
			if l, ok := in.(*ssa.Lookup); ok {
				if _, fld, _, okf := fieldOf(l.X); okf && fld == "revoked" {
					lk = l
				}
			}
		})
		ok := lk != nil
		detail := "the revoked set is not consulted"
		if ok {
			// lookup key derives from remoteKey.Marshal()
			keyOK := false
			if cv, isC := stripConv(lk.Index).(*ssa.Call); isC && cv.Call.IsInvoke() && cv.Call.Method.Name() == "Marshal" && cv.Call.Value == ssa.Value(f.Params[3]) {
				keyOK = true
			}
			_, notRev := edgesWhere(lk, isNil)
			yes, _ := edgesWhere(lk, isNil)
			_ = notRev
			// checkAddr is reached only over the "not revoked" (nil) edge
			ca := callsNamed(f, "(*ssh/knownhosts.hostKeyDB).checkAddr")
			cut := edgeSet{}
			cut.addAll(yes)
			ok = keyOK && len(ca) == 1 && len(yes) > 0 && !pathFromEntry(ca[0], cut)
			detail = "the address/key check can run for a revoked key, or the revoked lookup is not keyed by the presented key"
			// and the non-nil edge returns a RevokedError
			okErr := false
			for _, r := range returnsOf(f) {
				if mi, isM := retVal(r, 0).(*ssa.MakeInterface); isM && strings.Contains(mi.X.Type().String(), "RevokedError") {
					okErr = true
				}
			}
			ok = ok && okErr
		}
		c.check(ok, "C42.revoked-first", "(*hostKeyDB).check", f, "a revoked key yields RevokedError before any line is consulted", detail)
	}
	// ---- checkAddr
	if f := c.fn(pk, "(*hostKeyDB).checkAddr"); f != nil {
		acc := acceptReturns(f, 0)
		var m, k []ssa.CallInstruction
		m = callsNamed(f, "(*ssh/knownhosts.keyDBLine).match")
		k = callsNamed(f, "ssh/knownhosts.keyEq")
		h := (*ssa.BasicBlock)(nil)
		if len(m) == 1 {
			h = innermostLoopHeader(m[0].Block())
		}
		ok := len(m) == 1 && len(k) == 1 && h != nil
		if ok {
			back := backEdges(f)
			for _, pass := range [][]edge{callSuccess(m, 0, isTrue), callSuccess(k, 0, isTrue)} {
				cut := edgeSet{}
				cut.addAll(pass)
				for b := range back {
					cut[b] = true
				}
				r := reach([]*ssa.BasicBlock{h}, cut)
				for _, t := range acc {
					if r[t.Block()] {
						ok = false
					}
				}
			}
			// keyEq compares the line's key with the presented key
			a := k[0].Common().Args
			_, f0, _, ok0 := fieldOf(a[0])
			ok = ok && ok0 && f0 == "Key" && a[1] == ssa.Value(f.Params[2])
		}
		c.check(ok, "C42.accept", "(*hostKeyDB).checkAddr", f, "nil only for a matching line that lists exactly the presented key", "a key can be accepted without a matching line listing that key")
		// Want: appended behind the match edge and before the key test
		var app ssa.CallInstruction
		for _, ci := range calls(f, nameIs("builtin:append")) {
			app = ci
		}
		okW := app != nil && len(m) == 1 && len(k) == 1
		if okW {
			yes := callSuccess(m, 0, isTrue)
			cut := edgeSet{}
			cut.addAll(yes)
			for b := range backEdges(f) {
				cut[b] = true
			}
			// appended only for matching lines …
			okW = !reach([]*ssa.BasicBlock{h}, cut)[app.Block()]
			// … and for every matching line that does not end the search: no
			// path from the match edge to the next iteration avoids the append
			var starts []*ssa.BasicBlock
			for _, e := range yes {
				starts = append(starts, e.to())
			}
			r := reachAvoiding(starts, nil, map[*ssa.BasicBlock]bool{app.Block(): true})
			for b := range backEdges(f) {
				if r[b.from] {
					okW = false
				}
			}
			for _, ret := range returnsOf(f) {
				if r[ret.Block()] && errNilness(retVal(ret, 0), ret.Block(), 0) != definitelyNil && !isNilConst(retVal(ret, 0)) {
					okW = false
				}
			}
		}
		c.check(okW, "C42.want-lines", "(*hostKeyDB).checkAddr", f, "KeyError.Want collects exactly the lines whose patterns match", "KeyError.Want does not list exactly the matching lines")
	}
	// ---- hostPatterns.match per-iteration semantics
	// Superseded by c42PatternTable (decision table by interpretation), which
	// decides the same clause without depending on how the function is split
	// into helpers; the anchor-based form below raised an alarm on a mere
	// inlining of hostPattern.match and is no longer run.
	const oldPatternRules = false
	if f := c.fnOpt(pk, "(hostPatterns).match"); f != nil && oldPatternRules {
		var mc *ssa.Call
		for _, ci := range callsNamed(f, "(*ssh/knownhosts.hostPattern).match") {
			mc = ci.(*ssa.Call)
		}
		var neg []ssa.Value
		allInstrs(f, func(in ssa.Instruction) {
			if u, ok := in.(*ssa.UnOp); ok {
				if _, fld, _, okf := fieldOf(u); okf && fld == "negate" {
					neg = append(neg, u)
				}
			}
			if fv, ok := in.(*ssa.Field); ok {
				if _, fld, _, okf := fieldOf(fv); okf && fld == "negate" {
					neg = append(neg, fv)
				}
			}
		})
		bad := ""
		if mc == nil || len(neg) == 0 {
			bad = "pattern match call or negate flag not found"
		} else {
			back := backEdges(f)
			var matched *ssa.Phi
			h := innermostLoopHeader(mc.Block())
			if h != nil {
				for _, in := range h.Instrs {
					if p, ok := in.(*ssa.Phi); ok && p.Type().String() == "bool" {
						matched = p
					}
				}
			}
			for _, tc := range []struct{ m, n int64 }{{1, 1}, {1, 0}, {0, 0}, {0, 1}} {
				e := newEnv()
				e.bind(mc, tc.m)
				for _, v := range neg {
					e.bind(v, tc.n)
				}
				if matched != nil {
					e.bind(matched, 0)
				}
				cut := e.cuts(f)
				r := reachAfter(mc, cut)
				if r[mc.Block()] {
					// the call block itself is the loop body: fine
				}
				retFalse, retOther, cont := false, false, false
				for _, ret := range returnsOf(f) {
					if !r[ret.Block()] {
						continue
					}
					// only returns inside the loop body count (the final return after the loop is reached via loop exit)
					if h != nil && !h.Dominates(ret.Block()) {
						continue
					}
					viaLoopExit := false
					// a return reached only by leaving the loop (header exit) is the final result, not a per-iteration exit
					cut2 := edgeSet{}
					for k := range cut {
						cut2[k] = true
					}
					for b := range back {
						cut2[b] = true
					}
					if !reachAfter(mc, cut2)[ret.Block()] {
						viaLoopExit = true
					}
					if viaLoopExit {
						continue
					}
					if v, isC := constBool(retVal(ret, 0)); isC && !v {
						retFalse = true
					} else {
						retOther = true
					}
				}
				var carried int64 = -1
				for b := range back {
					if r[b.from] && !cut[b] {
						cont = true
						if matched != nil {
							for i, p := range matched.Block().Preds {
								if p == b.from {
									if v, ok := e.eval(matched.Edges[i]); ok {
										carried = v
									}
								}
							}
						}
					}
				}
				switch {
				case tc.m == 1 && tc.n == 1:
					if !retFalse || retOther || cont {
						bad = "a matching negated pattern does not reject the whole list immediately"
					}
				case tc.m == 1 && tc.n == 0:
					if retFalse || retOther || !cont || carried != 1 {
						bad = "a matching positive pattern must record the match and keep scanning (a later negation still has to reject); it returns early or does not record"
					}
				default:
					if retFalse || retOther || !cont || carried != 0 {
						bad = "a non-matching pattern changes the outcome"
					}
				}
			}
			// final result is the recorded flag
			okFinal := false
			for _, ret := range returnsOf(f) {
				if retVal(ret, 0) == ssa.Value(matched) {
					okFinal = true
				}
			}
			if !okFinal && bad == "" {
				bad = "the list's result is not the recorded match flag"
			}
		}
		c.check(bad == "", "C42.pattern-list", "(hostPatterns).match", f, "negation rejects wherever it appears; positives accumulate", bad)
	}
	if f := c.fnOpt(pk, "(*hostPattern).match"); f != nil && oldPatternRules {
		acc := valueReturns(f, 0)
		wm := callsNamed(f, "ssh/knownhosts.wildcardMatch")
		var portEq []edge
		allInstrs(f, func(in ssa.Instruction) {
			if bo, ok := in.(*ssa.BinOp); ok && (bo.Op == token.EQL || bo.Op == token.NEQ) {
				_, fx, _, okx := fieldOf(bo.X)
				_, fy, _, oky := fieldOf(bo.Y)
				if okx && oky && fx == "port" && fy == "port" {
					y, _ := boolEdges(bo, bo.Op == token.EQL)
					portEq = append(portEq, y...)
				}
			}
		})
		// result is a phi of (false, port compare) or direct: accept when return value can be true
		var tr []ssa.Instruction
		for _, t := range acc {
			tr = append(tr, t)
		}
		okH := len(wm) == 1
		if okH {
			yes := callSuccess(wm, 0, isTrue)
			cut := edgeSet{}
			cut.addAll(yes)
			// a true result must come through the wildcard-true edge: the returned value is phi[false, portcmp]
			for _, t := range tr {
				v := retVal(t.(*ssa.Return), 0)
				for _, l := range phiLeaves(v) {
					if b, isC := constBool(l.val); isC && !b {
						continue
					}
					if l.pred != nil && reach([]*ssa.BasicBlock{f.Blocks[0]}, cut)[l.pred] {
						// the non-false leaf arrives without the wildcard match
						okH = false
					}
					bo, isB := l.val.(*ssa.BinOp)
					if !isB || bo.Op != token.EQL {
						okH = false
					} else {
						_, fx, _, okx := fieldOf(bo.X)
						_, fy, _, oky := fieldOf(bo.Y)
						if !(okx && oky && fx == "port" && fy == "port") {
							okH = false
						}
					}
				}
			}
		}
		_ = portEq
		c.check(okH, "C42.host-pattern", "(*hostPattern).match", f, "true only for a wildcard host match AND equal ports", "a host pattern can match without both the host wildcard match and port equality")
	}
	c42Wildcard(c)
	// ---- IsHostAuthority / IsRevoked / New
	if f := c.fn(pk, "(*hostKeyDB).IsHostAuthority"); f != nil {
		acc := retTargets(f, func(r *ssa.Return) bool {
			b, ok := constBool(retVal(r, 0))
			return !ok || b
		})
		var cert []edge
		allInstrs(f, func(in ssa.Instruction) {
			if u, ok := in.(*ssa.UnOp); ok {
				if _, fld, _, okf := fieldOf(u); okf && fld == "cert" {
					y, _ := boolEdges(u, true)
					cert = append(cert, y...)
				}
			}
			if fv, ok := in.(*ssa.Field); ok {
				if _, fld, _, okf := fieldOf(fv); okf && fld == "cert" {
					y, _ := boolEdges(fv, true)
					cert = append(cert, y...)
				}
			}
		})
		c.mustCross("C42.authority", "IsHostAuthority marker", f, instrsOf(acc), cert, "the line carries @cert-authority")
		c.mustCross("C42.authority", "IsHostAuthority key", f, instrsOf(acc), callSuccess(callsNamed(f, "ssh/knownhosts.keyEq"), 0, isTrue), "keyEq(line key, signing key)")
		c.mustCross("C42.authority", "IsHostAuthority host", f, instrsOf(acc), callSuccess(callsNamed(f, "(*ssh/knownhosts.keyDBLine).match"), 0, isTrue), "the line's patterns match the address")
	}
	if f := c.fn(pk, "(*hostKeyDB).IsRevoked"); f != nil {
		n := 0
		what := map[string]bool{}
		allInstrs(f, func(in ssa.Instruction) {
			if l, ok := in.(*ssa.Lookup); ok {
				if _, fld, _, okf := fieldOf(l.X); okf && fld == "revoked" {
					n++
					if cv, isC := stripConv(l.Index).(*ssa.Call); isC && cv.Call.IsInvoke() && cv.Call.Method.Name() == "Marshal" {
						if _, f2, _, ok2 := fieldOf(cv.Call.Value); ok2 {
							what[f2] = true
						} else {
							what["self"] = true
						}
					} else if cv, isC := stripConv(l.Index).(*ssa.Call); isC && strings.HasSuffix(calleeName(&cv.Call), ".Marshal") {
						what["self"] = true
					}
				}
			}
		})
		c.check(n == 2 && what["SignatureKey"] && what["self"], "C42.authority", "IsRevoked", f, "both the certificate and its signing key are looked up in the revoked set", fmt.Sprintf("revoked lookups: %d (%v); both the certificate and its signing key must be checked", n, what))
	}
	if f := c.fn(pk, "New"); f != nil {
		got := map[string]string{}
		for _, g := range withClosures(f) {
			allInstrs(g, func(in ssa.Instruction) {
				if st, ok := in.(*ssa.Store); ok {
					if t, fld, _, okf := fieldOf(st.Addr); okf && t == "CertChecker" {
						got[fld] = funcValueName(st.Val)
						if mc, isM := st.Val.(*ssa.MakeClosure); isM {
							got[fld] = funcValueName(mc.Fn)
						}
					}
				}
			})
		}
		ok := strings.Contains(got["IsHostAuthority"], "IsHostAuthority") && strings.Contains(got["IsRevoked"], "IsRevoked") && strings.Contains(got["HostKeyFallback"], "check")
		c.check(ok, "C42.wiring", "New", f, "CertChecker uses the database's IsHostAuthority, IsRevoked and check", fmt.Sprintf("CertChecker wiring is %v", got))
	}
	// ---- parseLine markers
	if f := c.fn(pk, "parseLine"); f != nil {
		// pattern starting with '@' rejected
		acc := acceptReturns(f, 3)
		var at []edge
		allInstrs(f, func(in ssa.Instruction) {
			if bo, ok := in.(*ssa.BinOp); ok && (bo.Op == token.EQL || bo.Op == token.NEQ) {
				if k, okk := constInt(bo.Y); okk && k == '@' {
					_, no := boolEdges(bo, bo.Op == token.EQL)
					at = append(at, no...)
				}
			}
		})
		// the '@' test is only evaluated for non-empty hosts; accept must not be reachable over the '@' == true edge
		okAt := len(at) > 0
		if okAt {
			allInstrs(f, func(in ssa.Instruction) {
				if bo, ok := in.(*ssa.BinOp); ok && (bo.Op == token.EQL || bo.Op == token.NEQ) {
					if k, okk := constInt(bo.Y); okk && k == '@' {
						e := newEnv()
						if bo.Op == token.EQL {
							e.bind(bo, 1)
						} else {
							e.bind(bo, 0)
						}
						cut := e.cuts(f)
						r := reachAfter(bo, cut)
						for _, t := range acc {
							if r[t.Block()] {
								okAt = false
							}
						}
					}
				}
			})
		}
		c.check(okAt, "C42.markers", "parseLine unexpected marker", f, "a second or unknown @marker in the host position is rejected", "a line whose host field starts with '@' (doubled/unknown marker) is accepted")
	}
	if f := c.fn(pk, "(*hostKeyDB).parseLine"); f != nil {
		// @revoked lines go to the revoked set and never to lines
		var rev *ssa.BinOp
		allInstrs(f, func(in ssa.Instruction) {
			if bo, ok := in.(*ssa.BinOp); ok && bo.Op == token.EQL {
				if s, isC := constString(bo.Y); isC && s == "@revoked" {
					rev = bo
				}
			}
		})
		ok := rev != nil
		if ok {
			e := newEnv()
			e.bind(rev, 1)
			cut := e.cuts(f)
			r := reachAfter(rev, cut)
			for _, st := range storesTo(f, "hostKeyDB", "lines") {
				if r[st.Block()] {
					ok = false
				}
			}
			upd := false
			allInstrs(f, func(in ssa.Instruction) {
				if mu, isM := in.(*ssa.MapUpdate); isM && r[mu.Block()] {
					upd = true
				}
			})
			ok = ok && upd
		}
		c.check(ok, "C42.markers", "(*hostKeyDB).parseLine @revoked", f, "@revoked keys are recorded in the revoked set and never become matchable lines", "@revoked lines are not kept apart from matchable lines")
		// cert flag set from the marker
		okC := false
		for _, st := range storesTo(f, "keyDBLine", "cert") {
			if bo, isB := st.Val.(*ssa.BinOp); isB && bo.Op == token.EQL {
				if s, isC := constString(bo.Y); isC && s == "@cert-authority" {
					okC = true
				}
			}
		}
		c.check(okC, "C42.markers", "(*hostKeyDB).parseLine @cert-authority", f, "the cert flag is exactly 'marker == @cert-authority'", "the certificate-authority flag is not derived from the @cert-authority marker")
	}
}

func c42Wildcard(c *Ctx) {
	f := c.fn("ssh/knownhosts", "wildcardMatch")
	if f == nil {
		return
	}
	// the loop-carried pat/str values: phis in the loop header
	var h *ssa.BasicBlock
	for e := range backEdges(f) {
		if h == nil || e.to().Dominates(h) {
			h = e.to()
		}
	}
	if h == nil {
		c.fail("C42.wildcard", "wildcardMatch", f, "loop not found")
		return
	}
	var phis []*ssa.Phi
	for _, in := range h.Instrs {
		if p, ok := in.(*ssa.Phi); ok && strings.HasPrefix(p.Type().String(), "[]") {
			phis = append(phis, p)
		}
	}
	if len(phis) != 2 {
		c.fail("C42.wildcard", "wildcardMatch", f, fmt.Sprintf("expected two loop-carried slices (pattern, string), found %d", len(phis)))
		return
	}
	// which is pat: the one whose initial value is parameter 0
	pat, str := phis[0], phis[1]
	for _, e := range phis[1].Edges {
		if e == ssa.Value(f.Params[0]) {
			pat, str = phis[1], phis[0]
		}
	}
	back := backEdges(f)
	type outcome struct{ retTrue, retFalse, cont, inner bool }
	run := func(lp int64, p0 int64, ls int64, eq int64) outcome {
		e := newEnv()
		e.bindLen(f, pat, lp)
		e.bindLen(f, str, ls)
		e.bindIndexLoads(f, func(b ssa.Value) bool { return b == ssa.Value(pat) }, 0, p0)
		// str[0]: equal to pat[0] or not
		s0 := p0
		if eq == 0 {
			s0 = p0 + 1
		}
		if p0 == '?' || p0 == '*' {
			s0 = 'x'
		}
		e.bindIndexLoads(f, func(b ssa.Value) bool { return b == ssa.Value(str) }, 0, s0)
		cut := e.cuts(f)
		for b := range back {
			_ = b
		}
		r := reach([]*ssa.BasicBlock{h}, func() edgeSet {
			cs := edgeSet{}
			for k := range cut {
				cs[k] = true
			}
			return cs
		}())
		var o outcome
		for _, ret := range returnsOf(f) {
			if !r[ret.Block()] {
				continue
			}
			v := retVal(ret, 0)
			if b, isC := constBool(v); isC {
				if b {
					o.retTrue = true
				} else {
					o.retFalse = true
				}
			} else if n, ok := e.eval(v); ok {
				if n != 0 {
					o.retTrue = true
				} else {
					o.retFalse = true
				}
			} else {
				o.retTrue, o.retFalse = true, true
			}
		}
		for b := range back {
			if b.to() == h && r[b.from] && !cut[b] {
				o.cont = true
			}
		}
		for _, ci := range callsNamed(f, "ssh/knownhosts.wildcardMatch") {
			if r[ci.Block()] {
				o.inner = true
			}
		}
		return o
	}
	bad := ""
	chk := func(desc string, o outcome, wantTrue, wantFalse, wantCont bool) {
		if bad != "" {
			return
		}
		// the inner recursion makes both results possible when entered
		if o.inner {
			return
		}
		if o.retTrue != wantTrue || o.retFalse != wantFalse || o.cont != wantCont {
			bad = fmt.Sprintf("%s: can return true=%v false=%v, continues=%v; OpenSSH match_pattern: true=%v false=%v continues=%v", desc, o.retTrue, o.retFalse, o.cont, wantTrue, wantFalse, wantCont)
		}
	}
	chk("empty pattern, empty string", run(0, 'a', 0, 1), true, false, false)
	chk("empty pattern, non-empty string", run(0, 'a', 3, 1), false, true, false)
	chk("pattern \"*\" (last character), empty string", run(1, '*', 0, 1), true, false, false)
	chk("pattern \"*\" (last character), non-empty string", run(1, '*', 3, 1), true, false, false)
	chk("pattern \"*…\" with more pattern, empty string", run(3, '*', 0, 1), false, true, false)
	chk("literal pattern character, empty string", run(2, 'a', 0, 1), false, true, false)
	chk("'?', non-empty string", run(2, '?', 2, 1), false, false, true)
	chk("'?', empty string", run(2, '?', 0, 1), false, true, false)
	chk("equal literal characters", run(2, 'a', 2, 1), false, false, true)
	chk("different literal characters", run(2, 'a', 2, 0), false, true, false)
	c.check(bad == "", "C42.wildcard", "wildcardMatch", f, "control skeleton equals OpenSSH's match_pattern on 10 cases (incl. trailing '*' against the empty string)", bad)
}
