package main

import (
	"fmt"
	"go/token"
	"go/types"
	"strings"

	"golang.org/x/tools/go/ssa"
)

func init() {
	register(&propDef{
		id: "C38", run: runC38, minOblig: 17,
		explanation: "Decides structural clauses of the SSH public-key formats: (type binding) every successful return of ParseAuthorizedKey, ParseKnownHosts and knownhosts.parseLine lies behind the equality of the declared key-type token with the parsed key's Type(); (options belong to the returned line) the options value returned by ParseAuthorizedKey is never a value carried over from an earlier loop iteration (an earlier skipped line); (wire layout agreement) for RSA, DSA, ECDSA, Ed25519, SK-ECDSA and SK-Ed25519 the struct marshalled by Marshal is the type name followed by exactly the fields, in the same order and of the same Go types, that the corresponding parse function unmarshals (minus the trailing ssh:\"rest\" field); (dispatch) parsePubKey dispatches each key algorithm name to the parser of that format and every certificate algorithm to parseCert with the mapped base algorithm; ParsePublicKey rejects trailing bytes; (range guards, evaluated) RSA: modulus <= 16384 bits, exponent <= 24 bits, odd and >= 3; DSA: 0 < Y < P; Ed25519: exact key length. NOT decided: ssh-keygen byte equality, fingerprints, the option-splitting grammar.",
		assumptions: []string{"ssh.Marshal/Unmarshal encode struct fields in declaration order (C24)"},
	})
	tech("C38", "must-cross CFG rules, loop-carried-value (phi) check, struct-type agreement between marshal and parse sites via go/types, finite-domain evaluation of range guards")
}

// wireStructs returns the struct types of the allocs passed (as pointer) to the named call in fn.
func wireStructs(fn *ssa.Function, callee string) []*types.Struct {
	var out []*types.Struct
	for _, ci := range callsNamed(fn, callee) {
		idx := 0
		if callee == "ssh.Unmarshal" {
			idx = 1
		}
		if mi, ok := ci.Common().Args[idx].(*ssa.MakeInterface); ok {
			if st := derefStruct(mi.X.Type()); st != nil {
				out = append(out, st)
			}
		}
	}
	return out
}

func runC38(c *Ctx) {
	sweepC38(c)
	// ---- (a) type binding
	for _, spec := range []struct{ pkg, fn string }{{"ssh", "ParseAuthorizedKey"}, {"ssh", "ParseKnownHosts"}, {"ssh/knownhosts", "parseLine"}} {
		f := c.fn(spec.pkg, spec.fn)
		if f == nil {
			continue
		}
		var eq []edge
		n := 0
		allInstrs(f, func(in ssa.Instruction) {
			bo, ok := in.(*ssa.BinOp)
			if !ok || (bo.Op != token.EQL && bo.Op != token.NEQ) {
				return
			}
			isType := func(v ssa.Value) bool {
				call, ok := v.(*ssa.Call)
				return ok && call.Call.IsInvoke() && call.Call.Method.Name() == "Type"
			}
			if isType(bo.X) || isType(bo.Y) {
				y, _ := boolEdges(bo, bo.Op == token.EQL)
				eq = append(eq, y...)
				n++
			}
		})
		errIdx := f.Signature.Results().Len() - 1
		acc := acceptReturns(f, errIdx)
		// only returns that actually carry a key
		var keyed []ssa.Instruction
		for _, t := range acc {
			r := t.(*ssa.Return)
			hasKey := false
			for i := 0; i < len(r.Results); i++ {
				if strings.HasSuffix(r.Results[i].Type().String(), "PublicKey") && !isNilConst(retVal(r, i)) {
					hasKey = true
				}
			}
			if hasKey {
				keyed = append(keyed, t)
			}
		}
		c.mustCross("C38.type-binding", spec.pkg+"."+spec.fn, f, keyed, eq, "declared key type == parsed key's Type()")
		if spec.fn == "ParseAuthorizedKey" {
			c.check(n == 2, "C38.type-binding", "ParseAuthorizedKey both stages", f, "both the plain and the options-prefixed stage compare the type", fmt.Sprintf("%d type comparisons, expected 2", n))
			// options freshness
			carried := false
			var at ssa.Instruction
			for _, t := range keyed {
				r := t.(*ssa.Return)
				for i := range r.Results {
					if r.Results[i].Type().String() != "[]string" {
						continue
					}
					seen := map[*ssa.Phi]bool{}
					var walk func(v ssa.Value)
					walk = func(v ssa.Value) {
						p, ok := v.(*ssa.Phi)
						if !ok || seen[p] {
							return
						}
						seen[p] = true
						// the per-line loop is the outermost loop containing the return
						var outer *ssa.BasicBlock
						for e := range backEdges(f) {
							h := e.to()
							if h.Dominates(r.Block()) && (outer == nil || h.Dominates(outer)) {
								outer = h
							}
						}
						if outer != nil && p.Block() == outer {
							carried = true
							at = r
						}
						for _, ev := range p.Edges {
							walk(ev)
						}
					}
					walk(retVal(r, i))
				}
			}
			c.check(!carried, "C38.options-fresh", "ParseAuthorizedKey options", at, "the options returned were split from the line of the returned key", "the options returned with a key can be a value left over from an earlier (skipped) line")
		}
	}
	// ---- (b) wire layout agreement
	for _, spec := range []struct{ parse, marshal string }{
		{"parseRSA", "(*rsaPublicKey).Marshal"},
		{"parseDSA", "(*dsaPublicKey).Marshal"},
		{"parseECDSA", "(*ecdsaPublicKey).Marshal"},
		{"parseED25519", "(ed25519PublicKey).Marshal"},
		{"parseSKECDSA", "(*skECDSAPublicKey).Marshal"},
		{"parseSKEd25519", "(*skEd25519PublicKey).Marshal"},
	} {
		pf, mf := c.fn("ssh", spec.parse), c.fn("ssh", spec.marshal)
		if pf == nil || mf == nil {
			continue
		}
		ps, ms := wireStructs(pf, "ssh.Unmarshal"), wireStructs(mf, "ssh.Marshal")
		if len(ps) != 1 || len(ms) != 1 {
			c.fail("C38.layout", spec.parse+" / "+spec.marshal, pf, fmt.Sprintf("wire structs not found (%d parse, %d marshal)", len(ps), len(ms)))
			continue
		}
		p, m := ps[0], ms[0]
		var pl, ml []string
		for i := 0; i < p.NumFields(); i++ {
			if strings.Contains(p.Tag(i), `ssh:"rest"`) && i == p.NumFields()-1 {
				continue
			}
			pl = append(pl, p.Field(i).Type().String()+tagOf(p.Tag(i)))
		}
		okName := m.NumFields() > 0 && m.Field(0).Type().String() == "string"
		for i := 1; i < m.NumFields(); i++ {
			ml = append(ml, m.Field(i).Type().String()+tagOf(m.Tag(i)))
		}
		// Where neighbouring fields have the same Go type (E,N / P,Q,G,Y) the
		// types alone cannot show a swap: within such runs the field names
		// (the RFC's names for the values) must agree too.
		base := append([]string{}, pl...)
		for j := 0; j < len(base) && j < len(ml); j++ {
			if (j > 0 && base[j] == base[j-1]) || (j+1 < len(base) && base[j] == base[j+1]) {
				pl[j] = p.Field(j).Name() + " " + pl[j]
				ml[j] = m.Field(j+1).Name() + " " + ml[j]
			}
		}
		c.check(okName && strings.Join(pl, ",") == strings.Join(ml, ","), "C38.layout", spec.parse+" / "+spec.marshal, mf,
			fmt.Sprintf("name + %v on both sides", pl), fmt.Sprintf("Marshal writes name(%v)+%v but the parser reads %v", okName, ml, pl))
	}
	// ---- (c) dispatch
	if f := c.fn("ssh", "parsePubKey"); f != nil {
		want := map[string]string{
			"ssh-rsa": "ssh.parseRSA", "ssh-dss": "ssh.parseDSA",
			"ecdsa-sha2-nistp256": "ssh.parseECDSA", "ecdsa-sha2-nistp384": "ssh.parseECDSA", "ecdsa-sha2-nistp521": "ssh.parseECDSA",
			"sk-ecdsa-sha2-nistp256@openssh.com": "ssh.parseSKECDSA", "ssh-ed25519": "ssh.parseED25519", "sk-ssh-ed25519@openssh.com": "ssh.parseSKEd25519",
		}
		certs := []string{"ssh-rsa-cert-v01@openssh.com", "ssh-dss-cert-v01@openssh.com", "ecdsa-sha2-nistp256-cert-v01@openssh.com", "ecdsa-sha2-nistp384-cert-v01@openssh.com", "ecdsa-sha2-nistp521-cert-v01@openssh.com", "sk-ecdsa-sha2-nistp256-cert-v01@openssh.com", "ssh-ed25519-cert-v01@openssh.com", "sk-ssh-ed25519-cert-v01@openssh.com"}
		// string switch: collect the comparisons algo == const and bind them one at a time
		var cmps []*ssa.BinOp
		allInstrs(f, func(in ssa.Instruction) {
			if bo, ok := in.(*ssa.BinOp); ok && bo.Op == token.EQL && bo.X == ssa.Value(f.Params[1]) {
				if _, ok := constString(bo.Y); ok {
					cmps = append(cmps, bo)
				}
			}
		})
		route := func(name string) string {
			e := newEnv()
			for _, bo := range cmps {
				s, _ := constString(bo.Y)
				if s == name {
					e.bind(bo, 1)
				} else {
					e.bind(bo, 0)
				}
			}
			e.solve(f)
			got := ""
			allInstrs(f, func(in ssa.Instruction) {
				if call, ok := in.(*ssa.Call); ok && e.reach[call.Block()] {
					n := short(calleeName(&call.Call))
					if strings.HasPrefix(n, "ssh.parse") {
						got = n
					}
				}
			})
			return got
		}
		bad := ""
		for name, w := range want {
			if got := route(name); got != w {
				bad = fmt.Sprintf("algorithm %q is parsed by %q, expected %s", name, got, w)
			}
		}
		for _, name := range certs {
			if got := route(name); got != "ssh.parseCert" {
				bad = fmt.Sprintf("certificate algorithm %q is parsed by %q, expected ssh.parseCert", name, got)
			}
		}
		if got := route("no-such-algorithm"); got != "" {
			bad = "an unknown algorithm name reaches a parser: " + got
		}
		c.check(bad == "", "C38.dispatch", "parsePubKey", f, fmt.Sprintf("%d key and %d certificate algorithm names reach their parser; unknown names reach none", len(want), len(certs)), bad)
	}
	if f := c.fn("ssh", "ParsePublicKey"); f != nil {
		var rest ssa.Value
		for _, ci := range callsNamed(f, "ssh.parsePubKey") {
			for _, v := range resultN(ci.(*ssa.Call), 1) {
				rest = v
			}
		}
		bad := ""
		if rest == nil {
			bad = "parsePubKey not called"
		} else {
			for _, n := range []int64{0, 1, 7} {
				e := newEnv()
				e.bindLen(f, rest, n)
				e.solve(f)
				okRet := false
				for _, r := range returnsOf(f) {
					if e.reach[r.Block()] && !isNilConst(retVal(r, 0)) {
						okRet = true
					}
				}
				if okRet != (n == 0) {
					bad = fmt.Sprintf("%d trailing bytes: a key is returned=%v", n, okRet)
				}
			}
		}
		c.check(bad == "", "C38.trailing", "ParsePublicKey", f, "trailing bytes after the key blob are rejected", bad)
	}
	// ---- (d) range guards
	if f := c.fn("ssh", "parseRSA"); f != nil {
		var nBits, eBits, eVal ssa.Value
		for _, ci := range callsNamed(f, "(*math/big.Int).BitLen") {
			if _, fld, _, ok := fieldOf(ci.Common().Args[0]); ok && fld == "N" {
				nBits = callValue(ci)
			} else if ok && fld == "E" {
				eBits = callValue(ci)
			}
		}
		for _, ci := range callsNamed(f, "(*math/big.Int).Int64") {
			eVal = callValue(ci)
		}
		bad := ""
		if nBits == nil || eBits == nil || eVal == nil {
			bad = "size/exponent reads not found"
		} else {
			for _, nb := range []int64{1024, 16384, 16385, 1 << 20} {
				for _, eb := range []int64{2, 17, 24, 25, 64} {
					for _, ev := range []int64{-1, 0, 1, 2, 3, 4, 65537, 65538} {
						e := newEnv()
						e.bind(nBits, nb)
						e.bind(eBits, eb)
						e.bind(eVal, ev)
						e.bindNilTests(f, func(v ssa.Value) bool { return strings.HasSuffix(v.Type().String(), "error") }, true)
						e.solve(f)
						got := false
						for _, t := range acceptReturns(f, 2) {
							if e.reach[t.Block()] {
								got = true
							}
						}
						want := nb <= 16384 && eb <= 24 && ev >= 3 && ev&1 == 1
						if got != want {
							bad = fmt.Sprintf("N bits=%d E bits=%d E=%d: accepted=%v, specification %v", nb, eb, ev, got, want)
						}
					}
				}
			}
		}
		c.check(bad == "", "C38.range", "parseRSA", f, "modulus <= 16384 bits, exponent <= 24 bits, odd and >= 3", bad)
	}
	if f := c.fn("ssh", "parseDSA"); f != nil {
		var sg, cp ssa.Value
		for _, ci := range callsNamed(f, "(*math/big.Int).Sign") {
			if _, fld, _, ok := fieldOf(ci.Common().Args[0]); ok && fld == "Y" {
				sg = callValue(ci)
			}
		}
		for _, ci := range callsNamed(f, "(*math/big.Int).Cmp") {
			_, f0, _, ok0 := fieldOf(ci.Common().Args[0])
			_, f1, _, ok1 := fieldOf(ci.Common().Args[1])
			if ok0 && ok1 && f0 == "Y" && f1 == "P" {
				cp = callValue(ci)
			}
		}
		bad := ""
		if sg == nil || cp == nil {
			bad = "Y range tests not found"
		} else {
			for _, s := range []int64{-1, 0, 1} {
				for _, k := range []int64{-1, 0, 1} {
					e := newEnv()
					e.bind(sg, s)
					e.bind(cp, k)
					e.bindNilTests(f, func(v ssa.Value) bool { return strings.HasSuffix(v.Type().String(), "error") }, true)
					e.solve(f)
					got := false
					for _, t := range acceptReturns(f, 2) {
						if e.reach[t.Block()] {
							got = true
						}
					}
					if got != (s > 0 && k < 0) {
						bad = fmt.Sprintf("sign(Y)=%d cmp(Y,P)=%d: accepted=%v", s, k, got)
					}
				}
			}
		}
		c.check(bad == "", "C38.range", "parseDSA", f, "0 < Y < P", bad)
		c.mustCross("C38.range", "parseDSA parameters", f, acceptReturns(f, 2), callSuccess(callsNamed(f, "ssh.checkDSAParams"), -1, isNil), "checkDSAParams == nil")
	}
	if f := c.fn("ssh", "parseED25519"); f != nil {
		sz := int64(32)
		bad := ""
		var ln ssa.Value
		allInstrs(f, func(in ssa.Instruction) {
			if call, ok := in.(*ssa.Call); ok && calleeName(&call.Call) == "builtin:len" {
				if _, fld, _, ok := fieldOf(call.Call.Args[0]); ok && fld == "KeyBytes" {
					ln = call
				}
			}
		})
		if ln == nil {
			bad = "key length not tested"
		} else {
			for _, n := range []int64{0, 31, 32, 33, 64} {
				e := newEnv()
				e.bind(ln, n)
				e.bindNilTests(f, func(v ssa.Value) bool { return strings.HasSuffix(v.Type().String(), "error") }, true)
				e.solve(f)
				got := false
				for _, t := range acceptReturns(f, 2) {
					if e.reach[t.Block()] {
						got = true
					}
				}
				if got != (n == sz) {
					bad = fmt.Sprintf("key of %d bytes accepted=%v", n, got)
				}
			}
		}
		c.check(bad == "", "C38.range", "parseED25519", f, "exactly 32 key bytes", bad)
	}
}

func tagOf(t string) string {
	if strings.Contains(t, `ssh:"rest"`) {
		return "[rest]"
	}
	return ""
}
