package main

import (
	"fmt"
	"strings"
)

func init() {
	register(&propDef{
		id: "C38", run: runC38, minOblig: 17,
		explanation: "Decides structural clauses of the SSH public-key formats, each independently of how the code is factored into helpers. (type binding) For ParseAuthorizedKey, ParseKnownHosts and knownhosts.parseLine: every return that carries a key K and a possibly-nil error is reachable only after K.Type() was found equal to a token computed from the input text, compared on that very key (K is followed through phis, the results of same-package helpers and into helper parameters); the equality may be ==/!= on strings or bytes.Equal on the []byte forms, and may be established through the nil-error / true / non-nil-key result of a helper all of whose returns in that state lie behind the comparison. ParseAuthorizedKey returns keys both without options and with the options split from the line. (options belong to the returned line) the []string returned with a key is never a value that travelled around the back edge of a loop in which the returned key is parsed (a value computed for an earlier, skipped line). (wire layout agreement) for RSA, DSA, ECDSA, Ed25519, SK-ECDSA and SK-Ed25519 the struct passed to Marshal is a string (the type name) followed by exactly the fields, in the same order and of the same Go types, of the struct the parse function passes to Unmarshal (minus the trailing ssh:\"rest\" field); where neighbouring fields have the same type (E,N / P,Q,G,Y) the position must carry the same key field on both sides, decided by data flow (the key field the parser stores the wire field into = the key field Marshal computes it from), falling back to the wire-struct field names only where the data flow is not determined. (dispatch) parsePubKey, interpreted once per algorithm name with helpers of the package interpreted in place, calls exactly the parser of that format for the 8 key formats, parseCert for the 8 certificate formats, and no parser for an unknown name. (trailing bytes) ParsePublicKey, interpreted with parsePubKey leaving 0, 1 or 7 bytes, returns a key only for 0. (range guards) parseRSA, parseDSA and parseED25519 are interpreted (helpers in place, ssh.Unmarshal succeeding) with the math/big observers BitLen/Int64/IsInt64/Sign/Bit/Cmp answered according to the ROLE of their receiver (the wire field that flows into rsa.PublicKey.N / .E, the DSA Y / P) over a finite grid of values: RSA accepts iff modulus <= 16384 bits, exponent <= 24 bits, odd and >= 3; DSA accepts iff 0 < Y < P, and every key-carrying return lies behind checkDSAParams == nil (value-sensitive, across helpers); Ed25519 accepts iff the single []byte payload has exactly 32 bytes. A package helper that cannot be interpreted over the finite domain is taken to succeed. NOT decided: ssh-keygen byte equality, fingerprints, the option-splitting grammar, that the compared token is the field immediately preceding the key blob.",
		assumptions: []string{"ssh.Marshal/Unmarshal encode struct fields in declaration order (C24)"},
	})
	tech("C38", "value-sensitive interprocedural must-cross (gate established through helper results), loop-carried-value (phi) check on the per-line loop, struct-type agreement between marshal and parse sites via go/types with field roles by data flow, abstract interpretation (pathWalker, helpers in place) of the range guards, the dispatch switch and the trailing-bytes check")
}

func runC38(c *Ctx) {
	sweepC38(c)
	// ---- (a) type binding (c38_bind.go): every key-carrying return, value-sensitive and across helpers
	for _, spec := range []struct{ pkg, fn string }{{"ssh", "ParseAuthorizedKey"}, {"ssh", "ParseKnownHosts"}, {"ssh/knownhosts", "parseLine"}} {
		f := c.fn(spec.pkg, spec.fn)
		if f == nil {
			continue
		}
		c.c38TypeBinding(spec.pkg+"."+spec.fn, f)
		if spec.fn == "ParseAuthorizedKey" {
			c.c38BothForms("ParseAuthorizedKey both line forms", f)
			c.c38OptionsRule(f)
		}
	}
	// ---- (b) wire layout agreement (roles by data flow: c38_walk.go)
	for _, spec := range []struct{ parse, marshal string }{
		{"parseRSA", "(*rsaPublicKey).Marshal"},
		{"parseDSA", "(*dsaPublicKey).Marshal"},
		{"parseECDSA", "(*ecdsaPublicKey).Marshal"},
		{"parseED25519", "(ed25519PublicKey).Marshal"},
		{"parseSKECDSA", "(*skECDSAPublicKey).Marshal"},
		{"parseSKEd25519", "(*skEd25519PublicKey).Marshal"},
	} {
		pf, mf := c.fn("ssh", spec.parse), c.fn("ssh", spec.marshal)
		if pf == nil || mf == nil {
			continue
		}
		ps, ms := c38WireStructs(pf, "ssh.Unmarshal"), c38WireStructs(mf, "ssh.Marshal")
		if len(ps) != 1 || len(ms) != 1 {
			c.fail("C38.layout", spec.parse+" / "+spec.marshal, pf, fmt.Sprintf("wire structs not found (%d parse, %d marshal)", len(ps), len(ms)))
			continue
		}
		p, m := ps[0], ms[0]
		var pl, ml []string
		for i := 0; i < p.NumFields(); i++ {
			if strings.Contains(p.Tag(i), `ssh:"rest"`) && i == p.NumFields()-1 {
				continue
			}
			pl = append(pl, p.Field(i).Type().String()+tagOf(p.Tag(i)))
		}
		okName := m.NumFields() > 0 && m.Field(0).Type().String() == "string"
		for i := 1; i < m.NumFields(); i++ {
			ml = append(ml, m.Field(i).Type().String()+tagOf(m.Tag(i)))
		}
		// Where neighbouring fields have the same Go type (E,N / P,Q,G,Y) the
		// types alone cannot show a swap. What a position carries is decided by
		// data flow: the key field the parser stores that wire field into must be
		// the key field Marshal computes that wire field from. The names of the
		// wire-struct fields (local to each function) are compared only where the
		// data flow does not determine the role on both sides.
		prole, mrole := c.c38ParseRoles(pf, p), c.c38MarshalRoles(mf, m)
		base := append([]string{}, pl...)
		for j := 0; j < len(base) && j < len(ml); j++ {
			if (j > 0 && base[j] == base[j-1]) || (j+1 < len(base) && base[j] == base[j+1]) {
				if len(prole[j]) > 0 && len(mrole[j+1]) > 0 {
					if c38Meet(prole[j], mrole[j+1]) {
						pl[j] = "<" + mrole.name(j+1) + "> " + pl[j]
					} else {
						pl[j] = "<" + prole.name(j) + "> " + pl[j]
					}
					ml[j] = "<" + mrole.name(j+1) + "> " + ml[j]
				} else {
					pl[j] = p.Field(j).Name() + " " + pl[j]
					ml[j] = m.Field(j+1).Name() + " " + ml[j]
				}
			}
		}
		c.check(okName && strings.Join(pl, ",") == strings.Join(ml, ","), "C38.layout", spec.parse+" / "+spec.marshal, mf,
			fmt.Sprintf("name + %v on both sides", pl), fmt.Sprintf("Marshal writes name(%v)+%v but the parser reads %v", okName, ml, pl))
	}
	// ---- (c) dispatch, trailing bytes (interpreted: c38_walk.go)
	if f := c.fn("ssh", "parsePubKey"); f != nil {
		c.c38Dispatch(f)
	}
	if f := c.fn("ssh", "ParsePublicKey"); f != nil {
		c.c38Trailing(f)
	}
	// ---- (d) range guards (interpreted: c38_walk.go)
	if f := c.fn("ssh", "parseRSA"); f != nil {
		c.c38RangeRSA(f)
	}
	if f := c.fn("ssh", "parseDSA"); f != nil {
		c.c38RangeDSA(f)
		c.c38DSAParams(f)
	}
	if f := c.fn("ssh", "parseED25519"); f != nil {
		c.c38RangeEd25519(f)
	}
}

func tagOf(t string) string {
	if strings.Contains(t, `ssh:"rest"`) {
		return "[rest]"
	}
	return ""
}
