package main

import (
	"fmt"
	"go/token"
	"go/types"
	"reflect"
	"sort"
	"strings"

	"golang.org/x/tools/go/ssa"
)

// Symbolic layer over pathWalker for the ACME JWS code (C49).
//
// The rules of C49 do not look for code shapes. Each function of acme/jws.go
// is INTERPRETED (pathWalker, same-package helpers inlined automatically) for
// every case of a small domain (key kind, curve size, byte lengths of the
// integers, empty / non-empty kid, nonce, url, string / non-string claimset),
// with every value carried as a symbolic term next to its integer abstraction:
//
//	strings      the term itself (literal text, symbols like ‹kid›, applications
//	             like b64u(...)); the integer is an identity (0 for "")
//	byte slices  a reference "@buf" + offset + length into a buffer whose
//	             content is a sequence of segments sym[lo:hi] (0[0:n] = n zero
//	             bytes), so that padding, alignment and aliasing through
//	             reslicing, copy, append and FillBytes are exact
//	pointers     "&obj.path" into a field-sensitive memory of cells
//
// The term a function returns (or hands to jwsSign / json.Marshal) is then
// compared with the term RFC 7515/7518/7638/8555 prescribe for that case. How
// the code is factored (helpers, switch vs if, locals, parameter names) does
// not enter: only what is computed.

type c49seg struct {
	sym    string
	lo, hi int64 // hi < 0: the whole of sym, length unknown
}

type c49v struct {
	s     string
	n     int64
	hasN  bool
	off   int64
	segs  []c49seg
	isBuf bool
}

type c49M struct {
	kind     string // "rsa", "ec", "other"
	bits     int64
	crv      string
	lens     map[string]int64 // byte lengths of the abstract integers
	claimStr bool
	opaque   map[string]bool
	mem      map[string]c49v
	next     int
	ids      map[string]int64
	tup      map[ssa.Value][]c49v
	calls    map[string][][]string // opaque same-package callee -> rendered arguments per call
	jsons    [][]c49member         // every struct serialised by json.Marshal, in order
	notes    []string
	lost     bool
}

func newC49M() *c49M {
	return &c49M{lens: map[string]int64{}, opaque: map[string]bool{}, mem: map[string]c49v{}, ids: map[string]int64{},
		tup: map[ssa.Value][]c49v{}, calls: map[string][][]string{}}
}

// poison: an effect on memory was lost; the run cannot be trusted.
func (m *c49M) poison(format string, a ...interface{}) {
	m.lost = true
	m.note(format, a...)
}

func (m *c49M) note(format string, a ...interface{}) {
	s := fmt.Sprintf(format, a...)
	for _, o := range m.notes {
		if o == s {
			return
		}
	}
	m.notes = append(m.notes, s)
}

// identities of non-empty strings (and of byte sequences of unknown length)
// are kept far away from any real length
const c49idBase = int64(1) << 40

// intern: the integer identity of a string term; "" is 0 so that both
// s == "" and len(s) == 0 fold.
func (m *c49M) intern(s string) int64 {
	if s == "" {
		return 0
	}
	if id, ok := m.ids[s]; ok {
		return id
	}
	id := c49idBase + int64(len(m.ids)) + 1
	m.ids[s] = id
	return id
}

func (m *c49M) strOf(id int64) (string, bool) {
	if id == 0 {
		return "", true
	}
	for s, k := range m.ids {
		if k == id {
			return s, true
		}
	}
	return "", false
}

func (m *c49M) fresh(prefix string) string {
	m.next++
	return prefix + itoa(int64(m.next))
}

func c49isStr(t types.Type) bool {
	b, ok := t.Underlying().(*types.Basic)
	return ok && b.Info()&types.IsString != 0
}

func c49isBytes(t types.Type) bool {
	s, ok := t.Underlying().(*types.Slice)
	if !ok {
		return false
	}
	b, ok := s.Elem().Underlying().(*types.Basic)
	return ok && b.Kind() == types.Uint8
}

func c49isErr(t types.Type) bool {
	return types.Identical(t, types.Universe.Lookup("error").Type())
}

func c49byteArray(t types.Type) (int64, bool) {
	a, ok := t.Underlying().(*types.Array)
	if !ok {
		return 0, false
	}
	b, ok := a.Elem().Underlying().(*types.Basic)
	return a.Len(), ok && b.Kind() == types.Uint8
}

// ---- segments

func c49zeros(n int64) []c49seg {
	if n <= 0 {
		return nil
	}
	return []c49seg{{"0", 0, n}}
}

func c49norm(in []c49seg) []c49seg {
	var out []c49seg
	for _, s := range in {
		if s.hi >= 0 && s.hi <= s.lo {
			continue
		}
		if k := len(out) - 1; k >= 0 && out[k].sym == s.sym && out[k].hi >= 0 && s.hi >= 0 {
			if s.sym == "0" {
				out[k].hi += s.hi - s.lo
				continue
			}
			if out[k].hi == s.lo {
				out[k].hi = s.hi
				continue
			}
		}
		if s.sym == "0" && s.hi >= 0 {
			s.lo, s.hi = 0, s.hi-s.lo
		}
		out = append(out, s)
	}
	return out
}

func c49render(segs []c49seg) string {
	var b strings.Builder
	for _, s := range c49norm(segs) {
		if s.hi < 0 {
			b.WriteString(s.sym)
		} else {
			fmt.Fprintf(&b, "%s[%d:%d]", s.sym, s.lo, s.hi)
		}
	}
	return b.String()
}

func c49total(segs []c49seg) (int64, bool) {
	var n int64
	for _, s := range segs {
		if s.hi < 0 {
			return 0, false
		}
		n += s.hi - s.lo
	}
	return n, true
}

// c49slice: bytes [lo, hi) of the sequence; hi < 0 = to the end.
func c49slice(segs []c49seg, lo, hi int64) []c49seg {
	if lo == 0 && hi < 0 {
		return append([]c49seg(nil), segs...)
	}
	var out []c49seg
	pos := int64(0)
	for _, s := range segs {
		if s.hi < 0 {
			return append(out, c49seg{"?part-of-" + s.sym, 0, -1})
		}
		l := s.hi - s.lo
		a, b := pos, pos+l
		pos = b
		if hi >= 0 && a >= hi {
			break
		}
		if b <= lo {
			continue
		}
		from, to := s.lo, s.hi
		if lo > a {
			from += lo - a
		}
		if hi >= 0 && hi < b {
			to -= b - hi
		}
		out = append(out, c49seg{s.sym, from, to})
	}
	if hi >= 0 && pos < hi {
		out = append(out, c49seg{"?beyond-length", 0, hi - pos})
	}
	return out
}

// ---- values

func c49global(g *ssa.Global) string {
	if g.Pkg != nil && g.Pkg.Pkg != nil {
		return g.Pkg.Pkg.Path() + "." + g.Name()
	}
	return g.Name()
}

func (m *c49M) sym(w *pathWalker, v ssa.Value) string {
	if s, ok := w.cls[v]; ok {
		return s
	}
	switch x := v.(type) {
	case *ssa.Const:
		if x.IsNil() {
			if c49isBytes(x.Type()) {
				return "@nil"
			}
			return "nil"
		}
		if s, ok := constString(x); ok {
			return s
		}
		if n, ok := constInt(x); ok {
			return itoa(n)
		}
		if b, ok := constBool(x); ok {
			return fmt.Sprint(b)
		}
		return "?const"
	case *ssa.BinOp:
		if x.Op == token.ADD && c49isStr(x.Type()) {
			return m.sym(w, x.X) + m.sym(w, x.Y)
		}
		if n, ok := w.env.eval(x); ok {
			return itoa(n)
		}
		return "(" + m.sym(w, x.X) + x.Op.String() + m.sym(w, x.Y) + ")"
	case *ssa.Convert:
		from, to := x.X.Type(), x.Type()
		switch {
		case c49isStr(from) && c49isBytes(to):
			return "@S:" + m.sym(w, x.X)
		case c49isBytes(from) && c49isStr(to):
			return m.bytesAsString(m.get(w, x.X))
		}
		return m.sym(w, x.X)
	case *ssa.ChangeType:
		return m.sym(w, x.X)
	case *ssa.MakeInterface:
		return m.sym(w, x.X)
	case *ssa.ChangeInterface:
		return m.sym(w, x.X)
	case *ssa.TypeAssert:
		if !x.CommaOk {
			return m.sym(w, x.X)
		}
	case *ssa.UnOp:
		if x.Op == token.MUL {
			if g, ok := x.X.(*ssa.Global); ok {
				return "g:" + c49global(g)
			}
		} else if n, ok := w.env.eval(x); ok {
			return itoa(n)
		}
	case *ssa.Global:
		return "&g:" + c49global(x)
	case *ssa.Function:
		return "fn:" + x.String()
	case *ssa.MakeSlice:
		key := m.fresh("b")
		cell := c49v{isBuf: true}
		if n, ok := w.env.eval(x); ok {
			cell.segs = c49zeros(n)
		} else {
			cell.segs = []c49seg{{"?make-of-unknown-length", 0, -1}}
		}
		m.mem[key] = cell
		w.cls[x] = "@" + key
		return "@" + key
	case *ssa.Alloc:
		key := m.fresh("o")
		w.cls[x] = "&" + key
		return "&" + key
	case *ssa.FieldAddr:
		base := m.sym(w, x.X)
		if st := derefStruct(x.X.Type()); st != nil && strings.HasPrefix(base, "&") {
			return base + "." + st.Field(x.Field).Name()
		}
	case *ssa.IndexAddr:
		base := m.sym(w, x.X)
		if k, ok := w.env.eval(x.Index); ok && strings.HasPrefix(base, "&") {
			return base + "[" + itoa(k) + "]"
		}
	case *ssa.Field:
		base := m.sym(w, x.X)
		if st, ok := x.X.Type().Underlying().(*types.Struct); ok && strings.HasPrefix(base, "*") {
			if cell, has := m.mem[base[1:]+"."+st.Field(x.Field).Name()]; has {
				return cell.s
			}
		}
	}
	return "?"
}

func (m *c49M) get(w *pathWalker, v ssa.Value) c49v {
	val := c49v{s: m.sym(w, v)}
	if n, ok := w.env.eval(v); ok {
		val.n, val.hasN = n, true
	} else if c49isStr(v.Type()) {
		val.n, val.hasN = m.intern(val.s), true
	} else if val.s == "@nil" || val.s == "nil" {
		val.n, val.hasN = 0, true
	} else if strings.HasPrefix(val.s, "@S:") {
		val.n, val.hasN = m.intern(val.s[3:]), true
	}
	val.off = w.off[v]
	return val
}

func (m *c49M) set(w *pathWalker, v ssa.Value, val c49v) {
	w.cls[v] = val.s
	if val.off != 0 {
		w.off[v] = val.off
	} else {
		delete(w.off, v)
	}
	if val.hasN {
		w.env.bind(v, val.n)
	} else {
		delete(w.env.vals, v)
	}
}

func (m *c49M) ptrKey(w *pathWalker, v ssa.Value) (string, bool) {
	s := m.sym(w, v)
	if strings.HasPrefix(s, "&") && len(s) > 1 {
		return s[1:], true
	}
	return "", false
}

// content of a byte-slice value
func (m *c49M) content(val c49v) []c49seg {
	s := val.s
	switch {
	case s == "@nil":
		return nil
	case strings.HasPrefix(s, "@S:"):
		if s == "@S:" {
			return nil
		}
		if val.off == 0 {
			return []c49seg{{s[1:], 0, -1}}
		}
		return []c49seg{{"?part-of-" + s[1:], 0, -1}}
	case strings.HasPrefix(s, "@"):
		cell, ok := m.mem[s[1:]]
		if !ok {
			return []c49seg{{"?unwritten-" + s, 0, -1}}
		}
		hi := int64(-1)
		if val.hasN && val.n < c49idBase {
			hi = val.off + val.n
		}
		return c49norm(c49slice(cell.segs, val.off, hi))
	}
	return []c49seg{{"?bytes-of-" + s, 0, -1}}
}

func (m *c49M) bytesAsString(val c49v) string {
	segs := m.content(val)
	if len(segs) == 0 {
		return ""
	}
	if len(segs) == 1 && segs[0].hi < 0 && strings.HasPrefix(segs[0].sym, "S:") {
		return segs[0].sym[2:]
	}
	return "str(" + c49render(segs) + ")"
}

func (m *c49M) strBytes(s string) []c49seg {
	if s == "" {
		return nil
	}
	return []c49seg{{"S:" + s, 0, -1}}
}

func (m *c49M) newBuf(segs []c49seg) c49v {
	key := m.fresh("b")
	segs = c49norm(segs)
	m.mem[key] = c49v{isBuf: true, segs: segs}
	val := c49v{s: "@" + key}
	if n, ok := c49total(segs); ok {
		val.n, val.hasN = n, true
	} else if len(segs) > 0 {
		// a non-empty sequence of unknown length: a positive identity
		val.n, val.hasN = m.intern(c49render(segs)), true
	}
	return val
}

func (m *c49M) writeBuf(dst c49v, segs []c49seg) bool {
	if !strings.HasPrefix(dst.s, "@") {
		return false
	}
	key := dst.s[1:]
	cell, ok := m.mem[key]
	if !ok || !cell.isBuf {
		return false
	}
	n, okN := c49total(segs)
	total, okT := c49total(cell.segs)
	if !okN || !okT || dst.off+n > total {
		return false
	}
	var out []c49seg
	out = append(out, c49slice(cell.segs, 0, dst.off)...)
	out = append(out, segs...)
	out = append(out, c49slice(cell.segs, dst.off+n, total)...)
	cell.segs = c49norm(out)
	m.mem[key] = cell
	return true
}

// renderArg: bytes by content, everything else by term
func (m *c49M) renderArg(w *pathWalker, v ssa.Value) string {
	if c49isBytes(v.Type()) {
		return c49render(m.content(m.get(w, v)))
	}
	return m.sym(w, v)
}

// ---- JSON model (encoding/json honours struct tags: assumption of C49)

type c49member struct {
	name, val string
}

func (m *c49M) jsonMembers(key string, st *types.Struct) []c49member {
	var out []c49member
	for i := 0; i < st.NumFields(); i++ {
		f := st.Field(i)
		tag := reflect.StructTag(st.Tag(i)).Get("json")
		parts := strings.Split(tag, ",")
		name := parts[0]
		if name == "-" && len(parts) == 1 {
			continue
		}
		if name == "" {
			name = f.Name()
		}
		omit := false
		for _, o := range parts[1:] {
			if o == "omitempty" || o == "omitzero" {
				omit = true
			}
		}
		if !f.Exported() {
			continue
		}
		cell, has := m.mem[key+"."+f.Name()]
		empty := !has || (cell.hasN && cell.n == 0)
		if omit && empty {
			continue
		}
		var val string
		switch {
		case c49isStr(f.Type()):
			val = "q(" + cell.s + ")"
		case strings.HasSuffix(f.Type().String(), "encoding/json.RawMessage"):
			if has {
				val = "raw(" + m.bytesAsString(cell) + ")"
			} else {
				val = "raw()"
			}
		default:
			val = "v(" + cell.s + ")"
		}
		out = append(out, c49member{name, val})
	}
	sort.SliceStable(out, func(i, j int) bool { return out[i].name < out[j].name })
	return out
}

func c49json(ms []c49member) string {
	var parts []string
	for _, x := range ms {
		parts = append(parts, fmt.Sprintf("%q:%s", x.name, x.val))
	}
	return "json{" + strings.Join(parts, ",") + "}"
}

func (m *c49M) marshal(w *pathWalker, v ssa.Value) string {
	s := m.sym(w, v)
	inner := stripConv(v)
	var st *types.Struct
	key := ""
	switch {
	case strings.HasPrefix(s, "*"):
		st, _ = inner.Type().Underlying().(*types.Struct)
		key = s[1:]
	case strings.HasPrefix(s, "&"):
		st = derefStruct(inner.Type())
		key = s[1:]
	}
	if st != nil {
		ms := m.jsonMembers(key, st)
		m.jsons = append(m.jsons, ms)
		return c49json(ms)
	}
	return "json(" + s + ")"
}

// ---- walker hooks

func (m *c49M) prebind(w *pathWalker, fn *ssa.Function) {
	if w.tuple == nil {
		w.tuple = map[ssa.Value][]optInt{}
	}
	allInstrs(fn, func(in ssa.Instruction) {
		for _, op := range in.Operands(nil) {
			if k, ok := (*op).(*ssa.Const); ok {
				if k.IsNil() {
					w.env.bind(k, 0)
				} else if s, isS := constString(k); isS {
					w.env.bind(k, m.intern(s))
				}
			}
		}
		switch x := in.(type) {
		case *ssa.TypeAssert:
			if x.CommaOk {
				w.tuple[x] = []optInt{{}, {}}
			}
		case *ssa.MakeSlice:
			// a new execution of the allocation is a new object
			delete(w.cls, x)
		case *ssa.Alloc:
			delete(w.cls, x)
		}
	})
}

func (m *c49M) isKeyTerm(s string) bool { return s == "‹pub›" || s == "pub(‹key›)" }

func (m *c49M) onExtract(w *pathWalker, ex *ssa.Extract) {
	if ta, ok := ex.Tuple.(*ssa.TypeAssert); ok {
		op := m.get(w, ta.X)
		at := ta.AssertedType.String()
		_, isIface := ta.AssertedType.Underlying().(*types.Interface)
		res, known, val := false, false, c49v{s: "?"}
		switch {
		case isIface:
		case m.isKeyTerm(op.s):
			known = true
			switch {
			case at == "*crypto/rsa.PublicKey" && m.kind == "rsa":
				res, val = true, c49v{s: "&rsa", n: 1, hasN: true}
			case at == "*crypto/ecdsa.PublicKey" && m.kind == "ec":
				res, val = true, c49v{s: "&ec", n: 1, hasN: true}
			}
		case op.s == "‹claimset›":
			known = true
			if c49isStr(ta.AssertedType) && at == "string" && m.claimStr {
				res, val = true, c49v{s: "‹claimstr›"}
				val.n, val.hasN = m.intern(val.s), true
			}
		}
		if ex.Index == 0 {
			m.set(w, ex, val)
		} else if known {
			m.set(w, ex, c49v{s: fmt.Sprint(res), n: b2i(res), hasN: true})
		} else {
			delete(w.env.vals, ex)
		}
		return
	}
	if vals, ok := m.tup[ex.Tuple]; ok && ex.Index < len(vals) {
		m.set(w, ex, vals[ex.Index])
	}
}

func (m *c49M) onPhi(w *pathWalker, ph *ssa.Phi, in ssa.Value) {
	val := m.get(w, in)
	w.cls[ph] = val.s
	if val.off != 0 {
		w.off[ph] = val.off
	} else {
		delete(w.off, ph)
	}
}

func (m *c49M) onSlice(w *pathWalker, sl *ssa.Slice) {
	base := m.get(w, sl.X)
	lo := int64(0)
	if sl.Low != nil {
		k, ok := w.env.eval(sl.Low)
		if !ok {
			w.cls[sl] = "?slice-at-unknown-offset"
			return
		}
		lo = k
	}
	switch {
	case strings.HasPrefix(base.s, "&"):
		// slice of (a pointer to) an array
		w.cls[sl] = "@" + base.s[1:]
		key := base.s[1:]
		if _, has := m.mem[key]; !has {
			if p, ok := sl.X.Type().Underlying().(*types.Pointer); ok {
				if n, isB := c49byteArray(p.Elem()); isB {
					m.mem[key] = c49v{isBuf: true, segs: c49zeros(n)}
				}
			}
		}
		w.off[sl] = lo
	case strings.HasPrefix(base.s, "@"):
		w.cls[sl] = base.s
		w.off[sl] = base.off + lo
	default:
		w.cls[sl] = "?slice-of-" + base.s
	}
	if w.off[sl] == 0 {
		delete(w.off, sl)
	}
}

// byteCell resolves &x[i] for a byte array (through a pointer) or byte slice
// x to the one-byte window of the underlying buffer.
func (m *c49M) byteCell(w *pathWalker, addr ssa.Value, store bool) (c49v, bool) {
	ia, ok := addr.(*ssa.IndexAddr)
	if !ok {
		return c49v{}, false
	}
	var n int64
	isArr := false
	if p, isP := ia.X.Type().Underlying().(*types.Pointer); isP {
		n, isArr = c49byteArray(p.Elem())
	}
	if !isArr && !c49isBytes(ia.X.Type()) {
		return c49v{}, false
	}
	idx, okI := w.env.eval(ia.Index)
	base := m.get(w, ia.X)
	switch {
	case !okI:
	case isArr && strings.HasPrefix(base.s, "&"):
		key := base.s[1:]
		if _, has := m.mem[key]; !has {
			m.mem[key] = c49v{isBuf: true, segs: c49zeros(n)}
		}
		return c49v{s: "@" + key, off: idx, n: 1, hasN: true}, true
	case !isArr && strings.HasPrefix(base.s, "@") && base.s != "@nil" && !strings.HasPrefix(base.s, "@S:"):
		return c49v{s: base.s, off: base.off + idx, n: 1, hasN: true}, true
	}
	if store {
		m.poison("a byte store at %s could not be followed", addr.String())
	}
	return c49v{}, false
}

func (m *c49M) onStore(w *pathWalker, st *ssa.Store) string {
	if cell, isByte := m.byteCell(w, st.Addr, true); isByte {
		val := m.get(w, st.Val)
		var segs []c49seg
		switch {
		case strings.HasPrefix(val.s, "byte:"):
			segs, _ = c49parseSegs(val.s[5:])
		case val.hasN && val.n == 0:
			segs = c49zeros(1)
		default:
			segs = []c49seg{{"const(" + val.s + ")", 0, 1}}
		}
		if n, ok := c49total(segs); !ok || n != 1 || !m.writeBuf(cell, segs) {
			m.poison("a byte store into %s could not be followed", cell.s)
		}
		return ""
	}
	key, ok := m.ptrKey(w, st.Addr)
	if !ok {
		return ""
	}
	val := m.get(w, st.Val)
	if strings.HasPrefix(val.s, "*") {
		// whole-struct copy
		src := val.s[1:]
		for k := range m.mem {
			if strings.HasPrefix(k, key+".") {
				delete(m.mem, k)
			}
		}
		for k, c := range m.mem {
			if strings.HasPrefix(k, src+".") {
				m.mem[key+k[len(src):]] = c
			}
		}
		return ""
	}
	if n, isB := c49byteArray(st.Val.Type()); isB {
		m.mem[key] = c49v{isBuf: true, segs: []c49seg{{val.s, 0, n}}}
		return ""
	}
	m.mem[key] = val
	return ""
}

func c49zero(t types.Type) c49v {
	switch {
	case c49isStr(t):
		return c49v{s: "", n: 0, hasN: true}
	case c49isBytes(t):
		return c49v{s: "@nil", n: 0, hasN: true}
	}
	switch u := t.Underlying().(type) {
	case *types.Basic:
		if u.Info()&(types.IsInteger|types.IsBoolean) != 0 {
			return c49v{s: "0", n: 0, hasN: true}
		}
	case *types.Pointer, *types.Interface, *types.Slice, *types.Map:
		return c49v{s: "nil", n: 0, hasN: true}
	}
	return c49v{s: "?zero"}
}

func (m *c49M) onLoad(w *pathWalker, u *ssa.UnOp) (int64, bool) {
	if cell, isByte := m.byteCell(w, u.X, false); isByte {
		segs := m.content(cell)
		val := c49v{s: "byte:" + c49render(segs)}
		if len(segs) == 1 && segs[0].sym == "0" {
			val = c49v{s: "0", n: 0, hasN: true}
		}
		m.set(w, u, val)
		return val.n, val.hasN
	}
	key, ok := m.ptrKey(w, u.X)
	if !ok || strings.HasPrefix(key, "g:") {
		val := c49v{s: "?load"}
		if ok {
			val.s = key
		}
		if c49isErr(u.Type()) && ok {
			val.n, val.hasN = 1, true // a sentinel error is not nil
		}
		m.set(w, u, val)
		return val.n, val.hasN
	}
	if _, isStruct := u.Type().Underlying().(*types.Struct); isStruct {
		m.set(w, u, c49v{s: "*" + key})
		return 0, false
	}
	cell, has := m.mem[key]
	if !has {
		if strings.HasPrefix(key, "o") {
			cell = c49zero(u.Type())
		} else {
			cell = c49v{s: "‹" + key + "›"}
		}
	}
	if cell.isBuf {
		// an array value read back as a whole
		cell = c49v{s: "arr(" + c49render(cell.segs) + ")"}
	}
	m.set(w, u, cell)
	return cell.n, cell.hasN
}

func (m *c49M) onInline(parent, child *pathWalker, callee *ssa.Function, args []ssa.Value) {
	m.prebind(child, callee)
	for i, p := range callee.Params {
		if i < len(args) {
			m.set(child, p, m.get(parent, args[i]))
		}
	}
	// a function literal sees the variables it captured
	if len(callee.FreeVars) > 0 && callee.Parent() != nil {
		allInstrs(callee.Parent(), func(in ssa.Instruction) {
			if mc, ok := in.(*ssa.MakeClosure); ok && mc.Fn == ssa.Value(callee) && len(mc.Bindings) == len(callee.FreeVars) {
				for i, fv := range callee.FreeVars {
					m.set(child, fv, m.get(parent, mc.Bindings[i]))
				}
			}
		})
	}
}

func (m *c49M) onReturn(parent, child *pathWalker, call *ssa.Call, results []ssa.Value) {
	var vals []c49v
	for _, r := range results {
		vals = append(vals, m.get(child, r))
	}
	if len(vals) == 1 {
		m.set(parent, call, vals[0])
	} else {
		m.tup[call] = vals
	}
}

func (m *c49M) ret(w *pathWalker, ci ssa.CallInstruction, vals ...c49v) {
	v, ok := ci.(ssa.Value)
	if !ok {
		return
	}
	if len(vals) == 1 {
		m.set(w, v, vals[0])
		return
	}
	m.tup[v] = vals
	if w.tuple == nil {
		w.tuple = map[ssa.Value][]optInt{}
	}
	var os []optInt
	for _, x := range vals {
		os = append(os, optInt{x.n, x.hasN})
	}
	w.tuple[v] = os
}

var c49errNil = c49v{s: "nil", n: 0, hasN: true}

func (m *c49M) strVal(s string) c49v { return c49v{s: s, n: m.intern(s), hasN: true} }

// varargs: the values stored into the array behind a variadic []any argument
func (m *c49M) varargs(w *pathWalker, v ssa.Value) ([]c49v, bool) {
	if k, ok := v.(*ssa.Const); ok && k.IsNil() {
		return nil, true
	}
	val := m.get(w, v)
	if !strings.HasPrefix(val.s, "@") || !val.hasN {
		return nil, false
	}
	var out []c49v
	for i := val.off; i < val.off+val.n; i++ {
		cell, has := m.mem[val.s[1:]+"["+itoa(i)+"]"]
		if !has {
			return nil, false
		}
		out = append(out, cell)
	}
	return out, true
}

func (m *c49M) sprintf(format string, args []c49v) string {
	var b strings.Builder
	k := 0
	for i := 0; i < len(format); i++ {
		ch := format[i]
		if ch != '%' || i+1 >= len(format) {
			b.WriteByte(ch)
			continue
		}
		i++
		verb := format[i]
		if verb == '%' {
			b.WriteByte('%')
			continue
		}
		if k >= len(args) {
			b.WriteString("?missing-argument")
			continue
		}
		a := args[k]
		k++
		switch verb {
		case 's', 'v', 'd':
			b.WriteString(a.s)
		case 'q':
			b.WriteString("goquote(" + a.s + ")")
		default:
			b.WriteString("?verb-" + string(verb) + "(" + a.s + ")")
		}
	}
	if k < len(args) {
		b.WriteString("?extra-arguments")
	}
	return b.String()
}

func (m *c49M) onCall(w *pathWalker, ci ssa.CallInstruction) string {
	cc := ci.Common()
	name := calleeName(cc)
	args := cc.Args
	arg := func(i int) c49v { return m.get(w, args[i]) }
	switch {
	case name == "builtin:append" && len(args) == 2:
		a := arg(0)
		var segs []c49seg
		segs = append(segs, m.content(a)...)
		if c49isStr(args[1].Type()) {
			segs = append(segs, m.strBytes(m.sym(w, args[1]))...)
		} else {
			segs = append(segs, m.content(arg(1))...)
		}
		m.ret(w, ci, m.newBuf(segs))
	case name == "builtin:copy" && len(args) == 2:
		dst := arg(0)
		var src []c49seg
		if c49isStr(args[1].Type()) {
			src = m.strBytes(m.sym(w, args[1]))
		} else {
			src = m.content(arg(1))
		}
		n, okN := c49total(src)
		if okN && dst.hasN && n > dst.n {
			src, n = c49slice(src, 0, dst.n), dst.n
		}
		if !okN || !dst.hasN || !m.writeBuf(dst, src) {
			m.poison("a copy into %s could not be followed", dst.s)
			if strings.HasPrefix(dst.s, "@") {
				if cell, has := m.mem[dst.s[1:]]; has && cell.isBuf {
					cell.segs = []c49seg{{"?content-after-unresolved-copy", 0, -1}}
					m.mem[dst.s[1:]] = cell
				}
			}
		}
	case name == "(*math/big.Int).Bytes":
		t := m.sym(w, args[0])
		if L, ok := m.lens[t]; ok {
			m.ret(w, ci, m.newBuf([]c49seg{{t, 0, L}}))
		} else {
			m.ret(w, ci, m.newBuf([]c49seg{{"bytes(" + t + ")", 0, -1}}))
		}
	case name == "(*math/big.Int).FillBytes" && len(args) == 2:
		t := m.sym(w, args[0])
		buf := arg(1)
		L, ok := m.lens[t]
		if ok && buf.hasN && L <= buf.n {
			segs := append(c49zeros(buf.n-L), c49seg{t, 0, L})
			if !m.writeBuf(buf, segs) {
				m.poison("FillBytes into %s could not be followed", buf.s)
			}
			m.ret(w, ci, buf)
		} else {
			m.poison("FillBytes of %s into a buffer of unsuitable length", t)
			m.ret(w, ci, c49v{s: "?fillbytes(" + t + ")"})
		}
	case name == "math/big.NewInt":
		m.ret(w, ci, c49v{s: "big(" + m.sym(w, args[0]) + ")", n: 1, hasN: true})
	case name == "(*encoding/base64.Encoding).EncodeToString" && len(args) == 2:
		f := "b64?" + m.sym(w, args[0])
		if m.sym(w, args[0]) == "g:encoding/base64.RawURLEncoding" {
			f = "b64u"
		}
		m.ret(w, ci, m.strVal(f+"("+m.renderArg(w, args[1])+")"))
	case name == "fmt.Sprintf" && len(args) == 2:
		format, isC := constString(args[0])
		vs, ok := m.varargs(w, args[1])
		if !isC || !ok {
			m.ret(w, ci, m.strVal("?sprintf("+m.sym(w, args[0])+")"))
		} else {
			m.ret(w, ci, m.strVal(m.sprintf(format, vs)))
		}
	case name == "bytes.Repeat" && len(args) == 2:
		cnt, ok := w.env.eval(args[1])
		unit := m.content(arg(0))
		if _, known := c49total(unit); !ok || !known || cnt < 0 || cnt > 4096 {
			m.ret(w, ci, m.newBuf([]c49seg{{"?repeat", 0, -1}}))
		} else {
			var segs []c49seg
			for i := int64(0); i < cnt; i++ {
				segs = append(segs, unit...)
			}
			m.ret(w, ci, m.newBuf(segs))
		}
	case name == "strings.Join" && len(args) == 2:
		vs, ok := m.varargs(w, args[0])
		if !ok {
			m.ret(w, ci, m.strVal("?join("+m.sym(w, args[0])+")"))
		} else {
			var parts []string
			for _, x := range vs {
				parts = append(parts, x.s)
			}
			m.ret(w, ci, m.strVal(strings.Join(parts, m.sym(w, args[1]))))
		}
	case name == "encoding/json.Marshal" && len(args) == 1:
		m.ret(w, ci, m.newBuf(m.strBytes(m.marshal(w, args[0]))), c49errNil)
	case name == "crypto.SignMessage" && len(args) == 4:
		t := "sig(" + m.sym(w, args[0]) + "," + m.renderArg(w, args[2]) + "," + m.sym(w, args[3]) + ")"
		if r := m.sym(w, args[1]); r != "g:crypto/rand.Reader" {
			t = "sig?rand=" + r + t[3:]
		}
		m.ret(w, ci, m.newBuf([]c49seg{{t, 0, -1}}), c49errNil)
	case name == "encoding/asn1.Unmarshal" && len(args) == 2:
		src := m.renderArg(w, args[0])
		m.calls["asn1"] = append(m.calls["asn1"], []string{src})
		key, ok := m.ptrKey(w, args[1])
		st := derefStruct(stripConv(args[1]).Type())
		okShape := ok && st != nil && st.NumFields() == 2
		if okShape {
			for i := 0; i < 2; i++ {
				okShape = okShape && st.Field(i).Type().String() == "*math/big.Int"
			}
		}
		if okShape && strings.HasPrefix(src, "sig(") && m.kind == "ec" {
			// SEQUENCE { r INTEGER, s INTEGER }: by position
			m.mem[key+"."+st.Field(0).Name()] = c49v{s: "R", n: 1, hasN: true}
			m.mem[key+"."+st.Field(1).Name()] = c49v{s: "S", n: 1, hasN: true}
		} else {
			m.note("asn1.Unmarshal of %s into something other than a struct of two *big.Int", src)
		}
		m.ret(w, ci, c49v{s: "@nil", n: 0, hasN: true}, c49errNil)
	case name == "crypto/sha256.Sum256" && len(args) == 1:
		m.ret(w, ci, c49v{s: "sha256(" + m.renderArg(w, args[0]) + ")"})
	case name == "crypto/sha256.New" && len(args) == 0:
		key := m.fresh("h")
		m.mem[key] = c49v{s: "sha256", isBuf: true}
		m.ret(w, ci, c49v{s: "&" + key, n: 1, hasN: true})
	case name == "crypto/hmac.New" && len(args) == 2:
		key := m.fresh("h")
		algo := "hmac?" + m.sym(w, args[0])
		if m.sym(w, args[0]) == "fn:crypto/sha256.New" {
			algo = "hmac-sha256"
		}
		m.mem[key] = c49v{s: algo + "[" + m.renderArg(w, args[1]) + "]", isBuf: true}
		m.ret(w, ci, c49v{s: "&" + key, n: 1, hasN: true})
	case cc.IsInvoke() && cc.Method.Name() == "Write" && len(args) == 1 && strings.HasPrefix(m.sym(w, cc.Value), "&h"):
		key := m.sym(w, cc.Value)[1:]
		cell := m.mem[key]
		cell.segs = c49norm(append(cell.segs, m.content(arg(0))...))
		m.mem[key] = cell
		m.ret(w, ci, c49v{s: "n"}, c49errNil)
	case name == "io.WriteString" && len(args) == 2 && strings.HasPrefix(m.sym(w, args[0]), "&h"):
		key := m.sym(w, args[0])[1:]
		cell := m.mem[key]
		cell.segs = c49norm(append(cell.segs, m.strBytes(m.sym(w, args[1]))...))
		m.mem[key] = cell
		m.ret(w, ci, c49v{s: "n"}, c49errNil)
	case cc.IsInvoke() && cc.Method.Name() == "Sum" && len(args) == 1 && strings.HasPrefix(m.sym(w, cc.Value), "&h"):
		cell := m.mem[m.sym(w, cc.Value)[1:]]
		segs := append([]c49seg(nil), m.content(arg(0))...)
		segs = append(segs, c49seg{cell.s + "(" + c49render(cell.segs) + ")", 0, 32})
		m.ret(w, ci, m.newBuf(segs))
	case name == "(crypto.Hash).Available":
		m.ret(w, ci, c49v{s: "true", n: 1, hasN: true})
	case name == "errors.New" || name == "fmt.Errorf":
		m.ret(w, ci, c49v{s: "err", n: 1, hasN: true})
	case cc.IsInvoke() && cc.Method.Name() == "Public" && len(args) == 0:
		m.ret(w, ci, c49v{s: "pub(" + m.sym(w, cc.Value) + ")", n: 1, hasN: true})
	case cc.IsInvoke() && cc.Method.Name() == "Params" && len(args) == 0 && m.sym(w, cc.Value) == "‹curve›":
		m.ret(w, ci, c49v{s: "&params", n: 1, hasN: true})
	default:
		m.unknownCall(w, ci, name)
	}
	return ""
}

// unknownCall: a same-package function the rule keeps opaque on purpose is a
// symbol applied to its arguments; anything else is marked unknown ("?"), which
// can never equal a prescribed term.
func (m *c49M) unknownCall(w *pathWalker, ci ssa.CallInstruction, name string) {
	cc := ci.Common()
	short := name
	mark := "?"
	if callee := cc.StaticCallee(); callee != nil {
		short = callee.Name()
		if m.opaque[short] && callee.Pkg == w.rootPkg {
			mark = ""
		}
	}
	if strings.HasPrefix(name, "builtin:") {
		return
	}
	var as []string
	if cc.IsInvoke() {
		as = append(as, m.sym(w, cc.Value))
	}
	for _, a := range cc.Args {
		as = append(as, m.renderArg(w, a))
	}
	if mark == "" {
		m.calls[short] = append(m.calls[short], as)
	} else {
		m.note("call of %s is not modelled", name)
	}
	term := mark + short + "(" + strings.Join(as, ",") + ")"
	sig := cc.Signature()
	res := sig.Results()
	nonErr := 0
	for i := 0; i < res.Len(); i++ {
		if !c49isErr(res.At(i).Type()) {
			nonErr++
		}
	}
	var vals []c49v
	k := 0
	for i := 0; i < res.Len(); i++ {
		t := res.At(i).Type()
		if c49isErr(t) {
			vals = append(vals, c49errNil)
			continue
		}
		tm := term
		if nonErr > 1 {
			tm = term + "#" + itoa(int64(k))
		}
		k++
		switch {
		case c49isStr(t):
			vals = append(vals, m.strVal(tm))
		case c49isBytes(t):
			vals = append(vals, m.newBuf([]c49seg{{tm, 0, -1}}))
		default:
			v := c49v{s: tm}
			if b, ok := t.Underlying().(*types.Basic); ok && b.Info()&types.IsInteger != 0 && mark == "" {
				v.n, v.hasN = m.intern(tm), true
			}
			vals = append(vals, v)
		}
	}
	if len(vals) > 0 {
		m.ret(w, ci, vals...)
	}
}

// ---- running one case

type c49run struct {
	m    *c49M
	w    *pathWalker
	end  string
	why  string
	rets []c49v
}

// c49walk interprets fn with its parameters bound (by INDEX) to params.
func c49walk(m *c49M, fn *ssa.Function, params []c49v) *c49run {
	w := &pathWalker{env: newEnv(), state: map[string]int64{}, lengths: true, maxSteps: 2000,
		cls: map[ssa.Value]string{}, off: map[ssa.Value]int64{}, opaque: m.opaque}
	w.onCall = m.onCall
	w.onStore = m.onStore
	w.onLoad = m.onLoad
	w.onSlice = m.onSlice
	w.onPhi = m.onPhi
	w.onExtract = m.onExtract
	w.onInline = m.onInline
	w.onReturn = m.onReturn
	// abstract key objects
	m.mem["rsa.N"] = c49v{s: "N", n: 1, hasN: true}
	m.mem["rsa.E"] = c49v{s: "‹E›"}
	m.mem["ec.Curve"] = c49v{s: "‹curve›", n: 1, hasN: true}
	m.mem["ec.X"] = c49v{s: "X", n: 1, hasN: true}
	m.mem["ec.Y"] = c49v{s: "Y", n: 1, hasN: true}
	m.mem["params.BitSize"] = c49v{s: itoa(m.bits), n: m.bits, hasN: true}
	m.mem["params.Name"] = c49v{s: "‹crv›", n: m.intern(m.crv), hasN: true}
	m.prebind(w, fn)
	for i, p := range fn.Params {
		if i < len(params) {
			m.set(w, p, params[i])
		}
	}
	r := &c49run{m: m, w: w}
	r.end = w.walk(fn.Blocks[0], nil)
	r.why = w.why
	if m.lost && r.end == "return" {
		r.end = "unresolved"
	}
	if w.oob {
		r.why = "a slice expression is out of range"
		if r.end == "return" {
			r.end = "out-of-range"
		}
	}
	if ret, ok := w.last.(*ssa.Return); ok && r.end == "return" {
		for _, x := range ret.Results {
			r.rets = append(r.rets, m.get(w, x))
		}
	}
	return r
}

func (r *c49run) problem() string {
	s := r.end
	if r.why != "" {
		s += ": " + r.why
	}
	if len(r.m.notes) > 0 {
		s += " (" + strings.Join(r.m.notes, "; ") + ")"
	}
	return s
}

// retStr / retBytes / retErr: the i-th result as a string term, as rendered
// bytes, and whether an error result is non-nil.
func (r *c49run) retStr(i int) string {
	if i >= len(r.rets) {
		return "?no-result"
	}
	return r.rets[i].s
}

func (r *c49run) retBytes(i int) []c49seg {
	if i >= len(r.rets) {
		return []c49seg{{"?no-result", 0, -1}}
	}
	return r.m.content(r.rets[i])
}

func (r *c49run) failed(i int) (bool, bool) {
	if i >= len(r.rets) || !r.rets[i].hasN {
		return false, false
	}
	return r.rets[i].n != 0, true
}
