package main

import (
	hexpkg "encoding/hex"
	"fmt"
	"go/types"
	"strings"

	"golang.org/x/tools/go/ssa"
)

func init() {
	register(&propDef{
		id: "C13", run: runC13, minOblig: 5,
		explanation: "Decides, by interpretation of the SSA over concrete bytes with the block cipher replaced by an oracle, that xts.Cipher computes IEEE 1619 XTS (without ciphertext stealing) on a finite set of inputs — independent of how the code is factored (helpers, loop forms, encoding/binary, subtle.XORBytes, copy/clear, bound method values, names). Every byte buffer is a modelled region (caller buffers, the *[16]byte from the pool with UNKNOWN initial contents, zeroed locals); a cipher.Block is identified by the struct field it is loaded from, and NewCipher is interpreted first to learn which field is built from which part of the key. C13.keys: for key lengths 32, 48, 64 the struct returned has exactly two cipher fields, one holding the result of the constructor parameter applied to key[:len/2] (the data key) and the other the result for key[len/2:] (the tweak key), judged by the content of the constructor's argument, the same fields for every length, and the returned error is nil exactly when BlockSize() is 16 (tried with 8, 16, 24, 32). C13.mode: Encrypt and Decrypt are interpreted for data lengths 0, 15, 16, 17, 32, 48, 64 with a shorter, an equal and a longer destination and, for the valid lengths, in place (destination and source the same memory): they panic exactly for a destination shorter than the input or a length that is not a multiple of 16; otherwise the log of block-cipher calls is exactly: ONE Encrypt under the tweak key of the 16 bytes (little-endian sector number, eight zero bytes) — all 16 bytes determined by the function, not left over in the pool buffer, also in Decrypt —, then per block i in order ONE call under the data key (Encrypt in Encrypt, Decrypt in Decrypt) whose input equals source block i XOR T·x^i, and the destination finally holds oracle output XOR T·x^i for every block, nothing is written behind len(src) and a separate source is unchanged. C13.mul2: the same interpretation of both functions for nine-block inputs with the oracle returning a chosen initial tweak T: the tweaks that whiten blocks 1..8 equal T·x^i in GF(2^128) mod x^128+x^7+x^2+x+1 in the little-endian byte order of IEEE 1619, wherever and however the doubling is written (helper, inline, bytes, words, math/bits). The initial tweaks are runs of consecutive one bits that start on a byte boundary, so the eight doublings move the run over every bit position: the thorough tier starts from all 1088 such runs and so doubles every one of the 8256 runs of one bits (plus the reduced values that follow once a run passes bit 127); the quick tier starts from the 272 runs of length 8k or 8k+1 and so doubles every run of those lengths at every position — every single bit (a basis of the linear map) and, for every limb width that is a multiple of 8, the values with an all-ones limb and the bit below it set, where an add-with-carry doubling loses its carry —; both tiers add zero, the all-ones values with one bit cleared on a byte boundary, and 40 pseudo-random values; chains from pseudo-random T up to x^3 are also in the mode cases. NOT decided: AES itself; the doubling for tweak values outside the enumerated family (comparison on enumerated values, no symbolic proof over all 2^128 values — a defect that shows only on other values is missed); equality with the published IEEE 1619 test vectors; inexact-overlap detection (C53).",
		assumptions: []string{"cipher.Block contracts (Encrypt/Decrypt read 16 bytes of src and write 16 bytes of dst, deterministic)", "sync.Pool returns a *[16]byte with arbitrary contents"},
	})
	tech("C13", "flow-sensitive interpretation of NewCipher, Encrypt and Decrypt over a byte-level memory model with the block cipher as an oracle; the log of oracle calls (key role, direction, input bytes) and the final destination bytes are compared with IEEE 1619 XTS computed by the checker; GF(2^128) doubling compared on an enumerated family of tweak values")
}

func runC13(c *Ctx) {
	dataRole, tweakRole := "", ""
	if f := c.fn("xts", "NewCipher"); f != nil {
		dataRole, tweakRole = c13Keys(c, f)
	}
	for _, dec := range []bool{false, true} {
		name := "(*Cipher).Encrypt"
		if dec {
			name = "(*Cipher).Decrypt"
		}
		f := c.fn("xts", name)
		if f == nil {
			continue
		}
		c13Mode(c, f, dec, dataRole, tweakRole)
	}
}

// ---------------------------------------------------------------------------
// NewCipher

func c13KeyRange(hex string) string {
	b, err := hexpkg.DecodeString(hex)
	if err != nil || len(b) == 0 {
		if hex == "" {
			return "key material the rule cannot follow"
		}
		return "bytes " + hex
	}
	for i := range b {
		if b[i] != b[0]+byte(i) {
			return "bytes " + hex
		}
	}
	return fmt.Sprintf("key[%d:%d]", int(b[0])-1, int(b[0])-1+len(b))
}

func c13Keys(c *Ctx, f *ssa.Function) (dataRole, tweakRole string) {
	// the struct whose fields hold the two ciphers: the pointee of the first result
	var st *types.Struct
	if rs := f.Signature.Results(); rs.Len() > 0 {
		st = derefStruct(rs.At(0).Type())
	}
	if len(f.Params) < 2 || st == nil {
		c.undecided("C13.keys", "xts.NewCipher", f, "signature is not (constructor, key) -> (*struct, error)")
		return
	}
	var ifaceFields []string
	for i := 0; i < st.NumFields(); i++ {
		if _, ok := st.Field(i).Type().Underlying().(*types.Interface); ok {
			ifaceFields = append(ifaceFields, st.Field(i).Name())
		}
	}
	type kcase struct{ L, bs int64 }
	badHalves, badBS := "", ""
	nH, nB := 0, 0
	for _, kc := range []kcase{{32, 16}, {48, 16}, {64, 16}, {32, 8}, {32, 32}, {64, 24}} {
		m := &c13Machine{blockSize: kc.bs, cipher: func(role, method string, in [16]byte) [16]byte { return c13Hash(role, method, string(in[:])) }}
		w := &pathWalker{env: newEnv(), lengths: true, maxSteps: 20000, assumeErrNil: true}
		m.install(w)
		w.cls[f.Params[0]] = "CF"
		w.cls[f.Params[1]], w.off[f.Params[1]] = "key", 0
		w.env.bind(f.Params[1], kc.L)
		for i := int64(0); i < kc.L; i++ {
			m.write("key", i, i+1, true)
		}
		end := w.walk(f.Blocks[0], nil)
		id := fmt.Sprintf("len(key)=%d BlockSize()=%d", kc.L, kc.bs)
		note := ""
		if len(m.notes) > 0 {
			note = m.notes[0]
		}
		if end != "return" {
			msg := id + ": the constructor ends with " + end
			if w.why != "" {
				msg += " (" + w.why + ")"
			}
			if badHalves == "" {
				badHalves = msg
			}
			continue
		}
		var key []byte
		for i := int64(0); i < kc.L; i++ {
			key = append(key, byte(i+1))
		}
		first, second := fmt.Sprintf("%x", key[:kc.L/2]), fmt.Sprintf("%x", key[kc.L/2:])
		var dataF, tweakF, desc []string
		for _, fn := range ifaceFields {
			r := m.field[fn]
			switch {
			case r == "B:"+first:
				dataF = append(dataF, fn)
			case r == "B:"+second:
				tweakF = append(tweakF, fn)
			}
			if strings.HasPrefix(r, "B:") {
				desc = append(desc, fn+" = constructor("+c13KeyRange(r[2:])+")")
			} else {
				desc = append(desc, fn+" is not set from a constructor call")
			}
		}
		nH++
		if len(dataF) == 1 && len(tweakF) == 1 && len(ifaceFields) == 2 && note == "" {
			d, t := "K:"+dataF[0], "K:"+tweakF[0]
			if dataRole == "" {
				dataRole, tweakRole = d, t
			} else if (dataRole != d || tweakRole != t) && badHalves == "" {
				badHalves = id + ": the fields holding the data key and the tweak key change with the key length"
			}
		} else if badHalves == "" {
			badHalves = fmt.Sprintf("%s: the data key and the tweak key are not the first and second half of the key: %s; IEEE 1619: one cipher from key[0:%d], the other from key[%d:%d]", id, strings.Join(desc, ", "), kc.L/2, kc.L/2, kc.L)
			if note != "" {
				badHalves += " (" + note + ")"
			}
		}
		// error result
		ret := w.last.(*ssa.Return)
		er := ""
		if len(ret.Results) > 0 {
			er = m.role(w, ret.Results[len(ret.Results)-1])
		}
		nB++
		switch {
		case er != "E:nil" && er != "E:err":
			if badBS == "" {
				badBS = id + ": the returned error value is not one the rule can follow"
			}
		case (kc.bs == 16) != (er == "E:nil"):
			if badBS == "" {
				if kc.bs == 16 {
					badBS = id + ": a cipher with block size 16 is rejected"
				} else {
					badBS = id + ": the block size is not checked — a cipher with this block size is accepted"
				}
			}
		}
	}
	c.check(badHalves == "" && nH >= 6 && dataRole != "", "C13.keys", "xts.NewCipher key halves", f, fmt.Sprintf("%d cases: data cipher %s from key[:len/2], tweak cipher %s from key[len/2:] (by content of the constructor's argument)", nH, strings.TrimPrefix(dataRole, "K:"), strings.TrimPrefix(tweakRole, "K:")), badHalves)
	c.check(badBS == "" && nB >= 6, "C13.keys", "xts.NewCipher block size", f, "the error result is nil exactly for BlockSize() == 16 (8, 16, 24, 32 tried)", badBS)
	if dataRole == "" && len(ifaceFields) == 2 {
		// the halves rule has failed; the mode rules still need a reading of the
		// two fields: declaration order
		dataRole, tweakRole = "K:"+ifaceFields[0], "K:"+ifaceFields[1]
	}
	return
}

// ---------------------------------------------------------------------------
// Encrypt / Decrypt

type c13Case struct {
	n, dd   int64
	inplace bool
	sector  uint64
	t0      *[16]byte // the oracle's answer for the sector block (nil: pseudo-random)
}

func (cs c13Case) String() string {
	s := fmt.Sprintf("len(src)=%d len(dst)=%d sector=%#x", cs.n, cs.n+cs.dd, cs.sector)
	if cs.inplace {
		s += " in place"
	}
	return s
}

// c13Run interprets f for one case and judges the outcome against IEEE 1619.
// It returns the rule the defect belongs to ("mode" or "mul2") and a message,
// or "", "" when the case is as specified.
func c13Run(f *ssa.Function, dec bool, dataRole, tweakRole string, cs c13Case) (string, string) {
	dstP, srcP, secP := f.Params[1], f.Params[2], f.Params[3]
	var tweakIn [16]byte
	for i := 0; i < 8; i++ {
		tweakIn[i] = byte(cs.sector >> (8 * uint(i)))
	}
	m := &c13Machine{blockSize: 16}
	m.cipher = func(role, method string, in [16]byte) [16]byte {
		if cs.t0 != nil && role == tweakRole && method == "Encrypt" && in == tweakIn {
			return *cs.t0
		}
		return c13Hash(role, method, string(in[:]))
	}
	w := &pathWalker{env: newEnv(), lengths: true, maxSteps: 40000, assumeErrNil: true}
	m.install(w)
	dreg, sreg := "out", "in"
	if cs.inplace {
		dreg, sreg = "io", "io"
	}
	w.cls[dstP], w.off[dstP] = dreg, 0
	w.cls[srcP], w.off[srcP] = sreg, 0
	w.env.bind(dstP, cs.n+cs.dd)
	w.env.bind(srcP, cs.n)
	w.env.bind(secP, int64(cs.sector))
	src := make([]byte, cs.n)
	for i := range src {
		h := c13Hash("src", fmt.Sprint(cs.n, cs.sector, i/16))
		src[i] = h[i%16]
		m.write(sreg, int64(i), int64(src[i]), true)
	}
	end := w.walk(f.Blocks[0], nil)
	id := cs.String()
	note := ""
	if len(m.notes) > 0 {
		note = m.notes[0]
	}
	ops := m.ops
	if end == "undecided" {
		if note != "" {
			return "mode", id + ": " + note + "; then " + w.why
		}
		return "mode", id + ": " + w.why
	}
	wantPanic := cs.dd < 0 || cs.n%16 != 0
	if wantPanic != (end == "panic") {
		if wantPanic {
			return "mode", id + ": no panic for a destination shorter than the input or a length that is not a multiple of 16"
		}
		return "mode", id + ": panics on valid arguments"
	}
	if wantPanic {
		return "", ""
	}
	if w.oob {
		return "mode", id + ": an index or slice expression leaves its bounds"
	}
	if note != "" {
		return "mode", id + ": " + note
	}
	name := func(role string) string {
		switch role {
		case dataRole:
			return strings.TrimPrefix(role, "K:") + " (data key, first half of the key)"
		case tweakRole:
			return strings.TrimPrefix(role, "K:") + " (tweak key, second half of the key)"
		}
		return "a cipher value the rule cannot attribute to a key field (" + role + ")"
	}
	// 1. the sector tweak
	if len(ops) == 0 {
		return "mode", id + ": no block-cipher call at all; IEEE 1619 encrypts the sector number under the second key"
	}
	if op := ops[0]; true {
		in, known := op.in, op.known
		switch {
		case op.role != tweakRole:
			return "mode", fmt.Sprintf("%s: the first cipher call (the sector tweak) uses %s; IEEE 1619 computes the tweak with the second key %s", id, name(op.role), strings.TrimPrefix(tweakRole, "K:"))
		case op.method != "Encrypt":
			return "mode", fmt.Sprintf("%s: the sector tweak is computed with %s.%s; IEEE 1619 ENCRYPTS the sector number under the second key, also when decrypting", id, strings.TrimPrefix(op.role, "K:"), op.method)
		case !known:
			return "mode", fmt.Sprintf("%s: the block encrypted into the tweak is %s — the bytes shown as ?? are not set by the function (left over in the buffer taken from the pool)", id, op.hex)
		case in != tweakIn:
			return "mode", fmt.Sprintf("%s: the block encrypted into the tweak is %s; IEEE 1619: the little-endian sector number in bytes 0..7 and zeros in bytes 8..15 = %x", id, op.hex, tweakIn)
		}
	}
	wantDir := "Encrypt"
	if dec {
		wantDir = "Decrypt"
	}
	// 2. one data-key call per block on src_i xor T*x^i
	T := m.cipher(tweakRole, "Encrypt", tweakIn)
	blocks := int(cs.n / 16)
	if len(ops)-1 != blocks {
		return "mode", fmt.Sprintf("%s: %d block-cipher calls after the sector tweak for %d blocks of input", id, len(ops)-1, blocks)
	}
	want := make([]byte, cs.n)
	prevOK := true
	var prevA [16]byte
	for i := 0; i < blocks; i++ {
		op := ops[i+1]
		in, known := op.in, op.known
		switch {
		case op.role != dataRole:
			return "mode", fmt.Sprintf("%s: block %d is processed with %s; IEEE 1619 uses the first key %s for the data", id, i, name(op.role), strings.TrimPrefix(dataRole, "K:"))
		case op.method != wantDir:
			return "mode", fmt.Sprintf("%s: block %d is processed with %s.%s; %s requires %s.%s", id, i, strings.TrimPrefix(op.role, "K:"), op.method, fnName(f), strings.TrimPrefix(dataRole, "K:"), wantDir)
		case !known:
			return "mode", fmt.Sprintf("%s: the cipher input of block %d is %s — bytes shown as ?? are not determined by the source and the tweak", id, i, op.hex)
		}
		var A, x [16]byte
		for j := 0; j < 16; j++ {
			A[j] = in[j] ^ src[16*i+j]
			x[j] = src[16*i+j] ^ T[j]
		}
		if A != T {
			switch {
			case i == 0:
				return "mode", fmt.Sprintf("%s: block 0 is whitened with %x before the cipher; IEEE 1619: with the encrypted sector tweak %x", id, A, T)
			case prevOK && A == prevA:
				return "mode", fmt.Sprintf("%s: block %d is whitened with the same tweak as block %d — the tweak is not multiplied by x between blocks", id, i, i-1)
			case prevOK:
				return "mul2", fmt.Sprintf("%s: the tweak after %x is %x; multiplication by x in GF(2^128) (little-endian shift left by one bit, x^128 = x^7+x^2+x+1, i.e. byte 0 ^= 0x87 on carry-out) gives %x", id, prevA, A, T)
			}
			return "mode", fmt.Sprintf("%s: block %d is whitened with %x; IEEE 1619: %x", id, i, A, T)
		}
		out := m.cipher(dataRole, wantDir, x)
		for j := 0; j < 16; j++ {
			want[16*i+j] = out[j] ^ T[j]
		}
		prevA, prevOK = A, true
		T = c13Double(T)
	}
	// 3. the destination
	for i := int64(0); i < cs.n; i++ {
		v, known := m.read(dreg, i)
		if !known || byte(v) != want[i] {
			got := m.hex(dreg, i/16*16, 16)
			return "mode", fmt.Sprintf("%s: destination block %d is %s; IEEE 1619: cipher output XOR the block's tweak = %x (second whitening missing, wrong, or written elsewhere)", id, i/16, got, want[i/16*16:i/16*16+16])
		}
	}
	for i := cs.n; i < cs.n+cs.dd; i++ {
		if m.written(dreg, i) {
			return "mode", fmt.Sprintf("%s: destination byte %d behind the input length is written", id, i)
		}
	}
	if !cs.inplace {
		for i := int64(0); i < cs.n; i++ {
			if v, known := m.read(sreg, i); !known || byte(v) != src[i] {
				return "mode", fmt.Sprintf("%s: source byte %d is modified", id, i)
			}
		}
	}
	return "", ""
}

// c13Chain is the number of successive doublings observed per initial tweak.
const c13Chain = 8

// c13Family: the initial tweaks T from which chains T, T·x, ..., T·x^8 are
// observed. Every run of consecutive one bits [a..b] is the value doubled at
// step a%8 of the chain that starts with the run [a-a%8 .. b-a%8], so the runs
// that start on a byte boundary generate all 8256 runs (and, past bit 127, the
// reduced values that follow them). That is the thorough tier (1088 runs). The
// quick tier starts only from the runs whose length is 0 or 1 modulo 8, i.e. it
// doubles every run of length 8k or 8k+1 at every bit position: among them, for
// every limb width that is a multiple of 8 and every limb position, the value
// "limb all ones and the bit below it set", where an add-with-carry doubling
// loses its carry, and every single bit (a basis of the linear map).
func c13Family(full bool) [][16]byte {
	var out [][16]byte
	seen := map[[16]byte]bool{}
	add := func(t [16]byte) {
		if !seen[t] {
			seen[t] = true
			out = append(out, t)
		}
	}
	add([16]byte{})
	for a := 0; a < 128; a += 8 {
		var t [16]byte
		for b := a; b < 128; b++ {
			t[b/8] |= 1 << uint(b%8)
			if full || b%8 == 0 || b%8 == 7 {
				add(t)
			}
		}
		// all ones except one bit on the byte boundary
		var n [16]byte
		for i := range n {
			n[i] = 0xff
		}
		n[a/8] &^= 1
		add(n)
	}
	for i := 0; i < 40; i++ {
		add(c13Hash("family", fmt.Sprint(i)))
	}
	return out
}

func c13Mode(c *Ctx, f *ssa.Function, dec bool, dataRole, tweakRole string) {
	if len(f.Params) != 4 {
		c.undecided("C13.mode", "xts."+fnName(f), f, "signature is not (receiver, dst, src, sector)")
		return
	}
	if dataRole == "" || tweakRole == "" {
		c.undecided("C13.mode", "xts."+fnName(f), f, "the fields holding the data cipher and the tweak cipher could not be determined from NewCipher")
		return
	}
	sectors := []uint64{0x0807060504030201, 0xf1e2d3c4b5a69788, 0, 0xffffffffffffffff, 0x0000000100000000}
	cases := 0
	bad := map[string]string{}
	try := func(cs c13Case) {
		rule, msg := c13Run(f, dec, dataRole, tweakRole, cs)
		cases++
		if rule != "" && bad[rule] == "" {
			bad[rule] = msg
		}
	}
	for _, n := range []int64{0, 15, 16, 17, 32, 48, 64} {
		for _, dd := range []int64{-1, 0, 5} {
			if n+dd < 0 {
				continue
			}
			try(c13Case{n: n, dd: dd, sector: sectors[cases%len(sectors)]})
		}
		if n%16 == 0 {
			try(c13Case{n: n, inplace: true, sector: sectors[cases%len(sectors)]})
		}
	}
	c.check(bad["mode"] == "" && cases >= 25, "C13.mode", "xts."+fnName(f), f, fmt.Sprintf("%d (length, destination, sector) cases incl. in place: panics, log of cipher calls (key, direction, input bytes) and destination bytes equal IEEE 1619 XTS over the cipher oracle", cases), bad["mode"])
	if bad["mode"] != "" {
		// the doubling is observed through the whitening of the blocks; with the
		// mode structure already violated that observation means nothing
		if bad["mul2"] != "" {
			c.fail("C13.mul2", "xts."+fnName(f)+" tweak sequence", f, bad["mul2"])
		}
		return
	}
	fam := c13Family(c.thorough())
	minFam, what := 300, "every run of consecutive one bits of length 8k or 8k+1 at every position (quick tier; the thorough tier takes every run)"
	if c.thorough() {
		minFam, what = 1100, "every run of consecutive one bits"
	}
	n := 0
	for i := range fam {
		if bad["mul2"] != "" || bad["mode"] != "" {
			break
		}
		t := fam[i]
		n++
		try(c13Case{n: 16 * (c13Chain + 1), sector: sectors[i%len(sectors)], t0: &t})
	}
	msg := bad["mul2"]
	if msg == "" {
		msg = bad["mode"]
	}
	c.check(msg == "" && n >= minFam, "C13.mul2", "xts."+fnName(f)+" tweak sequence", f, fmt.Sprintf("the tweaks whitening blocks 1..%d equal T·x^i in GF(2^128) (IEEE 1619 byte order, reduction 0x87) for %d initial tweaks T; the %d values doubled include %s", c13Chain, n, n*c13Chain, what), msg)
}
