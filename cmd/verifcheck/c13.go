package main

import (
	"fmt"
	"go/token"
	"strings"

	"golang.org/x/tools/go/ssa"
)

func init() {
	register(&propDef{
		id: "C13", run: runC13, minOblig: 5,
		explanation: "Decides the mode structure of xts.Cipher (IEEE 1619 without ciphertext stealing), not the block cipher and not the GF(2^128) doubling arithmetic. Encrypt and Decrypt are interpreted (slices by length) for data lengths 0, 16, 32, 48, 64 with an equal and a longer destination, and for the invalid lengths 15, 17 and a shorter destination: they panic exactly for a destination shorter than the input or a length that is not a multiple of 16; otherwise the tweak buffer is cleared in all 16 bytes, the little-endian sector number is written to its first 8 bytes, it is encrypted ONCE with the SECOND key (k2.Encrypt — also in Decrypt); then for each 16-byte block in order: 16 bytes destination = source XOR tweak, the FIRST key is applied in place to that destination block (k1.Encrypt in Encrypt, k1.Decrypt in Decrypt), 16 bytes destination ^= tweak, both slices advance by 16, and mul2 is applied to the tweak exactly once — so block i uses tweak·2^i. NewCipher builds k1 from the first half and k2 from the second half of the key with the same constructor and rejects block sizes other than 16. mul2 shifts all 16 bytes left by one bit with carry and folds the carry-out into byte 0 with the constant 0x87 (store shape and constant only). NOT decided: AES itself; that mul2 is multiplication by x in GF(2^128) for every value; equality with IEEE 1619 test vectors.",
		assumptions: []string{"cipher.Block contracts", "sync.Pool returns a *[16]byte (cleared by the function before use)"},
	})
	tech("C13", "flow-sensitive finite-domain interpretation of the XTS mode loop (effect transcript per block) compared with the IEEE 1619 structure; argument-provenance rule for the key halves")
}

func runC13(c *Ctx) {
	for _, dec := range []bool{false, true} {
		name := "(*Cipher).Encrypt"
		if dec {
			name = "(*Cipher).Decrypt"
		}
		f := c.fn("xts", name)
		if f == nil {
			continue
		}
		c13Mode(c, f, dec)
	}
	if f := c.fn("xts", "NewCipher"); f != nil {
		key := f.Params[1]
		half := func(v ssa.Value) string {
			sl, ok := v.(*ssa.Slice)
			if !ok || sl.X != ssa.Value(key) {
				return ""
			}
			isHalf := func(x ssa.Value) bool {
				bo, ok := x.(*ssa.BinOp)
				if !ok || bo.Op != token.QUO {
					return false
				}
				k, isK := constInt(bo.Y)
				cl, isC := bo.X.(*ssa.Call)
				return isK && k == 2 && isC && calleeName(&cl.Call) == "builtin:len" && cl.Call.Args[0] == ssa.Value(key)
			}
			switch {
			case sl.Low == nil && sl.High != nil && isHalf(sl.High):
				return "first"
			case sl.High == nil && sl.Low != nil && isHalf(sl.Low):
				return "second"
			}
			return ""
		}
		got := map[string]string{}
		allInstrs(f, func(in ssa.Instruction) {
			cl, ok := in.(*ssa.Call)
			if !ok || cl.Call.IsInvoke() || cl.Call.StaticCallee() != nil || cl.Call.Value != ssa.Value(f.Params[0]) {
				return
			}
			h := half(cl.Call.Args[0])
			for _, r := range resultN(cl, 0) {
				for _, ref := range *r.Referrers() {
					if st, isS := ref.(*ssa.Store); isS {
						if _, fld, _, okf := fieldOf(st.Addr); okf {
							got[fld] = h
						}
					}
				}
			}
		})
		c.check(got["k1"] == "first" && got["k2"] == "second", "C13.keys", "xts.NewCipher key halves", f, "k1 = cipherFunc(key[:len/2]), k2 = cipherFunc(key[len/2:])", fmt.Sprintf("the data key and the tweak key are not the first and second half of the key (k1 from %q half, k2 from %q half)", got["k1"], got["k2"]))
		okBS := false
		allInstrs(f, func(in ssa.Instruction) {
			if bo, ok := in.(*ssa.BinOp); ok && bo.Op == token.NEQ {
				if k, isK := constInt(bo.Y); isK && k == 16 {
					if cl, isC := bo.X.(*ssa.Call); isC && cl.Call.IsInvoke() && cl.Call.Method.Name() == "BlockSize" {
						okBS = true
					}
				}
			}
		})
		c.check(okBS, "C13.keys", "xts.NewCipher block size", f, "ciphers with a block size other than 16 are rejected", "the block size is not checked")
	}
	if f := c.fn("xts", "mul2"); f != nil {
		// shape: per byte (b << 1) + carryIn, carryOut = b >> 7; final tweak[0] ^= 0x87 under carry != 0
		shl, shr, fold := false, false, false
		allInstrs(f, func(in ssa.Instruction) {
			bo, ok := in.(*ssa.BinOp)
			if !ok {
				return
			}
			k, isK := constInt(bo.Y)
			switch {
			case bo.Op == token.SHL && isK && k == 1:
				shl = true
			case bo.Op == token.SHR && isK && k == 7:
				shr = true
			case bo.Op == token.XOR && isK && k == 0x87:
				fold = true
			}
		})
		c.check(shl && shr && fold && innermostLoopHeader(f.Blocks[len(f.Blocks)-1]) == nil, "C13.mul2", "xts.mul2 shape", f, "byte-wise shift left by one with carry, carry-out folded with 0x87", "mul2 is not a one-bit left shift with the 0x87 reduction")
	}
}

func c13Mode(c *Ctx, f *ssa.Function, dec bool) {
	dstP, srcP, sector := f.Params[1], f.Params[2], f.Params[3]
	var overlap []ssa.Value
	for _, ci := range calls(f, func(n string) bool { return strings.HasSuffix(n, "alias.InexactOverlap") }) {
		overlap = append(overlap, callValue(ci))
	}
	var tweak ssa.Value
	allInstrs(f, func(in ssa.Instruction) {
		if ta, ok := in.(*ssa.TypeAssert); ok && strings.Contains(ta.AssertedType.String(), "[16]byte") {
			tweak = ta
		}
	})
	if tweak == nil {
		c.undecided("C13.mode", fnName(f), f, "tweak buffer not found")
		return
	}
	wantK1 := "Encrypt"
	if dec {
		wantK1 = "Decrypt"
	}
	cases, bad := 0, ""
	for _, n := range []int64{0, 15, 16, 17, 32, 48, 64} {
		for _, dd := range []int64{-1, 0, 5} {
			if n+dd < 0 || bad != "" {
				continue
			}
			w := &pathWalker{env: newEnv(), lengths: true, maxSteps: 40000, assumeErrNil: true}
			w.env.bind(dstP, n+dd)
			w.env.bind(srcP, n)
			for _, v := range overlap {
				w.env.bind(v, 0)
			}
			class := map[ssa.Value]string{dstP: "dst", srcP: "src"}
			off := map[ssa.Value]int64{dstP: 0, srcP: 0}
			w.onSlice = func(w *pathWalker, sl *ssa.Slice) {
				if cl, ok := class[sl.X]; ok {
					lo := int64(0)
					if sl.Low != nil {
						lo, _ = w.env.eval(sl.Low)
					}
					class[sl], off[sl] = cl, off[sl.X]+lo
				}
				if sl.X == tweak {
					class[sl] = "tweak"
					lo := int64(0)
					if sl.Low != nil {
						lo, _ = w.env.eval(sl.Low)
					}
					off[sl] = lo
				}
			}
			w.onPhi = func(w *pathWalker, ph *ssa.Phi, in ssa.Value) {
				if cl, ok := class[in]; ok {
					class[ph], off[ph] = cl, off[in]
				} else {
					delete(class, ph)
				}
			}
			var evs []string
			cnt := map[string]int{}
			flush := func() {
				for _, k := range []string{"clear", "xin", "xout"} {
					if cnt[k] > 0 {
						evs = append(evs, fmt.Sprintf("%s*%d", k, cnt[k]))
						cnt[k] = 0
					}
				}
			}
			elemOf := func(v ssa.Value) (string, int64, bool) {
				u, ok := v.(*ssa.UnOp)
				if !ok {
					return "", 0, false
				}
				ia, ok := u.X.(*ssa.IndexAddr)
				if !ok {
					return "", 0, false
				}
				if ia.X == tweak {
					return "tweak", 0, true
				}
				cl, ok := class[ia.X]
				return cl, off[ia.X], ok
			}
			w.onStore = func(w *pathWalker, st *ssa.Store) string {
				ia, ok := st.Addr.(*ssa.IndexAddr)
				if !ok {
					return ""
				}
				if ia.X == tweak {
					if k, isK := constInt(st.Val); isK && k == 0 {
						cnt["clear"]++
					} else {
						evs = append(evs, "tweak-store?")
					}
					return ""
				}
				dcl, okd := class[ia.X]
				if !okd || dcl != "dst" {
					return ""
				}
				bo, isB := st.Val.(*ssa.BinOp)
				if !isB || bo.Op != token.XOR {
					evs = append(evs, "dst-store?")
					return ""
				}
				c1, o1, ok1 := elemOf(bo.X)
				c2, o2, ok2 := elemOf(bo.Y)
				if !ok1 || !ok2 {
					evs = append(evs, "dst-store?")
					return ""
				}
				if c2 != "tweak" {
					c1, c2, o1, o2 = c2, c1, o2, o1
				}
				_ = o2
				switch {
				case c1 == "src" && c2 == "tweak" && o1 == off[ia.X]:
					if cnt["xout"] > 0 {
						flush()
					}
					cnt["xin"]++
				case c1 == "dst" && c2 == "tweak" && o1 == off[ia.X]:
					if cnt["xin"] > 0 {
						flush()
					}
					cnt["xout"]++
				default:
					evs = append(evs, "dst-store?")
				}
				return ""
			}
			w.onCall = func(w *pathWalker, ci ssa.CallInstruction) string {
				cc := ci.Common()
				name := short(calleeName(cc))
				switch {
				case cc.IsInvoke() && (cc.Method.Name() == "Encrypt" || cc.Method.Name() == "Decrypt"):
					flush()
					key := "?"
					if p := accessPath(cc.Value); strings.HasSuffix(p, ".k1") {
						key = "k1"
					} else if strings.HasSuffix(p, ".k2") {
						key = "k2"
					}
					a0, a1 := cc.Args[0], cc.Args[1]
					arg := "?"
					if class[a0] == "tweak" && class[a1] == "tweak" {
						arg = "tweak"
					} else if class[a0] == "dst" && class[a1] == "dst" && off[a0] == off[a1] {
						arg = fmt.Sprintf("dst@%d", off[a0])
					}
					evs = append(evs, key+"."+cc.Method.Name()+"("+arg+")")
				case strings.HasPrefix(name, "(encoding/binary.littleEndian).PutUint64"):
					flush()
					if class[cc.Args[1]] == "tweak" && off[cc.Args[1]] == 0 && cc.Args[2] == ssa.Value(sector) {
						if l, _ := w.env.eval(cc.Args[1]); l == 8 {
							evs = append(evs, "sector->tweak[0:8]")
							return ""
						}
					}
					evs = append(evs, "putuint64?")
				case name == "xts.mul2":
					flush()
					if cc.Args[0] == tweak {
						evs = append(evs, "mul2")
					} else {
						evs = append(evs, "mul2?")
					}
				}
				return ""
			}
			end := w.walk(f.Blocks[0], nil)
			flush()
			cases++
			id := fmt.Sprintf("len(src)=%d len(dst)=%d", n, n+dd)
			wantPanic := dd < 0 || n%16 != 0
			if end == "undecided" {
				bad = id + ": " + w.why
				break
			}
			if wantPanic != (end == "panic") {
				bad = fmt.Sprintf("%s: panics=%v", id, end == "panic")
				break
			}
			if wantPanic {
				continue
			}
			want := []string{"clear*16", "sector->tweak[0:8]", "k2.Encrypt(tweak)"}
			for b := int64(0); b < n/16; b++ {
				want = append(want, "xin*16", fmt.Sprintf("k1.%s(dst@%d)", wantK1, 16*b), "xout*16", "mul2")
			}
			if strings.Join(evs, " ") != strings.Join(want, " ") {
				bad = fmt.Sprintf("%s: code performs [%s], IEEE 1619 structure is [%s]", id, strings.Join(evs, " "), strings.Join(want, " "))
			}
			if w.oob {
				bad = id + ": a slice expression leaves its bounds"
			}
		}
	}
	c.check(bad == "" && cases >= 15, "C13.mode", "xts."+fnName(f), f, fmt.Sprintf("%d (length, destination length) cases: guards and per-block transcript as specified", cases), bad)
}
