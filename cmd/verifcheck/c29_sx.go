package main

import (
	"fmt"
	"go/constant"
	"go/token"
	"go/types"
	"sort"
	"strconv"
	"strings"

	"golang.org/x/tools/go/ssa"
)

// c29_sx.go: a small symbolic path executor for the key-exchange code (C29).
//
// A root function is executed abstractly on every path. Values are symbolic
// TERMS identified by where they come from (field F of the message decoded from
// the peer: "peer:T.F"; result of an external call: "name(args)#n"; big-number
// expressions: "Exp(base,exp,mod)", "Sub(p,1)"; parameters: "P<index>"), not by
// the names of locals. Static callees of the root's own package are executed in
// place (context-sensitively: a helper called three times is interpreted three
// times, each time with its own arguments), so a check, an encoding step or a
// hash write may sit in the function itself or in any helper. A branch whose
// condition is not determined forks the path; integer results with a small
// finite domain (Cmp, Sign, and whatever the rule declares, e.g. len/BitLen of
// a peer value) fork on their VALUE, so every way of testing them (<= 0, != 1,
// a switch, operands swapped) is decided alike. Each finished path carries its
// decisions, the ordered writes to every hash object (with their wire
// encoding), the messages marshalled and the external calls made. The rules
// then state facts about the ACCEPTING paths: "K is the mpint encoding of
// Exp(Y, x, p) with Y the peer's value, and Cmp(Y,1) = 1 and Cmp(Y, p-1) = -1
// were decided on that path". Nothing of the module is executed.

type c29V struct {
	t    string // term
	n    int64
	num  bool // n is the value (integers, booleans)
	null bool // the nil constant
	nn   bool // known to be non-nil
}

type c29Item struct {
	enc   string // string | mpint | u32 | raw | bin:<type>
	datum string
	at    ssa.Instruction
}

type c29Event struct {
	kind   string // call | marshal | unmarshal | peer-store
	name   string
	args   []string // normalised argument terms (receiver first for methods)
	res    string
	fields map[string]string
	at     ssa.Instruction
}

type c29Frame struct {
	fn      *ssa.Function
	env     map[ssa.Value]c29V
	tup     map[ssa.Value][]c29V
	b, pred *ssa.BasicBlock
	i       int
	call    *ssa.Call
	id      int
}

type c29Path struct {
	frames []*c29Frame
	mem    map[string]c29V
	tag    map[string]string
	big    map[string]string
	lenOf  map[string]c29V
	sub    map[string][3]string
	dec    map[string]int64
	events []c29Event
	hashes map[string][]c29Item
	sums   map[string][]c29Item
	sval   map[string]c29V
	visits map[string]int
	npeer  map[string]int
	atype  map[string]types.Type // dynamic type of allocated objects / boxed values
	clos   map[string]c29Clos
	ctr    int
	end    string // "" | return | panic | cutoff
	ret    []c29V
	last   ssa.Instruction
}

type c29Clos struct {
	fn    *ssa.Function
	binds []c29V
}

type c29Fork struct {
	key string
	dom []int64
}

type c29SX struct {
	root     *ssa.Function
	opaque   map[string]bool // short callee names that are never executed in place
	dom      func(term string) []int64
	maxVisit int
	maxSteps int
	steps    int
	cutoffs  int
	paths    []*c29Path
	why      string
	inl      map[*ssa.Function]bool
}

func (p *c29Path) top() *c29Frame { return p.frames[len(p.frames)-1] }

func (p *c29Path) fresh(prefix string) string {
	p.ctr++
	return prefix + "#" + strconv.Itoa(p.ctr)
}

func (p *c29Path) clone() *c29Path {
	q := *p
	q.frames = make([]*c29Frame, len(p.frames))
	for i, f := range p.frames {
		g := *f
		g.env = make(map[ssa.Value]c29V, len(f.env))
		for k, v := range f.env {
			g.env[k] = v
		}
		g.tup = make(map[ssa.Value][]c29V, len(f.tup))
		for k, v := range f.tup {
			g.tup[k] = v
		}
		q.frames[i] = &g
	}
	q.mem = make(map[string]c29V, len(p.mem))
	for k, v := range p.mem {
		q.mem[k] = v
	}
	cp := func(m map[string]string) map[string]string {
		o := make(map[string]string, len(m))
		for k, v := range m {
			o[k] = v
		}
		return o
	}
	q.tag, q.big = cp(p.tag), cp(p.big)
	q.lenOf = make(map[string]c29V, len(p.lenOf))
	for k, v := range p.lenOf {
		q.lenOf[k] = v
	}
	q.sub = make(map[string][3]string, len(p.sub))
	for k, v := range p.sub {
		q.sub[k] = v
	}
	q.dec = make(map[string]int64, len(p.dec))
	for k, v := range p.dec {
		q.dec[k] = v
	}
	q.events = append([]c29Event(nil), p.events...)
	q.hashes = make(map[string][]c29Item, len(p.hashes))
	for k, v := range p.hashes {
		q.hashes[k] = append([]c29Item(nil), v...)
	}
	q.sums = make(map[string][]c29Item, len(p.sums))
	for k, v := range p.sums {
		q.sums[k] = v
	}
	q.sval = make(map[string]c29V, len(p.sval))
	for k, v := range p.sval {
		q.sval[k] = v
	}
	q.visits = make(map[string]int, len(p.visits))
	for k, v := range p.visits {
		q.visits[k] = v
	}
	q.npeer = make(map[string]int, len(p.npeer))
	for k, v := range p.npeer {
		q.npeer[k] = v
	}
	q.atype = make(map[string]types.Type, len(p.atype))
	for k, v := range p.atype {
		q.atype[k] = v
	}
	q.clos = make(map[string]c29Clos, len(p.clos))
	for k, v := range p.clos {
		q.clos[k] = v
	}
	return &q
}

func c29NewSX(root *ssa.Function) *c29SX {
	return &c29SX{root: root, opaque: map[string]bool{}, maxVisit: 3, maxSteps: 400000, inl: map[*ssa.Function]bool{}}
}

// run executes the root on all paths.
func (sx *c29SX) run() {
	p0 := &c29Path{mem: map[string]c29V{}, tag: map[string]string{}, big: map[string]string{}, lenOf: map[string]c29V{},
		sub: map[string][3]string{}, dec: map[string]int64{}, hashes: map[string][]c29Item{}, sums: map[string][]c29Item{},
		sval: map[string]c29V{}, visits: map[string]int{}, npeer: map[string]int{}, atype: map[string]types.Type{}, clos: map[string]c29Clos{}}
	f := &c29Frame{fn: sx.root, env: map[ssa.Value]c29V{}, tup: map[ssa.Value][]c29V{}, b: sx.root.Blocks[0]}
	for i, prm := range sx.root.Params {
		f.env[prm] = c29V{t: "P" + strconv.Itoa(i)}
	}
	p0.frames = []*c29Frame{f}
	allInstrs(sx.root, func(in ssa.Instruction) {
		switch in.(type) {
		case *ssa.Defer, *ssa.Go, *ssa.Select:
			sx.why = "the function uses defer/go/select, which the path executor does not model"
		}
	})
	if sx.why != "" {
		return
	}
	work := []*c29Path{p0}
	for len(work) > 0 {
		p := work[len(work)-1]
		work = work[:len(work)-1]
		for p != nil && p.end == "" {
			sx.steps++
			if sx.steps > sx.maxSteps {
				sx.why = "step budget of the path executor exceeded"
				return
			}
			if fk := sx.step(p); fk != nil {
				// widening: a loop whose continuation depends on undetermined
				// values is followed for maxVisit decisions of the same
				// instruction in the same activation; loops with concrete trip
				// counts are unrolled completely
				fr := p.top()
				vk := strconv.Itoa(fr.id) + "/" + strconv.Itoa(fr.b.Index) + "/" + strconv.Itoa(fr.i)
				p.visits[vk]++
				if p.visits[vk] > sx.maxVisit {
					p.end = "cutoff"
					sx.cutoffs++
					continue
				}
				for i := len(fk.dom) - 1; i >= 0; i-- {
					q := p.clone()
					q.dec[fk.key] = fk.dom[i]
					work = append(work, q)
				}
				p = nil
			}
		}
		if p != nil {
			sx.paths = append(sx.paths, p)
		}
	}
}

func (sx *c29SX) domain(term string) []int64 {
	if sx.dom != nil {
		if d := sx.dom(term); d != nil {
			return d
		}
	}
	if strings.HasPrefix(term, "Cmp(") || strings.HasPrefix(term, "Sign(") {
		return []int64{-1, 0, 1}
	}
	return nil
}

// ---------------------------------------------------------------------------
// values

func (p *c29Path) conc(v c29V) c29V {
	if v.num || v.null {
		return v
	}
	if n, ok := p.dec[v.t]; ok {
		v.num, v.n = true, n
		return v
	}
	if strings.HasPrefix(v.t, "!") {
		if n, ok := p.dec[v.t[1:]]; ok {
			v.num, v.n = true, 1-n
		}
	}
	return v
}

func c29Const(x *ssa.Const) c29V {
	if x.IsNil() {
		return c29V{t: "nil", null: true}
	}
	if x.Value == nil {
		return c29V{t: "zero:" + x.Type().String()}
	}
	switch x.Value.Kind() {
	case constant.Int:
		n, ok := constInt(x)
		if ok {
			return c29V{t: strconv.FormatInt(n, 10), n: n, num: true}
		}
	case constant.Bool:
		if constant.BoolVal(x.Value) {
			return c29V{t: "true", n: 1, num: true}
		}
		return c29V{t: "false", n: 0, num: true}
	case constant.String:
		return c29V{t: strconv.Quote(constant.StringVal(x.Value)), nn: true}
	}
	return c29V{t: x.Value.ExactString()}
}

func (p *c29Path) val(f *c29Frame, v ssa.Value) c29V {
	switch x := v.(type) {
	case *ssa.Const:
		return c29Const(x)
	case *ssa.Global:
		pk := ""
		if x.Pkg != nil {
			pk = short(x.Pkg.Pkg.Path()) + "."
		}
		return c29V{t: "&" + pk + x.Name(), nn: true}
	case *ssa.Function:
		return c29V{t: "fn:" + short(x.String()), nn: true}
	case *ssa.Builtin:
		return c29V{t: "builtin:" + x.Name(), nn: true}
	}
	if r, ok := f.env[v]; ok {
		return p.conc(r)
	}
	return c29V{t: "?" + v.Name()}
}

func c29ZeroOf(t types.Type, addr string) c29V {
	switch u := t.Underlying().(type) {
	case *types.Basic:
		switch {
		case u.Info()&types.IsInteger != 0:
			return c29V{t: "0", num: true}
		case u.Info()&types.IsBoolean != 0:
			return c29V{t: "false", num: true}
		case u.Info()&types.IsString != 0:
			return c29V{t: `""`}
		}
	case *types.Pointer, *types.Slice, *types.Map, *types.Interface, *types.Signature, *types.Chan:
		return c29V{t: "nil", null: true}
	}
	return c29V{t: "zero(" + addr + ")"}
}

// tagOf: the longest tagged prefix of an address.
func (p *c29Path) tagOf(a string) (base, tg string) {
	for b, t := range p.tag {
		if (a == b || strings.HasPrefix(a, b+".") || strings.HasPrefix(a, b+"[")) && len(b) > len(base) {
			base, tg = b, t
		}
	}
	return
}

func (p *c29Path) load(a string, t types.Type) c29V {
	if st, ok := t.Underlying().(*types.Struct); ok {
		s := p.fresh("sv")
		for i := 0; i < st.NumFields(); i++ {
			fl := st.Field(i)
			p.sval[s+"."+fl.Name()] = p.load(a+"."+fl.Name(), fl.Type())
		}
		return c29V{t: s, nn: true}
	}
	if at, ok := t.Underlying().(*types.Array); ok {
		if v, ok := p.mem[a+"[]"]; ok {
			return v
		}
		if at.Len() <= 64 {
			// an array VALUE: a snapshot of the elements
			s := p.fresh("av")
			for i := int64(0); i < at.Len(); i++ {
				k := "[" + strconv.FormatInt(i, 10) + "]"
				p.sval[s+k] = p.load(a+k, at.Elem())
			}
			return c29V{t: s, nn: true}
		}
	}
	if v, ok := p.mem[a]; ok {
		return v
	}
	if base, tg := p.tagOf(a); base != "" {
		return c29V{t: tg + a[len(base):]}
	}
	if strings.HasPrefix(a, "@") {
		return c29ZeroOf(t, a)
	}
	if strings.HasPrefix(a, "&") {
		return c29V{t: a[1:]}
	}
	return c29V{t: "*(" + a + ")"}
}

func (p *c29Path) store(a string, v c29V, t types.Type, at ssa.Instruction) {
	if base, tg := p.tagOf(a); base != "" && strings.HasPrefix(tg, "peer:") {
		p.events = append(p.events, c29Event{kind: "peer-store", name: tg + a[len(base):], res: v.t, at: at})
	} else if strings.HasPrefix(a, "peer:") || strings.HasPrefix(a, "slice(peer:") {
		// an element of a byte string received from the peer
		p.events = append(p.events, c29Event{kind: "peer-store", name: a, res: v.t, at: at})
	}
	if st, ok := t.Underlying().(*types.Struct); ok {
		for i := 0; i < st.NumFields(); i++ {
			fl := st.Field(i)
			fv, ok := p.sval[v.t+"."+fl.Name()]
			if !ok {
				fv = c29V{t: v.t + "." + fl.Name()}
			}
			p.store(a+"."+fl.Name(), fv, fl.Type(), nil)
		}
		return
	}
	if at, ok := t.Underlying().(*types.Array); ok {
		p.wipe(a)
		if _, snap := p.sval[v.t+"[0]"]; snap {
			for i := int64(0); i < at.Len(); i++ {
				k := "[" + strconv.FormatInt(i, 10) + "]"
				if ev, ok := p.sval[v.t+k]; ok {
					p.store(a+k, ev, at.Elem(), nil)
				}
			}
			return
		}
		p.mem[a+"[]"] = v
		return
	}
	p.mem[a] = v
}

func (p *c29Path) wipe(a string) {
	for k := range p.mem {
		if k == a || k == a+"[]" || strings.HasPrefix(k, a+".") || strings.HasPrefix(k, a+"[") || strings.HasPrefix(k, a+"@") {
			delete(p.mem, k)
		}
	}
}

func (p *c29Path) havoc(a string) {
	p.wipe(a)
	p.tag[a] = p.fresh("hv")
}

// byteLen: the length in bytes of the buffer at address a, when known.
func (p *c29Path) byteLen(a string) (int64, bool) {
	if t := p.atype[a]; t != nil {
		if pt, ok := t.Underlying().(*types.Pointer); ok {
			if at, ok := pt.Elem().Underlying().(*types.Array); ok {
				return at.Len(), true
			}
		}
	}
	if l, ok := p.lenOf[a]; ok && l.num {
		return l.n, true
	}
	return 0, false
}

// putField: a fixed-width field (e.g. a big-endian uint32) is written into dst,
// which is a whole buffer or the constant-offset part dst = base[lo:...] of
// one. A buffer is modelled as the sequence of the fields written into it: its
// content is their concatenation once they tile it completely.
func (p *c29Path) putField(dst c29V, width int64, term string) {
	base, off := dst.t, int64(0)
	if s, ok := p.sub[dst.t]; ok {
		n, err := strconv.ParseInt(s[1], 10, 64)
		if s[1] == "" {
			n, err = 0, nil
		}
		if _, nested := p.sub[s[0]]; err != nil || nested {
			if strings.HasPrefix(s[0], "@") {
				p.havoc(s[0])
			}
			return
		}
		base, off = s[0], n
	}
	if total, known := p.byteLen(base); off == 0 && (!known || total == width) {
		p.wipe(base)
		p.mem[base+"[]"] = c29V{t: term}
		return
	}
	if whole, ok := p.mem[base+"[]"]; ok && whole.t != "zeros" {
		// overwriting part of a buffer filled as a whole: no longer known
		p.wipe(base)
	}
	delete(p.mem, base+"[]")
	// a field overlapping an earlier one replaces it
	for k := off - width + 1; k < off+width; k++ {
		if k != off {
			delete(p.mem, base+"@"+strconv.FormatInt(k, 10))
		}
	}
	p.mem[base+"@"+strconv.FormatInt(off, 10)] = c29V{t: term, n: width}
}

// fields: the fields written into the buffer at base from byte lo up to byte
// hi, when they tile that range exactly.
func (p *c29Path) fields(base string, lo, hi int64) ([]string, bool) {
	var out []string
	for off := lo; off < hi; {
		f, ok := p.mem[base+"@"+strconv.FormatInt(off, 10)]
		if !ok || f.n <= 0 || off+f.n > hi {
			return nil, false
		}
		out = append(out, f.t)
		off += f.n
	}
	return out, len(out) > 0
}

func c29Cat(parts []string) string {
	if len(parts) == 1 {
		return parts[0]
	}
	return "cat(" + strings.Join(parts, ",") + ")"
}

// content: the byte content a slice / array address / string value stands for.
func (p *c29Path) content(v c29V) string {
	if c, ok := p.mem[v.t+"[]"]; ok && c.t != "zeros" {
		return c.t
	}
	if total, known := p.byteLen(v.t); known {
		if fs, ok := p.fields(v.t, 0, total); ok {
			return c29Cat(fs)
		}
	}
	if c, ok := p.mem[v.t+"[]"]; ok {
		return c.t
	}
	if s, ok := p.sub[v.t]; ok {
		// a constant-offset part of a buffer made of fields
		lo, e1 := strconv.ParseInt(s[1], 10, 64)
		if s[1] == "" {
			lo, e1 = 0, nil
		}
		hi, e2 := strconv.ParseInt(s[2], 10, 64)
		if s[2] == "" {
			if total, known := p.byteLen(s[0]); known {
				hi, e2 = total, nil
			}
		}
		if e1 == nil && e2 == nil {
			if fs, ok := p.fields(s[0], lo, hi); ok {
				return c29Cat(fs)
			}
		}
		return "sub(" + p.content(c29V{t: s[0]}) + "," + s[1] + "," + s[2] + ")"
	}
	// four bytes stored one by one, most significant first: the hand-written
	// form of binary.BigEndian.PutUint32
	if _, more := p.mem[v.t+"[4]"]; !more {
		var e [4]c29V
		all, nums := true, true
		for i := range e {
			x, ok := p.mem[v.t+"["+strconv.Itoa(i)+"]"]
			all = all && ok
			nums = nums && x.num
			e[i] = x
		}
		switch {
		case all && nums:
			return "u32(" + strconv.FormatInt((e[0].n&255)<<24|(e[1].n&255)<<16|(e[2].n&255)<<8|e[3].n&255, 10) + ")"
		case all && !e[3].num && e[0].t == "("+e[3].t+" >> 24)" && e[1].t == "("+e[3].t+" >> 16)" && e[2].t == "("+e[3].t+" >> 8)":
			return "u32(" + e[3].t + ")"
		}
	}
	if base, tg := p.tagOf(v.t); base != "" {
		return tg + v.t[len(base):] + "[]"
	}
	return v.t
}

// hashWrite appends the bytes c to the input of hash h. The input is kept as a
// canonical BYTE STREAM, not as a list of Write calls: a buffer that is the
// concatenation of several fields counts as those fields one after the other,
// two consecutive parts of one value count as that value, and a 32-bit length
// followed by the bytes it counts is the SSH string encoding.
func (p *c29Path) hashWrite(h, c string, at ssa.Instruction) {
	if head, args, suf, ok := c29Split(c); ok && head == "cat" && suf == "" && len(args) > 0 {
		for _, a := range args {
			p.hashWrite(h, a, at)
		}
		return
	}
	it := c29Item{"raw", c, at}
	for _, enc := range []string{"mpint", "string", "u32"} {
		if strings.HasPrefix(c, enc+"(") && strings.HasSuffix(c, ")") && c29Balanced(c[len(enc)+1:len(c)-1]) {
			it = c29Item{enc, c[len(enc)+1 : len(c)-1], at}
		}
	}
	its := p.hashes[h]
	n := len(its)
	if it.enc == "raw" && n > 0 && its[n-1].enc == "raw" {
		h1, a1, s1, ok1 := c29Split(its[n-1].datum)
		h2, a2, s2, ok2 := c29Split(c)
		if ok1 && ok2 && h1 == "sub" && h2 == "sub" && s1 == "" && s2 == "" && len(a1) == 3 && len(a2) == 3 &&
			a1[0] == a2[0] && a1[2] != "" && a1[2] == a2[1] {
			merged := "sub(" + a1[0] + "," + a1[1] + "," + a2[2] + ")"
			if (a1[1] == "" || a1[1] == "0") && a2[2] == "" {
				merged = a1[0]
			}
			p.hashes[h] = its[: n-1 : n-1]
			p.hashWrite(h, merged, at)
			return
		}
	}
	isLen := func(d string) bool {
		if d == "len("+c+")" {
			return true
		}
		k, decided := p.dec["len("+c+")"]
		return decided && d == strconv.FormatInt(k, 10)
	}
	if it.enc == "raw" && n > 0 && its[n-1].enc == "u32" && isLen(its[n-1].datum) {
		p.hashes[h] = append(its[:n-1:n-1], c29Item{"string", c, at})
		return
	}
	p.hashes[h] = append(its, it)
}

func (p *c29Path) bigOf(v c29V) string {
	if b, ok := p.big[v.t]; ok {
		return b
	}
	if v.t == "ssh.bigOne" {
		return "1"
	}
	if v.num {
		return strconv.FormatInt(v.n, 10)
	}
	return v.t
}

func c29IsBig(t types.Type) bool {
	return strings.HasSuffix(t.String(), "math/big.Int")
}

func c29IsBytes(t types.Type) bool {
	switch u := t.Underlying().(type) {
	case *types.Slice:
		b, ok := u.Elem().Underlying().(*types.Basic)
		return ok && b.Kind() == types.Uint8
	case *types.Pointer:
		if a, ok := u.Elem().Underlying().(*types.Array); ok {
			b, ok := a.Elem().Underlying().(*types.Basic)
			return ok && b.Kind() == types.Uint8
		}
	case *types.Basic:
		return u.Info()&types.IsString != 0
	}
	return false
}

// norm: the term a value contributes to an enclosing term.
func (p *c29Path) norm(v c29V, t types.Type) string {
	if v.null {
		return "nil"
	}
	if c29IsBig(t) {
		return p.bigOf(v)
	}
	if c29IsBytes(t) {
		return p.content(v)
	}
	if v.num {
		return strconv.FormatInt(v.n, 10)
	}
	return v.t
}

// ---------------------------------------------------------------------------
// one step

func (sx *c29SX) enter(p *c29Path, f *c29Frame, succ *ssa.BasicBlock) {
	pred := f.b
	idx := -1
	for i, q := range succ.Preds {
		if q == pred {
			idx = i
		}
	}
	type upd struct {
		ph *ssa.Phi
		v  c29V
	}
	var us []upd
	n := 0
	for _, in := range succ.Instrs {
		ph, ok := in.(*ssa.Phi)
		if !ok {
			break
		}
		n++
		if idx >= 0 {
			us = append(us, upd{ph, p.val(f, ph.Edges[idx])})
		}
	}
	for _, u := range us {
		f.env[u.ph] = u.v
	}
	f.pred, f.b, f.i = pred, succ, n
}

func (sx *c29SX) step(p *c29Path) *c29Fork {
	f := p.top()
	if f.i >= len(f.b.Instrs) {
		p.end = "cutoff"
		return nil
	}
	in := f.b.Instrs[f.i]
	switch x := in.(type) {
	case *ssa.Alloc:
		v := c29V{t: p.fresh("@a"), nn: true}
		p.atype[v.t] = x.Type()
		f.env[x] = v
	case *ssa.MakeSlice:
		v := c29V{t: p.fresh("@m"), nn: true}
		p.lenOf[v.t] = p.val(f, x.Len)
		p.mem[v.t+"[]"] = c29V{t: "zeros"}
		f.env[x] = v
	case *ssa.MakeClosure:
		v := c29V{t: p.fresh("@clo"), nn: true}
		if fn, ok := x.Fn.(*ssa.Function); ok {
			cl := c29Clos{fn: fn}
			for _, b := range x.Bindings {
				cl.binds = append(cl.binds, p.val(f, b))
			}
			p.clos[v.t] = cl
		}
		f.env[x] = v
	case *ssa.MakeMap, *ssa.MakeChan:
		f.env[in.(ssa.Value)] = c29V{t: p.fresh("@o"), nn: true}
	case *ssa.FieldAddr:
		b := p.val(f, x.X)
		if b.null {
			p.end, p.last = "panic", in
			return nil
		}
		st := derefStruct(x.X.Type())
		f.env[x] = c29V{t: b.t + "." + st.Field(x.Field).Name(), nn: true}
	case *ssa.Field:
		b := p.val(f, x.X)
		st, _ := x.X.Type().Underlying().(*types.Struct)
		name := st.Field(x.Field).Name()
		if v, ok := p.sval[b.t+"."+name]; ok {
			f.env[x] = v
		} else {
			f.env[x] = c29V{t: b.t + "." + name}
		}
	case *ssa.IndexAddr:
		b, i := p.val(f, x.X), p.val(f, x.Index)
		f.env[x] = c29V{t: b.t + "[" + p.norm(i, x.Index.Type()) + "]", nn: true}
	case *ssa.Index:
		b, i := p.val(f, x.X), p.val(f, x.Index)
		k := b.t + "[" + p.norm(i, x.Index.Type()) + "]"
		if ev, ok := p.sval[k]; ok {
			f.env[x] = p.conc(ev)
		} else {
			f.env[x] = c29V{t: k}
		}
	case *ssa.Lookup:
		b, i := p.val(f, x.X), p.val(f, x.Index)
		t := "lookup(" + b.t + "," + p.norm(i, x.Index.Type()) + ")"
		if x.CommaOk {
			f.tup[x] = []c29V{{t: t}, {t: "ok:" + t}}
		} else {
			f.env[x] = c29V{t: t}
		}
	case *ssa.Slice:
		b := p.val(f, x.X)
		lo, hi := "", ""
		whole := true
		if x.Low != nil {
			l := p.val(f, x.Low)
			if !(l.num && l.n == 0) {
				whole = false
				lo = p.norm(l, x.Low.Type())
			}
		}
		if x.High != nil {
			hi = p.norm(p.val(f, x.High), x.High.Type())
			whole = false
		}
		if whole {
			f.env[x] = b
		} else {
			t := "slice(" + b.t + "," + lo + "," + hi + ")"
			p.sub[t] = [3]string{b.t, lo, hi}
			// constant bounds give a constant length
			l, e1 := strconv.ParseInt(lo, 10, 64)
			if lo == "" {
				l, e1 = 0, nil
			}
			u, e2 := strconv.ParseInt(hi, 10, 64)
			if hi == "" {
				if n, ok := p.byteLen(b.t); ok {
					u, e2 = n, nil
				} else if bl, ok := p.lenOf[b.t]; ok && bl.num {
					u, e2 = bl.n, nil
				}
			}
			if e1 == nil && e2 == nil && u >= l {
				p.lenOf[t] = c29V{t: strconv.FormatInt(u-l, 10), n: u - l, num: true}
			}
			f.env[x] = c29V{t: t, nn: b.nn}
		}
	case *ssa.UnOp:
		a := p.val(f, x.X)
		switch x.Op {
		case token.MUL:
			if a.null {
				p.end, p.last = "panic", in
				return nil
			}
			f.env[x] = p.load(a.t, x.Type())
		case token.NOT:
			switch {
			case a.num:
				f.env[x] = c29V{t: strconv.FormatInt(1-a.n, 10), n: 1 - a.n, num: true}
			case strings.HasPrefix(a.t, "!"):
				f.env[x] = c29V{t: a.t[1:]}
			default:
				f.env[x] = c29V{t: "!" + a.t}
			}
		case token.SUB:
			if a.num {
				n := wrapTo(-a.n, x.Type())
				f.env[x] = c29V{t: strconv.FormatInt(n, 10), n: n, num: true}
			} else {
				f.env[x] = c29V{t: "-(" + a.t + ")"}
			}
		default:
			f.env[x] = c29V{t: x.Op.String() + "(" + a.t + ")"}
		}
	case *ssa.BinOp:
		return sx.binop(p, f, x)
	case *ssa.ChangeType:
		f.env[x] = p.val(f, x.X)
	case *ssa.ChangeInterface:
		f.env[x] = p.val(f, x.X)
	case *ssa.SliceToArrayPointer:
		f.env[x] = p.val(f, x.X)
	case *ssa.MakeInterface:
		v := p.val(f, x.X)
		if _, isPtr := x.X.Type().Underlying().(*types.Pointer); !isPtr {
			v.nn = true
			v.null = false
		}
		if _, known := p.atype[v.t]; !known && !v.null {
			p.atype[v.t] = x.X.Type()
		}
		f.env[x] = v
	case *ssa.Convert:
		v := p.val(f, x.X)
		if v.num {
			if _, _, ok := intBits(x.Type()); ok {
				n := wrapTo(v.n, x.Type())
				v = c29V{t: strconv.FormatInt(n, 10), n: n, num: true}
			}
		}
		f.env[x] = v
	case *ssa.TypeAssert:
		v := p.val(f, x.X)
		if x.CommaOk {
			f.tup[x] = []c29V{v, {t: "ok:assert(" + v.t + "," + x.AssertedType.String() + ")"}}
		} else {
			f.env[x] = v
		}
	case *ssa.Extract:
		if tv, ok := f.tup[x.Tuple]; ok && x.Index < len(tv) {
			f.env[x] = tv[x.Index]
		} else {
			f.env[x] = c29V{t: p.val(f, x.Tuple).t + "." + strconv.Itoa(x.Index)}
		}
	case *ssa.Store:
		a, v := p.val(f, x.Addr), p.val(f, x.Val)
		if a.null {
			p.end, p.last = "panic", in
			return nil
		}
		p.store(a.t, v, x.Val.Type(), in)
	case *ssa.MapUpdate:
		m, k, v := p.val(f, x.Map), p.val(f, x.Key), p.val(f, x.Value)
		ev := c29Event{kind: "mapset", name: m.t, args: []string{p.norm(k, x.Key.Type()), v.t}, at: in, fields: map[string]string{}}
		if mt := p.atype[v.t]; mt != nil {
			ev.res = typeName(mt)
			if st := derefStruct(mt); st != nil {
				if _, isPtr := mt.Underlying().(*types.Pointer); isPtr {
					for i := 0; i < st.NumFields(); i++ {
						fl := st.Field(i)
						ev.fields[fl.Name()] = p.norm(p.load(v.t+"."+fl.Name(), fl.Type()), fl.Type())
					}
				}
			}
		}
		p.events = append(p.events, ev)
	case *ssa.Send, *ssa.DebugRef, *ssa.RunDefers:
	case *ssa.Range:
		f.env[x] = c29V{t: p.fresh("range")}
	case *ssa.Next:
		t := p.fresh("next")
		f.tup[x] = []c29V{{t: "ok:" + t}, {t: t + ".k"}, {t: t + ".v"}}
	case *ssa.Phi:
		// bound on block entry
	case ssa.CallInstruction:
		return sx.call(p, f, x)
	case *ssa.Jump:
		sx.enter(p, f, f.b.Succs[0])
		return nil
	case *ssa.If:
		c := p.val(f, x.Cond)
		if !c.num {
			key := c.t
			if strings.HasPrefix(key, "!") {
				key = key[1:]
			}
			return &c29Fork{key, []int64{1, 0}}
		}
		if c.n != 0 {
			sx.enter(p, f, f.b.Succs[0])
		} else {
			sx.enter(p, f, f.b.Succs[1])
		}
		return nil
	case *ssa.Return:
		var rs []c29V
		for _, r := range x.Results {
			rs = append(rs, p.val(f, r))
		}
		if len(p.frames) == 1 {
			p.end, p.ret, p.last = "return", rs, in
			return nil
		}
		p.frames = p.frames[:len(p.frames)-1]
		g := p.top()
		if f.call != nil {
			if len(rs) == 1 {
				g.env[f.call] = rs[0]
			} else if len(rs) > 1 {
				g.tup[f.call] = rs
			}
		}
		g.i++
		return nil
	case *ssa.Panic:
		p.end, p.last = "panic", in
		return nil
	default:
		if v, ok := in.(ssa.Value); ok {
			f.env[v] = c29V{t: p.fresh("?" + v.Name())}
		}
	}
	f.i++
	return nil
}

func c29Bool(b bool) c29V {
	if b {
		return c29V{t: "true", n: 1, num: true}
	}
	return c29V{t: "false", n: 0, num: true}
}

func (sx *c29SX) binop(p *c29Path, f *c29Frame, x *ssa.BinOp) *c29Fork {
	a, b := p.val(f, x.X), p.val(f, x.Y)
	_, _, isInt := intBits(x.X.Type())
	if bt, ok := x.X.Type().Underlying().(*types.Basic); ok && bt.Info()&types.IsBoolean != 0 {
		isInt = false
	}
	done := func(v c29V) *c29Fork {
		f.env[x] = v
		f.i++
		return nil
	}
	// nil tests
	if (x.Op == token.EQL || x.Op == token.NEQ) && (a.null || b.null) {
		o := a
		if a.null {
			o = b
		}
		var isNil bool
		switch {
		case o.null:
			isNil = true
		case o.nn:
			isNil = false
		default:
			k := "nil?" + o.t
			n, ok := p.dec[k]
			if !ok {
				return &c29Fork{k, []int64{1, 0}}
			}
			isNil = n != 0
		}
		return done(c29Bool(isNil == (x.Op == token.EQL)))
	}
	if isInt {
		for _, o := range []c29V{a, b} {
			if !o.num && !o.null {
				if d := sx.domain(o.t); d != nil {
					return &c29Fork{o.t, d}
				}
			}
		}
	}
	if a.num && b.num {
		e := newEnv()
		e.bind(x.X, a.n)
		e.bind(x.Y, b.n)
		if n, ok := e.eval(x); ok {
			if bt, isB := x.Type().Underlying().(*types.Basic); isB && bt.Info()&types.IsBoolean != 0 {
				return done(c29Bool(n != 0))
			}
			return done(c29V{t: strconv.FormatInt(n, 10), n: n, num: true})
		}
	}
	at, bt := p.norm(a, x.X.Type()), p.norm(b, x.Y.Type())
	if x.Op == token.EQL || x.Op == token.NEQ {
		if at == bt && !strings.Contains(at, "#") {
			return done(c29Bool(x.Op == token.EQL))
		}
	}
	return done(c29V{t: "(" + at + " " + x.Op.String() + " " + bt + ")"})
}

// ---------------------------------------------------------------------------
// calls

func (sx *c29SX) inlinable(p *c29Path, callee *ssa.Function, name string) bool {
	if callee == nil || len(callee.Blocks) == 0 || callee.Pkg == nil || callee.Pkg != sx.root.Pkg || sx.opaque[name] || callee.Synthetic != "" {
		return false
	}
	if len(p.frames) > 5 {
		return false
	}
	for _, fr := range p.frames {
		if fr.fn == callee {
			return false
		}
	}
	if ok, seen := sx.inl[callee]; seen {
		return ok
	}
	ok := len(callee.Blocks) <= 80
	for _, b := range callee.Blocks {
		for _, s := range b.Succs {
			if s.Dominates(b) {
				ok = false // a loop
			}
		}
		for _, in := range b.Instrs {
			switch in.(type) {
			case *ssa.Defer, *ssa.Go, *ssa.Select, *ssa.Range:
				ok = false
			}
		}
	}
	sx.inl[callee] = ok
	return ok
}

func c29ResultIsHash(sig *types.Signature) bool {
	return sig.Results().Len() == 1 && strings.HasSuffix(sig.Results().At(0).Type().String(), "hash.Hash")
}

func (sx *c29SX) call(p *c29Path, f *c29Frame, ci ssa.CallInstruction) *c29Fork {
	cc := ci.Common()
	name := short(calleeName(cc))
	var val ssa.Value
	if v, ok := ci.(ssa.Value); ok {
		val = v
	}
	var args []c29V
	var atyp []types.Type
	if cc.IsInvoke() {
		args = append(args, p.val(f, cc.Value))
		atyp = append(atyp, cc.Value.Type())
	}
	for _, a := range cc.Args {
		args = append(args, p.val(f, a))
		atyp = append(atyp, a.Type())
	}
	set := func(v c29V) {
		if val != nil {
			f.env[val] = v
		}
	}
	next := func() *c29Fork {
		f.i++
		return nil
	}
	nt := func(i int) string { return p.norm(args[i], atyp[i]) }
	if _, isCall := ci.(*ssa.Call); !isCall {
		return next() // defer / go: rejected for the root, never inlined
	}
	sig := cc.Signature()
	isHash := func(v c29V) bool { return strings.HasPrefix(v.t, "hash#") }
	switch {
	case strings.HasPrefix(name, "builtin:"):
		switch name {
		case "builtin:len", "builtin:cap":
			if l, ok := p.lenOf[args[0].t]; ok && name == "builtin:len" {
				set(p.conc(l))
				return next()
			}
			// a slice of a whole array allocated here ([]T{...} literals, make with a
			// constant size) has that array's length
			if n, ok := p.byteLen(args[0].t); ok {
				set(c29V{t: strconv.FormatInt(n, 10), n: n, num: true})
				return next()
			}
			t := atyp[0].Underlying()
			if pt, ok := t.(*types.Pointer); ok {
				t = pt.Elem().Underlying()
			}
			if arr, ok := t.(*types.Array); ok {
				set(c29V{t: strconv.FormatInt(arr.Len(), 10), n: arr.Len(), num: true})
				return next()
			}
			if s, ok := constString(cc.Args[0]); ok {
				set(c29V{t: strconv.Itoa(len(s)), n: int64(len(s)), num: true})
				return next()
			}
			set(p.conc(c29V{t: name[8:] + "(" + p.content(args[0]) + ")"}))
		case "builtin:append":
			if len(args) == 2 {
				v := c29V{t: p.fresh("@m"), nn: true}
				p.mem[v.t+"[]"] = c29V{t: "cat(" + p.content(args[0]) + "," + p.content(args[1]) + ")"}
				set(v)
			} else {
				set(args[0])
			}
		case "builtin:copy":
			if strings.HasPrefix(args[0].t, "peer:") || strings.HasPrefix(args[0].t, "slice(peer:") {
				p.events = append(p.events, c29Event{kind: "peer-store", name: args[0].t, res: p.content(args[1]), at: ci})
			}
			if strings.HasPrefix(args[0].t, "@") {
				p.wipe(args[0].t)
				p.mem[args[0].t+"[]"] = c29V{t: p.content(args[1])}
			} else if _, isSub := p.sub[args[0].t]; isSub {
				s := p.sub[args[0].t]
				if strings.HasPrefix(s[0], "@") {
					p.havoc(s[0])
				}
			}
			set(c29V{t: p.fresh("copy")})
		case "builtin:min", "builtin:max":
			all := true
			var res int64
			var ts []string
			for i, a := range args {
				ts = append(ts, nt(i))
				if !a.num {
					all = false
					continue
				}
				if i == 0 || (name == "builtin:min" && a.n < res) || (name == "builtin:max" && a.n > res) {
					res = a.n
				}
			}
			if all && len(args) > 0 {
				set(c29V{t: strconv.FormatInt(res, 10), n: res, num: true})
			} else {
				set(c29V{t: name[8:] + "(" + strings.Join(ts, ",") + ")"})
			}
		default:
			set(c29V{t: p.fresh(name)})
		}
		return next()
	case strings.HasPrefix(name, "(*math/big.Int).") && len(args) > 0:
		m := name[len("(*math/big.Int)."):]
		var ts []string
		for i := 1; i < len(args); i++ {
			ts = append(ts, nt(i))
		}
		recvT := p.bigOf(args[0])
		rt := ""
		if sig.Results().Len() > 0 {
			rt = sig.Results().At(0).Type().String()
		}
		switch {
		case sig.Results().Len() >= 1 && strings.HasSuffix(rt, "math/big.Int"):
			p.big[args[0].t] = m + "(" + strings.Join(ts, ",") + ")"
			if (m == "SetInt64" || m == "SetUint64" || m == "Set") && len(ts) == 1 {
				p.big[args[0].t] = ts[0] // the number itself
			}
			r := args[0]
			r.nn = true
			if sig.Results().Len() == 1 {
				set(r)
			} else {
				tv := []c29V{r}
				for i := 1; i < sig.Results().Len(); i++ {
					tv = append(tv, c29V{t: p.fresh("ok:" + m)})
				}
				f.tup[val] = tv
			}
		default:
			t := m + "(" + strings.Join(append([]string{recvT}, ts...), ",") + ")"
			if sig.Results().Len() > 1 {
				var tv []c29V
				for i := 0; i < sig.Results().Len(); i++ {
					tv = append(tv, c29V{t: t + "." + strconv.Itoa(i)})
				}
				f.tup[val] = tv
			} else {
				set(p.conc(c29V{t: t}))
			}
		}
		return next()
	case name == "math/big.NewInt":
		v := c29V{t: p.fresh("@b"), nn: true}
		p.big[v.t] = nt(0)
		set(v)
		return next()
	case c29ResultIsHash(sig) && !sx.wouldInline(p, cc, name):
		set(c29V{t: p.fresh("hash"), nn: true})
		return next()
	case cc.IsInvoke() && isHash(args[0]) && cc.Method.Name() == "Write" && len(args) == 2:
		p.hashWrite(args[0].t, p.content(args[1]), ci)
		f.tup[val] = []c29V{{t: "n"}, {t: "nil", null: true}}
		return next()
	case cc.IsInvoke() && isHash(args[0]) && cc.Method.Name() == "Sum":
		t := p.fresh("Sum(" + args[0].t + ")")
		items := append([]c29Item(nil), p.hashes[args[0].t]...)
		if len(args) > 1 && !args[1].null {
			items = append([]c29Item{{"prefix", p.content(args[1]), ci}}, items...)
		}
		p.sums[t] = items
		var ds []string
		for _, it := range items {
			ds = append(ds, it.enc+":"+it.datum)
		}
		p.mem[t+"[]"] = c29V{t: t + "[" + strings.Join(ds, " ") + "]"}
		set(c29V{t: t, nn: true})
		return next()
	case cc.IsInvoke() && isHash(args[0]) && cc.Method.Name() == "Reset":
		p.hashes[args[0].t] = nil
		return next()
	case (name == "ssh.writeString" || name == "ssh.writeInt") && len(args) == 2 && isHash(args[0]):
		enc := "string"
		if name == "ssh.writeInt" {
			enc = "mpint"
		}
		p.hashes[args[0].t] = append(p.hashes[args[0].t], c29Item{enc, nt(1), ci})
		return next()
	case name == "encoding/binary.Write" && len(args) == 3 && isHash(args[0]):
		enc := "bin:?"
		if mi, ok := cc.Args[2].(*ssa.MakeInterface); ok {
			enc = "bin:" + mi.X.Type().String()
			if bt, ok := mi.X.Type().Underlying().(*types.Basic); ok && bt.Kind() == types.Uint32 {
				enc = "u32"
			}
		}
		if mi, ok := cc.Args[1].(*ssa.MakeInterface); !ok || !strings.HasSuffix(mi.X.Type().String(), "encoding/binary.bigEndian") {
			enc = "not-big-endian:" + enc
		}
		// an array of uint32 is the concatenation of its elements
		if mi, ok := cc.Args[2].(*ssa.MakeInterface); ok && !strings.HasPrefix(enc, "not-") {
			if at, ok := mi.X.Type().Underlying().(*types.Array); ok && at.Len() <= 64 {
				if bt, ok := at.Elem().Underlying().(*types.Basic); ok && bt.Kind() == types.Uint32 {
					var els []c29Item
					for i := int64(0); i < at.Len(); i++ {
						ev, ok := p.sval[args[2].t+"["+strconv.FormatInt(i, 10)+"]"]
						if !ok {
							els = nil
							break
						}
						els = append(els, c29Item{"u32", p.norm(p.conc(ev), at.Elem()), ci})
					}
					if els != nil {
						p.hashes[args[0].t] = append(p.hashes[args[0].t], els...)
						set(c29V{t: "nil", null: true})
						return next()
					}
				}
			}
		}
		p.hashes[args[0].t] = append(p.hashes[args[0].t], c29Item{enc, nt(2), ci})
		set(c29V{t: "nil", null: true})
		return next()
	case strings.HasSuffix(name, "igEndian).PutUint32") && len(args) == 3:
		p.putField(args[1], 4, "u32("+nt(2)+")")
		return next()
	case strings.HasSuffix(name, "igEndian).AppendUint32") && len(args) == 3:
		v := c29V{t: p.fresh("@m"), nn: true}
		if args[1].null || p.content(args[1]) == "zeros" && p.lenOf[args[1].t].num && p.lenOf[args[1].t].n == 0 {
			p.mem[v.t+"[]"] = c29V{t: "u32(" + nt(2) + ")"}
		} else {
			p.mem[v.t+"[]"] = c29V{t: "cat(" + p.content(args[1]) + ",u32(" + nt(2) + "))"}
		}
		set(v)
		return next()
	case name == "ssh.marshalInt" && len(args) == 2:
		n := nt(1)
		c := "mpint(" + n + ")"
		if l, ok := p.lenOf[args[0].t]; !ok || l.t != "ssh.intLength("+n+")" {
			c = "mpint-in-buffer-of-other-length(" + n + ")"
		}
		p.wipe(args[0].t)
		p.mem[args[0].t+"[]"] = c29V{t: c}
		set(c29V{t: p.fresh("rest")})
		return next()
	case name == "ssh.marshalString" && len(args) == 2:
		s := nt(1)
		c := "string(" + s + ")"
		l, ok := p.lenOf[args[0].t]
		ln := "len(" + s + ")"
		if !ok || (l.t != "ssh.stringLength("+ln+")" && l.t != "(4 + "+ln+")" && l.t != "("+ln+" + 4)") {
			c = "string-in-buffer-of-other-length(" + s + ")"
		}
		p.wipe(args[0].t)
		p.mem[args[0].t+"[]"] = c29V{t: c}
		set(c29V{t: p.fresh("rest")})
		return next()
	case name == "ssh.intLength" && len(args) == 1:
		set(c29V{t: "ssh.intLength(" + nt(0) + ")"})
		return next()
	case name == "ssh.stringLength" && len(args) == 1:
		if args[0].num {
			set(c29V{t: strconv.FormatInt(4+args[0].n, 10), n: 4 + args[0].n, num: true})
		} else {
			set(c29V{t: "ssh.stringLength(" + nt(0) + ")"})
		}
		return next()
	case name == "ssh.Marshal" && len(args) == 1:
		ev := c29Event{kind: "marshal", at: ci, fields: map[string]string{}}
		mt := p.atype[args[0].t]
		if mi, ok := cc.Args[0].(*ssa.MakeInterface); ok && mt == nil {
			mt = mi.X.Type()
		}
		if mt != nil {
			ev.name = typeName(mt)
			if st := derefStruct(mt); st != nil {
				_, isPtr := mt.Underlying().(*types.Pointer)
				for i := 0; i < st.NumFields(); i++ {
					fl := st.Field(i)
					var fv c29V
					if isPtr {
						fv = p.load(args[0].t+"."+fl.Name(), fl.Type())
					} else if v, ok := p.sval[args[0].t+"."+fl.Name()]; ok {
						fv = v
					} else {
						fv = c29V{t: args[0].t + "." + fl.Name()}
					}
					ev.fields[fl.Name()] = p.norm(fv, fl.Type())
				}
			}
		}
		ev.res = p.fresh("Marshal(" + ev.name + ")")
		p.events = append(p.events, ev)
		set(c29V{t: ev.res, nn: true})
		return next()
	case name == "ssh.Unmarshal" && len(args) == 2:
		tn := "?"
		if mt := p.atype[args[1].t]; mt != nil {
			tn = typeName(mt)
		} else if mi, ok := cc.Args[1].(*ssa.MakeInterface); ok {
			tn = typeName(mi.X.Type())
		}
		p.npeer[tn]++
		tg := "peer:" + tn
		if p.npeer[tn] > 1 {
			tg += "~" + strconv.Itoa(p.npeer[tn])
		}
		p.wipe(args[1].t)
		p.tag[args[1].t] = tg
		p.events = append(p.events, c29Event{kind: "unmarshal", name: tn, args: []string{nt(0)}, res: tg, at: ci})
		set(c29V{t: p.fresh("Unmarshal(" + tn + ")")})
		return next()
	}
	callee := cc.StaticCallee()
	var binds []c29V
	if callee == nil && !cc.IsInvoke() {
		// a call of a local function value: the closure it was made from
		if cl, ok := p.clos[p.val(f, cc.Value).t]; ok {
			callee, binds = cl.fn, cl.binds
		}
	} else if mc, ok := cc.Value.(*ssa.MakeClosure); ok {
		if cl, ok := p.clos[p.val(f, mc).t]; ok {
			binds = cl.binds
		}
	}
	if sx.inlinable(p, callee, name) && len(binds) == len(callee.FreeVars) {
		g := &c29Frame{fn: callee, env: map[ssa.Value]c29V{}, tup: map[ssa.Value][]c29V{}, b: callee.Blocks[0], call: ci.(*ssa.Call)}
		p.ctr++
		g.id = p.ctr
		for i, prm := range callee.Params {
			if i < len(args) {
				g.env[prm] = args[i]
			}
		}
		for i, fv := range callee.FreeVars {
			g.env[fv] = binds[i]
		}
		p.frames = append(p.frames, g)
		return nil
	}
	// opaque call
	var ts []string
	for i := range args {
		ts = append(ts, nt(i))
	}
	nm := name
	if nm == "dynamic" {
		nm = "dyn:" + p.val(f, cc.Value).t
	}
	t := p.fresh(nm + "(" + strings.Join(ts, ",") + ")")
	p.events = append(p.events, c29Event{kind: "call", name: nm, args: ts, res: t, at: ci})
	if !c29ReadOnly(name) {
		for i, a := range args {
			if c29IsBig(atyp[i]) {
				continue
			}
			b := a.t
			if s, ok := p.sub[b]; ok {
				b = s[0]
			}
			if strings.HasPrefix(b, "@") {
				p.havoc(b)
			}
		}
	}
	nonNil := name == "errors.New" || name == "fmt.Errorf"
	switch sig.Results().Len() {
	case 0:
	case 1:
		set(p.conc(c29V{t: t, nn: nonNil}))
	default:
		var tv []c29V
		for i := 0; i < sig.Results().Len(); i++ {
			tv = append(tv, p.conc(c29V{t: t + "." + strconv.Itoa(i)}))
		}
		f.tup[val] = tv
	}
	return next()
}

// wouldInline: a same-package constructor returning a hash is executed in place
// like any helper; only external constructors create a fresh hash object.
func (sx *c29SX) wouldInline(p *c29Path, cc *ssa.CallCommon, name string) bool {
	return sx.inlinable(p, cc.StaticCallee(), name)
}

func c29Balanced(s string) bool {
	d := 0
	for _, r := range s {
		switch r {
		case '(':
			d++
		case ')':
			d--
			if d < 0 {
				return false
			}
		}
	}
	return d == 0
}

// c29ReadOnly: external callees known not to write through their arguments.
func c29ReadOnly(name string) bool {
	switch name {
	case "curve25519.X25519", "crypto/elliptic.Marshal", "crypto/elliptic.Unmarshal", "fmt.Errorf", "errors.New",
		"invoke:(ssh.packetConn).writePacket", "invoke:(ssh.PublicKey).Verify", "invoke:(crypto/elliptic.Curve).ScalarMult",
		"invoke:(crypto/elliptic.Curve).IsOnCurve", "crypto/mlkem.NewEncapsulationKey768", "crypto/mlkem.NewDecapsulationKey768",
		"(*crypto/mlkem.DecapsulationKey768).Decapsulate", "invoke:(ssh.AlgorithmSigner).SignWithAlgorithm", "ssh.ParsePublicKey",
		"ssh.parseSignatureBody", "ssh.underlyingAlgo", "dynamic":
		return true
	}
	return false
}

// ---------------------------------------------------------------------------
// reading the result

// accepts: the path returns with an error result that is not known to be non-nil.
func (p *c29Path) accepts(errIdx int) bool {
	if p.end != "return" || errIdx >= len(p.ret) {
		return false
	}
	e := p.ret[errIdx]
	if e.null {
		return true
	}
	if e.nn {
		return false
	}
	if n, ok := p.dec["nil?"+e.t]; ok {
		return n != 0
	}
	return true
}

// cmp: the decided sign of a compared with b on this path (big numbers, by
// term), whichever way round the code called Cmp.
func (p *c29Path) cmp(a, b string) (int64, bool) {
	if n, ok := p.dec["Cmp("+a+","+b+")"]; ok {
		return n, true
	}
	if n, ok := p.dec["Cmp("+b+","+a+")"]; ok {
		return -n, true
	}
	return 0, false
}

func (p *c29Path) decisions() string {
	var ks []string
	for k, v := range p.dec {
		ks = append(ks, fmt.Sprintf("%s=%d", k, v))
	}
	sort.Strings(ks)
	return strings.Join(ks, "; ")
}

var c29HashSuffix = func(s string) string {
	// strip the "#n" instance numbers, for comparing terms of repeated pure calls
	var b strings.Builder
	for i := 0; i < len(s); i++ {
		if s[i] == '#' {
			j := i + 1
			for j < len(s) && s[j] >= '0' && s[j] <= '9' {
				j++
			}
			i = j - 1
			continue
		}
		b.WriteByte(s[i])
	}
	return b.String()
}

func (p *c29Path) dump() string {
	var b strings.Builder
	fmt.Fprintf(&b, "  path end=%s", p.end)
	for _, r := range p.ret {
		fmt.Fprintf(&b, " [%s nn=%v null=%v]", r.t, r.nn, r.null)
	}
	fmt.Fprintf(&b, "\n    dec: %s\n", p.decisions())
	for h, its := range p.hashes {
		fmt.Fprintf(&b, "    %s:", h)
		for _, it := range its {
			fmt.Fprintf(&b, " %s<%s>", it.enc, it.datum)
		}
		b.WriteString("\n")
	}
	for _, e := range p.events {
		fmt.Fprintf(&b, "    ev %s %s %v -> %s %v\n", e.kind, e.name, e.args, e.res, e.fields)
	}
	return b.String()
}
