package main

import (
	"fmt"
	"go/token"
	"go/types"
	"os"
	"regexp"
	"sort"
	"strings"

	"golang.org/x/tools/go/ssa"
)

// C27 rules decided with the symbolic path executor of c27_sym.go. Every rule
// states a fact about VALUES on the paths of a root function (what the exchange
// hash received, what a derived key buffer holds, what is handed to a
// constructor); helpers, local names, statement order and loop shape are not
// looked at.

type c27Item struct {
	construct string
	at        poser
	ok        bool
	detail    string
}

// c27Merge reports one obligation per construct: violated if it fails on any path.
func c27Merge(c *Ctx, rule string, perPath [][]c27Item) {
	var order []string
	first := map[string]c27Item{}
	bad := map[string]c27Item{}
	for _, items := range perPath {
		for _, it := range items {
			if _, seen := first[it.construct]; !seen {
				first[it.construct] = it
				order = append(order, it.construct)
			}
			if !it.ok {
				if _, has := bad[it.construct]; !has {
					bad[it.construct] = it
				}
			}
		}
	}
	for _, k := range order {
		if b, isBad := bad[k]; isBad {
			c.fail(rule, k, b.at, b.detail)
		} else {
			c.ok(rule, k, first[k].at, first[k].detail)
		}
	}
}

func c27Debug(p *c27Path, what string) {
	if os.Getenv("C27DEBUG") == "" {
		return
	}
	fmt.Fprintf(os.Stderr, "--- %s: end=%s why=%s cons=%v\n", what, p.end, p.why, p.consLog)
	for _, h := range p.hashes {
		fmt.Fprintf(os.Stderr, "    %s kind=%s evs=%v\n", h.name, h.kind, h.evs)
	}
	for _, s := range p.sent {
		fmt.Fprintf(os.Stderr, "    sent %s %v\n", s.typ, s.fields)
	}
	if os.Getenv("C27DEBUG") == "2" {
		for _, r := range p.calls {
			fmt.Fprintf(os.Stderr, "    call %s %v\n", r.name, r.args)
		}
	}
	for i, r := range p.results {
		fmt.Fprintf(os.Stderr, "    result[%d] = %s\n", i, c27Render(r))
	}
}

func c27Short(s string) string {
	s = c27Strip(s)
	if len(s) > 140 {
		return s[:140] + "…"
	}
	return s
}

func c27FieldCell(c *c27Cell, name string) *c27Cell {
	st, ok := c.typ.Underlying().(*types.Struct)
	if !ok {
		return nil
	}
	for i := 0; i < st.NumFields() && i < len(c.fields); i++ {
		if st.Field(i).Name() == name {
			return c.fields[i]
		}
	}
	return nil
}

// ---------------------------------------------------------------------------
// exchange hash H, shared secret K, host key signature (one kex, one side)

type c27Kex struct {
	recv    string
	initT   string
	initF   string
	replyT  string
	replyF  string
	ephKind string // encoding of the ephemeral public values: mpint | string
	kKind   string // encoding of K: mpint | string
	gex     bool
}

var c27Kexes = []c27Kex{
	{"dhGroup", "kexDHInitMsg", "X", "kexDHReplyMsg", "Y", "mpint", "mpint", false},
	{"ecdh", "kexECDHInitMsg", "ClientPubKey", "kexECDHReplyMsg", "EphemeralPubKey", "string", "mpint", false},
	{"curve25519sha256", "kexECDHInitMsg", "ClientPubKey", "kexECDHReplyMsg", "EphemeralPubKey", "string", "mpint", false},
	{"dhGEXSHA", "kexDHGexInitMsg", "X", "kexDHGexReplyMsg", "Y", "mpint", "mpint", true},
	{"mlkem768WithCurve25519sha256", "kexECDHInitMsg", "ClientPubKey", "kexECDHReplyMsg", "EphemeralPubKey", "string", "string", false},
}

// the arguments of kexAlgorithm.Client / .Server by POSITION (the interface fixes it)
var c27KexArgNames = []string{"kex", "conn", "rand", "magics", "priv", "algo"}

var c27StdHashes = map[string]string{
	"crypto/sha1.New()": "3", "crypto/sha256.New()": "5", "crypto/sha512.New384()": "6", "crypto/sha512.New()": "7",
}

func c27KexHash(c *Ctx, sp c27Kex, side string) {
	fn := c.fn("ssh", "(*"+sp.recv+")."+side)
	if fn == nil {
		return
	}
	name := sp.recv + "." + side
	rule := "C27.hash-seq"
	x := &c27Exec{c: c, opaque: map[string]bool{"ssh.underlyingAlgo": true}}
	paths, why := x.explore(fn, func(p *c27Path) []c27Val {
		var as []c27Val
		for i := range fn.Params {
			n := fmt.Sprintf("arg%d", i)
			if i < len(c27KexArgNames) {
				n = c27KexArgNames[i]
			}
			as = append(as, c27S(n))
		}
		return as
	})
	if why != "" {
		c.undecided(rule, name, fn, "symbolic execution left the model: "+why)
		return
	}
	var per [][]c27Item
	nSucc := 0
	for _, p := range paths {
		if p.end != "return" || len(p.results) != 2 || p.results[0].k != c27Ptr || p.results[0].cell == nil || p.results[0].cell.fields == nil {
			continue
		}
		nSucc++
		c27Debug(p, name)
		per = append(per, c27KexPath(c, sp, side, name, fn, p))
	}
	if nSucc == 0 {
		c.fail(rule, name, fn, fmt.Sprintf("no path returns a key-exchange result (%d paths explored)", len(paths)))
		return
	}
	// split by rule id
	byRule := map[string][][]c27Item{}
	var rules []string
	for _, items := range per {
		part := map[string][]c27Item{}
		for _, it := range items {
			r := rule
			if i := strings.Index(it.construct, "|"); i >= 0 {
				r, it.construct = it.construct[:i], it.construct[i+1:]
			}
			part[r] = append(part[r], it)
		}
		for r, its := range part {
			if _, seen := byRule[r]; !seen {
				rules = append(rules, r)
			}
			byRule[r] = append(byRule[r], its)
		}
	}
	sort.Strings(rules)
	for _, r := range rules {
		c27Merge(c, r, byRule[r])
	}
}

func c27KexPath(c *Ctx, sp c27Kex, side, name string, fn *ssa.Function, p *c27Path) []c27Item {
	var items []c27Item
	add := func(construct string, at poser, ok bool, okD, failD string) {
		d := okD
		if !ok {
			d = failD
		}
		items = append(items, c27Item{construct, at, ok, d})
	}
	res := p.results[0].cell
	fld := func(n string) string {
		if fc := c27FieldCell(res, n); fc != nil {
			return c27RenderCell(fc)
		}
		return "?"
	}
	H := fld("H")
	sum := p.sums[H]
	if sum == nil {
		add(name+" result.H", p.last, false, "", "kexResult.H is not the output of the exchange hash (it is "+c27Short(H)+")")
		return items
	}
	add(name+" result.H", sum.at, true, "kexResult.H is the digest of the exchange hash", "")

	mine, theirs := "own", "peer"
	initRole, replyRole := mine, theirs
	if side == "Server" {
		initRole, replyRole = theirs, mine
	}
	type want struct {
		kind, role, typ, fld, what string
	}
	seq := []want{
		{"string", "magics", "", "clientVersion", "V_C"},
		{"string", "magics", "", "serverVersion", "V_S"},
		{"string", "magics", "", "clientKexInit", "I_C"},
		{"string", "magics", "", "serverKexInit", "I_S"},
		{"string", replyRole, sp.replyT, "HostKey", "K_S (host key)"},
	}
	if sp.gex {
		seq = append(seq,
			want{"u32", initRole, "kexDHGexRequestMsg", "MinBits", "min"},
			want{"u32", initRole, "kexDHGexRequestMsg", "PreferredBits", "n"},
			want{"u32", initRole, "kexDHGexRequestMsg", "MaxBits", "max"},
			want{"mpint", replyRole, "kexDHGexGroupMsg", "P", "p"},
			want{"mpint", replyRole, "kexDHGexGroupMsg", "G", "g"})
	}
	seq = append(seq,
		want{sp.ephKind, initRole, sp.initT, sp.initF, "client's ephemeral public value"},
		want{sp.ephKind, replyRole, sp.replyT, sp.replyF, "server's ephemeral public value"},
		want{sp.kKind, "secret", "", "", "K (shared secret)"})
	evs := c27Canon(sum.evs)
	if len(evs) != len(seq) {
		var got []string
		for _, e := range evs {
			got = append(got, e.kind)
		}
		firstDiff := ""
		var at poser = sum.at
		for i := 0; i < len(evs) && i < len(seq); i++ {
			if evs[i].kind != seq[i].kind {
				firstDiff = fmt.Sprintf("; first difference at input #%d: %s where the specification requires %s of %s", i, c27Short(evs[i].String()), seq[i].kind, seq[i].what)
				at = evs[i].at
				break
			}
		}
		add(name+" H-inputs", at, false, "", fmt.Sprintf("exchange hash receives %d values %v; the specification lists %d%s", len(evs), got, len(seq), firstDiff))
		return items
	}
	// what each sent message field holds
	sentIs := func(typ, f, term string) (bool, []string) {
		var have []string
		for _, s := range p.sent {
			if s.typ != typ {
				continue
			}
			if v, ok := s.fields[f]; ok {
				if v == term {
					return true, nil
				}
				have = append(have, c27Short(v))
			}
		}
		return false, have
	}
	describe := func(term string) string {
		st := c27Strip(term)
		if strings.HasPrefix(st, "peer:") {
			return "received " + st[5:]
		}
		for _, s := range p.sent {
			var fs []string
			for f := range s.fields {
				fs = append(fs, f)
			}
			sort.Strings(fs)
			for _, f := range fs {
				if s.fields[f] == term {
					return "sent " + s.typ + "." + f
				}
			}
		}
		return "local value " + c27Short(term)
	}
	peerEph := "peer:" + sp.replyT + "." + sp.replyF
	if side == "Server" {
		peerEph = "peer:" + sp.initT + "." + sp.initF
	}
	for i, w := range seq {
		e := evs[i]
		pos := fmt.Sprintf("%s H-input #%d (%s)", name, i, w.what)
		if e.kind != w.kind {
			d := fmt.Sprintf("encoded as %s, specification requires %s", e.kind, w.kind)
			if w.role == "secret" {
				how := map[string]string{"mpint": "marshalInt into a buffer of intLength(K) bytes", "string": "marshalString into a buffer of 4+len(K) bytes"}[w.kind]
				d = fmt.Sprintf("K is hashed as %s(%s); the specification requires the %s encoding of the shared secret (%s)", e.kind, c27Short(e.arg), w.kind, how)
			}
			add(pos, e.at, false, "", d)
			continue
		}
		switch w.role {
		case "magics":
			add(pos, e.at, e.arg == "magics."+w.fld, "magics."+w.fld+" of the handshake magics passed to this exchange",
				"hashes "+c27Short(e.arg)+"; the specification requires "+w.what+" (magics."+w.fld+") here")
		case "peer":
			add(pos, e.at, c27Strip(e.arg) == "peer:"+w.typ+"."+w.fld, "is the received "+w.typ+"."+w.fld,
				fmt.Sprintf("hashes %s; the specification requires peer %s.%s here", describe(e.arg), w.typ, w.fld))
		case "own":
			ok, _ := sentIs(w.typ, w.fld, e.arg)
			add(pos, e.at, ok, "is the sent "+w.typ+"."+w.fld,
				fmt.Sprintf("hashes %s; the specification requires own %s.%s here", describe(e.arg), w.typ, w.fld))
		case "secret":
			dep := strings.Contains(e.arg, peerEph)
			add(pos, e.at, dep, "encoded as "+w.kind+" of a secret computed from the peer's ephemeral value",
				fmt.Sprintf("K is encoded as %s of %s / depends on the peer's ephemeral value: %v", e.kind, c27Short(e.arg), dep))
			k := fld("K")
			add(name+" result.K", e.at, k == e.String(), "kexResult.K is the encoded K that was hashed",
				"kexResult.K is "+c27Short(k)+", the exchange hash received "+c27Short(e.String())+" (key derivation would use a different K)")
		}
	}
	// the key-derivation hash is the hash of the exchange
	hk := c27Strip(sum.kind)
	rh := c27Strip(fld("Hash"))
	okHash := hk == "(crypto.Hash).New("+rh+")" || c27StdHashes[hk] == rh
	add(name+" result.Hash", sum.at, okHash, "kexResult.Hash is the hash function of the exchange hash ("+rh+")",
		"kexResult.Hash is "+c27Short(rh)+" but the exchange hash is "+c27Short(hk)+" (RFC 4253 section 7.2: key derivation uses the hash of the key exchange)")
	// decoded messages are used as received
	seenT := map[string]bool{}
	for _, r := range p.calls {
		if r.name != "ssh.Unmarshal" || len(r.vals) < 2 || r.vals[1].k != c27Ptr || r.vals[1].cell == nil {
			continue
		}
		tn := typeName(r.vals[1].cell.typ)
		if seenT[tn] {
			continue
		}
		seenT[tn] = true
		var mut ssa.Instruction
		for _, m := range p.peerMut {
			mut = m
		}
		con := "C27.hash-seq.received-immutable|" + name + " " + tn
		if mut != nil {
			add(con, mut, false, "", "a field of a received message is overwritten after decoding; the values hashed/validated are no longer the values the peer sent")
		} else {
			add(con, r.at, true, "decoded message is never modified", "")
		}
	}
	// host key signature (server): the reply carries Marshal(priv.SignWithAlgorithm(rand, H, underlyingAlgo(algo)))
	// (signAndMarshal is interpreted in place like any other helper)
	if side == "Server" {
		con := "C27.hostkey-sig|" + sp.recv + ".Server signs H"
		var rec *c27CallRec
		for i := range p.calls {
			if strings.HasSuffix(p.calls[i].name, ").SignWithAlgorithm") || strings.HasSuffix(p.calls[i].name, ").Sign") {
				rec = &p.calls[i]
			}
		}
		switch {
		case rec == nil || len(rec.args) < 3:
			add(con, p.last, false, "", "the server does not sign the exchange hash with the host key and negotiated algorithm (no signature is made on the path)")
		default:
			algo := ""
			if len(rec.args) == 4 {
				algo = c27Strip(rec.args[3])
			}
			okArgs := rec.args[0] == "priv" && rec.args[2] == H && algo == "ssh.underlyingAlgo(algo)"
			okSent := false
			var have []string
			for i := range p.calls {
				if m := &p.calls[i]; m.name == "ssh.Marshal" && len(m.args) == 1 && m.args[0] == rec.term+"#0" {
					okSent, have = sentIs(sp.replyT, "Signature", m.term)
				}
			}
			var devs []string
			if rec.args[0] != "priv" {
				devs = append(devs, "the signing key is "+c27Short(rec.args[0])+", not the host key passed to Server")
			}
			if rec.args[2] != H {
				devs = append(devs, "the signed data is "+c27Short(rec.args[2])+", not the exchange hash H")
			}
			if algo != "ssh.underlyingAlgo(algo)" {
				devs = append(devs, "the signature algorithm is "+c27Short(algo)+", not underlyingAlgo(negotiated algorithm)")
			}
			what := strings.Join(devs, "; ")
			if okArgs && !okSent {
				what = fmt.Sprintf("the marshalled signature of H is not what %s.Signature carries (%v)", sp.replyT, have)
			}
			add(con, rec.at, okArgs && okSent, "priv.SignWithAlgorithm(rand, H, underlyingAlgo(algo)) with H = the exchange hash, marshalled and sent as "+sp.replyT+".Signature",
				"the server does not sign the exchange hash with the host key and negotiated algorithm: "+what)
		}
	}
	return items
}

// ---------------------------------------------------------------------------
// signAndMarshal

func c27SignAndMarshal(c *Ctx) {
	f := c.fn("ssh", "signAndMarshal")
	if f == nil {
		return
	}
	rule, con := "C27.hostkey-sig", "signAndMarshal"
	names := []string{"k", "rand", "data", "algo"}
	x := &c27Exec{c: c, inlineAll: true, opaque: map[string]bool{"ssh.underlyingAlgo": true}}
	paths, why := x.explore(f, func(p *c27Path) []c27Val {
		var as []c27Val
		for i := range f.Params {
			n := fmt.Sprintf("arg%d", i)
			if i < len(names) {
				n = names[i]
			}
			as = append(as, c27S(n))
		}
		return as
	})
	if why != "" {
		c.undecided(rule, con, f, "symbolic execution left the model: "+why)
		return
	}
	n, bad := 0, ""
	for _, p := range paths {
		if p.end != "return" || len(p.results) != 2 || !p.isNil(p.results[1]) {
			continue
		}
		n++
		c27Debug(p, con)
		var sign *c27CallRec
		for i := range p.calls {
			if strings.HasSuffix(p.calls[i].name, ").SignWithAlgorithm") {
				sign = &p.calls[i]
			}
		}
		if sign == nil || len(sign.args) != 4 {
			bad = "no SignWithAlgorithm call on the success path"
			continue
		}
		if sign.args[0] != "k" || sign.args[2] != "data" || c27Strip(sign.args[3]) != "ssh.underlyingAlgo(algo)" {
			bad = fmt.Sprintf("signs %s with key %s and algorithm %s", c27Short(sign.args[2]), sign.args[0], c27Short(sign.args[3]))
			continue
		}
		if got := c27Strip(c27Render(p.results[0])); got != "ssh.Marshal("+c27Strip(sign.term)+"#0)" {
			bad = "returns " + c27Short(got) + " instead of the marshalled signature"
		}
	}
	if n == 0 {
		bad = "no success path"
	}
	c.check(bad == "", rule, con, f, "signs the data with underlyingAlgo(negotiated host key algorithm) and returns the marshalled signature",
		"the host key signature is not made with underlyingAlgo(algo) over the given data: "+bad)
}

// ---------------------------------------------------------------------------
// generateKeyMaterial

func c27KeyMaterial(c *Ctx) {
	f := c.fn("ssh", "generateKeyMaterial")
	if f == nil {
		return
	}
	rule := "C27.key-material"
	if len(f.Params) != 3 {
		c.fail(rule, "generateKeyMaterial", f, "signature changed: expected (out, tag []byte, r *kexResult)")
		return
	}
	type tc struct{ D, L int64 }
	var cases []tc
	for _, D := range []int64{20, 64} {
		for _, L := range []int64{0, 1, D - 1, D, D + 1, 2 * D, 2*D + 3, 3 * D, 3*D + 1, 4*D + 7} {
			cases = append(cases, tc{D, L})
		}
	}
	kdf := "(crypto.Hash).New(r.Hash)"
	block := func(prev []string) string {
		ins := []string{"raw(r.K)", "raw(r.H)"}
		if len(prev) == 0 {
			ins = append(ins, "raw(tag)", "raw(r.SessionID)")
		} else {
			for _, d := range prev {
				ins = append(ins, "raw("+d+")")
			}
		}
		return "sum(" + kdf + ";" + strings.Join(ins, ",") + ")"
	}
	var first, order, acc, fill string
	for _, t := range cases {
		x := &c27Exec{c: c, inlineAll: true, sumLen: t.D}
		var out *c27Buf
		paths, why := x.explore(f, func(p *c27Path) []c27Val {
			out = &c27Buf{name: "out", length: c27I(t.L)}
			lo, hi := c27I(0), c27I(t.L)
			return []c27Val{{k: c27Slice, buf: out, lo: &lo, hi: &hi}, c27S("tag"), c27S("r")}
		})
		if why != "" || len(paths) != 1 || paths[0].end != "return" {
			if why == "" && len(paths) > 0 {
				why = fmt.Sprintf("%d paths, first ends with %s", len(paths), paths[0].end)
			}
			c.undecided(rule, "generateKeyMaterial", f, fmt.Sprintf("digest %d bytes, %d bytes requested: %s", t.D, t.L, why))
			return
		}
		c27Debug(paths[0], fmt.Sprintf("generateKeyMaterial D=%d L=%d", t.D, t.L))
		// specification: out = first L bytes of K1 || K2 || ...
		type piece struct {
			term string
			n    int64
		}
		var digests []string
		var want []piece
		for off := int64(0); off < t.L; off += t.D {
			d := block(digests)
			want = append(want, piece{d, min(t.D, t.L-off)})
			digests = append(digests, d)
		}
		// what out holds: the write log read as one byte stream (a digest term is D bytes long)
		where := fmt.Sprintf("digest %d bytes, %d bytes requested", t.D, t.L)
		var got []piece
		pos := int64(0)
		okLog := true
		for _, w := range out.log {
			if w.off.k != c27Int || w.n.k != c27Int || w.off.n != pos {
				okLog = false
				if fill == "" {
					fill = fmt.Sprintf("%s: a block is copied to out[%s:] after %d bytes were filled", where, c27Render(w.off), pos)
				}
				break
			}
			parts, ok := c27StreamParts(c27Strip(w.src))
			if !ok {
				okLog = false
				if fill == "" {
					fill = fmt.Sprintf("%s: out receives %s, which is not a sequence of digests", where, c27Short(w.src))
				}
				break
			}
			rem := w.n.n
			for _, part := range parts {
				if rem <= 0 {
					break
				}
				got = append(got, piece{part, min(t.D, rem)})
				rem -= min(t.D, rem)
			}
			if rem > 0 {
				okLog = false
				if fill == "" {
					fill = fmt.Sprintf("%s: %d bytes are copied from a source of %d digests", where, w.n.n, len(parts))
				}
				break
			}
			pos += w.n.n
		}
		if !okLog {
			continue
		}
		if pos != t.L || len(got) != len(want) {
			if fill == "" {
				fill = fmt.Sprintf("%s: %d bytes in %d blocks are written to out, %d blocks are needed", where, pos, len(got), len(want))
			}
			continue
		}
		for i := range got {
			g, w := got[i], want[i]
			if g.n != w.n {
				if fill == "" {
					fill = fmt.Sprintf("%s: %d bytes of block %d are used, expected %d", where, g.n, i+1, w.n)
				}
				continue
			}
			if g.term == w.term {
				continue
			}
			// name the difference
			gi, wi := c27SumInputs(g.term), c27SumInputs(w.term)
			if strings.Join(gi, ",") == strings.Join(wi, ",") {
				continue // differs only through an earlier block, which is reported
			}
			msg := fmt.Sprintf("%s: K%d = HASH(%s), RFC 4253 section 7.2 requires HASH(%s)", where, i+1, strings.Join(gi, " || "), strings.Join(wi, " || "))
			switch {
			case i == 0 && c27SameSet(gi, wi):
				if order == "" {
					order = msg
				}
			case i == 0:
				if first == "" {
					first = msg
				}
			default:
				if len(gi) >= 2 && len(wi) >= 2 && strings.Join(gi[:2], ",") == strings.Join(wi[:2], ",") {
					if acc == "" {
						acc = msg
					}
				} else if order == "" {
					order = msg
				}
			}
		}
	}
	c.check(order == "", rule, "generateKeyMaterial order", f, "K1 = HASH(K || H || X || session_id), Kn = HASH(K || H || K1 || … || K(n-1)) for every output length tried", "the order of the key-derivation hash inputs differs from RFC 4253 section 7.2: "+order)
	c.check(first == "", rule, "generateKeyMaterial first block", f, "tag and session id only in the first block, previous digests afterwards", "the first-block / later-block distinction of RFC 4253 section 7.2 is altered: "+first)
	c.check(acc == "", rule, "generateKeyMaterial accumulation", f, "each digest is appended to the running K1||K2||… input", "digests are not accumulated for the following blocks: "+acc)
	c.check(fill == "", rule, "generateKeyMaterial output", f, fmt.Sprintf("out receives the first len(out) bytes of K1||K2||… (%d length/digest-size cases)", len(cases)), "the derived blocks do not fill out as specified: "+fill)
}

// c27StreamParts splits the source of a copy, "a||b", "(a||b)[:n]" or "a[:n]",
// into its digest terms (ok only if every part is a hash sum).
func c27StreamParts(src string) ([]string, bool) {
	body := src
	if i := strings.LastIndex(src, "[:"); i >= 0 && strings.HasSuffix(src, "]") && !strings.ContainsAny(src[i+2:len(src)-1], "()[],;|") {
		body = src[:i]
	}
	if strings.HasPrefix(body, "(") && c27Balanced(body) {
		body = body[1 : len(body)-1]
	}
	parts := c27SplitCat(body)
	for _, part := range parts {
		if !strings.HasPrefix(part, "sum(") || !c27Balanced(part[3:]) {
			return nil, false
		}
	}
	return parts, true
}

// c27SumInputs: the inputs of a "sum(kind;raw(a),raw(b))[:n]" term, as "a", "b".
func c27SumInputs(s string) []string {
	i := strings.Index(s, ";")
	j := strings.LastIndex(s, ")")
	if !strings.HasPrefix(s, "sum(") || i < 0 || j < i {
		return []string{s}
	}
	var out []string
	d, start := 0, i+1
	body := s[:j]
	for k := i + 1; k <= len(body); k++ {
		if k == len(body) || (body[k] == ',' && d == 0) {
			part := body[start:k]
			part = strings.TrimSuffix(strings.TrimPrefix(part, "raw("), ")")
			if strings.HasPrefix(part, "sum(") {
				part = "K"
			}
			if len(part) > 60 {
				part = strings.ReplaceAll(part[:60], "sum(", "HASH(") + "…"
			}
			if part != "" {
				out = append(out, part)
			}
			start = k + 1
			continue
		}
		switch body[k] {
		case '(', '[', '{':
			d++
		case ')', ']', '}':
			d--
		}
	}
	return out
}

func c27SameSet(a, b []string) bool {
	if len(a) != len(b) {
		return false
	}
	x := append([]string(nil), a...)
	y := append([]string(nil), b...)
	sort.Strings(x)
	sort.Strings(y)
	return strings.Join(x, "\x00") == strings.Join(y, "\x00")
}

// ---------------------------------------------------------------------------
// newPacketCipher: which tag and which size every derived buffer gets, and
// which buffer goes to which constructor argument

func c27PacketCipher(c *Ctx) {
	f := c.fn("ssh", "newPacketCipher")
	if f == nil {
		return
	}
	rule := "C27.cipher-keys"
	if len(f.Params) != 3 {
		c.fail(rule, "newPacketCipher", f, "signature changed: expected (d direction, algs DirectionAlgorithms, kex *kexResult)")
		return
	}
	x := &c27Exec{c: c, inlineAll: true, model: func(p *c27Path, name string, call ssa.CallInstruction, args []c27Val) (c27Val, bool) {
		if name != "ssh.generateKeyMaterial" || len(args) != 3 {
			return c27Val{}, false
		}
		term := "kdf(" + c27Render(args[1]) + "," + c27Render(args[2]) + ")"
		p.record(name, args, call, term)
		if out := args[0]; out.k == c27Slice && out.buf != nil {
			whole := out.lo.k == c27Int && out.lo.n == 0 && c27Render(*out.hi) == c27Render(out.buf.length)
			if whole {
				out.buf.log = nil
			}
			out.buf.log = append(out.buf.log, c27Write{off: *out.lo, n: c27Len(out), src: term, whole: whole})
		} else if out.k != c27Nil {
			p.abort("generateKeyMaterial into %s", c27Render(out))
		}
		return c27Val{k: c27Tuple}, true
	}}
	paths, why := x.explore(f, func(p *c27Path) []c27Val {
		return []c27Val{c27S("d"), c27S("algs"), c27S("kex")}
	})
	if why != "" {
		c.undecided(rule, "newPacketCipher", f, "symbolic execution left the model: "+why)
		return
	}
	type arg struct{ what, tag, size string }
	wantArgs := []arg{
		{"key", "d.keyTag", "cipherModes[algs.Cipher].keySize"},
		{"iv", "d.ivTag", "cipherModes[algs.Cipher].ivSize"},
		{"macKey", "d.macKeyTag", "macModes[algs.MAC].keySize"},
	}
	var per [][]c27Item
	nAEAD, nMAC := 0, 0
	for _, p := range paths {
		if p.end != "return" {
			continue
		}
		var create *c27CallRec
		for i := range p.calls {
			if c27Strip(p.calls[i].name) == "dyn:cipherModes[algs.Cipher].create" {
				create = &p.calls[i]
			}
		}
		if create == nil {
			continue
		}
		c27Debug(p, "newPacketCipher")
		aead, known := p.holds("aeadCiphers[algs.Cipher]")
		if !known {
			aead, known = p.holds("has(aeadCiphers[algs.Cipher])")
		}
		var items []c27Item
		if !known || len(create.vals) != 4 {
			items = append(items, c27Item{"newPacketCipher create(key, iv, macKey)", create.at, false, "the constructor is called without consulting aeadCiphers[algs.Cipher], or with an unexpected argument list"})
			per = append(per, items)
			continue
		}
		if aead {
			nAEAD++
		} else {
			nMAC++
		}
		var tags []string
		for i, w := range wantArgs {
			v := create.vals[i]
			con := "newPacketCipher " + strings.TrimPrefix(w.tag, "d.") + " uses this exchange"
			if i == 2 && aead {
				items = append(items, c27Item{"newPacketCipher AEAD has no MAC key", create.at, v.k == c27Nil, map[bool]string{true: "no MAC key is derived for an AEAD cipher", false: "an AEAD cipher receives MAC key " + c27Short(c27Render(v))}[v.k == c27Nil]})
				continue
			}
			if v.k != c27Slice || v.buf == nil || len(v.buf.log) != 1 || !v.buf.log[0].whole || !strings.HasPrefix(v.buf.log[0].src, "kdf(") {
				items = append(items, c27Item{con, create.at, false, "constructor argument " + w.what + " is not a buffer filled by generateKeyMaterial: " + c27Short(c27Render(v))})
				tags = append(tags, "?")
				continue
			}
			src := v.buf.log[0].src
			parts := strings.SplitN(strings.TrimSuffix(strings.TrimPrefix(src, "kdf("), ")"), ",", 2)
			tag, from := parts[0], ""
			if len(parts) == 2 {
				from = parts[1]
			}
			tags = append(tags, strings.TrimPrefix(tag, "d."))
			items = append(items, c27Item{con, create.at, from == "kex", map[bool]string{true: "derived from the exchange result passed in", false: "key material is not derived from the kex result of this exchange (it is derived from " + from + ")"}[from == "kex"]})
			size := c27Render(v.buf.length)
			okPair := tag == w.tag && size == w.size
			items = append(items, c27Item{"newPacketCipher tag/size pairing (" + w.what + ")", create.at, okPair,
				map[bool]string{true: w.what + ": " + w.tag + " / " + w.size, false: fmt.Sprintf("tag/size pairing: constructor argument %s is derived with tag %s and size %s; expected %s and %s", w.what, tag, size, w.tag, w.size)}[okPair]})
		}
		okOrder := len(tags) >= 2 && tags[0] == "keyTag" && tags[1] == "ivTag" && (aead || (len(tags) == 3 && tags[2] == "macKeyTag"))
		items = append(items, c27Item{"newPacketCipher create(key, iv, macKey)", create.at, okOrder,
			map[bool]string{true: "constructor receives (key, iv, macKey)", false: fmt.Sprintf("constructor receives material derived with %v", tags)}[okOrder]})
		per = append(per, items)
	}
	if nAEAD == 0 || nMAC == 0 {
		c.fail(rule, "newPacketCipher", f, fmt.Sprintf("the constructor cipherModes[algs.Cipher].create is not reached both with and without a MAC (AEAD paths %d, MAC paths %d of %d)", nAEAD, nMAC, len(paths)))
		return
	}
	c27Merge(c, rule, per)
}

// ---------------------------------------------------------------------------
// newTransport: direction tables by role

func c27TransportDirs(c *Ctx) {
	f := c.fn("ssh", "newTransport")
	if f == nil {
		return
	}
	rule, con := "C27.direction-tags", "newTransport reader/writer directions"
	idx := -1
	for i, p := range f.Params {
		if b, ok := p.Type().Underlying().(*types.Basic); ok && b.Kind() == types.Bool {
			idx = i
		}
	}
	if idx < 0 {
		c.fail(rule, con, f, "newTransport has no boolean role parameter")
		return
	}
	bad := ""
	for _, ic := range []int64{0, 1} {
		x := &c27Exec{c: c, inlineAll: true}
		paths, why := x.explore(f, func(p *c27Path) []c27Val {
			var as []c27Val
			for i := range f.Params {
				if i == idx {
					as = append(as, c27I(ic))
				} else {
					as = append(as, c27S(fmt.Sprintf("arg%d", i)))
				}
			}
			return as
		})
		if why != "" {
			c.undecided(rule, con, f, "symbolic execution left the model: "+why)
			return
		}
		n := 0
		for _, p := range paths {
			if p.end != "return" || len(p.results) != 1 || p.results[0].k != c27Ptr || p.results[0].cell == nil {
				continue
			}
			n++
			c27Debug(p, con)
			t := p.results[0].cell
			for _, which := range []string{"reader", "writer"} {
				want := "clientKeys"
				if (which == "reader") == (ic == 1) {
					want = "serverKeys"
				}
				cs := c27FieldCell(t, which)
				var dir *c27Cell
				if cs != nil {
					dir = c27FieldCell(cs, "dir")
				}
				if dir == nil {
					bad = "transport." + which + ".dir not found"
					continue
				}
				got := c27RenderCell(dir)
				exp := c27RenderCell(c27SymCell(p, dir.typ, want))
				if got != exp {
					bad = fmt.Sprintf("isClient=%d: %s.dir = %s, expected %s", ic, which, c27Short(got), want)
				}
			}
		}
		if n == 0 {
			bad = fmt.Sprintf("isClient=%d: no path returns a transport", ic)
		}
	}
	c.check(bad == "", rule, con, f, "client reads with serverKeys and writes with clientKeys; server the opposite", bad)
}

func c27SymCell(p *c27Path, t types.Type, tag string) *c27Cell {
	c := p.newCell(t, "spec")
	p.assignSym(c, tag)
	return c
}

// ---------------------------------------------------------------------------
// session identifier

func c27SessionIDSym(c *Ctx) {
	f := c.fn("ssh", "(*handshakeTransport).enterKeyExchange")
	if f == nil {
		return
	}
	rule := "C27.session-id"
	x := &c27Exec{c: c, maxPath: 20000}
	if os.Getenv("C27DEBUG") != "" {
		c27Trace = map[string]int{}
	}
	paths, why := x.explore(f, func(p *c27Path) []c27Val {
		return []c27Val{c27S("t"), c27S("otherInitPacket")}
	})
	if c27Trace != nil {
		fmt.Fprintf(os.Stderr, "enterKeyExchange: %d paths, helpers: %v\n", len(paths), c27Trace)
		c27Trace = nil
	}
	if why != "" {
		c.undecided(rule, "enterKeyExchange", f, "symbolic execution left the model: "+why)
		return
	}
	nKD, nDone := 0, 0
	badUse, badSet := "", ""
	var atUse, atSet poser = f, f
	for _, p := range paths {
		var kd *c27CallRec
		for i := range p.calls {
			if strings.HasSuffix(p.calls[i].name, ").prepareKeyChange") {
				kd = &p.calls[i]
			}
		}
		if kd == nil || len(kd.args) != 3 {
			continue
		}
		nKD++
		res := kd.args[2]
		firstNil, k1 := p.holds("(nil==t.sessionID)")
		firstLen, k2 := p.holds("(0==len(t.sessionID))")
		first := (k1 && firstNil) || (k2 && firstLen)
		known := k1 || k2
		sid, has := kd.mem[res+".SessionID"]
		switch {
		case !has:
			badUse, atUse = "kexResult.SessionID is not set before the keys are derived", kd.at
		case first && sid != res+".H":
			badUse, atUse = "first exchange: kexResult.SessionID is "+c27Short(sid)+", not the exchange hash H", kd.at
		case !first && sid != "t.sessionID":
			if sid == res+".H" {
				sid = "the exchange hash H of the CURRENT exchange"
			}
			badUse, atUse = "kexResult.SessionID is "+c27Short(sid)+" on a re-key (session identifier already set"+map[bool]string{true: "", false: " or not tested"}[known]+"): not the handshake's stored session identifier, re-key would derive keys from the new H", kd.at
		}
		if p.end != "return" || len(p.results) != 1 || !p.isNil(p.results[0]) {
			continue
		}
		nDone++
		c27Debug(p, "enterKeyExchange")
		cur, stored := p.mem["t.sessionID"]
		switch {
		case first && !stored:
			badSet, atSet = "the first exchange does not record its exchange hash H as the session identifier", p.last
		case first && c27Render(cur) != res+".H":
			badSet, atSet = "after the first exchange the session identifier is "+c27Short(c27Render(cur))+", not its exchange hash H", p.last
		case !first && stored && c27Render(cur) != "t.sessionID":
			now := c27Short(c27Render(cur))
			if c27Render(cur) == res+".H" {
				now = "the exchange hash H of that later exchange"
			}
			badSet, atSet = "the session identifier is replaced by "+now+" on a later key exchange", p.last
		}
	}
	if nKD == 0 || nDone == 0 {
		c.fail(rule, "enterKeyExchange", f, fmt.Sprintf("no path reaches prepareKeyChange and completes (%d paths, %d with key derivation, %d complete)", len(paths), nKD, nDone))
		return
	}
	c.check(badUse == "", rule, "enterKeyExchange result.SessionID", atUse, fmt.Sprintf("key derivation uses the connection's session identifier (%d paths)", nKD), "kexResult.SessionID is not the handshake's stored session identifier: "+badUse)
	c.check(badSet == "", rule, "enterKeyExchange sessionID assignment", atSet, fmt.Sprintf("session identifier = H of the first exchange, never replaced (%d complete paths)", nDone), "the session identifier can be replaced after the first key exchange or is not the first exchange hash: "+badSet)
}

// ---------------------------------------------------------------------------
// direction tag tables (package-level initialisers, read from the init SSA)

// c27InitBytes evaluates a []byte value built in the package initialiser:
// a slice of a fresh array filled with constants, or a converted string constant.
func c27InitBytes(v ssa.Value) (string, bool) {
	switch x := v.(type) {
	case *ssa.Convert:
		if s, ok := constString(x.X); ok {
			return s, true
		}
	case *ssa.Slice:
		al, ok := x.X.(*ssa.Alloc)
		if !ok || x.Low != nil || x.High != nil {
			return "", false
		}
		arr, ok := al.Type().Underlying().(*types.Pointer).Elem().Underlying().(*types.Array)
		if !ok {
			return "", false
		}
		b := make([]byte, arr.Len())
		for _, r := range *al.Referrers() {
			ia, ok := r.(*ssa.IndexAddr)
			if !ok {
				continue
			}
			k, ok := constInt(ia.Index)
			if !ok || k < 0 || k >= arr.Len() {
				return "", false
			}
			for _, rr := range *ia.Referrers() {
				if st, ok := rr.(*ssa.Store); ok && st.Addr == ssa.Value(ia) {
					n, ok := constInt(st.Val)
					if !ok {
						return "", false
					}
					b[k] = byte(n)
				}
			}
		}
		return string(b), true
	}
	return "", false
}

func c27DirectionTables(c *Ctx) {
	rule := "C27.direction-tags"
	sp := c.ssaPkg("ssh")
	if sp == nil {
		return
	}
	want := map[string]map[string]string{
		"clientKeys": {"ivTag": "A", "keyTag": "C", "macKeyTag": "E"},
		"serverKeys": {"ivTag": "B", "keyTag": "D", "macKeyTag": "F"},
	}
	got := map[string]map[string]string{"clientKeys": {}, "serverKeys": {}}
	at := map[string]ssa.Instruction{}
	nStores := map[string]int{}
	for _, mem := range sp.Members {
		fn, ok := mem.(*ssa.Function)
		if !ok || !strings.HasPrefix(fn.Name(), "init") {
			continue
		}
		allInstrs(fn, func(in ssa.Instruction) {
			st, ok := in.(*ssa.Store)
			if !ok {
				return
			}
			if g, ok := st.Addr.(*ssa.Global); ok && want[g.Name()] != nil {
				at[g.Name()] = st
				// whole-value store of a composite literal built in a temporary
				if u, ok := st.Val.(*ssa.UnOp); ok && u.Op == token.MUL {
					if al, ok := u.X.(*ssa.Alloc); ok {
						for fld, v := range litFields(al) {
							nStores[g.Name()]++
							if s, ok := c27InitBytes(v); ok {
								got[g.Name()][fld] = s
							} else {
								got[g.Name()][fld] = "?"
							}
						}
						return
					}
				}
				nStores[g.Name()] += 100 // not a literal the rule can read
				return
			}
			fa, ok := st.Addr.(*ssa.FieldAddr)
			if !ok {
				return
			}
			g, ok := fa.X.(*ssa.Global)
			if !ok || want[g.Name()] == nil {
				return
			}
			nStores[g.Name()]++
			at[g.Name()] = st
			if s, ok := c27InitBytes(st.Val); ok {
				got[g.Name()][fieldName(g.Type(), fa.Field)] = s
			} else {
				got[g.Name()][fieldName(g.Type(), fa.Field)] = "?"
			}
		})
	}
	found := 0
	for _, n := range []string{"clientKeys", "serverKeys"} {
		w, g := want[n], got[n]
		if nStores[n] == 0 {
			continue
		}
		found++
		okD := nStores[n] == 3 && g["ivTag"] == w["ivTag"] && g["keyTag"] == w["keyTag"] && g["macKeyTag"] == w["macKeyTag"]
		var p poser
		if at[n] != nil {
			p = at[n]
		}
		c.check(okD, rule, n, p, fmt.Sprintf("iv=%s key=%s mac=%s", w["ivTag"], w["keyTag"], w["macKeyTag"]),
			fmt.Sprintf("tags are iv=%q key=%q mac=%q, RFC 4253 section 7.2 requires [%s %s %s]", g["ivTag"], g["keyTag"], g["macKeyTag"], w["ivTag"], w["keyTag"], w["macKeyTag"]))
	}
	c.check(found == 2, rule, "clientKeys/serverKeys", nil, "both direction tables found", "direction tag tables not found")
	if nt := c.namedType("ssh", "direction"); nt != nil {
		st := derefStruct(nt)
		names := map[string]bool{}
		if st != nil {
			for i := 0; i < st.NumFields(); i++ {
				names[st.Field(i).Name()] = true
			}
		}
		okF := st != nil && st.NumFields() == 3 && names["ivTag"] && names["keyTag"] && names["macKeyTag"]
		c.check(okF, rule, "direction fields", nil, "ivTag, keyTag, macKeyTag (bound by name through the initialiser's SSA, so their order is immaterial)", "type direction no longer has exactly the fields ivTag, keyTag, macKeyTag")
	}
}

// ---------------------------------------------------------------------------
// package-level tables: evaluate the init functions that fill a map

type c27MapEntry struct {
	key string
	val c27Val
	at  poser
}

// c27InitMap interprets every declared init function of package ssh that
// refers to the package-level map `global` and returns, for the path that
// registers the most names, the value assigned to each constant key — however
// the value was built (literal, constructor helper, copy of another entry).
// bad lists entries that differ between paths. ok is false when no init function
// assigns to the map with constant keys or the interpretation left the model.
func c27InitMap(c *Ctx, global string) (entries []c27MapEntry, ok bool, why string) {
	sp := c.ssaPkg("ssh")
	if sp == nil {
		return nil, false, "package not loaded"
	}
	var names []string
	for n, mem := range sp.Members {
		if fn, isFn := mem.(*ssa.Function); isFn && strings.HasPrefix(n, "init#") && len(fn.Blocks) > 0 {
			names = append(names, n)
		}
	}
	sort.Strings(names)
	prefix := global + "["
	best := map[string]c27MapEntry{}
	for _, n := range names {
		fn := sp.Members[n].(*ssa.Function)
		uses := false
		deepInstrs(fn, func(in ssa.Instruction) {
			for _, op := range in.Operands(nil) {
				if g, isG := (*op).(*ssa.Global); isG && g.Name() == global && g.Pkg == sp {
					uses = true
				}
			}
		})
		if !uses {
			continue
		}
		x := &c27Exec{c: c, inlineAll: true, maxPath: 400}
		paths, w := x.explore(fn, func(p *c27Path) []c27Val { return nil })
		if w != "" {
			return nil, false, fnName(fn) + ": " + w
		}
		var fullest map[string]c27MapEntry
		for _, p := range paths {
			if p.end != "return" {
				continue
			}
			cur := map[string]c27MapEntry{}
			for k, v := range p.mem {
				if !strings.HasPrefix(k, prefix+`"`) || !strings.HasSuffix(k, `"]`) {
					continue
				}
				key := k[len(prefix)+1 : len(k)-2]
				var at poser = fn
				if in := p.memAt[k]; in != nil {
					at = in
				}
				cur[key] = c27MapEntry{key, v, at}
			}
			if len(cur) > len(fullest) {
				fullest = cur
			}
		}
		for k, e := range fullest {
			best[k] = e
		}
	}
	if len(best) == 0 {
		return nil, false, "no init function assigns constant keys of " + global
	}
	var keys []string
	for k := range best {
		keys = append(keys, k)
	}
	sort.Strings(keys)
	for _, k := range keys {
		entries = append(entries, best[k])
	}
	return entries, true, ""
}

var c27HexArg = regexp.MustCompile(`\.SetString\([^"]*"([0-9A-Fa-f]+)",16\)`)

// c27KexEntry describes a kexAlgoMap value: implementation type, exchange hash
// (crypto.Hash constant name) and the curve constructor / Oakley group of its prime.
func c27KexEntry(v c27Val, hashName func(int64) string) (tn, hs, extra string) {
	var cell *c27Cell
	switch {
	case v.k == c27Ptr && v.cell != nil:
		cell = v.cell
	case v.k == c27Agg:
		cell = v.cell
	default:
		return "?", "", ""
	}
	tn = typeName(cell.typ)
	if fc := c27FieldCell(cell, "hashFunc"); fc != nil {
		if fc.val.k == c27Int {
			hs = hashName(fc.val.n)
		} else {
			hs = c27Short(c27Render(fc.val))
		}
	}
	if fc := c27FieldCell(cell, "curve"); fc != nil {
		extra = strings.TrimSuffix(c27Strip(c27Render(fc.val)), "()")
	}
	if fc := c27FieldCell(cell, "p"); fc != nil {
		t := c27Strip(c27Render(fc.val))
		if m := c27HexArg.FindStringSubmatch(t); m != nil && strings.HasSuffix(t, "#0") {
			switch len(m[1]) {
			case 256:
				extra = "oakleyGroup2"
			case 512:
				extra = "oakleyGroup14"
			case 1024:
				extra = "oakleyGroup16"
			default:
				extra = fmt.Sprintf("hex[%d]", len(m[1]))
			}
		} else {
			extra = "?"
		}
	}
	return
}

var _ = token.ADD
