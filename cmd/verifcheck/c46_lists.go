package main

import (
	"go/types"

	"golang.org/x/tools/go/ssa"
)

// Lists of byte strings ([][]byte, []string) for the C46 machine: enough to
// follow code that collects lines and joins them (append, indexing, range,
// reslicing, bytes.Join / strings.Join, passing to and from helpers).

func c46IsList(t types.Type) bool {
	sl, ok := t.Underlying().(*types.Slice)
	return ok && c46IsBytes(sl.Elem())
}

func (m *c46m) setList(w *pathWalker, v ssa.Value, l []c46ref) {
	m.list[v] = l
	w.env.bind(v, int64(len(l)))
}

func (m *c46m) getList(w *pathWalker, v ssa.Value) ([]c46ref, bool) {
	if l, ok := m.list[v]; ok {
		return l, true
	}
	if !c46IsList(v.Type()) {
		return nil, false
	}
	var l []c46ref
	ok := false
	switch x := v.(type) {
	case *ssa.Const:
		if x.IsNil() {
			l, ok = nil, true
		}
	case *ssa.ChangeType:
		l, ok = m.getList(w, x.X)
	case *ssa.MakeSlice:
		if n, okn := w.env.eval(x.Len); okn && n >= 0 && n < 1<<12 {
			for i := int64(0); i < n; i++ {
				l = append(l, c46ref{m.newObj(0, 0), 0, 0})
			}
			ok = true
		}
	case *ssa.UnOp:
		if p := m.ptrOf(w, x.X); p != "" {
			l, ok = m.memList[p]
			if !ok && m.fresh(p) {
				l, ok = nil, true
			}
		}
	}
	if ok {
		m.setList(w, v, l)
	}
	return l, ok
}

// listSlice: a slice expression yielding a list: a literal / variadic argument
// array sliced whole, or a reslice of a list.
func (m *c46m) listSlice(w *pathWalker, x *ssa.Slice) {
	delete(m.list, x)
	bound := func(v ssa.Value, def int) (int, bool) {
		if v == nil {
			return def, true
		}
		k, ok := w.env.eval(v)
		return int(k), ok
	}
	if pt, isPtr := x.X.Type().Underlying().(*types.Pointer); isPtr {
		arr, isArr := pt.Elem().Underlying().(*types.Array)
		p := m.ptrOf(w, x.X)
		if !isArr || p == "" {
			return
		}
		lo, ok1 := bound(x.Low, 0)
		hi, ok2 := bound(x.High, int(arr.Len()))
		if !ok1 || !ok2 || lo < 0 || hi < lo || hi > int(arr.Len()) {
			return
		}
		var l []c46ref
		for i := lo; i < hi; i++ {
			key := p + "[" + itoa(int64(i)) + "]"
			r, ok := m.memRef[key]
			if !ok {
				if _, dirty := m.memRef[key+"?"]; dirty {
					r = m.unknownBuf(1) // stored, content unknown
				} else if m.fresh(p) {
					r = c46ref{m.newObj(0, 0), 0, 0}
				} else {
					return
				}
			}
			l = append(l, r)
		}
		m.setList(w, x, l)
		return
	}
	base, ok := m.getList(w, x.X)
	if !ok {
		return
	}
	lo, ok1 := bound(x.Low, 0)
	hi, ok2 := bound(x.High, len(base))
	if !ok1 || !ok2 || lo < 0 || hi < lo || hi > len(base) {
		return
	}
	m.setList(w, x, append([]c46ref(nil), base[lo:hi]...))
}

// listElem: list[i] as the address of an element.
func (m *c46m) listElem(w *pathWalker, ia *ssa.IndexAddr) ([]c46ref, int, bool) {
	if !c46IsList(ia.X.Type()) {
		return nil, 0, false
	}
	l, ok := m.getList(w, ia.X)
	k, okk := w.env.eval(ia.Index)
	if !ok || !okk || k < 0 || int(k) >= len(l) {
		return nil, 0, false
	}
	return l, int(k), true
}

func (m *c46m) listAppend(w *pathWalker, ci ssa.CallInstruction) bool {
	a := ci.Common().Args
	base, ok := m.getList(w, a[0])
	if !ok {
		return false
	}
	out := append([]c46ref(nil), base...)
	if len(a) > 1 {
		more, ok := m.getList(w, a[1])
		if !ok {
			return false
		}
		out = append(out, more...)
	}
	if v, isV := ci.(ssa.Value); isV {
		m.setList(w, v, out)
	}
	return true
}

func (m *c46m) listJoin(w *pathWalker, ci ssa.CallInstruction) bool {
	a := ci.Common().Args
	if len(a) != 2 {
		return false
	}
	l, ok := m.getList(w, a[0])
	sep, ok2 := m.argStr(w, a[1])
	if !ok || !ok2 {
		return false
	}
	s := ""
	for i, r := range l {
		e, known := r.str()
		if !known {
			return false
		}
		if i > 0 {
			s += sep
		}
		s += e
	}
	m.retRef(w, ci, m.strObj(s))
	return true
}
