package main

import (
	"fmt"
	"go/token"
	"go/types"
	"reflect"
	"sort"
	"strconv"
	"strings"

	"golang.org/x/tools/go/ssa"
)

func init() {
	register(&propDef{
		id: "C24", run: runC24, minOblig: 60,
		explanation: "Decides structural clauses of the SSH wire codec: (kind agreement) the reflect.Kind constants handled by marshalStruct equal those handled by Unmarshal (outer switch and slice-element switch); (totality preconditions) every struct type that statically reaches ssh.Marshal / ssh.Unmarshal anywhere in the module, and every struct with an sshtype tag in packages ssh and ssh/agent, has only supported field types (bool, uint8/32/64, string, [N]byte, []byte, []string, *big.Int), uses ssh:\"rest\" only on a final []byte field and has a parsable sshtype tag — so marshalStruct's panic arms and Unmarshal's unsupported-type errors are unreachable for them; (decode table) for each of the 256 message codes, the type decode allocates carries that code in its sshtype tag (evaluated through decode's switch); (length guards) parseString/parseUint32/parseUint64: for a grid of input lengths and length fields every reachable slice expression is in range and success is reported only when enough bytes are present; Unmarshal returns nil only when no bytes are left; (mpint length) intLength evaluates to 4 + ceil(bits/8) + 1-if-bits%8==0 for non-zero values and 4 for zero over a grid of (sign, bit length), and in the negative arm both intLength and marshalInt measure the two's-complement magnitude Sub(Neg(n), 1), so the reserved length and the bytes written agree. NOT decided: value round-trip of mpint contents and name-lists.",
		assumptions: []string{"reflect kinds of Go types", "packets handed to decode are non-empty (C26 empty-payload rule)"},
	})
	tech("C24", "switch-constant set agreement, go/types table over all message structs, finite-domain enumeration of decode's switch, bounds obligations on the parse helpers, finite-domain evaluation of intLength")
}

func kindConsts(f *ssa.Function) map[int64]bool {
	out := map[int64]bool{}
	allInstrs(f, func(in ssa.Instruction) {
		bo, ok := in.(*ssa.BinOp)
		if !ok || (bo.Op != token.EQL && bo.Op != token.NEQ) {
			return
		}
		if bo.X.Type().String() != "reflect.Kind" {
			return
		}
		if k, ok := constInt(bo.Y); ok {
			out[k] = true
		}
	})
	return out
}

func supportedWireField(t types.Type) bool {
	switch u := t.Underlying().(type) {
	case *types.Basic:
		switch u.Kind() {
		case types.Bool, types.Uint8, types.Uint32, types.Uint64, types.String:
			return true
		}
	case *types.Array:
		b, ok := u.Elem().Underlying().(*types.Basic)
		return ok && b.Kind() == types.Uint8
	case *types.Slice:
		b, ok := u.Elem().Underlying().(*types.Basic)
		return ok && (b.Kind() == types.Uint8 || b.Kind() == types.String)
	case *types.Pointer:
		return u.Elem().String() == "math/big.Int"
	}
	return false
}

// checkWireStruct: decoded says the struct is (also) a target of Unmarshal; a
// struct that is only ever marshalled may splice raw bytes anywhere.
func checkWireStruct(st *types.Struct, decoded bool) string {
	for i := 0; i < st.NumFields(); i++ {
		f := st.Field(i)
		tag := reflect.StructTag(st.Tag(i))
		if !supportedWireField(f.Type()) {
			return fmt.Sprintf("field %s has unsupported wire type %s", f.Name(), f.Type())
		}
		if tag.Get("ssh") == "rest" {
			if decoded && i != st.NumFields()-1 {
				return fmt.Sprintf("field %s is tagged ssh:\"rest\" but is not the last field", f.Name())
			}
			if f.Type().String() != "[]byte" && f.Type().String() != "[]uint8" {
				return fmt.Sprintf("field %s is tagged ssh:\"rest\" but is not []byte", f.Name())
			}
		}
		if v, ok := tag.Lookup("sshtype"); ok {
			if i != 0 {
				return "sshtype tag on a field other than the first"
			}
			for _, p := range strings.Split(v, "|") {
				n, err := strconv.Atoi(p)
				if err != nil || n < 1 || n > 255 {
					return fmt.Sprintf("sshtype tag %q is not a list of message numbers", v)
				}
			}
		}
	}
	return ""
}

func sshTypeCodes(st *types.Struct) []int64 {
	if st.NumFields() == 0 {
		return nil
	}
	v, ok := reflect.StructTag(st.Tag(0)).Lookup("sshtype")
	if !ok {
		return nil
	}
	var out []int64
	for _, p := range strings.Split(v, "|") {
		n, err := strconv.Atoi(p)
		if err == nil {
			out = append(out, int64(n))
		}
	}
	return out
}

func runC24(c *Ctx) {
	sweepC24(c)
	ms, um := c.fn("ssh", "marshalStruct"), c.fn("ssh", "Unmarshal")
	if ms != nil && um != nil {
		a, b := kindConsts(ms), kindConsts(um)
		var da, db []string
		for k := range a {
			if !b[k] {
				da = append(da, reflect.Kind(k).String())
			}
		}
		for k := range b {
			if !a[k] {
				db = append(db, reflect.Kind(k).String())
			}
		}
		sort.Strings(da)
		sort.Strings(db)
		c.check(len(da) == 0 && len(db) == 0 && len(a) >= 8, "C24.kinds", "marshalStruct vs Unmarshal", ms, fmt.Sprintf("both handle the same %d kinds", len(a)), fmt.Sprintf("kinds only written: %v; kinds only read: %v", da, db))
	}
	// ---- struct types reaching Marshal / Unmarshal
	seen := map[string]bool{}
	n := 0
	for _, pk := range []string{"ssh", "ssh/agent", "ssh/knownhosts", "ssh/test"} {
		for _, f := range c.funcsOfPkg(pk) {
			for _, ci := range callsNamed(f, "ssh.Marshal", "ssh.Unmarshal") {
				idx := 0
				if strings.HasSuffix(calleeName(ci.Common()), "Unmarshal") {
					idx = 1
				}
				mi, ok := ci.Common().Args[idx].(*ssa.MakeInterface)
				if !ok {
					continue // interface-typed value: covered by the sshtype-tagged table below
				}
				st := derefStruct(mi.X.Type())
				if st == nil {
					c.fail("C24.struct-table", "argument of "+short(calleeName(ci.Common()))+" in "+fnName(f), ci, "not a struct or pointer to struct (reflect would panic)")
					continue
				}
				key := fmt.Sprintf("%s:%d:%s", pk, idx, mi.X.Type().String())
				if seen[key] {
					continue
				}
				seen[key] = true
				n++
				bad := checkWireStruct(st, idx == 1)
				c.check(bad == "", "C24.struct-table", short(mi.X.Type().String())+" ("+pk+")", ci, "all fields encodable/decodable", bad)
			}
		}
	}
	// all sshtype-tagged named structs
	for _, pk := range []string{"ssh", "ssh/agent"} {
		sp := c.ssaPkg(pk)
		if sp == nil {
			continue
		}
		for _, name := range sp.Pkg.Scope().Names() {
			tn, ok := sp.Pkg.Scope().Lookup(name).(*types.TypeName)
			if !ok {
				continue
			}
			st, ok := tn.Type().Underlying().(*types.Struct)
			if !ok || len(sshTypeCodes(st)) == 0 {
				continue
			}
			key := pk + ":named:" + name
			if seen[key] {
				continue
			}
			seen[key] = true
			n++
			bad := checkWireStruct(st, true)
			c.check(bad == "", "C24.struct-table", pk+"."+name, tn, "all fields encodable/decodable", bad)
		}
	}
	c.check(n >= 40, "C24.struct-table", "message struct count", nil, fmt.Sprintf("%d struct types checked", n), fmt.Sprintf("only %d struct types found", n))
	// ---- decode table
	if dec := c.fn("ssh", "decode"); dec != nil {
		bad := ""
		decoded := 0
		for code := int64(0); code < 256; code++ {
			e := newEnv()
			e.bindIndexLoads(dec, func(b ssa.Value) bool { return b == ssa.Value(dec.Params[0]) }, 0, code)
			e.solve(dec)
			allInstrs(dec, func(in ssa.Instruction) {
				mi, ok := in.(*ssa.MakeInterface)
				if !ok || !e.reach[mi.Block()] {
					return
				}
				al, ok := mi.X.(*ssa.Alloc)
				if !ok || !al.Heap {
					return
				}
				st := derefStruct(al.Type())
				if st == nil {
					return
				}
				if st.NumFields() == 0 {
					return // body-less message: nothing is unmarshalled, no tag needed
				}
				decoded++
				okCode := false
				for _, k := range sshTypeCodes(st) {
					if k == code {
						okCode = true
					}
				}
				if !okCode {
					bad = fmt.Sprintf("message code %d is decoded into %s whose sshtype tag is %v", code, short(al.Type().String()), sshTypeCodes(st))
				}
			})
		}
		c.check(bad == "" && decoded >= 25, "C24.decode-table", "decode", dec, fmt.Sprintf("%d codes decode into a type tagged with that code", decoded), bad+fmt.Sprintf(" (%d codes decoded)", decoded))
	}
	// ---- parse helpers
	for _, spec := range []struct {
		fn   string
		need int64
		var_ bool
	}{{"parseString", 4, true}, {"parseUint32", 4, false}, {"parseUint64", 8, false}} {
		f := c.fn("ssh", spec.fn)
		if f == nil {
			continue
		}
		var lenV ssa.Value
		for _, ci := range calls(f, func(n string) bool { return strings.HasSuffix(n, ").Uint32") }) {
			lenV = callValue(ci)
		}
		b := &boundsCtx{fn: f, tracked: func(p string) bool { return p == "in" }}
		bad := ""
		pts := 0
		for _, n := range []int64{0, 1, 3, 4, 5, 7, 8, 9, 12, 100} {
			for _, L := range []int64{0, 1, 4, 5, 8, 96, 97, 1 << 31, 1<<32 - 1} {
				e := newEnv()
				e.bindLen(f, f.Params[0], n)
				if lenV != nil && spec.var_ {
					e.bind(lenV, L)
				}
				e.solve(f)
				b.e = e
				b.lenOver = map[ssa.Value]int64{ssa.Value(f.Params[0]): n}
				// len(in) after reslicing: bind len() calls on slices of the parameter
				changed := false
				allInstrs(f, func(in ssa.Instruction) {
					if call, ok := in.(*ssa.Call); ok && calleeName(&call.Call) == "builtin:len" {
						if sl, ok := call.Call.Args[0].(*ssa.Slice); ok {
							if v, ok := b.lenOf(sl, call, 0); ok {
								e.bind(call, v)
								changed = true
							}
						}
					}
				})
				if changed {
					e.solve(f)
				}
				b.check(fmt.Sprintf("len(in)=%d length field=%d", n, L))
				pts++
				// success only with enough bytes
				okIdx := f.Signature.Results().Len() - 1
				succ := false
				for _, r := range returnsOf(f) {
					if !e.reach[r.Block()] {
						continue
					}
					if v, isC := constBool(retVal(r, okIdx)); !isC || v {
						succ = true
					}
				}
				want := n >= spec.need
				if spec.var_ {
					want = n >= 4 && n-4 >= L
				}
				if succ != want {
					bad = fmt.Sprintf("len(in)=%d length field=%d: success possible=%v, specification %v", n, L, succ, want)
				}
				if !spec.var_ {
					break
				}
			}
		}
		if b.firstBad != "" {
			bad = b.firstBad
		}
		c.check(bad == "", "C24.parse-guards", spec.fn, f, fmt.Sprintf("in-range slicing and exact success condition on %d cases (%d slice obligations)", pts, b.checked), bad)
	}
	if um != nil {
		// nil only when nothing is left: len(data) == 0 edge
		var pass []edge
		allInstrs(um, func(in ssa.Instruction) {
			if call, ok := in.(*ssa.Call); ok && calleeName(&call.Call) == "builtin:len" {
				if _, isPhi := call.Call.Args[0].(*ssa.Phi); isPhi {
					pass = append(pass, edgesImplying(call, []int64{0, 1, 2}, func(d int64) bool { return d == 0 })...)
				}
			}
		})
		c.mustCross("C24.trailing", "Unmarshal", um, acceptReturns(um, 0), pass, "no input bytes left")
	}
	// ---- intLength
	if f := c.fn("ssh", "intLength"); f != nil {
		bad := ""
		nEval := 0
		for _, s := range []int64{-1, 0, 1} {
			for _, bits := range []int64{0, 1, 7, 8, 9, 15, 16, 17, 255, 256, 2048} {
				e := newEnv()
				for _, ci := range callsNamed(f, "(*math/big.Int).Sign") {
					e.bind(callValue(ci), s)
				}
				for _, ci := range callsNamed(f, "(*math/big.Int).BitLen") {
					e.bind(callValue(ci), bits)
				}
				e.solve(f)
				want := int64(4)
				if s != 0 {
					want = 4 + (bits+7)/8
					if bits%8 == 0 {
						want++
					}
				}
				for _, r := range returnsOf(f) {
					if e.reach[r.Block()] {
						v, ok := e.eval(retVal(r, 0))
						nEval++
						if !ok || v != want {
							bad = fmt.Sprintf("sign=%d magnitude bits=%d: intLength evaluates to %d (ok=%v), RFC 4251 mpint needs %d", s, bits, v, ok, want)
						}
					}
				}
			}
		}
		c.check(bad == "" && nEval >= 30, "C24.mpint-length", "intLength formula", f, fmt.Sprintf("matches 4 + ceil(bits/8) + padding on %d cases", nEval), bad)
	}
	for _, spec := range []struct{ fn, meth string }{{"intLength", "(*math/big.Int).BitLen"}, {"marshalInt", "(*math/big.Int).Bytes"}} {
		f := c.fn("ssh", spec.fn)
		if f == nil {
			continue
		}
		// in the Sign() < 0 arm the measured value derives from Sub(Neg(n), bigOne)
		var neg []edge
		for _, ci := range callsNamed(f, "(*math/big.Int).Sign") {
			neg = append(neg, edgesImplying(callValue(ci), []int64{-1, 0, 1}, func(d int64) bool { return d < 0 })...)
		}
		okArm := false
		for _, ci := range callsNamed(f, spec.meth) {
			cut := edgeSet{}
			cut.addAll(neg)
			if len(neg) == 0 || pathFromEntry(ci, cut) {
				continue // not in the negative arm
			}
			recv := ci.Common().Args[0]
			// receiver is the value that Sub(…, bigOne) wrote into: the Neg call result, with a Sub call on it
			negCall, ok := recv.(*ssa.Call)
			if !ok || short(calleeName(&negCall.Call)) != "(*math/big.Int).Neg" {
				continue
			}
			for _, r := range *negCall.Referrers() {
				if sub, ok := r.(*ssa.Call); ok && short(calleeName(&sub.Call)) == "(*math/big.Int).Sub" && sub.Call.Args[0] == ssa.Value(negCall) && sub.Call.Args[1] == ssa.Value(negCall) && accessPath(sub.Call.Args[2]) == "bigOne" && precedes(sub, ci) {
					okArm = true
				}
			}
		}
		c.check(okArm, "C24.mpint-length", spec.fn+" negative arm", f, "measures -n-1 (two's complement magnitude)", "the negative arm does not measure Sub(Neg(n), 1): reserved length and written bytes can disagree for negative values")
	}
}
