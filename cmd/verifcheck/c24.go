package main

import (
	"fmt"
	"go/types"
	"reflect"
	"strconv"
	"strings"

	"golang.org/x/tools/go/ssa"
)

func init() {
	register(&propDef{
		id: "C24", run: runC24, minOblig: 60,
		explanation: "Decides clauses of the SSH wire codec: (kind agreement) the reflect.Kind constants that marshalStruct or a package helper it calls compares a Kind with equal those of Unmarshal and its helpers (outer switch and slice-element switch); (totality preconditions) every struct type that statically reaches ssh.Marshal / ssh.Unmarshal anywhere in the module, and every struct with an sshtype tag in packages ssh and ssh/agent, has only supported field types (bool, uint8/32/64, string, [N]byte, []byte, []string, *big.Int), uses ssh:\"rest\" only on a final []byte field and has a parsable sshtype tag — so marshalStruct's panic arms and Unmarshal's unsupported-type errors are unreachable for them; (decode table) decode is interpreted once for each of the 256 message codes with the first packet byte bound to the code and package helpers interpreted in place: the struct type whose pointer reaches Unmarshal on that path carries the code in its sshtype tag; (length guards) parseString/parseUint32/parseUint64 are interpreted on concrete inputs over a grid of input lengths and length fields: no index or slice expression leaves the input, success is reported exactly when enough bytes are present, and on success the results are the big-endian value and the windows in[4:4+L] / in[4+L:] (in[w:]) of the input; Unmarshal, with package helpers expanded in place, returns a nil error only across a branch that establishes len(x)==0 for a slice x derived from its input; (mpint) over a grid of 103 integers of both signs around every byte boundary up to 2^2048, with the math/big and encoding/binary calls modelled on concrete values wherever the code places them: intLength(n) equals 4 + the length of the minimal two's-complement encoding of n (RFC 4251), marshalInt writes exactly the uint32 length followed by that encoding into a buffer of intLength(n) (and intLength(n)+3) bytes and returns the remainder, and parseInt maps that encoding followed by 2 more bytes back to n and those 2 bytes without modifying its input. A call on a tracked value that the model does not cover is reported undecided. NOT decided: mpint values outside the grid, non-minimal mpint inputs, name-list contents.",
		assumptions: []string{"reflect kinds of Go types", "packets handed to decode are non-empty (C26 empty-payload rule)"},
	})
	tech("C24", "switch-constant set agreement over functions and their package helpers, go/types table over all message structs, path-walker interpretation of decode per message code, concrete interpretation of the parse helpers and of intLength/marshalInt/parseInt with a math/big + byte-buffer model, interprocedural must-cross for the trailing-bytes check")
}

func supportedWireField(t types.Type) bool {
	switch u := t.Underlying().(type) {
	case *types.Basic:
		switch u.Kind() {
		case types.Bool, types.Uint8, types.Uint32, types.Uint64, types.String:
			return true
		}
	case *types.Array:
		b, ok := u.Elem().Underlying().(*types.Basic)
		return ok && b.Kind() == types.Uint8
	case *types.Slice:
		b, ok := u.Elem().Underlying().(*types.Basic)
		return ok && (b.Kind() == types.Uint8 || b.Kind() == types.String)
	case *types.Pointer:
		return u.Elem().String() == "math/big.Int"
	}
	return false
}

// checkWireStruct: decoded says the struct is (also) a target of Unmarshal; a
// struct that is only ever marshalled may splice raw bytes anywhere.
func checkWireStruct(st *types.Struct, decoded bool) string {
	for i := 0; i < st.NumFields(); i++ {
		f := st.Field(i)
		tag := reflect.StructTag(st.Tag(i))
		if !supportedWireField(f.Type()) {
			return fmt.Sprintf("field %s has unsupported wire type %s", f.Name(), f.Type())
		}
		if tag.Get("ssh") == "rest" {
			if decoded && i != st.NumFields()-1 {
				return fmt.Sprintf("field %s is tagged ssh:\"rest\" but is not the last field", f.Name())
			}
			if f.Type().String() != "[]byte" && f.Type().String() != "[]uint8" {
				return fmt.Sprintf("field %s is tagged ssh:\"rest\" but is not []byte", f.Name())
			}
		}
		if v, ok := tag.Lookup("sshtype"); ok {
			if i != 0 {
				return "sshtype tag on a field other than the first"
			}
			for _, p := range strings.Split(v, "|") {
				n, err := strconv.Atoi(p)
				if err != nil || n < 1 || n > 255 {
					return fmt.Sprintf("sshtype tag %q is not a list of message numbers", v)
				}
			}
		}
	}
	return ""
}

func sshTypeCodes(st *types.Struct) []int64 {
	if st.NumFields() == 0 {
		return nil
	}
	v, ok := reflect.StructTag(st.Tag(0)).Lookup("sshtype")
	if !ok {
		return nil
	}
	var out []int64
	for _, p := range strings.Split(v, "|") {
		n, err := strconv.Atoi(p)
		if err == nil {
			out = append(out, int64(n))
		}
	}
	return out
}

func runC24(c *Ctx) {
	sweepC24(c)
	ms, um := c.fn("ssh", "marshalStruct"), c.fn("ssh", "Unmarshal")
	if ms != nil && um != nil {
		checkC24Kinds(c, ms, um)
	}
	// ---- struct types reaching Marshal / Unmarshal
	seen := map[string]bool{}
	n := 0
	for _, pk := range []string{"ssh", "ssh/agent", "ssh/knownhosts", "ssh/test"} {
		for _, f := range c.funcsOfPkg(pk) {
			for _, ci := range callsNamed(f, "ssh.Marshal", "ssh.Unmarshal") {
				idx := 0
				if strings.HasSuffix(calleeName(ci.Common()), "Unmarshal") {
					idx = 1
				}
				mi, ok := ci.Common().Args[idx].(*ssa.MakeInterface)
				if !ok {
					continue // interface-typed value: covered by the sshtype-tagged table below
				}
				st := derefStruct(mi.X.Type())
				if st == nil {
					c.fail("C24.struct-table", "argument of "+short(calleeName(ci.Common()))+" in "+fnName(f), ci, "not a struct or pointer to struct (reflect would panic)")
					continue
				}
				key := fmt.Sprintf("%s:%d:%s", pk, idx, mi.X.Type().String())
				if seen[key] {
					continue
				}
				seen[key] = true
				n++
				bad := checkWireStruct(st, idx == 1)
				c.check(bad == "", "C24.struct-table", short(mi.X.Type().String())+" ("+pk+")", ci, "all fields encodable/decodable", bad)
			}
		}
	}
	// all sshtype-tagged named structs
	for _, pk := range []string{"ssh", "ssh/agent"} {
		sp := c.ssaPkg(pk)
		if sp == nil {
			continue
		}
		for _, name := range sp.Pkg.Scope().Names() {
			tn, ok := sp.Pkg.Scope().Lookup(name).(*types.TypeName)
			if !ok {
				continue
			}
			st, ok := tn.Type().Underlying().(*types.Struct)
			if !ok || len(sshTypeCodes(st)) == 0 {
				continue
			}
			key := pk + ":named:" + name
			if seen[key] {
				continue
			}
			seen[key] = true
			n++
			bad := checkWireStruct(st, true)
			c.check(bad == "", "C24.struct-table", pk+"."+name, tn, "all fields encodable/decodable", bad)
		}
	}
	c.check(n >= 40, "C24.struct-table", "message struct count", nil, fmt.Sprintf("%d struct types checked", n), fmt.Sprintf("only %d struct types found", n))
	// ---- decode table
	if dec := c.fn("ssh", "decode"); dec != nil && um != nil {
		checkC24DecodeTable(c, dec, um)
	}
	// ---- parse helpers
	checkC24ParseGuards(c)
	if um != nil {
		checkC24Trailing(c, um)
	}
	// ---- mpint: intLength / marshalInt / parseInt
	checkC24Mpint(c)
}
