package main

import (
	"fmt"
	"go/token"
	"go/types"
	"strings"

	"golang.org/x/tools/go/ssa"
)

// C14 interpretation harness. The rules of C14 do not look for any particular
// statement in Sum or Write. They identify the hash implementation by ROLE
// (the concrete type New returns as hash.Hash; its fields by type: the 64-byte
// block buffer, the state words, the 64-bit byte count, the buffer fill), run
// the pathWalker over Sum / Write with every in-package callee interpreted in
// place, and observe one thing only: the 64-byte blocks that reach the
// compression function, byte by byte. Message bytes are distinct symbolic
// markers, so "which byte went where" is decided exactly, whatever mixture of
// byte loops, copy, clear, append, encoding/binary, helpers or direct buffer
// manipulation the code uses to get them there.

const (
	c14Unk = int64(-1) << 50 // content the interpretation does not know
	c14Buf = int64(1) << 20  // marker of the i'th byte buffered before the call
	c14Old = int64(1) << 21  // marker of stale buffer content beyond the fill
	c14In  = int64(1) << 22  // marker of the j'th byte of the written slice
)

type c14Impl struct {
	pkg    string
	sp     *ssa.Package
	named  *types.Named
	st     *types.Struct
	fLen   int // field index of the 64-bit byte count
	fNx    int // field index of the buffer fill
	fBuf   int // field index of the 64-byte block buffer
	fWords int // field index of the chaining state
	sum    *ssa.Function
	write  *ssa.Function
	block  map[*ssa.Function]bool
	funcs  []*ssa.Function
	glob   map[*ssa.Global]map[int64]int64 // nil entry: content not a compile-time constant
}

func (im *c14Impl) fieldName(i int) string { return im.st.Field(i).Name() }

// c14ConcreteHash: the pointer type New hands out as hash.Hash (searched
// through in-package constructors New delegates to).
func c14ConcreteHash(f *ssa.Function, depth int) types.Type {
	var out types.Type
	allInstrs(f, func(in ssa.Instruction) {
		if out != nil {
			return
		}
		if mi, ok := in.(*ssa.MakeInterface); ok {
			t := mi.X.Type()
			if p, isP := t.Underlying().(*types.Pointer); isP {
				t = p.Elem()
			}
			if n, isN := t.(*types.Named); isN && n.Obj().Pkg() == f.Pkg.Pkg {
				if _, isS := n.Underlying().(*types.Struct); isS {
					out = n
				}
			}
		}
	})
	if out == nil && depth < 3 {
		allInstrs(f, func(in ssa.Instruction) {
			if ci, ok := in.(ssa.CallInstruction); ok && out == nil {
				if cal := ci.Common().StaticCallee(); cal != nil && cal.Pkg == f.Pkg && len(cal.Blocks) > 0 {
					out = c14ConcreteHash(cal, depth+1)
				}
			}
		})
	}
	return out
}

func c14FindImpl(c *Ctx, pkg string) *c14Impl {
	newFn := c.fn(pkg, "New")
	if newFn == nil {
		return nil
	}
	im := &c14Impl{pkg: pkg, sp: newFn.Pkg, fLen: -1, fNx: -1, fBuf: -1, fWords: -1, block: map[*ssa.Function]bool{}}
	t := c14ConcreteHash(newFn, 0)
	if t == nil {
		c.undecided("C14.anchor", pkg+".New", newFn, "the concrete type returned as hash.Hash was not found")
		return nil
	}
	im.named = t.(*types.Named)
	im.st = im.named.Underlying().(*types.Struct)
	dup := false
	set := func(dst *int, i int) {
		if *dst >= 0 {
			dup = true
		}
		*dst = i
	}
	for i := 0; i < im.st.NumFields(); i++ {
		switch u := im.st.Field(i).Type().Underlying().(type) {
		case *types.Array:
			if b, ok := u.Elem().Underlying().(*types.Basic); ok {
				switch {
				case b.Kind() == types.Uint8 && u.Len() == 64:
					set(&im.fBuf, i)
				case b.Kind() == types.Uint32:
					set(&im.fWords, i)
				}
			}
		case *types.Basic:
			if bits, uns, ok := intBits(u); ok && bits > 1 {
				if bits == 64 && uns && u.Kind() == types.Uint64 {
					set(&im.fLen, i)
				} else {
					set(&im.fNx, i)
				}
			}
		}
	}
	if dup || im.fLen < 0 || im.fNx < 0 || im.fBuf < 0 || im.fWords < 0 {
		c.undecided("C14.anchor", pkg+"."+im.named.Obj().Name(), newFn, "the hash state is not (state words, one 64-byte block buffer, buffer fill, 64-bit byte count); the interpretation cannot be set up")
		return nil
	}
	meth := func(name string) *ssa.Function {
		for _, T := range []types.Type{types.NewPointer(im.named), im.named} {
			if sel := c.ld.prog.MethodSets.MethodSet(T).Lookup(im.sp.Pkg, name); sel != nil {
				if fo, ok := sel.Obj().(*types.Func); ok {
					if f := c.ld.prog.FuncValue(fo); f != nil && len(f.Blocks) > 0 {
						return f
					}
				}
			}
		}
		c.fail("anchor", pkg+"."+im.named.Obj().Name()+"."+name, nil, "method not found in the current tree; the rule cannot be evaluated")
		return nil
	}
	im.sum, im.write = meth("Sum"), meth("Write")
	if im.sum == nil || im.write == nil {
		return nil
	}
	// the compression function(s): take message bytes and update the state words
	im.funcs = c.funcsOfPkg(pkg)
	for _, f := range im.funcs {
		if f == im.sum || f == im.write || len(f.Blocks) == 0 {
			continue
		}
		hasBytes := false
		for _, p := range f.Params {
			if c14IsByteSlice(p.Type()) {
				hasBytes = true
			}
		}
		if hasBytes && im.updatesWords(f) {
			im.block[f] = true
		}
	}
	if c.funcsSeen == nil {
		c.funcsSeen = map[string]bool{}
	}
	for _, f := range append([]*ssa.Function{im.sum, im.write}, im.funcs...) {
		if f == im.sum || f == im.write || im.block[f] {
			c.funcsSeen[pkg+"."+fnName(f)] = true
		}
	}
	if len(im.block) == 0 {
		c.undecided("C14.anchor", pkg+" compression function", im.write, "no function of the package takes message bytes and updates the state words; the blocks cannot be observed")
		return nil
	}
	return im
}

func c14IsByteSlice(t types.Type) bool {
	s, ok := t.Underlying().(*types.Slice)
	if !ok {
		return false
	}
	b, ok := s.Elem().Underlying().(*types.Basic)
	return ok && b.Kind() == types.Uint8
}

// wordsAddr: v is (derived from) the address of the state-word array of a hash state.
func (im *c14Impl) wordsAddr(v ssa.Value, depth int) bool {
	if depth > 6 {
		return false
	}
	switch x := v.(type) {
	case *ssa.FieldAddr:
		return derefStruct(x.X.Type()) == im.st && x.Field == im.fWords
	case *ssa.IndexAddr:
		return im.wordsAddr(x.X, depth+1)
	case *ssa.Slice:
		return im.wordsAddr(x.X, depth+1)
	case *ssa.Phi:
		for _, e := range x.Edges {
			if im.wordsAddr(e, depth+1) {
				return true
			}
		}
	}
	return false
}

// updatesWords: f itself stores a computed (non-constant) value into the state
// words, or hands their address to another function.
func (im *c14Impl) updatesWords(f *ssa.Function) bool {
	found := false
	allInstrs(f, func(in ssa.Instruction) {
		switch x := in.(type) {
		case *ssa.Store:
			if _, isK := x.Val.(*ssa.Const); !isK && im.wordsAddr(x.Addr, 0) {
				found = true
			}
		case ssa.CallInstruction:
			for _, a := range x.Common().Args {
				if im.wordsAddr(a, 0) {
					found = true
				}
			}
		}
	})
	return found
}

// ---------------------------------------------------------------------------

type c14Run struct {
	im      *c14Impl
	mem     map[string][]int64
	zero    map[string]bool // buffers whose unwritten bytes are zero (fresh locals)
	poison  map[string]bool
	size    map[string]int64 // capacity of storage whose extent is known (arrays)
	seq     int
	blocks  [][]int64 // the 64-byte blocks handed to the compression function, in order
	problem string
	w       *pathWalker
}

func (r *c14Run) fail(format string, a ...any) {
	if r.problem == "" {
		r.problem = fmt.Sprintf(format, a...)
	}
}

func (r *c14Run) get(name string, i int64) int64 {
	if r.poison[name] || i < 0 {
		return c14Unk
	}
	if b := r.mem[name]; b != nil && i < int64(len(b)) {
		return b[i]
	}
	if r.zero[name] {
		return 0
	}
	return c14Unk
}

func (r *c14Run) set(name string, i, v int64) {
	if i < 0 || i > 1<<20 {
		r.poison[name] = true
		return
	}
	b := r.mem[name]
	if i >= int64(len(b)) {
		def := c14Unk
		if r.zero[name] {
			def = 0
		}
		for int64(len(b)) <= i {
			b = append(b, def)
		}
		r.mem[name] = b
	}
	b[i] = v
}

func (r *c14Run) fresh(prefix string) string {
	r.seq++
	n := fmt.Sprintf("%s#%d", prefix, r.seq)
	r.zero[n] = true
	return n
}

func c14ByteArray(t types.Type) (int64, bool) {
	if p, ok := t.Underlying().(*types.Pointer); ok {
		t = p.Elem()
	}
	a, ok := t.Underlying().(*types.Array)
	if !ok {
		return 0, false
	}
	b, ok := a.Elem().Underlying().(*types.Basic)
	if !ok || b.Kind() != types.Uint8 {
		return 0, false
	}
	return a.Len(), true
}

// resolve names the byte storage v denotes (a byte slice value or a pointer to
// a byte array) and the offset of its first byte.
func (r *c14Run) resolve(w *pathWalker, v ssa.Value, depth int) (string, int64, bool) {
	if depth > 8 {
		return "", 0, false
	}
	if n, ok := w.cls[v]; ok {
		return n, w.off[v], true
	}
	switch x := v.(type) {
	case *ssa.Alloc:
		if L, ok := c14ByteArray(x.Type()); ok {
			n := fmt.Sprintf("local%p", x)
			r.zero[n] = true
			r.size[n] = L
			return n, 0, true
		}
	case *ssa.MakeSlice:
		if c14IsByteSlice(x.Type()) {
			n := fmt.Sprintf("make%p", x)
			r.zero[n] = true
			return n, 0, true
		}
	case *ssa.Global:
		if L, ok := c14ByteArray(x.Type()); ok {
			n := "global " + x.Name()
			r.size[n] = L
			if _, loaded := r.mem[n]; !loaded && !r.poison[n] {
				if init, okg := r.im.globalBytes(x); okg {
					r.zero[n] = true
					r.mem[n] = make([]int64, 0, L)
					for k, v := range init {
						r.set(n, k, v)
					}
				} else {
					r.poison[n] = true
				}
			}
			return n, 0, true
		}
	case *ssa.FieldAddr:
		// all hash states seen during one interpreted call start as copies of the
		// receiver's, and C14.sum-pure decides separately that only a copy is written
		if derefStruct(x.X.Type()) == r.im.st && x.Field == r.im.fBuf {
			return "X", 0, true
		}
	case *ssa.Slice:
		b, o, ok := r.resolve(w, x.X, depth+1)
		if !ok {
			return "", 0, false
		}
		lo := int64(0)
		if x.Low != nil {
			n, okl := w.env.eval(x.Low)
			if !okl {
				return "", 0, false
			}
			lo = n
		}
		return b, o + lo, true
	case *ssa.SliceToArrayPointer:
		return r.resolve(w, x.X, depth+1)
	case *ssa.ChangeType:
		return r.resolve(w, x.X, depth+1)
	}
	return "", 0, false
}

func (r *c14Run) tag(w *pathWalker, v ssa.Value, name string, off int64, ok bool) {
	if ok {
		w.cls[v], w.off[v] = name, off
	} else {
		delete(w.cls, v)
		delete(w.off, v)
	}
}

func c14IsByte(t types.Type) bool {
	b, ok := t.Underlying().(*types.Basic)
	return ok && b.Kind() == types.Uint8
}

func (r *c14Run) walker() *pathWalker {
	w := &pathWalker{env: newEnv(), state: map[string]int64{}, lengths: true, maxSteps: 6000,
		cls: map[ssa.Value]string{}, off: map[ssa.Value]int64{}}
	r.w = w
	w.inline = func(callee *ssa.Function) bool {
		return callee.Pkg == r.im.sp && !r.im.block[callee]
	}
	w.onInline = func(parent, child *pathWalker, callee *ssa.Function, args []ssa.Value) {
		// byte storage handed over as a pointer to an array (or any argument the
		// side tables do not know yet) keeps its identity in the callee
		for i, p := range callee.Params {
			if i >= len(args) {
				break
			}
			if _, known := parent.cls[p]; known {
				continue
			}
			if n, o, ok := r.resolve(parent, args[i], 0); ok {
				r.tag(parent, p, n, o, true)
			}
		}
	}
	w.onSlice = func(w *pathWalker, sl *ssa.Slice) {
		delete(w.cls, sl)
		delete(w.off, sl)
		n, o, ok := r.resolve(w, sl, 0)
		r.tag(w, sl, n, o, ok)
	}
	w.onPhi = func(w *pathWalker, ph *ssa.Phi, in ssa.Value) {
		if !c14IsByteSlice(ph.Type()) {
			if _, isArr := c14ByteArray(ph.Type()); !isArr {
				return
			}
		}
		n, o, ok := r.resolve(w, in, 0)
		r.tag(w, ph, n, o, ok)
	}
	w.onLoad = func(w *pathWalker, u *ssa.UnOp) (int64, bool) {
		ia, ok := u.X.(*ssa.IndexAddr)
		if !ok || !c14IsByte(u.Type()) {
			return 0, false
		}
		delete(w.env.vals, u) // never leave the value of an earlier iteration behind
		n, o, okr := r.resolve(w, ia.X, 0)
		idx, oki := w.env.eval(ia.Index)
		if !okr || !oki {
			return 0, false
		}
		v := r.get(n, o+idx)
		if v == c14Unk {
			return 0, false
		}
		return v, true
	}
	w.onStore = func(w *pathWalker, st *ssa.Store) string {
		if ia, ok := st.Addr.(*ssa.IndexAddr); ok {
			if !c14IsByte(st.Val.Type()) {
				return ""
			}
			n, o, okr := r.resolve(w, ia.X, 0)
			if !okr {
				return ""
			}
			idx, oki := w.env.eval(ia.Index)
			if !oki {
				r.poison[n] = true
				return ""
			}
			v, okv := w.env.eval(st.Val)
			if !okv {
				v = c14Unk
			}
			r.set(n, o+idx, v)
			return ""
		}
		// whole-array assignment
		if L, isArr := c14ByteArray(st.Addr.Type()); isArr {
			n, o, okr := r.resolve(w, st.Addr, 0)
			if !okr {
				return ""
			}
			if k, isK := st.Val.(*ssa.Const); isK && k.Value == nil {
				for i := int64(0); i < L; i++ {
					r.set(n, o+i, 0)
				}
				return ""
			}
			if u, isU := st.Val.(*ssa.UnOp); isU && u.Op == token.MUL {
				if sn, so, oks := r.resolve(w, u.X, 0); oks {
					if sn == n && so == o {
						return "" // the copy of a hash state onto its working copy
					}
					r.move(n, o, sn, so, L)
					return ""
				}
			}
			r.poison[n] = true
		}
		return ""
	}
	w.onCall = func(w *pathWalker, ci ssa.CallInstruction) string {
		cc := ci.Common()
		val, _ := ci.(ssa.Value)
		name := calleeName(cc)
		switch {
		case name == "builtin:copy" && len(cc.Args) == 2:
			dn, do, okd := r.resolve(w, cc.Args[0], 0)
			if !okd {
				return ""
			}
			dl, ok1 := w.env.eval(cc.Args[0])
			sl, ok2 := w.env.eval(cc.Args[1])
			if !ok1 || !ok2 {
				r.poison[dn] = true
				return ""
			}
			k := min(dl, sl)
			if sn, so, oks := r.resolve(w, cc.Args[1], 0); oks {
				r.move(dn, do, sn, so, k)
			} else {
				for i := int64(0); i < k; i++ {
					r.set(dn, do+i, c14Unk)
				}
			}
		case name == "builtin:clear" && len(cc.Args) == 1:
			if n, o, ok := r.resolve(w, cc.Args[0], 0); ok {
				if l, okl := w.env.eval(cc.Args[0]); okl {
					for i := int64(0); i < l; i++ {
						r.set(n, o+i, 0)
					}
				} else {
					r.poison[n] = true
				}
			}
		case name == "builtin:append" && len(cc.Args) == 2 && val != nil && c14IsByteSlice(val.Type()):
			lb, ok2 := r.lenOf(w, cc.Args[1])
			var src []int64
			if ok2 {
				src = r.bytesOf(w, cc.Args[1], lb)
			}
			r.appendTo(w, val, cc.Args[0], src, ok2)
		case strings.HasPrefix(name, "(encoding/binary.") && len(cc.Args) == 3:
			m := name[strings.LastIndex(name, ".")+1:]
			width := map[string]int64{"PutUint16": 2, "PutUint32": 4, "PutUint64": 8, "AppendUint16": 2, "AppendUint32": 4, "AppendUint64": 8}[m]
			if width == 0 {
				return ""
			}
			big := strings.HasPrefix(name, "(encoding/binary.bigEndian)")
			v, known := w.env.eval(cc.Args[2])
			enc := make([]int64, width)
			for i := int64(0); i < width; i++ {
				j := i
				if big {
					j = width - 1 - i
				}
				enc[j] = c14Unk
				if known {
					enc[j] = int64(uint64(v) >> (8 * uint(i)) & 0xff)
				}
			}
			if strings.HasPrefix(m, "Append") {
				if val != nil {
					r.appendTo(w, val, cc.Args[1], enc, true)
				}
				return ""
			}
			if n, o, ok := r.resolve(w, cc.Args[1], 0); ok {
				for i, e := range enc {
					r.set(n, o+int64(i), e)
				}
			}
		default:
			if callee := cc.StaticCallee(); callee != nil && r.im.block[callee] {
				r.compress(w, ci, callee)
				return ""
			}
			if strings.HasPrefix(name, "builtin:") || strings.HasPrefix(name, "(encoding/binary.") {
				return "" // len, cap, panic, print...; binary.*.UintNN only read
			}
			// a call the interpretation neither follows nor models may write through
			// any byte storage it is handed: its content is unknown from here on
			for _, a := range cc.Args {
				if n, _, ok := r.resolve(w, a, 0); ok {
					r.poison[n] = true
				}
			}
		}
		return ""
	}
	return w
}

// lenOf: the length of a byte-slice value (nil is the empty slice).
func (r *c14Run) lenOf(w *pathWalker, v ssa.Value) (int64, bool) {
	if k, isK := v.(*ssa.Const); isK && k.Value == nil {
		return 0, true
	}
	return w.env.eval(v)
}

// bytesOf: the l bytes a slice value denotes (unknown where not modelled).
func (r *c14Run) bytesOf(w *pathWalker, v ssa.Value, l int64) []int64 {
	out := make([]int64, l)
	n, o, ok := r.resolve(w, v, 0)
	for i := range out {
		out[i] = c14Unk
		if ok {
			out[i] = r.get(n, o+int64(i))
		}
	}
	return out
}

// appendTo models res = append(dst, src...): in place when dst lies in storage
// of known size with room for the result (a slice of a local array, of the
// block buffer), otherwise into fresh storage.
func (r *c14Run) appendTo(w *pathWalker, res, dst ssa.Value, src []int64, srcKnown bool) {
	delete(w.env.vals, res)
	r.tag(w, res, "", 0, false)
	la, ok := r.lenOf(w, dst)
	if !ok || !srcKnown {
		return
	}
	w.env.bind(res, la+int64(len(src)))
	dn, do, okd := r.resolve(w, dst, 0)
	if okd {
		if size, sized := r.size[dn]; sized && do+la+int64(len(src)) <= size {
			for i, v := range src {
				r.set(dn, do+la+int64(i), v)
			}
			r.tag(w, res, dn, do, true)
			return
		}
	}
	nn := r.fresh("append")
	head := r.bytesOf(w, dst, la)
	if _, isNil := dst.(*ssa.Const); isNil {
		head = nil
	}
	for i, v := range append(head, src...) {
		r.set(nn, int64(i), v)
	}
	r.tag(w, res, nn, 0, true)
}

// move copies k bytes between modelled buffers with memmove semantics.
func (r *c14Run) move(dn string, do int64, sn string, so, k int64) {
	tmp := make([]int64, k)
	for i := int64(0); i < k; i++ {
		tmp[i] = r.get(sn, so+i)
	}
	for i := int64(0); i < k; i++ {
		r.set(dn, do+i, tmp[i])
	}
}

// compress records a call of the compression function. Contract assumed of it:
// it consumes the whole 64-byte blocks of its byte argument in order, ignores
// a trailing partial block, and (when it has an integer result) returns the
// number of bytes consumed.
func (r *c14Run) compress(w *pathWalker, ci ssa.CallInstruction, callee *ssa.Function) {
	cc := ci.Common()
	var arg ssa.Value
	for i, p := range callee.Params {
		if c14IsByteSlice(p.Type()) && i < len(cc.Args) {
			arg = cc.Args[i]
			break
		}
	}
	if arg == nil {
		r.fail("the compression function is called without a byte slice")
		return
	}
	l, ok := w.env.eval(arg)
	if !ok {
		r.fail("the length of the data handed to the compression function does not evaluate")
		return
	}
	n, o, okr := r.resolve(w, arg, 0)
	if l >= 64 && !okr {
		r.fail("the compression function is called on a buffer the interpretation cannot identify")
		return
	}
	for b := int64(0); b+64 <= l; b += 64 {
		blk := make([]int64, 64)
		for i := range blk {
			blk[i] = r.get(n, o+b+int64(i))
		}
		r.blocks = append(r.blocks, blk)
	}
	if v, isV := ci.(ssa.Value); isV {
		if _, _, isInt := intBits(v.Type()); isInt {
			w.env.bind(v, l/64*64)
		}
	}
}

func c14NewRun(im *c14Impl, root *ssa.Function, nx int64) *c14Run {
	r := &c14Run{im: im, mem: map[string][]int64{}, zero: map[string]bool{}, poison: map[string]bool{}, size: map[string]int64{"X": 64}}
	r.mem["X"] = make([]int64, 0, 64)
	for i := int64(0); i < 64; i++ {
		if i < nx {
			r.set("X", i, c14Buf+i)
		} else {
			r.set("X", i, c14Old+i)
		}
	}
	return r
}

func c14Show(v int64) string {
	switch {
	case v == c14Unk:
		return "unknown"
	case v >= c14In:
		return fmt.Sprintf("written byte %d", v-c14In)
	case v >= c14Old:
		return fmt.Sprintf("stale buffer byte %d", v-c14Old)
	case v >= c14Buf:
		return fmt.Sprintf("buffered message byte %d", v-c14Buf)
	}
	return fmt.Sprintf("%#02x", v)
}

// c14Diff compares the observed block stream with the expected one. unknown
// reports that the first differing byte is one the interpretation could not
// determine (the verdict is then "undecided", not "violated").
func c14Diff(blocks [][]int64, want []int64) (diff string, unknown bool) {
	if len(blocks)*64 != len(want) {
		return fmt.Sprintf("%d block(s) reach the compression function, expected %d", len(blocks), len(want)/64), false
	}
	for b, blk := range blocks {
		for i, v := range blk {
			if v != want[b*64+i] {
				return fmt.Sprintf("byte %d of compressed block %d is %s, expected %s", i, b+1, c14Show(v), c14Show(want[b*64+i])), v == c14Unk
			}
		}
	}
	return "", false
}

// globalBytes: the content of a package-level byte array that is a read-only
// table: its initializer consists of constants and no function of the package
// stores into it.
func (im *c14Impl) globalBytes(g *ssa.Global) (map[int64]int64, bool) {
	if im.glob == nil {
		im.glob = map[*ssa.Global]map[int64]int64{}
	}
	if m, done := im.glob[g]; done {
		return m, m != nil
	}
	im.glob[g] = nil
	if g.Pkg != im.sp {
		return nil, false
	}
	constStores := func(f *ssa.Function, base ssa.Value, into map[int64]int64) bool {
		ok := true
		allInstrs(f, func(in ssa.Instruction) {
			st, isS := in.(*ssa.Store)
			if !isS {
				return
			}
			ia, isI := st.Addr.(*ssa.IndexAddr)
			if !isI || ia.X != base {
				return
			}
			k, okk := constInt(ia.Index)
			v, okv := constInt(st.Val)
			if !okk || !okv {
				ok = false
				return
			}
			into[k] = v
		})
		return ok
	}
	m := map[int64]int64{}
	usable := true
	writes := func(f *ssa.Function, isInit bool) {
		allInstrs(f, func(in ssa.Instruction) {
			switch x := in.(type) {
			case *ssa.Store:
				if x.Addr == ssa.Value(g) {
					if !isInit {
						usable = false
						return
					}
					if k, isK := x.Val.(*ssa.Const); isK && k.Value == nil {
						return
					}
					u, isU := x.Val.(*ssa.UnOp)
					if !isU || u.Op != token.MUL {
						usable = false
						return
					}
					al, isA := u.X.(*ssa.Alloc)
					if !isA || !constStores(f, al, m) {
						usable = false
					}
				} else if ia, isI := x.Addr.(*ssa.IndexAddr); isI && ia.X == ssa.Value(g) && !isInit {
					usable = false
				}
			case ssa.CallInstruction:
				cc := x.Common()
				if n := calleeName(cc); (n == "builtin:copy" || n == "builtin:clear") && len(cc.Args) > 0 {
					if sl, isS := cc.Args[0].(*ssa.Slice); isS && sl.X == ssa.Value(g) {
						usable = false
					}
				}
			}
		})
	}
	if init := im.sp.Func("init"); init != nil {
		writes(init, true)
		if !constStores(init, g, m) {
			usable = false
		}
	}
	for _, f := range im.funcs {
		writes(f, false)
	}
	if !usable {
		return nil, false
	}
	im.glob[g] = m
	return m, true
}
