package main

import (
	"go/token"
	"go/types"
	"strings"

	"golang.org/x/tools/go/ssa"
)

// Interpretation set-up shared by the C09 rules. Nothing here looks at the
// name of a local variable, parameter or helper: a value is known by its ROLE
//
//	"out" / "in" / "nonce" / "key" / "counter"  a parameter of the root function (by index) and
//	                                            everything resliced, phi-merged or passed on from it,
//	                                            with its byte offset from the parameter's first byte;
//	"ks"                                        a local 64-byte array (the key-stream block buffer);
//	"@<path>"                                   a pointer value that a phi or a helper's result made
//	                                            anonymous, with the tracked storage it points to;
//
// kept in the walker's side tables cls / off (which follow arguments into the
// parameters of helpers that the walker interprets in place). Local byte
// arrays of up to 32 bytes are tracked byte by byte (zero at their
// declaration, as the language defines); copy() moves tracked bytes, and a
// byte of the nonce is the abstract value c09NonceSym+i.
const (
	c09NonceSym  = 0x100 // abstract identity of nonce byte i
	c09SubKeySym = 0x200 // abstract identity of byte i of the HSalsa20 output
)

func c09Key(base string, i int64) string { return base + "[" + itoa(i) + "]" }

// c09ByteArrayPtr: n for the type *[n]byte.
func c09ByteArrayPtr(t types.Type) (int64, bool) {
	p, ok := t.Underlying().(*types.Pointer)
	if !ok {
		return 0, false
	}
	return c09ByteArray(p.Elem())
}

func c09ByteArray(t types.Type) (int64, bool) {
	a, ok := t.Underlying().(*types.Array)
	if !ok {
		return 0, false
	}
	b, ok := a.Elem().Underlying().(*types.Basic)
	if !ok || b.Kind() != types.Uint8 {
		return 0, false
	}
	return a.Len(), true
}

// c09SeedLocals gives the local byte arrays of fn their roles: 64 bytes = a
// key-stream block buffer; up to 32 bytes = tracked, all zero. An array
// declared inside a loop is zeroed again on every iteration, which the
// one-time seeding cannot express: it stays untracked (anything that depends
// on its bytes is then undecided, never silently accepted).
func c09SeedLocals(w *pathWalker, fn *ssa.Function) {
	for _, b := range fn.Blocks {
		onCycle := reach(b.Succs, nil)[b]
		for _, in := range b.Instrs {
			al, ok := in.(*ssa.Alloc)
			if !ok {
				continue
			}
			n, isB := c09ByteArrayPtr(al.Type())
			p := accessPath(al)
			if !isB || p == "" {
				continue
			}
			switch {
			case n == 64:
				w.cls[al] = "ks"
				w.off[al] = 0
			case n <= 32 && !onCycle:
				for i := int64(0); i < n; i++ {
					w.state[c09Key(p, i)] = 0
				}
			}
		}
	}
}

func c09Walker(f *ssa.Function, roles []string, maxSteps int, opaque map[string]bool) *pathWalker {
	w := &pathWalker{env: newEnv(), lengths: true, maxSteps: maxSteps, opaque: opaque,
		state: map[string]int64{}, cls: map[ssa.Value]string{}, off: map[ssa.Value]int64{}}
	for i, r := range roles {
		if r != "" && i < len(f.Params) {
			w.cls[f.Params[i]] = r
			w.off[f.Params[i]] = 0
		}
	}
	c09SeedLocals(w, f)
	w.onSlice = func(w *pathWalker, sl *ssa.Slice) {
		delete(w.cls, sl)
		delete(w.off, sl)
		r, o, isR := c09Role(w, sl.X)
		if !isR {
			return
		}
		lo := int64(0)
		if sl.Low != nil {
			n, ok := w.env.eval(sl.Low)
			if !ok {
				return
			}
			lo = n
		}
		w.cls[sl] = r
		w.off[sl] = o + lo
	}
	w.onPhi = func(w *pathWalker, ph *ssa.Phi, in ssa.Value) {
		cl, ok := w.cls[in]
		o := w.off[in]
		if !ok {
			if _, isPtr := in.Type().Underlying().(*types.Pointer); isPtr {
				if p := w.path(in); p != "" {
					cl, o, ok = "@"+p, 0, true
				}
			}
		}
		if ok {
			w.cls[ph] = cl
			w.off[ph] = o
		} else {
			delete(w.cls, ph)
			delete(w.off, ph)
		}
	}
	w.onInline = func(parent, child *pathWalker, callee *ssa.Function, args []ssa.Value) {
		if child.state == nil {
			child.state = map[string]int64{}
		}
		c09SeedLocals(child, callee)
	}
	// results of a helper: a returned pointer keeps naming the caller's storage
	// (or the helper's own local array, carried over under a fresh name), an
	// array returned by value carries its tracked bytes to the store that
	// receives it (c09StoreResult).
	w.onReturn = func(parent, child *pathWalker, call *ssa.Call, results []ssa.Value) {
		if len(results) != 1 {
			return
		}
		r := results[0]
		if _, isArr := c09ByteArray(r.Type()); isArr {
			if q := child.valPath(r); q != "" {
				for k, v := range child.state {
					if strings.HasPrefix(k, q+"[") {
						parent.state["ret."+call.Name()+k[len(q):]] = v
					}
				}
			}
			return
		}
		if _, isPtr := r.Type().Underlying().(*types.Pointer); !isPtr {
			return
		}
		if cl, ok := parent.cls[call]; ok && !strings.HasPrefix(cl, "@") {
			return // a role ("key") came back unchanged
		}
		delete(parent.cls, call)
		q := c09Ptr(child, r)
		if q == "" {
			return
		}
		callee := call.Call.StaticCallee()
		for i, p := range callee.Params {
			if q != p.Name() && !strings.HasPrefix(q, p.Name()+"[") && !strings.HasPrefix(q, p.Name()+".") {
				continue
			}
			if i >= len(call.Call.Args) {
				return
			}
			arg := call.Call.Args[i]
			if ra, oa, isR := c09Role(parent, arg); isR && q == p.Name() {
				parent.cls[call], parent.off[call] = ra, oa
			} else if pp := c09Ptr(parent, arg); pp != "" {
				parent.cls[call], parent.off[call] = "@"+pp+q[len(p.Name()):], 0
			}
			return
		}
		// the helper's own array: carry its bytes over
		name := "ret." + call.Name()
		for k, v := range child.state {
			if strings.HasPrefix(k, q+"[") {
				parent.state[name+k[len(q):]] = v
			}
		}
		parent.cls[call], parent.off[call] = "@"+name, 0
	}
	w.onStore = func(w *pathWalker, st *ssa.Store) string {
		c09StoreResult(w, st)
		return ""
	}
	return w
}

// c09StoreResult: `x = helper(...)` for a helper that returns a byte array by
// value — the bytes recorded by onReturn become the bytes of x.
func c09StoreResult(w *pathWalker, st *ssa.Store) {
	call, ok := st.Val.(*ssa.Call)
	if !ok {
		return
	}
	n, isArr := c09ByteArray(call.Type())
	dst := w.path(st.Addr)
	if !isArr || dst == "" {
		return
	}
	for i := int64(0); i < n; i++ {
		if v, t := w.state[c09Key("ret."+call.Name(), i)]; t {
			w.state[c09Key(dst, i)] = v
		} else {
			delete(w.state, c09Key(dst, i))
		}
	}
}

// c09Role: the role of a slice / pointer value and its byte offset.
func c09Role(w *pathWalker, v ssa.Value) (string, int64, bool) {
	cl, ok := w.cls[v]
	if !ok || strings.HasPrefix(cl, "@") {
		return "", 0, false
	}
	return cl, w.off[v], true
}

// c09Ptr: the tracked-state name of the storage a pointer (or a slice from the
// first byte) denotes.
func c09Ptr(w *pathWalker, v ssa.Value) string {
	if cl, ok := w.cls[v]; ok && strings.HasPrefix(cl, "@") {
		return cl[1:]
	}
	return w.path(v)
}

// c09Bytes: the tracked storage and first byte a slice value denotes.
func c09Bytes(w *pathWalker, v ssa.Value) (string, int64, bool) {
	switch x := v.(type) {
	case *ssa.Slice:
		lo := int64(0)
		if x.Low != nil {
			n, ok := w.env.eval(x.Low)
			if !ok {
				return "", 0, false
			}
			lo = n
		}
		if _, isSlice := x.X.Type().Underlying().(*types.Slice); isSlice {
			b, o, ok := c09Bytes(w, x.X)
			return b, o + lo, ok
		}
		if p := c09Ptr(w, x.X); p != "" {
			return p, lo, true
		}
	case *ssa.Parameter:
		// a helper's slice parameter: the walker made the argument's tracked
		// bytes visible under the parameter's name
		if _, isSlice := x.Type().Underlying().(*types.Slice); isSlice {
			return x.Name(), 0, true
		}
	}
	return "", 0, false
}

func c09Read(w *pathWalker, base string, off, n int64) ([]int64, bool) {
	if base == "" {
		return nil, false
	}
	out := make([]int64, n)
	for i := int64(0); i < n; i++ {
		v, t := w.state[c09Key(base, off+i)]
		if !t {
			return nil, false
		}
		out[i] = v
	}
	return out, true
}

// c09Copy models copy(dst, src) on tracked bytes: min(len) bytes move; bytes of
// the nonce arrive as their abstract identities; bytes of unknown content make
// the destination unknown. Returns a problem text for a copy into the output.
func c09Copy(w *pathWalker, cc *ssa.CallCommon) string {
	if len(cc.Args) != 2 {
		return ""
	}
	if r, _, isR := c09Role(w, cc.Args[0]); isR && r == "out" {
		return "output bytes are produced by a plain copy"
	}
	base, o, ok := c09Bytes(w, cc.Args[0])
	if !ok {
		return ""
	}
	dl, ok1 := w.env.eval(cc.Args[0])
	sl, ok2 := w.env.eval(cc.Args[1])
	if !ok1 || !ok2 {
		for k := range w.state {
			if strings.HasPrefix(k, base+"[") {
				delete(w.state, k)
			}
		}
		return ""
	}
	n := min(dl, sl)
	vals := make([]int64, n)
	known := make([]bool, n)
	if r, so, isR := c09Role(w, cc.Args[1]); isR && r == "nonce" {
		for i := range vals {
			vals[i], known[i] = c09NonceSym+so+int64(i), true
		}
	} else if sb, so, okS := c09Bytes(w, cc.Args[1]); okS {
		for i := range vals {
			vals[i], known[i] = w.state[c09Key(sb, so+int64(i))]
		}
	}
	for i := range vals {
		if known[i] {
			w.state[c09Key(base, o+int64(i))] = vals[i]
		} else {
			delete(w.state, c09Key(base, o+int64(i)))
		}
	}
	return ""
}

// c09ByteSrc: which byte an operand is — element k of a slice / array with a
// role ("in" byte off+k, "ks" byte k).
func c09ByteSrc(w *pathWalker, v ssa.Value) (string, int64, bool) {
	switch x := v.(type) {
	case *ssa.UnOp:
		if x.Op != token.MUL {
			return "", 0, false
		}
		if ia, ok := x.X.(*ssa.IndexAddr); ok {
			r, o, isR := c09Role(w, ia.X)
			k, okk := w.env.eval(ia.Index)
			if isR && okk {
				return r, o + k, true
			}
		}
	case *ssa.Index:
		// element of an array VALUE loaded from a local block (for _, x := range block)
		if u, ok := x.X.(*ssa.UnOp); ok && u.Op == token.MUL {
			r, o, isR := c09Role(w, u.X)
			k, okk := w.env.eval(x.Index)
			if isR && okk {
				return r, o + k, true
			}
		}
	}
	return "", 0, false
}
