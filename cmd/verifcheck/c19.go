package main

import (
	"fmt"
	"go/token"
	"go/types"
	"sort"
	"strings"

	"golang.org/x/tools/go/ssa"
)

func init() {
	register(&propDef{
		id: "C19", run: runC19, minOblig: 12,
		explanation: "Decides structural clauses of bcrypt_pbkdf.Key. (argument errors) Key returns an error exactly when rounds < 1, the password is empty, the salt is empty or longer than 2^20, or keyLen > 1024 — evaluated on the code over boundary values of all four quantities — and nothing is allocated or hashed on those paths; (history independence) no package-level variable that is ever written, and no sync.Pool/Map, is reachable from Key inside the module: the result is a function of the arguments alone, whatever calls preceded it; (layout) numBlocks = ceil(keyLen/32) for every keyLen 0..1024 and the buffer holds numBlocks*32 bytes; the block counter is the 4-byte big-endian block number starting at 1; per block the SHA-512 input is salt | counter for the first round and the previous 32-byte output for every further round, each round's bcryptHash takes (tmp, sha512(password), that digest), later rounds are XOR-folded into the block output and byte i of block b lands at key[i*numBlocks + b-1]; (bcryptHash) the cipher is NewSaltedCipher(shapass, shasalt), 64 rounds of ExpandKey(shasalt) then ExpandKey(shapass), the magic string is \"OxychromaticBlowfishSwatDynamite\", each 8-byte word is encrypted 64 times and every 4-byte group is byte-reversed. NOT decided: Blowfish and SHA-512 values, equality with OpenBSD's implementation on any input.",
		assumptions: []string{"blowfish (C12) and crypto/sha512"},
	})
	tech("C19", "finite-domain evaluation of the argument guards and layout arithmetic, global-state reachability (who-may-read) over the call graph, block-local call-order and argument-provenance rules")
}

func runC19(c *Ctx) {
	const pkg = "ssh/internal/bcrypt_pbkdf"
	f := c.fn(pkg, "Key")
	if f == nil {
		return
	}
	pw, salt, rounds, keyLen := f.Params[0], f.Params[1], f.Params[2], f.Params[3]
	// (a) error predicate
	var mks []ssa.Instruction
	allInstrs(f, func(in ssa.Instruction) {
		switch x := in.(type) {
		case *ssa.MakeSlice:
			mks = append(mks, x)
		case *ssa.Call:
			if short(calleeName(&x.Call)) == "crypto/sha512.New" {
				mks = append(mks, x)
			}
		}
	})
	bad := ""
	rows := 0
	for _, r := range []int64{-1, 0, 1, 2, 16} {
		for _, pl := range []int64{0, 1, 72} {
			for _, sl := range []int64{0, 1, 16, 1 << 20, 1<<20 + 1} {
				for _, kl := range []int64{0, 1, 32, 33, 1024, 1025} {
					e := newEnv()
					e.bind(rounds, r)
					e.bind(keyLen, kl)
					e.bindLen(f, pw, pl)
					e.bindLen(f, salt, sl)
					e.solve(f)
					wantErr := r < 1 || pl == 0 || sl == 0 || sl > 1<<20 || kl > 1024
					work := false
					for _, m := range mks {
						if e.reach[m.Block()] {
							work = true
						}
					}
					okRet, errRet := false, false
					for _, rt := range returnsOf(f) {
						if !e.reach[rt.Block()] {
							continue
						}
						if errNilness(retVal(rt, 1), rt.Block(), 0) == neverNil {
							errRet = true
						} else {
							okRet = true
						}
					}
					rows++
					if wantErr && (work || okRet) || !wantErr && (errRet || !work) {
						bad = fmt.Sprintf("rounds=%d len(password)=%d len(salt)=%d keyLen=%d: error expected=%v, but error-return reachable=%v, key-return reachable=%v, allocation/hashing reachable=%v", r, pl, sl, kl, wantErr, errRet, okRet, work)
					}
				}
			}
		}
	}
	c.check(bad == "" && len(mks) >= 2, "C19.errors", "Key argument guards", f, fmt.Sprintf("%d argument combinations: error iff rounds<1 or empty password or salt length outside 1..2^20 or keyLen>1024, before any allocation", rows), bad)

	// (b) history independence
	c19Globals(c, f)

	// (c) layout arithmetic
	var numBlocks ssa.Value
	var keyMk *ssa.MakeSlice
	allInstrs(f, func(in ssa.Instruction) {
		if m, ok := in.(*ssa.MakeSlice); ok {
			if bo, isB := m.Len.(*ssa.BinOp); isB && bo.Op == token.MUL {
				keyMk = m
				numBlocks = bo.X
				if _, isK := constInt(bo.X); isK {
					numBlocks = bo.Y
				}
			}
		}
	})
	if keyMk == nil {
		c.fail("C19.layout", "key buffer", f, "allocation of numBlocks*blockSize bytes not found")
	} else {
		bad := ""
		for kl := int64(0); kl <= 1024; kl++ {
			e := newEnv()
			e.bind(keyLen, kl)
			nb, ok1 := e.eval(numBlocks)
			ln, ok2 := e.eval(keyMk.Len)
			if !ok1 || !ok2 || nb != (kl+31)/32 || ln != nb*32 {
				bad = fmt.Sprintf("keyLen=%d: numBlocks=%d buffer=%d, expected %d and %d", kl, nb, ln, (kl+31)/32, (kl+31)/32*32)
				break
			}
		}
		c.check(bad == "", "C19.layout", "numBlocks and buffer size", keyMk, "numBlocks = ceil(keyLen/32), buffer = 32*numBlocks for keyLen 0..1024", bad)
		// interleave: store into key[idx], idx evaluated
		okIdx := false
		allInstrs(f, func(in ssa.Instruction) {
			st, ok := in.(*ssa.Store)
			if !ok {
				return
			}
			ia, ok := st.Addr.(*ssa.IndexAddr)
			if !ok || ia.X != ssa.Value(keyMk) {
				return
			}
			// operands: the range index i, numBlocks, block phi
			var leaves []ssa.Value
			var collect func(v ssa.Value, d int)
			collect = func(v ssa.Value, d int) {
				if d > 6 {
					return
				}
				if v == numBlocks {
					return
				}
				if bo, ok := v.(*ssa.BinOp); ok {
					if ph, isPhi := bo.X.(*ssa.Phi); isPhi && ph.Comment == "rangeindex" {
						leaves = append(leaves, v) // the range index (phi+1)
						return
					}
					collect(bo.X, d+1)
					collect(bo.Y, d+1)
					return
				}
				if _, isC := v.(*ssa.Const); !isC {
					leaves = append(leaves, v)
				}
			}
			collect(ia.Index, 0)
			// identify: numBlocks (evaluates from keyLen), block (phi compared with numBlocks), i (other)
			var blockV, iV ssa.Value
			for _, l := range leaves {
				if l == numBlocks {
					continue
				}
				if ph, isPhi := l.(*ssa.Phi); isPhi && ph.Comment == "block" {
					blockV = l
				} else {
					iV = l
				}
			}
			if blockV == nil || iV == nil {
				return
			}
			good := true
			for _, kl := range []int64{32, 64, 100, 1024} {
				for _, i := range []int64{0, 1, 31} {
					for _, b := range []int64{1, 2, 3} {
						e := newEnv()
						e.bind(keyLen, kl)
						e.bind(blockV, b)
						e.bind(iV, i)
						nb := (kl + 31) / 32
						if v, ok := e.eval(ia.Index); !ok || v != i*nb+(b-1) {
							good = false
						}
					}
				}
			}
			if good {
				okIdx = true
			}
		})
		c.check(okIdx, "C19.layout", "output interleaving", f, "byte i of block b is stored at key[i*numBlocks + b-1]", "block output bytes are not interleaved as key[i*numBlocks + (block-1)]")
		// returned slice key[:keyLen]
		okRet := false
		for _, r := range returnsOf(f) {
			if sl, ok := retVal(r, 0).(*ssa.Slice); ok && sl.X == ssa.Value(keyMk) && sl.Low == nil && sl.High == ssa.Value(keyLen) {
				okRet = true
			}
		}
		c.check(okRet, "C19.layout", "result", f, "returns key[:keyLen]", "the result is not the first keyLen bytes of the interleaved buffer")
	}
	// counter bytes: stores into cnt[0..3] evaluate to the big-endian bytes of block; block starts at 1
	var blockPhi *ssa.Phi
	allInstrs(f, func(in ssa.Instruction) {
		if ph, ok := in.(*ssa.Phi); ok && ph.Comment == "block" {
			blockPhi = ph
		}
	})
	okCnt := blockPhi != nil
	if okCnt {
		first := false
		for _, e := range blockPhi.Edges {
			if k, ok := constInt(e); ok && k == 1 {
				first = true
			}
		}
		e := newEnv()
		e.bind(blockPhi, 0x01020304)
		got := map[int64]int64{}
		var cntBase ssa.Value
		allInstrs(f, func(in ssa.Instruction) {
			st, ok := in.(*ssa.Store)
			if !ok {
				return
			}
			ia, ok := st.Addr.(*ssa.IndexAddr)
			if !ok {
				return
			}
			k, isK := constInt(ia.Index)
			v, okv := e.eval(st.Val)
			if isK && okv && dependsOn(st.Val, blockPhi, 4) {
				got[k] = v
				cntBase = ia.X
			}
		})
		okCnt = first && len(got) == 4 && got[0] == 1 && got[1] == 2 && got[2] == 3 && got[3] == 4
		c.check(okCnt, "C19.layout", "block counter encoding", f, "4-byte big-endian block number, first block 1", fmt.Sprintf("the block counter is not the big-endian 32-bit block number starting at 1 (bytes for 0x01020304: %v, starts at 1: %v)", got, first))
		c19HashLengths(c)
		// the order/provenance rule below assumes the streaming form
		// (h.Write(salt); h.Write(cnt); h.Sum): it is run only when that form is present
		if len(callsNamed(f, "crypto/sha512.New")) == 1 {
			c19HashOrder(c, f, pw, salt, cntBase)
		}
	} else {
		c.fail("C19.layout", "block counter encoding", f, "block loop variable not found")
	}
	c19BcryptHash(c, pkg)
}

func c19HashOrder(c *Ctx, f *ssa.Function, pw, salt ssa.Value, cnt ssa.Value) {
	// h: result of sha512.New
	var h ssa.Value
	for _, ci := range callsNamed(f, "crypto/sha512.New") {
		h = callValue(ci)
	}
	if h == nil {
		c.fail("C19.hash-order", "sha512", f, "sha512.New not found")
		return
	}
	type ev struct {
		m   string
		arg ssa.Value
		in  *ssa.Call
	}
	perBlock := map[*ssa.BasicBlock][]ev{}
	var blocks []*ssa.BasicBlock
	allInstrs(f, func(in ssa.Instruction) {
		cl, ok := in.(*ssa.Call)
		if !ok || !cl.Call.IsInvoke() || cl.Call.Value != h {
			return
		}
		var a ssa.Value
		if len(cl.Call.Args) == 1 {
			a = cl.Call.Args[0]
		}
		if _, seen := perBlock[cl.Block()]; !seen {
			blocks = append(blocks, cl.Block())
		}
		perBlock[cl.Block()] = append(perBlock[cl.Block()], ev{cl.Call.Method.Name(), a, cl})
	})
	sort.Slice(blocks, func(i, j int) bool { return blocks[i].Index < blocks[j].Index })
	// tmp: first argument of bcryptHash
	bh := callsNamed(f, "ssh/internal/bcrypt_pbkdf.bcryptHash")
	if len(bh) != 2 {
		c.fail("C19.hash-order", "bcryptHash calls", f, fmt.Sprintf("expected 2 calls (first round, later rounds), found %d", len(bh)))
		return
	}
	tmp := bh[0].Common().Args[0]
	shapass := bh[0].Common().Args[1]
	// shapass = h.Sum(nil) after h.Write(password)
	okPass := false
	if sp, ok := shapass.(*ssa.Call); ok && sp.Call.IsInvoke() && sp.Call.Value == h && sp.Call.Method.Name() == "Sum" && isNilConst(sp.Call.Args[0]) {
		evs := perBlock[sp.Block()]
		if len(evs) >= 2 && evs[0].m == "Write" && evs[0].arg == pw && evs[1].in == sp {
			okPass = true
		}
	}
	c.check(okPass, "C19.hash-order", "shapass = SHA-512(password)", f, "the password digest is SHA-512 over exactly the password", "the password digest is not SHA-512(password)")
	seqOf := func(call ssa.CallInstruction) string {
		var toks []string
		for _, e := range perBlock[call.Block()] {
			if !precedes(e.in, call) && ssa.Instruction(e.in) != call.Common().Args[2].(ssa.Instruction) {
				continue
			}
			a := ""
			switch {
			case e.arg == nil:
			case e.arg == salt:
				a = "salt"
			case e.arg == pw:
				a = "password"
			case e.arg == tmp:
				a = "tmp"
			case cnt != nil && e.arg == cnt:
				a = "counter"
			default:
				a = "buf"
			}
			toks = append(toks, e.m+"("+a+")")
		}
		return strings.Join(toks, " ")
	}
	s0, s1 := seqOf(bh[0]), seqOf(bh[1])
	okArgs := func(ci ssa.CallInstruction) bool {
		a := ci.Common().Args
		sm, ok := a[2].(*ssa.Call)
		return a[0] == tmp && a[1] == shapass && ok && sm.Call.IsInvoke() && sm.Call.Value == h && sm.Call.Method.Name() == "Sum"
	}
	c.check(strings.HasSuffix(s0, "Reset() Write(salt) Write(counter) Sum(buf)") && okArgs(bh[0]), "C19.hash-order", "first round", bh[0], "SHA-512(salt | counter) -> bcryptHash(tmp, shapass, digest)", "first round hashes ["+s0+"], expected Reset Write(salt) Write(counter) Sum and bcryptHash(tmp, shapass, digest)")
	c.check(s1 == "Reset() Write(tmp) Sum(buf)" && okArgs(bh[1]), "C19.hash-order", "later rounds", bh[1], "SHA-512(previous output) -> bcryptHash(tmp, shapass, digest)", "later rounds hash ["+s1+"], expected Reset Write(tmp) Sum and bcryptHash(tmp, shapass, digest)")
	// the second call sits in a loop from 2 to rounds
	okLoop := innermostLoopHeader(bh[1].Block()) != nil && innermostLoopHeader(bh[1].Block()) != innermostLoopHeader(bh[0].Block())
	c.check(okLoop, "C19.hash-order", "round loop", bh[1], "later rounds are inside their own loop within the block loop", "the later-round hashing is not in a nested round loop")
	// XOR folding: out[j] ^= tmp[j]
	okXor := false
	allInstrs(f, func(in ssa.Instruction) {
		st, ok := in.(*ssa.Store)
		if !ok {
			return
		}
		bo, ok := st.Val.(*ssa.BinOp)
		if !ok || bo.Op != token.XOR {
			return
		}
		dst, ok := st.Addr.(*ssa.IndexAddr)
		if !ok {
			return
		}
		lx, okx := bo.X.(*ssa.UnOp)
		ly, oky := bo.Y.(*ssa.UnOp)
		if !okx || !oky {
			return
		}
		ax, okx := lx.X.(*ssa.IndexAddr)
		ay, oky := ly.X.(*ssa.IndexAddr)
		if !okx || !oky {
			return
		}
		if ax.X == dst.X && ay.X == tmp && ax.Index == dst.Index && ay.Index == dst.Index {
			okXor = true
		}
		if ay.X == dst.X && ax.X == tmp && ax.Index == dst.Index && ay.Index == dst.Index {
			okXor = true
		}
	})
	c.check(okXor, "C19.hash-order", "XOR folding", f, "out[j] ^= tmp[j] for every later round", "later rounds are not XOR-folded into the block output")
}

func c19Globals(c *Ctx, root *ssa.Function) {
	reach := c.reachableFrom([]*ssa.Function{root})
	// globals written anywhere in the module outside init
	written := map[*ssa.Global]string{}
	for _, p := range c.ld.prog.AllPackages() {
		if p.Pkg == nil || !strings.HasPrefix(p.Pkg.Path(), modPath) {
			continue
		}
		for _, m := range p.Members {
			fn, ok := m.(*ssa.Function)
			if !ok {
				continue
			}
			for _, g := range withClosures(fn) {
				if g.Name() == "init" || strings.HasPrefix(g.Name(), "init#") {
					continue
				}
				allInstrs(g, func(in ssa.Instruction) {
					if st, ok := in.(*ssa.Store); ok {
						if gl, ok := st.Addr.(*ssa.Global); ok {
							written[gl] = g.String()
						}
					}
				})
			}
		}
	}
	var offenders []string
	n := 0
	for fn := range reach {
		if fn.Pkg == nil || !strings.HasPrefix(fn.Pkg.Pkg.Path(), modPath) {
			continue
		}
		n++
		allInstrs(fn, func(in ssa.Instruction) {
			for _, op := range in.Operands(nil) {
				gl, ok := (*op).(*ssa.Global)
				if !ok {
					continue
				}
				if w, isW := written[gl]; isW {
					offenders = append(offenders, fmt.Sprintf("%s uses %s (written by %s)", short(fn.String()), gl.Name(), short(w)))
				}
				t := gl.Type().(*types.Pointer).Elem().String()
				if strings.HasPrefix(t, "sync.") || strings.Contains(t, "sync.Pool") || strings.Contains(t, "sync.Map") {
					offenders = append(offenders, fmt.Sprintf("%s uses %s of type %s", short(fn.String()), gl.Name(), t))
				}
			}
		})
	}
	sort.Strings(offenders)
	detail := ""
	if len(offenders) > 0 {
		detail = offenders[0]
	}
	c.check(len(offenders) == 0 && n >= 2, "C19.history-independent", "Key reads no mutable package state", root, fmt.Sprintf("%d module functions reachable from Key use only never-written package variables (constant tables)", n), "the derived key can depend on earlier calls: "+detail)
}

func c19BcryptHash(c *Ctx, pkg string) {
	f := c.fn(pkg, "bcryptHash")
	if f == nil {
		return
	}
	out, shapass, shasalt := f.Params[0], f.Params[1], f.Params[2]
	nsc := callsNamed(f, "blowfish.NewSaltedCipher")
	ok := len(nsc) == 1 && nsc[0].Common().Args[0] == ssa.Value(shapass) && nsc[0].Common().Args[1] == ssa.Value(shasalt)
	c.check(ok, "C19.bcrypt-hash", "cipher setup", f, "NewSaltedCipher(shapass, shasalt)", "the Blowfish state is not initialised with key=shapass, salt=shasalt")
	ek := callsNamed(f, "blowfish.ExpandKey")
	ok = len(ek) == 2 && ek[0].Block() == ek[1].Block() && precedes(ek[0], ek[1]) && ek[0].Common().Args[0] == ssa.Value(shasalt) && ek[1].Common().Args[0] == ssa.Value(shapass) && innermostLoopHeader(ek[0].Block()) != nil
	c.check(ok, "C19.bcrypt-hash", "expansion order", f, "each round: ExpandKey(shasalt) then ExpandKey(shapass)", "a round does not expand with the salt digest first and the password digest second")
	// loop bounds: constants 64 (rounds), 64 (encryptions), 32 (words)
	consts := map[int64]int{}
	allInstrs(f, func(in ssa.Instruction) {
		if bo, ok := in.(*ssa.BinOp); ok && bo.Op == token.LSS {
			if k, isK := constInt(bo.Y); isK {
				consts[k]++
			}
		}
	})
	c.check(consts[64] == 2 && consts[32] == 2, "C19.bcrypt-hash", "loop bounds", f, "64 expansion rounds; 64 encryptions of each of the 4 words; 8 byte-swaps over 32 bytes", fmt.Sprintf("loop bounds differ from 64/64/32/32: %v", consts))
	m, _ := c.bytesGlobal(pkg, "magic")
	c.check(m == "OxychromaticBlowfishSwatDynamite", "C19.bcrypt-hash", "magic", f, "32-byte magic string", "the magic plaintext differs from OpenBSD's")
	okCopy := false
	for _, ci := range callsNamed(f, "builtin:copy") {
		if ci.Common().Args[0] == ssa.Value(out) && isGlobalLoad(ci.Common().Args[1], "magic") {
			okCopy = true
		}
	}
	c.check(okCopy, "C19.bcrypt-hash", "plaintext", f, "out starts as the magic string", "the encrypted block does not start from the magic string")
	// byte reversal: stores out[i+k] = load out[i+3-k]
	pairs := map[[2]int64]bool{}
	off := func(v ssa.Value) (int64, bool) {
		ia, ok := v.(*ssa.IndexAddr)
		if !ok || ia.X != ssa.Value(out) {
			return 0, false
		}
		switch x := ia.Index.(type) {
		case *ssa.Phi:
			return 0, true
		case *ssa.BinOp:
			if k, isK := constInt(x.Y); isK && x.Op == token.ADD {
				if _, isPhi := x.X.(*ssa.Phi); isPhi {
					return k, true
				}
			}
		}
		return 0, false
	}
	allInstrs(f, func(in ssa.Instruction) {
		st, ok := in.(*ssa.Store)
		if !ok {
			return
		}
		d, okd := off(st.Addr)
		ld, isL := st.Val.(*ssa.UnOp)
		if !okd || !isL {
			return
		}
		s, oks := off(ld.X)
		if oks {
			pairs[[2]int64{d, s}] = true
		}
	})
	c.check(pairs[[2]int64{0, 3}] && pairs[[2]int64{1, 2}] && pairs[[2]int64{2, 1}] && pairs[[2]int64{3, 0}], "C19.bcrypt-hash", "word byte order", f, "every 4-byte group is reversed", fmt.Sprintf("the final byte swap is not a reversal of each 4-byte group: %v", pairs))
}
