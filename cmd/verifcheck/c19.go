package main

import (
	"fmt"
	"go/types"
	"sort"
	"strings"

	"golang.org/x/tools/go/ssa"
)

func init() {
	register(&propDef{
		id: "C19", run: runC19, minOblig: 12,
		explanation: "Decides bcrypt_pbkdf.Key against the OpenBSD algorithm modulo the primitives: Key (with everything it calls inside its package, closures and the pure helpers of encoding/binary, math/bits and slices) is interpreted abstractly — lengths, counters and indices concrete, every byte of password and salt a symbol, SHA-512 and Blowfish (NewSaltedCipher, ExpandKey, Encrypt) uninterpreted functions, memory with real aliasing — and the term of every returned byte is compared with the term the reference algorithm yields; the verdicts do not depend on how the code is split into functions, on loop forms, names, or on which equivalent library call (copy, subtle.XORBytes, binary.BigEndian, Sum512 vs streaming hash) is used. (argument errors) over boundary values of rounds, len(password), len(salt) (0, 1, 16, 2^20, 2^20+1) and keyLen (0..1025) Key returns a non-nil error and a nil key exactly when rounds < 1, the password is empty, the salt is empty or longer than 2^20, or keyLen > 1024, and otherwise keyLen bytes with a nil error; (history independence) no package-level variable that is ever written, and no sync.Pool/Map, is reachable from Key inside the module; (bcryptHash, from the term of a one-round block) the cipher is NewSaltedCipher(SHA512(password), SHA512(salt|counter)), followed by 64 times ExpandKey(salt digest) then ExpandKey(password digest), the plaintext is \"OxychromaticBlowfishSwatDynamite\", each 8-byte word is encrypted 64 times under the final state and every 4-byte group is byte-reversed; (layout) the block counter is the 4-byte big-endian block number starting at 1 for all 32 blocks, the result has keyLen bytes and byte i of block b lands at key[i*numBlocks + b-1] for 16 key lengths between 0 and 1024; (rounds) every later round hashes exactly the previous 32-byte output and is XOR-folded into the block; (salt lengths) the same equality for salt lengths 1, 16, 59..66, 100; password and salt are not written. NOT decided: Blowfish and SHA-512 values, equality with OpenBSD's implementation on concrete inputs, lengths outside the listed grids.",
		assumptions: []string{"blowfish (C12) and crypto/sha512", "the documented contracts of copy/append/clear, crypto/subtle.XORBytes, hash.Hash (Write/Reset/Sum)"},
	})
	tech("C19", "symbolic interpretation of Key over a term algebra with SHA-512 and Blowfish as uninterpreted functions, compared with the reference algorithm's terms; global-state reachability (who-may-read) over the call graph")
}

const c19Pkg = "ssh/internal/bcrypt_pbkdf"

// c19Ctx carries one evaluation: the interpreter, the inputs (shared between
// runs, checked to be unmodified at the end) and the function under test.
type c19Ctx struct {
	c      *Ctx
	ev     *c19Eval
	f      *ssa.Function
	inputs map[string][]c19Val
	specs  map[[4]int64][2][]c19T
}

func (x *c19Ctx) input(kind string, base c19T, n int) []c19Val {
	k := fmt.Sprintf("%s/%d", kind, n)
	if s, ok := x.inputs[k]; ok {
		return s
	}
	s := c19Input(base, n)
	x.inputs[k] = s
	return s
}

// run interprets Key for the given lengths; spec is the reference result.
func (x *c19Ctx) run(pl, sl int, rounds, keyLen int64) c19Outcome {
	return x.ev.runKey(x.f, x.input("password", c19PwBase, pl), x.input("salt", c19SaltBase, sl), rounds, keyLen)
}

func (x *c19Ctx) spec(pl, sl int, rounds, keyLen int64) ([]c19T, []c19T) {
	k := [4]int64{int64(pl), int64(sl), rounds, keyLen}
	if s, ok := x.specs[k]; ok {
		return s[0], s[1]
	}
	key, hs := x.ev.T.specKey(c19Ids(c19PwBase, pl), c19Ids(c19SaltBase, sl), int(rounds), int(keyLen))
	if x.specs == nil {
		x.specs = map[[4]int64][2][]c19T{}
	}
	x.specs[k] = [2][]c19T{key, hs}
	return key, hs
}

func c19Case(pl, sl int, rounds, keyLen int64) string {
	return fmt.Sprintf("len(password)=%d len(salt)=%d rounds=%d keyLen=%d", pl, sl, rounds, keyLen)
}

// against compares a run with the reference; "" when they agree. undec tells
// whether the disagreement is a construct outside the model.
func (x *c19Ctx) against(pl, sl int, rounds, keyLen int64) (o c19Outcome, why string, undec bool) {
	o = x.run(pl, sl, rounds, keyLen)
	id := c19Case(pl, sl, rounds, keyLen)
	switch o.kind {
	case "key":
		want, _ := x.spec(pl, sl, rounds, keyLen)
		if d := x.ev.T.diff(o.key, want); d != "" {
			return o, id + ": " + d, false
		}
		return o, "", false
	case "undecided":
		return o, id + ": not decided, " + o.msg + c19Where(o), true
	case "error":
		return o, id + ": Key returns the error \"" + o.msg + "\" for valid arguments", false
	}
	return o, id + ": Key panics: " + o.msg + c19Where(o), false
}

func (x *c19Ctx) verdict(rule, construct, okDetail, why string, undec bool) {
	switch {
	case why == "":
		x.c.ok(rule, construct, x.f, okDetail)
	case undec:
		x.c.undecided(rule, construct, x.f, why)
	default:
		x.c.fail(rule, construct, x.f, why)
	}
}

func runC19(c *Ctx) {
	f := c.fn(c19Pkg, "Key")
	if f == nil {
		return
	}
	if len(f.Params) != 4 {
		c.fail("anchor", c19Pkg+".Key", f, "Key no longer takes (password, salt, rounds, keyLen)")
		return
	}
	// (a) history independence
	c19Globals(c, f)

	x := &c19Ctx{c: c, ev: newC19Eval(c, f.Pkg), f: f, inputs: map[string][]c19Val{}}
	// (b) argument errors
	c19Errors(x)
	// (c) one block, one round: what a block is made of
	c19OneBlock(x)
	// (d) block counter, interleaving, result length
	c19Layout(x)
	// (e) later rounds and their folding
	c19Rounds(x)
	// (f) salt lengths around the SHA-512 block size
	c19HashLengths(x)
	// (g) the caller's buffers
	bad := ""
	for k, s := range x.inputs {
		base := c19PwBase
		if strings.HasPrefix(k, "salt") {
			base = c19SaltBase
		}
		for i, v := range s {
			if b, ok := v.(c19Byte); !ok || c19T(b) != base+c19T(i) {
				bad = fmt.Sprintf("byte %d of the caller's %s bytes is overwritten", i, k)
				break
			}
		}
	}
	c.check(bad == "" && len(x.inputs) > 0, "C19.inputs", "password and salt are only read", f, fmt.Sprintf("%d input buffers unchanged after all evaluations", len(x.inputs)), bad)
}

// c19Errors: the error predicate, on the interpreted code.
func c19Errors(x *c19Ctx) {
	bad, undec := "", false
	rows := 0
	for _, r := range []int64{-1, 0, 1, 2} {
		for _, pl := range []int{0, 1, 72} {
			for _, sl := range []int{0, 1, 16, 1 << 20, 1<<20 + 1} {
				for _, kl := range []int64{0, 1, 32, 33, 1024, 1025} {
					if sl == 1<<20 && r >= 1 && pl > 0 && kl <= 1024 && !(r == 1 && pl == 1 && kl <= 1) {
						continue // a megabyte of salt is hashed once per block: of the valid combinations one block, one round is enough
					}
					if bad != "" {
						continue
					}
					rows++
					wantErr := r < 1 || pl == 0 || sl == 0 || sl > 1<<20 || kl > 1024
					id := c19Case(pl, sl, r, kl)
					o := x.run(pl, sl, r, kl)
					if !wantErr {
						// what the key is made of is the business of the other rules
						switch {
						case o.kind == "undecided":
							bad, undec = id+": not decided, "+o.msg+c19Where(o), true
						case o.kind == "error":
							bad = id + ": Key returns the error \"" + o.msg + "\" for valid arguments"
						case o.kind == "panic":
							bad = id + ": Key panics for valid arguments: " + o.msg + c19Where(o)
						case int64(len(o.key)) != kl:
							bad = id + ": a key of " + itoa(int64(len(o.key))) + " bytes is returned"
						}
						continue
					}
					switch {
					case o.kind == "undecided":
						bad, undec = id+": not decided, "+o.msg+c19Where(o), true
					case o.kind == "key":
						bad = id + ": no error is returned (a key of " + itoa(int64(len(o.key))) + " bytes is)"
					case o.kind == "panic":
						bad = id + ": Key panics instead of returning an error: " + o.msg
					case !o.keyNil || len(o.key) != 0:
						bad = id + ": a non-nil key is returned together with the error"
					}
				}
			}
		}
	}
	x.verdict("C19.errors", "Key argument guards", fmt.Sprintf("%d argument combinations: error (and a nil key) iff rounds<1 or empty password or salt length outside 1..2^20 or keyLen>1024; a key of keyLen bytes and a nil error otherwise", rows), bad, undec)
}

// c19OneBlock destructures the 32 bytes derived for one block and one round.
func c19OneBlock(x *c19Ctx) {
	T := x.ev.T
	const pl, sl = 3, 5
	o, why, undec := x.against(pl, sl, 1, 32)
	rule := "C19.bcrypt-hash"
	if o.kind != "key" || len(o.key) != 32 {
		if why == "" {
			why = "the result has " + itoa(int64(len(o.key))) + " bytes"
		}
		for _, cn := range []string{"cipher setup", "expansion order", "magic", "encryption count", "word byte order"} {
			x.verdict(rule, cn, "", why, undec)
		}
		x.verdict("C19.hash-order", "shapass = SHA-512(password)", "", why, undec)
		x.verdict("C19.hash-order", "first round", "", why, undec)
		return
	}
	bl := T.dissect(o.key)
	if bl.why != "" {
		// the 32 bytes are not one block of Blowfish output: say so once, under
		// the rule it belongs to; the finer questions cannot be asked
		if bl.mixed {
			x.verdict("C19.layout", "one block for keyLen 32", "", bl.why, false)
		} else {
			x.verdict(rule, "block output", "", bl.why, false)
		}
		rest := "not evaluated: " + bl.why
		for _, cn := range []string{"cipher setup", "expansion order", "magic", "encryption count", "word byte order"} {
			x.verdict(rule, cn, "", rest, true)
		}
		x.verdict("C19.hash-order", "shapass = SHA-512(password)", "", rest, true)
		x.verdict("C19.hash-order", "first round", "", rest, true)
		return
	}
	// digests
	// Every byte string that keys the cipher is classified by ROLE: "pass" is
	// SHA-512 over exactly the password, "salt" is SHA-512 over salt | 4 bytes.
	pwIds, saltIds := c19Ids(c19PwBase, pl), c19Ids(c19SaltBase, sl)
	role := func(bs []c19T) string {
		in, ok := T.digestOf(bs)
		switch {
		case !ok:
			return "other"
		case c19Same(in, pwIds):
			return "pass"
		case len(in) == sl+4 && c19Same(in[:sl], saltIds):
			return "salt"
		}
		return "other"
	}
	uses := append([][]c19T{bl.initKey, bl.initSlt}, bl.expKeys...)
	var passD, saltD []c19T
	var other []string
	for _, u := range uses {
		switch role(u) {
		case "pass":
			passD = u
		case "salt":
			if saltD == nil {
				saltD = u
			}
		default:
			if in, ok := T.digestOf(u); ok {
				other = append(other, "SHA512("+T.seq(in, 1)+")")
			} else {
				other = append(other, T.seq(u, 1))
			}
		}
	}
	bad := ""
	switch {
	case bl.stWhy != "":
		bad = bl.stWhy
	case passD == nil:
		bad = fmt.Sprintf("nothing that keys the cipher is SHA-512 over exactly the password (it is keyed with %s)", strings.Join(c19Head(c19Uniq(other)), ", "))
	}
	x.verdict("C19.hash-order", "shapass = SHA-512(password)", "the password enters as SHA-512 over exactly the password bytes", bad, false)
	bad = ""
	switch {
	case bl.stWhy != "":
		bad = bl.stWhy
	case saltD == nil:
		bad = fmt.Sprintf("nothing that keys the cipher is SHA-512(salt | 4-byte block counter) (it is keyed with %s)", strings.Join(c19Head(c19Uniq(other)), ", "))
	default:
		if in, _ := T.digestOf(saltD); !c19Same(in[sl:], []c19T{0, 0, 0, 1}) {
			bad = "the first round of block 1 hashes " + T.seq(in, 2) + ", expected salt | 0x00000001 (the big-endian 32-bit block number, starting at 1)"
		}
	}
	x.verdict("C19.hash-order", "first round", "the salt enters as SHA-512(salt | 00000001) for the first block", bad, false)
	// cipher set-up
	bad = ""
	switch {
	case bl.stWhy != "":
		bad = bl.stWhy
	case role(bl.initKey) == "salt" && role(bl.initSlt) == "pass":
		bad = "NewSaltedCipher is called with key and salt swapped: key=SHA512(salt|counter), salt=SHA512(password)"
	case role(bl.initKey) != "pass" || role(bl.initSlt) != "salt":
		bad = "the Blowfish state is initialised with key=" + T.seq(bl.initKey, 2) + ", salt=" + T.seq(bl.initSlt, 2) + "; expected key=SHA512(password), salt=SHA512(salt|counter)"
	}
	x.verdict(rule, "cipher setup", "NewSaltedCipher(shapass, shasalt)", bad, false)
	// expansion order
	bad = ""
	if bl.stWhy != "" {
		bad = bl.stWhy
	} else if len(bl.expKeys) != 128 {
		bad = fmt.Sprintf("%d key expansions, expected 64 rounds of ExpandKey(shasalt), ExpandKey(shapass)", len(bl.expKeys))
	} else {
		for i, k := range bl.expKeys {
			want, nm := saltD, "the salt digest"
			if i%2 == 1 {
				want, nm = passD, "the password digest"
			}
			if want == nil || !c19Same(k, want) {
				bad = fmt.Sprintf("expansion #%d uses %s, expected %s (each round: ExpandKey(shasalt) then ExpandKey(shapass))", i+1, T.seq(k, 2), nm)
				break
			}
		}
	}
	x.verdict(rule, "expansion order", "64 rounds, each ExpandKey(shasalt) then ExpandKey(shapass)", bad, false)
	// plaintext, encryption count, byte order — per 8-byte word
	badMagic, badCount, badOrder := "", "", ""
	for w := 0; w < 4; w++ {
		e := bl.enc[8*w]
		ch := bl.chains[e]
		var wantPlain []c19T
		for i := 0; i < 8; i++ {
			wantPlain = append(wantPlain, c19T(c19Magic[8*w+i]))
		}
		if badMagic == "" && !c19Same(ch.plain, wantPlain) {
			badMagic = fmt.Sprintf("word %d is the encryption of %s, expected %q", w, T.seq(ch.plain, 1), c19Magic[8*w:8*w+8])
		}
		if badCount == "" && (ch.depth != 64 || !ch.straight || ch.state != bl.state) {
			badCount = fmt.Sprintf("word %d is encrypted %d times (same state throughout: %v), expected 64 times under the expanded state", w, ch.depth, ch.straight && ch.state == bl.state)
		}
		for j := 8 * w; j < 8*w+8 && badOrder == ""; j++ {
			wantPos := (j%8)/4*4 + 3 - j%4
			if bl.enc[j] != e || bl.pos[j] != wantPos {
				badOrder = fmt.Sprintf("output byte %d is byte %d of its cipher block%s, expected byte %d (every 4-byte group reversed)", j, bl.pos[j], map[bool]string{true: "", false: " (of another word)"}[bl.enc[j] == e], wantPos)
			}
		}
	}
	x.verdict(rule, "magic", "the plaintext is the 32-byte magic string", badMagic, false)
	x.verdict(rule, "encryption count", "each of the 4 words is encrypted 64 times under the fully expanded state", badCount, false)
	x.verdict(rule, "word byte order", "every 4-byte group is reversed", badOrder, false)
	if why != "" { // the parts agree but the whole does not: report it
		x.verdict(rule, "block", "", why, undec)
	}
}

// c19Layout: counter bytes of all 32 blocks, interleaving and result length.
func c19Layout(x *c19Ctx) {
	T := x.ev.T
	const pl, sl = 3, 5
	o, why, undec := x.against(pl, sl, 1, 1024)
	bad := ""
	if o.kind != "key" || len(o.key) != 1024 {
		bad = why
		if bad == "" {
			bad = "the result has " + itoa(int64(len(o.key))) + " bytes, expected 1024"
		}
	} else {
		// the counters that occur, whatever position the blocks are stored at
		seen := map[string]bool{}
		for _, t := range o.key {
			var ctr []c19T
			if n := T.get(t); n != nil && n.op == "B" {
				if e := T.get(n.args[0]); e != nil && e.op == "E" {
					st := T.chain(n.args[0]).state
					for {
						sn := T.get(st)
						if sn == nil || sn.op != "X" {
							break
						}
						st = sn.args[0]
					}
					if sn := T.get(st); sn != nil && sn.op == "I" {
						k, s := c19SplitInit(sn.args)
						for _, cand := range [][]c19T{s, k} {
							if in, ok := T.digestOf(cand); ok && ctr == nil && len(in) == sl+4 && c19Same(in[:sl], c19Ids(c19SaltBase, sl)) {
								ctr = in[sl:]
							}
						}
					}
				}
			}
			if ctr == nil {
				bad = "a key byte is " + T.desc(t, 2) + ", from which no block counter can be read"
				break
			}
			seen[T.seq(ctr, 0)] = true
		}
		if bad == "" {
			var miss []string
			for b := 1; b <= 32; b++ {
				k := fmt.Sprintf("0x%08x", b)
				if !seen[k] {
					miss = append(miss, k)
				}
				delete(seen, k)
			}
			if len(miss) > 0 || len(seen) > 0 {
				var extra []string
				for k := range seen {
					extra = append(extra, k)
				}
				sort.Strings(extra)
				bad = fmt.Sprintf("the block counter is not the big-endian 32-bit block number starting at 1: counters %v are used instead of %v", c19Head(extra), c19Head(miss))
			}
		}
	}
	x.verdict("C19.layout", "block counter encoding", "32 blocks hash salt | 00000001 .. salt | 00000020 (4-byte big-endian, first block 1)", bad, undec && bad == why)
	// interleaving and length over key lengths
	bad = why
	n := 1
	for _, kl := range []int64{0, 1, 31, 32, 33, 63, 64, 65, 96, 100, 255, 256, 257, 1000, 1023} {
		if bad != "" {
			break
		}
		n++
		_, bad, undec = x.against(pl, sl, 1, kl)
	}
	x.verdict("C19.layout", "output interleaving", fmt.Sprintf("%d key lengths 0..1024: the result has keyLen bytes, byte i of block b is key[i*ceil(keyLen/32) + b-1]", n), bad, undec)
}

func c19Uniq(s []string) []string {
	seen := map[string]bool{}
	var out []string
	for _, v := range s {
		if !seen[v] {
			seen[v] = true
			out = append(out, v)
		}
	}
	return out
}

func c19Head(s []string) []string {
	if len(s) > 4 {
		return append(append([]string(nil), s[:4]...), "…")
	}
	return s
}

// c19Rounds: rounds 2 and 3, one and two blocks.
func c19Rounds(x *c19Ctx) {
	T := x.ev.T
	badH, badX := "", ""
	undecH, undecX := false, false
	n := 0
	for _, cs := range [][2]int64{{2, 32}, {3, 32}, {3, 64}, {5, 33}} {
		if badH != "" || badX != "" {
			break
		}
		n++
		o, why, undec := x.against(3, 5, cs[0], cs[1])
		id := c19Case(3, 5, cs[0], cs[1])
		if o.kind != "key" {
			badH, undecH, badX, undecX = why, undec, why, undec
			break
		}
		_, wantH := x.spec(3, 5, cs[0], cs[1])
		if d := T.hashDiff(c19HashNodes(o.trace), wantH); d != "" {
			badH = id + ": " + d + " (every later round hashes the previous 32-byte output)"
		}
		badX, undecX = why, undec
	}
	x.verdict("C19.hash-order", "later rounds", fmt.Sprintf("%d (rounds, keyLen) cases: the SHA-512 computations are exactly password, salt|counter per block, previous output per later round", n), badH, undecH)
	x.verdict("C19.hash-order", "XOR folding", fmt.Sprintf("%d (rounds, keyLen) cases: a block is the XOR of the outputs of all its rounds", n), badX, undecX)
}

func c19Globals(c *Ctx, root *ssa.Function) {
	reach := c.reachableFrom([]*ssa.Function{root})
	// globals written anywhere in the module outside init
	written := map[*ssa.Global]string{}
	for _, p := range c.ld.prog.AllPackages() {
		if p.Pkg == nil || !strings.HasPrefix(p.Pkg.Path(), modPath) {
			continue
		}
		for _, m := range p.Members {
			fn, ok := m.(*ssa.Function)
			if !ok {
				continue
			}
			for _, g := range withClosures(fn) {
				if g.Name() == "init" || strings.HasPrefix(g.Name(), "init#") {
					continue
				}
				allInstrs(g, func(in ssa.Instruction) {
					if st, ok := in.(*ssa.Store); ok {
						if gl, ok := st.Addr.(*ssa.Global); ok {
							written[gl] = g.String()
						}
					}
				})
			}
		}
	}
	var offenders []string
	n := 0
	for fn := range reach {
		if fn.Pkg == nil || !strings.HasPrefix(fn.Pkg.Pkg.Path(), modPath) {
			continue
		}
		n++
		allInstrs(fn, func(in ssa.Instruction) {
			for _, op := range in.Operands(nil) {
				gl, ok := (*op).(*ssa.Global)
				if !ok {
					continue
				}
				if w, isW := written[gl]; isW {
					offenders = append(offenders, fmt.Sprintf("%s uses %s (written by %s)", short(fn.String()), gl.Name(), short(w)))
				}
				t := gl.Type().(*types.Pointer).Elem().String()
				if strings.HasPrefix(t, "sync.") || strings.Contains(t, "sync.Pool") || strings.Contains(t, "sync.Map") {
					offenders = append(offenders, fmt.Sprintf("%s uses %s of type %s", short(fn.String()), gl.Name(), t))
				}
			}
		})
	}
	sort.Strings(offenders)
	detail := ""
	if len(offenders) > 0 {
		detail = offenders[0]
	}
	c.check(len(offenders) == 0 && n >= 2, "C19.history-independent", "Key reads no mutable package state", root, fmt.Sprintf("%d module functions reachable from Key use only never-written package variables (constant tables)", n), "the derived key can depend on earlier calls: "+detail)
}
