package main

import (
	"fmt"
	"os"
	"sort"
	"strconv"
	"strings"

	"golang.org/x/tools/go/ssa"
)

// c29_rules.go: the C29 rules stated over the paths of the symbolic executor
// (c29_sx.go). Every rule is a fact about the ACCEPTING paths of a function
// (those that return without a provably non-nil error): what was written to the
// exchange hash, from which values the secret was computed, and which tests
// had been decided on the way. How the code is split into helpers, how locals
// are called and in which syntactic form a test is written does not matter.

// c29Debug dumps the paths of one function when C29DEBUG names it.
func c29Debug(c *Ctx) {
	name := os.Getenv("C29DEBUG")
	if name == "" {
		return
	}
	f := c.fnOpt("ssh", name)
	if f == nil {
		fmt.Println("C29DEBUG: no function", name)
		return
	}
	sx := c29NewSX(f)
	for _, o := range strings.Split(os.Getenv("C29OPAQUE"), ",") {
		sx.opaque[o] = true
	}
	sx.dom = c29KexDom(c, os.Getenv("C29EPH"))
	sx.run()
	fmt.Printf("C29DEBUG %s: %d paths, %d steps, why=%q\n", name, len(sx.paths), sx.steps, sx.why)
	n := 0
	for _, p := range sx.paths {
		if os.Getenv("C29ALL") == "" && !(p.end == "return" && p.accepts(len(p.ret)-1)) {
			continue
		}
		if n++; n > 3 {
			break
		}
		fmt.Print(p.dump())
	}
}

// c29Split parses "head(a,b,c)suffix" at the first parenthesis.
func c29Split(t string) (head string, args []string, suffix string, ok bool) {
	// method names look like "(*pkg.T).M(args)" or "invoke:(pkg.I).M(args)":
	// skip the parenthesised receiver type
	pos := 0
	if strings.HasPrefix(t, "invoke:") {
		pos = len("invoke:")
	}
	if pos < len(t) && t[pos] == '(' {
		d := 0
		for ; pos < len(t); pos++ {
			if t[pos] == '(' {
				d++
			} else if t[pos] == ')' {
				d--
				if d == 0 {
					break
				}
			}
		}
	}
	if pos >= len(t) {
		return t, nil, "", false
	}
	i := strings.IndexByte(t[pos:], '(')
	if i < 0 {
		return t, nil, "", false
	}
	i += pos
	head = t[:i]
	d := 0
	start := i + 1
	for j := i; j < len(t); j++ {
		switch t[j] {
		case '(', '[':
			d++
		case ')', ']':
			d--
			if d == 0 {
				if j > start || len(args) > 0 {
					args = append(args, t[start:j])
				}
				return head, args, t[j+1:], true
			}
		case ',':
			if d == 1 {
				args = append(args, t[start:j])
				start = j + 1
			}
		}
	}
	return t, nil, "", false
}

func c29Short(t string) string {
	if len(t) > 120 {
		return t[:117] + "..."
	}
	return t
}

// c29KexDom: finite value domains for the integer observations the rules reason
// about: the length of a value received from the peer, the bit length of a
// received prime.
func c29KexDom(c *Ctx, eph string) func(string) []int64 {
	minB, _ := pkgConstInt(c, "ssh", "dhGroupExchangeMinimumBits")
	maxB, _ := pkgConstInt(c, "ssh", "dhGroupExchangeMaximumBits")
	return func(t string) []int64 {
		switch {
		case eph != "" && t == "len("+eph+")":
			return []int64{0, 31, 32, 33, 1119, 1120, 1121, 1215, 1216, 1217, 4096}
		case t == "BitLen(peer:kexDHGexGroupMsg.P)":
			return []int64{0, minB - 1, minB, minB + 1, maxB - 1, maxB, maxB + 1, 1 << 20}
		}
		return nil
	}
}

type c29Run struct {
	c    *Ctx
	fn   *ssa.Function
	name string
	sx   *c29SX
	acc  []*c29Path
}

// c29Exec runs fn; acc are the accepting paths (error result errIdx).
func c29Exec(c *Ctx, rule string, fn *ssa.Function, name string, errIdx int, eph string, opaque ...string) *c29Run {
	sx := c29NewSX(fn)
	for _, o := range opaque {
		sx.opaque[o] = true
	}
	sx.dom = c29KexDom(c, eph)
	sx.run()
	r := &c29Run{c: c, fn: fn, name: name, sx: sx}
	if sx.why != "" {
		c.undecided(rule, name, fn, "path execution incomplete: "+sx.why)
		return nil
	}
	for _, p := range sx.paths {
		if p.accepts(errIdx) {
			r.acc = append(r.acc, p)
		}
	}
	if len(r.acc) == 0 {
		c.fail(rule, name, fn, "no accepting path: the function can never return without an error")
		return nil
	}
	return r
}

// all: one obligation; the fact must hold on every accepting path.
func (r *c29Run) all(rule, construct, okDetail string, fact func(p *c29Path) (string, ssa.Instruction)) bool {
	for _, p := range r.acc {
		if msg, at := fact(p); msg != "" {
			var where poser = r.fn
			if at != nil {
				where = at
			}
			r.c.fail(rule, construct, where, msg)
			return false
		}
	}
	r.c.ok(rule, construct, r.fn, fmt.Sprintf("%s (on all %d accepting paths of %d, helpers executed in place)", okDetail, len(r.acc), len(r.sx.paths)))
	return true
}

// exchangeItems: the writes summed into the H field of the returned kexResult.
func c29ExchangeItems(p *c29Path) ([]c29Item, bool) {
	if len(p.ret) == 0 {
		return nil, false
	}
	h, ok := p.mem[p.ret[0].t+".H"]
	if !ok {
		return nil, false
	}
	its, ok := p.sums[h.t]
	return its, ok
}

// ownField: the value of field fld in a message of type typ that this side
// marshalled AND handed to writePacket on this path.
func (p *c29Path) ownField(typ, fld string) (string, bool) {
	for _, e := range p.events {
		if e.kind != "marshal" || e.name != typ {
			continue
		}
		if v, ok := e.fields[fld]; ok && p.sent(e.res) {
			return v, true
		}
	}
	return "", false
}

func (p *c29Path) sent(marshalled string) bool {
	for _, w := range p.events {
		if w.kind == "call" && strings.HasSuffix(w.name, ".writePacket") {
			for _, a := range w.args {
				if a == marshalled {
					return true
				}
			}
		}
	}
	return false
}

func (p *c29Path) describe(datum string) string {
	if strings.HasPrefix(datum, "peer:") && !strings.ContainsAny(datum, "(,") {
		return "peer " + datum[5:]
	}
	var own []string
	for _, e := range p.events {
		if e.kind == "marshal" {
			for f, v := range e.fields {
				if v == datum && p.sent(e.res) {
					own = append(own, "own "+e.name+"."+f)
				} else if v == datum {
					own = append(own, e.name+"."+f+" of a message that is marshalled but not the one written to the connection")
				}
			}
		}
	}
	if len(own) > 0 {
		sort.Strings(own)
		return strings.Join(own, " / ")
	}
	return "local value " + c29Short(datum)
}

type c29Want struct {
	enc, role, typ, fld, what string
}

func c29Seq(sp kexSpec, side string) []c29Want {
	initRole, replyRole := "own", "peer"
	if side == "Server" {
		initRole, replyRole = "peer", "own"
	}
	eph := "string"
	if sp.ephKind == "int" {
		eph = "mpint"
	}
	kenc := "mpint"
	if sp.kEncoding == "ssh.marshalString" {
		kenc = "string"
	}
	seq := []c29Want{
		{"string", "magics", "", "clientVersion", "V_C"}, {"string", "magics", "", "serverVersion", "V_S"},
		{"string", "magics", "", "clientKexInit", "I_C"}, {"string", "magics", "", "serverKexInit", "I_S"},
		{"string", replyRole, sp.replyT, "HostKey", "K_S (host key)"},
	}
	if sp.gex {
		seq = append(seq,
			c29Want{"u32", initRole, "kexDHGexRequestMsg", "MinBits", "min"},
			c29Want{"u32", initRole, "kexDHGexRequestMsg", "PreferredBits", "n"},
			c29Want{"u32", initRole, "kexDHGexRequestMsg", "MaxBits", "max"},
			c29Want{"mpint", replyRole, "kexDHGexGroupMsg", "P", "p"},
			c29Want{"mpint", replyRole, "kexDHGexGroupMsg", "G", "g"})
	}
	return append(seq,
		c29Want{eph, initRole, sp.initT, sp.initF, "client's ephemeral public value"},
		c29Want{eph, replyRole, sp.replyT, sp.replyF, "server's ephemeral public value"},
		c29Want{kenc, "secret", "", "", "K (shared secret)"})
}

func c29PeerEph(sp kexSpec, side string) string {
	if side == "Client" {
		return "peer:" + sp.replyT + "." + sp.replyF
	}
	return "peer:" + sp.initT + "." + sp.initF
}

// c29Kex: every rule about one side of one key exchange.
func c29Kex(c *Ctx, sp kexSpec, side string) {
	fn := c.fn("ssh", "(*"+sp.recv+")."+side)
	if fn == nil {
		return
	}
	name := sp.recv + "." + side
	rule := "C29.hash-seq"
	r := c29Exec(c, rule, fn, name, 1, c29PeerEph(sp, side))
	if r == nil {
		return
	}
	magicsIdx := -1
	for i, prm := range fn.Params {
		if typeName(prm.Type()) == "handshakeMagics" {
			magicsIdx = i
		}
	}
	seq := c29Seq(sp, side)
	peerEph := c29PeerEph(sp, side)
	okLen := r.all(rule, name+" H", fmt.Sprintf("kexResult.H is the Sum of a hash that received exactly %d values", len(seq)), func(p *c29Path) (string, ssa.Instruction) {
		its, ok := c29ExchangeItems(p)
		if !ok {
			return "the H field of the returned kexResult is not the Sum of a hash written by this exchange", p.last
		}
		if len(its) != len(seq) {
			var got []string
			for _, e := range its {
				got = append(got, e.enc)
			}
			return fmt.Sprintf("exchange hash receives %d values %v; the specification lists %d", len(its), got, len(seq)), p.last
		}
		return "", nil
	})
	if !okLen {
		return
	}
	for i, w := range seq {
		i, w := i, w
		pos := fmt.Sprintf("%s H-input #%d (%s)", name, i, w.what)
		okD := "is " + w.enc + " of " + w.role + " " + w.typ + "." + w.fld
		if w.role == "secret" {
			okD = "K is encoded as " + w.enc + " from a secret computed from the peer's ephemeral value"
		}
		r.all(rule, pos, okD, func(p *c29Path) (string, ssa.Instruction) {
			its, _ := c29ExchangeItems(p)
			e := its[i]
			if e.enc != w.enc {
				return fmt.Sprintf("encoded as %s, specification requires %s", e.enc, w.enc), e.at
			}
			switch w.role {
			case "magics":
				want := fmt.Sprintf("*(P%d.%s)", magicsIdx, w.fld)
				if e.datum != want {
					got := c29Short(e.datum)
					if pre := fmt.Sprintf("*(P%d.", magicsIdx); strings.HasPrefix(e.datum, pre) {
						got = "the " + strings.TrimSuffix(e.datum[len(pre):], ")") + " of the handshake magics"
					}
					return fmt.Sprintf("hashes %s; the specification requires the %s of the handshake magics passed to this exchange (order V_C, V_S, I_C, I_S)", got, w.fld), e.at
				}
			case "peer":
				if e.datum != "peer:"+w.typ+"."+w.fld {
					return fmt.Sprintf("hashes [%s]; the specification requires peer %s.%s here", p.describe(e.datum), w.typ, w.fld), e.at
				}
			case "own":
				v, ok := p.ownField(w.typ, w.fld)
				if !ok || v != e.datum {
					return fmt.Sprintf("hashes [%s]; the specification requires own %s.%s here (the value this side sends)", p.describe(e.datum), w.typ, w.fld), e.at
				}
			case "secret":
				if !strings.Contains(e.datum, peerEph) {
					return fmt.Sprintf("K is %s of %s, which does not depend on the peer's ephemeral value %s", e.enc, c29Short(e.datum), peerEph[5:]), e.at
				}
			}
			return "", nil
		})
	}
	// received messages are hashed / validated as received
	seenT := map[string]bool{}
	bad := false
	for _, p := range r.sx.paths {
		for _, e := range p.events {
			if e.kind == "unmarshal" {
				seenT[e.name] = true
			}
			if e.kind == "peer-store" && !bad {
				bad = true
				nm := e.name[strings.Index(e.name, "peer:")+5:]
				tn := strings.SplitN(nm, ".", 2)[0]
				var at poser = fn
				if e.at != nil {
					at = e.at
				}
				c.fail(rule+".received-immutable", name+" "+tn, at, "a field of the received "+tn+" is overwritten after decoding ("+nm+" = "+c29Short(e.res)+"); the values hashed/validated are no longer the values the peer sent")
			}
		}
	}
	if !bad {
		var ts []string
		for t := range seenT {
			ts = append(ts, t)
		}
		sort.Strings(ts)
		for _, t := range ts {
			c.ok(rule+".received-immutable", name+" "+t, fn, "decoded message is never modified on any path")
		}
	}
	switch sp.recv {
	case "dhGroup", "dhGEXSHA":
		c29DH(c, r, sp, side, seq)
	case "ecdh":
		c29EC(c, r, sp, side)
	default:
		c29X(c, r, sp, side)
	}
}

func c29K(p *c29Path) string {
	its, ok := c29ExchangeItems(p)
	if !ok || len(its) == 0 {
		return ""
	}
	return its[len(its)-1].datum
}

// c29Range: 1 < v < m-1 was decided on the path. m-1 is Sub(m,1), or the
// pMinus1 field of the dhGroup whose p field is m (their relation is checked
// on the registered groups by C29.dh-groups).
func c29Range(p *c29Path, v, m, what string) string {
	a, okA := p.cmp(v, "1")
	bounds := []string{"Sub(" + m + ",1)", "Add(" + m + ",-1)", "Add(-1," + m + ")"}
	if strings.HasPrefix(m, "*(") && strings.HasSuffix(m, ".p)") {
		bounds = append(bounds, m[:len(m)-3]+".pMinus1)")
	}
	var b int64
	okB := false
	for _, bd := range bounds {
		if n, ok := p.cmp(v, bd); ok {
			b, okB = n, true
		}
	}
	switch {
	case !okA && !okB:
		return what + " is not compared with 1 and p-1 on an accepting path"
	case !okA:
		return what + " is not compared with 1 on an accepting path"
	case !okB:
		return what + " is not compared with p-1 (of the modulus the secret is computed with) on an accepting path"
	case !(a == 1 && b == -1):
		return fmt.Sprintf("Cmp(v,1)=%d Cmp(v,p-1)=%d: accepted, the specification (1 < v < p-1) rejects (%s)", a, b, what)
	}
	return ""
}

func c29DH(c *Ctx, r *c29Run, sp kexSpec, side string, seq []c29Want) {
	rule := "C29.dh-range"
	if sp.gex {
		rule = "C29.gex-range"
	}
	peerEph := c29PeerEph(sp, side)
	ownIdx := len(seq) - 3 // client's value
	if side == "Server" {
		ownIdx = len(seq) - 2
	}
	secret := func(p *c29Path) (y, e, m string, msg string) {
		k := c29K(p)
		h, a, suf, ok := c29Split(k)
		if !ok || h != "Exp" || len(a) != 3 || suf != "" {
			return "", "", "", "the shared secret is not Exp(peer value, private exponent, p) but " + c29Short(k)
		}
		return a[0], a[1], a[2], ""
	}
	r.all(rule, r.name+" peer value", "the secret is Exp(Y, x, p) of the peer's Y, and 1 < Y < p-1 had been decided (Cmp outcomes enumerated)", func(p *c29Path) (string, ssa.Instruction) {
		y, _, m, msg := secret(p)
		if msg != "" {
			return msg, p.last
		}
		if y != peerEph {
			return "the base of the shared secret is " + c29Short(y) + ", not the peer's value " + peerEph[5:], p.last
		}
		if msg := c29Range(p, y, m, "the peer's value "+peerEph[5:]); msg != "" {
			return msg, p.last
		}
		return "", nil
	})
	r.all(rule, r.name+" agreement", "own public value g^x mod p and the secret Y^x mod p use the same exponent and modulus", func(p *c29Path) (string, ssa.Instruction) {
		_, e, m, msg := secret(p)
		if msg != "" {
			return msg, p.last
		}
		its, _ := c29ExchangeItems(p)
		h, a, _, ok := c29Split(its[ownIdx].datum)
		if !ok || h != "Exp" || len(a) != 3 {
			return "this side's public value is not Exp(g, x, p) but " + c29Short(its[ownIdx].datum), its[ownIdx].at
		}
		if a[1] != e || a[2] != m {
			return fmt.Sprintf("public value is Exp(g, %s, %s) but the secret uses exponent %s and modulus %s", c29Short(a[1]), c29Short(a[2]), c29Short(e), c29Short(m)), its[ownIdx].at
		}
		if sp.gex {
			pIt, gIt := its[8].datum, its[9].datum
			if m != pIt || a[0] != gIt {
				return fmt.Sprintf("the exchange computes with g=%s, p=%s but hashes g=%s, p=%s", c29Short(a[0]), c29Short(m), c29Short(gIt), c29Short(pIt)), its[8].at
			}
		} else if !(strings.HasSuffix(m, ".p)") && a[0] == m[:len(m)-3]+".g)") {
			return fmt.Sprintf("generator %s and modulus %s are not the g and p of one group", c29Short(a[0]), c29Short(m)), its[ownIdx].at
		}
		return "", nil
	})
	if sp.gex && side == "Client" {
		const P, G = "peer:kexDHGexGroupMsg.P", "peer:kexDHGexGroupMsg.G"
		r.all(rule, r.name+" derived k", "result returned only when 1 < k < p-1", func(p *c29Path) (string, ssa.Instruction) {
			if msg := c29Range(p, c29K(p), P, "the derived secret k"); msg != "" {
				return msg + " — the derived secret's safety check (1 < k < p-1) is missing or altered", p.last
			}
			return "", nil
		})
		r.all(rule, r.name+" generator", "the exchange continues only when 1 < g < p-1", func(p *c29Path) (string, ssa.Instruction) {
			if msg := c29Range(p, G, P, "the server-provided generator g"); msg != "" {
				return msg + " — the server-provided generator is not range-checked (1 < g < p-1)", p.last
			}
			return "", nil
		})
		minB, ok1 := pkgConstInt(c, "ssh", "dhGroupExchangeMinimumBits")
		maxB, ok2 := pkgConstInt(c, "ssh", "dhGroupExchangeMaximumBits")
		got := map[int64]bool{}
		okP := r.all(rule, r.name+" prime size", fmt.Sprintf("the exchange continues only when %d <= bits(p) <= %d", minB, maxB), func(p *c29Path) (string, ssa.Instruction) {
			n, ok := p.dec["BitLen("+P+")"]
			if !ok1 || !ok2 {
				return "dhGroupExchangeMinimumBits / dhGroupExchangeMaximumBits are not integer constants", nil
			}
			if !ok {
				return "the bit length of the server-provided prime is not tested on an accepting path", p.last
			}
			if n < minB || n > maxB {
				return fmt.Sprintf("a server-provided prime of %d bits is accepted; documented bounds are [%d, %d]", n, minB, maxB), p.last
			}
			got[n] = true
			return "", nil
		})
		if okP {
			c.check(got[minB] && got[maxB], rule, r.name+" prime size (no over-rejection)", r.fn, "primes of exactly the minimum and maximum size are accepted", fmt.Sprintf("a prime of %d or %d bits is rejected although within the documented bounds", minB, maxB))
		}
	}
}

// c29Strip removes the "#n" call-instance numbers.
func c29Strip(s string) string { return c29HashSuffix(s) }

// c29ECValid: the SEC1 3.2.2 partial validation of (x, y) on curve was decided
// on the path: not (0,0), both coordinates < P, IsOnCurve.
func c29ECValid(p *c29Path, curve, x, y string) (zero, lt, on string) {
	sx, okx := p.dec["Sign("+x+")"]
	sy, oky := p.dec["Sign("+y+")"]
	if !((okx && sx != 0) || (oky && sy != 0)) {
		zero = "the (0,0) point is no longer rejected (no accepting path decides x.Sign() != 0 or y.Sign() != 0)"
	}
	wantP := "*(invoke:(crypto/elliptic.Curve).Params(" + c29Strip(curve) + ").P)"
	for _, co := range []string{x, y} {
		found := false
		for k, v := range p.dec {
			h, a, _, ok := c29Split(k)
			if !ok || h != "Cmp" || len(a) != 2 {
				continue
			}
			switch {
			case a[0] == co && c29Strip(a[1]) == wantP:
				found = true
				if v != -1 {
					lt = fmt.Sprintf("a coordinate with Cmp(coordinate, P) = %d is accepted; the specification requires coordinate < P", v)
				}
			case a[1] == co && c29Strip(a[0]) == wantP:
				found = true
				if v != 1 {
					lt = fmt.Sprintf("a coordinate with Cmp(P, coordinate) = %d is accepted; the specification requires coordinate < P", v)
				}
			}
		}
		if !found && lt == "" {
			lt = "a coordinate is not compared with the field prime curve.Params().P on an accepting path"
		}
	}
	wantOn := "invoke:(crypto/elliptic.Curve).IsOnCurve(" + c29Strip(curve) + "," + c29Strip(x) + "," + c29Strip(y) + ")"
	on = "IsOnCurve(x, y) is not required to be true on an accepting path"
	for k, v := range p.dec {
		if c29Strip(k) == wantOn {
			if v == 1 {
				on = ""
			} else {
				on = "a point with IsOnCurve(x, y) == false is accepted"
			}
		}
	}
	return
}

func c29EC(c *Ctx, r *c29Run, sp kexSpec, side string) {
	peerEph := c29PeerEph(sp, side)
	point := func(p *c29Path) (curve, x, y, msg string) {
		k := c29K(p)
		h, a, suf, ok := c29Split(k)
		if !ok || !strings.HasSuffix(h, ").ScalarMult") || len(a) != 4 || !strings.HasSuffix(suf, ".0") {
			return "", "", "", "the shared secret is not the x coordinate of curve.ScalarMult(x, y, d) but " + c29Short(k)
		}
		curve, x, y = a[0], a[1], a[2]
		hx, ax, sufx, okx := c29Split(x)
		hy, ay, sufy, oky := c29Split(y)
		if !okx || !oky || hx != "crypto/elliptic.Unmarshal" || hy != hx || len(ax) != 2 || len(ay) != 2 ||
			!strings.HasSuffix(sufx, ".0") || !strings.HasSuffix(sufy, ".1") || sufx[:len(sufx)-2] != sufy[:len(sufy)-2] {
			return "", "", "", "the shared secret is not computed from the coordinates decoded by elliptic.Unmarshal: ScalarMult(" + c29Short(x) + ", " + c29Short(y) + ")"
		}
		if ax[1] != peerEph || ay[1] != peerEph {
			return "", "", "", "the point multiplied is decoded from " + c29Short(ax[1]) + ", not from the peer's value " + peerEph[5:]
		}
		if ax[0] != curve {
			return "", "", "", "the point is decoded on curve " + c29Short(ax[0]) + " but multiplied on " + c29Short(curve)
		}
		return curve, x, y, ""
	}
	r.all("C29.peer-validated", r.name+" secret from validated point", "K = ScalarMult(x, y, d) of the point decoded from the peer's value on the exchange's curve", func(p *c29Path) (string, ssa.Instruction) {
		_, _, _, msg := point(p)
		return msg, p.last
	})
	for i, what := range []string{"rejects (0,0)", "coordinates < P", "IsOnCurve"} {
		i := i
		r.all("C29.ec-valid", r.name+" "+what, []string{"the point at infinity encoding is rejected", "both coordinates are reduced field elements", "the point satisfies the curve equation"}[i], func(p *c29Path) (string, ssa.Instruction) {
			curve, x, y, msg := point(p)
			if msg != "" {
				return msg, p.last
			}
			z, l, o := c29ECValid(p, curve, x, y)
			return []string{z, l, o}[i], p.last
		})
	}
}

// c29ECFuncs: the same validation facts on the two helper functions themselves,
// for their other callers, when they exist as functions.
func c29ECFuncs(c *Ctx) {
	if f := c.fnOpt("ssh", "unmarshalECKey"); f != nil && len(f.Params) == 2 && f.Signature.Results().Len() == 3 {
		if r := c29Exec(c, "C29.ec-valid", f, "unmarshalECKey", 2, ""); r != nil {
			r.all("C29.ec-valid", "unmarshalECKey", "returns (x, y, nil) only for the decoded point, validated (not (0,0), coordinates < P, on the curve)", func(p *c29Path) (string, ssa.Instruction) {
				x, y := p.bigOf(p.ret[0]), p.bigOf(p.ret[1])
				hx, ax, sufx, okx := c29Split(x)
				if !okx || hx != "crypto/elliptic.Unmarshal" || len(ax) != 2 || ax[0] != "P0" || ax[1] != "P1" || !strings.HasSuffix(sufx, ".0") || y != x[:len(x)-1]+"1" {
					return "the coordinates returned are not the ones decoded by elliptic.Unmarshal(curve, pubkey): " + c29Short(x) + ", " + c29Short(y), p.last
				}
				z, l, o := c29ECValid(p, "P0", x, y)
				for _, m := range []string{z, l, o} {
					if m != "" {
						return m, p.last
					}
				}
				return "", nil
			})
		}
	}
	if f := c.fnOpt("ssh", "validateECPublicKey"); f != nil && len(f.Params) == 3 && f.Signature.Results().Len() == 1 {
		sx := c29NewSX(f)
		sx.run()
		if sx.why != "" {
			c.undecided("C29.ec-valid", "validateECPublicKey", f, "path execution incomplete: "+sx.why)
			return
		}
		msg := ""
		var at ssa.Instruction
		n := 0
		for _, p := range sx.paths {
			if p.end != "return" || len(p.ret) != 1 {
				continue
			}
			rv := p.ret[0]
			if rv.num && rv.n == 0 {
				continue
			}
			if !rv.num { // returns the value of a test: true exactly when that test holds
				if strings.HasPrefix(rv.t, "!") {
					p.dec[rv.t[1:]] = 0
				} else {
					p.dec[rv.t] = 1
				}
			}
			n++
			z, l, o := c29ECValid(p, "P0", "P1", "P2")
			for _, m := range []string{z, l, o} {
				if m != "" && msg == "" {
					msg, at = m, p.last
				}
			}
		}
		switch {
		case n == 0:
			c.fail("C29.ec-valid", "validateECPublicKey", f, "never returns true")
		case msg != "":
			c.fail("C29.ec-valid", "validateECPublicKey", at, msg)
		default:
			c.ok("C29.ec-valid", "validateECPublicKey", f, fmt.Sprintf("true only for points that are not (0,0), have coordinates < P and are on the curve (%d true paths)", n))
		}
	}
}

func c29X(c *Ctx, r *c29Run, sp kexSpec, side string) {
	peerEph := c29PeerEph(sp, side)
	isKem := strings.HasPrefix(sp.recv, "mlkem")
	var wantLen, off int64 = 32, 0
	if isKem {
		off = 1088
		if side == "Server" {
			off = 1184
		}
		wantLen = off + 32
	}
	pointArg := peerEph
	if off > 0 {
		pointArg = "sub(" + peerEph + "," + strconv.FormatInt(off, 10) + ",)"
	}
	find := func(p *c29Path, name string, argIdx int, arg string) *c29Event {
		for i := range p.events {
			e := &p.events[i]
			if e.kind == "call" && e.name == name && argIdx < len(e.args) && e.args[argIdx] == arg {
				return e
			}
		}
		return nil
	}
	r.all("C29.peer-validated", r.name+" X25519(priv, peer)", "K is derived from X25519 applied to the peer's public value, and its error (low-order points) was nil", func(p *c29Path) (string, ssa.Instruction) {
		e := find(p, "curve25519.X25519", 1, pointArg)
		if e == nil || !strings.Contains(c29K(p), e.res+".0") {
			return "the shared secret is not derived from X25519 applied to the peer's public value (" + pointArg + ")", p.last
		}
		if n, ok := p.dec["nil?"+e.res+".1"]; !ok || n != 1 {
			return "the result of X25519 on the peer's value is used although its error (low-order point) was not checked to be nil", e.at
		}
		return "", nil
	})
	r.all("C29.peer-validated", r.name+" length", fmt.Sprintf("len(peer value) == %d had been decided", wantLen), func(p *c29Path) (string, ssa.Instruction) {
		n, ok := p.dec["len("+peerEph+")"]
		if !ok {
			return fmt.Sprintf("the exchange succeeds without the length of the peer's value having been tested (specification: exactly %d bytes)", wantLen), p.last
		}
		if n != wantLen {
			return fmt.Sprintf("a peer value of %d bytes is accepted (specification: exactly %d bytes)", n, wantLen), p.last
		}
		return "", nil
	})
	if isKem {
		r.all("C29.peer-validated", r.name+" ML-KEM checked", "K is derived from the ML-KEM operation on the peer's value, and its error was nil", func(p *c29Path) (string, ssa.Instruction) {
			kemArg := "sub(" + peerEph + ",," + strconv.FormatInt(off, 10) + ")"
			k := c29K(p)
			if side == "Client" {
				e := find(p, "(*crypto/mlkem.DecapsulationKey768).Decapsulate", 1, kemArg)
				if e == nil || !strings.Contains(k, e.res+".0") {
					return "the shared secret is not derived from Decapsulate applied to the peer's ciphertext (" + kemArg + ")", p.last
				}
				if n, ok := p.dec["nil?"+e.res+".1"]; !ok || n != 1 {
					return "the ML-KEM decapsulation result is used although its error was not checked to be nil", e.at
				}
				return "", nil
			}
			e := find(p, "crypto/mlkem.NewEncapsulationKey768", 0, kemArg)
			if e == nil || !strings.Contains(k, "Encapsulate("+e.res+".0)") {
				return "the shared secret is not derived from Encapsulate on the key parsed from the peer's value (" + kemArg + ")", p.last
			}
			if n, ok := p.dec["nil?"+e.res+".1"]; !ok || n != 1 {
				return "the peer's ML-KEM encapsulation key is used although NewEncapsulationKey768's error was not checked to be nil", e.at
			}
			return "", nil
		})
	}
}

// c29DHFunc: the bounds check of dhGroup.diffieHellman itself, when it exists
// as a function (the end-to-end fact on dhGroup.Client/Server is c29DH).
func c29DHFunc(c *Ctx) {
	f := c.fnOpt("ssh", "(*dhGroup).diffieHellman")
	if f == nil || len(f.Params) != 3 || f.Signature.Results().Len() != 2 {
		return
	}
	r := c29Exec(c, "C29.dh-range", f, "(*dhGroup).diffieHellman", 1, "")
	if r == nil {
		return
	}
	r.all("C29.dh-range", "(*dhGroup).diffieHellman", "returns Exp(Y, x, group.p) exactly when 1 < Y < p-1 (Cmp outcomes enumerated)", func(p *c29Path) (string, ssa.Instruction) {
		k := p.bigOf(p.ret[0])
		h, a, _, ok := c29Split(k)
		if !ok || h != "Exp" || len(a) != 3 || a[0] != "P1" || a[1] != "P2" || a[2] != "*(P0.p)" {
			return "the shared secret is not computed from the validated peer value modulo the group prime: " + c29Short(k), p.last
		}
		return c29Range(p, "P1", "*(P0.p)", "the peer's value"), p.last
	})
}

// c29HostKey: handshakeTransport.client returns a result only after the host
// key parsed from result.HostKey verified a signature over result.H with the
// negotiated algorithm, and the host key callback approved that key.
func c29HostKey(c *Ctx) {
	f := c.fn("ssh", "(*handshakeTransport).client")
	if f == nil {
		return
	}
	rule := "C29.hostkey"
	r := c29Exec(c, rule, f, "handshakeTransport.client", 1, "", "ssh.ParsePublicKey", "ssh.parseSignatureBody", "ssh.underlyingAlgo")
	if r == nil {
		return
	}
	type facts struct{ res, key, sig string }
	base := func(p *c29Path) (facts, string) {
		var fa facts
		rt := p.ret[0].t
		if !strings.HasSuffix(rt, ".0") {
			return fa, "the value returned is not the result of the key exchange's Client method: " + c29Short(rt)
		}
		var kx *c29Event
		for i := range p.events {
			if e := &p.events[i]; e.kind == "call" && strings.HasSuffix(e.name, ").Client") && e.res == rt[:len(rt)-2] {
				kx = e
			}
		}
		if kx == nil {
			return fa, "the value returned is not the result of the key exchange's Client method: " + c29Short(rt)
		}
		if n, ok := p.dec["nil?"+kx.res+".1"]; !ok || n != 1 {
			return fa, "the key exchange result is used although its error was not checked"
		}
		fa.res = rt
		for i := range p.events {
			if e := &p.events[i]; e.kind == "call" && e.name == "ssh.ParsePublicKey" && len(e.args) == 1 && e.args[0] == "*("+rt+".HostKey)" {
				if n, ok := p.dec["nil?"+e.res+".1"]; ok && n == 1 {
					fa.key = e.res + ".0"
				}
			}
			if e := &p.events[i]; e.kind == "call" && e.name == "ssh.parseSignatureBody" && len(e.args) == 1 && e.args[0] == "*("+rt+".Signature)" {
				fa.sig = e.res + ".0"
			}
		}
		if fa.key == "" {
			return fa, "the host key is not parsed (successfully) from the HostKey bytes of the exchange result, i.e. the bytes hashed into H"
		}
		return fa, ""
	}
	r.all(rule, "handshakeTransport.client signature", "the key parsed from result.HostKey verified (nil error) a signature over result.H", func(p *c29Path) (string, ssa.Instruction) {
		fa, msg := base(p)
		if msg != "" {
			return msg, p.last
		}
		for _, e := range p.events {
			if e.kind == "call" && strings.HasSuffix(e.name, ").Verify") && len(e.args) == 3 && e.args[0] == fa.key && e.args[1] == "*("+fa.res+".H)" {
				if fa.sig == "" || e.args[2] != fa.sig {
					return "the signature verified is not the one parsed from result.Signature", e.at
				}
				if n, ok := p.dec["nil?"+e.res]; ok && n == 1 {
					return "", nil
				}
				return "the result is returned although the host key signature verification error was not checked to be nil", e.at
			}
		}
		return "an accepting path does not verify the host key's signature over the exchange hash H (hostKey.Verify(result.H, sig) with the key parsed from result.HostKey)", p.last
	})
	r.all(rule, "verifyHostKeySignature algorithm", "sig.Format == underlyingAlgo(negotiated host key algorithm) had been decided", func(p *c29Path) (string, ssa.Instruction) {
		fa, msg := base(p)
		if msg != "" || fa.sig == "" {
			return "the signature is not parsed from result.Signature " + msg, p.last
		}
		format := "*(" + fa.sig + ".Format)"
		// underlyingAlgo applied to the HostKey field of the transport's negotiated algorithms
		isAlgo := func(t string) bool {
			t = c29Strip(t)
			return t == "ssh.underlyingAlgo(*(P0.algorithms.HostKey))" || t == "ssh.underlyingAlgo(*(*(P0.algorithms).HostKey))"
		}
		for k, v := range p.dec {
			for _, op := range []string{" != ", " == "} {
				if i := strings.Index(k, op); i > 0 && strings.HasPrefix(k, "(") && strings.HasSuffix(k, ")") {
					a, b := k[1:i], k[i+len(op):len(k)-1]
					if (a == format && isAlgo(b)) || (isAlgo(a) && b == format) {
						if (op == " == ") == (v == 1) {
							return "", nil
						}
						return "a signature whose format differs from the negotiated algorithm is accepted", p.last
					}
				}
			}
		}
		return "an accepting path does not compare the signature's format with underlyingAlgo(negotiated host key algorithm)", p.last
	})
	r.all(rule, "handshakeTransport.client host key callback", "hostKeyCallback approved (nil error) the key parsed from result.HostKey", func(p *c29Path) (string, ssa.Instruction) {
		fa, msg := base(p)
		if msg != "" {
			return msg, p.last
		}
		for _, e := range p.events {
			if e.kind == "call" && e.name == "dyn:*(P0.hostKeyCallback)" {
				if len(e.args) != 3 || e.args[2] != fa.key {
					return "the key shown to the host key callback is not the key parsed from the HostKey bytes that were hashed into H", e.at
				}
				if n, ok := p.dec["nil?"+e.res]; ok && n == 1 {
					return "", nil
				}
				return "the result is returned although the host key callback's error was not checked to be nil", e.at
			}
		}
		return "an accepting path does not call hostKeyCallback: the result is returned without the host key having been approved", p.last
	})
}

// c29Order: what the decisions of a path say about the order of two integer
// terms: which of a<b, a==b, a>b remain possible.
func c29Order(p *c29Path, a, b string) (lt, eq, gt bool) {
	lt, eq, gt = true, true, true
	for k, v := range p.dec {
		if !strings.HasPrefix(k, "(") || !strings.HasSuffix(k, ")") {
			continue
		}
		for _, op := range []string{" < ", " <= ", " > ", " >= ", " == ", " != "} {
			i := strings.Index(k, op)
			if i < 0 {
				continue
			}
			x, y := k[1:i], k[i+len(op):len(k)-1]
			o := strings.TrimSpace(op)
			if x == b && y == a {
				x, y = a, b
				switch o {
				case "<":
					o = ">"
				case "<=":
					o = ">="
				case ">":
					o = "<"
				case ">=":
					o = "<="
				}
			}
			if x != a || y != b {
				continue
			}
			var l, e, g bool // the outcomes the TRUE branch allows
			switch o {
			case "<":
				l = true
			case "<=":
				l, e = true, true
			case ">":
				g = true
			case ">=":
				g, e = true, true
			case "==":
				e = true
			case "!=":
				l, g = true, true
			}
			if v == 0 {
				l, e, g = !l, !e, !g
			}
			lt, eq, gt = lt && l, eq && e, gt && g
		}
	}
	return
}

// c29ChooseDH: every group chooseDH can return had MinBits <= size <= MaxBits
// decided on the path that selects it, and no path returns success without a
// group.
func c29ChooseDH(c *Ctx) {
	f := c.fn("ssh", "chooseDH")
	if f == nil {
		return
	}
	rule := "C29.choose-dh"
	sx := c29NewSX(f)
	sx.maxVisit = 4
	sx.run()
	if sx.why != "" {
		c.undecided(rule, "chooseDH range", f, "path execution incomplete: "+sx.why)
		return
	}
	n := 0
	bad := ""
	var at ssa.Instruction
	for _, p := range sx.paths {
		if !p.accepts(1) {
			continue
		}
		n++
		b := p.ret[0]
		msg := ""
		switch {
		case b.null:
			msg = "success is returned without any group having been selected"
		case !(strings.HasPrefix(b.t, "*(") && strings.HasSuffix(b.t, ".p)")):
			msg = "the value returned is not the prime of a candidate group: " + c29Short(b.t)
		default:
			size := b.t[:len(b.t)-3] + ".size)"
			if _, _, gt := c29Order(p, "P0.MinBits", size); gt {
				msg = "size<Min possible: a group can be selected although its size is below the requested MinBits"
			}
			if lt, _, _ := c29Order(p, "P0.MaxBits", size); lt {
				msg = "size>Max possible: a group can be selected although its size exceeds the requested MaxBits"
			}
		}
		if msg != "" && bad == "" {
			bad, at = msg, p.last
		}
	}
	switch {
	case n == 0:
		c.fail(rule, "chooseDH range", f, "no accepting path: chooseDH can never return a group")
	case bad != "":
		c.fail(rule, "chooseDH range", at, bad)
	default:
		c.ok(rule, "chooseDH range", f, fmt.Sprintf("a group outside [MinBits, MaxBits] can never become the selection, and success implies a selection (%d accepting paths, loop unrolled %d times)", n, sx.maxVisit-1))
	}
}
