package main

import (
	"fmt"
	"sort"
	"strings"

	"golang.org/x/tools/go/ssa"
)

// c36Fields: the struct fields ("type.field") a value may be the address of /
// loaded from, following helper parameters to the arguments of ALL their static
// call sites, phis and conversions. ok is false when some origin is not a field.
func c36Fields(c *Ctx, v ssa.Value) (fields map[string]bool, allFields bool) {
	fields = map[string]bool{}
	allFields = true
	seen := map[ssa.Value]bool{}
	var rec func(v ssa.Value, d int)
	rec = func(v ssa.Value, d int) {
		if seen[v] {
			return
		}
		seen[v] = true
		if typ, fld, _, ok := fieldOf(v); ok {
			fields[typ+"."+fld] = true
			return
		}
		switch x := v.(type) {
		case *ssa.Parameter:
			f := x.Parent()
			idx := -1
			for i, p := range f.Params {
				if p == x {
					idx = i
				}
			}
			cs := c.callersOf(f)
			if d > 4 || idx < 0 || len(cs) == 0 {
				allFields = false
				return
			}
			for _, ci := range cs {
				if args := ci.Common().Args; !ci.Common().IsInvoke() && idx < len(args) {
					rec(args[idx], d+1)
				} else {
					allFields = false
				}
			}
		case *ssa.Phi:
			for _, e := range x.Edges {
				rec(e, d)
			}
		case *ssa.ChangeType:
			rec(x.X, d)
		case *ssa.Convert:
			rec(x.X, d)
		case *ssa.UnOp:
			rec(x.X, d)
		default:
			allFields = false
		}
	}
	rec(v, 0)
	return
}

// c36OnlyCalledFrom: f is the function named want, a closure inside it, or an
// unexported helper every static call site of which lies in such a function.
func c36OnlyCalledFrom(c *Ctx, f *ssa.Function, want string, depth int) bool {
	if f == nil || depth > 3 {
		return false
	}
	if fnName(f) == want {
		return true
	}
	if p := f.Parent(); p != nil {
		return c36OnlyCalledFrom(c, p, want, depth)
	}
	if f.Object() == nil || f.Object().Exported() {
		return false
	}
	cs := c.callersOf(f)
	if len(cs) == 0 {
		return false
	}
	for _, ci := range cs {
		if !c36OnlyCalledFrom(c, ci.Parent(), want, depth+1) {
			return false
		}
	}
	return true
}

// c36FlagWriters: the reply gates are written (Store / Swap / CompareAndSwap,
// directly or through a pointer handed to a helper) only on behalf of the
// matching SendRequest.
func c36FlagWriters(c *Ctx) {
	want := map[string]string{"mux.globalSentPending": "(*mux).SendRequest", "channel.sentRequestPending": "(*channel).SendRequest"}
	found := map[string]int{}
	var anyFn *ssa.Function
	for _, g := range c.funcsOfPkg("ssh") {
		{
			anyFn = g
			for _, ci := range calls(g, func(n string) bool {
				return n == "(*sync/atomic.Bool).Store" || n == "(*sync/atomic.Bool).Swap" || n == "(*sync/atomic.Bool).CompareAndSwap"
			}) {
				flds, _ := c36Fields(c, ci.Common().Args[0])
				var names []string
				for fld := range flds {
					names = append(names, fld)
				}
				sort.Strings(names)
				for _, fld := range names {
					w, ok := want[fld]
					if !ok {
						continue
					}
					found[fld]++
					c.check(c36OnlyCalledFrom(c, g, w, 0), "C36.flag-writers", strings.TrimPrefix(fld, strings.SplitN(fld, ".", 2)[0]+".")+" written in "+fnName(g), ci, "only the matching SendRequest (or a helper called from nowhere else) arms/disarms the reply gate", "the reply gate is written outside "+w)
				}
			}
		}
	}
	for fld, w := range want {
		if found[fld] == 0 {
			c.fail("C36.flag-writers", fld, anyFn, "no write of the reply gate found: "+w+" never arms it (rule anchor lost)")
		}
	}
}

// c36ResponseMessageReceived: when the acceptance test for open replies is a
// function of its own, it accepts exactly (outbound, undecided) — evaluated
// over the four (direction, decided) cases. (The path rule C36.open-reply of
// c36Protocol decides the same on the expanded read loop whether or not this
// helper exists.)
func c36ResponseMessageReceived(c *Ctx) {
	f := c.fnOpt("ssh", "(*channel).responseMessageReceived")
	if f == nil || len(f.Blocks) == 0 {
		return
	}
	inb, _ := pkgConstInt(c, "ssh", "channelInbound")
	bad := ""
	for _, dir := range []int64{inb, 1 - inb} {
		for dec := int64(0); dec < 2; dec++ {
			e := newEnv()
			e.bindField(f, "channel", "direction", dir)
			e.bindField(f, "channel", "decided", dec)
			e.solve(f)
			got := false
			for _, t := range acceptReturns(f, 0) {
				if e.reach[t.Block()] {
					got = true
				}
			}
			if want := dir != inb && dec == 0; got != want {
				bad = fmt.Sprintf("direction=%d decided=%d: accepted=%v", dir, dec, got)
			}
		}
	}
	n := 0
	deepInstrs(f, func(in ssa.Instruction) {
		if st, ok := in.(*ssa.Store); ok {
			if typ, fld, _, ok := fieldOf(st.Addr); ok && typ == "channel" && fld == "decided" {
				n++
			}
		}
	})
	if bad == "" && n == 0 {
		bad = "the accepted reply is not recorded (no store to decided)"
	}
	c.check(bad == "", "C36.open-reply", "responseMessageReceived", f, "accepts only the first reply on an outbound channel and records it", bad)
}

// c36UnknownVerdict: every return of handleUnknownChannelPacket (looking
// through helpers whose result it returns) is a non-nil error, decode's error,
// the result of sending a reply, or nil behind WantReply == false.
func c36UnknownVerdict(c *Ctx) {
	f := c.fn("ssh", "(*mux).handleUnknownChannelPacket")
	if f == nil {
		return
	}
	var wr []edge
	deepInstrs(f, func(in ssa.Instruction) {
		v, ok := in.(ssa.Value)
		if !ok {
			return
		}
		switch in.(type) {
		case *ssa.UnOp, *ssa.Field:
		default:
			return
		}
		if _, fld, _, ok := fieldOf(v); ok && fld == "WantReply" {
			_, no := boolEdges(v, true)
			wr = append(wr, no...)
		}
	})
	cut := edgeSet{}
	cut.addAll(wr)
	bad := ""
	var verdict func(v ssa.Value, r *ssa.Return, depth int) bool
	verdict = func(v ssa.Value, r *ssa.Return, depth int) bool {
		if v == nil || depth > 4 {
			return false
		}
		if isNilConst(v) {
			// only for requests that want no reply
			if len(wr) == 0 || deepReach(f, cut, func(in ssa.Instruction) bool { return in == ssa.Instruction(r) }) != nil {
				bad = "nil is returned at " + c.posStr(r.Pos()) + " on a path that has not seen WantReply == false"
				return false
			}
			return true
		}
		if errNilness(v, r.Block(), 0) == neverNil {
			return true
		}
		var call *ssa.Call
		idx := 0
		switch x := v.(type) {
		case *ssa.Call:
			call = x
		case *ssa.Extract:
			call, _ = x.Tuple.(*ssa.Call)
			idx = x.Index
		case *ssa.Phi:
			for _, e := range x.Edges {
				if !verdict(e, r, depth+1) {
					return false
				}
			}
			return true
		}
		if call == nil {
			return false
		}
		name := short(calleeName(&call.Call))
		switch {
		case strings.HasSuffix(name, ").sendMessage"):
			return true // the verdict is the outcome of sending the failure reply
		case name == "ssh.decode" && idx == 1:
			return true
		}
		if g := samePkgCallee(f, &call.Call); g != nil {
			rs := returnsOf(g)
			for _, r2 := range rs {
				if !verdict(retVal(r2, idx), r2, depth+1) {
					return false
				}
			}
			return len(rs) > 0
		}
		return false
	}
	okAll := true
	for _, r := range returnsOf(f) {
		if len(r.Results) != 1 || !verdict(retVal(r, 0), r, 0) {
			okAll = false
			if bad == "" {
				bad = "the value returned at " + c.posStr(r.Pos()) + " is neither an error, a sent reply, nor nil for a no-reply request"
			}
		}
	}
	c.check(okAll, "C36.unknown-channel", "(*mux).handleUnknownChannelPacket", f, "returns an error, a sent failure reply, or nil only for a no-reply request", "a packet for an unknown channel can be silently accepted: "+bad)
}

// ---------------------------------------------------------------------------
// the packet read by onePacket, in onePacket and in the helpers it is handed to

type c36Packet struct {
	c     *Ctx
	root  *ssa.Function
	fns   map[*ssa.Function]bool
	vals  map[ssa.Value]bool
	reads []ssa.CallInstruction
}

func c36PacketOf(c *Ctx, root *ssa.Function) *c36Packet {
	p := &c36Packet{c: c, root: root, fns: map[*ssa.Function]bool{}, vals: map[ssa.Value]bool{}}
	for _, g := range deepFuncs(root) {
		p.fns[g] = true
	}
	p.reads = deepCalls(root, func(n string) bool { return strings.HasSuffix(n, ".readPacket") })
	for _, ci := range p.reads {
		if call, ok := ci.(*ssa.Call); ok {
			for _, v := range resultN(call, 0) {
				p.vals[v] = true
			}
		}
	}
	for changed := true; changed; {
		changed = false
		for g := range p.fns {
			allInstrs(g, func(in ssa.Instruction) {
				switch x := in.(type) {
				case *ssa.Call:
					h := samePkgCallee(root, &x.Call)
					if h == nil || !p.fns[h] {
						return
					}
					for i, a := range x.Call.Args {
						if p.vals[a] && i < len(h.Params) && !p.vals[h.Params[i]] {
							p.vals[h.Params[i]] = true
							changed = true
						}
					}
				case *ssa.ChangeType:
					if p.vals[x.X] && !p.vals[x] {
						p.vals[x] = true
						changed = true
					}
				case *ssa.Phi:
					all := len(x.Edges) > 0
					for _, e := range x.Edges {
						if !p.vals[e] {
							all = false
						}
					}
					if all && !p.vals[x] {
						p.vals[x] = true
						changed = true
					}
				}
			})
		}
	}
	return p
}

// bind: in g, every len(packet) is n (n >= 0) and every packet[0] is code (code >= 0).
func (p *c36Packet) bind(e *penv, g *ssa.Function, n, code int64) {
	if n >= 0 {
		allInstrs(g, func(in ssa.Instruction) {
			if call, ok := in.(*ssa.Call); ok && calleeName(&call.Call) == "builtin:len" && p.vals[call.Call.Args[0]] {
				e.bind(call, n)
			}
		})
	}
	if code >= 0 {
		e.bindIndexLoads(g, func(b ssa.Value) bool { return p.vals[b] }, 0, code)
	}
}

// reachable: can instruction `in` (in root or a helper) execute for a packet
// of n bytes / with message code `code`? Decided per function with the
// finite-domain evaluator, and up the call chain to root.
func (p *c36Packet) reachable(in ssa.Instruction, n, code int64, depth int) bool {
	g := in.Parent()
	e := newEnv()
	p.bind(e, g, n, code)
	e.solve(g)
	if !e.reach[in.Block()] {
		return false
	}
	if g == p.root || depth > 4 {
		return true
	}
	for _, cs := range p.c.callersOf(g) {
		if p.fns[cs.Parent()] && p.reachable(cs, n, code, depth+1) {
			return true
		}
	}
	return false
}

// c36LengthGuard: the value handed to chanList.getChan as the channel id —
// wherever it is computed — is computed only for packets of at least 5 bytes.
func c36LengthGuard(c *Ctx) {
	f := c.fn("ssh", "(*mux).onePacket")
	if f == nil {
		return
	}
	p := c36PacketOf(c, f)
	var idDefs []ssa.Instruction
	for _, ci := range deepCallsNamed(f, c36GetChan) {
		if len(ci.Common().Args) < 2 {
			continue
		}
		v := c.origin(ci.Common().Args[1])
		for i := 0; i < 4; i++ { // look through the conversions of the decoded id
			switch x := v.(type) {
			case *ssa.Convert:
				v = c.origin(x.X)
				continue
			case *ssa.ChangeType:
				v = c.origin(x.X)
				continue
			}
			break
		}
		if in, ok := v.(ssa.Instruction); ok {
			idDefs = append(idDefs, in)
		}
	}
	if len(p.reads) == 0 || len(idDefs) == 0 {
		c.fail("C36.length-guard", "(*mux).onePacket", f, "channel id decoding not found (no readPacket call, or the id given to getChan is not computed in onePacket or its helpers)")
		return
	}
	bad := ""
	for _, def := range idDefs {
		for _, n := range []int64{1, 2, 3, 4, 5, 6, 100} {
			if got := p.reachable(def, n, -1, 0); got != (n >= 5) {
				bad = fmt.Sprintf("packet of %d bytes: channel id read reachable=%v", n, got)
			}
		}
	}
	c.check(bad == "", "C36.length-guard", "(*mux).onePacket", idDefs[0], "channel id is read only from packets of at least 5 bytes", bad)
}

// c36IdRoles: the channel list is indexed by OUR ids, outgoing messages are
// addressed with the PEER's id.
func c36IdRoles(c *Ctx) {
	for _, f := range c.funcsOfPkg("ssh") {
		for _, ci := range callsNamed(f, c36Remove, c36GetChan) {
			if len(ci.Common().Args) < 2 {
				continue
			}
			flds, _ := c36Fields(c, ci.Common().Args[1])
			c.check(!flds["channel.remoteId"], "C36.id-role", short(calleeName(ci.Common()))+" in "+fnName(f), ci, "indexed by a local identifier", "the channel list (indexed by OUR ids) is accessed with the peer's id (remoteId)")
		}
		if f.Signature.Recv() == nil || typeName(f.Signature.Recv().Type()) != "channel" {
			continue
		}
		allInstrs(f, func(in ssa.Instruction) {
			if st, ok := in.(*ssa.Store); ok {
				if t, fld, _, ok := fieldOf(st.Addr); ok && fld == "PeersID" && t != "channel" {
					flds, all := c36Fields(c, st.Val)
					c.check(all && len(flds) == 1 && flds["channel.remoteId"], "C36.id-role", t+".PeersID in "+fnName(f), st, "outgoing message addressed with the peer's channel id", "an outgoing channel message is addressed with something other than the peer's channel id")
				}
			}
			if call, ok := in.(*ssa.Call); ok && strings.HasSuffix(calleeName(&call.Call), ").PutUint32") {
				flds, _ := c36Fields(c, call.Call.Args[len(call.Call.Args)-1])
				if flds["channel.localId"] || flds["channel.remoteId"] {
					c.check(!flds["channel.localId"], "C36.id-role", "data packet header in "+fnName(f), call, "data packets carry the peer's channel id", "a data packet header carries our local id instead of the peer's id")
				}
			}
		})
	}
}
