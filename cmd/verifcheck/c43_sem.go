package main

import (
	"go/token"
	"go/types"
	"strings"

	"golang.org/x/tools/go/ssa"
)

// Factoring-independent machinery for the C43 rules.
//
//   c43Walk    reachability over the function with same-package helpers
//              expanded in place (as deepReach), with a visitor that can end a
//              path (an event "has happened") or keep a call opaque;
//   c43Slice   backward provenance of a value through locals, struct copies,
//              helper parameters (single call site: origin) and closure
//              captures;
//   c43Fact    "this boolean being true/false implies FACT": atoms are given
//              by role, the implication is lifted through !, &&/|| (phis),
//              err == nil tests on a helper's result and boolean helpers, so a
//              gate is found whether it is written inline, split into guard
//              clauses, or moved into a helper.

type c43Act int

const (
	c43Go c43Act = iota
	c43Stop
	c43Opaque
)

func c43Walk(fn *ssa.Function, cut edgeSet, visit func(in ssa.Instruction) c43Act) {
	type pos struct {
		ctx string
		b   *ssa.BasicBlock
		i   int
	}
	seen := map[pos]bool{}
	var run func(ctx *deepCtx, b *ssa.BasicBlock, i int, onReturn func())
	run = func(ctx *deepCtx, b *ssa.BasicBlock, i int, onReturn func()) {
		p := pos{ctx.key(), b, i}
		if seen[p] {
			return
		}
		seen[p] = true
		for ; i < len(b.Instrs); i++ {
			in := b.Instrs[i]
			act := visit(in)
			if act == c43Stop {
				return
			}
			if call, ok := in.(*ssa.Call); ok && act != c43Opaque {
				if g := samePkgCallee(fn, &call.Call); g != nil && ctx.depth < deepDepth && !ctx.active(g) {
					sub := &deepCtx{parent: ctx, call: call, fn: g, depth: ctx.depth + 1}
					next := i + 1
					returned := false
					run(sub, g.Blocks[0], 0, func() {
						if !returned {
							returned = true
							run(ctx, b, next, onReturn)
						}
					})
					return
				}
			}
			switch in.(type) {
			case *ssa.Return:
				if onReturn != nil {
					onReturn()
				}
				return
			case *ssa.Panic:
				return
			}
		}
		for k, s := range b.Succs {
			if cut[edge{b, k}] {
				continue
			}
			run(ctx, s, 0, onReturn)
		}
	}
	run(&deepCtx{fn: fn}, fn.Blocks[0], 0, nil)
}

// ---------------------------------------------------------------------------
// provenance

// c43AllocStores feeds every value stored into the local cell al (or into one
// of its fields / elements) to f.
func c43AllocStores(al ssa.Value, f func(ssa.Value), depth int) {
	refs := al.Referrers()
	if refs == nil || depth > 3 {
		return
	}
	for _, r := range *refs {
		switch x := r.(type) {
		case *ssa.Store:
			if x.Addr == al {
				f(x.Val)
			}
		case *ssa.FieldAddr:
			if x.X == al {
				c43AllocStores(x, f, depth+1)
			}
		case *ssa.IndexAddr:
			if x.X == al {
				c43AllocStores(x, f, depth+1)
			}
		}
	}
}

// c43Binding: the value a closure's free variable is bound to.
func c43Binding(fv *ssa.FreeVar) []ssa.Value {
	fn := fv.Parent()
	if fn == nil || fn.Parent() == nil {
		return nil
	}
	idx := -1
	for i, x := range fn.FreeVars {
		if x == fv {
			idx = i
		}
	}
	var out []ssa.Value
	allInstrs(fn.Parent(), func(in ssa.Instruction) {
		if mc, ok := in.(*ssa.MakeClosure); ok && mc.Fn == ssa.Value(fn) && idx >= 0 && idx < len(mc.Bindings) {
			out = append(out, mc.Bindings[idx])
		}
	})
	return out
}

// c43Slice: everything v is computed from.
func (c *Ctx) c43Slice(v ssa.Value) map[ssa.Value]bool {
	seen := map[ssa.Value]bool{}
	var rec func(v ssa.Value)
	rec = func(v ssa.Value) {
		if v == nil || seen[v] || len(seen) > 800 {
			return
		}
		seen[v] = true
		switch x := v.(type) {
		case *ssa.Parameter:
			if o := c.origin(x); o != ssa.Value(x) {
				rec(o)
			}
			return
		case *ssa.FreeVar:
			for _, b := range c43Binding(x) {
				rec(b)
			}
			return
		case *ssa.Alloc:
			c43AllocStores(x, rec, 0)
			return
		case *ssa.Const, *ssa.Global, *ssa.Function, *ssa.Builtin:
			return
		}
		if in, ok := v.(ssa.Instruction); ok {
			for _, op := range in.Operands(nil) {
				if *op != nil {
					rec(*op)
				}
			}
		}
	}
	rec(v)
	return seen
}

func c43SliceHas(s map[ssa.Value]bool, pred func(ssa.Value) bool) bool {
	for v := range s {
		if pred(v) {
			return true
		}
	}
	return false
}

func c43IsFieldRef(v ssa.Value, typ, field string) bool {
	switch x := v.(type) {
	case *ssa.FieldAddr, *ssa.Field:
		t, f, _, ok := fieldOf(x)
		return ok && f == field && (typ == "" || t == typ)
	}
	return false
}

func c43FieldLoad(v ssa.Value, typ, field string) bool {
	switch x := v.(type) {
	case *ssa.UnOp:
		return x.Op == token.MUL && c43IsFieldRef(x.X, typ, field)
	case *ssa.Field:
		return c43IsFieldRef(x, typ, field)
	}
	return false
}

// ---------------------------------------------------------------------------
// facts

type c43Fact struct {
	c     *Ctx
	what  string
	atom  func(v ssa.Value) (pol, ok bool) // v == pol  =>  FACT
	edges map[*ssa.Function]edgeSet
}

func (c *Ctx) c43NewFact(what string, atom func(v ssa.Value) (bool, bool)) *c43Fact {
	return &c43Fact{c: c, what: what, atom: atom, edges: map[*ssa.Function]edgeSet{}}
}

// pass: the edges of g on which FACT is established.
func (a *c43Fact) pass(g *ssa.Function) edgeSet {
	if es, ok := a.edges[g]; ok {
		return es
	}
	cur := edgeSet{}
	a.edges[g] = cur
	for round := 0; round < 4; round++ {
		n := len(cur)
		for _, b := range g.Blocks {
			if len(b.Instrs) == 0 {
				continue
			}
			iff, ok := b.Instrs[len(b.Instrs)-1].(*ssa.If)
			if !ok {
				continue
			}
			if a.implies(iff.Cond, true, 0) {
				cur[edge{b, 0}] = true
			}
			if a.implies(iff.Cond, false, 0) {
				cur[edge{b, 1}] = true
			}
		}
		if len(cur) == n {
			break
		}
	}
	return cur
}

// cutFor: the pass edges of fn and of the helpers the walker expands.
func (a *c43Fact) cutFor(fn *ssa.Function) edgeSet {
	cut := edgeSet{}
	for _, g := range deepFuncs(fn) {
		for e := range a.pass(g) {
			cut[e] = true
		}
	}
	return cut
}

// guarded: block b (of its own function) is reached only over pass edges.
func (a *c43Fact) guarded(b *ssa.BasicBlock) bool {
	g := b.Parent()
	ps := a.pass(g)
	if len(ps) == 0 {
		return false
	}
	return !reach([]*ssa.BasicBlock{g.Blocks[0]}, ps)[b]
}

func (a *c43Fact) edgeGuarded(from, to *ssa.BasicBlock) bool {
	if a.guarded(from) {
		return true
	}
	ps := a.pass(from.Parent())
	n, hit := 0, false
	for k, s := range from.Succs {
		if s == to {
			n++
			hit = ps[edge{from, k}]
		}
	}
	return n == 1 && hit
}

func c43LocalCallee(v ssa.Value) (*ssa.Call, *ssa.Function, int) {
	idx := 0
	if ex, ok := v.(*ssa.Extract); ok {
		v = ex.Tuple
		idx = ex.Index
	}
	call, ok := v.(*ssa.Call)
	if !ok {
		return nil, nil, 0
	}
	h := call.Call.StaticCallee()
	if h == nil || len(h.Blocks) == 0 || h.Pkg == nil || call.Parent() == nil || h.Pkg != call.Parent().Pkg {
		return nil, nil, 0
	}
	return call, h, idx
}

// implies: (v == want) => FACT, for a boolean v.
func (a *c43Fact) implies(v ssa.Value, want bool, d int) bool {
	if v == nil || d > 8 {
		return false
	}
	if pol, ok := a.atom(v); ok {
		return pol == want
	}
	switch x := v.(type) {
	case *ssa.Const:
		b, ok := constBool(x)
		return ok && b != want // never equals want: vacuous
	case *ssa.UnOp:
		if x.Op == token.NOT {
			return a.implies(x.X, !want, d+1)
		}
	case *ssa.BinOp:
		if x.Op != token.EQL && x.Op != token.NEQ {
			return false
		}
		eq := x.Op == token.EQL
		other, cst := x.X, x.Y
		if _, ok := cst.(*ssa.Const); !ok {
			other, cst = x.Y, x.X
		}
		k, ok := cst.(*ssa.Const)
		if !ok {
			return false
		}
		if k.IsNil() {
			return a.nilImplies(other, want == eq, d+1)
		}
		if b, isB := constBool(k); isB {
			return a.implies(other, (want == eq) == b, d+1)
		}
	case *ssa.Phi:
		for i, e := range x.Edges {
			if a.implies(e, want, d+1) {
				continue
			}
			if i < len(x.Block().Preds) && a.edgeGuarded(x.Block().Preds[i], x.Block()) {
				continue
			}
			return false
		}
		return len(x.Edges) > 0
	case *ssa.Call, *ssa.Extract:
		_, h, idx := c43LocalCallee(v)
		if h == nil {
			return false
		}
		rets := returnsOf(h)
		for _, r := range rets {
			if idx >= len(r.Results) {
				return false
			}
			if a.guarded(r.Block()) || a.implies(retVal(r, idx), want, d+1) {
				continue
			}
			return false
		}
		return len(rets) > 0
	}
	return false
}

// c43NonNilErr: v is an error value that is certainly not nil.
func c43NonNilErr(v ssa.Value) bool {
	switch x := v.(type) {
	case *ssa.UnOp:
		if x.Op == token.MUL {
			_, isG := x.X.(*ssa.Global)
			return isG
		}
	case *ssa.MakeInterface:
		return true
	case *ssa.Call:
		n := calleeName(&x.Call)
		return n == "errors.New" || n == "fmt.Errorf"
	}
	return false
}

// nilImplies: (v is nil) == wantNil  =>  FACT, for a pointer / error v that a
// same-package helper returns.
func (a *c43Fact) nilImplies(v ssa.Value, wantNil bool, d int) bool {
	if v == nil || d > 8 {
		return false
	}
	one := func(rv ssa.Value, blk *ssa.BasicBlock) bool {
		if blk != nil && a.guarded(blk) {
			return true
		}
		if wantNil && c43NonNilErr(rv) || !wantNil && isNilConst(rv) {
			return true // cannot have the wanted nilness
		}
		return a.nilImplies(rv, wantNil, d+1)
	}
	switch x := v.(type) {
	case *ssa.Phi:
		for i, e := range x.Edges {
			if i < len(x.Block().Preds) && a.edgeGuarded(x.Block().Preds[i], x.Block()) {
				continue
			}
			if !one(e, nil) {
				return false
			}
		}
		return len(x.Edges) > 0
	case *ssa.Call, *ssa.Extract:
		_, h, idx := c43LocalCallee(v)
		if h == nil {
			return false
		}
		rets := returnsOf(h)
		for _, r := range rets {
			if idx >= len(r.Results) || !one(retVal(r, idx), r.Block()) {
				return false
			}
		}
		return len(rets) > 0
	}
	return false
}

// c43CmpAtom: v compares x (as decided by isX, through conversions) with an
// integer constant, and over dom the outcome pol of the comparison guarantees
// P(x). Returns (pol, true) for the first such polarity.
func c43CmpAtom(v ssa.Value, isX func(ssa.Value) bool, dom []int64, P func(int64) bool) (bool, bool) {
	bo, ok := v.(*ssa.BinOp)
	if !ok {
		return false, false
	}
	var cst int64
	xLeft := true
	if k, ok := constInt(bo.Y); ok && isX(stripConv(bo.X)) {
		cst = k
	} else if k, ok := constInt(bo.X); ok && isX(stripConv(bo.Y)) {
		cst, xLeft = k, false
	} else {
		return false, false
	}
	for _, pol := range []bool{true, false} {
		some, all := false, true
		for _, dv := range dom {
			var r, okc bool
			if xLeft {
				r, okc = evalCmp(bo.Op, dv, cst)
			} else {
				r, okc = evalCmp(bo.Op, cst, dv)
			}
			if !okc {
				return false, false
			}
			if r == pol {
				some = true
				if !P(dv) {
					all = false
				}
			}
		}
		if some && all {
			return pol, true
		}
	}
	return false, false
}

// ---------------------------------------------------------------------------
// roles of ssh/agent values

func (c *Ctx) c43IsKeys(v ssa.Value, extra map[ssa.Value]bool) bool {
	v = sliceBase(v)
	if extra[v] {
		return true
	}
	v = sliceBase(c.origin(v))
	return extra[v] || c43FieldLoad(v, "keyring", "keys")
}

// c43KeysStore: in stores into the key list: the field itself (append,
// truncation, reset) or one of its elements.
func (c *Ctx) c43KeysStore(in ssa.Instruction) (isStore, isElem bool) {
	st, ok := in.(*ssa.Store)
	if !ok {
		return false, false
	}
	switch x := st.Addr.(type) {
	case *ssa.FieldAddr:
		if c43IsFieldRef(x, "keyring", "keys") {
			return true, false
		}
	case *ssa.IndexAddr:
		if c.c43IsKeys(x.X, nil) {
			return true, true
		}
	}
	return false, false
}

func c43KeysRef(in ssa.Instruction) bool {
	v, ok := in.(ssa.Value)
	return ok && c43IsFieldRef(v, "keyring", "keys")
}

// c43Shrinks: a store to keyring.keys that can drop entries.
func c43Shrinks(in ssa.Instruction) bool {
	st, ok := in.(*ssa.Store)
	if !ok {
		return false
	}
	fa, ok := st.Addr.(*ssa.FieldAddr)
	if !ok || !c43IsFieldRef(fa, "keyring", "keys") {
		return false
	}
	switch x := st.Val.(type) {
	case *ssa.Slice:
		return true
	case *ssa.Const:
		return x.IsNil()
	case *ssa.Call:
		n := calleeName(&x.Call)
		if n == "builtin:append" && len(x.Call.Args) > 0 {
			_, cut := x.Call.Args[0].(*ssa.Slice) // append(keys[:i], keys[i+1:]...)
			return cut
		}
		return strings.HasPrefix(n, "slices.Delete")
	}
	return false
}

// c43LibraryDelete: the removal is done by slices.DeleteFunc, which scans every
// element itself.
func c43LibraryDelete(in ssa.Instruction) bool {
	st, ok := in.(*ssa.Store)
	if !ok {
		return false
	}
	call, ok := st.Val.(*ssa.Call)
	return ok && calleeName(&call.Call) == "slices.DeleteFunc"
}

func c43MethodCall(v ssa.Value, method string) bool {
	call, ok := v.(*ssa.Call)
	if !ok {
		return false
	}
	if call.Call.IsInvoke() {
		return call.Call.Method.Name() == method
	}
	if f := call.Call.StaticCallee(); f != nil {
		return f.Name() == method
	}
	return false
}

// c43EqTest: v is an equality test of two byte strings; v == pol means equal.
func c43EqTest(v ssa.Value) (x, y ssa.Value, pol, ok bool) {
	switch t := v.(type) {
	case *ssa.Call:
		n := calleeName(&t.Call)
		if (n == "bytes.Equal" || strings.HasPrefix(n, "slices.Equal")) && len(t.Call.Args) == 2 {
			return t.Call.Args[0], t.Call.Args[1], true, true
		}
	case *ssa.BinOp:
		if t.Op != token.EQL && t.Op != token.NEQ {
			return
		}
		eq := t.Op == token.EQL
		if c43IsStr(t.X.Type()) && c43IsStr(t.Y.Type()) {
			_, cx := t.X.(*ssa.Const)
			_, cy := t.Y.(*ssa.Const)
			if !cx && !cy {
				return stripConv(t.X), stripConv(t.Y), eq, true
			}
			return
		}
		call, k := t.X, t.Y
		if _, isC := k.(*ssa.Const); !isC {
			call, k = t.Y, t.X
		}
		n, isInt := constInt(k)
		cc, isCall := call.(*ssa.Call)
		if !isInt || !isCall || len(cc.Call.Args) != 2 {
			return
		}
		switch calleeName(&cc.Call) {
		case "bytes.Compare":
			if n == 0 {
				return cc.Call.Args[0], cc.Call.Args[1], eq, true
			}
		case "crypto/subtle.ConstantTimeCompare":
			if n == 1 {
				return cc.Call.Args[0], cc.Call.Args[1], eq, true
			}
			if n == 0 {
				return cc.Call.Args[0], cc.Call.Args[1], !eq, true
			}
		}
	}
	return
}

func c43IsStr(t types.Type) bool {
	b, ok := t.Underlying().(*types.Basic)
	return ok && b.Info()&types.IsString != 0
}
