package main

import (
	"fmt"
	"strings"

	"golang.org/x/tools/go/ssa"
)

// c05GenericBlocks: the portable block loop hashBlocksGeneric consumes its
// input block by block. The function is interpreted (slices by length, the two
// counter words tracked, all hash arithmetic left unknown) for 1, 2 and 3
// blocks and counter values that exercise the carry: the message words of
// block b are loaded from exactly the bytes [B*b, B*(b+1)) of the input, every
// byte once and in increasing order; the counter is advanced by B per block,
// with carry into the high word, BEFORE the block is compressed, and written
// back at the end; no slice or index leaves the input.
func c05GenericBlocks(c *Ctx, pkg string, B int64, wordBits int) {
	f := c.fn(pkg, "hashBlocksGeneric")
	if f == nil {
		return
	}
	cP, blocks := f.Params[1], f.Params[3]
	mask := int64(-1)
	if wordBits == 32 {
		mask = 1<<32 - 1
	}
	bad := ""
	cases := 0
	for _, k := range []int64{1, 2, 3} {
		for _, c0 := range []int64{0, 5, mask - B + 1, mask - B} {
			if bad != "" {
				continue
			}
			w := &pathWalker{env: newEnv(), lengths: true, maxSteps: 400000}
			w.env.bind(blocks, B*k)
			w.state = map[string]int64{cP.Name() + "[0]": c0 & mask, cP.Name() + "[1]": 7}
			w.off = map[ssa.Value]int64{blocks: 0}
			w.onSlice = func(w *pathWalker, sl *ssa.Slice) {
				if base, ok := w.off[sl.X]; ok {
					lo := int64(0)
					if sl.Low != nil {
						v, okl := w.env.eval(sl.Low)
						if !okl {
							delete(w.off, sl)
							return
						}
						lo = v
					}
					w.off[sl] = base + lo
				}
			}
			var reads []int64 // byte positions of the input that are read, in order
			w.onLoad = func(w *pathWalker, u *ssa.UnOp) (int64, bool) {
				if ia, ok := u.X.(*ssa.IndexAddr); ok {
					if base, isIn := w.off[ia.X]; isIn {
						if idx, okI := w.env.eval(ia.Index); okI {
							reads = append(reads, base+idx)
						} else {
							reads = append(reads, -1)
						}
					}
				}
				return 0, false
			}
			w.onCall = func(w *pathWalker, ci ssa.CallInstruction) string {
				cc := ci.Common()
				n := short(calleeName(cc))
				width := int64(0)
				switch {
				case strings.HasPrefix(n, "(encoding/binary.littleEndian).Uint64"):
					width = 8
				case strings.HasPrefix(n, "(encoding/binary.littleEndian).Uint32"):
					width = 4
				}
				if width > 0 {
					if base, ok := w.off[cc.Args[1]]; ok {
						if l, okl := w.env.eval(cc.Args[1]); okl && l < width {
							w.markOOB(ci)
						}
						for i := int64(0); i < width; i++ {
							reads = append(reads, base+i)
						}
					} else {
						reads = append(reads, -1)
					}
				}
				return ""
			}
			end := w.walk(f.Blocks[0], nil)
			cases++
			id := fmt.Sprintf("%d block(s), counter low word %#x", k, uint64(c0&mask))
			if end != "return" {
				bad = id + ": evaluation ended with " + end + " " + w.why
				continue
			}
			okReads := int64(len(reads)) == B*k
			for i, p := range reads {
				if p != int64(i) {
					okReads = false
				}
			}
			if !okReads {
				first := int64(-1)
				for i, p := range reads {
					if p != int64(i) {
						first = int64(i)
						break
					}
				}
				got := int64(-1)
				if first >= 0 {
					got = reads[first]
				}
				bad = fmt.Sprintf("%s: the message bytes are not read as positions 0..%d in order (%d reads; read #%d is position %d) — a block is hashed from the wrong part of the input", id, B*k-1, len(reads), first, got)
				continue
			}
			um := uint64(mask)
			start := uint64(c0) & um
			lo := int64((start + uint64(B*k)) & um)
			hi := int64(7)
			if (start+uint64(B*k))&um < start {
				hi = 8 // the low word wrapped
			}
			if w.state[cP.Name()+"[0]"]&mask != lo&mask || w.state[cP.Name()+"[1]"]&mask != hi {
				bad = fmt.Sprintf("%s: counter afterwards (%#x, %d), expected (%#x, %d)", id, uint64(w.state[cP.Name()+"[0]"]&mask), w.state[cP.Name()+"[1]"]&mask, uint64(lo), hi)
			}
			if w.oob {
				bad = id + ": a slice or index leaves the input"
			}
		}
	}
	c.check(bad == "" && cases == 12, "C05.generic-blocks", pkg+".hashBlocksGeneric", f, "1-3 blocks: block b is read from bytes [B*b, B*(b+1)), counter += B per block with carry", bad)
}
