package main

import (
	"fmt"
	"go/types"
	"sort"
	"strings"

	"golang.org/x/tools/go/ssa"
)

func init() {
	register(&propDef{
		id: "C40", run: runC40, minOblig: 28,
		explanation: "Decides sibling rules over EVERY type in package ssh that implements ssh.PublicKey (found through go/types, not by name) by abstract INTERPRETATION of its Verify method (pathWalker; helpers of package ssh interpreted in place, so the verdicts do not depend on how the code is factored, on names of locals/parameters/receivers or on the form of a test): strings (sig.Format, the key's Type(), all string constants) are interned identities, errors are nil/non-nil, byte strings carry a content description in a concatenation normal form (data, sig.Blob, u8:n, H[hash](...), a||b; ssh.Marshal, append, []byte{...}, successive hash Writes and binary.BigEndian.AppendUint32 all reduce to it); ssh.Marshal/ssh.Unmarshal, the hash selector (string -> crypto.Hash), hash.Hash Write/Sum/Reset and the primitive verifiers (rsa.VerifyPKCS1v15, dsa.Verify, ecdsa.Verify, ed25519.Verify) are modelled, every parse/lookup is assumed to succeed so that each gate is judged on its own. Per implementation: (i) over the key's own type and 22 protocol format names, Verify returns nil exactly for the formats allowed for the key type (its own name; ssh-rsa, rsa-sha2-256, rsa-sha2-512 for RSA); (ii) nil is returned only when the primitive verifier accepts (both verdicts interpreted), or the inner key's Verify(data, sig) decides verbatim (Certificate); (iii) the bytes handed to the primitive are the data parameter: raw for Ed25519, otherwise hashed with the hash selected by sig.Format, and for the security-key types the U2F blob H(application)||flags||counter||H(data); DSA accepts only 40-byte blobs (lengths 0,20,39,40,41,80 interpreted); (iv) for the security-key types (Type() starts with sk-), all 256 flag bytes x noTouchRequired: the primitive is reached and nil returned exactly when flags&1 != 0 or the opt-out is set, and the flags byte inside the verified blob is the received one; the opt-out field is written only in skKeyWithoutUP (or a helper reachable only from it), on a fresh copy; (v) signers: wrappedSigner / multiAlgorithmSigner.SignWithAlgorithm are interpreted over (list, key type, requested algorithm) cases and invoke the underlying signer exactly when the requested algorithm (for \"\": the key's own, certificate names mapped through the package's table) is in the list. Every protocol key type named by the property must have an implementation. NOT decided: the cryptographic primitives themselves, the hash selector's own table.",
		assumptions: []string{"crypto/rsa, crypto/dsa, crypto/ecdsa, crypto/ed25519 verification contracts", "ssh.Marshal / ssh.Unmarshal encode and decode struct fields in order", "the hash selector maps the security-key formats to SHA-256"},
	})
	tech("C40", "interface-implementation enumeration via go/types + per-implementation abstract interpretation (pathWalker, helpers in place) of format gate, primitive verdict, verified content and the user-presence gate over finite input domains")
}

func runC40(c *Ctx) {
	sp := c.ssaPkg("ssh")
	if sp == nil {
		c.fail("anchor", "package ssh", nil, "not loaded")
		return
	}
	pkIface, _ := sp.Pkg.Scope().Lookup("PublicKey").Type().Underlying().(*types.Interface)
	if pkIface == nil {
		c.fail("anchor", "ssh.PublicKey", nil, "interface not found")
		return
	}
	var impls []types.Type
	for _, name := range sp.Pkg.Scope().Names() {
		tn, ok := sp.Pkg.Scope().Lookup(name).(*types.TypeName)
		if !ok || tn.IsAlias() {
			continue
		}
		T := tn.Type()
		if _, isI := T.Underlying().(*types.Interface); isI {
			continue
		}
		if types.Implements(T, pkIface) {
			impls = append(impls, T)
		} else if types.Implements(types.NewPointer(T), pkIface) {
			impls = append(impls, types.NewPointer(T))
		}
	}
	sort.Slice(impls, func(i, j int) bool { return impls[i].String() < impls[j].String() })
	c.check(len(impls) >= 7, "C40.impls", "implementations of ssh.PublicKey", nil, fmt.Sprintf("%d implementations found", len(impls)), fmt.Sprintf("only %d implementations of ssh.PublicKey found, expected >= 7", len(impls)))
	m := newC40Model(c, sp)
	// every key type of the property has an implementation whose Type() is that name
	// (ECDSA: a Type() that depends on the curve)
	have := map[string]bool{}
	abstract := 0
	var skTypes []types.Type
	for _, T := range impls {
		kt := m.typeOf(T)
		have[kt] = true
		if strings.HasPrefix(kt, "\x00") {
			abstract++
		}
		if strings.HasPrefix(kt, "sk-") {
			skTypes = append(skTypes, T)
		}
	}
	var missing []string
	for _, kt := range []string{"ssh-rsa", "ssh-dss", "ssh-ed25519", "sk-ecdsa-sha2-nistp256@openssh.com", "sk-ssh-ed25519@openssh.com"} {
		if !have[kt] {
			missing = append(missing, kt)
		}
	}
	if abstract == 0 && !have["ecdsa-sha2-nistp256"] {
		missing = append(missing, "ecdsa-sha2-*")
	}
	c.check(len(missing) == 0, "C40.impls", "key types of the property", nil, "RSA, DSA, ECDSA, Ed25519 and both security-key types each have a PublicKey implementation (classified by the interpreted value of Type())", "no PublicKey implementation whose Type() evaluates to "+strings.Join(missing, ", "))
	for _, T := range impls {
		sel := c.ld.prog.MethodSets.MethodSet(T).Lookup(sp.Pkg, "Verify")
		if sel == nil {
			continue
		}
		f := c.ld.prog.MethodValue(sel)
		if f == nil || len(f.Blocks) == 0 {
			continue
		}
		tname := short(T.String())
		if f.Synthetic != "" {
			// promoted through embedding: the underlying implementation is checked on its own type
			c.ok("C40.verify", tname+".Verify", nil, "promoted method ("+f.Synthetic+")")
			continue
		}
		if c.funcsSeen == nil {
			c.funcsSeen = map[string]bool{}
		}
		c.funcsSeen["ssh."+fnName(f)] = true
		if len(f.Params) != 3 {
			c.fail("anchor", tname+".Verify", f, "unexpected signature")
			continue
		}
		m.checkVerify(T, f, tname)
	}
	c40NoTouchWriters(c, skTypes)
	c40Signers(c, m)
}

// c40NoTouchWriters: the opt-out (the boolean field of a security-key type) is
// set only on a fresh copy of the key, inside skKeyWithoutUP or a helper that
// is reachable from nowhere else.
func c40NoTouchWriters(c *Ctx, skTypes []types.Type) {
	root := c.fnOpt("ssh", "skKeyWithoutUP")
	var under func(g *ssa.Function, depth int) bool
	under = func(g *ssa.Function, depth int) bool {
		if g == nil || root == nil {
			return false
		}
		if g == root {
			return true
		}
		if depth > 3 || g.Object() == nil || g.Object().Exported() {
			return false
		}
		cs := c.callersOf(g)
		if len(cs) == 0 {
			return false
		}
		for _, ci := range cs {
			if !under(ci.Parent(), depth+1) {
				return false
			}
		}
		return true
	}
	for _, T := range skTypes {
		st := derefStruct(T)
		if st == nil {
			continue
		}
		typ := typeName(T)
		for i := 0; i < st.NumFields(); i++ {
			if c40ScalarKind(st.Field(i).Type()) != "bool" {
				continue
			}
			field := st.Field(i).Name()
			for _, f := range c.funcsOfPkg("ssh") {
				for _, s := range storesTo(f, typ, field) {
					fresh := false
					if fa, ok := s.Addr.(*ssa.FieldAddr); ok {
						fresh = c40Fresh(fa.X, 0)
					}
					c.check(under(f, 0) && fresh, "C40.no-touch-writer", typ+"."+field+" in "+fnName(f), s, "set only under skKeyWithoutUP, on a fresh copy", field+" is written outside skKeyWithoutUP (and its private helpers) or on a shared key value")
				}
			}
		}
	}
}

// c40Fresh: v points to an object allocated for this very use: a heap
// allocation in the function itself, or the result of a helper of the same
// package all of whose returns are such allocations (a clone helper).
func c40Fresh(v ssa.Value, depth int) bool {
	switch x := v.(type) {
	case *ssa.Alloc:
		return x.Heap
	case *ssa.Call:
		g := x.Call.StaticCallee()
		if g == nil || depth > 2 || len(g.Blocks) == 0 || x.Parent() == nil || g.Pkg != x.Parent().Pkg {
			return false
		}
		rs := returnsOf(g)
		if len(rs) == 0 {
			return false
		}
		for _, r := range rs {
			if len(r.Results) != 1 || !c40Fresh(r.Results[0], depth+1) {
				return false
			}
		}
		return true
	}
	return false
}

func c40Signers(c *Ctx, m *c40Model) {
	for _, sg := range []struct {
		name    string
		ownList bool
	}{{"(*wrappedSigner).SignWithAlgorithm", false}, {"(*multiAlgorithmSigner).SignWithAlgorithm", true}} {
		f := c.fnOpt("ssh", sg.name)
		if f == nil {
			c.fail("anchor", "ssh."+sg.name, nil, "function not found")
			continue
		}
		m.checkSigner(f, sg.name, sg.ownList)
	}
}
