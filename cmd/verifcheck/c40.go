package main

import (
	"fmt"
	"go/token"
	"go/types"
	"sort"
	"strings"

	"golang.org/x/tools/go/ssa"
)

func init() {
	register(&propDef{
		id: "C40", run: runC40, minOblig: 28,
		explanation: "Decides sibling rules over EVERY type in package ssh that implements ssh.PublicKey (found through go/types, not by name): each Verify method returns nil only (i) behind the signature-format test on its success edge — sig.Format == k.Type(), or membership in algorithmsForKeyFormat(k.Type()) for RSA — and (ii) behind the success edge of the primitive verifier (rsa.VerifyPKCS1v15, dsa.Verify, ecdsa.Verify, ed25519.Verify) or by returning the inner key's Verify(data, sig) verbatim (Certificate); (iii) the bytes verified derive from the data parameter: raw for Ed25519, hashed with hashFunc(sig.Format) otherwise (a hash Write of the data parameter precedes the Sum that feeds the primitive); DSA accepts only 40-byte blobs (evaluated); (iv) for the two security-key types, finite-domain evaluation over all 256 flag bytes x noTouchRequired shows the primitive is reached exactly when flags&1 != 0 or the opt-out is set, and the flags byte verified inside the reconstructed U2F blob is the received one; noTouchRequired is written only by skKeyWithoutUP, on a fresh copy; (v) signers: wrappedSigner / multiAlgorithmSigner.SignWithAlgorithm refuse algorithms outside their lists before delegating. NOT decided: the cryptographic primitives themselves.",
		assumptions: []string{"crypto/rsa, crypto/dsa, crypto/ecdsa, crypto/ed25519 verification contracts"},
	})
	tech("C40", "interface-implementation enumeration via go/types + per-implementation must-cross CFG rules + finite-domain evaluation of the user-presence gate")
}

func runC40(c *Ctx) {
	sp := c.ssaPkg("ssh")
	if sp == nil {
		c.fail("anchor", "package ssh", nil, "not loaded")
		return
	}
	pkIface, _ := sp.Pkg.Scope().Lookup("PublicKey").Type().Underlying().(*types.Interface)
	if pkIface == nil {
		c.fail("anchor", "ssh.PublicKey", nil, "interface not found")
		return
	}
	var impls []types.Type
	for _, name := range sp.Pkg.Scope().Names() {
		tn, ok := sp.Pkg.Scope().Lookup(name).(*types.TypeName)
		if !ok || tn.IsAlias() {
			continue
		}
		T := tn.Type()
		if _, isI := T.Underlying().(*types.Interface); isI {
			continue
		}
		if types.Implements(T, pkIface) {
			impls = append(impls, T)
		} else if types.Implements(types.NewPointer(T), pkIface) {
			impls = append(impls, types.NewPointer(T))
		}
	}
	sort.Slice(impls, func(i, j int) bool { return impls[i].String() < impls[j].String() })
	c.check(len(impls) >= 7, "C40.impls", "implementations of ssh.PublicKey", nil, fmt.Sprintf("%d implementations found", len(impls)), fmt.Sprintf("only %d implementations of ssh.PublicKey found, expected >= 7", len(impls)))
	prim := map[string]predKind{
		"crypto/rsa.VerifyPKCS1v15": isNil,
		"crypto/dsa.Verify":         isTrue,
		"crypto/ecdsa.Verify":       isTrue,
		"crypto/ed25519.Verify":     isTrue,
	}
	for _, T := range impls {
		sel := c.ld.prog.MethodSets.MethodSet(T).Lookup(sp.Pkg, "Verify")
		if sel == nil {
			continue
		}
		f := c.ld.prog.MethodValue(sel)
		if f == nil || len(f.Blocks) == 0 {
			continue
		}
		tname := short(T.String())
		if f.Synthetic != "" {
			// promoted through embedding: the underlying implementation is checked on its own type
			c.ok("C40.verify", tname+".Verify", nil, "promoted method ("+f.Synthetic+")")
			continue
		}
		if c.funcsSeen == nil {
			c.funcsSeen = map[string]bool{}
		}
		c.funcsSeen["ssh."+fnName(f)] = true
		acc := acceptReturns(f, 0)
		data, sig := f.Params[1], f.Params[2]
		// delegation: return inner.Verify(data, sig)
		deleg := false
		for _, r := range returnsOf(f) {
			if call, ok := r.Results[0].(*ssa.Call); ok && call.Call.IsInvoke() && call.Call.Method.Name() == "Verify" {
				if call.Call.Args[0] == ssa.Value(data) && call.Call.Args[1] == ssa.Value(sig) {
					deleg = true
				}
			}
		}
		if deleg && len(returnsOf(f)) == 1 {
			c.ok("C40.verify", tname+".Verify", f, "returns the embedded key's Verify(data, sig) verbatim")
			continue
		}
		// (i) format test
		var fmtPass []edge
		allInstrs(f, func(in ssa.Instruction) {
			switch x := in.(type) {
			case *ssa.BinOp:
				if x.Op != token.EQL && x.Op != token.NEQ {
					return
				}
				isFmt := func(v ssa.Value) bool {
					_, fld, base, ok := fieldOf(v)
					return ok && fld == "Format" && base == ssa.Value(sig)
				}
				isType := func(v ssa.Value) bool {
					call, ok := v.(*ssa.Call)
					return ok && strings.HasSuffix(calleeName(&call.Call), ".Type") && len(call.Call.Args) == 1 && call.Call.Args[0] == ssa.Value(f.Params[0])
				}
				if (isFmt(x.X) && isType(x.Y)) || (isFmt(x.Y) && isType(x.X)) {
					y, _ := boolEdges(x, x.Op == token.EQL)
					fmtPass = append(fmtPass, y...)
				}
			case *ssa.Call:
				if short(calleeName(&x.Call)) == "slices.Contains" {
					_, fld, base, ok := fieldOf(x.Call.Args[1])
					if !ok || fld != "Format" || base != ssa.Value(sig) {
						return
					}
					if inner, ok := x.Call.Args[0].(*ssa.Call); ok && short(calleeName(&inner.Call)) == "ssh.algorithmsForKeyFormat" {
						if tc, ok := inner.Call.Args[0].(*ssa.Call); ok && strings.HasSuffix(calleeName(&tc.Call), ".Type") {
							y, _ := successEdges(x, 0, isTrue)
							fmtPass = append(fmtPass, y...)
						}
					}
				}
			}
		})
		c.mustCross("C40.format", tname+".Verify", f, acc, fmtPass, "the signature format test (sig.Format vs the key's type)")
		// (ii) primitive
		var primPass []edge
		var primCalls []*ssa.Call
		for n, k := range prim {
			for _, ci := range callsNamed(f, n) {
				call := ci.(*ssa.Call)
				primCalls = append(primCalls, call)
				idx := 0
				if k == isNil {
					idx = call.Call.Signature().Results().Len() - 1
				}
				y, _ := successEdges(call, idx, k)
				primPass = append(primPass, y...)
			}
		}
		// a return of the primitive's own error value is accepting only if the primitive accepted
		var accP []ssa.Instruction
		direct := false
		for _, t := range acc {
			isPrim := false
			for _, pc := range primCalls {
				if t.(*ssa.Return).Results[0] == ssa.Value(pc) {
					isPrim = true
				}
			}
			if isPrim {
				direct = true
			} else {
				accP = append(accP, t)
			}
		}
		if direct && len(accP) == 0 {
			c.ok("C40.primitive", tname+".Verify", f, "the only possibly-nil return is the primitive verifier's own result")
		} else {
			c.mustCross("C40.primitive", tname+".Verify", f, accP, primPass, "the success edge of the primitive signature verification")
		}
		// (iii) data provenance
		dataOK := false
		for _, pc := range primCalls {
			n := short(calleeName(&pc.Call))
			if n == "crypto/ed25519.Verify" && pc.Call.Args[1] == ssa.Value(data) {
				dataOK = true
			}
		}
		hashOK := false
		for _, ci := range calls(f, func(n string) bool { return n == "invoke:(hash.Hash).Write" || n == "invoke:(io.Writer).Write" }) {
			if ci.Common().Args[0] == ssa.Value(data) && isHashish(ci.Common().Value) {
				// the hash comes from hashFunc(sig.Format).New()
				hashOK = true
			}
		}
		hf := callsNamed(f, "ssh.hashFunc")
		hfOK := len(hf) == 1
		if hfOK {
			_, fld, base, ok := fieldOf(hf[0].Common().Args[0])
			hfOK = ok && fld == "Format" && base == ssa.Value(sig)
		}
		if !dataOK {
			dataOK = hashOK && hfOK
			// the primitive's digest argument is a Sum result
			for _, pc := range primCalls {
				found := false
				for _, a := range pc.Call.Args {
					if call, ok := stripConv(a).(*ssa.Call); ok && strings.HasSuffix(calleeName(&call.Call), ".Sum") {
						found = true
					}
					if sl, ok := a.(*ssa.Slice); ok {
						if call, ok := sl.X.(*ssa.Call); ok && strings.HasSuffix(calleeName(&call.Call), ".Sum") {
							found = true
						}
					}
				}
				if !found && short(calleeName(&pc.Call)) != "crypto/ed25519.Verify" {
					dataOK = false
				}
			}
		}
		c.check(dataOK, "C40.data", tname+".Verify", f, "the primitive verifies the data parameter (raw, or hashed with hashFunc(sig.Format))", "the verified bytes do not derive from the data parameter / the hash is not hashFunc(sig.Format)")
		// DSA blob length
		if strings.Contains(tname, "dsaPublicKey") && !strings.Contains(tname, "ecdsa") {
			bad := ""
			for _, n := range []int64{0, 20, 39, 40, 41, 80} {
				e := newEnv()
				allInstrs(f, func(in ssa.Instruction) {
					if call, ok := in.(*ssa.Call); ok && calleeName(&call.Call) == "builtin:len" {
						if _, fld, _, ok := fieldOf(call.Call.Args[0]); ok && fld == "Blob" {
							e.bind(call, n)
						}
					}
				})
				e.solve(f)
				reached := false
				for _, pc := range primCalls {
					if e.reach[pc.Block()] {
						reached = true
					}
				}
				if reached != (n == 40) {
					bad = fmt.Sprintf("blob of %d bytes: dsa.Verify reached=%v", n, reached)
				}
			}
			c.check(bad == "", "C40.dsa-blob", tname+".Verify", f, "only 40-byte signature blobs reach dsa.Verify", bad)
		}
		// (iv) SK user presence
		if strings.Contains(tname, "skECDSA") || strings.Contains(tname, "skEd25519") {
			c40UserPresence(c, f, tname, primCalls)
		}
	}
	// noTouchRequired writers
	for _, typ := range []string{"skECDSAPublicKey", "skEd25519PublicKey"} {
		for _, f := range c.funcsOfPkg("ssh") {
			for _, st := range storesTo(f, typ, "noTouchRequired") {
				okW := fnName(f) == "skKeyWithoutUP"
				fresh := false
				if fa, ok := st.Addr.(*ssa.FieldAddr); ok {
					if al, ok := fa.X.(*ssa.Alloc); ok && al.Heap {
						fresh = true
					}
				}
				c.check(okW && fresh, "C40.no-touch-writer", typ+".noTouchRequired in "+fnName(f), st, "set only by skKeyWithoutUP on a fresh copy", "noTouchRequired is written outside skKeyWithoutUP or on a shared key value")
			}
		}
	}
	c40Signers(c)
}

func c40UserPresence(c *Ctx, f *ssa.Function, tname string, primCalls []*ssa.Call) {
	// the flags byte: loads of skFields.Flags
	var flagLoads []ssa.Value
	allInstrs(f, func(in ssa.Instruction) {
		if u, ok := in.(*ssa.UnOp); ok && u.Op == token.MUL {
			if t, fld, _, ok := fieldOf(u); ok && t == "skFields" && fld == "Flags" {
				flagLoads = append(flagLoads, u)
			}
		}
	})
	if len(flagLoads) == 0 || len(primCalls) == 0 {
		c.fail("C40.user-presence", tname+".Verify", f, "flags byte or primitive call not found")
		return
	}
	up, _ := pkgConstInt(c, "ssh", "flagUserPresence")
	if up == 0 {
		up = 1
	}
	bad := ""
	n := 0
	for d := int64(0); d < 256; d++ {
		for nt := int64(0); nt < 2; nt++ {
			e := newEnv()
			for _, l := range flagLoads {
				e.bind(l, d)
			}
			e.bindField(f, strings.TrimPrefix(strings.TrimPrefix(tname, "*ssh."), "ssh."), "noTouchRequired", nt)
			// all error checks pass, format matches, key size ok
			allInstrs(f, func(in ssa.Instruction) {
				bo, ok := in.(*ssa.BinOp)
				if !ok {
					return
				}
				if (bo.Op == token.NEQ || bo.Op == token.EQL) && isNilConst(bo.Y) {
					if _, isErr := bo.X.Type().Underlying().(*types.Interface); isErr {
						if bo.Op == token.NEQ {
							e.bind(bo, 0)
						} else {
							e.bind(bo, 1)
						}
					}
				}
				if bo.Op == token.NEQ || bo.Op == token.EQL {
					if _, fld, _, ok := fieldOf(bo.X); ok && fld == "Format" {
						if bo.Op == token.NEQ {
							e.bind(bo, 0)
						} else {
							e.bind(bo, 1)
						}
					}
					if call, ok := bo.X.(*ssa.Call); ok && calleeName(&call.Call) == "builtin:len" {
						if bo.Op == token.NEQ {
							e.bind(bo, 0)
						} else {
							e.bind(bo, 1)
						}
					}
				}
			})
			e.solve(f)
			reached := false
			for _, pc := range primCalls {
				if e.reach[pc.Block()] {
					reached = true
				}
			}
			want := d&up != 0 || nt == 1
			n++
			if reached != want && bad == "" {
				bad = fmt.Sprintf("flags=%#02x noTouchRequired=%d: signature check reached=%v, specification (user presence bit or opt-out) %v", d, nt, reached, want)
			}
		}
	}
	c.check(bad == "", "C40.user-presence", tname+".Verify", f, fmt.Sprintf("user-presence gate correct on all %d (flags, opt-out) cases", n), bad)
	// the flags inside the verified blob are the received flags
	okBlob := false
	allInstrs(f, func(in ssa.Instruction) {
		if st, ok := in.(*ssa.Store); ok {
			if _, fld, _, ok := fieldOf(st.Addr); ok && fld == "Flags" {
				for _, l := range flagLoads {
					if st.Val == l {
						okBlob = true
					}
				}
			}
		}
	})
	c.check(okBlob, "C40.user-presence", tname+".Verify signed flags", f, "the flags byte inside the verified U2F blob is the received one", "the reconstructed signed blob does not carry the received flags byte")
}

func c40Signers(c *Ctx) {
	for _, name := range []string{"(*wrappedSigner).SignWithAlgorithm", "(*multiAlgorithmSigner).SignWithAlgorithm"} {
		f := c.fnOpt("ssh", name)
		if f == nil {
			c.fail("anchor", "ssh."+name, nil, "function not found")
			continue
		}
		// every delegating/signing call lies behind a membership / equality test of the algorithm parameter
		algo := f.Params[len(f.Params)-1]
		var pass []edge
		allInstrs(f, func(in ssa.Instruction) {
			switch x := in.(type) {
			case *ssa.Call:
				n := short(calleeName(&x.Call))
				if n == "slices.Contains" || strings.HasSuffix(n, ".isAlgorithmSupported") || n == "ssh.contains" {
					for _, a := range x.Call.Args {
						if fromParam(a, algo) {
							y, _ := successEdges(x, 0, isTrue)
							pass = append(pass, y...)
						}
					}
				}
			case *ssa.BinOp:
				if _, isC := x.Y.(*ssa.Const); isC {
					return // comparison with a constant (e.g. the empty default) is not a support test
				}
				if (x.Op == token.EQL || x.Op == token.NEQ) && (fromParam(x.X, algo) || fromParam(x.Y, algo)) {
					y, _ := boolEdges(x, x.Op == token.EQL)
					pass = append(pass, y...)
				}
			}
		})
		var targets []ssa.Instruction
		allInstrs(f, func(in ssa.Instruction) {
			if call, ok := in.(*ssa.Call); ok {
				n := calleeName(&call.Call)
				if strings.HasSuffix(n, ".SignWithAlgorithm") || strings.HasSuffix(n, ").Sign") || strings.HasSuffix(n, ".SignPKCS1v15") || strings.HasSuffix(n, "signWithAlgorithm") {
					targets = append(targets, call)
				}
			}
		})
		if len(targets) == 0 {
			c.ok("C40.signer", name, f, "no delegation in this method body (handled by callee)")
			continue
		}
		c.mustCross("C40.signer", name, f, targets, pass, "a supported-algorithm test on the requested algorithm")
	}
}

// fromParam: v is the parameter or a phi that can carry it.
func fromParam(v ssa.Value, p *ssa.Parameter) bool {
	if v == ssa.Value(p) {
		return true
	}
	if ph, ok := v.(*ssa.Phi); ok {
		for _, e := range ph.Edges {
			if e == ssa.Value(p) {
				return true
			}
		}
	}
	return false
}
