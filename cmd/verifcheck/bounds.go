package main

import (
	"fmt"
	"go/token"
	"go/types"

	"golang.org/x/tools/go/ssa"
)

// Bounds obligations under a finite-domain assignment (engine E6 applied to
// slice expressions): for every reachable Slice instruction over a tracked
// buffer, low <= high <= len(buffer) must hold, with all three evaluated in
// Go's fixed-width arithmetic from the bound input values. The length of a
// buffer held in a struct field is the length of the value last stored to that
// field on the evaluated path (make or reslice).

type boundsCtx struct {
	e        *penv
	fn       *ssa.Function
	lenOver  map[ssa.Value]int64 // manual summaries: len of a value (e.g. result of aead.Open)
	tracked  func(path string) bool
	skipped  int
	checked  int
	firstBad string
	badAt    ssa.Instruction
}

// lenOf evaluates len(v) for slice-typed v.
func (b *boundsCtx) lenOf(v ssa.Value, at ssa.Instruction, depth int) (int64, bool) {
	if depth > 12 {
		return 0, false
	}
	if n, ok := b.lenOver[v]; ok {
		return n, true
	}
	switch x := v.(type) {
	case *ssa.MakeSlice:
		return b.e.eval(x.Len)
	case *ssa.Slice:
		var lo int64
		if x.Low != nil {
			l, ok := b.e.eval(x.Low)
			if !ok {
				return 0, false
			}
			lo = l
		}
		if x.High != nil {
			h, ok := b.e.eval(x.High)
			if !ok {
				return 0, false
			}
			return h - lo, true
		}
		// high defaults to len(X)
		if pt, ok := x.X.Type().Underlying().(*types.Pointer); ok {
			if arr, ok := pt.Elem().Underlying().(*types.Array); ok {
				return arr.Len() - lo, true
			}
		}
		n, ok := b.lenOf(x.X, x, depth+1)
		if !ok {
			return 0, false
		}
		return n - lo, true
	case *ssa.UnOp:
		if x.Op == token.MUL {
			// load of a field: length of the value last stored on this path
			p := accessPath(x)
			if p == "" {
				return 0, false
			}
			return b.memLen(p, x, depth)
		}
	case *ssa.Phi:
		var val int64
		seen := false
		for i, ed := range x.Edges {
			pred := x.Block().Preds[i]
			if b.e.reach != nil && (!b.e.reach[pred] || !b.e.edgeFeasible(pred, x.Block())) {
				continue
			}
			n, ok := b.lenOf(ed, at, depth+1)
			if !ok {
				return 0, false
			}
			if seen && n != val {
				return 0, false
			}
			val, seen = n, true
		}
		return val, seen
	}
	return 0, false
}

// memLen: length of the slice stored in the field with access path p, as seen
// by instruction 'at': all reachable stores to p that can precede 'at' must
// agree on the stored length.
func (b *boundsCtx) memLen(p string, at ssa.Instruction, depth int) (int64, bool) {
	var val int64
	seen := false
	okAll := true
	allInstrs(b.fn, func(in ssa.Instruction) {
		st, ok := in.(*ssa.Store)
		if !ok || accessPath(st.Addr) != p {
			return
		}
		if b.e.reach != nil && !b.e.reach[st.Block()] {
			return
		}
		// must be able to precede 'at'
		if !(st.Block() == at.Block() && instrIndex(st) < instrIndex(at)) {
			if !reach([]*ssa.BasicBlock{st.Block()}, b.e.cut)[at.Block()] || st.Block() == at.Block() {
				return
			}
		}
		n, ok := b.lenOf(st.Val, st, depth+1)
		if !ok {
			okAll = false
			return
		}
		if seen && n != val {
			okAll = false
		}
		val, seen = n, true
	})
	return val, seen && okAll
}

// check evaluates every reachable Slice over a tracked buffer.
func (b *boundsCtx) check(desc string) {
	allInstrs(b.fn, func(in ssa.Instruction) {
		sl, ok := in.(*ssa.Slice)
		if !ok || (b.e.reach != nil && !b.e.reach[sl.Block()]) {
			return
		}
		// root path of the sliced value
		root := sl.X
		for {
			if s2, ok := root.(*ssa.Slice); ok {
				root = s2.X
				continue
			}
			break
		}
		p := accessPath(root)
		if !b.tracked(p) {
			if _, over := b.lenOver[sl.X]; !over {
				return
			}
		}
		// a reslice that is itself stored back into the tracked field is the
		// (capacity-guarded) resize; not an obligation
		if refs := sl.Referrers(); refs != nil {
			for _, r := range *refs {
				if st, ok := r.(*ssa.Store); ok && b.tracked(accessPath(st.Addr)) && st.Val == ssa.Value(sl) {
					return
				}
			}
		}
		L, ok := b.lenOf(sl.X, sl, 0)
		if !ok {
			b.skipped++
			return
		}
		var lo, hi int64 = 0, L
		if sl.Low != nil {
			v, ok := b.e.eval(sl.Low)
			if !ok {
				b.skipped++
				return
			}
			lo = v
		}
		if sl.High != nil {
			v, ok := b.e.eval(sl.High)
			if !ok {
				b.skipped++
				return
			}
			hi = v
		}
		b.checked++
		if lo < 0 || hi < lo || hi > L {
			if b.firstBad == "" {
				b.firstBad = fmt.Sprintf("%s: slice [%d:%d] of a buffer of length %d", desc, lo, hi, L)
				b.badAt = sl
			}
		}
	})
}
