package main

import (
	"fmt"
	"go/token"
	"strings"

	"golang.org/x/tools/go/ssa"
)

func init() {
	register(&propDef{
		id: "C23", run: runC23, minOblig: 24,
		explanation: "Decides DER strictness guards of the cryptobyte ASN.1 readers by finite-domain evaluation of their SSA (fixed-width arithmetic): (header) readASN1, over a grid of identifier octets, first length octets, decoded long-form lengths and input sizes, hands exactly header+content octets to ReadBytes and rejects the high-tag-number form, the indefinite length 0x80, more than 4 length octets, long form for lengths < 128, a zero leading length octet and 32-bit overflow; (INTEGER) checkASN1Integer accepts exactly non-empty minimal two's-complement contents (all combinations of length 0,1,2,9 and leading octets 00,01,7f,80,fe,ff); every INTEGER/ENUMERATED reader (readASN1BigInt, readASN1Bytes, readASN1Int64, readASN1Uint64, ReadASN1Int64WithTag, ReadASN1Enum) cannot report success when checkASN1Integer or the element read reports false; asn1Signed accepts at most 8 octets, asn1Unsigned at most 8 octets or 9 with a zero first octet and never a set sign bit (lengths 1..10 x first octets evaluated); (BOOLEAN) only one content octet equal to 00 or ff, all 256 values evaluated; (BIT STRING) padding count <= 7, zero for empty strings and the padding bits of the last octet zero (evaluated); (tags) each AddASN1X / ReadASN1X pair uses the X.690 universal tag of X. NOT decided: the full 'accepts exactly DER' equivalence, agreement with encoding/asn1 on values, time and OID content grammar.",
		assumptions: []string{"int is 64-bit", "String.ReadBytes/readUnsigned contracts (C22)"},
	})
	tech("C23", "finite-domain evaluation of byte-level guards over boundary grids (all 256 values where a single octet decides), callee-result binding for sibling agreement, constant-tag table")
}

func runC23(c *Ctx) {
	c23IntNoStale(c)
	const pk = "cryptobyte"
	// ---------- readASN1 header
	if f := c.fn(pk, "(*String).readASN1"); f != nil {
		rb := callsNamed(f, "(*cryptobyte.String).ReadBytes")
		ru := callsNamed(f, "(*cryptobyte.String).readUnsigned")
		// len32: the alloc passed to readUnsigned
		var len32 *ssa.Alloc
		if len(ru) == 1 {
			len32, _ = ru[0].Common().Args[1].(*ssa.Alloc)
		}
		if len(rb) != 1 || len(ru) != 1 || len32 == nil {
			c.fail("C23.header", "(*String).readASN1", f, "anchors not found (ReadBytes, readUnsigned, length variable)")
		} else {
			bad := ""
			n := 0
			sPath := "s"
			for _, tag := range []int64{0x02, 0x30, 0x1f, 0x3f, 0xbf, 0xa0} {
				for _, lb := range []int64{0x00, 0x05, 0x7f, 0x80, 0x81, 0x82, 0x83, 0x84, 0x85, 0xff} {
					for _, L := range []int64{0, 1, 127, 128, 255, 256, 65535, 65536, 1<<24 - 1, 1 << 24, 1<<32 - 7, 1<<32 - 1} {
						for _, size := range []int64{0, 1, 2, 3, 5, 6, 1000} {
							e := newEnv()
							allInstrs(f, func(in ssa.Instruction) {
								switch x := in.(type) {
								case *ssa.Call:
									if calleeName(&x.Call) == "builtin:len" && accessPath(x.Call.Args[0]) == sPath {
										e.bind(x, size)
									}
								case *ssa.UnOp:
									if x.Op != token.MUL {
										return
									}
									if ia, ok := x.X.(*ssa.IndexAddr); ok && accessPath(ia.X) == sPath {
										if k, okk := constInt(ia.Index); okk {
											if k == 0 {
												e.bind(x, tag)
											} else if k == 1 {
												e.bind(x, lb)
											}
										}
									}
									if x.X == ssa.Value(len32) {
										e.bind(x, L)
									}
								}
							})
							e.bind(callValue(ru[0]), 1)
							e.solve(f)
							got := e.reach[rb[0].Block()]
							lenLen := lb & 0x7f
							var want bool
							var wantLen int64
							switch {
							case size < 2 || tag&0x1f == 0x1f:
								want = false
							case lb&0x80 == 0:
								want, wantLen = true, lb+2
							default:
								want = lenLen >= 1 && lenLen <= 4 && size >= 2+lenLen && L >= 128 && (L>>uint((lenLen-1)*8)) != 0 && (2+lenLen+L) <= 1<<32-1
								wantLen = 2 + lenLen + L
							}
							n++
							if got != want {
								if bad == "" {
									bad = fmt.Sprintf("identifier %#02x, length octet %#02x, long-form value %d, input %d bytes: element read=%v, DER requires %v", tag, lb, L, size, got, want)
								}
								continue
							}
							if got {
								if v, ok := e.eval(rb[0].Common().Args[2]); !ok || v != wantLen {
									if bad == "" {
										bad = fmt.Sprintf("identifier %#02x, length octet %#02x, value %d: reads %d bytes (ok=%v), header+content is %d", tag, lb, L, v, ok, wantLen)
									}
								}
							}
						}
					}
				}
			}
			c.check(bad == "", "C23.header", "(*String).readASN1", f, fmt.Sprintf("DER identifier/length rules hold on %d cases", n), bad)
		}
	}
	// ---------- checkASN1Integer
	if f := c.fn(pk, "checkASN1Integer"); f != nil {
		bad := ""
		n := 0
		for _, ln := range []int64{0, 1, 2, 9} {
			for _, b0 := range []int64{0x00, 0x01, 0x7f, 0x80, 0xfe, 0xff} {
				for _, b1 := range []int64{0x00, 0x01, 0x7f, 0x80, 0xfe, 0xff} {
					e := newEnv()
					e.bindLen(f, f.Params[0], ln)
					e.bindIndexLoads(f, func(b ssa.Value) bool { return b == ssa.Value(f.Params[0]) }, 0, b0)
					e.bindIndexLoads(f, func(b ssa.Value) bool { return b == ssa.Value(f.Params[0]) }, 1, b1)
					e.solve(f)
					got, ok := c23Result(e, f)
					want := ln >= 1 && (ln == 1 || !((b0 == 0 && b1&0x80 == 0) || (b0 == 0xff && b1&0x80 == 0x80)))
					n++
					if !ok || got != want {
						bad = fmt.Sprintf("length %d, octets %#02x %#02x: accepted=%v (decided=%v), DER minimal encoding requires %v", ln, b0, b1, got, ok, want)
					}
				}
			}
		}
		c.check(bad == "", "C23.integer", "checkASN1Integer", f, fmt.Sprintf("accepts exactly non-empty minimal encodings (%d cases)", n), bad)
	}
	// ---------- siblings: no success without the integer check / element read
	for _, name := range []string{"(*String).readASN1BigInt", "(*String).readASN1Bytes", "(*String).readASN1Int64", "(*String).readASN1Uint64", "(*String).ReadASN1Int64WithTag", "(*String).ReadASN1Enum"} {
		f := c.fn(pk, name)
		if f == nil {
			continue
		}
		for _, callee := range []string{"cryptobyte.checkASN1Integer", "(*cryptobyte.String).ReadASN1"} {
			cs := callsNamed(f, callee)
			bad := ""
			if len(cs) != 1 {
				bad = fmt.Sprintf("%d calls of %s (want 1)", len(cs), callee)
			} else {
				e := newEnv()
				e.bind(callValue(cs[0]), 0)
				e.solve(f)
				if got, ok := c23Result(e, f); !ok || got {
					bad = "success can be reported although " + callee + " reported false"
				}
			}
			c.check(bad == "", "C23.integer-siblings", name+" / "+short(callee), f, "success requires "+short(callee)+" == true", bad)
		}
	}
	// ---------- asn1Signed / asn1Unsigned
	for _, spec := range []struct {
		fn    string
		valid func(ln, b0 int64) bool
	}{
		{"asn1Signed", func(ln, b0 int64) bool { return ln <= 8 }},
		{"asn1Unsigned", func(ln, b0 int64) bool { return (ln <= 8 || (ln == 9 && b0 == 0)) && b0&0x80 == 0 }},
	} {
		f := c.fn(pk, spec.fn)
		if f == nil {
			continue
		}
		bad := ""
		n := 0
		for ln := int64(1); ln <= 10; ln++ {
			for _, b0 := range []int64{0x00, 0x01, 0x7f, 0x80, 0xff} {
				e := newEnv()
				e.bindLen(f, f.Params[1], ln)
				e.bindIndexLoads(f, func(b ssa.Value) bool { return b == ssa.Value(f.Params[1]) }, 0, b0)
				e.solve(f)
				// true return reachable?
				got := false
				for _, r := range returnsOf(f) {
					if !e.reach[r.Block()] {
						continue
					}
					if v, isC := constBool(retVal(r, 0)); isC && v {
						got = true
					}
				}
				n++
				if got != spec.valid(ln, b0) {
					bad = fmt.Sprintf("%d content octets, first octet %#02x: accepted=%v, the destination type can represent it=%v", ln, b0, got, spec.valid(ln, b0))
				}
			}
		}
		c.check(bad == "", "C23.int-range", spec.fn, f, fmt.Sprintf("size/sign limits correct on %d cases", n), bad)
	}
	// ---------- BOOLEAN
	if f := c.fn(pk, "(*String).ReadASN1Boolean"); f != nil {
		rd := callsNamed(f, "(*cryptobyte.String).ReadASN1")
		var bytesA *ssa.Alloc
		if len(rd) == 1 {
			bytesA, _ = rd[0].Common().Args[1].(*ssa.Alloc)
		}
		bad := ""
		if bytesA == nil {
			bad = "element read not found"
		} else {
			for _, ln := range []int64{0, 1, 2} {
				for b0 := int64(0); b0 < 256; b0++ {
					e := newEnv()
					e.bind(callValue(rd[0]), 1)
					allInstrs(f, func(in ssa.Instruction) {
						switch x := in.(type) {
						case *ssa.Call:
							if calleeName(&x.Call) == "builtin:len" {
								if u, ok := x.Call.Args[0].(*ssa.UnOp); ok && u.X == ssa.Value(bytesA) {
									e.bind(x, ln)
								}
							}
						case *ssa.UnOp:
							if ia, ok := x.X.(*ssa.IndexAddr); ok && x.Op == token.MUL {
								if u, ok := ia.X.(*ssa.UnOp); ok && u.X == ssa.Value(bytesA) {
									e.bind(x, b0)
								}
							}
						}
					})
					e.solve(f)
					got, ok := c23Result(e, f)
					want := ln == 1 && (b0 == 0 || b0 == 0xff)
					if !ok || got != want {
						bad = fmt.Sprintf("BOOLEAN of %d octets, value %#02x: accepted=%v, DER requires %v", ln, b0, got, want)
					}
				}
			}
		}
		c.check(bad == "", "C23.boolean", "(*String).ReadASN1Boolean", f, "exactly one octet, 00 or ff (3 x 256 cases)", bad)
	}
	// ---------- BIT STRING
	if f := c.fn(pk, "(*String).ReadASN1BitString"); f != nil {
		// evaluate the second guard: paddingBits (bytes[0]) / len(rest) / last byte
		var pad ssa.Value
		var restLen []ssa.Value
		var last ssa.Value
		allInstrs(f, func(in ssa.Instruction) {
			switch x := in.(type) {
			case *ssa.UnOp:
				if x.Op != token.MUL {
					return
				}
				if ia, ok := x.X.(*ssa.IndexAddr); ok {
					if k, okk := constInt(ia.Index); okk && k == 0 && pad == nil {
						pad = x
					} else if !okk {
						last = x
					}
				}
			}
		})
		// len(bytes) after the reslice bytes = bytes[1:]: loads of the local
		// that follow the store of a slice expression into it
		var reslice *ssa.Store
		allInstrs(f, func(in ssa.Instruction) {
			if st, ok := in.(*ssa.Store); ok {
				if _, isSl := st.Val.(*ssa.Slice); isSl {
					if _, isAl := st.Addr.(*ssa.Alloc); isAl {
						reslice = st
					}
				}
			}
		})
		allInstrs(f, func(in ssa.Instruction) {
			if x, ok := in.(*ssa.Call); ok && calleeName(&x.Call) == "builtin:len" && reslice != nil {
				if u, isU := x.Call.Args[0].(*ssa.UnOp); isU && u.X == reslice.Addr && precedes(reslice, u) {
					restLen = append(restLen, x)
				}
			}
		})
		bad := ""
		var outStore *ssa.Store
		for _, st := range storesTo(f, "BitString", "BitLength") {
			outStore = st
		}
		if pad == nil || len(restLen) == 0 || last == nil || outStore == nil {
			bad = "anchors not found (padding count, remaining length, last octet, result store)"
		} else {
			for _, p := range []int64{0, 1, 3, 7, 8, 255} {
				for _, ln := range []int64{0, 1, 5} {
					for _, lb := range []int64{0x00, 0x01, 0x08, 0x80, 0xff} {
						e := newEnv()
						e.bind(pad, p)
						for _, v := range restLen {
							e.bind(v, ln)
						}
						e.bind(last, lb)
						cut := e.cuts(f)
						got := reachAfter(pad.(ssa.Instruction), cut)[outStore.Block()]
						want := p <= 7 && !(ln == 0 && p != 0) && !(ln > 0 && lb&(1<<uint(p)-1) != 0)
						if p > 7 {
							want = false
						}
						if got != want {
							bad = fmt.Sprintf("padding count %d, %d content octets, last octet %#02x: accepted=%v, DER requires %v", p, ln, lb, got, want)
						}
					}
				}
			}
		}
		c.check(bad == "", "C23.bitstring", "(*String).ReadASN1BitString", f, "padding count and padding bits checked", bad)
	}
	// ---------- universal tags
	tags := map[string]int64{
		"(*Builder).AddASN1Int64": 2, "(*Builder).AddASN1Uint64": 2, "(*Builder).AddASN1BigInt": 2, "(*Builder).AddASN1Enum": 10,
		"(*Builder).AddASN1OctetString": 4, "(*Builder).AddASN1GeneralizedTime": 24, "(*Builder).AddASN1UTCTime": 23,
		"(*Builder).AddASN1BitString": 3, "(*Builder).AddASN1ObjectIdentifier": 6, "(*Builder).AddASN1Boolean": 1, "(*Builder).AddASN1NULL": 5,
		"(*String).ReadASN1Boolean": 1, "(*String).readASN1BigInt": 2, "(*String).readASN1Bytes": 2, "(*String).readASN1Int64": 2, "(*String).readASN1Uint64": 2,
		"(*String).ReadASN1Enum": 10, "(*String).ReadASN1ObjectIdentifier": 6, "(*String).ReadASN1GeneralizedTime": 24, "(*String).ReadASN1UTCTime": 23,
		"(*String).ReadASN1BitString": 3, "(*String).ReadASN1BitStringAsBytes": 3,
	}
	for name, want := range tags {
		f := c.fn(pk, name)
		if f == nil {
			continue
		}
		got := int64(-1)
		for _, g := range withClosures(f) {
			for _, ci := range calls(g, func(n string) bool {
				return strings.HasSuffix(n, ".AddASN1") || strings.HasSuffix(n, ".ReadASN1") || strings.HasSuffix(n, ".addASN1Signed") || strings.HasSuffix(n, ".AddASN1Int64WithTag") || strings.HasSuffix(n, ".ReadASN1Bytes")
			}) {
				for _, a := range ci.Common().Args {
					if strings.HasSuffix(a.Type().String(), "asn1.Tag") {
						if k, ok := constInt(a); ok {
							got = k
						}
					}
				}
			}
		}
		if got == -1 {
			// the tag is written directly as the first octet: b.add(uint8(tag), …)
			for _, ci := range callsNamed(f, "(*cryptobyte.Builder).add") {
				if sl, ok := ci.Common().Args[1].(*ssa.Slice); ok {
					if al, ok := sl.X.(*ssa.Alloc); ok {
						for _, r := range *al.Referrers() {
							if ia, ok := r.(*ssa.IndexAddr); ok {
								if k, okk := constInt(ia.Index); okk && k == 0 {
									for _, rr := range *ia.Referrers() {
										if st, ok := rr.(*ssa.Store); ok {
											if v, okv := constInt(st.Val); okv {
												got = v
											}
										}
									}
								}
							}
						}
					}
				}
			}
		}
		c.check(got == want, "C23.tags", name, f, fmt.Sprintf("universal tag %d", want), fmt.Sprintf("uses tag %d, X.690 assigns %d", got, want))
	}
}

// c23Result: can the function return true under e? ok=false if some reachable
// return value cannot be evaluated.
func c23Result(e *penv, f *ssa.Function) (canTrue bool, ok bool) {
	ok = true
	for _, r := range returnsOf(f) {
		if !e.reach[r.Block()] {
			continue
		}
		v := retVal(r, 0)
		if b, isC := constBool(v); isC {
			if b {
				canTrue = true
			}
			continue
		}
		if n, evOK := e.eval(v); evOK {
			if n != 0 {
				canTrue = true
			}
			continue
		}
		ok = false
		canTrue = true
	}
	return
}
