package main

import (
	"fmt"
	"go/types"
	"strings"

	"golang.org/x/tools/go/ssa"
)

func init() {
	register(&propDef{
		id: "C23", run: runC23, minOblig: 40,
		explanation: "Decides DER strictness of the cryptobyte ASN.1 readers by CONCRETE evaluation of their SSA inside the checker (c23_vm.go: fixed-width integers, slices over explicit-prefix/virtual memory so that 4 GiB inputs are representable, pointers, records, closures; static callees inside the module are evaluated in their own frames to any depth, so the verdicts do not depend on how the code under an entry point is factored, named or ordered; defer runs on the normal path; of the standard library only the Go bodies of encoding/binary, bytes, slices, strings, crypto/subtle and math/bits (folded) are evaluated, and a fixed set of pure functions of time, math/big (values carried as the checker's own time.Time / big.Int), errors.New and fmt.Errorf (some non-nil error) are answered by the checker's standard library; package variables hold what the evaluated package initialiser stores (bigOne); every other call leaving the module yields `unknown`, and a branch on unknown ends the run undecided = failed). Every rule calls an ENTRY POINT with concrete input octets and compares the observable outcome (bool result, output value, remaining input) with a specification written in the checker: (header) ReadAnyASN1, ReadAnyASN1Element, ReadASN1, ReadASN1Element over a grid of identifier octets x first length octets x long-form length values (0 .. 2^32-1, encoded in 1-4 or more octets incl. non-minimal ones) x input sizes (truncated header, truncated content, exact, trailing data): success exactly for a low-tag-number identifier with a definite, minimally encoded length of at most 4 octets, header+content <= 2^32-1 and enough input; output = content (or header+content), tag = identifier octet, remainder = what follows; (INTEGER) each INTEGER/ENUMERATED reader (readASN1Int64, readASN1Uint64, ReadASN1Int64WithTag, ReadASN1Enum, readASN1Bytes, readASN1BigInt) on contents of 0..10 octets x leading octets {00,01,7f,80,fe,ff}^2 x fill {00,ff,a5}: accepts only non-empty minimal two's-complement contents (integer), never succeeds on a wrong tag or a truncated element (integer-siblings), accepts exactly the values its destination type represents and returns the encoded value (int-range), and the returned value does not depend on what the destination held before — or, for an unexported reader, every static caller passes a fresh zero local (int-no-stale); (BOOLEAN) ReadASN1Boolean on 0,1,2 content octets x all 256 values: only one octet 00 or ff, value returned; (BIT STRING) ReadASN1BitString / ReadASN1BitStringAsBytes: padding count <= 7, zero for an empty string, padding bits zero, BitLength and Bytes returned; (OID) ReadASN1ObjectIdentifier: sub-identifiers minimal (no leading 0x80), not truncated, below 2^31, first two arcs unpacked; (optional) ReadOptionalASN1, SkipOptionalASN1, ReadOptionalASN1OctetString, ReadOptionalASN1Boolean: an absent element consumes nothing and yields the default / nil, a present one must be a DER element wrapping exactly the expected content; (tags) every typed reader accepts a valid content under exactly ONE of the 256 identifier octets, the X.690 universal tag of its type, and every element a builder emits starts with the identifier octet X.690 assigns; (builders) each AddASN1X (Int64, Int64WithTag, Enum, Uint64, BigInt, OctetString, BitString, Boolean, NULL, ObjectIdentifier, GeneralizedTime, UTCTime) is evaluated on a Builder made by NewBuilder and read back through Bytes: the octets equal what encoding/asn1.Marshal, run in the checker, emits for the same value (boundary values of every length class up to 2^128, contents of 0..65536 octets for all length forms), and values without an encoding (invalid OIDs, years outside the type's range) yield an error. readASN1BigInt is compared with the big.Int value. NOT decided: the equivalence for all inputs outside the grids, the time content grammar of the readers, ReadASN1Integer's reflect-based narrowing to small integer types, ReadOptionalASN1Integer, data after the BOOLEAN inside an optional wrapper.",
		assumptions: []string{"int is 64-bit", "go/ssa lowering is faithful to the compiler's semantics for the evaluated subset"},
	})
	tech("C23", "concrete SSA evaluation (interprocedural, virtual memory) of reader entry points over boundary grids of input octets compared with an in-checker DER specification; caller-contract check for accumulate-into-destination helpers; builders evaluated end to end and compared with encoding/asn1.Marshal run in the checker")
}

const c23pk = "cryptobyte"

// package-level variables of cryptobyte as its initialiser leaves them
// (evaluated once per loaded program, read-only afterwards)
var c23curGlobals map[*ssa.Global]*c23cell

func runC23(c *Ctx) {
	c23curGlobals = c23Globals(c)
	c23Header(c)
	c23Integers(c)
	c23Boolean(c)
	c23BitString(c)
	c23OID(c)
	c23Optional(c)
	c23Tags(c)
	c23Builders(c)
}

// ---------------------------------------------------------------------------
// calling a reader method: receiver = pointer to the String variable holding
// the input; the other parameters are supplied by type (role), not by name or
// position: the pointer parameter is the destination, an asn1.Tag parameter
// the tag, a second pointer to asn1.Tag the tag destination.

type c23call struct {
	f     *ssa.Function
	in    c23slice
	s     *c23cell // the receiver variable after the call
	outs  []*c23cell
	res   c23val
	end   string
	why   string
	vm    *c23vm
	input []byte // explicit prefix (messages)
}

func c23isTag(t types.Type) bool {
	return strings.HasSuffix(t.String(), "cryptobyte/asn1.Tag")
}

// c23invoke runs f on input. outInit gives the initial content of each
// pointer-typed destination parameter in order (nil = zero value); tag is used
// for every parameter of type asn1.Tag; skip for bool parameters.
func c23invoke(f *ssa.Function, in c23slice, outInit []c23val, tag int64, flag bool) *c23call {
	r := &c23call{f: f, in: in, vm: &c23vm{model: c23libModel, globals: c23curGlobals, prog: f.Prog}}
	sp, sc := c23newCell(in)
	r.s = sc
	args := []c23val{sp}
	k := 0
	for _, p := range f.Params[1:] {
		switch pt := p.Type().Underlying().(type) {
		case *types.Pointer:
			var init c23val
			if k < len(outInit) && outInit[k] != nil {
				init = outInit[k]
			} else {
				init = c23zero(pt.Elem())
			}
			ptr, cell := c23newCell(init)
			r.outs = append(r.outs, cell)
			args = append(args, ptr)
			k++
		default:
			switch {
			case c23isTag(p.Type()):
				args = append(args, tag)
			case types.Identical(p.Type().Underlying(), types.Typ[types.Bool]):
				args = append(args, flag)
			default:
				args = append(args, c23unk{})
			}
		}
	}
	r.res, r.end, r.why = r.vm.run(f, args)
	return r
}

func (r *c23call) ok() (accepted bool, decided bool) {
	if r.end != "return" {
		return false, false
	}
	b, isB := r.res.(bool)
	return b, isB
}

// rest: the receiver's view after the call (offset into the input, length).
func (r *c23call) rest() (off, n int64, ok bool) {
	s, isS := r.s.v.(c23slice)
	if !isS || (s.m != r.in.m && s.len != 0) {
		return 0, 0, false
	}
	return s.off, s.len, true
}

func (r *c23call) outSlice(i int) (off, n int64, ok bool) {
	if i >= len(r.outs) {
		return 0, 0, false
	}
	s, isS := r.outs[i].v.(c23slice)
	if !isS || (s.m != r.in.m && s.len != 0) {
		return 0, 0, false
	}
	return s.off, s.len, true
}

func (r *c23call) failure() string {
	switch r.end {
	case "panic":
		return "the reader panics (" + r.why + ")"
	case "undecided":
		return "evaluation undecided: " + r.why
	}
	return fmt.Sprintf("result %v is not a bool", r.res)
}

// ---------------------------------------------------------------------------
// header

// c23hdrSpec: X.690 / DER rules for identifier and length octets, with the
// implementation limit header+content <= 2^32-1. b holds at least the header
// octets present in an input of total octets.
func c23hdrSpec(b []byte, total int64) (ok bool, hdr, L int64, reason string) {
	at := func(i int64) int64 {
		if i < int64(len(b)) {
			return int64(b[i])
		}
		return 0xAB
	}
	if total < 2 {
		return false, 0, 0, "fewer than two octets"
	}
	if at(0)&0x1f == 0x1f {
		return false, 0, 0, "high-tag-number identifier"
	}
	lb := at(1)
	if lb&0x80 == 0 {
		hdr, L = 2, lb
	} else {
		k := lb & 0x7f
		if k == 0 {
			return false, 0, 0, "indefinite length 0x80 is not DER"
		}
		if k > 4 {
			return false, 0, 0, "more than 4 length octets"
		}
		if total < 2+k {
			return false, 0, 0, "length octets truncated"
		}
		for i := int64(0); i < k; i++ {
			L = L<<8 | at(2+i)
		}
		if L < 128 {
			return false, 0, 0, fmt.Sprintf("long form used for length %d < 128 (not minimal)", L)
		}
		if at(2) == 0 {
			return false, 0, 0, "leading length octet is zero (not minimal)"
		}
		hdr = 2 + k
		if hdr+L > 1<<32-1 {
			return false, 0, 0, "header+content exceeds 2^32-1"
		}
	}
	if total < hdr+L {
		return false, 0, 0, "content truncated"
	}
	return true, hdr, L, ""
}

type c23hdrCase struct {
	b     []byte
	total int64
}

func c23hdrCases() []c23hdrCase {
	var out []c23hdrCase
	seen := map[string]bool{}
	add := func(b []byte, total int64) {
		if total < 0 {
			return
		}
		k := fmt.Sprintf("%x/%d", b, total)
		if seen[k] {
			return
		}
		seen[k] = true
		out = append(out, c23hdrCase{append([]byte(nil), b...), total})
	}
	for _, tag := range []byte{0x02, 0x30, 0x1f, 0x3f, 0xbf, 0xa0, 0x00, 0xff, 0x9e, 0x5f} {
		add(nil, 0)
		add([]byte{tag}, 1)
		for _, lb := range []byte{0x00, 0x01, 0x05, 0x7f} {
			h := []byte{tag, lb}
			for _, sz := range []int64{2, 2 + int64(lb) - 1, 2 + int64(lb), 2 + int64(lb) + 3, 1000} {
				add(h, sz)
			}
		}
		for _, lb := range []byte{0x80, 0x81, 0x82, 0x83, 0x84, 0x85, 0x88, 0xff} {
			k := int(lb & 0x7f)
			for _, L := range []int64{0, 1, 127, 128, 255, 256, 65535, 65536, 1<<24 - 1, 1 << 24, 1<<32 - 7, 1<<32 - 6, 1<<32 - 1} {
				h := []byte{tag, lb}
				n := k
				if n > 12 {
					n = 12
				}
				for i := n - 1; i >= 0; i-- {
					if i < 8 {
						h = append(h, byte(L>>(8*uint(i))))
					} else {
						h = append(h, 0)
					}
				}
				hl := int64(len(h))
				// the length the octets actually say (for k <= 4 only the low k octets of L)
				var said int64
				for _, x := range h[2:] {
					said = said<<8 | int64(x)
				}
				for _, sz := range []int64{2, hl - 1, hl, hl + said - 1, hl + said, hl + said + 3, 1000} {
					add(h, sz)
				}
			}
		}
	}
	return out
}

func c23Header(c *Ctx) {
	cases := c23hdrCases()
	for _, ep := range []struct {
		name     string
		withHdr  bool // output includes the header
		tagParam bool // the expected tag is a parameter
	}{
		{"(*String).ReadAnyASN1", false, false},
		{"(*String).ReadAnyASN1Element", true, false},
		{"(*String).ReadASN1", false, true},
		{"(*String).ReadASN1Element", true, true},
	} {
		f := c.fn(c23pk, ep.name)
		if f == nil {
			continue
		}
		bad := ""
		n := 0
		for _, cs := range cases {
			tagVariants := []int64{0}
			if ep.tagParam {
				t := int64(0x02)
				if len(cs.b) > 0 {
					t = int64(cs.b[0])
				}
				tagVariants = []int64{t, t ^ 0x01, t ^ 0x20}
			}
			for vi, tg := range tagVariants {
				in := c23input(cs.b, cs.total, 0xAB)
				r := c23invoke(f, in, nil, tg, false)
				want, hdr, L, reason := c23hdrSpec(cs.b, cs.total)
				if ep.tagParam && vi > 0 && want {
					want, reason = false, fmt.Sprintf("the element's identifier octet %#02x is not the requested tag %#02x", cs.b[0], tg)
				}
				n++
				desc := fmt.Sprintf("input %s of %d octets", c23hex(cs.b), cs.total)
				if ep.tagParam {
					desc += fmt.Sprintf(", tag %#02x requested", tg)
				}
				got, dec := r.ok()
				if !dec {
					bad = desc + ": " + r.failure()
					break
				}
				if got != want {
					if got {
						bad = fmt.Sprintf("%s: accepted, DER requires rejection — %s", desc, reason)
					} else {
						bad = fmt.Sprintf("%s: rejected, but it starts with a DER element (header %d + content %d octets)", desc, hdr, L)
					}
					break
				}
				if !got {
					continue
				}
				wo, wn := hdr, L
				if ep.withHdr {
					wo, wn = 0, hdr+L
				}
				if o, ln, ok := r.outSlice(0); !ok || ln != wn || (ln != 0 && o != wo) {
					bad = fmt.Sprintf("%s: output is input[%d:%d] (known=%v), the element's octets are input[%d:%d]", desc, o, o+ln, ok, wo, wo+wn)
					break
				}
				if o, ln, ok := r.rest(); !ok || ln != cs.total-hdr-L || (ln != 0 && o != hdr+L) {
					bad = fmt.Sprintf("%s: %d octets remain from offset %d (known=%v), the element ends at offset %d", desc, ln, o, ok, hdr+L)
					break
				}
				if !ep.tagParam {
					if tv, ok := r.outs[1].v.(int64); !ok || tv != int64(cs.b[0]) {
						bad = fmt.Sprintf("%s: reported tag %v, identifier octet is %#02x", desc, r.outs[1].v, cs.b[0])
						break
					}
				}
			}
			if bad != "" {
				break
			}
		}
		c.check(bad == "", "C23.header", ep.name, f, fmt.Sprintf("DER identifier/length rules, output, tag and remainder correct on %d inputs", n), bad)
	}
}

// ---------------------------------------------------------------------------
// BOOLEAN

func c23tlv(tag byte, content []byte, trailer ...byte) []byte {
	b := []byte{tag}
	if len(content) < 128 {
		b = append(b, byte(len(content)))
	} else {
		b = append(b, 0x81, byte(len(content)))
	}
	b = append(b, content...)
	return append(b, trailer...)
}

func c23Boolean(c *Ctx) {
	f := c.fn(c23pk, "(*String).ReadASN1Boolean")
	if f == nil {
		return
	}
	bad := ""
	n := 0
	for ln := 0; ln <= 2 && bad == ""; ln++ {
		for b0 := 0; b0 < 256 && bad == ""; b0++ {
			for _, init := range []bool{false, true} {
				content := make([]byte, ln)
				for i := range content {
					content[i] = byte(b0)
				}
				in := c23tlv(0x01, content, 0x5a)
				r := c23invoke(f, c23input(in, int64(len(in)), 0), []c23val{init}, 0, false)
				want := ln == 1 && (b0 == 0 || b0 == 0xff)
				n++
				got, dec := r.ok()
				switch {
				case !dec:
					bad = fmt.Sprintf("BOOLEAN with content %s: %s", c23hex(content), r.failure())
				case got != want:
					bad = fmt.Sprintf("BOOLEAN of %d octets, value %#02x: accepted=%v, DER requires %v (exactly one octet, 00 or ff)", ln, b0, got, want)
				case got:
					if v, ok := r.outs[0].v.(bool); !ok || v != (b0 == 0xff) {
						bad = fmt.Sprintf("BOOLEAN %#02x: decoded %v (destination held %v before)", b0, r.outs[0].v, init)
					} else if _, rl, ok := r.rest(); !ok || rl != 1 {
						bad = fmt.Sprintf("BOOLEAN %#02x: %d octets remain after the element, 1 follows it", b0, rl)
					}
				}
				if bad != "" {
					break
				}
			}
		}
	}
	c.check(bad == "", "C23.boolean", "(*String).ReadASN1Boolean", f, fmt.Sprintf("exactly one octet, 00 or ff, value returned (%d inputs)", n), bad)
}

// ---------------------------------------------------------------------------
// BIT STRING

func c23BitString(c *Ctx) {
	type bsCase struct{ content []byte }
	var cases []bsCase
	cases = append(cases, bsCase{nil})
	for _, p := range []byte{0, 1, 3, 7, 8, 9, 0x80, 255} {
		for _, ln := range []int{0, 1, 5} {
			for _, lb := range []byte{0x00, 0x01, 0x08, 0x40, 0x80, 0xfe, 0xff} {
				ct := []byte{p}
				for i := 0; i < ln; i++ {
					ct = append(ct, 0xff)
				}
				if ln > 0 {
					ct[len(ct)-1] = lb
				}
				cases = append(cases, bsCase{ct})
			}
		}
	}
	for _, name := range []string{"(*String).ReadASN1BitString", "(*String).ReadASN1BitStringAsBytes"} {
		f := c.fn(c23pk, name)
		if f == nil {
			continue
		}
		asBytes := strings.HasSuffix(name, "AsBytes")
		bad := ""
		for _, cs := range cases {
			in := c23tlv(0x03, cs.content, 0x5a, 0x5a)
			r := c23invoke(f, c23input(in, int64(len(in)), 0), nil, 0, false)
			want, reason := true, ""
			var p, ln int
			switch {
			case len(cs.content) == 0:
				want, reason = false, "a BIT STRING has at least the padding-count octet"
			default:
				p, ln = int(cs.content[0]), len(cs.content)-1
				switch {
				case p > 7:
					want, reason = false, "padding count above 7"
				case ln == 0 && p != 0:
					want, reason = false, "padding bits in an empty bit string"
				case ln > 0 && cs.content[ln]&(1<<uint(p)-1) != 0:
					want, reason = false, "padding bits of the last octet are not zero"
				case asBytes && p != 0:
					want, reason = false, "not a whole number of octets"
				}
			}
			desc := fmt.Sprintf("BIT STRING content %s", c23hex(cs.content))
			got, dec := r.ok()
			switch {
			case !dec:
				bad = desc + ": " + r.failure()
			case got && !want:
				bad = fmt.Sprintf("%s (padding count %d, %d data octets): accepted, DER requires rejection — %s", desc, p, ln, reason)
			case !got && want:
				bad = fmt.Sprintf("%s (padding count %d, %d data octets): rejected, it is a valid DER BIT STRING", desc, p, ln)
			case got:
				var bytesV c23val
				if asBytes {
					bytesV = r.outs[0].v
				} else if st, ok := r.outs[0].v.(*c23struct); ok && len(st.f) == 2 {
					for _, fv := range st.f {
						switch x := fv.(type) {
						case c23slice:
							bytesV = x
						case int64:
							if x != int64(8*ln-p) {
								bad = fmt.Sprintf("%s: BitLength %d, the string has %d bits", desc, x, 8*ln-p)
							}
						}
					}
				}
				if sl, ok := bytesV.(c23slice); !ok || sl.len != int64(ln) || (ln > 0 && (sl.m == nil || sl.off != 3)) {
					bad = fmt.Sprintf("%s: returned octets are not the %d data octets of the element", desc, ln)
				}
				if _, rl, ok := r.rest(); !ok || rl != 2 {
					bad = fmt.Sprintf("%s: %d octets remain after the element, 2 follow it", desc, rl)
				}
			}
			if bad != "" {
				break
			}
		}
		c.check(bad == "", "C23.bitstring", name, f, fmt.Sprintf("padding count and padding bits checked, value returned (%d inputs)", len(cases)), bad)
	}
}

// ---------------------------------------------------------------------------
// OBJECT IDENTIFIER

func c23oidSpec(ct []byte) (ok bool, arcs []int64, reason string) {
	if len(ct) == 0 {
		return false, nil, "empty OBJECT IDENTIFIER"
	}
	var subs []int64
	for i := 0; i < len(ct); {
		var v int64
		n := 0
		for {
			if i >= len(ct) {
				return false, nil, "truncated sub-identifier"
			}
			b := ct[i]
			i++
			if n == 0 && b == 0x80 {
				return false, nil, "sub-identifier with a leading 0x80 octet (not minimal)"
			}
			n++
			v = v<<7 | int64(b&0x7f)
			if v > 1<<31-1 || n > 5 {
				return false, nil, "sub-identifier does not fit 31 bits"
			}
			if b&0x80 == 0 {
				break
			}
		}
		subs = append(subs, v)
	}
	if subs[0] < 80 {
		arcs = []int64{subs[0] / 40, subs[0] % 40}
	} else {
		arcs = []int64{2, subs[0] - 80}
	}
	return true, append(arcs, subs[1:]...), ""
}

func c23OID(c *Ctx) {
	f := c.fn(c23pk, "(*String).ReadASN1ObjectIdentifier")
	if f == nil {
		return
	}
	cases := [][]byte{
		nil, {0x2a}, {0x00}, {0x27}, {0x28}, {0x4f}, {0x50}, {0x7f}, {0x80}, {0x80, 0x01}, {0x81, 0x00}, {0x81}, {0xff},
		{0x2a, 0x86, 0x48, 0x86, 0xf7, 0x0d, 0x01, 0x01, 0x0b},
		{0x2a, 0x80, 0x01}, {0x2a, 0x80}, {0x2a, 0x81}, {0x2a, 0x81, 0x80, 0x01}, {0x2a, 0x81, 0x80, 0x80},
		{0x2a, 0xff, 0xff, 0xff, 0x7f}, {0x2a, 0x87, 0xff, 0xff, 0xff, 0x7f}, {0x2a, 0x88, 0x80, 0x80, 0x80, 0x00},
		{0x2a, 0x8f, 0xff, 0xff, 0xff, 0x7f}, {0x2a, 0x81, 0x80, 0x80, 0x80, 0x80, 0x00}, {0x2a, 0xff, 0xff, 0xff, 0xff, 0xff, 0x7f},
		{0x87, 0xff, 0xff, 0xff, 0x7f}, {0x88, 0x80, 0x80, 0x80, 0x00}, {0x2a, 0x01, 0x80, 0x02}, {0x2a, 0x01, 0x02, 0x83},
		{0x2a, 0x81, 0x80, 0x80, 0x80, 0x80}, {0x2a, 0x87, 0xff, 0xff, 0xff, 0xff},
	}
	bad := ""
	for _, ct := range cases {
		in := c23tlv(0x06, ct, 0x5a)
		r := c23invoke(f, c23input(in, int64(len(in)), 0), nil, 0, false)
		want, arcs, reason := c23oidSpec(ct)
		desc := "OBJECT IDENTIFIER content " + c23hex(ct)
		got, dec := r.ok()
		switch {
		case !dec:
			bad = desc + ": " + r.failure()
		case got && !want:
			bad = desc + ": accepted, DER requires rejection — " + reason
		case !got && want:
			bad = fmt.Sprintf("%s: rejected, it encodes %v", desc, arcs)
		case got:
			sl, ok := r.outs[0].v.(c23slice)
			if !ok || sl.len != int64(len(arcs)) {
				bad = fmt.Sprintf("%s: %d arcs returned, it encodes %v", desc, sl.len, arcs)
				break
			}
			for i, a := range arcs {
				if v, isI := sl.m.get(sl.off + int64(i)).(int64); !isI || v != a {
					bad = fmt.Sprintf("%s: arc %d decoded as %v, it encodes %v", desc, i, sl.m.get(sl.off+int64(i)), arcs)
				}
			}
			if _, rl, ok := r.rest(); !ok || rl != 1 {
				bad = fmt.Sprintf("%s: %d octets remain after the element, 1 follows it", desc, rl)
			}
		}
		if bad != "" {
			break
		}
	}
	c.check(bad == "", "C23.oid", "(*String).ReadASN1ObjectIdentifier", f, fmt.Sprintf("minimal, complete, 31-bit sub-identifiers; arcs returned (%d inputs)", len(cases)), bad)
}

// ---------------------------------------------------------------------------
// universal tags

func c23Tags(c *Ctx) {
	// readers: a valid content is accepted under exactly one identifier octet
	readers := []struct {
		name    string
		tag     int64
		content []byte
	}{
		{"(*String).ReadASN1Boolean", 1, []byte{0xff}},
		{"(*String).readASN1BigInt", 2, []byte{0x05}},
		{"(*String).readASN1Bytes", 2, []byte{0x05}},
		{"(*String).readASN1Int64", 2, []byte{0x05}},
		{"(*String).readASN1Uint64", 2, []byte{0x05}},
		{"(*String).ReadASN1Enum", 10, []byte{0x05}},
		{"(*String).ReadASN1ObjectIdentifier", 6, []byte{0x2a, 0x03}},
		{"(*String).ReadASN1GeneralizedTime", 24, []byte("20240102030405Z")},
		{"(*String).ReadASN1UTCTime", 23, []byte("240102030405Z")},
		{"(*String).ReadASN1BitString", 3, []byte{0x00, 0x05}},
		{"(*String).ReadASN1BitStringAsBytes", 3, []byte{0x00, 0x05}},
	}
	for _, rd := range readers {
		f := c.fn(c23pk, rd.name)
		if f == nil {
			continue
		}
		bad := ""
		for t := int64(0); t < 256 && bad == ""; t++ {
			in := c23tlv(byte(t), rd.content)
			r := c23invoke(f, c23input(in, int64(len(in)), 0), nil, 0, false)
			got, dec := r.ok()
			switch {
			case !dec:
				bad = fmt.Sprintf("identifier octet %#02x: %s", t, r.failure())
			case got != (t == rd.tag):
				bad = fmt.Sprintf("identifier octet %#02x with content %s: accepted=%v; X.690 assigns universal tag %d to this type", t, c23hex(rd.content), got, rd.tag)
			}
		}
		c.check(bad == "", "C23.tags", rd.name, f, fmt.Sprintf("accepts the element under universal tag %d only (256 identifier octets)", rd.tag), bad)
	}
	// builders: see c23Builders (the identifier octet of every emitted element)
}
