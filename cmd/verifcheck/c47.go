package main

import (
	"fmt"
	"go/constant"
	"go/token"
	"go/types"
	"sort"
	"strings"

	"golang.org/x/tools/go/ssa"
)

func init() {
	register(&propDef{
		id: "C47", run: runC47, minOblig: 75,
		explanation: "Decides structural necessary conditions of the OTR conversation property. (AKE transition table) the authentication state machine inside Conversation.Receive is extracted from the code by flow-sensitive finite-domain evaluation — for every (message type in {DH-Commit, DH-Key, Reveal-Signature, Signature} x authState in {None, AwaitingDHKey, AwaitingRevealSig, AwaitingSig}, and both outcomes of the commit comparison / duplicate-key test) the sequence of Conversation methods called on the success path, the successor authState, the message state and the reported SecurityChange — and compared with the OTR version 2 specification's table (in particular: a repeated D-H Commit in AwaitingRevealSig retransmits the SAME D-H Key, every other acceptance of a commit generates a fresh one after reset; the winner of a SYN-crossing retransmits its commit; Reveal-Signature / Signature are processed only in their awaiting states and alone switch the message state to encrypted); data messages are processed only in the encrypted state. (fragments) the reassembly automaton in processFragment is extracted the same way over k, n, stored k, stored n in 0..3 (256 cases) and compared with the specification's rules. (data MAC) in processData the decryption, the counter update, key rotation and every non-nil plaintext are reachable only on the success edge of the constant-time MAC comparison with equal lengths; the MAC is HMAC-SHA1 keyed with the receiving slot key over version bytes followed by exactly the received bytes that precede the MAC; the counter-regression test precedes decryption. (SMP dispatch) for every (TLV type x SMP state) the set of reachable handler calls equals the specification's (wrong-state messages reset and answer with an abort); the TLV types Receive forwards are exactly those processSMP's switches handle, so its default panic is unreachable. (panics) every explicit panic reachable from Receive in the call graph is in a justified table (random-source or primitive failure = environment; state-machine defaults discharged by the tables above); constant indices into decoded slices (msg[0..2], the MPI lists of the four SMP processors, the getUxx helpers) are unreachable when the slice is shorter (evaluated for every length 0..21). NOT decided: that honest peers derive equal keys (modular arithmetic), SMP zero-knowledge proof arithmetic, delivery of every message, implicit panics on variable indices.",
		assumptions: []string{"VTA call graph over-approximates interface dispatch", "the reference tables transcribe the OTR v2 protocol description (sections 'The protocol state machine', 'Fragmentation', 'Socialist Millionaires Protocol')"},
	})
	tech("C47", "flow-sensitive finite-domain extraction of the AKE / fragment / SMP transition tables compared with the specification tables; must-cross CFG rule for the data MAC; call-graph enumeration of explicit panics; constant-index guard evaluation over all short lengths")
}

func runC47(c *Ctx) {
	sweepC47(c)
	c47AKE(c)
	c47Fragment(c)
	c47DataMAC(c)
	c47SMP(c)
	c47Panics(c)
	c47IndexGuards(c)
}

func (c *Ctx) pkgConst(pkgPath, name string) (int64, bool) {
	p := c.pkg(pkgPath)
	if p == nil {
		return 0, false
	}
	k, ok := p.Types.Scope().Lookup(name).(*types.Const)
	if !ok {
		return 0, false
	}
	return constant.Int64Val(constant.ToInt(k.Val()))
}

// convMethod returns the method name when the call is a static call of a
// method of *otr.Conversation, else "".
func convMethod(cc *ssa.CallCommon) string {
	n := short(calleeName(cc))
	const pre = "(*otr.Conversation)."
	if strings.HasPrefix(n, pre) {
		return strings.TrimPrefix(n, pre)
	}
	return ""
}

type akeCase struct {
	msg, auth string
	variant   string // "", "cmp>0", "cmp<=0", "same", "different"
	calls     string
	nextAuth  string // "" = unchanged
	encrypted bool   // message state becomes stateEncrypted and change = NewKeys
}

// The OTR v2 AKE table ("The protocol state machine", receiving D-H Commit /
// D-H Key / Reveal Signature / Signature messages).
var akeSpec = []akeCase{
	{"DHCommit", "None", "", "processDHCommit reset send(generateDHKey)", "AwaitingRevealSig", false},
	{"DHCommit", "AwaitingDHKey", "cmp>0", "compareToDHCommit send(serializeDHCommit)", "", false},
	{"DHCommit", "AwaitingDHKey", "cmp<=0", "compareToDHCommit processDHCommit reset send(generateDHKey)", "AwaitingRevealSig", false},
	{"DHCommit", "AwaitingRevealSig", "", "processDHCommit send(serializeDHKey)", "", false},
	{"DHCommit", "AwaitingSig", "", "processDHCommit reset send(generateDHKey)", "AwaitingRevealSig", false},
	{"DHKey", "None", "", "", "", false},
	{"DHKey", "AwaitingDHKey", "different", "processDHKey send(generateRevealSig)", "AwaitingSig", false},
	{"DHKey", "AwaitingDHKey", "same", "processDHKey ERR", "", false},
	{"DHKey", "AwaitingRevealSig", "", "", "", false},
	{"DHKey", "AwaitingSig", "same", "processDHKey send(RETRANSMIT)", "", false},
	{"DHKey", "AwaitingSig", "different", "processDHKey", "", false},
	{"RevealSig", "None", "", "", "", false},
	{"RevealSig", "AwaitingDHKey", "", "", "", false},
	{"RevealSig", "AwaitingRevealSig", "", "processRevealSig send(generateSig)", "None", true},
	{"RevealSig", "AwaitingSig", "", "", "", false},
	{"Sig", "None", "", "", "", false},
	{"Sig", "AwaitingDHKey", "", "", "", false},
	{"Sig", "AwaitingRevealSig", "", "", "", false},
	{"Sig", "AwaitingSig", "", "processSig", "None", true},
}

func c47AKE(c *Ctx) {
	f := c.fn("otr", "(*Conversation).Receive")
	if f == nil {
		return
	}
	cv := func(n string) int64 {
		v, ok := c.pkgConst("otr", n)
		if !ok {
			c.fail("C47.ake-table", "constant "+n, f, "constant not found")
		}
		return v
	}
	msgT := map[string]int64{"DHCommit": cv("msgTypeDHCommit"), "DHKey": cv("msgTypeDHKey"), "RevealSig": cv("msgTypeRevealSig"), "Sig": cv("msgTypeSig")}
	authT := map[string]int64{"None": cv("authStateNone"), "AwaitingDHKey": cv("authStateAwaitingDHKey"), "AwaitingRevealSig": cv("authStateAwaitingRevealSig"), "AwaitingSig": cv("authStateAwaitingSig")}
	authName := map[int64]string{}
	for k, v := range authT {
		authName[v] = k
	}
	stPlain, stEnc := cv("statePlaintext"), cv("stateEncrypted")
	newKeys := cv("NewKeys")
	// msgType: the int conversion of the load of msg[2]
	var msgType ssa.Value
	allInstrs(f, func(in ssa.Instruction) {
		cvt, ok := in.(*ssa.Convert)
		if !ok {
			return
		}
		if u, ok := cvt.X.(*ssa.UnOp); ok && u.Op == token.MUL {
			if ia, ok := u.X.(*ssa.IndexAddr); ok {
				if k, isK := constInt(ia.Index); isK && k == 2 {
					msgType = cvt
				}
			}
		}
	})
	if msgType == nil {
		c.undecided("C47.ake-table", "Receive message type", f, "int(msg[2]) not found")
		return
	}
	start := msgType.(ssa.Instruction).Block()
	var cmpRes, sameRes []ssa.Value
	for _, ci := range calls(f, func(n string) bool { return strings.HasSuffix(n, ").compareToDHCommit") }) {
		cmpRes = append(cmpRes, resultN(ci.(*ssa.Call), 0)...)
	}
	for _, ci := range calls(f, func(n string) bool { return strings.HasSuffix(n, ").processDHKey") }) {
		sameRes = append(sameRes, resultN(ci.(*ssa.Call), 0)...)
	}
	for _, sp := range akeSpec {
		name := fmt.Sprintf("%s in auth state %s", sp.msg, sp.auth)
		if sp.variant != "" {
			name += " (" + sp.variant + ")"
		}
		w := &pathWalker{env: newEnv(), assumeErrNil: true, noAuto: true}
		w.env.bind(msgType, msgT[sp.msg])
		switch sp.variant {
		case "cmp>0":
			for _, v := range cmpRes {
				w.env.bind(v, 1)
			}
		case "cmp<=0":
			for _, v := range cmpRes {
				w.env.bind(v, -1)
			}
		case "same":
			for _, v := range sameRes {
				w.env.bind(v, 1)
			}
		case "different":
			for _, v := range sameRes {
				w.env.bind(v, 0)
			}
		}
		w.state = map[string]int64{"c.authState": authT[sp.auth], "c.state": stPlain}
		var toks []string
		w.onCall = func(w *pathWalker, ci ssa.CallInstruction) string {
			cc := ci.Common()
			if short(calleeName(cc)) == "errors.New" {
				toks = append(toks, "ERR")
				return ""
			}
			m := convMethod(cc)
			switch m {
			case "":
				return ""
			case "encode":
				inner := "?"
				if len(cc.Args) == 2 {
					if ic, ok := cc.Args[1].(*ssa.Call); ok {
						inner = convMethod(&ic.Call)
					}
				}
				// the inner call was already recorded as the previous token
				if len(toks) > 0 && toks[len(toks)-1] == inner {
					toks = toks[:len(toks)-1]
				}
				if strings.HasPrefix(inner, "serialize") && sp.calls == "processDHKey send(RETRANSMIT)" {
					inner = "RETRANSMIT"
				}
				toks = append(toks, "send("+inner+")")
			default:
				toks = append(toks, m)
			}
			return ""
		}
		end := w.walk(start, nil)
		if end != "return" {
			c.undecided("C47.ake-table", name, f, fmt.Sprintf("walk ended with %q: %s", end, w.why))
			continue
		}
		got := strings.Join(toks, " ")
		gotAuth := w.state["c.authState"]
		wantAuth := authT[sp.auth]
		if sp.nextAuth != "" {
			wantAuth = authT[sp.nextAuth]
		}
		gotEnc := w.state["c.state"] == stEnc
		chg := int64(-1)
		if ret, ok := w.last.(*ssa.Return); ok && len(ret.Results) == 5 {
			if n, ok := w.env.eval(ret.Results[2]); ok {
				chg = n
			}
		}
		gotNew := chg == newKeys
		detail := fmt.Sprintf("calls [%s] -> authState %s, encrypted=%v, NewKeys=%v", got, authName[gotAuth], gotEnc, gotNew)
		if got != sp.calls || gotAuth != wantAuth || gotEnc != sp.encrypted || gotNew != sp.encrypted {
			c.fail("C47.ake-table", name, f, fmt.Sprintf("code: %s; OTR v2 table: calls [%s] -> authState %s, encrypted=%v", detail, sp.calls, authName[wantAuth], sp.encrypted))
		} else {
			c.ok("C47.ake-table", name, f, detail)
		}
	}
	// data messages only in the encrypted state
	var dataCalls []ssa.Instruction
	for _, ci := range calls(f, func(n string) bool { return strings.HasSuffix(n, ").processData") }) {
		dataCalls = append(dataCalls, ci)
	}
	okData := len(dataCalls) == 1
	if okData {
		for _, st := range []int64{stPlain, cv("stateFinished")} {
			e := newEnv()
			e.bindField(f, "Conversation", "state", st)
			_, _, blocks := e.reachableExits(f, nil)
			if blocks[dataCalls[0].Block()] {
				okData = false
			}
		}
	}
	c.check(okData, "C47.ake-table", "data message outside the encrypted state", f, "processData is unreachable unless c.state == stateEncrypted", "a data message can be processed although no encrypted session is established")
	// a query restarts the AKE: authState = AwaitingDHKey, reset, fresh commit
	okQ := false
	for _, ci := range calls(f, func(n string) bool { return strings.HasSuffix(n, ").generateDHCommit") }) {
		b := ci.Block()
		hasReset, hasState := false, false
		for _, in := range b.Instrs {
			if cc := callCommon(in); cc != nil && convMethod(cc) == "reset" {
				hasReset = true
			}
			if st, ok := in.(*ssa.Store); ok && accessPath(st.Addr) == "c.authState" {
				if k, isK := constInt(st.Val); isK && k == authT["AwaitingDHKey"] {
					hasState = true
				}
			}
		}
		if hasReset && hasState {
			okQ = true
		}
	}
	c.check(okQ, "C47.ake-table", "query message", f, "a query resets the key state, sends a fresh D-H Commit and awaits the D-H Key", "a query does not (re)start the AKE with reset + fresh commit + AwaitingDHKey")
}

// ---------------------------------------------------------------------------
// fragments

type fragOut struct {
	err      bool
	frag     string // "new", "append", "clear", "" (untouched)
	k, n     int64
	complete bool
}

// fragReference: OTR v2 "Fragmentation" receiving rules.
func fragReference(k, n, K, N int64) fragOut {
	if k < 1 || n < 1 || k > n {
		return fragOut{err: true, k: K, n: N}
	}
	var o fragOut
	switch {
	case k == 1:
		o.frag, K, N = "new", k, n
	case n == N && k == K+1:
		o.frag, K = "append", K+1
	default:
		o.frag, K, N = "clear", 0, 0
	}
	if N > 0 && K == N {
		o.complete = true
		K, N = 0, 0
	}
	o.k, o.n = K, N
	return o
}

func c47Fragment(c *Ctx) {
	f := c.fn("otr", "(*Conversation).processFragment")
	if f == nil {
		return
	}
	atoi := callsNamed(f, "strconv.Atoi")
	split := callsNamed(f, "bytes.Split")
	if len(atoi) != 2 || len(split) != 1 {
		c.undecided("C47.fragment", "processFragment", f, "expected two Atoi calls and one Split")
		return
	}
	kv := resultN(atoi[0].(*ssa.Call), 0)
	nv := resultN(atoi[1].(*ssa.Call), 0)
	// Atoi[0] parses parts[0], Atoi[1] parts[1]
	partIdx := func(ci ssa.CallInstruction) int64 {
		arg := stripConv(ci.Common().Args[0])
		if u, ok := arg.(*ssa.UnOp); ok {
			if ia, ok := u.X.(*ssa.IndexAddr); ok {
				if k, isK := constInt(ia.Index); isK {
					return k
				}
			}
		}
		return -1
	}
	if partIdx(atoi[0]) != 0 || partIdx(atoi[1]) != 1 {
		c.fail("C47.fragment", "fragment header fields", f, "k is not parsed from the first and n from the second comma-separated field")
		return
	}
	bad, cases := 0, 0
	var firstBad string
	for k := int64(0); k <= 3; k++ {
		for n := int64(0); n <= 3; n++ {
			for K := int64(0); K <= 3; K++ {
				for N := int64(0); N <= 3; N++ {
					w := &pathWalker{env: newEnv(), assumeErrNil: true, noAuto: true}
					for _, v := range kv {
						w.env.bind(v, k)
					}
					for _, v := range nv {
						w.env.bind(v, n)
					}
					w.env.bind(split[0].(*ssa.Call), 4) // four parts
					allInstrs(f, func(in ssa.Instruction) {
						if u, ok := in.(*ssa.UnOp); ok && u.Op == token.MUL {
							if ia, ok := u.X.(*ssa.IndexAddr); ok && ia.X == ssa.Value(split[0].(*ssa.Call)) {
								if idx, isK := constInt(ia.Index); isK && idx == 3 {
									w.env.bind(u, 0) // last part empty
								}
							}
						}
					})
					w.state = map[string]int64{"c.k": K, "c.n": N, "c.frag": 0}
					// abstract value of c.frag: 0 untouched, 1 new, 2 append, 3 clear
					w.absVal = func(v ssa.Value) (int64, bool) {
						switch x := v.(type) {
						case *ssa.Call:
							if calleeName(&x.Call) == "builtin:append" && len(x.Call.Args) == 2 {
								if sl, ok := x.Call.Args[0].(*ssa.Slice); ok && sl.High != nil {
									if hk, isK := constInt(sl.High); isK && hk == 0 {
										return 1, true
									}
								}
								if accessPath(x.Call.Args[0]) == "c.frag" {
									return 2, true
								}
							}
						case *ssa.Slice:
							if x.High != nil {
								if hk, isK := constInt(x.High); isK && hk == 0 {
									return 3, true
								}
							}
						}
						return 0, false
					}
					end := w.walk(f.Blocks[0], nil)
					cases++
					want := fragReference(k, n, K, N)
					var got fragOut
					if end != "return" {
						bad++
						if firstBad == "" {
							firstBad = fmt.Sprintf("k=%d n=%d stored k=%d n=%d: walk %s (%s)", k, n, K, N, end, w.why)
						}
						continue
					}
					ret := w.last.(*ssa.Return)
					got.err = isGlobalLoad(retVal(ret, 1), "fragmentError")
					got.complete = accessPath(retVal(ret, 0)) == "c.frag"
					got.k, got.n = w.state["c.k"], w.state["c.n"]
					got.frag = []string{"", "new", "append", "clear"}[w.state["c.frag"]]
					if got != want {
						bad++
						if firstBad == "" {
							firstBad = fmt.Sprintf("k=%d n=%d stored k=%d n=%d: code %+v, specification %+v", k, n, K, N, got, want)
						}
					}
				}
			}
		}
	}
	c.check(bad == 0 && cases == 256, "C47.fragment", "processFragment transition table", f,
		fmt.Sprintf("all %d (k, n, stored k, stored n) cases in 0..3 agree with the OTR v2 reassembly rules", cases),
		fmt.Sprintf("%d of %d cases differ from the OTR v2 reassembly rules; first: %s", bad, cases, firstBad))
	// the prefix removed is the fragment prefix and the separator is ','
	fp, _ := c.bytesGlobal("otr", "fragmentPrefix")
	sep, _ := c.bytesGlobal("otr", "fragmentPartSeparator")
	c.check(fp == "?OTR," && sep == ",", "C47.fragment", "fragment framing constants", f, "prefix \"?OTR,\" and separator \",\"", "fragment prefix/separator constants differ from the specification")
}

// ---------------------------------------------------------------------------
// data message MAC gate

func c47DataMAC(c *Ctx) {
	f := c.fn("otr", "(*Conversation).processData")
	if f == nil {
		return
	}
	ctc := callsNamed(f, "crypto/subtle.ConstantTimeCompare")
	if len(ctc) != 1 {
		c.fail("C47.mac-gate", "processData", f, "expected exactly one constant-time comparison")
		return
	}
	cmp := ctc[0].(*ssa.Call)
	// success edges: ConstantTimeCompare != 0 (== 1)
	pass := edgesImplying(cmp, []int64{0, 1}, func(d int64) bool { return d == 1 })
	cut := edgeSet{}
	cut.addAll(pass)
	var sinks []ssa.Instruction
	sinkName := map[ssa.Instruction]string{}
	add := func(in ssa.Instruction, n string) { sinks = append(sinks, in); sinkName[in] = n }
	for _, ci := range calls(f, func(n string) bool { return strings.Contains(n, "XORKeyStream") }) {
		add(ci, "decryption (XORKeyStream)")
	}
	for _, ci := range calls(f, func(n string) bool { return strings.HasSuffix(n, ").rotateDHKeys") }) {
		add(ci, "key rotation")
	}
	for _, ci := range callsNamed(f, "builtin:copy") {
		if strings.Contains(accessPath(sliceBase(ci.Common().Args[0])), "theirLastCtr") {
			add(ci, "counter update")
		}
	}
	for _, st := range storesTo(f, "Conversation", "theirKeyId") {
		add(st, "their key id advance")
	}
	for _, r := range returnsOf(f) {
		if len(r.Results) == 3 && !isNilConst(retVal(r, 0)) {
			if cst, isC := retVal(r, 0).(*ssa.Const); !isC || !cst.IsNil() {
				add(r, "plaintext return")
			}
		}
	}
	if len(sinks) < 5 {
		c.fail("C47.mac-gate", "processData sinks", f, fmt.Sprintf("only %d of the expected effects (decrypt, rotate, counter, key id, plaintext) found", len(sinks)))
	}
	for _, s := range sinks {
		// a return whose plaintext result is the nil constant on every incoming path is not a sink
		if r, isRet := s.(*ssa.Return); isRet {
			allNil := true
			for _, leaf := range phiLeaves(retVal(r, 0)) {
				if !isNilConst(leaf.val) {
					allNil = false
				}
			}
			if allNil {
				continue
			}
		}
		c.check(len(pass) > 0 && !pathFromEntry(s, cut), "C47.mac-gate", sinkName[s], s, "reachable only on the success edge of ConstantTimeCompare", "reachable without passing the MAC comparison: "+sinkName[s])
	}
	// equal-length test guards the comparison result's meaning: len(myMAC) != len(theirMAC) -> reject
	// (ConstantTimeCompare returns 0 for unequal lengths, so the success edge already implies it.)
	// MAC construction: hmac.New(sha1.New, slot.recvMACKey); Write({0,2,3}); Write(origIn[:len(origIn)-len(in)])
	hm := callsNamed(f, "crypto/hmac.New")
	okKey := len(hm) == 1 && isField(hm[0].Common().Args[1], "keySlot", "recvMACKey") && funcValueName(hm[0].Common().Args[0]) == "crypto/sha1.New"
	c.check(okKey, "C47.mac-gate", "MAC algorithm and key", f, "HMAC-SHA1 keyed with the slot's receiving MAC key", "the data MAC is not HMAC-SHA1 under the slot's receiving MAC key")
	// the compared values: one is mac.Sum(nil) of that hmac, the other is the 20-byte field from the message
	okArgs := false
	{
		a, b := cmp.Call.Args[0], cmp.Call.Args[1]
		isSum := func(v ssa.Value) bool {
			cl, ok := v.(*ssa.Call)
			return ok && cl.Call.IsInvoke() && cl.Call.Method.Name() == "Sum" && len(hm) == 1 && cl.Call.Value == callValue(hm[0])
		}
		isWire := func(v ssa.Value) bool {
			ex, ok := v.(*ssa.Extract)
			if !ok || ex.Index != 0 {
				return false
			}
			cl, ok := ex.Tuple.(*ssa.Call)
			if !ok || short(calleeName(&cl.Call)) != "otr.getNBytes" {
				return false
			}
			k, isK := constInt(cl.Call.Args[1])
			return isK && k == 20
		}
		okArgs = isSum(a) && isWire(b) || isSum(b) && isWire(a)
	}
	c.check(okArgs, "C47.mac-gate", "compared values", cmp, "the computed HMAC is compared with the 20-byte MAC field of the message", "the comparison is not between the computed HMAC and the message's MAC field")
	// MAC'd region = origIn[: len(origIn) - len(rest after the encrypted payload)]
	okRegion := false
	if len(hm) == 1 {
		for _, r := range *callValue(hm[0]).Referrers() {
			cl, ok := r.(*ssa.Call)
			if !ok || !cl.Call.IsInvoke() || cl.Call.Method.Name() != "Write" {
				continue
			}
			sl, ok := cl.Call.Args[0].(*ssa.Slice)
			if !ok || sl.X != ssa.Value(f.Params[1]) || sl.Low != nil || sl.High == nil {
				continue
			}
			sub, ok := sl.High.(*ssa.BinOp)
			if !ok || sub.Op != token.SUB {
				continue
			}
			l1, ok1 := sub.X.(*ssa.Call)
			l2, ok2 := sub.Y.(*ssa.Call)
			if !ok1 || !ok2 || calleeName(&l1.Call) != "builtin:len" || calleeName(&l2.Call) != "builtin:len" || l1.Call.Args[0] != ssa.Value(f.Params[1]) {
				continue
			}
			// l2's operand: the remainder returned by the getData call that produced the encrypted payload,
			// which is the remainder passed to the getNBytes(…, 20) call reading the MAC
			if ex, ok := l2.Call.Args[0].(*ssa.Extract); ok && ex.Index == 1 {
				if gd, ok := ex.Tuple.(*ssa.Call); ok && short(calleeName(&gd.Call)) == "otr.getData" {
					for _, rr := range *ex.Referrers() {
						if nb, ok := rr.(*ssa.Call); ok && short(calleeName(&nb.Call)) == "otr.getNBytes" {
							okRegion = true
						}
					}
				}
			}
		}
	}
	c.check(okRegion, "C47.mac-gate", "MAC'd region", f, "the MAC covers the received bytes from the start of the message up to (not including) the MAC field", "the MAC does not cover exactly the received bytes that precede the MAC field")
	// counter regression precedes decryption
	var regress []edge
	for _, ci := range callsNamed(f, "bytes.Compare") {
		regress = append(regress, edgesImplying(ci.(*ssa.Call), []int64{-1, 0, 1}, func(d int64) bool { return d > 0 })...)
	}
	cut2 := edgeSet{}
	cut2.addAll(regress)
	okCtr := len(regress) > 0
	for _, ci := range calls(f, func(n string) bool { return strings.Contains(n, "XORKeyStream") }) {
		if pathFromEntry(ci, cut2) {
			okCtr = false
		}
	}
	c.check(okCtr, "C47.mac-gate", "counter monotonic", f, "decryption happens only when the message counter is greater than the slot's last counter", "a replayed or regressed counter reaches decryption")
}

// ---------------------------------------------------------------------------
// SMP dispatch

func c47SMP(c *Ctx) {
	f := c.fn("otr", "(*Conversation).processSMP")
	if f == nil {
		return
	}
	cv := func(n string) int64 {
		v, ok := c.pkgConst("otr", n)
		if !ok {
			c.fail("C47.smp-table", "constant "+n, f, "constant not found")
		}
		return v
	}
	types_ := []string{"tlvTypeSMP1", "tlvTypeSMP2", "tlvTypeSMP3", "tlvTypeSMP4", "tlvTypeSMPAbort", "tlvTypeSMP1WithQuestion"}
	states := []string{"smpState1", "smpState2", "smpState3", "smpState4"}
	expectState := map[string]string{"tlvTypeSMP1": "smpState1", "tlvTypeSMP1WithQuestion": "smpState1", "tlvTypeSMP2": "smpState2", "tlvTypeSMP3": "smpState3", "tlvTypeSMP4": "smpState4"}
	handler := map[string]string{"tlvTypeSMP1": "processSMP1", "tlvTypeSMP1WithQuestion": "processSMP1", "tlvTypeSMP2": "processSMP2", "tlvTypeSMP3": "processSMP3", "tlvTypeSMP4": "processSMP4"}
	nextState := map[string]string{"tlvTypeSMP1": "smpState3", "tlvTypeSMP1WithQuestion": "smpState3", "tlvTypeSMP2": "smpState4", "tlvTypeSMP3": "smpState1", "tlvTypeSMP4": "smpState1"}
	// the typ field of the parameter
	var typLoads []ssa.Value
	allInstrs(f, func(in ssa.Instruction) {
		switch x := in.(type) {
		case *ssa.Field:
			if _, fld, _, ok := fieldOf(x); ok && fld == "typ" {
				typLoads = append(typLoads, x)
			}
		case *ssa.UnOp:
			if x.Op == token.MUL {
				if _, fld, _, ok := fieldOf(x.X); ok && fld == "typ" {
					typLoads = append(typLoads, x)
				}
			}
		}
	})
	if len(typLoads) == 0 {
		c.undecided("C47.smp-table", "processSMP", f, "loads of in.typ not found")
		return
	}
	relevant := map[string]bool{"processSMP1": true, "processSMP2": true, "processSMP3": true, "processSMP4": true, "generateSMP2": true, "generateSMPAbort": true, "resetSMP": true}
	for _, tn := range types_ {
		for _, sn := range states {
			e := newEnv()
			for _, v := range typLoads {
				e.bind(v, cv(tn))
			}
			e.bindPath(f, "c.smp.state", cv(sn))
			pans, _, blocks := e.reachableExits(f, nil)
			got := map[string]bool{}
			allInstrs(f, func(in ssa.Instruction) {
				if !blocks[in.Block()] {
					return
				}
				if cc := callCommon(in); cc != nil {
					if m := convMethod(cc); relevant[m] {
						got[m] = true
					}
				}
			})
			var stStores []int64
			for _, st := range storesTo(f, "smpState", "state") {
				if blocks[st.Block()] {
					if k, ok := constInt(st.Val); ok {
						stStores = append(stStores, k)
					}
				}
			}
			want := map[string]bool{}
			var wantStores []int64
			switch {
			case tn == "tlvTypeSMPAbort":
				want["resetSMP"] = true
			case expectState[tn] == sn:
				want[handler[tn]] = true
				wantStores = append(wantStores, cv(nextState[tn]))
				if handler[tn] == "processSMP1" {
					want["generateSMP2"] = true
				}
				if handler[tn] == "processSMP2" || handler[tn] == "processSMP4" {
					want["generateSMPAbort"] = true // on a failed proof
				}
			default:
				want["resetSMP"] = true
				want["generateSMPAbort"] = true
			}
			keys := func(m map[string]bool) string {
				var ks []string
				for k := range m {
					ks = append(ks, k)
				}
				sort.Strings(ks)
				return strings.Join(ks, ",")
			}
			name := fmt.Sprintf("%s in %s", tn, sn)
			okRow := keys(got) == keys(want) && fmt.Sprint(stStores) == fmt.Sprint(wantStores) && len(pans) == 0
			c.check(okRow, "C47.smp-table", name, f, fmt.Sprintf("reachable handlers {%s}, state stores %v, no panic", keys(got), stStores),
				fmt.Sprintf("code reaches {%s} with state stores %v and %d panic(s); the SMP state machine prescribes {%s} with state stores %v", keys(got), stStores, len(pans), keys(want), wantStores))
		}
	}
	// any other TLV type reaches the panic: Receive must never forward one
	recv := c.fn("otr", "(*Conversation).Receive")
	if recv != nil {
		var call ssa.CallInstruction
		for _, ci := range calls(recv, func(n string) bool { return strings.HasSuffix(n, ").processSMP") }) {
			call = ci
		}
		okFwd := call != nil
		if okFwd {
			var tl []ssa.Value
			allInstrs(recv, func(in ssa.Instruction) {
				switch x := in.(type) {
				case *ssa.Field:
					if _, fld, _, ok := fieldOf(x); ok && fld == "typ" {
						tl = append(tl, x)
					}
				case *ssa.UnOp:
					if x.Op == token.MUL {
						if _, fld, _, ok := fieldOf(x.X); ok && fld == "typ" {
							tl = append(tl, x)
						}
					}
				}
			})
			handled := map[int64]bool{}
			for _, tn := range types_ {
				handled[cv(tn)] = true
			}
			for v := int64(0); v <= 16; v++ {
				e := newEnv()
				for _, t := range tl {
					e.bind(t, v)
				}
				_, _, blocks := e.reachableExits(recv, nil)
				if blocks[call.Block()] != handled[v] {
					okFwd = false
				}
			}
			okFwd = okFwd && len(tl) > 0
		}
		c.check(okFwd, "C47.smp-table", "Receive forwards exactly the SMP TLV types", recv, "TLV types 0..16: processSMP is reachable exactly for the six types its switches handle", "Receive forwards a TLV type that processSMP's switch does not handle (its default panics), or drops an SMP type")
	}
}

// ---------------------------------------------------------------------------
// panics

func c47Panics(c *Ctx) {
	recv := c.fn("otr", "(*Conversation).Receive")
	if recv == nil {
		return
	}
	env := "environment failure (random source / crypto primitive refuses a correctly sized key); not input-dependent"
	table := map[string]string{
		"otr.(*Conversation).randMPI: otr: short read from random source":           env,
		"otr.(*Conversation).generateDHCommit: otr: short read from random source":  env,
		"otr.(*Conversation).generateDHCommit: invoke:(error).Error":                env + " (aes.NewCipher on the 16-byte r)",
		"otr.(*Conversation).generateEncryptedSignature: invoke:(error).Error":      env + " (aes.NewCipher on a 16-byte derived key)",
		"otr.(*Conversation).processEncryptedSig: invoke:(error).Error":             env + " (aes.NewCipher on a 16-byte derived key)",
		"otr.(*Conversation).processData: invoke:(error).Error":                     env + " (aes.NewCipher on the 16-byte slot key)",
		"otr.(*Conversation).generateData: invoke:(error).Error":                    env + " (aes.NewCipher on the 16-byte slot key)",
		"otr.(*Conversation).generateData: otr: failed to generate sending keys: …": "calcDataKeys(myKeyId-1, theirKeyId) with the conversation's own current ids; the slot exists once the AKE completed, which C47.ake-table ties to stateEncrypted",
		"otr.(*PrivateKey).Sign: invoke:(error).Error":                              env + " (dsa.Sign)",
		"otr.(*PrivateKey).Sign: DSA signature too large":                           "r, s < q (160 bits) by dsa.Sign's contract",
		"otr.(*Conversation).Receive: bad state":                                    "authState takes only the four constants (C47.ake-table covers all four; who-may-write check below)",
		"otr.(*Conversation).processSMP: unknown SMP message":                       "discharged by C47.smp-table (Receive forwards exactly the handled TLV types)",
	}
	sites := c.explicitPanics([]*ssa.Function{recv}, "otr")
	seen := map[string]bool{}
	for _, s := range sites {
		key := s.key
		if key == "otr.(*Conversation).generateData: " {
			key = "otr.(*Conversation).generateData: otr: failed to generate sending keys: …"
		}
		if seen[key] {
			continue
		}
		seen[key] = true
		if why, ok := table[key]; ok {
			c.ok("C47.panic-site", key, s.p, why)
		} else {
			c.fail("C47.panic-site", key, s.p, "explicit panic reachable from Receive and not in the checker's justified table")
		}
	}
	c.check(len(seen) >= 6, "C47.panic-site", "reachable explicit panics", recv, fmt.Sprintf("%d distinct sites enumerated", len(seen)), "call graph lost: too few panic sites enumerated")
	// who-may-write authState: only the four constants
	vals := map[int64]bool{}
	okW := true
	for _, fn := range c.funcsOfPkg("otr") {
		for _, st := range storesTo(fn, "Conversation", "authState") {
			k, ok := constInt(st.Val)
			if !ok {
				okW = false
			}
			vals[k] = true
		}
	}
	for k := range vals {
		if k < 0 || k > 3 {
			okW = false
		}
	}
	c.check(okW && len(vals) >= 4, "C47.panic-site", "authState writers", recv, "authState is only ever assigned the four state constants", "authState can be assigned a value outside the four handled states")
}

// ---------------------------------------------------------------------------
// constant-index guards

// constIndexGuard: for every length L in 0..maxLen of the slice value s in fn,
// no IndexAddr on s with a constant index >= L (and no constant-bound reslice
// beyond L) is reachable when every len(s) evaluates to L.
func (c *Ctx) constIndexGuard(rule, name string, fn *ssa.Function, isS func(v ssa.Value) bool, maxLen int64) {
	var lens []ssa.Value
	type site struct {
		in ssa.Instruction
		k  int64
	}
	var sites []site
	allInstrs(fn, func(in ssa.Instruction) {
		switch x := in.(type) {
		case *ssa.Call:
			if calleeName(&x.Call) == "builtin:len" && isS(x.Call.Args[0]) {
				lens = append(lens, x)
			}
		case *ssa.IndexAddr:
			if isS(x.X) {
				if k, ok := constInt(x.Index); ok {
					sites = append(sites, site{x, k + 1})
				}
			}
		case *ssa.Slice:
			if isS(x.X) {
				need := int64(0)
				if x.Low != nil {
					if k, ok := constInt(x.Low); ok && k > need {
						need = k
					}
				}
				if x.High != nil {
					if k, ok := constInt(x.High); ok && k > need {
						need = k
					}
				}
				if need > 0 {
					sites = append(sites, site{x, need})
				}
			}
		}
	})
	if len(sites) == 0 {
		c.ok(rule, name, fn, "no constant index into the decoded slice")
		return
	}
	if len(lens) == 0 {
		c.fail(rule, name, sites[0].in, fmt.Sprintf("constant index needing length %d but the function never tests the length", sites[0].k))
		return
	}
	for L := int64(0); L <= maxLen; L++ {
		e := newEnv()
		for _, l := range lens {
			e.bind(l, L)
		}
		e.solve(fn)
		for _, s := range sites {
			if s.k > L && e.reach[s.in.Block()] {
				c.fail(rule, name, s.in, fmt.Sprintf("with length %d an access needing length >= %d is reachable (index out of range panic)", L, s.k))
				return
			}
		}
	}
	c.ok(rule, name, fn, fmt.Sprintf("%d constant-index accesses are unreachable for every shorter length (0..%d evaluated)", len(sites), maxLen))
}

func c47IndexGuards(c *Ctx) {
	for _, n := range []string{"processSMP1", "processSMP2", "processSMP3", "processSMP4"} {
		f := c.fn("otr", "(*Conversation)."+n)
		if f == nil {
			continue
		}
		p := f.Params[1]
		c.constIndexGuard("C47.index-guard", n+" MPI list", f, func(v ssa.Value) bool { return v == ssa.Value(p) }, 21)
	}
	for _, n := range []string{"getU8", "getU16", "getU32", "getNBytes"} {
		f := c.fn("otr", n)
		if f == nil {
			continue
		}
		p := f.Params[0]
		c.constIndexGuard("C47.index-guard", n, f, func(v ssa.Value) bool { return v == ssa.Value(p) }, 8)
	}
	// Receive: msg[0], msg[1], msg[2], msg[3:] behind len(msg) < 3
	if f := c.fn("otr", "(*Conversation).Receive"); f != nil {
		// msg after truncation: the Slice msg[:msgLen]
		var msgV ssa.Value
		allInstrs(f, func(in ssa.Instruction) {
			if ia, ok := in.(*ssa.IndexAddr); ok {
				if k, isK := constInt(ia.Index); isK && k == 2 {
					msgV = ia.X
				}
			}
		})
		if msgV == nil {
			c.undecided("C47.index-guard", "Receive header", f, "msg[2] not found")
		} else {
			c.constIndexGuard("C47.index-guard", "Receive header bytes", f, func(v ssa.Value) bool { return v == msgV }, 6)
		}
	}
}
