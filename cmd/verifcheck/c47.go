package main

import (
	"fmt"
	"go/constant"
	"go/types"
	"os"
	"strings"

	"golang.org/x/tools/go/ssa"
)

func init() {
	register(&propDef{
		id: "C47", run: runC47, minOblig: 75,
		explanation: "Decides structural necessary conditions of the OTR conversation property, independently of how the code is factored (helpers of the package that are not protocol steps themselves are interpreted / searched in place; values are identified by provenance and by struct field, never by the name of a local, parameter or receiver). (AKE transition table) the authentication state machine of Conversation.Receive is extracted from the code by flow-sensitive interpretation starting where the type byte of the base64-decoded message is read — for every (message type in {DH-Commit, DH-Key, Reveal-Signature, Signature} x authState in {None, AwaitingDHKey, AwaitingRevealSig, AwaitingSig}, and both outcomes of the commit comparison / duplicate-key test) the sequence of protocol steps (Conversation methods) performed on the success path, which produced message is passed to encode, the successor authState, the message state, the reported SecurityChange and whether a certainly non-nil error is returned — and compared with the OTR version 2 specification's table (in particular: a repeated D-H Commit in AwaitingRevealSig retransmits the SAME D-H Key, every other acceptance of a commit generates a fresh one after reset; the winner of a SYN-crossing retransmits its commit; Reveal-Signature / Signature are processed only in their awaiting states and alone switch the message state to encrypted); the data path is walked for each message state: processData is reached from stateEncrypted only; a query (walked from the entry of Receive) resets, sends a fresh commit and awaits the D-H Key. (fragments) the reassembly automaton of processFragment is extracted the same way with byte slices represented by their lengths, over k, n, stored k, stored n in 0..3 and an empty / non-empty payload (512 cases): rejection, the stored fragment (untouched / payload / old+payload / empty), the stored counters and the returned complete message are compared with the specification's rules. (data MAC) in processData and its helpers the decryption, the counter update, both key-id advances (key rotation) and every non-nil plaintext result are reachable only behind a success edge of the constant-time comparison (subtle.ConstantTimeCompare == 1 or hmac.Equal, also when it is merged into a flag, negated, or returned by a helper as bool / error) between the computed HMAC and the 20-byte MAC field of the message; the MAC is HMAC-SHA1 keyed with the receiving slot key over exactly the received bytes that precede the MAC field; decryption and the counter update lie behind the test that the received 8-byte counter (read by getNBytes(., 8)) is STRICTLY greater than the slot's stored counter, recognised by the operands' provenance in its equivalent forms (bytes.Compare / slices.Compare of the byte strings or cmp.Compare of their big-endian integers against a constant; a <, <=, >, >= comparison of the big-endian integers obtained by binary.BigEndian.Uint64, hand-written shifts or a helper; either operand order; the outcome returned by a bool / error helper) — a test that admits equality is not accepted. (SMP dispatch) for every (TLV type x SMP state) the set of reachable handler calls and state stores in processSMP and its non-step helpers, with the reads of tlv.typ and smpState.state bound by field, equals the specification's (wrong-state messages reset and answer with an abort) and no panic is reachable; the TLV types Receive forwards are exactly those processSMP handles, so its default panic is unreachable. (panics) every explicit panic reachable from Receive in the call graph is justified by its content (message text, or the standard-library call whose error it reports: random-source or primitive failure = environment; the auth-state default is evaluated to be unreachable for each of the four states, which are the only values ever assigned; the SMP default is discharged by the table above); constant indices into decoded slices (the header bytes of the decoded message, the MPI lists of the four SMP processors, the getUxx helpers) are unreachable when the slice is shorter (evaluated for every length 0..21, the length test being in the function or in a helper that receives the slice). (fragment size) every integer division in Conversation.encode and its helpers is evaluated for every configured FragmentSize 0..64 with the message length left unknown: wherever the division is reachable its divisor is non-zero (FragmentSize equal to the 18 bytes of framing used to divide by zero). NOT decided: that honest peers derive equal keys (modular arithmetic), SMP zero-knowledge proof arithmetic, delivery of every message, implicit panics on variable indices.",
		assumptions: []string{"VTA call graph over-approximates interface dispatch", "the reference tables transcribe the OTR v2 protocol description (sections 'The protocol state machine', 'Fragmentation', 'Socialist Millionaires Protocol')", "the protocol steps are the existing Conversation methods (processDHCommit, reset, generateDHKey, encode, processSMP1..4, ...): a refactoring that dissolves one of them changes the observed vocabulary"},
	})
	tech("C47", "flow-sensitive finite-domain interpretation (helpers inlined) of the AKE / fragment automata and role-bound interprocedural reachability for the SMP table, compared with the specification tables; value-sensitive interprocedural must-cross rule for the data MAC; call-graph enumeration of explicit panics justified by content; constant-index guard evaluation over all short lengths")
}

func runC47(c *Ctx) {
	sweepC47(c)
	c47AKE(c)
	c47Fragment(c)
	c47DataMAC(c)
	c47SMP(c)
	c47Panics(c)
	c47IndexGuards(c)
	c47FragmentSize(c)
	// debugging aid: C47_DEBUG=1 prints every obligation
	if os.Getenv("C47_DEBUG") != "" {
		for _, o := range c.obligs {
			if strings.HasPrefix(o.Rule, "C47.") && o.Rule != "C47.bounds-sweep" {
				fmt.Fprintf(os.Stderr, "  %-10s %-16s %-45s %-18s %s\n", o.Verdict, o.Rule, o.Construct, o.Pos, o.Detail)
			}
		}
	}
}

func (c *Ctx) pkgConst(pkgPath, name string) (int64, bool) {
	p := c.pkg(pkgPath)
	if p == nil {
		return 0, false
	}
	k, ok := p.Types.Scope().Lookup(name).(*types.Const)
	if !ok {
		return 0, false
	}
	return constant.Int64Val(constant.ToInt(k.Val()))
}

// convMethod returns the method name when the call is a static call of a
// method of *otr.Conversation, else "".
func convMethod(cc *ssa.CallCommon) string {
	n := short(calleeName(cc))
	const pre = "(*otr.Conversation)."
	if strings.HasPrefix(n, pre) {
		return strings.TrimPrefix(n, pre)
	}
	return ""
}

type akeCase struct {
	msg, auth string
	variant   string // "", "cmp>0", "cmp<=0", "same", "different"
	calls     string
	nextAuth  string // "" = unchanged
	encrypted bool   // message state becomes stateEncrypted and change = NewKeys
}

// The OTR v2 AKE table ("The protocol state machine", receiving D-H Commit /
// D-H Key / Reveal Signature / Signature messages).
var akeSpec = []akeCase{
	{"DHCommit", "None", "", "processDHCommit reset send(generateDHKey)", "AwaitingRevealSig", false},
	{"DHCommit", "AwaitingDHKey", "cmp>0", "compareToDHCommit send(serializeDHCommit)", "", false},
	{"DHCommit", "AwaitingDHKey", "cmp<=0", "compareToDHCommit processDHCommit reset send(generateDHKey)", "AwaitingRevealSig", false},
	{"DHCommit", "AwaitingRevealSig", "", "processDHCommit send(serializeDHKey)", "", false},
	{"DHCommit", "AwaitingSig", "", "processDHCommit reset send(generateDHKey)", "AwaitingRevealSig", false},
	{"DHKey", "None", "", "", "", false},
	{"DHKey", "AwaitingDHKey", "different", "processDHKey send(generateRevealSig)", "AwaitingSig", false},
	{"DHKey", "AwaitingDHKey", "same", "processDHKey ERR", "", false},
	{"DHKey", "AwaitingRevealSig", "", "", "", false},
	{"DHKey", "AwaitingSig", "same", "processDHKey send(RETRANSMIT)", "", false},
	{"DHKey", "AwaitingSig", "different", "processDHKey", "", false},
	{"RevealSig", "None", "", "", "", false},
	{"RevealSig", "AwaitingDHKey", "", "", "", false},
	{"RevealSig", "AwaitingRevealSig", "", "processRevealSig send(generateSig)", "None", true},
	{"RevealSig", "AwaitingSig", "", "", "", false},
	{"Sig", "None", "", "", "", false},
	{"Sig", "AwaitingDHKey", "", "", "", false},
	{"Sig", "AwaitingRevealSig", "", "", "", false},
	{"Sig", "AwaitingSig", "", "processSig", "None", true},
}
