package main

import (
	"fmt"
	"strings"

	"golang.org/x/tools/go/ssa"
)

func init() {
	register(&propDef{
		id: "C14", run: runC14, minOblig: 6,
		explanation: "Decides two structural clauses for md4 and ripemd160. (Sum leaves the running state usable) (*digest).Sum is receiver-pure: no store, copy, append or call that can write reaches memory of the receiver — the padding and length are written into a value copy of the digest, which has no reference-typed field (effect analysis over the SSA of Sum and, interprocedurally, of what it calls with receiver-derived arguments). (padding arithmetic) for every message length residue (lengths 0..255 and values around 2^61 and 2^64-1 evaluated in Go's fixed-width arithmetic) exactly one of the two padding writes is reachable and its length p satisfies 1 <= p <= 64 and (len + p) mod 64 = 56, so the length field always ends a block; the padding starts with 0x80. NOT decided: the compression functions, digest values, the little-endian length loop.",
		assumptions: []string{"hasRefs: a struct copy is deep iff it has no pointer/slice/map/interface field"},
	})
	tech("C14", "interprocedural receiver-effect (purity) analysis on SSA; finite-domain evaluation of the padding length expression over all length residues")
}

func runC14(c *Ctx) {
	pur := newPurity()
	for _, pk := range []struct{ pkg, lenField string }{{"md4", "len"}, {"ripemd160", "tc"}} {
		f := c.fn(pk.pkg, "(*digest).Sum")
		if f == nil {
			continue
		}
		ok, why, at := pur.paramPure(f, 0, 0)
		var pos poser = f
		if at != nil {
			pos = at
		}
		c.check(ok, "C14.sum-pure", pk.pkg+".(*digest).Sum", pos, "Sum cannot write to the receiver's state (works on a value copy without reference fields)", "Sum writes to the running state: "+why+" — a later Write/Sum continues from a corrupted state")
		// the digest type has no reference fields (so the copy is deep)
		if t := c.namedType(pk.pkg, "digest"); t != nil {
			c.check(!hasRefs(t, 0), "C14.sum-pure", pk.pkg+".digest is reference-free", f, "value copy of digest is a deep copy", "digest has a reference-typed field: a value copy shares storage with the original")
		}
		c14Padding(c, f, pk.pkg, pk.lenField)
	}
}

func c14Padding(c *Ctx, f *ssa.Function, pkg, lenField string) {
	// loads of the length field
	var lenLoads []ssa.Value
	allInstrs(f, func(in ssa.Instruction) {
		if u, ok := in.(*ssa.UnOp); ok {
			if _, fld, _, okf := fieldOf(u); okf && fld == lenField {
				lenLoads = append(lenLoads, u)
			}
		}
	})
	// the padding writes: calls of (*digest).Write whose argument is a slice of the local tmp with low 0 and a non-constant high
	type pw struct {
		call ssa.CallInstruction
		sl   *ssa.Slice
	}
	var pws []pw
	for _, ci := range calls(f, func(n string) bool { return strings.HasSuffix(n, "digest).Write") }) {
		sl, ok := ci.Common().Args[1].(*ssa.Slice)
		if !ok || sl.High == nil {
			continue
		}
		if _, isK := constInt(sl.High); isK {
			continue
		}
		pws = append(pws, pw{ci, sl})
	}
	if len(lenLoads) == 0 || len(pws) != 2 {
		c.undecided("C14.padding", pkg+" padding writes", f, fmt.Sprintf("expected loads of d.%s and two variable-length padding writes; found %d/%d", lenField, len(lenLoads), len(pws)))
		return
	}
	var lens []uint64
	for i := uint64(0); i < 256; i++ {
		lens = append(lens, i)
	}
	for _, base := range []uint64{1 << 61, 1<<64 - 256} {
		for i := uint64(0); i < 130; i++ {
			lens = append(lens, base+i)
		}
	}
	bad := ""
	for _, L := range lens {
		e := newEnv()
		for _, v := range lenLoads {
			e.bind(v, int64(L))
		}
		e.solve(f)
		n := 0
		for _, p := range pws {
			if !e.reach[p.call.Block()] {
				continue
			}
			n++
			hi, ok := e.eval(p.sl.High)
			if !ok {
				bad = fmt.Sprintf("len=%d: padding length does not evaluate", L)
				break
			}
			if hi < 1 || hi > 64 || (L+uint64(hi))%64 != 56 {
				bad = fmt.Sprintf("len=%d: padding of %d bytes leaves (len+pad) mod 64 = %d, must be 56 with 1..64 bytes", L, hi, (L+uint64(hi))%64)
			}
		}
		if bad == "" && n != 1 {
			bad = fmt.Sprintf("len=%d: %d padding writes reachable, expected exactly one", L, n)
		}
		if bad != "" {
			break
		}
	}
	c.check(bad == "", "C14.padding", pkg+" padding length", f, fmt.Sprintf("%d lengths evaluated: 1..64 padding bytes, (len+pad) mod 64 = 56", len(lens)), bad)
	// first padding byte 0x80: a store of 0x80 to tmp[0]
	ok80 := false
	allInstrs(f, func(in ssa.Instruction) {
		if st, ok := in.(*ssa.Store); ok {
			if k, isK := constInt(st.Val); isK && k == 0x80 {
				if ia, ok := st.Addr.(*ssa.IndexAddr); ok {
					if idx, isI := constInt(ia.Index); isI && idx == 0 && ia.X == pws[0].sl.X {
						ok80 = true
					}
				}
			}
		}
	})
	c.check(ok80, "C14.padding", pkg+" padding first byte", f, "padding buffer starts with 0x80", "the padding does not start with the 0x80 marker byte")
}
