package main

import (
	"fmt"

	"golang.org/x/tools/go/ssa"
)

func init() {
	register(&propDef{
		id: "C14", run: runC14, minOblig: 6,
		explanation: "Decides, for md4 and ripemd160, everything of 'Sum/Write feed the right blocks to the compression function' and nothing of the compression function itself. The hash implementation is found by role, not by name: the concrete type New returns as hash.Hash, its Sum and Write methods, its fields by type (64-byte block buffer, uint32 state words, uint64 byte count, buffer fill), and as compression function the function of the package that takes message bytes and updates the state words. (Sum leaves the running state usable) Sum is receiver-pure: no store, copy, append or call that can write reaches memory of the receiver — padding and length go into a value copy of the state, which has no reference-typed field (interprocedural effect analysis over the SSA of Sum and what it calls with receiver-derived arguments). (padding) Sum is interpreted abstractly, every in-package callee (Write, helpers) interpreted in place and copy / clear / append / encoding/binary Put* modelled, for every byte count 0..255 and values around 2^61 and 2^64-1, with the buffered message bytes as distinct symbolic markers: the blocks that reach the compression function are exactly buffered bytes ‖ 0x80 ‖ zeros ‖ bit length (byte count * 8 mod 2^64, little-endian) in the minimal number (1 or 2) of 64-byte blocks, and Sum returns instead of panicking. This is independent of how the padding is produced (one, two or three Writes, a helper, or writing into the block buffer directly). (block buffering) Write is interpreted the same way for every buffer fill 0..63 and write length 0..200 (plus 255..257, 1000, 4099 at some fills), the written bytes being markers too: the blocks compressed are exactly the first 64*floor((fill+len)/64) bytes of buffered ‖ written in stream order, the remaining (fill+len) mod 64 bytes end up at the start of the buffer, fill becomes (fill+len) mod 64, the byte count grows by len, and len is returned — which also re-establishes the invariant fill = count mod 64 under which Sum is interpreted. NOT decided: the compression functions (rounds, constants, message-word order), the initial state set by Reset/New, the byte order in which Sum serialises the state words.",
		assumptions: []string{
			"hasRefs: a struct copy is deep iff it has no pointer/slice/map/interface field",
			"the compression function consumes the whole 64-byte blocks of its argument in order, ignores a trailing partial block and, if it has an integer result, returns the number of bytes consumed",
			"buffer fill = byte count mod 64 holds when Sum is entered (zero state / Reset as base case, preserved by Write as decided by C14.buffering)",
		},
	})
	tech("C14", "interprocedural receiver-effect (purity) analysis on SSA; flow-sensitive abstract interpretation of Sum and Write with symbolic message bytes, observing the blocks that reach the compression function, over all buffer fills / length residues")
}

func runC14(c *Ctx) {
	pur := newPurity()
	for _, pkg := range []string{"md4", "ripemd160"} {
		im := c14FindImpl(c, pkg)
		if im == nil {
			continue
		}
		f := im.sum
		tn := im.named.Obj().Name()
		ok, why, at := pur.paramPure(f, 0, 0)
		var pos poser = f
		if at != nil {
			pos = at
		}
		c.check(ok, "C14.sum-pure", pkg+"."+tn+".Sum", pos, "Sum cannot write to the receiver's state (works on a value copy without reference fields)", "Sum writes to the running state: "+why+" — a later Write/Sum continues from a corrupted state")
		// the state type has no reference fields (so the copy is deep)
		c.check(!hasRefs(im.named, 0), "C14.sum-pure", pkg+"."+tn+" is reference-free", f, "value copy of the hash state is a deep copy", "the hash state has a reference-typed field: a value copy shares storage with the original")
		c14Padding(c, im)
		c14Buffering(c, im)
	}
}

func c14RecvKey(f *ssa.Function, field string) string { return f.Params[0].Name() + "." + field }

// c14Padding: for every byte count, the blocks Sum has compressed are the
// buffered bytes followed by the MD-strengthening padding.
func c14Padding(c *Ctx, im *c14Impl) {
	f := im.sum
	var lens []uint64
	for i := uint64(0); i < 256; i++ {
		lens = append(lens, i)
	}
	for _, base := range []uint64{1 << 61, 1<<64 - 256} {
		for i := uint64(0); i < 130; i++ {
			lens = append(lens, base+i)
		}
	}
	bad := ""
	var at poser = f
	for _, L := range lens {
		nx := int64(L % 64)
		r := c14NewRun(im, f, nx)
		w := r.walker()
		w.state[c14RecvKey(f, im.fieldName(im.fLen))] = int64(L)
		w.state[c14RecvKey(f, im.fieldName(im.fNx))] = nx
		for _, p := range f.Params[1:] {
			if c14IsByteSlice(p.Type()) {
				w.env.bind(p, 0)
				n := r.fresh("arg")
				r.tag(w, p, n, 0, true)
			}
		}
		end := w.walk(f.Blocks[0], nil)
		id := fmt.Sprintf("byte count %d (%d buffered): ", L, nx)
		var want []int64
		for i := int64(0); i < nx; i++ {
			want = append(want, c14Buf+i)
		}
		want = append(want, 0x80)
		for (len(want)+8)%64 != 0 {
			want = append(want, 0)
		}
		for i := uint(0); i < 8; i++ {
			want = append(want, int64((L<<3)>>(8*i)&0xff))
		}
		switch {
		case end == "panic":
			bad = fmt.Sprintf("%sSum panics after %d block(s) were compressed (padded stream not ending on a block boundary, or an index out of range)", id, len(r.blocks))
			if w.last != nil {
				at = w.last
			}
		case end != "return":
			c.undecided("C14.padding", im.pkg+" padding", f, id+"interpretation of Sum ended with "+end+": "+w.why)
			return
		case r.problem != "":
			bad = id + r.problem
		case w.oob:
			bad = id + "a slice or index expression leaves its bounds"
		default:
			d, unknown := c14Diff(r.blocks, want)
			if unknown {
				c.undecided("C14.padding", im.pkg+" padding", f, id+"the interpretation could not determine the data compressed by Sum: "+d)
				return
			}
			if d != "" {
				bad = id + d + " — Sum must compress buffered bytes ‖ 0x80 ‖ zeros ‖ little-endian bit length, ending a block"
			}
		}
		if bad != "" {
			break
		}
	}
	c.check(bad == "", "C14.padding", im.pkg+" padding", at, fmt.Sprintf("%d byte counts interpreted: buffered bytes ‖ 0x80 ‖ zeros ‖ 64-bit little-endian bit length reach the compression function in the minimal number of blocks", len(lens)), bad)
}

// c14Buffering: for every buffer fill and write length, Write compresses the
// whole blocks of buffered ‖ written in order and keeps the remainder.
func c14Buffering(c *Ctx, im *c14Impl) {
	f := im.write
	var p *ssa.Parameter
	for _, q := range f.Params[1:] {
		if c14IsByteSlice(q.Type()) {
			p = q
		}
	}
	if p == nil {
		c.undecided("C14.buffering", im.pkg+" Write", f, "Write has no byte-slice parameter")
		return
	}
	lenKey, nxKey := c14RecvKey(f, im.fieldName(im.fLen)), c14RecvKey(f, im.fieldName(im.fNx))
	bad, cases := "", 0
	var writeLens []int64
	for n := int64(0); n <= 200; n++ {
		writeLens = append(writeLens, n)
	}
	writeLens = append(writeLens, 255, 256, 257, 1000, 4099) // byte-count arithmetic beyond one byte
	for nx := int64(0); nx < 64 && bad == ""; nx++ {
		for _, n := range writeLens {
			if bad != "" || n > 200 && nx%21 != 0 {
				continue
			}
			L0 := int64(3*64) + nx
			r := c14NewRun(im, f, nx)
			w := r.walker()
			w.state[lenKey], w.state[nxKey] = L0, nx
			w.env.bind(p, n)
			r.tag(w, p, "P", 0, true)
			r.mem["P"] = make([]int64, 0, n)
			for j := int64(0); j < n; j++ {
				r.set("P", j, c14In+j)
			}
			end := w.walk(f.Blocks[0], nil)
			cases++
			id := fmt.Sprintf("%d buffered, Write of %d bytes: ", nx, n)
			if end != "return" {
				if end == "panic" {
					bad = id + "Write panics"
					break
				}
				c.undecided("C14.buffering", im.pkg+" Write", f, id+"interpretation ended with "+end+": "+w.why)
				return
			}
			stream := make([]int64, 0, nx+n)
			for i := int64(0); i < nx; i++ {
				stream = append(stream, c14Buf+i)
			}
			for j := int64(0); j < n; j++ {
				stream = append(stream, c14In+j)
			}
			T := nx + n
			ret, okRet := w.env.eval(retVal(w.last.(*ssa.Return), 0))
			diff, unknown := c14Diff(r.blocks, stream[:T/64*64])
			if unknown {
				c.undecided("C14.buffering", im.pkg+" Write", f, id+"the interpretation could not determine the data compressed: "+diff)
				return
			}
			switch {
			case r.problem != "":
				bad = id + r.problem
			case w.oob:
				bad = id + "a slice or index expression leaves its bounds"
			case diff != "":
				bad = id + diff + " — Write must compress the whole blocks of buffered ‖ written bytes in order"
			case w.state[nxKey] != T%64:
				bad = fmt.Sprintf("%sbuffer fill afterwards %d, expected %d", id, w.state[nxKey], T%64)
			case w.state[lenKey] != L0+n:
				bad = fmt.Sprintf("%sbyte count grows by %d, expected %d", id, w.state[lenKey]-L0, n)
			case !okRet || ret != n:
				bad = fmt.Sprintf("%sWrite does not return len(p)", id)
			default:
				for i := int64(0); i < T%64; i++ {
					if got := r.get("X", i); got != stream[T/64*64+i] {
						bad = fmt.Sprintf("%sbuffer byte %d afterwards is %s, expected %s", id, i, c14Show(got), c14Show(stream[T/64*64+i]))
						break
					}
				}
			}
		}
	}
	c.check(bad == "", "C14.buffering", im.pkg+" Write", f, fmt.Sprintf("%d (fill, length) cases interpreted: whole blocks of buffered ‖ written bytes compressed in order, remainder buffered, fill = count mod 64 preserved", cases), bad)
}
