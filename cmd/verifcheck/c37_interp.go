package main

// c37_interp.go: an evaluator of go/ssa function bodies over CONCRETE values
// (strings, integers, booleans, pointers, structs, slices, maps, closures,
// interfaces, CHANNELS and MUTEXES), derived from the C28 evaluator. The C37
// rules use it to run forwardList.add / forward / remove / closeAll and the
// listeners' Accept on small concrete histories and to compare what is
// OBSERVED (which channel received what, which channel was closed, whether the
// list lock was held at that moment, what was returned, whether the call
// returned at all) with the specification computed in Go. Because the bodies
// are evaluated, the verdict does not depend on how the code is factored.
// Channel model: a buffered send succeeds while there is room and otherwise
// ends the run as "blocks" (there is no second goroutine in the model); a
// receive takes a buffered item, reports closed, or ends the run as "blocks".
// Anything outside the model stops the evaluation as UNDECIDED.

import (
	"fmt"
	"go/constant"
	"go/token"
	"go/types"
	"strings"

	"golang.org/x/tools/go/ssa"
)

type c37ival = any

type c37istruct []c37ival // value semantics: copied on load / store
type c37iarray []c37ival  // value semantics
type c37ituple []c37ival
type c37imap struct {
	m    map[any]c37ival
	keys []any           // insertion order (iteration order of the model)
	orig map[any]c37ival // the key VALUE of a struct / array key
}
type c37iiface struct {
	t types.Type // nil: the nil interface
	v c37ival
}
type c37iclosure struct {
	fn *ssa.Function
	fv []c37ival
}
type c37iopaque struct{ what string }

// c37iskey: the map key standing for a comparable struct / array value.
type c37iskey string

// c37ichan: a channel of the model.
type c37ichan struct {
	id     int
	cap    int
	buf    []c37ival
	closed bool
	elem   types.Type
}

// c37ievent: an observable action of the evaluated code.
type c37ievent struct {
	kind    string // "send" | "recv" | "close" | "makechan" | "lock" | "unlock"
	ch      *c37ichan
	val     c37ival
	mu      *c37ival   // lock / unlock: the mutex cell
	held    []*c37ival // mutex cells held when the action happened
	blocked bool       // send / recv that cannot proceed
	at      ssa.Instruction
}
type c37iiter struct {
	m    *c37imap
	keys []any
	str  []rune
	pos  int
	isS  bool
}

// c37istop is thrown (Go panic) to leave the evaluation.
type c37istop struct {
	kind string // "undecided" | "panic"
	msg  string
}

type c37iinterp struct {
	prog     *ssa.Program
	globals  map[*ssa.Global]*c37ival
	initMemo map[ssa.Value]c37ival
	consts   map[*ssa.Const]c37ival
	numbers  map[*ssa.Function]map[ssa.Value]int
	steps    int
	maxSteps int
	depth    int
	locked   map[*c37ival]bool
	lockSeq  []*c37ival
	events   []c37ievent
	nchan    int
}

func (it *c37iinterp) heldNow() []*c37ival {
	var out []*c37ival
	for _, m := range it.lockSeq {
		if it.locked[m] {
			out = append(out, m)
		}
	}
	return out
}

func (it *c37iinterp) emit(e c37ievent) {
	e.held = it.heldNow()
	it.events = append(it.events, e)
}

func (it *c37iinterp) newChan(capacity int, elem types.Type) *c37ichan {
	it.nchan++
	return &c37ichan{id: it.nchan, cap: capacity, elem: elem}
}

func c37iblocks(format string, a ...any) { panic(c37istop{"blocks", fmt.Sprintf(format, a...)}) }

func (it *c37iinterp) send(chv c37ival, v c37ival, at ssa.Instruction) {
	ch, ok := chv.(*c37ichan)
	if !ok {
		c37iundecided("send on a value outside the model at %s", at.String())
	}
	if ch == nil {
		it.emit(c37ievent{kind: "send", ch: ch, val: v, blocked: true, at: at})
		c37iblocks("send on a nil channel blocks forever")
	}
	if ch.closed {
		it.emit(c37ievent{kind: "send", ch: ch, val: v, at: at})
		c37ipanic("send on closed channel")
	}
	if len(ch.buf) >= ch.cap {
		it.emit(c37ievent{kind: "send", ch: ch, val: v, blocked: true, at: at})
		c37iblocks("send on a full channel (capacity %d, %d undelivered) blocks", ch.cap, len(ch.buf))
	}
	ch.buf = append(ch.buf, c37icopy(v))
	it.emit(c37ievent{kind: "send", ch: ch, val: v, at: at})
}

// recv: (value, ok)
func (it *c37iinterp) recv(chv c37ival, elem types.Type, at ssa.Instruction) (c37ival, bool) {
	ch, ok := chv.(*c37ichan)
	if !ok {
		c37iundecided("receive from a value outside the model at %s", at.String())
	}
	if ch != nil && len(ch.buf) > 0 {
		v := ch.buf[0]
		ch.buf = ch.buf[1:]
		it.emit(c37ievent{kind: "recv", ch: ch, val: v, at: at})
		return v, true
	}
	if ch != nil && ch.closed {
		it.emit(c37ievent{kind: "recv", ch: ch, at: at})
		return c37izero(elem), false
	}
	it.emit(c37ievent{kind: "recv", ch: ch, blocked: true, at: at})
	c37iblocks("receive from an empty open channel blocks")
	return nil, false
}

func (it *c37iinterp) closeChan(chv c37ival, at ssa.Instruction) {
	ch, ok := chv.(*c37ichan)
	if !ok {
		c37iundecided("close of a value outside the model at %s", at.String())
	}
	if ch == nil {
		c37ipanic("close of nil channel")
	}
	if ch.closed {
		it.emit(c37ievent{kind: "close", ch: ch, at: at})
		c37ipanic("close of closed channel")
	}
	ch.closed = true
	it.emit(c37ievent{kind: "close", ch: ch, at: at})
}

func (it *c37iinterp) lockOp(mu c37ival, acquire bool, name string) {
	p, ok := mu.(*c37ival)
	if !ok || p == nil {
		c37ipanic("%s on a nil mutex", name)
	}
	if acquire {
		if it.locked[p] {
			c37iblocks("%s on a mutex this goroutine already holds: deadlock", name)
		}
		it.locked[p] = true
		it.lockSeq = append(it.lockSeq, p)
		it.emit(c37ievent{kind: "lock", mu: p})
		return
	}
	if !it.locked[p] {
		c37ipanic("%s of an unlocked mutex", name)
	}
	it.emit(c37ievent{kind: "unlock", mu: p})
	delete(it.locked, p)
}

func c37inewInterp(prog *ssa.Program) *c37iinterp {
	return &c37iinterp{prog: prog, globals: map[*ssa.Global]*c37ival{}, initMemo: map[ssa.Value]c37ival{}, consts: map[*ssa.Const]c37ival{}, numbers: map[*ssa.Function]map[ssa.Value]int{}, maxSteps: 20000, locked: map[*c37ival]bool{}}
}

func c37iundecided(format string, a ...any) {
	panic(c37istop{"undecided", fmt.Sprintf(format, a...)})
}
func c37ipanic(format string, a ...any) { panic(c37istop{"panic", fmt.Sprintf(format, a...)}) }

// run evaluates fn(args...) and reports how it ended: "return" (res valid),
// "panic" or "undecided" (why says what was met).
func (it *c37iinterp) run(fn *ssa.Function, args []c37ival) (res c37ival, end string, why string) {
	it.steps, it.depth = 0, 0
	defer func() {
		if r := recover(); r != nil {
			if s, ok := r.(c37istop); ok {
				end, why = s.kind, s.msg
				return
			}
			end, why = "undecided", fmt.Sprintf("evaluator: %v", r)
		}
	}()
	return it.callFn(fn, args, nil), "return", ""
}

func c37izero(t types.Type) c37ival {
	switch u := t.Underlying().(type) {
	case *types.Basic:
		switch {
		case u.Info()&types.IsBoolean != 0:
			return false
		case u.Info()&types.IsString != 0:
			return ""
		case u.Info()&types.IsInteger != 0:
			return int64(0)
		case u.Kind() == types.UnsafePointer:
			return (*c37ival)(nil)
		case u.Kind() == types.UntypedNil:
			return c37iiface{}
		}
		return c37iopaque{"value of type " + t.String()}
	case *types.Pointer:
		return (*c37ival)(nil)
	case *types.Slice:
		return []c37ival(nil)
	case *types.Map:
		return (*c37imap)(nil)
	case *types.Chan:
		return (*c37ichan)(nil)
	case *types.Signature:
		return (*c37iclosure)(nil)
	case *types.Interface:
		return c37iiface{}
	case *types.Struct:
		s := make(c37istruct, u.NumFields())
		for i := range s {
			s[i] = c37izero(u.Field(i).Type())
		}
		return s
	case *types.Array:
		a := make(c37iarray, u.Len())
		for i := range a {
			a[i] = c37izero(u.Elem())
		}
		return a
	}
	return c37iopaque{"value of type " + t.String()}
}

func c37icopy(v c37ival) c37ival {
	switch x := v.(type) {
	case c37istruct:
		n := make(c37istruct, len(x))
		for i := range x {
			n[i] = c37icopy(x[i])
		}
		return n
	case c37iarray:
		n := make(c37iarray, len(x))
		for i := range x {
			n[i] = c37icopy(x[i])
		}
		return n
	}
	return v
}

// c37istore writes v to *p; aggregates are written in place so that pointers
// to their fields / elements stay valid.
func c37istore(p *c37ival, v c37ival) {
	switch x := v.(type) {
	case c37istruct:
		if cur, ok := (*p).(c37istruct); ok && len(cur) == len(x) {
			for i := range x {
				c37istore(&cur[i], x[i])
			}
			return
		}
	case c37iarray:
		if cur, ok := (*p).(c37iarray); ok && len(cur) == len(x) {
			for i := range x {
				c37istore(&cur[i], x[i])
			}
			return
		}
	}
	*p = c37icopy(v)
}

func c37iconst(c *ssa.Const) c37ival {
	if c.Value == nil {
		return c37izero(c.Type())
	}
	if b, ok := c.Type().Underlying().(*types.Basic); ok {
		switch {
		case b.Info()&types.IsBoolean != 0:
			return constant.BoolVal(c.Value)
		case b.Info()&types.IsString != 0:
			return constant.StringVal(c.Value)
		case b.Info()&types.IsInteger != 0:
			if n, ok := constant.Int64Val(constant.ToInt(c.Value)); ok {
				return n
			}
			if n, ok := constant.Uint64Val(constant.ToInt(c.Value)); ok {
				return int64(n)
			}
		}
	}
	return c37iopaque{"constant " + c.String()}
}

func c37iisUnsigned(t types.Type) bool {
	b, ok := t.Underlying().(*types.Basic)
	return ok && b.Info()&types.IsUnsigned != 0
}

func c37iwrap(t types.Type, n int64) int64 {
	b, ok := t.Underlying().(*types.Basic)
	if !ok {
		return n
	}
	switch b.Kind() {
	case types.Int8:
		return int64(int8(n))
	case types.Int16:
		return int64(int16(n))
	case types.Int32:
		return int64(int32(n))
	case types.Uint8:
		return int64(uint8(n))
	case types.Uint16:
		return int64(uint16(n))
	case types.Uint32:
		return int64(uint32(n))
	}
	return n
}

func c37iequal(a, b c37ival) bool {
	if o, ok := a.(c37iopaque); ok {
		c37iundecided("comparison of %s", o.what)
	}
	if o, ok := b.(c37iopaque); ok {
		c37iundecided("comparison of %s", o.what)
	}
	switch x := a.(type) {
	case int64:
		return x == b.(int64)
	case string:
		return x == b.(string)
	case bool:
		return x == b.(bool)
	case *c37ival:
		return x == b.(*c37ival)
	case *c37imap:
		return x == b.(*c37imap)
	case *c37ichan:
		return x == b.(*c37ichan)
	case *c37iclosure:
		return x == b.(*c37iclosure)
	case []c37ival:
		y := b.([]c37ival)
		if x != nil && y != nil {
			c37iundecided("comparison of two non-nil slices")
		}
		return x == nil && y == nil
	case c37iiface:
		y := b.(c37iiface)
		if x.t == nil || y.t == nil {
			return x.t == nil && y.t == nil
		}
		return types.Identical(x.t, y.t) && c37iequal(x.v, y.v)
	case c37istruct:
		y := b.(c37istruct)
		for i := range x {
			if !c37iequal(x[i], y[i]) {
				return false
			}
		}
		return true
	case c37iarray:
		y := b.(c37iarray)
		for i := range x {
			if !c37iequal(x[i], y[i]) {
				return false
			}
		}
		return true
	}
	c37iundecided("comparison of values of kind %T", a)
	return false
}

func c37ikey(k c37ival) any {
	switch x := k.(type) {
	case int64, string, bool:
		return x
	case c37iiface:
		if x.t == nil {
			return nil
		}
		return c37ikey(x.v)
	case c37istruct:
		// a comparable struct (strings, integers, booleans): its fields, in order
		parts := make([]string, len(x))
		for i, f := range x {
			parts[i] = fmt.Sprintf("%T:%#v", c37ikey(f), c37ikey(f))
		}
		return c37iskey(strings.Join(parts, "\x00"))
	case c37iarray:
		parts := make([]string, len(x))
		for i, f := range x {
			parts[i] = fmt.Sprintf("%T:%#v", c37ikey(f), c37ikey(f))
		}
		return c37iskey(strings.Join(parts, "\x00"))
	}
	c37iundecided("map key of kind %T", k)
	return nil
}

func (m *c37imap) set(k, v c37ival) {
	kk := c37ikey(k)
	if _, ok := m.m[kk]; !ok {
		m.keys = append(m.keys, kk)
	}
	if _, isS := kk.(c37iskey); isS {
		if m.orig == nil {
			m.orig = map[any]c37ival{}
		}
		m.orig[kk] = c37icopy(k)
	}
	m.m[kk] = c37icopy(v)
}

// ---------------------------------------------------------------------------
// package-level variables: their value is what the package initializer stores
// into them (composite literals of constants are rebuilt on demand from the
// init function's instructions; anything computed by a call stays opaque).

func (it *c37iinterp) global(g *ssa.Global) *c37ival {
	if p, ok := it.globals[g]; ok {
		return p
	}
	p := new(c37ival)
	*p = c37izero(g.Type().(*types.Pointer).Elem())
	it.globals[g] = p
	if g.Pkg == nil {
		return p
	}
	if init := g.Pkg.Func("init"); init != nil {
		for _, b := range init.Blocks {
			for _, in := range b.Instrs {
				if st, ok := in.(*ssa.Store); ok && st.Addr == ssa.Value(g) {
					c37istore(p, it.initEval(st.Val, 0))
				}
			}
		}
	}
	return p
}

func (it *c37iinterp) initEval(v ssa.Value, depth int) c37ival {
	if r, ok := it.initMemo[v]; ok {
		return r
	}
	if depth > 12 {
		return c37iopaque{"deeply nested initializer"}
	}
	var r c37ival
	switch x := v.(type) {
	case *ssa.Const:
		return c37iconst(x)
	case *ssa.Global:
		return it.global(x)
	case *ssa.Function:
		return &c37iclosure{fn: x}
	case *ssa.MakeMap:
		m := &c37imap{m: map[any]c37ival{}}
		it.initMemo[v] = m
		for _, ref := range *x.Referrers() {
			if mu, ok := ref.(*ssa.MapUpdate); ok && mu.Map == v {
				k, val := it.initEval(mu.Key, depth+1), it.initEval(mu.Value, depth+1)
				if _, op := k.(c37iopaque); op {
					return c37iopaque{"map with a computed key"}
				}
				m.set(k, val)
			}
		}
		return m
	case *ssa.Alloc:
		p := new(c37ival)
		*p = c37izero(x.Type().(*types.Pointer).Elem())
		it.initMemo[v] = p
		it.initStores(x, p, depth+1)
		return p
	case *ssa.Slice:
		base := it.initEval(x.X, depth+1)
		if p, ok := base.(*c37ival); ok && p != nil && x.Low == nil && x.High == nil {
			if a, ok := (*p).(c37iarray); ok {
				r = []c37ival(a)
			}
		}
	case *ssa.UnOp:
		if x.Op == token.MUL {
			if p, ok := it.initEval(x.X, depth+1).(*c37ival); ok && p != nil {
				r = c37icopy(*p)
			}
		}
	case *ssa.MakeInterface:
		r = c37iiface{t: x.X.Type(), v: it.initEval(x.X, depth+1)}
	case *ssa.ChangeType:
		r = it.initEval(x.X, depth+1)
	case *ssa.ChangeInterface:
		r = it.initEval(x.X, depth+1)
	case *ssa.Call:
		if callee := x.Call.StaticCallee(); callee != nil {
			switch c37ipkgPath(callee) + "." + callee.Name() {
			case "errors.New", "fmt.Errorf":
				r = c37iiface{t: types.Typ[types.String], v: c37iopaque{"error built by " + callee.Name()}}
			}
		}
	case *ssa.FieldAddr:
		if p, ok := it.initEval(x.X, depth+1).(*c37ival); ok && p != nil {
			if s, ok := (*p).(c37istruct); ok {
				r = &s[x.Field]
			}
		}
	case *ssa.IndexAddr:
		if k, ok := it.initEval(x.Index, depth+1).(int64); ok {
			switch b := it.initEval(x.X, depth+1).(type) {
			case *c37ival:
				if b != nil {
					if a, ok := (*b).(c37iarray); ok && k >= 0 && k < int64(len(a)) {
						r = &a[k]
					}
				}
			case []c37ival:
				if k >= 0 && k < int64(len(b)) {
					r = &b[k]
				}
			}
		}
	}
	if r == nil {
		r = c37iopaque{"package-level value computed by " + v.String()}
	}
	it.initMemo[v] = r
	return r
}

// initStores replays the stores of a composite literal into the cell p that
// stands for the address value addr.
func (it *c37iinterp) initStores(addr ssa.Value, p *c37ival, depth int) {
	if depth > 12 || addr.Referrers() == nil {
		return
	}
	for _, ref := range *addr.Referrers() {
		switch x := ref.(type) {
		case *ssa.Store:
			if x.Addr == addr {
				c37istore(p, it.initEval(x.Val, depth+1))
			}
		case *ssa.FieldAddr:
			if s, ok := (*p).(c37istruct); ok && x.X == addr {
				it.initStores(x, &s[x.Field], depth+1)
			}
		case *ssa.IndexAddr:
			if a, ok := (*p).(c37iarray); ok && x.X == addr {
				if k, ok := it.initEval(x.Index, depth+1).(int64); ok && k >= 0 && k < int64(len(a)) {
					it.initStores(x, &a[k], depth+1)
				}
			}
		}
	}
}

// ---------------------------------------------------------------------------

type c37iframe struct {
	it     *c37iinterp
	fn     *ssa.Function
	idx    map[ssa.Value]int
	vals   []c37ival
	defers []func()
}

func (fr *c37iframe) put(v ssa.Value, val c37ival) {
	if val == nil {
		val = c37ituple{}
	}
	fr.vals[fr.idx[v]] = val
}

// numbering assigns a slot to every parameter, free variable and value-producing
// instruction of fn (computed once per function).
func (it *c37iinterp) numbering(fn *ssa.Function) map[ssa.Value]int {
	if m, ok := it.numbers[fn]; ok {
		return m
	}
	m := map[ssa.Value]int{}
	for _, p := range fn.Params {
		m[p] = len(m)
	}
	for _, f := range fn.FreeVars {
		m[f] = len(m)
	}
	for _, b := range fn.Blocks {
		for _, in := range b.Instrs {
			if v, ok := in.(ssa.Value); ok {
				m[v] = len(m)
			}
		}
	}
	it.numbers[fn] = m
	return m
}

func (fr *c37iframe) get(v ssa.Value) c37ival {
	switch x := v.(type) {
	case *ssa.Const:
		if _, agg := x.Type().Underlying().(*types.Basic); agg {
			if r, ok := fr.it.consts[x]; ok {
				return r
			}
			r := c37iconst(x)
			fr.it.consts[x] = r
			return r
		}
		return c37iconst(x)
	case *ssa.Global:
		return fr.it.global(x)
	case *ssa.Function:
		return &c37iclosure{fn: x}
	case *ssa.Builtin:
		c37iundecided("builtin %s used as a value", x.Name())
	}
	i, ok := fr.idx[v]
	var r c37ival
	if ok {
		r = fr.vals[i]
	}
	if r == nil {
		c37iundecided("value %s (%s) of %s not computed", v.Name(), v.String(), fr.fn.Name())
	}
	return r
}

func (fr *c37iframe) int(v ssa.Value) int64 {
	switch n := fr.get(v).(type) {
	case int64:
		return n
	case c37iopaque:
		c37iundecided("integer use of %s", n.what)
	}
	c37iundecided("integer expected for %s", v.String())
	return 0
}

func c37ideref(p c37ival, at ssa.Instruction) *c37ival {
	switch x := p.(type) {
	case *c37ival:
		if x == nil {
			c37ipanic("nil pointer dereference at %s", at.String())
		}
		return x
	case c37iopaque:
		c37iundecided("dereference of %s", x.what)
	}
	c37iundecided("pointer expected at %s", at.String())
	return nil
}

func (it *c37iinterp) callFn(fn *ssa.Function, args []c37ival, fv []c37ival) c37ival {
	if r, ok := it.modelled(fn, args); ok {
		return r
	}
	if len(fn.Blocks) == 0 {
		return c37iopaqueResult(fn.Signature.Results(), "result of "+fn.String()+" (no body)")
	}
	it.depth++
	defer func() { it.depth-- }()
	if it.depth > 60 {
		c37iundecided("call depth bound exceeded in %s", fn.Name())
	}
	idx := it.numbering(fn)
	fr := &c37iframe{it: it, fn: fn, idx: idx, vals: make([]c37ival, len(idx))}
	for i, p := range fn.Params {
		if i < len(args) {
			fr.put(p, args[i])
		}
	}
	for i, f := range fn.FreeVars {
		if i < len(fv) {
			fr.put(f, fv[i])
		}
	}
	b := fn.Blocks[0]
	var pred *ssa.BasicBlock
	for {
		// phis: parallel assignment
		if pred != nil {
			idx := -1
			for i, p := range b.Preds {
				if p == pred {
					idx = i
				}
			}
			var phis []*ssa.Phi
			var vals []c37ival
			for _, in := range b.Instrs {
				ph, ok := in.(*ssa.Phi)
				if !ok {
					break
				}
				phis = append(phis, ph)
				vals = append(vals, fr.get(ph.Edges[idx]))
			}
			for i, ph := range phis {
				fr.put(ph, vals[i])
			}
		}
		var next *ssa.BasicBlock
		for _, in := range b.Instrs {
			it.steps++
			if it.steps > it.maxSteps {
				c37iundecided("step bound exceeded in %s", fn.Name())
			}
			switch x := in.(type) {
			case *ssa.Phi, *ssa.DebugRef:
			case *ssa.Jump:
				next = b.Succs[0]
			case *ssa.If:
				switch cv := fr.get(x.Cond).(type) {
				case bool:
					if cv {
						next = b.Succs[0]
					} else {
						next = b.Succs[1]
					}
				case c37iopaque:
					c37iundecided("branch in %s depends on %s", fn.Name(), cv.what)
				default:
					c37iundecided("non-boolean branch condition in %s", fn.Name())
				}
			case *ssa.Return:
				fr.runDefers()
				switch len(x.Results) {
				case 0:
					return nil
				case 1:
					return fr.get(x.Results[0])
				}
				t := make(c37ituple, len(x.Results))
				for i, r := range x.Results {
					t[i] = fr.get(r)
				}
				return t
			case *ssa.Panic:
				c37ipanic("panic in %s", fn.Name())
			case *ssa.RunDefers:
				fr.runDefers()
			case *ssa.Defer:
				call := fr.prepareCall(x.Common(), x)
				fr.defers = append(fr.defers, func() { call() })
			case *ssa.Store:
				c37istore(c37ideref(fr.get(x.Addr), x), fr.get(x.Val))
			case *ssa.MapUpdate:
				m, _ := fr.get(x.Map).(*c37imap)
				if m == nil {
					c37ipanic("assignment to entry in nil map in %s", fn.Name())
				}
				m.set(fr.get(x.Key), fr.get(x.Value))
			case *ssa.Send:
				it.send(fr.get(x.Chan), fr.get(x.X), x)
			case *ssa.Go:
				c37iundecided("concurrency instruction %s in %s", in.String(), fn.Name())
			case ssa.Value:
				fr.put(x, fr.eval(x, in))
			default:
				c37iundecided("instruction %s in %s not modelled", in.String(), fn.Name())
			}
		}
		if next == nil {
			c37iundecided("block without terminator in %s", fn.Name())
		}
		pred, b = b, next
	}
}

func (fr *c37iframe) runDefers() {
	for len(fr.defers) > 0 {
		d := fr.defers[len(fr.defers)-1]
		fr.defers = fr.defers[:len(fr.defers)-1]
		d()
	}
}

func c37iopaqueResult(res *types.Tuple, what string) c37ival {
	switch res.Len() {
	case 0:
		return nil
	case 1:
		return c37iopaque{what}
	}
	t := make(c37ituple, res.Len())
	for i := range t {
		t[i] = c37iopaque{what}
	}
	return t
}

// c37ipkgPath: the import path of the package a function (also an instantiation
// of a generic function, or a function literal) belongs to.
func c37ipkgPath(fn *ssa.Function) string {
	for f := fn; f != nil; f = f.Parent() {
		if f.Pkg != nil && f.Pkg.Pkg != nil {
			return f.Pkg.Pkg.Path()
		}
		if o := f.Origin(); o != nil && o.Pkg != nil && o.Pkg.Pkg != nil {
			return o.Pkg.Pkg.Path()
		}
		if obj := f.Object(); obj != nil && obj.Pkg() != nil {
			return obj.Pkg().Path()
		}
	}
	return ""
}

// pure data-structure packages of the standard library whose bodies are
// evaluated like the module's own code
var c37ievalStd = map[string]bool{"slices": true, "maps": true, "strings": true, "bytes": true, "sort": true, "cmp": true,
	"iter": true, "unicode": true, "unicode/utf8": true, "strconv": true, "math/bits": true, "internal/stringslite": true, "internal/bytealg": true}

// modelled: functions whose result is known, or deliberately left unknown,
// without looking at their body. Only the module's own functions and the
// pure helper packages above are evaluated; any other function (fmt, log,
// errors, sync, ...) is not followed: it has no effect on the values the rule
// observes and its result is opaque, so that a branch on it ends the
// evaluation as undecided.
func (it *c37iinterp) modelled(fn *ssa.Function, args []c37ival) (c37ival, bool) {
	path := c37ipkgPath(fn)
	if path == modPath || strings.HasPrefix(path, modPath+"/") || c37ievalStd[path] {
		return nil, false
	}
	switch fn.String() {
	case "(*sync.Mutex).Lock", "(*sync.RWMutex).Lock", "(*sync.RWMutex).RLock":
		it.lockOp(args[0], true, fn.Name())
		return nil, true
	case "(*sync.Mutex).Unlock", "(*sync.RWMutex).Unlock", "(*sync.RWMutex).RUnlock":
		it.lockOp(args[0], false, fn.Name())
		return nil, true
	case "(*sync.Mutex).TryLock", "(*sync.RWMutex).TryLock":
		if p, ok := args[0].(*c37ival); ok && p != nil && !it.locked[p] {
			it.lockOp(args[0], true, fn.Name())
			return true, true
		}
		return false, true
	}
	switch path + "." + fn.Name() {
	case "fmt.Errorf", "errors.New":
		// a fresh non-nil error whose text is of no interest
		return c37iiface{t: types.Typ[types.String], v: c37iopaque{"error built by " + fn.Name()}}, true
	}
	return c37iopaqueResult(fn.Signature.Results(), "result of "+path+"."+fn.Name()), true
}

// prepareCall evaluates the callee and the arguments of a call now and returns
// the thunk that performs it.
func (fr *c37iframe) prepareCall(cc *ssa.CallCommon, at ssa.Instruction) func() c37ival {
	it := fr.it
	args := make([]c37ival, 0, len(cc.Args)+1)
	if cc.IsInvoke() {
		recv, ok := fr.get(cc.Value).(c37iiface)
		if !ok {
			c37iundecided("method call on a value outside the model at %s", at.String())
		}
		if recv.t == nil {
			c37ipanic("method call on nil interface at %s", at.String())
		}
		if _, op := recv.v.(c37iopaque); op {
			c37iundecided("method %s called on %s", cc.Method.Name(), recv.v.(c37iopaque).what)
		}
		m := it.prog.LookupMethod(recv.t, cc.Method.Pkg(), cc.Method.Name())
		if m == nil {
			c37iundecided("method %s of %s not found", cc.Method.Name(), recv.t.String())
		}
		args = append(args, recv.v)
		for _, a := range cc.Args {
			args = append(args, fr.get(a))
		}
		return func() c37ival { return it.callFn(m, args, nil) }
	}
	for _, a := range cc.Args {
		args = append(args, fr.get(a))
	}
	switch callee := cc.Value.(type) {
	case *ssa.Builtin:
		return func() c37ival { return fr.builtin(callee, cc, args, at) }
	case *ssa.Function:
		return func() c37ival { return it.callFn(callee, args, nil) }
	}
	switch cl := fr.get(cc.Value).(type) {
	case *c37iclosure:
		if cl == nil {
			c37ipanic("call of nil function at %s", at.String())
		}
		return func() c37ival { return it.callFn(cl.fn, args, cl.fv) }
	case c37iopaque:
		c37iundecided("call of %s", cl.what)
	}
	c37iundecided("call of a value outside the model at %s", at.String())
	return nil
}

func c37ilen(v c37ival, at ssa.Instruction) int64 {
	switch x := v.(type) {
	case string:
		return int64(len(x))
	case []c37ival:
		return int64(len(x))
	case *c37imap:
		if x == nil {
			return 0
		}
		return int64(len(x.m))
	case c37iarray:
		return int64(len(x))
	case *c37ival:
		if x != nil {
			if a, ok := (*x).(c37iarray); ok {
				return int64(len(a))
			}
		}
	case c37iopaque:
		c37iundecided("len of %s", x.what)
	}
	c37iundecided("len of a value outside the model at %s", at.String())
	return 0
}

func (fr *c37iframe) builtin(b *ssa.Builtin, cc *ssa.CallCommon, args []c37ival, at ssa.Instruction) c37ival {
	switch b.Name() {
	case "close":
		fr.it.closeChan(args[0], at)
		return nil
	case "len":
		if ch, ok := args[0].(*c37ichan); ok {
			if ch == nil {
				return int64(0)
			}
			return int64(len(ch.buf))
		}
		return c37ilen(args[0], at)
	case "cap":
		if ch, ok := args[0].(*c37ichan); ok {
			if ch == nil {
				return int64(0)
			}
			return int64(ch.cap)
		}
		if s, ok := args[0].([]c37ival); ok {
			return int64(cap(s))
		}
		return c37ilen(args[0], at)
	case "append":
		s, ok := args[0].([]c37ival)
		if !ok {
			c37iundecided("append to a value outside the model at %s", at.String())
		}
		switch t := args[1].(type) {
		case []c37ival:
			if len(t) == 0 {
				return s
			}
			for _, e := range t {
				s = append(s, c37icopy(e))
			}
			return s
		case string:
			for i := 0; i < len(t); i++ {
				s = append(s, int64(t[i]))
			}
			return s
		}
		c37iundecided("append of a value outside the model at %s", at.String())
	case "copy":
		d, ok := args[0].([]c37ival)
		if !ok {
			c37iundecided("copy to a value outside the model at %s", at.String())
		}
		switch s := args[1].(type) {
		case []c37ival:
			n := min(len(d), len(s))
			tmp := make([]c37ival, n)
			for i := 0; i < n; i++ {
				tmp[i] = c37icopy(s[i])
			}
			for i := 0; i < n; i++ {
				c37istore(&d[i], tmp[i])
			}
			return int64(n)
		case string:
			n := min(len(d), len(s))
			for i := 0; i < n; i++ {
				d[i] = int64(s[i])
			}
			return int64(n)
		}
		c37iundecided("copy from a value outside the model at %s", at.String())
	case "delete":
		if m, _ := args[0].(*c37imap); m != nil {
			k := c37ikey(args[1])
			if _, ok := m.m[k]; ok {
				delete(m.m, k)
				for i, kk := range m.keys {
					if kk == k {
						m.keys = append(m.keys[:i:i], m.keys[i+1:]...)
						break
					}
				}
			}
		}
		return nil
	case "clear":
		switch x := args[0].(type) {
		case *c37imap:
			if x != nil {
				x.m, x.keys = map[any]c37ival{}, nil
			}
		case []c37ival:
			if len(x) > 0 {
				et := cc.Args[0].Type().Underlying().(*types.Slice).Elem()
				for i := range x {
					c37istore(&x[i], c37izero(et))
				}
			}
		}
		return nil
	case "min", "max":
		best := args[0]
		for _, a := range args[1:] {
			less := false
			switch x := a.(type) {
			case int64:
				less = x < best.(int64)
			case string:
				less = x < best.(string)
			default:
				c37iundecided("%s of a value outside the model", b.Name())
			}
			if less == (b.Name() == "min") && !c37iequal(a, best) {
				best = a
			}
		}
		return best
	case "recover":
		return c37iiface{}
	case "print", "println":
		return nil
	case "ssa:wrapnilchk":
		if p, ok := args[0].(*c37ival); ok && p == nil {
			c37ipanic("nil receiver at %s", at.String())
		}
		return args[0]
	}
	c37iundecided("builtin %s not modelled", b.Name())
	return nil
}

func (fr *c37iframe) eval(v ssa.Value, at ssa.Instruction) c37ival {
	switch x := v.(type) {
	case *ssa.Alloc:
		p := new(c37ival)
		*p = c37izero(x.Type().(*types.Pointer).Elem())
		return p
	case *ssa.Call:
		return fr.prepareCall(x.Common(), x)()
	case *ssa.BinOp:
		return fr.binop(x)
	case *ssa.UnOp:
		switch x.Op {
		case token.MUL:
			return c37icopy(*c37ideref(fr.get(x.X), x))
		case token.NOT:
			switch b := fr.get(x.X).(type) {
			case bool:
				return !b
			case c37iopaque:
				return b
			}
		case token.ARROW:
			et := x.X.Type().Underlying().(*types.Chan).Elem()
			v, ok := fr.it.recv(fr.get(x.X), et, x)
			if x.CommaOk {
				return c37ituple{v, ok}
			}
			return v
		case token.SUB:
			return c37iwrap(x.Type(), -fr.int(x.X))
		case token.XOR:
			return c37iwrap(x.Type(), ^fr.int(x.X))
		}
		c37iundecided("operator %s not modelled", x.String())
	case *ssa.ChangeType:
		return fr.get(x.X)
	case *ssa.ChangeInterface:
		return fr.get(x.X)
	case *ssa.MakeInterface:
		return c37iiface{t: x.X.Type(), v: fr.get(x.X)}
	case *ssa.Convert:
		return fr.convert(x)
	case *ssa.Extract:
		switch t := fr.get(x.Tuple).(type) {
		case c37ituple:
			return t[x.Index]
		case c37iopaque:
			return t
		}
		c37iundecided("extract from a non-tuple at %s", x.String())
	case *ssa.Field:
		switch s := fr.get(x.X).(type) {
		case c37istruct:
			return c37icopy(s[x.Field])
		case c37iopaque:
			return s
		}
		c37iundecided("field of a value outside the model at %s", x.String())
	case *ssa.FieldAddr:
		p := c37ideref(fr.get(x.X), x)
		s, ok := (*p).(c37istruct)
		if !ok {
			c37iundecided("field address in a value outside the model at %s", x.String())
		}
		return &s[x.Field]
	case *ssa.IndexAddr:
		k := fr.int(x.Index)
		switch b := fr.get(x.X).(type) {
		case []c37ival:
			if k < 0 || k >= int64(len(b)) {
				c37ipanic("index %d out of range [0,%d) at %s", k, len(b), x.String())
			}
			return &b[k]
		case *c37ival:
			a, ok := (*c37ideref(b, x)).(c37iarray)
			if ok {
				if k < 0 || k >= int64(len(a)) {
					c37ipanic("index %d out of range [0,%d) at %s", k, len(a), x.String())
				}
				return &a[k]
			}
		case c37iopaque:
			c37iundecided("indexing of %s", b.what)
		}
		c37iundecided("indexing of a value outside the model at %s", x.String())
	case *ssa.Index:
		k := fr.int(x.Index)
		switch b := fr.get(x.X).(type) {
		case c37iarray:
			if k < 0 || k >= int64(len(b)) {
				c37ipanic("index out of range at %s", x.String())
			}
			return c37icopy(b[k])
		case string:
			if k < 0 || k >= int64(len(b)) {
				c37ipanic("index out of range at %s", x.String())
			}
			return int64(b[k])
		}
		c37iundecided("indexing of a value outside the model at %s", x.String())
	case *ssa.Lookup:
		switch m := fr.get(x.X).(type) {
		case string:
			k := fr.int(x.Index)
			if k < 0 || k >= int64(len(m)) {
				c37ipanic("index out of range at %s", x.String())
			}
			return int64(m[k])
		case *c37imap:
			var val c37ival
			found := false
			if m != nil {
				val, found = m.m[c37ikey(fr.get(x.Index))]
			}
			if !found {
				val = c37izero(x.X.Type().Underlying().(*types.Map).Elem())
			}
			if x.CommaOk {
				return c37ituple{c37icopy(val), found}
			}
			return c37icopy(val)
		case c37iopaque:
			c37iundecided("lookup in %s", m.what)
		}
		c37iundecided("lookup in a value outside the model at %s", x.String())
	case *ssa.Slice:
		return fr.slice(x)
	case *ssa.MakeSlice:
		n, cp := fr.int(x.Len), fr.int(x.Cap)
		if n < 0 || cp < n || cp > 1<<16 {
			c37ipanic("makeslice: len/cap out of range at %s", x.String())
		}
		s := make([]c37ival, n, cp)
		et := x.Type().Underlying().(*types.Slice).Elem()
		full := s[:cp]
		for i := range full {
			full[i] = c37izero(et)
		}
		return s
	case *ssa.MakeMap:
		return &c37imap{m: map[any]c37ival{}}
	case *ssa.MakeChan:
		n := fr.int(x.Size)
		if n < 0 || n > 1<<16 {
			c37ipanic("makechan: size out of range at %s", x.String())
		}
		ch := fr.it.newChan(int(n), x.Type().Underlying().(*types.Chan).Elem())
		fr.it.emit(c37ievent{kind: "makechan", ch: ch, at: x})
		return ch
	case *ssa.Select:
		return fr.selectStmt(x)
	case *ssa.MakeClosure:
		cl := &c37iclosure{fn: x.Fn.(*ssa.Function)}
		for _, b := range x.Bindings {
			cl.fv = append(cl.fv, fr.get(b))
		}
		return cl
	case *ssa.TypeAssert:
		return fr.typeAssert(x)
	case *ssa.Range:
		switch c := fr.get(x.X).(type) {
		case *c37imap:
			itr := &c37iiter{m: c}
			if c != nil {
				itr.keys = append([]any(nil), c.keys...)
			}
			return itr
		case string:
			return &c37iiter{isS: true, str: []rune(c)}
		}
		c37iundecided("range over a value outside the model at %s", x.String())
	case *ssa.Next:
		itr, ok := fr.get(x.Iter).(*c37iiter)
		if !ok {
			c37iundecided("iterator outside the model at %s", x.String())
		}
		if itr.isS {
			if itr.pos >= len(itr.str) {
				return c37ituple{false, int64(0), int64(0)}
			}
			off := len(string(itr.str[:itr.pos]))
			r := itr.str[itr.pos]
			itr.pos++
			return c37ituple{true, int64(off), int64(r)}
		}
		for itr.pos < len(itr.keys) {
			k := itr.keys[itr.pos]
			itr.pos++
			if val, ok := itr.m.m[k]; ok {
				var kv c37ival = k
				if o, ok := itr.m.orig[k]; ok {
					kv = c37icopy(o)
				}
				return c37ituple{true, kv, c37icopy(val)}
			}
		}
		mt := x.Iter.(*ssa.Range).X.Type().Underlying().(*types.Map)
		return c37ituple{false, c37izero(mt.Key()), c37izero(mt.Elem())}
	}
	c37iundecided("instruction %s in %s not modelled", at.String(), fr.fn.Name())
	return nil
}

func (fr *c37iframe) typeAssert(x *ssa.TypeAssert) c37ival {
	var i c37iiface
	switch t := fr.get(x.X).(type) {
	case c37iiface:
		i = t
	case c37iopaque:
		c37iundecided("type assertion on %s", t.what)
	default:
		c37iundecided("type assertion on a value outside the model at %s", x.String())
	}
	if _, op := i.v.(c37iopaque); op && i.t != nil {
		c37iundecided("type assertion on %s", i.v.(c37iopaque).what)
	}
	ok := false
	var res c37ival
	if it, isI := x.AssertedType.Underlying().(*types.Interface); isI {
		ok = i.t != nil && types.Implements(i.t, it)
		if ok {
			res = i
		} else {
			res = c37iiface{}
		}
	} else {
		ok = i.t != nil && types.Identical(i.t, x.AssertedType)
		if ok {
			res = i.v
		} else {
			res = c37izero(x.AssertedType)
		}
	}
	if x.CommaOk {
		return c37ituple{res, ok}
	}
	if !ok {
		c37ipanic("failed type assertion at %s", x.String())
	}
	return res
}

func (fr *c37iframe) slice(x *ssa.Slice) (res c37ival) {
	defer func() {
		if r := recover(); r != nil {
			if s, ok := r.(c37istop); ok {
				panic(s)
			}
			c37ipanic("slice bounds out of range at %s", x.String())
		}
	}()
	opt := func(v ssa.Value, def int) int {
		if v == nil {
			return def
		}
		return int(fr.int(v))
	}
	switch b := fr.get(x.X).(type) {
	case string:
		return b[opt(x.Low, 0):opt(x.High, len(b))]
	case []c37ival:
		lo, hi := opt(x.Low, 0), opt(x.High, len(b))
		if x.Max != nil {
			return b[lo:hi:opt(x.Max, 0)]
		}
		return b[lo:hi]
	case *c37ival:
		a, ok := (*c37ideref(b, x)).(c37iarray)
		if ok {
			s := []c37ival(a)
			lo, hi := opt(x.Low, 0), opt(x.High, len(s))
			if x.Max != nil {
				return s[lo:hi:opt(x.Max, 0)]
			}
			return s[lo:hi]
		}
	case c37iopaque:
		c37iundecided("slicing of %s", b.what)
	}
	c37iundecided("slicing of a value outside the model at %s", x.String())
	return nil
}

func (fr *c37iframe) convert(x *ssa.Convert) c37ival {
	v := fr.get(x.X)
	from, to := x.X.Type().Underlying(), x.Type().Underlying()
	fb, _ := from.(*types.Basic)
	tb, _ := to.(*types.Basic)
	switch {
	case fb != nil && tb != nil && fb.Info()&types.IsInteger != 0 && tb.Info()&types.IsInteger != 0:
		if n, ok := v.(int64); ok {
			return c37iwrap(x.Type(), n)
		}
	case fb != nil && tb != nil && fb.Info()&types.IsString != 0 && tb.Info()&types.IsString != 0:
		return v
	case fb != nil && fb.Info()&types.IsString != 0 && tb == nil:
		if s, ok := v.(string); ok {
			if sl, isSl := to.(*types.Slice); isSl {
				if eb, _ := sl.Elem().Underlying().(*types.Basic); eb != nil && eb.Kind() == types.Uint8 {
					out := make([]c37ival, len(s))
					for i := 0; i < len(s); i++ {
						out[i] = int64(s[i])
					}
					return out
				}
			}
		}
	case tb != nil && tb.Info()&types.IsString != 0 && fb == nil:
		if s, ok := v.([]c37ival); ok {
			if sl, isSl := from.(*types.Slice); isSl {
				if eb, _ := sl.Elem().Underlying().(*types.Basic); eb != nil && eb.Kind() == types.Uint8 {
					var sb strings.Builder
					for _, e := range s {
						n, ok := e.(int64)
						if !ok {
							c37iundecided("conversion of unknown bytes to string")
						}
						sb.WriteByte(byte(n))
					}
					return sb.String()
				}
			}
		}
	case tb != nil && tb.Info()&types.IsString != 0 && fb != nil && fb.Info()&types.IsInteger != 0:
		if n, ok := v.(int64); ok {
			return string(rune(n))
		}
	}
	if o, ok := v.(c37iopaque); ok {
		return o
	}
	if _, isPtr := to.(*types.Pointer); isPtr {
		return v
	}
	return c37iopaque{"conversion " + x.String()}
}

func (fr *c37iframe) binop(x *ssa.BinOp) c37ival {
	a, b := fr.get(x.X), fr.get(x.Y)
	if x.Op == token.EQL {
		return c37iequal(a, b)
	}
	if x.Op == token.NEQ {
		return !c37iequal(a, b)
	}
	if o, ok := a.(c37iopaque); ok {
		return o
	}
	if o, ok := b.(c37iopaque); ok {
		return o
	}
	switch p := a.(type) {
	case string:
		q, ok := b.(string)
		if !ok {
			break
		}
		switch x.Op {
		case token.ADD:
			return p + q
		case token.LSS:
			return p < q
		case token.LEQ:
			return p <= q
		case token.GTR:
			return p > q
		case token.GEQ:
			return p >= q
		}
	case int64:
		q, ok := b.(int64)
		if !ok {
			break
		}
		uns := c37iisUnsigned(x.X.Type())
		switch x.Op {
		case token.ADD:
			return c37iwrap(x.Type(), p+q)
		case token.SUB:
			return c37iwrap(x.Type(), p-q)
		case token.MUL:
			return c37iwrap(x.Type(), p*q)
		case token.QUO:
			if q == 0 {
				c37ipanic("division by zero")
			}
			if uns {
				return c37iwrap(x.Type(), int64(uint64(p)/uint64(q)))
			}
			return c37iwrap(x.Type(), p/q)
		case token.REM:
			if q == 0 {
				c37ipanic("division by zero")
			}
			if uns {
				return c37iwrap(x.Type(), int64(uint64(p)%uint64(q)))
			}
			return c37iwrap(x.Type(), p%q)
		case token.AND:
			return p & q
		case token.OR:
			return p | q
		case token.XOR:
			return c37iwrap(x.Type(), p^q)
		case token.AND_NOT:
			return p &^ q
		case token.SHL:
			if q < 0 {
				c37ipanic("negative shift")
			}
			if q >= 64 {
				return int64(0)
			}
			return c37iwrap(x.Type(), p<<uint(q))
		case token.SHR:
			if q < 0 {
				c37ipanic("negative shift")
			}
			if uns {
				if q >= 64 {
					return int64(0)
				}
				return int64(uint64(p) >> uint(q))
			}
			if q >= 64 {
				q = 63
			}
			return p >> uint(q)
		case token.LSS:
			if uns {
				return uint64(p) < uint64(q)
			}
			return p < q
		case token.LEQ:
			if uns {
				return uint64(p) <= uint64(q)
			}
			return p <= q
		case token.GTR:
			if uns {
				return uint64(p) > uint64(q)
			}
			return p > q
		case token.GEQ:
			if uns {
				return uint64(p) >= uint64(q)
			}
			return p >= q
		}
	case bool:
		q, ok := b.(bool)
		if !ok {
			break
		}
		switch x.Op {
		case token.AND, token.LAND:
			return p && q
		case token.OR, token.LOR:
			return p || q
		}
	}
	c37iundecided("operator %s not modelled", x.String())
	return nil
}

// selectStmt: the first ready case in source order (the model is deterministic);
// without a ready case a non-blocking select takes its default branch (index
// -1) and a blocking select ends the run as "blocks".
func (fr *c37iframe) selectStmt(x *ssa.Select) c37ival {
	it := fr.it
	res := make(c37ituple, 2)
	var recvTypes []types.Type
	for _, st := range x.States {
		if st.Dir == types.RecvOnly {
			recvTypes = append(recvTypes, st.Chan.Type().Underlying().(*types.Chan).Elem())
		}
	}
	for _, t := range recvTypes {
		res = append(res, c37izero(t))
	}
	res[0], res[1] = int64(-1), false
	for i, st := range x.States {
		ch, ok := fr.get(st.Chan).(*c37ichan)
		if !ok {
			c37iundecided("select on a value outside the model at %s", x.String())
		}
		if ch == nil {
			continue
		}
		if st.Dir == types.SendOnly {
			if ch.closed || len(ch.buf) < ch.cap {
				it.send(ch, fr.get(st.Send), x)
				res[0] = int64(i)
				return res
			}
			continue
		}
		if len(ch.buf) > 0 || ch.closed {
			et := st.Chan.Type().Underlying().(*types.Chan).Elem()
			v, rok := it.recv(ch, et, x)
			res[0], res[1] = int64(i), rok
			k := 2
			for j, s2 := range x.States[:i+1] {
				if s2.Dir == types.RecvOnly {
					if j == i {
						res[k] = v
					}
					k++
				}
			}
			return res
		}
	}
	if x.Blocking {
		it.emit(c37ievent{kind: "send", blocked: true, at: x})
		c37iblocks("select without a ready case blocks")
	}
	return res
}
