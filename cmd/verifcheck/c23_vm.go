package main

import (
	"fmt"
	"go/constant"
	"go/token"
	"go/types"
	"strings"

	"golang.org/x/tools/go/ssa"
)

// Concrete SSA evaluation for C23 (finite-domain evaluation taken to its end:
// every input of the grid is ONE concrete value, so nothing has to be matched
// in the code's shape).
//
// A function of the module is evaluated instruction by instruction over
// concrete values: fixed-width integers, booleans, strings, slices (a view
// {memory, offset, len, cap} — the memory may be VIRTUAL: an explicit prefix
// followed by a fill value, so that a 4 GiB input costs nothing), pointers to
// locals / elements / fields, structs, arrays, tuples, interface values and
// closures. Static callees inside the module are evaluated in their own frame
// (any depth of helpers), so a fact observed at an entry point reads the same
// however the code below it is factored, named or ordered. Outside the module
// only the Go bodies of a few pure byte/slice packages (c23pureStd) are
// evaluated, math/bits is folded, and the rule's model hook may answer a call
// (c23libModel: time, math/big, errors); every other call yields the value
// `unknown`, which propagates through operators; a branch, an address or an
// index that depends on `unknown` ends the run as "undecided" (never a silent
// pass). Maps with scalar keys, defer (normal path) and method calls through
// interface values of known dynamic type are supported. Nothing of
// the checked tree is compiled or run; this is an evaluator over go/ssa inside
// the checker. int is 64-bit.

type c23val interface{}

type c23unk struct{} // unknown value

type c23mem struct {
	elems []c23val // explicit prefix
	fill  c23val   // every element beyond the prefix
	n     int64    // number of elements
}

func (m *c23mem) get(i int64) c23val {
	if i < int64(len(m.elems)) {
		return m.elems[i]
	}
	return m.fill
}

func (m *c23mem) clone() *c23mem {
	c := &c23mem{fill: m.fill, n: m.n, elems: make([]c23val, len(m.elems))}
	for i, e := range m.elems {
		c.elems[i] = c23clone(e)
	}
	return c
}

type c23slice struct {
	m        *c23mem // nil: nil slice
	off      int64
	len, cap int64
}

type c23cell struct{ v c23val }

type c23struct struct{ f []c23val }

// c23ptr: exactly one of cell / (m, idx) / (st, fld) is set; the zero value is nil.
type c23ptr struct {
	cell *c23cell
	m    *c23mem
	idx  int64
	st   *c23struct
	fld  int
}

func (p c23ptr) isNil() bool { return p.cell == nil && p.m == nil && p.st == nil }

type c23iface struct {
	t types.Type // nil: nil interface
	v c23val
}

type c23closure struct {
	fn   *ssa.Function
	free []c23val
}

type c23nilref struct{} // nil map / chan / func

// c23stop ends a run: kind "panic" (the evaluated program panics) or
// "undecided" (the evaluation left its domain).
type c23stop struct {
	kind string
	why  string
	at   ssa.Instruction
}

type c23vm struct {
	steps    int
	maxSteps int
	globals  map[*ssa.Global]*c23cell
	// model, when set, may supply the result of a call the evaluator does not
	// enter (a function outside the module); ok=false leaves it unknown.
	model func(vm *c23vm, callee string, args []c23val) (c23val, bool)
	// called counts the module functions entered (by name), for rules that must
	// know whether a run went through a given stage.
	entered map[string]int
	// unknownCalls lists the callees that were left unevaluated on this run.
	unknownCalls []string
	// prog, when set, resolves method calls through interface values whose
	// dynamic type is known.
	prog *ssa.Program
}

// c23map: a map with integer, boolean or string keys.
type c23map struct{ m map[interface{}]c23val }

func c23clone(v c23val) c23val {
	switch x := v.(type) {
	case *c23struct:
		c := &c23struct{f: make([]c23val, len(x.f))}
		for i, e := range x.f {
			c.f[i] = c23clone(e)
		}
		return c
	case *c23mem: // array value
		return x.clone()
	}
	return v
}

func c23zero(t types.Type) c23val {
	switch u := t.Underlying().(type) {
	case *types.Basic:
		switch {
		case u.Info()&types.IsBoolean != 0:
			return false
		case u.Info()&types.IsInteger != 0:
			return int64(0)
		case u.Info()&types.IsString != 0:
			return ""
		}
		if u.Kind() == types.UnsafePointer {
			return c23ptr{}
		}
		return c23unk{}
	case *types.Pointer:
		return c23ptr{}
	case *types.Slice:
		return c23slice{}
	case *types.Struct:
		s := &c23struct{f: make([]c23val, u.NumFields())}
		for i := range s.f {
			s.f[i] = c23zero(u.Field(i).Type())
		}
		return s
	case *types.Array:
		m := &c23mem{n: u.Len(), fill: c23zero(u.Elem())}
		if u.Len() <= 1<<12 {
			m.elems = make([]c23val, u.Len())
			for i := range m.elems {
				m.elems[i] = c23zero(u.Elem())
			}
		}
		return m
	case *types.Interface:
		return c23iface{}
	case *types.Map, *types.Chan, *types.Signature:
		return c23nilref{}
	}
	return c23unk{}
}

func c23isUnk(v c23val) bool { _, ok := v.(c23unk); return ok }

func (vm *c23vm) stop(kind string, at ssa.Instruction, format string, a ...interface{}) {
	panic(c23stop{kind: kind, why: fmt.Sprintf(format, a...), at: at})
}

// run evaluates fn(args...). end is "return", "panic" or "undecided".
func (vm *c23vm) run(fn *ssa.Function, args []c23val) (res c23val, end string, why string) {
	defer func() {
		if r := recover(); r != nil {
			st, ok := r.(c23stop)
			if !ok {
				panic(r)
			}
			res, end, why = nil, st.kind, st.why
		}
	}()
	if vm.maxSteps == 0 {
		vm.maxSteps = 200000
	}
	if vm.globals == nil {
		vm.globals = map[*ssa.Global]*c23cell{}
	}
	if vm.entered == nil {
		vm.entered = map[string]int{}
	}
	return vm.call(fn, args, nil, 0), "return", ""
}

type c23frame struct {
	fn   *ssa.Function
	env  map[ssa.Value]c23val
	free []c23val
}

func (vm *c23vm) inModule(f *ssa.Function) bool {
	if f == nil || len(f.Blocks) == 0 {
		return false
	}
	return strings.HasPrefix(c23pkgOf(f), modPath)
}

var c23pureStd = map[string]bool{
	"encoding/binary": true, "bytes": true, "slices": true, "crypto/subtle": true, "cmp": true,
	"strings": true, "unicode/utf8": true, "internal/byteorder": true, "crypto/internal/fips140/subtle": true,
	"crypto/internal/fips140deps/byteorder": true, "crypto/internal/constanttime": true,
}

func c23pkgOf(f *ssa.Function) string {
	g := f
	for g.Parent() != nil {
		g = g.Parent()
	}
	if g.Origin() != nil {
		g = g.Origin()
	}
	if g.Pkg == nil {
		// synthetic wrappers (bound methods, thunks) belong to their method's package
		if o := g.Object(); o != nil && o.Pkg() != nil {
			return o.Pkg().Path()
		}
		return ""
	}
	return g.Pkg.Pkg.Path()
}

func c23mapKey(k c23val) bool {
	switch k.(type) {
	case int64, bool, string:
		return true
	}
	return false
}

func (vm *c23vm) call(fn *ssa.Function, args []c23val, free []c23val, depth int) c23val {
	if depth > 60 {
		vm.stop("undecided", nil, "call depth exceeded in %s", fn.Name())
	}
	vm.entered[fn.Name()]++
	fr := &c23frame{fn: fn, env: map[ssa.Value]c23val{}, free: free}
	for i, p := range fn.Params {
		if i < len(args) {
			fr.env[p] = args[i]
		} else {
			fr.env[p] = c23unk{}
		}
	}
	var pred *ssa.BasicBlock
	b := fn.Blocks[0]
	var defers []func()
	for {
		// phis: parallel assignment
		if pred != nil {
			idx := -1
			for i, p := range b.Preds {
				if p == pred {
					idx = i
				}
			}
			var phis []*ssa.Phi
			var vals []c23val
			for _, in := range b.Instrs {
				ph, ok := in.(*ssa.Phi)
				if !ok {
					break
				}
				phis = append(phis, ph)
				vals = append(vals, vm.get(fr, ph.Edges[idx]))
			}
			for i, ph := range phis {
				fr.env[ph] = vals[i]
			}
		}
		var next *ssa.BasicBlock
		for _, in := range b.Instrs {
			vm.steps++
			if vm.steps > vm.maxSteps {
				vm.stop("undecided", in, "step bound exceeded in %s", fn.Name())
			}
			switch x := in.(type) {
			case *ssa.Phi, *ssa.DebugRef:
			case *ssa.Alloc:
				fr.env[x] = c23ptr{cell: &c23cell{v: c23zero(x.Type().Underlying().(*types.Pointer).Elem())}}
			case *ssa.UnOp:
				fr.env[x] = vm.unop(fr, x)
			case *ssa.BinOp:
				fr.env[x] = vm.binop(x, vm.get(fr, x.X), vm.get(fr, x.Y))
			case *ssa.ChangeType:
				fr.env[x] = vm.get(fr, x.X)
			case *ssa.ChangeInterface:
				fr.env[x] = vm.get(fr, x.X)
			case *ssa.Convert:
				fr.env[x] = vm.convert(x, vm.get(fr, x.X))
			case *ssa.MakeInterface:
				fr.env[x] = c23iface{t: x.X.Type(), v: vm.get(fr, x.X)}
			case *ssa.MakeClosure:
				cl := &c23closure{fn: x.Fn.(*ssa.Function)}
				for _, bnd := range x.Bindings {
					cl.free = append(cl.free, vm.get(fr, bnd))
				}
				fr.env[x] = cl
			case *ssa.MakeSlice:
				n, ok1 := vm.get(fr, x.Len).(int64)
				cp, ok2 := vm.get(fr, x.Cap).(int64)
				if !ok1 || !ok2 {
					fr.env[x] = c23unk{}
					break
				}
				if n < 0 || cp < n {
					vm.stop("panic", x, "makeslice: len out of range (%d)", n)
				}
				et := x.Type().Underlying().(*types.Slice).Elem()
				m := &c23mem{n: cp, fill: c23zero(et)}
				if cp <= 1<<16 {
					m.elems = make([]c23val, cp)
					for i := range m.elems {
						m.elems[i] = c23zero(et)
					}
				}
				fr.env[x] = c23slice{m: m, len: n, cap: cp}
			case *ssa.MakeMap:
				fr.env[x] = &c23map{m: map[interface{}]c23val{}}
			case *ssa.MapUpdate:
				mp, ok := vm.get(fr, x.Map).(*c23map)
				k := vm.get(fr, x.Key)
				if !ok || !c23mapKey(k) {
					vm.stop("undecided", x, "update of an unknown map or with an unknown key")
				}
				mp.m[k] = c23clone(vm.get(fr, x.Value))
			case *ssa.MakeChan:
				fr.env[x] = c23unk{}
			case *ssa.FieldAddr:
				p, ok := vm.get(fr, x.X).(c23ptr)
				if !ok {
					vm.stop("undecided", x, "field of an unknown pointer")
				}
				if p.isNil() {
					vm.stop("panic", x, "nil pointer dereference")
				}
				st, ok := vm.deref(p, x).(*c23struct)
				if !ok {
					vm.stop("undecided", x, "field of an unknown record")
				}
				fr.env[x] = c23ptr{st: st, fld: x.Field}
			case *ssa.Field:
				if st, ok := vm.get(fr, x.X).(*c23struct); ok {
					fr.env[x] = st.f[x.Field]
				} else {
					fr.env[x] = c23unk{}
				}
			case *ssa.IndexAddr:
				fr.env[x] = vm.indexAddr(fr, x)
			case *ssa.Index:
				i, okI := vm.get(fr, x.Index).(int64)
				switch bv := vm.get(fr, x.X).(type) {
				case *c23mem:
					if !okI {
						vm.stop("undecided", x, "unknown index")
					}
					if i < 0 || i >= bv.n {
						vm.stop("panic", x, "index out of range [%d] with length %d", i, bv.n)
					}
					fr.env[x] = bv.get(i)
				default:
					fr.env[x] = c23unk{}
				}
			case *ssa.Lookup:
				if mt, isMap := x.X.Type().Underlying().(*types.Map); isMap {
					k := vm.get(fr, x.Index)
					var mp *c23map
					switch mv := vm.get(fr, x.X).(type) {
					case *c23map:
						mp = mv
					case c23nilref:
						mp = &c23map{}
					}
					if mp == nil || !c23mapKey(k) {
						fr.env[x] = c23unk{}
						break
					}
					v, found := mp.m[k]
					if !found {
						v = c23zero(mt.Elem())
					}
					if x.CommaOk {
						fr.env[x] = []c23val{c23clone(v), found}
					} else {
						fr.env[x] = c23clone(v)
					}
					break
				}
				s, okS := vm.get(fr, x.X).(string)
				i, okI := vm.get(fr, x.Index).(int64)
				if okS && okI && !x.CommaOk {
					if i < 0 || i >= int64(len(s)) {
						vm.stop("panic", x, "index out of range [%d] with length %d", i, len(s))
					}
					fr.env[x] = int64(s[i])
				} else {
					fr.env[x] = c23unk{}
				}
			case *ssa.Slice:
				fr.env[x] = vm.slice(fr, x)
			case *ssa.Extract:
				if tp, ok := vm.get(fr, x.Tuple).([]c23val); ok && x.Index < len(tp) {
					fr.env[x] = tp[x.Index]
				} else {
					fr.env[x] = c23unk{}
				}
			case *ssa.TypeAssert:
				fr.env[x] = vm.typeAssert(fr, x)
			case *ssa.Store:
				p, ok := vm.get(fr, x.Addr).(c23ptr)
				if !ok {
					vm.stop("undecided", x, "store through an unknown pointer")
				}
				if p.isNil() {
					vm.stop("panic", x, "nil pointer dereference")
				}
				vm.storeTo(p, c23clone(vm.get(fr, x.Val)), x)
			case *ssa.Call:
				fr.env[x] = vm.doCall(fr, x, &x.Call, depth)
			case *ssa.Defer:
				dargs, dfv := vm.prepCall(fr, &x.Call)
				dcc := &x.Call
				var drt types.Type = types.NewTuple()
				if dcc.Signature().Results().Len() == 1 {
					drt = dcc.Signature().Results().At(0).Type()
				}
				defers = append(defers, func() { vm.apply(x, drt, dcc, dargs, dfv, depth) })
			case *ssa.RunDefers:
				for len(defers) > 0 {
					d := defers[len(defers)-1]
					defers = defers[:len(defers)-1]
					d()
				}
			case *ssa.Go, *ssa.Send, *ssa.Select, *ssa.Range, *ssa.Next:
				vm.stop("undecided", in, "%T is outside the evaluated subset", in)
			case *ssa.Return:
				switch len(x.Results) {
				case 0:
					return nil
				case 1:
					return vm.get(fr, x.Results[0])
				}
				tp := make([]c23val, len(x.Results))
				for i, r := range x.Results {
					tp[i] = vm.get(fr, r)
				}
				return tp
			case *ssa.Panic:
				msg := "panic"
				if iv, ok := vm.get(fr, x.X).(c23iface); ok {
					if s, isS := iv.v.(string); isS {
						msg = "panic(" + s + ")"
					}
				}
				vm.stop("panic", x, "%s", msg)
			case *ssa.Jump:
				next = b.Succs[0]
			case *ssa.If:
				cv, ok := vm.get(fr, x.Cond).(bool)
				if !ok {
					vm.stop("undecided", x, "a branch in %s depends on a value the evaluation does not know (%s)", fn.Name(), strings.Join(vm.unknownCalls, ", "))
				}
				if cv {
					next = b.Succs[0]
				} else {
					next = b.Succs[1]
				}
			default:
				if v, isV := in.(ssa.Value); isV {
					fr.env[v] = c23unk{}
				} else {
					vm.stop("undecided", in, "%T is outside the evaluated subset", in)
				}
			}
		}
		if next == nil {
			vm.stop("undecided", nil, "block without terminator in %s", fn.Name())
		}
		pred, b = b, next
	}
}

func (vm *c23vm) get(fr *c23frame, v ssa.Value) c23val {
	switch x := v.(type) {
	case *ssa.Const:
		return c23const(x)
	case *ssa.Global:
		cl, ok := vm.globals[x]
		if !ok {
			// package-level variables are initialised by code that is not
			// evaluated: their content is unknown
			cl = &c23cell{v: c23unk{}}
			if x.Name() == "init$guard" {
				cl.v = false // the package initialiser has not run yet
			}
			if st, isS := x.Type().Underlying().(*types.Pointer).Elem().Underlying().(*types.Struct); isS && st.NumFields() == 0 {
				cl.v = &c23struct{} // binary.BigEndian and the like: nothing to initialise
			}
			vm.globals[x] = cl
		}
		return c23ptr{cell: cl}
	case *ssa.Function:
		return &c23closure{fn: x}
	case *ssa.FreeVar:
		for i, fv := range fr.fn.FreeVars {
			if fv == x && i < len(fr.free) {
				return fr.free[i]
			}
		}
		return c23unk{}
	case *ssa.Builtin:
		return c23unk{}
	}
	if r, ok := fr.env[v]; ok {
		return r
	}
	return c23unk{}
}

func c23const(x *ssa.Const) c23val {
	if x.Value == nil {
		return c23zero(x.Type())
	}
	switch x.Value.Kind() {
	case constant.Bool:
		return constant.BoolVal(x.Value)
	case constant.String:
		return constant.StringVal(x.Value)
	case constant.Int:
		if _, _, isInt := intBits(x.Type()); !isInt {
			return c23unk{}
		}
		if n, ok := constant.Int64Val(x.Value); ok {
			return wrapTo(n, x.Type())
		}
		if u, ok := constant.Uint64Val(x.Value); ok {
			return int64(u)
		}
	}
	return c23unk{}
}

// deref gives the object a pointer designates, WITHOUT copying (records and
// arrays are updated in place through field / element pointers).
func (vm *c23vm) deref(p c23ptr, at ssa.Instruction) c23val {
	switch {
	case p.cell != nil:
		return p.cell.v
	case p.m != nil:
		if p.idx < 0 || p.idx >= p.m.n {
			vm.stop("panic", at, "index out of range")
		}
		return p.m.get(p.idx)
	case p.st != nil:
		return p.st.f[p.fld]
	}
	vm.stop("panic", at, "nil pointer dereference")
	return nil
}

func (vm *c23vm) storeTo(p c23ptr, v c23val, at ssa.Instruction) {
	switch {
	case p.cell != nil:
		p.cell.v = v
	case p.m != nil:
		if p.idx >= int64(len(p.m.elems)) {
			if p.idx >= 1<<20 || p.idx >= p.m.n {
				vm.stop("undecided", at, "store beyond the explicitly modelled part of a buffer")
			}
			for int64(len(p.m.elems)) <= p.idx {
				p.m.elems = append(p.m.elems, p.m.fill)
			}
		}
		p.m.elems[p.idx] = v
	case p.st != nil:
		p.st.f[p.fld] = v
	}
}

func (vm *c23vm) unop(fr *c23frame, x *ssa.UnOp) c23val {
	v := vm.get(fr, x.X)
	switch x.Op {
	case token.MUL:
		p, ok := v.(c23ptr)
		if !ok {
			return c23unk{}
		}
		if p.isNil() {
			vm.stop("panic", x, "nil pointer dereference")
		}
		return c23clone(vm.deref(p, x))
	case token.NOT:
		if b, ok := v.(bool); ok {
			return !b
		}
	case token.SUB:
		if n, ok := v.(int64); ok {
			return wrapTo(-n, x.Type())
		}
	case token.XOR:
		if n, ok := v.(int64); ok {
			return wrapTo(^n, x.Type())
		}
	}
	return c23unk{}
}

func (vm *c23vm) binop(x *ssa.BinOp, a, b c23val) c23val {
	if c23isUnk(a) || c23isUnk(b) {
		return c23unk{}
	}
	eq := func(r bool) c23val {
		if x.Op == token.NEQ {
			return !r
		}
		return r
	}
	switch av := a.(type) {
	case bool:
		bv, ok := b.(bool)
		if !ok {
			return c23unk{}
		}
		switch x.Op {
		case token.EQL, token.NEQ:
			return eq(av == bv)
		case token.AND, token.LAND:
			return av && bv
		case token.OR, token.LOR:
			return av || bv
		}
		return c23unk{}
	case string:
		bv, ok := b.(string)
		if !ok {
			return c23unk{}
		}
		switch x.Op {
		case token.EQL, token.NEQ:
			return eq(av == bv)
		case token.ADD:
			return av + bv
		case token.LSS:
			return av < bv
		case token.LEQ:
			return av <= bv
		case token.GTR:
			return av > bv
		case token.GEQ:
			return av >= bv
		}
		return c23unk{}
	case c23ptr:
		bv, ok := b.(c23ptr)
		if ok && (x.Op == token.EQL || x.Op == token.NEQ) {
			return eq(av == bv)
		}
		return c23unk{}
	case c23slice:
		bv, ok := b.(c23slice)
		if ok && (x.Op == token.EQL || x.Op == token.NEQ) && (av.m == nil || bv.m == nil) {
			return eq((av.m == nil) == (bv.m == nil))
		}
		return c23unk{}
	case c23iface:
		bv, ok := b.(c23iface)
		if ok && (x.Op == token.EQL || x.Op == token.NEQ) && (av.t == nil || bv.t == nil) {
			return eq((av.t == nil) == (bv.t == nil))
		}
		return c23unk{}
	case c23nilref:
		if _, ok := b.(c23nilref); ok && (x.Op == token.EQL || x.Op == token.NEQ) {
			return eq(true)
		}
		return c23unk{}
	case *c23closure:
		if _, ok := b.(c23nilref); ok && (x.Op == token.EQL || x.Op == token.NEQ) {
			return eq(false)
		}
		return c23unk{}
	case int64:
		bv, ok := b.(int64)
		if !ok {
			return c23unk{}
		}
		bits, uns, isInt := intBits(x.X.Type())
		if !isInt {
			return c23unk{}
		}
		switch x.Op {
		case token.EQL, token.NEQ:
			return eq(av == bv)
		case token.LSS, token.LEQ, token.GTR, token.GEQ:
			lt := av < bv
			if uns {
				lt = uint64(av) < uint64(bv)
			}
			switch x.Op {
			case token.LSS:
				return lt
			case token.LEQ:
				return lt || av == bv
			case token.GTR:
				return !lt && av != bv
			}
			return !lt
		case token.ADD:
			return wrapTo(av+bv, x.Type())
		case token.SUB:
			return wrapTo(av-bv, x.Type())
		case token.MUL:
			return wrapTo(av*bv, x.Type())
		case token.QUO, token.REM:
			if bv == 0 {
				vm.stop("panic", x, "integer divide by zero")
			}
			if uns {
				if x.Op == token.QUO {
					return wrapTo(int64(uint64(av)/uint64(bv)), x.Type())
				}
				return wrapTo(int64(uint64(av)%uint64(bv)), x.Type())
			}
			if x.Op == token.QUO {
				return wrapTo(av/bv, x.Type())
			}
			return wrapTo(av%bv, x.Type())
		case token.AND:
			return wrapTo(av&bv, x.Type())
		case token.OR:
			return wrapTo(av|bv, x.Type())
		case token.XOR:
			return wrapTo(av^bv, x.Type())
		case token.AND_NOT:
			return wrapTo(av&^bv, x.Type())
		case token.SHL, token.SHR:
			_, cntUns, _ := intBits(x.Y.Type())
			cnt := uint64(bv)
			if !cntUns && bv < 0 {
				vm.stop("panic", x, "negative shift amount")
			}
			if x.Op == token.SHL {
				if cnt > 63 {
					return int64(0)
				}
				return wrapTo(av<<cnt, x.Type())
			}
			if uns {
				ua := uint64(av)
				if bits < 64 {
					ua &= uint64(1)<<uint(bits) - 1
				}
				if cnt > 63 {
					return int64(0)
				}
				return int64(ua >> cnt)
			}
			if cnt > 63 {
				cnt = 63
			}
			return av >> cnt
		}
	}
	return c23unk{}
}

func (vm *c23vm) convert(x *ssa.Convert, v c23val) c23val {
	if c23isUnk(v) {
		return v
	}
	_, _, fromInt := intBits(x.X.Type())
	_, _, toInt := intBits(x.Type())
	switch vv := v.(type) {
	case int64:
		if fromInt && toInt {
			return wrapTo(vv, x.Type())
		}
	case c23slice:
		// []byte -> string for small, fully explicit contents
		if b, ok := x.Type().Underlying().(*types.Basic); ok && b.Info()&types.IsString != 0 && vv.len <= 1<<12 {
			buf := make([]byte, vv.len)
			for i := range buf {
				e, isI := vv.m.get(vv.off + int64(i)).(int64)
				if !isI {
					return c23unk{}
				}
				buf[i] = byte(e)
			}
			return string(buf)
		}
	case string:
		if sl, ok := x.Type().Underlying().(*types.Slice); ok {
			if eb, isB := sl.Elem().Underlying().(*types.Basic); isB && eb.Kind() == types.Uint8 {
				m := &c23mem{n: int64(len(vv)), fill: int64(0)}
				for i := 0; i < len(vv); i++ {
					m.elems = append(m.elems, int64(vv[i]))
				}
				return c23slice{m: m, len: m.n, cap: m.n}
			}
		}
		if b, ok := x.Type().Underlying().(*types.Basic); ok && b.Info()&types.IsString != 0 {
			return vv
		}
	case c23ptr:
		return vv
	}
	return c23unk{}
}

func (vm *c23vm) indexAddr(fr *c23frame, x *ssa.IndexAddr) c23val {
	i, okI := vm.get(fr, x.Index).(int64)
	switch bv := vm.get(fr, x.X).(type) {
	case c23slice:
		if !okI {
			vm.stop("undecided", x, "unknown index")
		}
		if i < 0 || i >= bv.len {
			vm.stop("panic", x, "index out of range [%d] with length %d", i, bv.len)
		}
		return c23ptr{m: bv.m, idx: bv.off + i}
	case c23ptr:
		if bv.isNil() {
			vm.stop("panic", x, "nil pointer dereference")
		}
		m, ok := vm.deref(bv, x).(*c23mem)
		if !ok || !okI {
			vm.stop("undecided", x, "element of an unknown array")
		}
		if i < 0 || i >= m.n {
			vm.stop("panic", x, "index out of range [%d] with length %d", i, m.n)
		}
		return c23ptr{m: m, idx: i}
	}
	vm.stop("undecided", x, "element of an unknown sequence")
	return nil
}

func (vm *c23vm) slice(fr *c23frame, x *ssa.Slice) c23val {
	opt := func(v ssa.Value, def int64) (int64, bool) {
		if v == nil {
			return def, true
		}
		n, ok := vm.get(fr, v).(int64)
		return n, ok
	}
	switch bv := vm.get(fr, x.X).(type) {
	case c23slice:
		lo, ok1 := opt(x.Low, 0)
		hi, ok2 := opt(x.High, bv.len)
		mx, ok3 := opt(x.Max, bv.cap)
		if !ok1 || !ok2 || !ok3 {
			vm.stop("undecided", x, "unknown slice bound")
		}
		if lo < 0 || lo > hi || hi > mx || mx > bv.cap {
			vm.stop("panic", x, "slice bounds out of range [%d:%d] with capacity %d", lo, hi, bv.cap)
		}
		if bv.m == nil {
			return c23slice{}
		}
		return c23slice{m: bv.m, off: bv.off + lo, len: hi - lo, cap: mx - lo}
	case string:
		lo, ok1 := opt(x.Low, 0)
		hi, ok2 := opt(x.High, int64(len(bv)))
		if !ok1 || !ok2 {
			vm.stop("undecided", x, "unknown slice bound")
		}
		if lo < 0 || lo > hi || hi > int64(len(bv)) {
			vm.stop("panic", x, "slice bounds out of range [%d:%d] with length %d", lo, hi, len(bv))
		}
		return bv[lo:hi]
	case c23ptr:
		if bv.isNil() {
			vm.stop("panic", x, "nil pointer dereference")
		}
		m, ok := vm.deref(bv, x).(*c23mem)
		if !ok {
			vm.stop("undecided", x, "slice of an unknown array")
		}
		lo, ok1 := opt(x.Low, 0)
		hi, ok2 := opt(x.High, m.n)
		mx, ok3 := opt(x.Max, m.n)
		if !ok1 || !ok2 || !ok3 {
			vm.stop("undecided", x, "unknown slice bound")
		}
		if lo < 0 || lo > hi || hi > mx || mx > m.n {
			vm.stop("panic", x, "slice bounds out of range [%d:%d] with capacity %d", lo, hi, m.n)
		}
		return c23slice{m: m, off: lo, len: hi - lo, cap: mx - lo}
	}
	return c23unk{}
}

func (vm *c23vm) typeAssert(fr *c23frame, x *ssa.TypeAssert) c23val {
	iv, ok := vm.get(fr, x.X).(c23iface)
	if !ok {
		return c23unk{}
	}
	if _, toIface := x.AssertedType.Underlying().(*types.Interface); toIface {
		return c23unk{}
	}
	hit := iv.t != nil && types.Identical(iv.t, x.AssertedType)
	if x.CommaOk {
		if hit {
			return []c23val{iv.v, true}
		}
		return []c23val{c23zero(x.AssertedType), false}
	}
	if !hit {
		vm.stop("panic", x, "interface conversion")
	}
	return iv.v
}

func (vm *c23vm) doCall(fr *c23frame, at *ssa.Call, cc *ssa.CallCommon, depth int) c23val {
	args, fv := vm.prepCall(fr, cc)
	return vm.apply(at, at.Type(), cc, args, fv, depth)
}

// prepCall evaluates the arguments and, for a call through a function value,
// the callee.
func (vm *c23vm) prepCall(fr *c23frame, cc *ssa.CallCommon) ([]c23val, c23val) {
	args := make([]c23val, len(cc.Args))
	for i, a := range cc.Args {
		args[i] = vm.get(fr, a)
	}
	var fv c23val
	if _, isB := cc.Value.(*ssa.Builtin); !isB {
		fv = vm.get(fr, cc.Value) // the function value, or the interface value of an invoke
	}
	return args, fv
}

func (vm *c23vm) apply(at ssa.Instruction, rt types.Type, cc *ssa.CallCommon, args []c23val, fv c23val, depth int) c23val {
	unknown := func(name string) c23val {
		if vm.model != nil {
			if r, ok := vm.model(vm, name, args); ok {
				return r
			}
		}
		vm.unknownCalls = append(vm.unknownCalls, short(name))
		if cc.Signature().Results().Len() == 0 {
			return nil
		}
		return c23unk{}
	}
	if cc.IsInvoke() {
		// a method call through an interface whose dynamic type is known
		if iv, ok := fv.(c23iface); ok && iv.t != nil && vm.prog != nil {
			if sel := vm.prog.MethodSets.MethodSet(iv.t).Lookup(cc.Method.Pkg(), cc.Method.Name()); sel != nil {
				if f := vm.prog.MethodValue(sel); f != nil && vm.inModule(f) {
					return vm.call(f, append([]c23val{iv.v}, args...), nil, depth+1)
				}
			}
		}
		return unknown(calleeName(cc))
	}
	if bi, ok := cc.Value.(*ssa.Builtin); ok {
		return vm.builtin(at, rt, bi.Name(), cc, args)
	}
	cl, _ := fv.(*c23closure)
	if f := cc.StaticCallee(); f != nil {
		if !vm.inModule(f) {
			name := calleeName(cc)
			known := true
			for _, a := range args {
				if c23isUnk(a) {
					known = false
				}
			}
			if known && strings.HasPrefix(name, "math/bits.") {
				// pure integer functions (shared model of stdmodel.go)
				var as []int64
				for _, a := range args {
					if n, isI := a.(int64); isI {
						as = append(as, n)
					}
				}
				if rs, ok := bitsModel(name[len("math/bits."):], as); ok && len(as) == len(args) {
					if len(rs) == 1 {
						return wrapTo(rs[0], rt)
					}
					tp := make([]c23val, len(rs))
					for i, r := range rs {
						tp[i] = r
					}
					return tp
				}
			}
			// the pure byte/slice helpers of the standard library that a
			// maintainer may use instead of a hand-written loop are evaluated
			// like module code (their Go bodies; assembly has no body)
			if known && len(f.Blocks) > 0 && c23pureStd[c23pkgOf(f)] {
				return vm.call(f, args, nil, depth+1)
			}
			if f.Name() == "init" && f.Synthetic != "" {
				return nil // initialisers of packages outside the module are not entered
			}
			return unknown(name)
		}
		var free []c23val
		if cl != nil && cl.fn == f {
			free = cl.free
		}
		return vm.call(f, args, free, depth+1)
	}
	if cl != nil && vm.inModule(cl.fn) {
		return vm.call(cl.fn, args, cl.free, depth+1)
	}
	return unknown("dynamic call")
}

func (vm *c23vm) builtin(at ssa.Instruction, rt types.Type, name string, cc *ssa.CallCommon, args []c23val) c23val {
	switch name {
	case "len", "cap":
		switch v := args[0].(type) {
		case c23slice:
			if name == "len" {
				return v.len
			}
			return v.cap
		case string:
			return int64(len(v))
		case *c23mem:
			return v.n
		case *c23map:
			return int64(len(v.m))
		case c23nilref:
			return int64(0)
		case c23ptr:
			if pt, ok := cc.Args[0].Type().Underlying().(*types.Pointer); ok {
				if a, isA := pt.Elem().Underlying().(*types.Array); isA {
					return a.Len()
				}
			}
		}
		return c23unk{}
	case "min", "max":
		best, ok := args[0].(int64)
		if !ok {
			return c23unk{}
		}
		_, uns, _ := intBits(rt)
		for _, a := range args[1:] {
			n, okN := a.(int64)
			if !okN {
				return c23unk{}
			}
			less := n < best
			if uns {
				less = uint64(n) < uint64(best)
			}
			if (name == "min") == less {
				best = n
			}
		}
		return best
	case "copy":
		dst, ok1 := args[0].(c23slice)
		if !ok1 {
			return c23unk{}
		}
		n := dst.len
		get := func(i int64) c23val { return nil }
		switch src := args[1].(type) {
		case c23slice:
			n = min(n, src.len)
			get = func(i int64) c23val { return src.m.get(src.off + i) }
		case string:
			n = min(n, int64(len(src)))
			get = func(i int64) c23val { return int64(src[i]) }
		default:
			return c23unk{}
		}
		if n > 1<<16 {
			vm.stop("undecided", at, "copy of %d elements is outside the evaluated subset", n)
		}
		tmp := make([]c23val, n)
		for i := int64(0); i < n; i++ {
			tmp[i] = get(i)
		}
		for i := int64(0); i < n; i++ {
			vm.storeTo(c23ptr{m: dst.m, idx: dst.off + i}, tmp[i], at)
		}
		return n
	case "append":
		dst, ok1 := args[0].(c23slice)
		if !ok1 {
			return c23unk{}
		}
		var add []c23val
		switch src := args[1].(type) {
		case c23slice:
			if src.len > 1<<16 {
				vm.stop("undecided", at, "append of %d elements is outside the evaluated subset", src.len)
			}
			for i := int64(0); i < src.len; i++ {
				add = append(add, src.m.get(src.off+i))
			}
		case string:
			for i := 0; i < len(src); i++ {
				add = append(add, int64(src[i]))
			}
		default:
			return c23unk{}
		}
		n := int64(len(add))
		if n == 0 {
			return dst
		}
		if dst.m != nil && dst.len+n <= dst.cap {
			for i, e := range add {
				vm.storeTo(c23ptr{m: dst.m, idx: dst.off + dst.len + int64(i)}, e, at)
			}
			return c23slice{m: dst.m, off: dst.off, len: dst.len + n, cap: dst.cap}
		}
		if dst.len > 1<<16 {
			vm.stop("undecided", at, "growing a buffer of %d elements is outside the evaluated subset", dst.len)
		}
		et := rt.Underlying().(*types.Slice).Elem()
		ncap := 2*(dst.len+n) + 8
		m := &c23mem{n: ncap, fill: c23zero(et), elems: make([]c23val, ncap)}
		for i := range m.elems {
			m.elems[i] = c23zero(et)
		}
		for i := int64(0); i < dst.len; i++ {
			m.elems[i] = dst.m.get(dst.off + i)
		}
		for i, e := range add {
			m.elems[dst.len+int64(i)] = e
		}
		return c23slice{m: m, len: dst.len + n, cap: ncap}
	case "clear":
		switch v := args[0].(type) {
		case c23slice:
			if v.len > 1<<16 {
				vm.stop("undecided", at, "clear of %d elements is outside the evaluated subset", v.len)
			}
			for i := int64(0); i < v.len; i++ {
				vm.storeTo(c23ptr{m: v.m, idx: v.off + i}, c23clone(v.m.fill), at)
			}
			return nil
		case *c23map:
			v.m = map[interface{}]c23val{}
			return nil
		}
		vm.stop("undecided", at, "clear of an unknown value")
	case "delete":
		if mp, ok := args[0].(*c23map); ok && c23mapKey(args[1]) {
			delete(mp.m, args[1])
			return nil
		}
		vm.stop("undecided", at, "delete on an unknown map")
	case "print", "println":
		return nil
	case "recover":
		// a panic of the evaluated program ends the run; deferred code therefore
		// only ever runs on the normal path
		return c23iface{}
	}
	vm.stop("undecided", at, "builtin %s is outside the evaluated subset", name)
	return nil
}

// ---------------------------------------------------------------------------
// helpers for the rules: inputs and observations

// c23input makes a (possibly virtual) byte buffer: the explicit prefix, then
// fill up to total bytes.
func c23input(prefix []byte, total int64, fill byte) c23slice {
	m := &c23mem{n: total, fill: int64(fill)}
	for i, b := range prefix {
		if int64(i) >= total {
			break
		}
		m.elems = append(m.elems, int64(b))
	}
	if total == 0 {
		// a non-nil empty slice
		return c23slice{m: m}
	}
	return c23slice{m: m, len: total, cap: total}
}

func c23newCell(v c23val) (c23ptr, *c23cell) {
	cl := &c23cell{v: v}
	return c23ptr{cell: cl}, cl
}

// c23bytesOf renders the first bytes of a slice value for messages.
func c23hex(b []byte) string {
	if len(b) == 0 {
		return "(empty)"
	}
	var sb strings.Builder
	for i, x := range b {
		if i > 0 {
			sb.WriteByte(' ')
		}
		if i >= 12 {
			fmt.Fprintf(&sb, "… (%d octets)", len(b))
			break
		}
		fmt.Fprintf(&sb, "%02x", x)
	}
	return sb.String()
}
