package main

import (
	"crypto/sha256"
	"encoding/hex"
	"fmt"
	"strings"

	"golang.org/x/tools/go/ssa"
)

// c29Groups: the fixed Diffie-Hellman groups registered in kexAlgoMap. For
// every *dhGroup entry the field values are resolved through local variables
// and shared group literals: p must be the result of SetString(<RFC prime>,
// 16), pMinus1 must be Sub(P, bigOne) over the SAME P (the peer-value range
// test 1 < Y < p-1 of diffieHellman uses pMinus1, so a bound taken from a
// different group silently widens or narrows the accepted range), g must be
// 2, and (algorithm name -> prime, hash) must be the RFC 4253 / RFC 8268
// table. The primes are pinned by the SHA-256 of their hexadecimal text.
func c29Groups(c *Ctx) {
	type want struct {
		bits int
		sha  string
		hash string
	}
	const (
		g2  = "693daceaf10c4200894cbd5696b120faebc30f7c4a242a8cd915ca3e83e141db"
		g14 = "dcd8538e629d7b8bc0dabdcda6744e0542bfb801d50305b2f6acf823b3d4e7ba"
		g16 = "2349a6f8251156cbfade78ada6bd1e0c961a56847def4d288b6fdbd740016bff"
	)
	table := map[string]want{
		"diffie-hellman-group1-sha1":    {1024, g2, "SHA1"},
		"diffie-hellman-group14-sha1":   {2048, g14, "SHA1"},
		"diffie-hellman-group14-sha256": {2048, g14, "SHA256"},
		"diffie-hellman-group16-sha512": {4096, g16, "SHA512"},
	}
	hashName := map[int64]string{3: "SHA1", 5: "SHA256", 7: "SHA512", 6: "SHA384"}
	// resolve a field value through loads of fields of other literals
	var resolve func(v ssa.Value, depth int) ssa.Value
	resolve = func(v ssa.Value, depth int) ssa.Value {
		if depth > 5 {
			return v
		}
		if u, ok := v.(*ssa.UnOp); ok {
			if fa, ok := u.X.(*ssa.FieldAddr); ok {
				if al, ok := fa.X.(*ssa.Alloc); ok {
					st := derefStruct(al.Type())
					if st != nil {
						if fv, ok := litFields(al)[st.Field(fa.Field).Name()]; ok {
							return resolve(fv, depth+1)
						}
					}
				}
			}
		}
		return v
	}
	// the SetString call behind a prime value
	primeOf := func(v ssa.Value) (*ssa.Call, string) {
		ex, ok := resolve(v, 0).(*ssa.Extract)
		if !ok || ex.Index != 0 {
			return nil, ""
		}
		cl, ok := ex.Tuple.(*ssa.Call)
		if !ok || short(calleeName(&cl.Call)) != "(*math/big.Int).SetString" {
			return nil, ""
		}
		s, ok := constString(cl.Call.Args[1])
		b, okb := constInt(cl.Call.Args[2])
		if !ok || !okb || b != 16 {
			return nil, ""
		}
		return cl, s
	}
	seen := 0
	for _, me := range c.mapUpdates("ssh", "kexAlgoMap") {
		al, ok := stripConv(me.val).(*ssa.Alloc)
		if !ok || typeName(al.Type()) != "dhGroup" {
			continue
		}
		w, known := table[me.key]
		if !known {
			c.fail("C29.dh-groups", me.key, me.at, "a fixed DH group is registered under a name that is not in the RFC 4253 / RFC 8268 table")
			continue
		}
		seen++
		lf := litFields(al)
		pCall, hexs := primeOf(lf["p"])
		sum := sha256.Sum256([]byte(strings.ToUpper(hexs)))
		okP := pCall != nil && len(hexs)*4 == w.bits && hex.EncodeToString(sum[:]) == w.sha
		c.check(okP, "C29.dh-groups", me.key+" prime", me.at, fmt.Sprintf("%d-bit Oakley prime (pinned by digest)", w.bits), "the group's prime is not the RFC prime for "+me.key)
		// pMinus1 = Sub(P, bigOne) with the same P
		okM := false
		if sub, ok := resolve(lf["pMinus1"], 0).(*ssa.Call); ok && short(calleeName(&sub.Call)) == "(*math/big.Int).Sub" && len(sub.Call.Args) == 3 {
			mc, _ := primeOf(sub.Call.Args[1])
			okM = pCall != nil && mc == pCall && accessPath(sub.Call.Args[2]) == "bigOne"
		}
		c.check(okM, "C29.dh-groups", me.key+" pMinus1", me.at, "pMinus1 = p - 1 of this group's own prime", "pMinus1 is not this group's p - 1: the range test on the peer's value uses a bound from a different number")
		okG := false
		if gc, ok := resolve(lf["g"], 0).(*ssa.Call); ok && short(calleeName(&gc.Call)) == "(*math/big.Int).SetInt64" {
			if k, isK := constInt(gc.Call.Args[1]); isK && k == 2 {
				okG = true
			}
		}
		c.check(okG, "C29.dh-groups", me.key+" generator", me.at, "g = 2", "the generator is not 2")
		hv, _ := constInt(resolve(lf["hashFunc"], 0))
		c.check(hashName[hv] == w.hash, "C29.dh-groups", me.key+" hash", me.at, w.hash, fmt.Sprintf("the exchange hash is %s, the algorithm name prescribes %s", hashName[hv], w.hash))
	}
	c.check(seen == len(table), "C29.dh-groups", "fixed groups registered", nil, fmt.Sprintf("%d fixed groups", seen), fmt.Sprintf("%d of the %d fixed DH groups are registered", seen, len(table)))
	if v, ok := c.bigOneIsOne(); !ok || !v {
		c.fail("C29.dh-groups", "bigOne", nil, "bigOne is not big.NewInt(1)")
	} else {
		c.ok("C29.dh-groups", "bigOne", nil, "bigOne = big.NewInt(1)")
	}
}

// bigOneIsOne: the package-level bigOne is initialised with big.NewInt(1).
func (c *Ctx) bigOneIsOne() (bool, bool) {
	sp := c.ssaPkg("ssh")
	if sp == nil {
		return false, false
	}
	ini := sp.Func("init")
	if ini == nil {
		return false, false
	}
	found, isOne := false, false
	allInstrs(ini, func(in ssa.Instruction) {
		st, ok := in.(*ssa.Store)
		if !ok {
			return
		}
		g, ok := st.Addr.(*ssa.Global)
		if !ok || g.Name() != "bigOne" {
			return
		}
		found = true
		if cl, ok := st.Val.(*ssa.Call); ok && short(calleeName(&cl.Call)) == "math/big.NewInt" {
			if k, isK := constInt(cl.Call.Args[0]); isK && k == 1 {
				isOne = true
			}
		}
	})
	return isOne, found
}
