package main

import (
	"crypto/sha256"
	"encoding/hex"
	"fmt"
	"sort"
	"strconv"
	"strings"

	"golang.org/x/tools/go/ssa"
)

// c29Groups: the fixed Diffie-Hellman groups registered in kexAlgoMap. The
// init functions that (directly or through helpers of the package) store into
// kexAlgoMap are executed symbolically (c29_sx.go); for every *dhGroup stored
// under a constant name the field values at the time of the store are read as
// big-number terms: p must be SetString(<RFC prime>, 16), pMinus1 must be
// p - 1 over the SAME prime term (the peer-value range test 1 < Y < p-1 of
// diffieHellman uses pMinus1, so a bound taken from a different group silently
// widens or narrows the accepted range), g must be 2, and (algorithm name ->
// prime, hash) must be the RFC 4253 / RFC 8268 table. The primes are pinned by
// the SHA-256 of their hexadecimal text. How the literals are built (local
// variables, shared literals, a constructor helper, big.NewInt vs SetInt64)
// does not matter.
func c29Groups(c *Ctx) {
	type want struct {
		bits int
		sha  string
		hash string
	}
	const (
		g2  = "693daceaf10c4200894cbd5696b120faebc30f7c4a242a8cd915ca3e83e141db"
		g14 = "dcd8538e629d7b8bc0dabdcda6744e0542bfb801d50305b2f6acf823b3d4e7ba"
		g16 = "2349a6f8251156cbfade78ada6bd1e0c961a56847def4d288b6fdbd740016bff"
	)
	table := map[string]want{
		"diffie-hellman-group1-sha1":    {1024, g2, "SHA1"},
		"diffie-hellman-group14-sha1":   {2048, g14, "SHA1"},
		"diffie-hellman-group14-sha256": {2048, g14, "SHA256"},
		"diffie-hellman-group16-sha512": {4096, g16, "SHA512"},
	}
	hashName := map[string]string{"3": "SHA1", "5": "SHA256", "7": "SHA512", "6": "SHA384"}
	sp := c.ssaPkg("ssh")
	if sp == nil {
		c.fail("C29.dh-groups", "fixed groups registered", nil, "package ssh not loaded")
		return
	}
	// the init functions that reach a store into kexAlgoMap
	var roots []*ssa.Function
	for _, mem := range sp.Members {
		fn, ok := mem.(*ssa.Function)
		if !ok || !strings.HasPrefix(fn.Name(), "init") || len(fn.Blocks) == 0 {
			continue
		}
		hit := false
		deepInstrs(fn, func(in ssa.Instruction) {
			if mu, ok := in.(*ssa.MapUpdate); ok && accessPath(mu.Map) == "kexAlgoMap" {
				hit = true
			}
		})
		if hit {
			roots = append(roots, fn)
		}
	}
	sort.Slice(roots, func(i, j int) bool { return roots[i].Pos() < roots[j].Pos() })
	type entry struct {
		key string
		f   map[string]string
		at  ssa.Instruction
	}
	var entries []entry
	seenEntry := map[string]bool{}
	for _, fn := range roots {
		sx := c29NewSX(fn)
		sx.run()
		if sx.why != "" {
			c.undecided("C29.dh-groups", fnName(fn), fn, "path execution incomplete: "+sx.why)
			continue
		}
		for _, p := range sx.paths {
			for _, e := range p.events {
				if e.kind != "mapset" || e.name != "ssh.kexAlgoMap" || e.res != "dhGroup" {
					continue
				}
				key, err := strconv.Unquote(e.args[0])
				if err != nil {
					c.fail("C29.dh-groups", e.args[0], e.at, "a fixed DH group is registered under a name that is not a constant")
					continue
				}
				sig := key + fmt.Sprint(e.fields) + c.posStr(e.at.Pos())
				if seenEntry[sig] {
					continue
				}
				seenEntry[sig] = true
				entries = append(entries, entry{key, e.fields, e.at})
			}
		}
	}
	seen := map[string]bool{}
	for _, en := range entries {
		w, known := table[en.key]
		if !known {
			c.fail("C29.dh-groups", en.key, en.at, "a fixed DH group is registered under a name that is not in the RFC 4253 / RFC 8268 table")
			continue
		}
		seen[en.key] = true
		pT := en.f["p"]
		h, a, suf, ok := c29Split(pT)
		hexs := ""
		if ok && h == "SetString" && len(a) == 2 && a[1] == "16" && suf == "" {
			hexs, _ = strconv.Unquote(a[0])
		}
		sum := sha256.Sum256([]byte(strings.ToUpper(hexs)))
		okP := hexs != "" && len(hexs)*4 == w.bits && hex.EncodeToString(sum[:]) == w.sha
		c.check(okP, "C29.dh-groups", en.key+" prime", en.at, fmt.Sprintf("%d-bit Oakley prime (pinned by digest)", w.bits), "the group's prime is not the RFC prime for "+en.key)
		m1 := en.f["pMinus1"]
		okM := hexs != "" && (m1 == "Sub("+pT+",1)" || m1 == "Add("+pT+",-1)" || m1 == "Add(-1,"+pT+")")
		c.check(okM, "C29.dh-groups", en.key+" pMinus1", en.at, "pMinus1 = p - 1 of this group's own prime", "pMinus1 is not this group's p - 1: the range test on the peer's value uses a bound from a different number")
		c.check(en.f["g"] == "2", "C29.dh-groups", en.key+" generator", en.at, "g = 2", "the generator is not 2")
		hv := en.f["hashFunc"]
		c.check(hashName[hv] == w.hash, "C29.dh-groups", en.key+" hash", en.at, w.hash, fmt.Sprintf("the exchange hash is %s (crypto.Hash %s), the algorithm name prescribes %s", hashName[hv], hv, w.hash))
	}
	c.check(len(seen) == len(table), "C29.dh-groups", "fixed groups registered", nil, fmt.Sprintf("%d fixed groups", len(seen)), fmt.Sprintf("%d of the %d fixed DH groups are registered", len(seen), len(table)))
	if v, ok := c.bigOneIsOne(); !ok || !v {
		c.fail("C29.dh-groups", "bigOne", nil, "bigOne is not big.NewInt(1)")
	} else {
		c.ok("C29.dh-groups", "bigOne", nil, "bigOne = big.NewInt(1)")
	}
}

// bigOneIsOne: the package-level bigOne is initialised with big.NewInt(1).
func (c *Ctx) bigOneIsOne() (bool, bool) {
	sp := c.ssaPkg("ssh")
	if sp == nil {
		return false, false
	}
	ini := sp.Func("init")
	if ini == nil {
		return false, false
	}
	found, isOne := false, false
	allInstrs(ini, func(in ssa.Instruction) {
		st, ok := in.(*ssa.Store)
		if !ok {
			return
		}
		g, ok := st.Addr.(*ssa.Global)
		if !ok || g.Name() != "bigOne" {
			return
		}
		found = true
		if cl, ok := st.Val.(*ssa.Call); ok && short(calleeName(&cl.Call)) == "math/big.NewInt" {
			if k, isK := constInt(cl.Call.Args[0]); isK && k == 1 {
				isOne = true
			}
		}
	})
	return isOne, found
}
