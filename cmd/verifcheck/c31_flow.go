package main

import (
	"go/token"
	"go/types"
	"sort"

	"golang.org/x/tools/go/ssa"
)

// Expanded interprocedural flow graph for the C31 rules.
//
// The rules of C31 are ordering / critical-section facts about events (lock and
// unlock of handshakeTransport.mu, stores to the kex gating fields, packets
// handed to the connection, wake-ups on writeCond). Where such an event sits —
// in the anchor function itself, in a helper extracted from it, in a deferred
// call — is a matter of factoring, so the rules are evaluated on the anchor
// function with every relevant helper of the package expanded in place, one
// copy per call site (context-sensitive: a helper returns to the call it was
// entered from), with deferred calls executed at the RunDefers points.
//
// Events are recognised by the TYPE and FIELD they touch, never by the name of
// a local, parameter or receiver; values are followed from a helper's
// parameters to the arguments of the call that entered it.

const c31MaxDepth = 4

type c31Ctx struct {
	parent *c31Ctx
	call   ssa.Instruction // *ssa.Call, or *ssa.Defer executed at a RunDefers, in parent.fn
	fn     *ssa.Function
	depth  int
}

func (x *c31Ctx) active(f *ssa.Function) bool {
	for ; x != nil; x = x.parent {
		if x.fn == f {
			return true
		}
	}
	return false
}

type c31Arc struct {
	to  *c31Node
	e   edge
	cfg bool // the arc is the CFG edge e (may be cut)
}

type c31Node struct {
	id   int
	ctx  *c31Ctx
	in   ssa.Instruction // nil: the exit pseudo node of the root function
	run  bool            // in is a *ssa.Defer whose call executes here
	succ []c31Arc
	pred []*c31Node
}

func (n *c31Node) Pos() token.Pos {
	if n == nil || n.in == nil {
		return token.NoPos
	}
	if p := n.in.Pos(); p.IsValid() {
		return p
	}
	// instructions without a position of their own (loads, field addresses):
	// the nearest positioned instruction of the block
	b := n.in.Block()
	for _, in := range b.Instrs {
		if p := in.Pos(); p.IsValid() {
			return p
		}
	}
	return n.in.Parent().Pos()
}

type c31Key struct {
	ctx *c31Ctx
	in  ssa.Instruction
	run bool
}

type c31Graph struct {
	root     *ssa.Function
	nodes    []*c31Node
	entry    *c31Node
	exit     *c31Node
	fns      []*ssa.Function // every function with a copy in the graph (root first)
	ctxs     []*c31Ctx       // every copy
	fnSeen   map[*ssa.Function]bool
	index    map[c31Key]*c31Node
	relevant func(*ssa.Function) bool
	held     map[*c31Node]bool // must-hold of handshakeTransport.mu just before the node
}

func (g *c31Graph) newNode(ctx *c31Ctx, in ssa.Instruction, run bool) *c31Node {
	n := &c31Node{id: len(g.nodes), ctx: ctx, in: in, run: run}
	g.nodes = append(g.nodes, n)
	if in != nil {
		g.index[c31Key{ctx, in, run}] = n
	}
	return n
}

func (g *c31Graph) link(a, b *c31Node) {
	a.succ = append(a.succ, c31Arc{to: b})
	b.pred = append(b.pred, a)
}

func (g *c31Graph) linkEdge(a, b *c31Node, e edge) {
	a.succ = append(a.succ, c31Arc{to: b, e: e, cfg: true})
	b.pred = append(b.pred, a)
}

// nodeOf: the copy of instruction in within context ctx.
func (g *c31Graph) nodeOf(ctx *c31Ctx, in ssa.Instruction) *c31Node {
	return g.index[c31Key{ctx, in, false}]
}

func (g *c31Graph) expandable(ctx *c31Ctx, cc *ssa.CallCommon) *ssa.Function {
	callee := cc.StaticCallee()
	if callee == nil || len(callee.Blocks) == 0 || callee.Pkg == nil || callee.Pkg != g.root.Pkg {
		return nil
	}
	if ctx.depth >= c31MaxDepth || ctx.active(callee) || !g.relevant(callee) {
		return nil
	}
	return callee
}

func c31Build(root *ssa.Function, relevant func(*ssa.Function) bool) *c31Graph {
	g := &c31Graph{root: root, fnSeen: map[*ssa.Function]bool{}, index: map[c31Key]*c31Node{}, relevant: relevant}
	g.exit = g.newNode(nil, nil, false)
	rc := &c31Ctx{fn: root}
	g.exit.ctx = rc
	entry, rets := g.expand(rc)
	g.entry = entry
	for _, r := range rets {
		g.link(r, g.exit)
	}
	g.computeHeld()
	return g
}

func (g *c31Graph) expand(ctx *c31Ctx) (entry *c31Node, rets []*c31Node) {
	fn := ctx.fn
	g.ctxs = append(g.ctxs, ctx)
	if !g.fnSeen[fn] {
		g.fnSeen[fn] = true
		g.fns = append(g.fns, fn)
	}
	heads := map[*ssa.BasicBlock]*c31Node{}
	tails := map[*ssa.BasicBlock]*c31Node{}
	for _, b := range fn.Blocks {
		if b == fn.Recover {
			continue
		}
		var prev []*c31Node
		for i, in := range b.Instrs {
			n := g.newNode(ctx, in, false)
			if i == 0 {
				heads[b] = n
			}
			for _, p := range prev {
				g.link(p, n)
			}
			prev = []*c31Node{n}
			switch x := in.(type) {
			case *ssa.Call:
				if callee := g.expandable(ctx, &x.Call); callee != nil {
					sub := &c31Ctx{parent: ctx, call: x, fn: callee, depth: ctx.depth + 1}
					e, rs := g.expand(sub)
					g.link(n, e)
					prev = rs // empty when the helper never returns
				}
			case *ssa.RunDefers:
				prev = g.runDefers(ctx, n, b)
			case *ssa.Return:
				rets = append(rets, n)
				tails[b] = n
				prev = nil
			case *ssa.If, *ssa.Jump:
				tails[b] = n
				prev = nil
			case *ssa.Panic:
				prev = nil
			}
		}
	}
	for _, b := range fn.Blocks {
		tn := tails[b]
		if tn == nil {
			continue
		}
		if _, isRet := tn.in.(*ssa.Return); isRet {
			continue
		}
		for k, s := range b.Succs {
			if h := heads[s]; h != nil {
				g.linkEdge(tn, h, edge{b, k})
			}
		}
	}
	return heads[fn.Blocks[0]], rets
}

// runDefers chains the deferred calls of ctx.fn behind the RunDefers node n (in
// block b), last registered first. A defer whose registration does not
// dominate b may or may not have been registered: both continuations are kept.
func (g *c31Graph) runDefers(ctx *c31Ctx, n *c31Node, b *ssa.BasicBlock) []*c31Node {
	var ds []*ssa.Defer
	for _, blk := range ctx.fn.Blocks {
		for _, in := range blk.Instrs {
			if d, ok := in.(*ssa.Defer); ok {
				ds = append(ds, d)
			}
		}
	}
	// registration order: a defer that precedes another one runs after it
	sort.SliceStable(ds, func(i, j int) bool { return precedes(ds[j], ds[i]) })
	prev := []*c31Node{n}
	for _, d := range ds {
		if !reach([]*ssa.BasicBlock{d.Block()}, nil)[b] {
			continue
		}
		dom := d.Block() == b || d.Block().Dominates(b)
		rn := g.newNode(ctx, d, true)
		for _, p := range prev {
			g.link(p, rn)
		}
		ends := []*c31Node{rn}
		if callee := g.expandable(ctx, &d.Call); callee != nil {
			sub := &c31Ctx{parent: ctx, call: d, fn: callee, depth: ctx.depth + 1}
			e, rs := g.expand(sub)
			g.link(rn, e)
			ends = rs
		}
		if !dom {
			ends = append(ends, prev...)
		}
		prev = ends
	}
	return prev
}

// c31Fact: what a path knows about the result of the helper call it has just
// returned from: the (last) error result is nil / non-nil, or the bool result
// is false / true. It lets the caller's "if err != nil" / "if !ok" be folded
// for that path, so that a check moved into a helper that reports through its
// result is crossed exactly as when it was written in line.
type c31Fact struct {
	k *c31Node // the call node whose result is known (nil: nothing known)
	v bool     // error result: non-nil; bool result: true
}

type c31State struct {
	n *c31Node
	f c31Fact
}

// returnFact classifies the result of the Return node r of a helper copy.
func c31ReturnFact(g *c31Graph, r *c31Node) c31Fact {
	ret, ok := r.in.(*ssa.Return)
	if !ok || r.ctx == nil || r.ctx.call == nil || r.ctx.parent == nil || len(ret.Results) == 0 {
		return c31Fact{}
	}
	call, isCall := r.ctx.call.(*ssa.Call)
	if !isCall {
		return c31Fact{}
	}
	k := g.nodeOf(r.ctx.parent, call)
	if k == nil {
		return c31Fact{}
	}
	last := len(ret.Results) - 1
	v := retVal(ret, last)
	if v == nil {
		return c31Fact{}
	}
	if b, isB := v.Type().Underlying().(*types.Basic); isB && b.Kind() == types.Bool {
		if cv, isC := constBool(v); isC {
			return c31Fact{k, cv}
		}
		return c31Fact{}
	}
	if !types.Identical(v.Type(), types.Universe.Lookup("error").Type()) {
		return c31Fact{}
	}
	if isNilConst(v) {
		return c31Fact{k, false}
	}
	if c31NeverNilAt(v, ret.Block()) {
		return c31Fact{k, true}
	}
	return c31Fact{}
}

// condUnder: the value of branch condition cond (in the copy ctx) given fact.
func c31CondUnder(cond ssa.Value, ctx *c31Ctx, f c31Fact) (val, known bool) {
	if f.k == nil || f.k.ctx != ctx {
		return false, false
	}
	call := f.k.in.(*ssa.Call)
	isRes := func(x ssa.Value) bool {
		if x == ssa.Value(call) {
			return call.Call.Signature().Results().Len() == 1
		}
		if e, ok := x.(*ssa.Extract); ok && e.Tuple == ssa.Value(call) {
			return e.Index == call.Call.Signature().Results().Len()-1
		}
		return false
	}
	switch x := cond.(type) {
	case *ssa.BinOp:
		if x.Op != token.EQL && x.Op != token.NEQ {
			return false, false
		}
		var other ssa.Value
		switch {
		case isNilConst(x.Y):
			other = x.X
		case isNilConst(x.X):
			other = x.Y
		default:
			return false, false
		}
		if !isRes(other) {
			return false, false
		}
		return (x.Op == token.NEQ) == f.v, true
	case *ssa.UnOp:
		if x.Op == token.NOT {
			v, ok := c31CondUnder(x.X, ctx, f)
			return !v, ok
		}
	default:
		if isRes(cond) {
			if b, isB := cond.Type().Underlying().(*types.Basic); isB && b.Kind() == types.Bool {
				return f.v, true
			}
		}
	}
	return false, false
}

// search: explore from the start nodes (from their successors when after is
// set) without crossing a cut CFG edge and without continuing past a barrier
// node; return the first node satisfying sink (nil if none is reachable).
// Paths remember the result class of the helper they last returned from (see
// c31Fact) and take only the consistent edge of a branch on that result.
func (g *c31Graph) search(starts []*c31Node, after bool, cut edgeSet, barrier, sink func(*c31Node) bool) *c31Node {
	seen := map[c31State]bool{}
	var stack []c31State
	push := func(n *c31Node, f c31Fact) {
		st := c31State{n, f}
		if n != nil && !seen[st] {
			seen[st] = true
			stack = append(stack, st)
		}
	}
	pushSucc := func(st c31State) {
		n, f := st.n, st.f
		if _, isRet := n.in.(*ssa.Return); isRet && n.ctx != nil && n.ctx.call != nil {
			f = c31ReturnFact(g, n)
		}
		if f.k == n {
			f = c31Fact{} // the call is being executed again
		}
		only := -1
		if iff, isIf := n.in.(*ssa.If); isIf {
			if v, known := c31CondUnder(iff.Cond, n.ctx, f); known {
				only = 1
				if v {
					only = 0
				}
			}
		}
		for i := len(n.succ) - 1; i >= 0; i-- {
			a := n.succ[i]
			if a.cfg && (cut[a.e] || only >= 0 && a.e.idx != only) {
				continue
			}
			push(a.to, f)
		}
	}
	for _, s := range starts {
		if s == nil {
			continue
		}
		if after {
			pushSucc(c31State{n: s})
		} else {
			push(s, c31Fact{})
		}
	}
	for len(stack) > 0 {
		st := stack[len(stack)-1]
		stack = stack[:len(stack)-1]
		if barrier != nil && barrier(st.n) {
			continue
		}
		if sink != nil && sink(st.n) {
			return st.n
		}
		pushSucc(st)
	}
	return nil
}

// backTo: walk backwards from the given nodes and collect the nearest nodes
// satisfying stop on every path.
func (g *c31Graph) backTo(from []*c31Node, stop func(*c31Node) bool) []*c31Node {
	seen := map[*c31Node]bool{}
	var out []*c31Node
	stack := append([]*c31Node(nil), from...)
	for len(stack) > 0 {
		n := stack[len(stack)-1]
		stack = stack[:len(stack)-1]
		for _, p := range n.pred {
			if seen[p] {
				continue
			}
			seen[p] = true
			if stop(p) {
				out = append(out, p)
				continue
			}
			stack = append(stack, p)
		}
	}
	sort.Slice(out, func(i, j int) bool { return out[i].id < out[j].id })
	return out
}

func (g *c31Graph) where(pred func(*c31Node) bool) []*c31Node {
	var out []*c31Node
	for _, n := range g.nodes {
		if n.in != nil && pred(n) {
			out = append(out, n)
		}
	}
	return out
}

// computeHeld: forward must-analysis of "handshakeTransport.mu is held".
func (g *c31Graph) computeHeld() {
	in := map[*c31Node]bool{}
	for _, n := range g.nodes {
		in[n] = true
	}
	in[g.entry] = false
	out := func(n *c31Node) bool {
		switch d := c31MuDelta(n); {
		case d > 0:
			return true
		case d < 0:
			return false
		}
		return in[n]
	}
	for changed := true; changed; {
		changed = false
		for _, n := range g.nodes {
			if n == g.entry || len(n.pred) == 0 {
				continue
			}
			v := true
			for _, p := range n.pred {
				if !out(p) {
					v = false
				}
			}
			if v != in[n] {
				in[n] = v
				changed = true
			}
		}
	}
	g.held = in
}

// ---------------------------------------------------------------------------
// events (by type and field)

const c31T = "handshakeTransport"

// c31Call: the call executed at this node (a plain call, or a deferred call at
// its RunDefers point); nil for a defer's registration, go statements, others.
func c31Call(n *c31Node) *ssa.CallCommon {
	switch x := n.in.(type) {
	case *ssa.Call:
		return &x.Call
	case *ssa.Defer:
		if n.run {
			return &x.Call
		}
	}
	return nil
}

func c31IsFieldAddr(v ssa.Value, field string) bool {
	fa, ok := v.(*ssa.FieldAddr)
	return ok && isField(fa, c31T, field)
}

// c31IsFieldLoad: v is a load of handshakeTransport.field (or the field of a
// struct value).
func c31IsFieldLoad(v ssa.Value, field string) bool {
	switch x := v.(type) {
	case *ssa.UnOp:
		return x.Op == token.MUL && c31IsFieldAddr(x.X, field)
	case *ssa.Field:
		return isField(x, c31T, field)
	}
	return false
}

// c31MuDelta: +1 for mu.Lock(), -1 for mu.Unlock() on handshakeTransport.mu.
func c31MuDelta(n *c31Node) int {
	cc := c31Call(n)
	if cc == nil || cc.IsInvoke() || len(cc.Args) == 0 {
		return 0
	}
	d := 0
	switch calleeName(cc) {
	case "(*sync.Mutex).Lock":
		d = 1
	case "(*sync.Mutex).Unlock":
		d = -1
	default:
		return 0
	}
	if c31IsFieldAddr(cc.Args[0], "mu") {
		return d
	}
	return 0
}

func c31IsLock(n *c31Node) bool   { return c31MuDelta(n) > 0 }
func c31IsUnlock(n *c31Node) bool { return c31MuDelta(n) < 0 }

// c31CondOp: a (*sync.Cond) method called on handshakeTransport.writeCond.
func c31CondOp(n *c31Node, method string) bool {
	cc := c31Call(n)
	if cc == nil || cc.IsInvoke() || len(cc.Args) == 0 {
		return false
	}
	return calleeName(cc) == "(*sync.Cond)."+method && c31IsFieldLoad(cc.Args[0], "writeCond")
}

// c31ConnWrite: a packet is handed to the underlying connection
// (t.conn.writePacket(p)); returns the packet argument.
func c31ConnWrite(n *c31Node) (ssa.Value, bool) {
	cc := c31Call(n)
	if cc == nil || !cc.IsInvoke() || cc.Method.Name() != "writePacket" || len(cc.Args) != 1 {
		return nil, false
	}
	if !c31IsFieldLoad(cc.Value, "conn") {
		return nil, false
	}
	return cc.Args[0], true
}

// c31Store: a store to handshakeTransport.field; returns the stored value.
func c31Store(n *c31Node, field string) (ssa.Value, bool) {
	st, ok := n.in.(*ssa.Store)
	if !ok || !c31IsFieldAddr(st.Addr, field) {
		return nil, false
	}
	return st.Val, true
}

// c31ZeroLen: the value is a slice of length 0 whatever its operands are.
func c31ZeroLen(v ssa.Value) bool {
	switch x := v.(type) {
	case *ssa.Const:
		return x.IsNil()
	case *ssa.Slice:
		if x.High != nil {
			if k, ok := constInt(x.High); ok && k == 0 {
				return true
			}
		}
	case *ssa.MakeSlice:
		if k, ok := constInt(x.Len); ok && k == 0 {
			return true
		}
	case *ssa.ChangeType:
		return c31ZeroLen(x.X)
	}
	return false
}

// c31Resolve follows a value out of a helper: a parameter of the function of
// ctx is the argument of the call that entered ctx (repeatedly), a free
// variable of a closure is its binding.
func c31Resolve(ctx *c31Ctx, v ssa.Value) (*c31Ctx, ssa.Value) {
	for i := 0; i < 12; i++ {
		switch x := v.(type) {
		case *ssa.Parameter:
			if ctx == nil || ctx.call == nil || x.Parent() != ctx.fn {
				return ctx, v
			}
			cc := callCommon(ctx.call)
			idx := -1
			for k, p := range ctx.fn.Params {
				if p == x {
					idx = k
				}
			}
			if cc == nil || cc.IsInvoke() || idx < 0 || idx >= len(cc.Args) {
				return ctx, v
			}
			v, ctx = cc.Args[idx], ctx.parent
		case *ssa.FreeVar:
			if ctx == nil || ctx.call == nil || x.Parent() != ctx.fn {
				return ctx, v
			}
			cc := callCommon(ctx.call)
			mc, ok := cc.Value.(*ssa.MakeClosure)
			idx := -1
			for k, p := range ctx.fn.FreeVars {
				if p == x {
					idx = k
				}
			}
			if !ok || idx < 0 || idx >= len(mc.Bindings) {
				return ctx, v
			}
			v, ctx = mc.Bindings[idx], ctx.parent
		case *ssa.ChangeType:
			v = x.X
		default:
			return ctx, v
		}
	}
	return ctx, v
}

// ---------------------------------------------------------------------------
// conditions on the gating fields

// c31NilFact: does the boolean v decide "handshakeTransport.<field> is nil"?
// nilIfTrue tells the polarity. Looks through !, through comparisons in either
// operand order, and through predicate helpers of the package whose every
// return value is such a test of the same field with the same polarity
// (func (t *handshakeTransport) kexInProgress() bool { return t.sentInitMsg != nil }).
func c31NilFact(v ssa.Value, depth int) (field string, nilIfTrue bool, ok bool) {
	if depth > 4 {
		return
	}
	switch x := v.(type) {
	case *ssa.BinOp:
		if x.Op != token.EQL && x.Op != token.NEQ {
			return
		}
		var other ssa.Value
		switch {
		case isNilConst(x.Y):
			other = x.X
		case isNilConst(x.X):
			other = x.Y
		default:
			return
		}
		t, f, _, isF := fieldOf(other)
		if !isF || t != c31T {
			return
		}
		if _, isLoad := other.(*ssa.UnOp); !isLoad {
			if _, isFld := other.(*ssa.Field); !isFld {
				return
			}
		}
		return f, x.Op == token.EQL, true
	case *ssa.UnOp:
		if x.Op == token.NOT {
			f, p, ok := c31NilFact(x.X, depth+1)
			return f, !p, ok
		}
	case *ssa.Call:
		callee := x.Call.StaticCallee()
		if callee == nil || len(callee.Blocks) == 0 || callee.Signature.Results().Len() != 1 {
			return
		}
		if b, isB := callee.Signature.Results().At(0).Type().Underlying().(*types.Basic); !isB || b.Kind() != types.Bool {
			return
		}
		rs := returnsOf(callee)
		for i, r := range rs {
			f, p, ok1 := c31NilFact(retVal(r, 0), depth+1)
			if !ok1 || (i > 0 && (f != field || p != nilIfTrue)) {
				return "", false, false
			}
			field, nilIfTrue = f, p
		}
		return field, nilIfTrue, len(rs) > 0
	}
	return
}

// c31NilEdges: the CFG edges of the functions in the graph on which
// "handshakeTransport.<field> == nil" (wantNil) or "!= nil" has just been
// established by a branch.
func (g *c31Graph) nilEdges(field string, wantNil bool) []edge {
	var out []edge
	for _, fn := range g.fns {
		for _, b := range fn.Blocks {
			if len(b.Instrs) == 0 {
				continue
			}
			iff, ok := b.Instrs[len(b.Instrs)-1].(*ssa.If)
			if !ok {
				continue
			}
			f, nilIfTrue, ok := c31NilFact(iff.Cond, 0)
			if !ok || f != field {
				continue
			}
			if nilIfTrue == wantNil {
				out = append(out, edge{b, 0})
			} else {
				out = append(out, edge{b, 1})
			}
		}
	}
	return out
}

// c31NeverNilAt: the error value v, returned from block at, cannot be nil:
// the engine's own classification, or v is a load of a field that the branch
// leading into the block has just tested to be non-nil
// (if t.writeError != nil { return t.writeError }).
func c31NeverNilAt(v ssa.Value, at *ssa.BasicBlock) bool {
	if v == nil {
		return false
	}
	if errNilness(v, at, 0) == neverNil {
		return true
	}
	u, ok := v.(*ssa.UnOp)
	if !ok || u.Op != token.MUL {
		return false
	}
	p := accessPath(u)
	if p == "" {
		return false
	}
	for _, b := range at.Parent().Blocks {
		if len(b.Instrs) == 0 {
			continue
		}
		iff, ok := b.Instrs[len(b.Instrs)-1].(*ssa.If)
		if !ok {
			continue
		}
		bo, ok := iff.Cond.(*ssa.BinOp)
		if !ok || (bo.Op != token.EQL && bo.Op != token.NEQ) {
			continue
		}
		var other ssa.Value
		switch {
		case isNilConst(bo.Y):
			other = bo.X
		case isNilConst(bo.X):
			other = bo.Y
		default:
			continue
		}
		if lu, isLoad := other.(*ssa.UnOp); !isLoad || lu.Op != token.MUL || accessPath(lu) != p {
			continue
		}
		k := 0 // edge on which other != nil
		if bo.Op == token.EQL {
			k = 1
		}
		to := b.Succs[k]
		if len(to.Preds) != 1 || to != at || u.Block() != at {
			continue
		}
		// no store and no call between the test and the load that is returned
		clean := true
		for _, in := range at.Instrs {
			if in == ssa.Instruction(u) {
				break
			}
			switch in.(type) {
			case *ssa.Store, *ssa.Call:
				clean = false
			}
		}
		if clean {
			return true
		}
	}
	return false
}
