package main

import (
	"fmt"
	"go/token"
	"go/types"
	"reflect"
	"sort"
	"strings"

	"golang.org/x/tools/go/ssa"
)

// Rules of C24 on the reflection codec, the decode table and the fixed-width
// parse helpers, expressed so that they read the same whether a piece of the
// logic sits in the anchor function or in a helper of package ssh.

// kindConstsDeep: the reflect.Kind constants a function — or a helper of its
// package it calls — compares a Kind with.
func kindConstsDeep(f *ssa.Function) map[int64]bool {
	out := map[int64]bool{}
	deepInstrs(f, func(in ssa.Instruction) {
		bo, ok := in.(*ssa.BinOp)
		if !ok || (bo.Op != token.EQL && bo.Op != token.NEQ) {
			return
		}
		x, y := bo.X, bo.Y
		if _, isC := x.(*ssa.Const); isC {
			x, y = y, x
		}
		if x.Type().String() != "reflect.Kind" {
			return
		}
		if k, ok := constInt(y); ok {
			out[k] = true
		}
	})
	return out
}

func checkC24Kinds(c *Ctx, ms, um *ssa.Function) {
	a, b := kindConstsDeep(ms), kindConstsDeep(um)
	var da, db []string
	for k := range a {
		if !b[k] {
			da = append(da, reflect.Kind(k).String())
		}
	}
	for k := range b {
		if !a[k] {
			db = append(db, reflect.Kind(k).String())
		}
	}
	sort.Strings(da)
	sort.Strings(db)
	c.check(len(da) == 0 && len(db) == 0 && len(a) >= 8, "C24.kinds", "marshalStruct vs Unmarshal", ms, fmt.Sprintf("both handle the same %d kinds", len(a)), fmt.Sprintf("kinds only written: %v; kinds only read: %v", da, db))
}

// c24BindNilTests: v is known to be nil / non-nil on the path being walked;
// every comparison of v with nil folds accordingly.
func c24BindNilTests(w *pathWalker, v ssa.Value, isNil bool) {
	refs := v.Referrers()
	if refs == nil {
		return
	}
	for _, r := range *refs {
		bo, ok := r.(*ssa.BinOp)
		if !ok || (bo.Op != token.EQL && bo.Op != token.NEQ) {
			continue
		}
		if !(bo.X == v && isNilConst(bo.Y)) && !(bo.Y == v && isNilConst(bo.X)) {
			continue
		}
		if (bo.Op == token.EQL) == isNil {
			w.env.bind(bo, 1)
		} else {
			w.env.bind(bo, 0)
		}
	}
}

// checkC24DecodeTable: decode is interpreted once per message code with the
// first packet byte bound to the code (helpers of the package are interpreted
// in place); the struct type whose pointer reaches Unmarshal on that path must
// carry the code in its sshtype tag.
func checkC24DecodeTable(c *Ctx, dec, um *ssa.Function) {
	pp := c24ParamOf(dec, c24IsByteSlice)
	if pp == nil {
		c.undecided("C24.decode-table", "decode", dec, "decode has no single []byte parameter: the rule cannot bind the packet")
		return
	}
	// the dynamic type of an interface value made from a pointer to struct
	typeOf := map[string]*types.Struct{}
	static := map[ssa.Value]string{}
	deepInstrs(dec, func(in ssa.Instruction) {
		if mi, ok := in.(*ssa.MakeInterface); ok {
			if st := derefStruct(mi.X.Type()); st != nil {
				k := "T:" + mi.X.Type().String()
				typeOf[k] = st
				static[mi] = k
			}
		}
	})
	bad, und := "", ""
	decoded := 0
	for code := int64(0); code < 256 && und == ""; code++ {
		w := &pathWalker{env: newEnv(), lengths: true, maxSteps: 6000, assumeErrNil: true, opaque: map[string]bool{um.Name(): true}}
		w.cls = map[ssa.Value]string{}
		for k, v := range static {
			w.cls[k] = v
		}
		w.cls[pp] = "packet"
		w.env.bind(pp, 8)
		w.onSlice = func(w *pathWalker, sl *ssa.Slice) {
			delete(w.cls, sl)
			if w.cls[sl.X] == "packet" {
				if sl.Low == nil {
					w.cls[sl] = "packet"
				} else if lo, ok := w.env.eval(sl.Low); ok && lo == 0 {
					w.cls[sl] = "packet"
				}
			}
		}
		w.onLoad = func(w *pathWalker, u *ssa.UnOp) (int64, bool) {
			if ia, ok := u.X.(*ssa.IndexAddr); ok && w.cls[ia.X] == "packet" {
				if i, ok := w.env.eval(ia.Index); ok && i == 0 {
					return code, true
				}
			}
			return 0, false
		}
		w.onPhi = func(w *pathWalker, ph *ssa.Phi, incoming ssa.Value) {
			if cl, ok := w.cls[incoming]; ok {
				w.cls[ph] = cl
			} else {
				delete(w.cls, ph)
			}
			if _, isIface := ph.Type().Underlying().(*types.Interface); isIface {
				if isNilConst(incoming) {
					c24BindNilTests(w, ph, true)
				} else if strings.HasPrefix(w.cls[incoming], "T:") {
					c24BindNilTests(w, ph, false)
				}
			}
		}
		w.onReturn = func(parent, child *pathWalker, call *ssa.Call, results []ssa.Value) {
			if len(results) != 1 {
				return
			}
			if _, isIface := call.Type().Underlying().(*types.Interface); !isIface {
				return
			}
			if isNilConst(results[0]) {
				delete(parent.cls, call)
				c24BindNilTests(parent, call, true)
			} else if strings.HasPrefix(parent.cls[results[0]], "T:") {
				parent.cls[call] = parent.cls[results[0]]
				c24BindNilTests(parent, call, false)
			}
		}
		w.onCall = func(w *pathWalker, ci ssa.CallInstruction) string {
			if ci.Common().StaticCallee() != um {
				return ""
			}
			for _, a := range ci.Common().Args {
				if _, isIface := a.Type().Underlying().(*types.Interface); isIface {
					if cl := w.cls[a]; strings.HasPrefix(cl, "T:") {
						return cl
					}
					return "T:?"
				}
			}
			return ""
		}
		end := w.walk(dec.Blocks[0], nil)
		switch end {
		case "return":
		case "panic":
			if bad == "" {
				bad = fmt.Sprintf("decode panics on a packet that starts with message code %d", code)
			}
			continue
		default:
			und = fmt.Sprintf("message code %d: %s", code, w.why)
			continue
		}
		for _, ev := range w.events {
			if !strings.HasPrefix(ev, "T:") {
				continue
			}
			st := typeOf[ev]
			if st == nil {
				und = fmt.Sprintf("message code %d: the type handed to Unmarshal is not determined on this path", code)
				break
			}
			if st.NumFields() == 0 {
				continue // body-less message: nothing is unmarshalled, no tag needed
			}
			decoded++
			okCode := false
			for _, k := range sshTypeCodes(st) {
				if k == code {
					okCode = true
				}
			}
			if !okCode && bad == "" {
				bad = fmt.Sprintf("message code %d is decoded into %s whose sshtype tag is %v", code, short(ev[2:]), sshTypeCodes(st))
			}
		}
	}
	if und != "" {
		c.undecided("C24.decode-table", "decode", dec, "interpretation left the finite domain: "+und)
		return
	}
	c.check(bad == "" && decoded >= 25, "C24.decode-table", "decode", dec, fmt.Sprintf("%d codes decode into a type tagged with that code", decoded), bad+fmt.Sprintf(" (%d codes decoded)", decoded))
}

// checkC24ParseGuards: parseString / parseUint32 / parseUint64 interpreted on
// concrete inputs (length grid x length-field grid): no slice or index leaves
// the input, success is reported exactly when enough bytes are present, and on
// success the results are the expected windows of the input.
func checkC24ParseGuards(c *Ctx) {
	isBool := func(t types.Type) bool {
		b, ok := t.Underlying().(*types.Basic)
		return ok && b.Kind() == types.Bool
	}
	isUint := func(t types.Type) bool {
		b, ok := t.Underlying().(*types.Basic)
		return ok && b.Info()&types.IsInteger != 0
	}
	for _, spec := range []struct {
		fn    string
		width int64
		var_  bool
	}{{"parseString", 4, true}, {"parseUint32", 4, false}, {"parseUint64", 8, false}} {
		f := c.fn("ssh", spec.fn)
		if f == nil {
			continue
		}
		bp := c24ParamOf(f, c24IsByteSlice)
		rk := c24ResultOf(f, isBool)
		var rb []int // []byte results in order
		rs := f.Signature.Results()
		for i := 0; i < rs.Len(); i++ {
			if c24IsByteSlice(rs.At(i).Type()) {
				rb = append(rb, i)
			}
		}
		rv := c24ResultOf(f, isUint)
		wantRB := 1
		if spec.var_ {
			wantRB = 2
		}
		if bp == nil || rk < 0 || len(rb) != wantRB || (!spec.var_ && rv < 0) {
			c.undecided("C24.parse-guards", spec.fn, f, "unexpected signature: the rule cannot bind input and results")
			continue
		}
		bad, und := "", ""
		pts := 0
		Ls := []int64{0, 1, 4, 5, 8, 96, 97, 1 << 31, 1<<32 - 1}
		if !spec.var_ {
			Ls = []int64{0x01020304}
		}
		for _, n := range []int64{0, 1, 3, 4, 5, 7, 8, 9, 12, 100} {
			for _, L := range Ls {
				field := uint64(L)
				if spec.width == 8 {
					field = 0x0102030405060708
				}
				content := make([]int64, n)
				for i := int64(0); i < n; i++ {
					if i < spec.width {
						content[i] = int64(field >> (8 * uint(spec.width-1-i)) & 0xff)
					} else {
						content[i] = i & 0xff
					}
				}
				h := c24NewHeap(c)
				w := &pathWalker{env: newEnv(), maxSteps: 4000}
				h.install(w, f)
				buf := h.newBuf(content)
				w.cls[bp], w.off[bp] = buf, 0
				w.env.bind(bp, n)
				end := w.walk(f.Blocks[0], nil)
				cs := fmt.Sprintf("len(in)=%d length field=%d", n, L)
				if !spec.var_ {
					cs = fmt.Sprintf("len(in)=%d", n)
				}
				pts++
				want := n >= spec.width
				if spec.var_ {
					want = n >= 4 && n-4 >= L
				}
				switch {
				case end == "panic" || w.oob || w.rootW().oob || w.beyondLen || w.rootW().beyondLen:
					if bad == "" {
						at := ""
						if in := w.rootW().oobAt; in != nil {
							at = " at " + in.String()
						}
						bad = cs + ": an index or slice expression leaves the input" + at
						if !want {
							bad += " (success would be reported with too few bytes)"
						}
					}
				case end != "return":
					und = cs + ": " + w.why
				case h.gap != "":
					und = cs + ": " + h.gap
				default:
					ret := w.last.(*ssa.Return)
					okv, known := w.env.eval(ret.Results[rk])
					if !known {
						und = cs + ": the ok result does not evaluate"
						break
					}
					if (okv != 0) != want {
						if bad == "" {
							bad = fmt.Sprintf("%s: success reported=%v, specification %v", cs, okv != 0, want)
						}
						break
					}
					if !want {
						break
					}
					win := func(idx int, off, l int64, what string) {
						r := ret.Results[idx]
						if l == 0 {
							if got, ok := w.env.eval(r); ok && got == 0 {
								return
							}
						}
						id, o, gl, ok := h.slice(w, r)
						if (!ok || id != buf || o != off || gl != l) && bad == "" {
							bad = fmt.Sprintf("%s: %s is not in[%d:%d]", cs, what, off, off+l)
						}
					}
					if spec.var_ {
						win(rb[0], 4, L, "the string")
						win(rb[1], 4+L, n-4-L, "the rest")
					} else {
						win(rb[0], spec.width, n-spec.width, "the rest")
						v, ok := w.env.eval(ret.Results[rv])
						if !ok {
							und = cs + ": the returned integer does not evaluate"
						} else if uint64(v) != field && bad == "" {
							bad = fmt.Sprintf("%s: returns %#x for big-endian bytes %#x", cs, uint64(v), field)
						}
					}
				}
				if und != "" {
					break
				}
			}
			if und != "" {
				break
			}
		}
		if und != "" {
			c.undecided("C24.parse-guards", spec.fn, f, "interpretation left the modelled domain: "+und)
			continue
		}
		c.check(bad == "", "C24.parse-guards", spec.fn, f, fmt.Sprintf("in-range slicing, exact success condition and result windows on %d cases", pts), bad)
	}
}

// c24FromInput: v is a SUFFIX of the byte slice root (the input that is left
// after some prefix was consumed) — through phis, reslicing without an upper
// bound, helper parameters bound to such a slice at a static call site, and
// results of calls: a result counts when the callee returns, at that position,
// a suffix of one of its own parameters and the argument passed for that
// parameter is a suffix of root (parseString's rest, not its out).
func c24FromInput(c *Ctx, v, root ssa.Value, depth int, seen map[ssa.Value]bool) bool {
	if v == root {
		return true
	}
	if v == nil || depth <= 0 || seen[v] {
		return false
	}
	seen[v] = true
	result := func(call *ssa.Call, idx int) bool {
		g := call.Call.StaticCallee()
		if g == nil || len(g.Blocks) == 0 || call.Call.IsInvoke() {
			return false
		}
		for k, p := range g.Params {
			if k >= len(call.Call.Args) || !c24IsByteSlice(p.Type()) {
				continue
			}
			suffix := false
			for _, r := range returnsOf(g) {
				if idx < len(r.Results) && c24FromInput(c, retVal(r, idx), p, depth-1, map[ssa.Value]bool{}) {
					suffix = true
					break
				}
			}
			if suffix && c24FromInput(c, call.Call.Args[k], root, depth-1, seen) {
				return true
			}
		}
		return false
	}
	switch x := v.(type) {
	case *ssa.Parameter:
		f := x.Parent()
		if f == nil {
			return false
		}
		idx := -1
		for k, p := range f.Params {
			if p == x {
				idx = k
			}
		}
		for _, ci := range c.callersOf(f) {
			args := ci.Common().Args
			if idx >= 0 && idx < len(args) && !ci.Common().IsInvoke() && c24FromInput(c, args[idx], root, depth-1, seen) {
				return true
			}
		}
	case *ssa.Phi:
		for _, e := range x.Edges {
			if c24FromInput(c, e, root, depth-1, seen) {
				return true
			}
		}
	case *ssa.Slice:
		if x.High != nil || x.Max != nil {
			return false // a window, not what is left
		}
		return c24FromInput(c, x.X, root, depth-1, seen)
	case *ssa.ChangeType:
		return c24FromInput(c, x.X, root, depth-1, seen)
	case *ssa.Extract:
		if call, ok := x.Tuple.(*ssa.Call); ok && c24IsByteSlice(x.Type()) {
			return result(call, x.Index)
		}
	case *ssa.Call:
		if c24IsByteSlice(x.Type()) {
			return result(x, 0)
		}
	}
	return false
}

// c24AcceptReturnsDeep: the returns on which result #idx (an error) may be
// nil; a return of a package helper's error result is replaced by that
// helper's own such returns.
func c24AcceptReturnsDeep(fn *ssa.Function, idx, depth int) []ssa.Instruction {
	var out []ssa.Instruction
	for _, r := range returnsOf(fn) {
		if idx >= len(r.Results) {
			continue
		}
		v := retVal(r, idx)
		if errNilness(v, r.Block(), 0) == neverNil {
			continue
		}
		if call, ok := v.(*ssa.Call); ok && depth > 0 {
			if g := samePkgCallee(fn, &call.Call); g != nil && g != fn && g.Signature.Results().Len() == 1 {
				out = append(out, c24AcceptReturnsDeep(g, 0, depth-1)...)
				continue
			}
		}
		out = append(out, r)
	}
	return out
}

// checkC24Trailing: Unmarshal reports success only when no input is left.
func checkC24Trailing(c *Ctx, um *ssa.Function) {
	dp := c24ParamOf(um, c24IsByteSlice)
	errIdx := um.Signature.Results().Len() - 1
	if dp == nil || errIdx < 0 {
		c.undecided("C24.trailing", "Unmarshal", um, "Unmarshal has no single []byte parameter / error result: the rule cannot bind its input")
		return
	}
	var pass []edge
	deepInstrs(um, func(in ssa.Instruction) {
		call, ok := in.(*ssa.Call)
		if !ok || calleeName(&call.Call) != "builtin:len" {
			return
		}
		a := call.Call.Args[0]
		if !c24IsByteSlice(a.Type()) || !c24FromInput(c, a, dp, 12, map[ssa.Value]bool{}) {
			return
		}
		pass = append(pass, edgesImplying(call, []int64{0, 1, 2}, func(d int64) bool { return d == 0 })...)
	})
	c.mustCrossDeep("C24.trailing", "Unmarshal", um, c24AcceptReturnsDeep(um, errIdx, 2), pass, "no input bytes left")
}
