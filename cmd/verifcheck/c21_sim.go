package main

import (
	"fmt"
	"go/token"
	"go/types"
	"strings"

	"golang.org/x/tools/go/ssa"
)

// c21Sim: the byte-level side of the path walker for the PKCS#12 rules. The
// walker represents a slice by its LENGTH; c21Sim adds, for slices the rule
// cares about, WHICH buffer they view and at which offset (w.cls / w.off, which
// follow arguments into helpers and results back), and the buffers' contents
// (one int64 per byte, c21Unk = not known). Stores through an index, loads
// through an index, copy/append/bytes.Repeat/bytes.Equal & co. are interpreted
// on those contents, so a rule can state its specification on VALUES ("the last
// ps bytes all equal ps", "the result is the plaintext without its padding")
// and is indifferent to whether the code compares with bytes.Equal, a loop,
// subtle.ConstantTimeCompare, or in a helper.
//
// Errors are abstracted to 0 (nil), 1 (some non-nil error) and a distinct id
// >= 2 per package-level error variable (ErrDecryption, ErrIncorrectPassword).
const c21Unk = int64(-1)

type c21Ref struct {
	name string
	off  int64
	ok   bool
}

type c21Sim struct {
	mem     map[string][]int64
	problem string
	oob     bool // an index left its buffer (kept even when a helper's trial interpretation is discarded)
	tup     map[ssa.Value][]c21Ref
	tupNil  map[ssa.Value][]int
	nn      map[ssa.Value]int // nil-ness of slice values, see nilOf
	errIDs  map[string]int64
	opaque  map[string]bool
	// rule-specific models (called before the generic ones); true = handled
	call func(w *pathWalker, ci ssa.CallInstruction, name string) bool
	// load: the value of a field load (*ssa.UnOp of a FieldAddr) or of a field of
	// a struct value (*ssa.Field) that the rule supplies
	load func(w *pathWalker, v ssa.Value) (int64, bool)
}

func newC21Sim() *c21Sim {
	return &c21Sim{mem: map[string][]int64{}, tup: map[ssa.Value][]c21Ref{}, tupNil: map[ssa.Value][]int{}, nn: map[ssa.Value]int{}, errIDs: map[string]int64{}, opaque: map[string]bool{}}
}

func (s *c21Sim) flag(msg string) {
	if s.problem == "" {
		s.problem = msg
	}
}

func (s *c21Sim) errID(name string) int64 {
	if id, ok := s.errIDs[name]; ok {
		return id
	}
	id := int64(len(s.errIDs) + 2)
	s.errIDs[name] = id
	return id
}

// newBuf creates (or resets) buffer name with n bytes of value fill.
func (s *c21Sim) newBuf(name string, n, fill int64) string {
	if n < 0 {
		n = 0
	}
	b := make([]int64, n)
	for i := range b {
		b[i] = fill
	}
	s.mem[name] = b
	return name
}

func c21IsErrorType(t types.Type) bool {
	return types.Identical(t, types.Universe.Lookup("error").Type())
}

// prebind gives the constants of fn that the integer evaluator cannot fold an
// abstract value: nil slices have length 0, a nil interface is 0, a value boxed
// into an error interface is a non-nil error (1).
func c21Prebind(e *penv, fn *ssa.Function) {
	allInstrs(fn, func(in ssa.Instruction) {
		for _, op := range in.Operands(nil) {
			if *op == nil {
				continue
			}
			if k, ok := (*op).(*ssa.Const); ok && k.IsNil() {
				switch k.Type().Underlying().(type) {
				case *types.Slice, *types.Interface:
					e.bind(k, 0)
				}
			}
		}
		if mi, ok := in.(*ssa.MakeInterface); ok && c21IsErrorType(mi.Type()) {
			e.bind(mi, 1)
		}
	})
}

// ref: which buffer (and offset) the slice / array pointer v views.
func (s *c21Sim) ref(w *pathWalker, v ssa.Value) c21Ref {
	for i := 0; i < 8 && v != nil; i++ {
		if cl, ok := w.cls[v]; ok {
			return c21Ref{cl, w.off[v], true}
		}
		switch x := v.(type) {
		case *ssa.ChangeType:
			v = x.X
			continue
		case *ssa.MakeSlice:
			n, ok := w.env.eval(x.Len)
			if !ok {
				return c21Ref{}
			}
			name := s.newBuf(fmt.Sprintf("make@%p", x), n, 0)
			w.cls[x], w.off[x] = name, 0
			return c21Ref{name, 0, true}
		case *ssa.Alloc:
			if pt, ok := x.Type().Underlying().(*types.Pointer); ok {
				if arr, ok := pt.Elem().Underlying().(*types.Array); ok {
					name := s.newBuf(fmt.Sprintf("array@%p", x), arr.Len(), 0)
					w.cls[x], w.off[x] = name, 0
					return c21Ref{name, 0, true}
				}
			}
		case *ssa.Slice:
			r := s.ref(w, x.X)
			if !r.ok {
				return c21Ref{}
			}
			lo := int64(0)
			if x.Low != nil {
				l, ok := w.env.eval(x.Low)
				if !ok {
					return c21Ref{}
				}
				lo = l
			}
			return c21Ref{r.name, r.off + lo, true}
		}
		break
	}
	return c21Ref{}
}

// Slices are represented by their lengths, which cannot tell a nil slice from
// an empty one. nilOf / setNil keep that one bit beside the length (1 = nil,
// 2 = not nil, 0 = not known) for the values whose definition the walker shows
// to the rule (slice expressions, phis, parameters and results of interpreted
// helpers), and decide the `x == nil` / `x != nil` comparisons of such a value
// at the moment it is (re)defined. With the bit unknown the comparison falls
// back to "length 0", the walker's own reading.
func (s *c21Sim) nilOf(v ssa.Value) int {
	for i := 0; i < 8 && v != nil; i++ {
		if n, ok := s.nn[v]; ok {
			return n
		}
		switch x := v.(type) {
		case *ssa.Const:
			if _, isSlice := x.Type().Underlying().(*types.Slice); isSlice && x.IsNil() {
				return 1
			}
			return 0
		case *ssa.MakeSlice:
			return 2
		case *ssa.ChangeType:
			v = x.X
			continue
		case *ssa.Slice:
			if _, isSlice := x.X.Type().Underlying().(*types.Slice); !isSlice {
				return 2 // of an array
			}
			v = x.X
			continue
		}
		return 0
	}
	return 0
}

func (s *c21Sim) setNil(w *pathWalker, v ssa.Value, n int) {
	if _, isSlice := v.Type().Underlying().(*types.Slice); !isSlice {
		return
	}
	refs := v.Referrers()
	if n == 0 {
		delete(s.nn, v)
	} else {
		s.nn[v] = n
	}
	if refs == nil {
		return
	}
	for _, r := range *refs {
		bo, ok := r.(*ssa.BinOp)
		if !ok || (bo.Op != token.EQL && bo.Op != token.NEQ) {
			continue
		}
		other := bo.Y
		if other == v {
			other = bo.X
		}
		if !isNilConst(other) {
			continue
		}
		if n == 0 {
			delete(w.env.vals, bo)
			continue
		}
		w.env.bind(bo, c21B((n == 1) == (bo.Op == token.EQL)))
	}
}

func (s *c21Sim) setRef(w *pathWalker, v ssa.Value, r c21Ref) {
	if r.ok {
		w.cls[v], w.off[v] = r.name, r.off
	} else {
		delete(w.cls, v)
		delete(w.off, v)
	}
}

// bytesOf: the contents viewed by slice v (nil, false when the view or its
// length is not known; an empty or nil slice has the contents []).
func (s *c21Sim) bytesOf(w *pathWalker, v ssa.Value) ([]int64, bool) {
	n, ok := w.env.eval(v)
	if !ok {
		return nil, false
	}
	if n == 0 {
		return []int64{}, true
	}
	r := s.ref(w, v)
	if !r.ok {
		return nil, false
	}
	b := s.mem[r.name]
	if r.off < 0 || r.off+n > int64(len(b)) {
		return nil, false
	}
	return b[r.off : r.off+n], true
}

func c21Known(bs ...[]int64) bool {
	for _, b := range bs {
		for _, x := range b {
			if x == c21Unk {
				return false
			}
		}
	}
	return true
}

func c21Cmp(a, b []int64) int64 {
	for i := 0; i < len(a) && i < len(b); i++ {
		if a[i] != b[i] {
			if a[i] < b[i] {
				return -1
			}
			return 1
		}
	}
	switch {
	case len(a) < len(b):
		return -1
	case len(a) > len(b):
		return 1
	}
	return 0
}

func c21B(b bool) int64 {
	if b {
		return 1
	}
	return 0
}

// result: bind a fresh buffer with the given contents as the value of call ci.
func (s *c21Sim) result(w *pathWalker, ci ssa.CallInstruction, kind string, content []int64) {
	v, ok := ci.(ssa.Value)
	if !ok {
		return
	}
	name := fmt.Sprintf("%s@%p", kind, ci)
	s.mem[name] = append([]int64(nil), content...)
	w.env.bind(v, int64(len(content)))
	w.cls[v], w.off[v] = name, 0
}

// generic: the standard-library / builtin calls the rules accept as equivalent
// ways of building and comparing byte strings.
func (s *c21Sim) generic(w *pathWalker, ci ssa.CallInstruction, name string) bool {
	cc := ci.Common()
	v, _ := ci.(ssa.Value)
	a := cc.Args
	ints := func() ([]int64, bool) {
		var out []int64
		for _, x := range a {
			n, ok := w.env.eval(x)
			if !ok {
				return nil, false
			}
			out = append(out, n)
		}
		return out, true
	}
	two := func() ([]int64, []int64, bool) {
		if len(a) != 2 {
			return nil, nil, false
		}
		x, ok1 := s.bytesOf(w, a[0])
		y, ok2 := s.bytesOf(w, a[1])
		return x, y, ok1 && ok2
	}
	// a comparison is decided when the contents it depends on are known; with
	// different lengths equality is decided whatever the contents
	switch {
	case name == "errors.New" || name == "fmt.Errorf":
		if v != nil {
			w.env.bind(v, 1)
		}
		return true
	case name == "bytes.Equal" || strings.HasPrefix(name, "slices.Equal") || name == "crypto/subtle.ConstantTimeCompare" || name == "crypto/hmac.Equal":
		x, y, ok := two()
		if ok && v != nil {
			if len(x) != len(y) {
				w.env.bind(v, 0)
			} else if c21Known(x, y) {
				w.env.bind(v, c21B(c21Cmp(x, y) == 0))
			}
		}
		return true
	case name == "bytes.Compare" || strings.HasPrefix(name, "slices.Compare"):
		if x, y, ok := two(); ok && v != nil && c21Known(x, y) {
			w.env.bind(v, c21Cmp(x, y))
		}
		return true
	case name == "bytes.HasSuffix" || name == "bytes.HasPrefix":
		if x, y, ok := two(); ok && v != nil {
			switch {
			case len(y) > len(x):
				w.env.bind(v, 0)
			case name == "bytes.HasSuffix" && c21Known(x[len(x)-len(y):], y):
				w.env.bind(v, c21B(c21Cmp(x[len(x)-len(y):], y) == 0))
			case name == "bytes.HasPrefix" && c21Known(x[:len(y)], y):
				w.env.bind(v, c21B(c21Cmp(x[:len(y)], y) == 0))
			}
		}
		return true
	case name == "bytes.Repeat" || strings.HasPrefix(name, "slices.Repeat"):
		if len(a) == 2 {
			x, ok1 := s.bytesOf(w, a[0])
			n, ok2 := w.env.eval(a[1])
			if ok1 && ok2 && n >= 0 && n*int64(len(x)) <= 1<<16 {
				var out []int64
				for i := int64(0); i < n; i++ {
					out = append(out, x...)
				}
				s.result(w, ci, "repeat", out)
			} else if ok2 && n < 0 {
				s.flag("bytes.Repeat with a negative count (panics)")
			}
		}
		return true
	case name == "bytes.Clone" || strings.HasPrefix(name, "slices.Clone"):
		if len(a) == 1 {
			if x, ok := s.bytesOf(w, a[0]); ok {
				s.result(w, ci, "clone", x)
			}
		}
		return true
	case name == "builtin:copy":
		if len(a) == 2 {
			d, ok1 := s.bytesOf(w, a[0])
			x, ok2 := s.bytesOf(w, a[1])
			if ok1 && ok2 {
				copy(d, append([]int64(nil), x...))
			} else if ok1 {
				for i := range d {
					d[i] = c21Unk
				}
			}
		}
		return true
	case name == "builtin:append":
		if len(a) == 2 && v != nil {
			n0, ok0 := w.env.eval(a[0])
			n1, ok1 := w.env.eval(a[1])
			x, okx := s.bytesOf(w, a[0])
			y, oky := s.bytesOf(w, a[1])
			switch {
			case okx && oky:
				s.result(w, ci, "append", append(append([]int64(nil), x...), y...))
			case ok0 && ok1:
				w.env.bind(v, n0+n1)
				delete(w.cls, v)
			default:
				delete(w.env.vals, v)
				delete(w.cls, v)
			}
		}
		return true
	case name == "builtin:clear":
		if len(a) == 1 {
			if d, ok := s.bytesOf(w, a[0]); ok {
				for i := range d {
					d[i] = 0
				}
			}
		}
		return true
	case name == "crypto/subtle.ConstantTimeByteEq" || name == "crypto/subtle.ConstantTimeEq":
		if n, ok := ints(); ok && len(n) == 2 && v != nil {
			w.env.bind(v, c21B(n[0] == n[1]))
		}
		return true
	case name == "crypto/subtle.ConstantTimeLessOrEq":
		if n, ok := ints(); ok && len(n) == 2 && v != nil {
			w.env.bind(v, c21B(n[0] <= n[1]))
		}
		return true
	case name == "crypto/subtle.ConstantTimeSelect":
		if n, ok := ints(); ok && len(n) == 3 && v != nil {
			if n[0] == 1 {
				w.env.bind(v, n[1])
			} else {
				w.env.bind(v, n[2])
			}
		}
		return true
	}
	return false
}

// walker: a pathWalker wired to this simulation. opaque names the helpers of
// the package that the rule models itself; every other helper of the package is
// interpreted in place, and one that cannot be (its body leaves the finite
// domain) is reported, never skipped.
func (s *c21Sim) walker(root *ssa.Function) *pathWalker {
	w := &pathWalker{env: newEnv(), lengths: true, maxSteps: 20000, opaque: s.opaque}
	w.cls = map[ssa.Value]string{}
	w.off = map[ssa.Value]int64{}
	w.tuple = map[ssa.Value][]optInt{}
	c21Prebind(w.env, root)
	w.onInline = func(parent, child *pathWalker, callee *ssa.Function, args []ssa.Value) {
		c21Prebind(child.env, callee)
		s.fieldVals(child, callee)
		for i, p := range callee.Params {
			if i < len(args) {
				// buffers are created lazily: make sure the view of an argument that
				// has not been looked at yet follows it into the parameter
				if r := s.ref(parent, args[i]); r.ok {
					s.setRef(child, p, r)
				}
				s.setNil(child, p, s.nilOf(args[i]))
			}
		}
	}
	w.onReturn = func(parent, child *pathWalker, call *ssa.Call, results []ssa.Value) {
		var rs []c21Ref
		var ns []int
		for _, r := range results {
			rs = append(rs, s.ref(child, r))
			ns = append(ns, s.nilOf(r))
		}
		s.tup[call] = rs
		s.tupNil[call] = ns
		if len(results) == 1 {
			s.setNil(parent, call, ns[0])
		}
	}
	w.onExtract = func(w *pathWalker, ex *ssa.Extract) {
		if rs, ok := s.tup[ex.Tuple]; ok && ex.Index < len(rs) {
			s.setRef(w, ex, rs[ex.Index])
			s.setNil(w, ex, s.tupNil[ex.Tuple][ex.Index])
		}
	}
	w.onSlice = func(w *pathWalker, sl *ssa.Slice) {
		delete(w.cls, sl)
		s.setRef(w, sl, s.ref(w, sl))
		delete(s.nn, sl)
		s.setNil(w, sl, s.nilOf(sl))
	}
	w.onPhi = func(w *pathWalker, ph *ssa.Phi, in ssa.Value) {
		s.setRef(w, ph, s.ref(w, in))
		s.setNil(w, ph, s.nilOf(in))
	}
	indexOOB := func(w *pathWalker, ia *ssa.IndexAddr) {
		// the walker marks this too, but on a trial copy that is thrown away when
		// a helper's interpretation is abandoned
		if k, ok := w.env.eval(ia.Index); ok {
			if L, known := w.env.vals[ia.X]; known && (k < 0 || k >= L) {
				s.oob = true
			}
		}
	}
	w.onStore = func(w *pathWalker, st *ssa.Store) string {
		ia, ok := st.Addr.(*ssa.IndexAddr)
		if !ok {
			return ""
		}
		indexOOB(w, ia)
		r := s.ref(w, ia.X)
		if !r.ok {
			return ""
		}
		b := s.mem[r.name]
		k, ok := w.env.eval(ia.Index)
		if !ok {
			for i := range b {
				b[i] = c21Unk
			}
			return ""
		}
		if p := r.off + k; p >= 0 && p < int64(len(b)) {
			if n, ok := w.env.eval(st.Val); ok {
				b[p] = n
			} else {
				b[p] = c21Unk
			}
		} else {
			s.oob = true
		}
		return ""
	}
	w.onLoad = func(w *pathWalker, u *ssa.UnOp) (int64, bool) {
		if ia, ok := u.X.(*ssa.IndexAddr); ok {
			indexOOB(w, ia)
			if r := s.ref(w, ia.X); r.ok {
				if k, ok := w.env.eval(ia.Index); ok {
					b := s.mem[r.name]
					p := r.off + k
					if p < 0 || p >= int64(len(b)) {
						s.oob = true
					} else if b[p] != c21Unk {
						return b[p], true
					}
				}
				return 0, false
			}
		}
		if g, ok := u.X.(*ssa.Global); ok && c21IsErrorType(u.Type()) {
			return s.errID(g.Name()), true
		}
		if s.load != nil {
			return s.load(w, u)
		}
		return 0, false
	}
	w.onCall = func(w *pathWalker, ci ssa.CallInstruction) string {
		cc := ci.Common()
		name := short(calleeName(cc))
		if s.call != nil && s.call(w, ci, name) {
			return ""
		}
		if s.generic(w, ci, name) {
			return ""
		}
		if callee := cc.StaticCallee(); callee != nil && len(callee.Blocks) > 0 && callee.Pkg == root.Pkg {
			s.flag("the helper " + callee.Name() + " could not be interpreted over the finite domain (" + w.why + ")")
		}
		return ""
	}
	return w
}

// fieldVals: fields selected from struct VALUES (a struct passed or copied by
// value) get the value the rule's load hook supplies for that field.
func (s *c21Sim) fieldVals(w *pathWalker, fn *ssa.Function) {
	if s.load == nil {
		return
	}
	allInstrs(fn, func(in ssa.Instruction) {
		if x, ok := in.(*ssa.Field); ok {
			if n, ok := s.load(w, x); ok {
				w.env.bind(x, n)
			}
		}
	})
}

// walk interprets f from its entry.
func (s *c21Sim) walk(w *pathWalker, f *ssa.Function) string {
	s.fieldVals(w, f)
	return w.walk(f.Blocks[0], nil)
}

// setTuple gives an opaque call's results abstract values.
func c21SetTuple(w *pathWalker, ci ssa.CallInstruction, rs ...optInt) {
	v, ok := ci.(ssa.Value)
	if !ok {
		return
	}
	if len(rs) == 1 {
		if rs[0].ok {
			w.env.bind(v, rs[0].n)
		}
		return
	}
	if w.tuple == nil {
		w.tuple = map[ssa.Value][]optInt{}
	}
	w.tuple[v] = rs
}

// c21FieldPath: the chain of field selections that leads to v (through loads,
// and through a helper's parameter to the argument of its single call site),
// and the value the chain starts from.
func c21FieldPath(c *Ctx, v ssa.Value) (base ssa.Value, fields []string) {
	for i := 0; i < 16; i++ {
		v = c.origin(v)
		switch x := v.(type) {
		case *ssa.UnOp:
			if x.Op != token.MUL {
				return v, fields
			}
			v = x.X
		case *ssa.FieldAddr:
			st := derefStruct(x.X.Type())
			if st == nil {
				return v, fields
			}
			fields = append([]string{st.Field(x.Field).Name()}, fields...)
			v = x.X
		case *ssa.Field:
			st, _ := x.X.Type().Underlying().(*types.Struct)
			if st == nil {
				return v, fields
			}
			fields = append([]string{st.Field(x.Field).Name()}, fields...)
			v = x.X
		default:
			return v, fields
		}
	}
	return v, fields
}
