package main

import (
	"fmt"
	"go/token"
	"go/types"
	"strings"

	"golang.org/x/tools/go/ssa"
)

// Data message MAC gate of processData, decided on processData together with
// the helpers of the package it calls: values are identified by provenance
// (c.origin follows a helper's parameters to the arguments), the comparison is
// recognised in any of its constant-time forms, the edges behind which it has
// succeeded are computed value-sensitively (c47Gate: `if a || cmp == 0`,
// `ok := a && cmp == 1`, `if !macOK(...)`, `if err := checkMAC(...); err != nil`)
// and the guarded effects are searched with helper calls expanded in place.

type c47MAC struct {
	c    *Ctx
	f    *ssa.Function
	tree []*ssa.Function
}

// hmacOf: v is h.Sum(...) of a hash created by crypto/hmac.New in the tree;
// returns the hmac.New call.
func (m *c47MAC) hmacOf(v ssa.Value) *ssa.Call {
	cl, ok := m.c.origin(v).(*ssa.Call)
	if !ok || !cl.Call.IsInvoke() || cl.Call.Method.Name() != "Sum" {
		return nil
	}
	return m.hmacNew(cl.Call.Value)
}

func (m *c47MAC) hmacNew(h ssa.Value) *ssa.Call {
	h = m.c.origin(h)
	if nc, ok := h.(*ssa.Call); ok && calleeName(&nc.Call) == "crypto/hmac.New" {
		return nc
	}
	return nil
}

// wireMAC: v is the 20-byte MAC field read from the message.
func (m *c47MAC) wireMAC(v ssa.Value) *ssa.Call {
	ex, ok := m.c.origin(v).(*ssa.Extract)
	if !ok || ex.Index != 0 {
		return nil
	}
	cl, ok := ex.Tuple.(*ssa.Call)
	if !ok || short(calleeName(&cl.Call)) != "otr.getNBytes" || len(cl.Call.Args) != 2 {
		return nil
	}
	if k, isK := constInt(cl.Call.Args[1]); !isK || k != 20 {
		return nil
	}
	return cl
}

// macCompare: call is a constant-time comparison of a computed HMAC with the
// message's MAC field; returns the hmac.New call and the getNBytes call.
func (m *c47MAC) macCompare(call *ssa.Call) (*ssa.Call, *ssa.Call, bool) {
	switch calleeName(&call.Call) {
	case "crypto/subtle.ConstantTimeCompare", "crypto/hmac.Equal":
	default:
		return nil, nil, false
	}
	if len(call.Call.Args) != 2 {
		return nil, nil, false
	}
	a, b := call.Call.Args[0], call.Call.Args[1]
	if h, w := m.hmacOf(a), m.wireMAC(b); h != nil && w != nil {
		return h, w, true
	}
	if h, w := m.hmacOf(b), m.wireMAC(a); h != nil && w != nil {
		return h, w, true
	}
	return nil, nil, false
}

func (m *c47MAC) isFieldOrigin(v ssa.Value, typ, field string) bool {
	return isField(m.c.origin(sliceBase(m.c.origin(v))), typ, field) || isField(sliceBase(m.c.origin(v)), typ, field)
}

func c47DataMAC(c *Ctx) {
	f := c.fn("otr", "(*Conversation).processData")
	if f == nil {
		return
	}
	m := &c47MAC{c: c, f: f, tree: deepFuncs(f)}
	// the comparisons between a computed HMAC and the message's MAC field
	var cmps []*ssa.Call
	var anyCT []ssa.Instruction
	hmacs := map[*ssa.Call]bool{}
	var wire *ssa.Call
	deepInstrs(f, func(in ssa.Instruction) {
		call, ok := in.(*ssa.Call)
		if !ok {
			return
		}
		switch calleeName(&call.Call) {
		case "crypto/subtle.ConstantTimeCompare", "crypto/hmac.Equal":
			anyCT = append(anyCT, call)
		}
		if h, w, ok := m.macCompare(call); ok {
			cmps = append(cmps, call)
			hmacs[h] = true
			wire = w
		}
	})
	if len(cmps) == 0 {
		at := poser(f)
		if len(anyCT) > 0 {
			at = anyCT[0]
		}
		c.fail("C47.mac-gate", "compared values", at, "no constant-time comparison between the computed HMAC and the message's 20-byte MAC field in processData or its helpers")
		return
	}
	c.ok("C47.mac-gate", "compared values", cmps[0], "the computed HMAC is compared in constant time with the 20-byte MAC field of the message")
	isCmp := func(call *ssa.Call) bool {
		_, _, ok := m.macCompare(call)
		return ok
	}
	intGate := c47DomainGate(func(call *ssa.Call) bool {
		return calleeName(&call.Call) == "crypto/subtle.ConstantTimeCompare" && isCmp(call)
	}, []int64{0, 1}, func(d int64) bool { return d == 1 })
	g := c.c47NewGate(func(v ssa.Value) (bool, bool) {
		if call, ok := v.(*ssa.Call); ok && calleeName(&call.Call) == "crypto/hmac.Equal" && isCmp(call) {
			return true, true
		}
		return intGate(v)
	})
	cut := g.passDeep(f)

	// the effects that must lie behind the MAC check
	type sink struct {
		in   ssa.Instruction
		kind string
		at   poser
	}
	var sinks []sink
	kinds := map[string]int{}
	add := func(in ssa.Instruction, kind string) {
		sinks = append(sinks, sink{in, kind, in})
		kinds[kind]++
	}
	deepInstrs(f, func(in ssa.Instruction) {
		switch x := in.(type) {
		case ssa.CallInstruction:
			cc := x.Common()
			n := calleeName(cc)
			if strings.Contains(n, "XORKeyStream") || n == "crypto/cipher.(*StreamReader).Read" {
				add(in, "decryption (XORKeyStream)")
			}
			if n == "builtin:copy" && len(cc.Args) == 2 && m.isFieldOrigin(cc.Args[0], "keySlot", "theirLastCtr") {
				add(in, "counter update")
			}
		case *ssa.Store:
			if t, fld, _, ok := fieldOf(x.Addr); ok && t == "Conversation" && fld == "myKeyId" {
				add(in, "my key id advance (key rotation)")
			}
			if t, fld, _, ok := fieldOf(x.Addr); ok && t == "Conversation" && fld == "theirKeyId" {
				add(in, "their key id advance")
			}
			if m.isFieldOrigin(x.Addr, "keySlot", "theirLastCtr") {
				add(in, "counter update")
			} else if ia, ok := x.Addr.(*ssa.IndexAddr); ok && m.isFieldOrigin(ia.X, "keySlot", "theirLastCtr") {
				add(in, "counter update")
			}
		}
	})
	// a non-nil plaintext result: the return, or the edge over which a non-nil value enters the result
	outIdx := -1
	res := f.Signature.Results()
	for i := 0; i < res.Len(); i++ {
		if s, ok := res.At(i).Type().Underlying().(*types.Slice); ok && outIdx < 0 {
			if b, ok := s.Elem().Underlying().(*types.Basic); ok && b.Kind() == types.Uint8 {
				outIdx = i
			}
		}
	}
	if outIdx >= 0 {
		for _, r := range returnsOf(f) {
			for _, leaf := range phiLeaves(retVal(r, outIdx)) {
				if isNilConst(leaf.val) {
					continue
				}
				if leaf.phi == nil {
					add(r, "plaintext return")
					continue
				}
				open := false
				for i, s := range leaf.pred.Succs {
					if s == leaf.phi.Block() && !cut[edge{leaf.pred, i}] {
						open = true
					}
				}
				kinds["plaintext return"]++
				if open {
					var at poser = r
					if vi, ok := leaf.val.(ssa.Instruction); ok && vi.Pos().IsValid() {
						at = vi
					}
					sinks = append(sinks, sink{leaf.pred.Instrs[len(leaf.pred.Instrs)-1], "plaintext return", at})
				}
			}
		}
	}
	for _, k := range []string{"decryption (XORKeyStream)", "counter update", "my key id advance (key rotation)", "their key id advance", "plaintext return"} {
		if kinds[k] == 0 {
			c.fail("C47.mac-gate", "processData effects", f, "effect not found in processData or its helpers (rule anchor lost): "+k)
		}
	}
	reported := map[string]bool{}
	for _, s := range sinks {
		open := deepReach(f, cut, func(in ssa.Instruction) bool { return in == s.in })
		if open != nil {
			c.fail("C47.mac-gate", s.kind, s.at, "reachable without passing the MAC comparison: "+s.kind)
		} else if !reported[s.kind] {
			c.ok("C47.mac-gate", s.kind, s.at, fmt.Sprintf("every path from the entry of processData (helpers expanded in place) passes a success edge of the MAC comparison (%d pass edges)", len(cut)))
		}
		reported[s.kind] = true
	}
	if kinds["plaintext return"] > 0 && !reported["plaintext return"] {
		c.ok("C47.mac-gate", "plaintext return", f, "every non-nil plaintext value enters the result over a success edge of the MAC comparison")
	}
	// MAC construction: hmac.New(sha1.New, slot.recvMACKey)
	okKey := len(hmacs) > 0
	for h := range hmacs {
		if len(h.Call.Args) != 2 || funcValueName(h.Call.Args[0]) != "crypto/sha1.New" || !isField(c.origin(h.Call.Args[1]), "keySlot", "recvMACKey") {
			okKey = false
		}
	}
	c.check(okKey, "C47.mac-gate", "MAC algorithm and key", f, "HMAC-SHA1 keyed with the slot's receiving MAC key", "the data MAC is not HMAC-SHA1 under the slot's receiving MAC key")
	// MAC'd region = in[: len(in) - len(rest after the encrypted payload)], where that rest is what the MAC field is read from
	okRegion := false
	in := ssa.Value(f.Params[1])
	deepInstrs(f, func(ins ssa.Instruction) {
		cl, ok := ins.(*ssa.Call)
		if !ok || !cl.Call.IsInvoke() || cl.Call.Method.Name() != "Write" || len(cl.Call.Args) != 1 {
			return
		}
		if h := m.hmacNew(cl.Call.Value); h == nil || !hmacs[h] {
			return
		}
		sl, ok := c.origin(cl.Call.Args[0]).(*ssa.Slice)
		if !ok || c.origin(sl.X) != c.origin(in) || sl.High == nil {
			return
		}
		if sl.Low != nil {
			if k, isK := constInt(sl.Low); !isK || k != 0 {
				return
			}
		}
		sub, ok := sl.High.(*ssa.BinOp)
		if !ok || sub.Op != token.SUB {
			return
		}
		l1, ok1 := sub.X.(*ssa.Call)
		l2, ok2 := sub.Y.(*ssa.Call)
		if !ok1 || !ok2 || calleeName(&l1.Call) != "builtin:len" || calleeName(&l2.Call) != "builtin:len" || c.origin(l1.Call.Args[0]) != c.origin(in) {
			return
		}
		// l2's operand is the remainder the MAC field is read from
		if wire != nil && c.origin(l2.Call.Args[0]) == c.origin(wire.Call.Args[0]) {
			okRegion = true
		}
	})
	c.check(okRegion, "C47.mac-gate", "MAC'd region", f, "the MAC covers the received bytes from the start of the message up to (not including) the MAC field", "the MAC does not cover exactly the received bytes that precede the MAC field")
	// counter regression precedes decryption and the counter update
	g2 := c.c47NewGate(m.counterGate)
	cut2 := g2.passDeep(f)
	okCtr, nDec := len(cut2) > 0, 0
	var openAt ssa.Instruction
	for _, s := range sinks {
		if s.kind != "decryption (XORKeyStream)" && s.kind != "counter update" {
			continue
		}
		nDec++
		if t := deepReach(f, cut2, func(in ssa.Instruction) bool { return in == s.in }); t != nil {
			okCtr, openAt = false, t
		}
	}
	at := poser(f)
	if openAt != nil {
		at = openAt
	}
	c.check(okCtr && nDec > 0, "C47.mac-gate", "counter monotonic", at, "decryption and the counter update happen only when the message counter is greater than the slot's last counter", "a replayed or regressed counter reaches decryption / the counter update")
}
